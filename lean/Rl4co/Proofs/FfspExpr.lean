/-
FFSP, C05: the schedules reachable through the action mask are exactly the *expressible* schedules
(`Spec.Ffsp.Expressible`).  Part 1 (this file): every finished mask-confined episode carries an
expressible schedule.  The proof follows the sweep: for every slot `(t, sub)` the clock has passed, the
machine of that slot was started, was busy, had no available job, or was allowed to stay idle — a
statement about the (growing) schedule matrix that is stable under every later step.  No Mathlib.
-/
import Rl4co.Proofs.FfspWork
namespace Rl4co.Ffsp
open Rl4co.Spec.Ffsp

/-- the machine permutation is injective (true of every `IndexTables` row, `tables_perm_inj`) -/
def PermInj (i : Inst) : Prop := ∀ p q, p < i.M → q < i.M → i.perm p = i.perm q → p = q

theorem machineOf_inj (i : Inst) (h : WF i) (hi : PermInj i) {a b : Nat}
    (he : machineOf i a = machineOf i b) : a = b := by
  unfold machineOf at he
  have ha := h.perm_lt (a % i.M) (Nat.mod_lt _ h.M_pos)
  have hb := h.perm_lt (b % i.M) (Nat.mod_lt _ h.M_pos)
  obtain ⟨h1, h2⟩ := divmod_unique ha hb he
  have h3 := hi _ _ (Nat.mod_lt _ h.M_pos) (Nat.mod_lt _ h.M_pos) h1
  have e1 := Nat.div_add_mod a i.M
  have e2 := Nat.div_add_mod b i.M
  rw [h2, h3] at e1
  omega

/-- a job that is still being processed finishes exactly `jwait` time units from now -/
def JExact (i : Inst) (s : State) : Prop := ∀ j, j < i.J → 0 < s.jwait j →
  ∃ m, s.sched m j ≠ UNSET ∧ s.sched m j + (i.dur j m : Int) = (s.time : Int) + (s.jwait j : Int)

/-- a busy machine finishes its operation exactly `mwait` time units from now -/
def MExact (i : Inst) (s : State) : Prop := ∀ m, 0 < s.mwait m →
  ∃ j, j < i.J ∧ s.sched m j ≠ UNSET ∧ s.sched m j + (i.dur j m : Int) = (s.time : Int) + (s.mwait m : Int)

/-- bookkeeping facts about the current time unit: `n` bounds the sweep positions already used -/
structure Aux (i : Inst) (s : State) (n : Nat) : Prop where
  jx : JExact i s
  mx : MExact i s
  np : ∀ m j, j < i.J → s.sched m j ≠ UNSET → s.sched m j = (s.time : Int) →
    ∃ sub, sub < n ∧ sub < MT i ∧ m = machineOf i sub
  nd : ∀ m j j', j < i.J → j' < i.J → j ≠ j' → s.sched m j ≠ UNSET → s.sched m j' ≠ UNSET →
    s.sched m j ≠ s.sched m j'

theorem aux_reset (i : Inst) : Aux i (reset i) 0 where
  jx := fun _ _ hp => absurd hp (Nat.lt_irrefl 0)
  mx := fun _ hp => absurd hp (Nat.lt_irrefl 0)
  np := fun _ _ _ hs => absurd rfl hs
  nd := fun _ _ _ _ _ _ hs => absurd rfl hs

theorem aux_weaken {i : Inst} {s : State} {n n' : Nat} (a : Aux i s n) (h : n ≤ n') : Aux i s n' :=
  { jx := a.jx, mx := a.mx, nd := a.nd
    np := fun m j hj hs ht => by
      obtain ⟨sub, h1, h2, h3⟩ := a.np m j hj hs ht
      exact ⟨sub, by omega, h2, h3⟩ }

theorem aux_updateMask {i : Inst} {s : State} {n : Nat} (a : Aux i s n) : Aux i (updateMask i s) n :=
  { jx := a.jx, mx := a.mx, np := a.np, nd := a.nd }

theorem aux_advance (i : Inst) (x : State) (c : Core i x) (a : Aux i x (x.sub + 1)) :
    Aux i (advance i x) (advance i x).sub := by
  by_cases hw : x.sub + 1 = MT i
  · have hb : (x.sub + 1 == MT i) = true := by simpa using hw
    have e1 : (advance i x).jwait = fun j => x.jwait j - 1 := by simp [advance, hb]
    have e2 : (advance i x).mwait = fun m => x.mwait m - 1 := by simp [advance, hb]
    have e4 : (advance i x).time = x.time + 1 := by simp [advance, hb]
    have e5 : (advance i x).sched = x.sched := rfl
    exact {
      jx := by
        intro j hj hp
        rw [e1] at hp; simp only at hp
        obtain ⟨m, h1, h2⟩ := a.jx j hj (by omega)
        exact ⟨m, by rw [e5]; exact h1, by rw [e5, e4, e1]; simp only; omega⟩
      mx := by
        intro m hp
        rw [e2] at hp; simp only at hp
        obtain ⟨j, hj, h1, h2⟩ := a.mx m (by omega)
        exact ⟨j, hj, by rw [e5]; exact h1, by rw [e5, e4, e2]; simp only; omega⟩
      np := by
        intro m j hj hs ht
        rw [e5] at hs ht; rw [e4] at ht
        have := (c.start_rng m j hj hs).2
        omega
      nd := a.nd }
  · have hb : (x.sub + 1 == MT i) = false := by simpa using hw
    have e1 : (advance i x).jwait = x.jwait := by simp [advance, hb]
    have e2 : (advance i x).mwait = x.mwait := by simp [advance, hb]
    have e3 : (advance i x).sub = x.sub + 1 := by simp [advance, hb]
    have e4 : (advance i x).time = x.time := by simp [advance, hb]
    have e5 : (advance i x).sched = x.sched := rfl
    exact {
      jx := by intro j hj hp; rw [e1] at hp; rw [e5, e4, e1]; exact a.jx j hj hp
      mx := by intro m hp; rw [e2] at hp; rw [e5, e4, e2]; exact a.mx m hp
      np := by intro m j hj hs ht; rw [e5] at hs ht; rw [e4] at ht; rw [e3]; exact a.np m j hj hs ht
      nd := a.nd }


/-- facts a live, unfinished decision state provides about an admitted job action -/
theorem job_action_facts (i : Inst) (h : WF i) (s : State) (l : Live i s) (a : Nat) (ha : a < i.J)
    (hm : s.mask a = true) :
    s.done = false ∧ s.jloc a = stageOf i s.sub ∧ s.jwait a = 0 ∧ s.mwait s.midx = 0 ∧
    s.midx = machineOf i s.sub ∧ s.midx < MT i ∧ s.midx / i.M = s.sub / i.M ∧ s.sched s.midx a = UNSET := by
  have hmk := mask_job i s l.fresh ha
  rw [hm] at hmk
  simp only [Bool.true_eq, Bool.and_eq_true, beq_iff_eq] at hmk
  have hd : s.done = false := by
    cases hdd : s.done with
    | false => rfl
    | true =>
      have := mask_of_done i s l hdd a
      rw [hm] at this
      have : a = i.J := by simpa using this.symm
      omega
  have hr := l.rdy hd
  simp only [ready, Bool.and_eq_true, beq_iff_eq] at hr
  have hk : s.midx / i.M = s.sub / i.M := by rw [l.core.midx_eq, machineOf_stage h]
  refine ⟨hd, hmk.1, hmk.2, hr.1, l.core.midx_eq, ?_, hk, ?_⟩
  · rw [l.core.midx_eq]; exact machineOf_lt h l.core.sub_lt
  · apply Classical.byContradiction; intro hne
    have := (l.core.set_stage s.midx a ha hne).2
    have h1 : s.jloc a = s.sub / i.M := hmk.1
    omega

theorem aux_apply_job (i : Inst) (h : WF i) (hi : PermInj i) (s : State) (l : Live i s) (a : Nat)
    (ha : a < i.J) (hm : s.mask a = true) (x : Aux i s s.sub) : Aux i (apply i s a) (s.sub + 1) := by
  obtain ⟨hd, _, hjw, hmw, hmid, hmlt, _, hun⟩ := job_action_facts i h s l a ha hm
  obtain ⟨e1, _, _, _, e5, e6, _, _⟩ := apply_fields i s a
  have hdur : jobDur i a s.midx = i.dur a s.midx := by simp [jobDur, ha]
  have hU := unset_neg
  have hnew : (apply i s a).sched s.midx a = (s.time : Int) := by rw [apply_sched]; simp
  have hold : ∀ m j, ¬ (m = s.midx ∧ j = a) → (apply i s a).sched m j = s.sched m j := by
    intro m j hn; rw [apply_sched, if_neg hn]
  exact {
    jx := by
      intro j hj hp
      by_cases hja : j = a
      · subst hja
        refine ⟨s.midx, by rw [hnew]; omega, ?_⟩
        rw [hnew, e1, e6, upd_same, hdur]
      · rw [e6, upd_other _ _ _ _ hja] at hp
        obtain ⟨m, h1, h2⟩ := x.jx j hj hp
        have hn : ¬ (m = s.midx ∧ j = a) := fun hh => hja hh.2
        exact ⟨m, by rw [hold m j hn]; exact h1, by rw [hold m j hn, e1, e6, upd_other _ _ _ _ hja]; exact h2⟩
    mx := by
      intro m hp
      by_cases hmm : m = s.midx
      · subst hmm
        refine ⟨a, ha, by rw [hnew]; omega, ?_⟩
        rw [hnew, e1, e5, upd_same, hdur]
      · rw [e5, upd_other _ _ _ _ hmm] at hp
        obtain ⟨j, hj, h1, h2⟩ := x.mx m hp
        have hn : ¬ (m = s.midx ∧ j = a) := fun hh => hmm hh.1
        exact ⟨j, hj, by rw [hold m j hn]; exact h1, by rw [hold m j hn, e1, e5, upd_other _ _ _ _ hmm]; exact h2⟩
    np := by
      intro m j hj hs ht
      rw [e1] at ht
      by_cases hc : m = s.midx ∧ j = a
      · exact ⟨s.sub, by omega, l.core.sub_lt, by rw [hc.1]; exact hmid⟩
      · rw [hold m j hc] at hs ht
        obtain ⟨sub, h1, h2, h3⟩ := x.np m j hj hs ht
        exact ⟨sub, by omega, h2, h3⟩
    nd := by
      intro m j j' hj hj' hne hs hs'
      -- an older entry of the current machine at the current time would sit at an earlier sweep position
      have key : ∀ j'', j'' < i.J → j'' ≠ a → s.sched s.midx j'' ≠ UNSET → s.sched s.midx j'' ≠ (s.time : Int) := by
        intro j'' hj'' _ hs'' ht
        obtain ⟨sub, h1, _, h3⟩ := x.np s.midx j'' hj'' hs'' ht
        rw [hmid] at h3
        have := machineOf_inj i h hi h3
        omega
      by_cases hc : m = s.midx ∧ j = a
      · have hn' : ¬ (m = s.midx ∧ j' = a) := fun hh => hne (hc.2.trans hh.2.symm)
        rw [hold m j' hn'] at hs' ⊢
        rw [hc.1, hc.2, hnew]
        rw [hc.1] at hs'
        exact fun he => key j' hj' (fun hh => hne (hc.2.trans hh.symm)) hs' he.symm
      · by_cases hc' : m = s.midx ∧ j' = a
        · rw [hold m j hc] at hs ⊢
          rw [hc'.1, hc'.2, hnew]
          rw [hc'.1] at hs
          exact key j hj (fun hh => hne (hh.trans hc'.2.symm)) hs
        · rw [hold m j hc, hold m j' hc'] at *
          exact x.nd m j j' hj hj' hne hs hs' }

theorem aux_apply_wait (i : Inst) (s : State) (x : Aux i s s.sub) : Aux i (apply i s i.J) (s.sub + 1) := by
  obtain ⟨e1, _, _, _, e5, e6, _, _⟩ := apply_fields i s i.J
  have hold : ∀ m j, j < i.J → (apply i s i.J).sched m j = s.sched m j := by
    intro m j hj; rw [apply_sched]
    have : ¬ (m = s.midx ∧ j = i.J) := fun hh => by omega
    simp [this]
  have hd0 : jobDur i i.J s.midx = 0 := by simp [jobDur]
  exact {
    jx := by
      intro j hj hp
      rw [e6, upd_other _ _ _ _ (by omega)] at hp
      obtain ⟨m, h1, h2⟩ := x.jx j hj hp
      exact ⟨m, by rw [hold m j hj]; exact h1, by rw [hold m j hj, e1, e6, upd_other _ _ _ _ (by omega)]; exact h2⟩
    mx := by
      intro m hp
      by_cases hmm : m = s.midx
      · rw [hmm, e5, upd_same, hd0] at hp; omega
      · rw [e5, upd_other _ _ _ _ hmm] at hp
        obtain ⟨j, hj, h1, h2⟩ := x.mx m hp
        exact ⟨j, hj, by rw [hold m j hj]; exact h1, by rw [hold m j hj, e1, e5, upd_other _ _ _ _ hmm]; exact h2⟩
    np := by
      intro m j hj hs ht
      rw [hold m j hj] at hs ht; rw [e1] at ht
      obtain ⟨sub, h1, h2, h3⟩ := x.np m j hj hs ht
      exact ⟨sub, by omega, h2, h3⟩
    nd := by
      intro m j j' hj hj' hne hs hs'
      rw [hold m j hj] at hs ⊢; rw [hold m j' hj'] at hs' ⊢
      exact x.nd m j j' hj hj' hne hs hs' }


/-! ### The per-slot statement and its stability -/

/-- clock position -/
def spos (i : Inst) (s : State) : Nat := s.time * MT i + s.sub

theorem slot_lt {n t sub t' sub' : Nat} (_h1 : sub < n) (h2 : sub' < n) (h : t * n + sub < t' * n + sub') :
    t < t' ∨ (t = t' ∧ sub < sub') := by
  by_cases hlt : t < t'
  · exact Or.inl hlt
  · right
    have hge : t' ≤ t := by omega
    by_cases heq : t = t'
    · subst heq; exact ⟨rfl, by omega⟩
    · exfalso
      have : t' + 1 ≤ t := by omega
      have := Nat.mul_le_mul_right n this
      rw [Nat.succ_mul] at this
      omega

theorem spos_advance (i : Inst) (x : State) (_hx : x.sub < MT i) : spos i (advance i x) = spos i x + 1 := by
  unfold spos
  by_cases hw : x.sub + 1 = MT i
  · have hb : (x.sub + 1 == MT i) = true := by simpa using hw
    simp only [advance, hb, if_true]
    rw [Nat.succ_mul]; omega
  · have hb : (x.sub + 1 == MT i) = false := by simpa using hw
    simp only [advance, hb, Bool.false_eq_true, if_false]; omega

/-- the entry `(m', v)` sits at a slot after `(t, sub)` -/
def SlotAfter (i : Inst) (t sub : Nat) (v : Int) (m' : Nat) : Prop :=
  (t : Int) < v ∨ (v = (t : Int) ∧ ∃ sub', sub' < MT i ∧ sub < sub' ∧ m' = machineOf i sub')

/-- job `j` is available at slot `(t, sub)` as far as the (partial) schedule of `s` tells -/
def AvailS (i : Inst) (s : State) (j t sub : Nat) : Prop :=
  (sub / i.M = 0 ∨ ∃ m', m' / i.M + 1 = sub / i.M ∧ s.sched m' j ≠ UNSET ∧
      s.sched m' j + (i.dur j m' : Int) ≤ (t : Int)) ∧
  (∀ m', m' / i.M = sub / i.M → s.sched m' j ≠ UNSET → SlotAfter i t sub (s.sched m' j) m')

/-- what the sweep did at slot `(t, sub)`: started the machine, found it busy, found no available job, or
was allowed to leave it idle -/
def G (i : Inst) (s : State) (t sub : Nat) : Prop :=
  (∃ j, j < i.J ∧ s.sched (machineOf i sub) j = (t : Int)) ∨
  (∃ j, j < i.J ∧ s.sched (machineOf i sub) j ≠ UNSET ∧ s.sched (machineOf i sub) j ≤ (t : Int) ∧
      (t : Int) < s.sched (machineOf i sub) j + (i.dur j (machineOf i sub) : Int)) ∨
  (∀ j, j < i.J → ¬ AvailS i s j t sub) ∨
  (1 ≤ sub / i.M ∧ ∃ j', j' < i.J ∧ ∀ m', m' / i.M + 1 = sub / i.M → s.sched m' j' ≠ UNSET →
      (t : Int) < s.sched m' j' + (i.dur j' m' : Int))

/-- every slot before position `n` is accounted for -/
def HP (i : Inst) (s : State) (n : Nat) : Prop :=
  ∀ t sub, sub < MT i → t * MT i + sub < n → G i s t sub

theorem G_congr (i : Inst) {s x : State} (hs : ∀ m j, j < i.J → x.sched m j = s.sched m j) {t sub : Nat}
    (g : G i s t sub) : G i x t sub := by
  rcases g with ⟨j, hj, h⟩ | ⟨j, hj, h1, h2, h3⟩ | h | ⟨hk, j', hj', h⟩
  · exact Or.inl ⟨j, hj, by rw [hs _ j hj]; exact h⟩
  · exact Or.inr (Or.inl ⟨j, hj, by rw [hs _ j hj]; exact h1, by rw [hs _ j hj]; exact h2,
      by rw [hs _ j hj]; exact h3⟩)
  · refine Or.inr (Or.inr (Or.inl ?_))
    intro j hj hav
    apply h j hj
    obtain ⟨a1, a2⟩ := hav
    constructor
    · rcases a1 with a1 | ⟨m', b1, b2, b3⟩
      · exact Or.inl a1
      · exact Or.inr ⟨m', b1, by rw [← hs m' j hj]; exact b2, by rw [← hs m' j hj]; exact b3⟩
    · intro m' hm' hset
      have := a2 m' hm' (by rw [hs m' j hj]; exact hset)
      rw [hs m' j hj] at this; exact this
  · refine Or.inr (Or.inr (Or.inr ⟨hk, j', hj', ?_⟩))
    intro m' hm' hset
    rw [hs m' j' hj'] at hset ⊢
    exact h m' hm' hset

theorem HP_congr (i : Inst) {s x : State} (hs : ∀ m j, j < i.J → x.sched m j = s.sched m j) {n : Nat}
    (hp : HP i s n) : HP i x n := fun t sub h1 h2 => G_congr i hs (hp t sub h1 h2)

/-- scheduling a job at the current slot does not disturb the account of any earlier slot -/
theorem G_apply_job (i : Inst) (h : WF i) (s : State) (l : Live i s) (a : Nat) (ha : a < i.J)
    (hm : s.mask a = true) {t sub : Nat} (hsub : sub < MT i)
    (hbefore : t * MT i + sub < spos i s) (g : G i s t sub) : G i (apply i s a) t sub := by
  obtain ⟨_, _, _, _, _, _, hstage, hun⟩ := job_action_facts i h s l a ha hm
  have hU := unset_neg
  have hnew : (apply i s a).sched s.midx a = (s.time : Int) := by rw [apply_sched]; simp
  have hold : ∀ m j, ¬ (m = s.midx ∧ j = a) → (apply i s a).sched m j = s.sched m j := by
    intro m j hn; rw [apply_sched, if_neg hn]
  -- entries that were set keep their value
  have hkeep : ∀ m j, s.sched m j ≠ UNSET → (apply i s a).sched m j = s.sched m j := by
    intro m j hs
    apply hold; intro hh; rw [hh.1, hh.2] at hs; exact hs hun
  have hpos := slot_lt hsub l.core.sub_lt hbefore
  -- the new entry is not in a stage before that of the slot at the slot's time
  have hlate : s.midx / i.M + 1 = sub / i.M → (t : Int) < (s.time : Int) := by
    intro hk
    rcases hpos with hlt | ⟨_, hlt⟩
    · omega
    · exfalso
      have := Nat.div_le_div_right (c := i.M) (Nat.le_of_lt hlt)
      omega
  rcases g with ⟨j, hj, hv⟩ | ⟨j, hj, h1, h2, h3⟩ | hna | ⟨hk, j', hj', hsk⟩
  · refine Or.inl ⟨j, hj, ?_⟩
    rw [hkeep _ j (by rw [hv]; omega)]; exact hv
  · refine Or.inr (Or.inl ⟨j, hj, ?_, ?_, ?_⟩) <;> rw [hkeep _ j h1] <;> assumption
  · refine Or.inr (Or.inr (Or.inl ?_))
    intro j hj hav
    apply hna j hj
    obtain ⟨a1, a2⟩ := hav
    constructor
    · rcases a1 with a1 | ⟨m', b1, b2, b3⟩
      · exact Or.inl a1
      · by_cases hc : m' = s.midx ∧ j = a
        · exfalso
          rw [hc.1, hc.2, hnew] at b3
          have := hlate (by rw [← hc.1]; exact b1)
          omega
        · rw [hold m' j hc] at b2 b3
          exact Or.inr ⟨m', b1, b2, b3⟩
    · intro m' hm' hset
      have := a2 m' hm' (by rw [hkeep m' j hset]; exact hset)
      rw [hkeep m' j hset] at this; exact this
  · refine Or.inr (Or.inr (Or.inr ⟨hk, j', hj', ?_⟩))
    intro m' hm' hset
    by_cases hc : m' = s.midx ∧ j' = a
    · rw [hc.1, hc.2, hnew]
      have := hlate (by rw [← hc.1]; exact hm')
      omega
    · rw [hold m' j' hc] at hset ⊢
      exact hsk m' hm' hset


/-! ### Accounting for the slot the clock is leaving -/

theorem G_cur_job (i : Inst) (h : WF i) (s : State) (l : Live i s) (a : Nat) (ha : a < i.J)
    (hm : s.mask a = true) : G i (apply i s a) s.time s.sub := by
  obtain ⟨_, _, _, _, hmid, _⟩ := job_action_facts i h s l a ha hm
  refine Or.inl ⟨a, ha, ?_⟩
  rw [← hmid, apply_sched]; simp

/-- stages of a job finish in order: an entry of an earlier stage ends no later than one of a later stage -/
theorem end_mono (i : Inst) {s : State} (c : Core i s) {j m m' : Nat} (hj : j < i.J)
    (hs : s.sched m j ≠ UNSET) (hs' : s.sched m' j ≠ UNSET) (hlt : m / i.M < m' / i.M) :
    s.sched m j + (i.dur j m : Int) ≤ s.sched m' j + (i.dur j m' : Int) := by
  have := c.order j m m' hj hs hs' hlt
  omega

theorem G_cur_wait (i : Inst) (s : State) (l : Live i s) (hd : s.done = false) (x : Aux i s s.sub)
    (hm : s.mask i.J = true) : G i s s.time s.sub := by
  have hw := l.fresh i.J
  rw [hm] at hw
  simp only [updateMask, Nat.lt_irrefl, if_false, if_true, hd, Bool.or_false, Bool.true_eq,
    Bool.or_eq_true, List.any_eq_true, List.mem_range, decide_eq_true_eq, Bool.and_eq_true,
    beq_iff_eq] at hw
  refine Or.inr (Or.inr (Or.inr ?_))
  rcases hw with ⟨j, hj, hlt⟩ | ⟨j, hj, hloc, hpos⟩
  · -- a job in an earlier stage has no operation in the stage before this one yet
    have hlt' : s.jloc j < s.sub / i.M := hlt
    refine ⟨by omega, j, hj, ?_⟩
    intro m' hm' hset
    have := (l.core.set_stage m' j hj hset).2
    omega
  · -- a job of this stage whose previous operation is still running
    have hloc' : s.jloc j = s.sub / i.M := hloc
    obtain ⟨m0, hs0, he0⟩ := x.jx j hj hpos
    have hst0 := (l.core.set_stage m0 j hj hs0).2
    have hk1 : 1 ≤ s.sub / i.M := by
      rw [← hloc']; exact Nat.lt_of_le_of_lt (Nat.zero_le _) hst0
    refine ⟨hk1, j, hj, ?_⟩
    intro m' hm' hset
    by_cases heq : m0 / i.M = m' / i.M
    · have := l.core.stage_uniq j m0 m' hj hs0 hset heq
      subst this; omega
    · have := end_mono i l.core hj hs0 hset (by omega)
      omega

theorem G_cur_nonready (i : Inst) (h : WF i) (hi : PermInj i) (y : State) (c : Core i y)
    (x : Aux i y y.sub) (hr : ready i y = false) : G i y y.time y.sub := by
  have hmid : y.midx = machineOf i y.sub := c.midx_eq
  by_cases hmw : y.mwait y.midx = 0
  · -- the machine is idle, so no job is ready: no job is available at this slot
    refine Or.inr (Or.inr (Or.inl ?_))
    intro j hj hav
    obtain ⟨a1, a2⟩ := hav
    have hnone : ∀ m', m' / i.M = y.sub / i.M → y.sched m' j = UNSET := by
      intro m' hm'
      apply Classical.byContradiction; intro hset
      rcases a2 m' hm' hset with hlt | ⟨heq, sub', _, hlt, hm2⟩
      · have := (c.start_rng m' j hj hset).2; omega
      · obtain ⟨sub'', h1, _, h3⟩ := x.np m' j hj hset heq
        rw [h3] at hm2
        have := machineOf_inj i h hi hm2
        omega
    have hle : y.jloc j ≤ y.sub / i.M := by
      apply Classical.byContradiction; intro hgt
      obtain ⟨m', h1, h2⟩ := c.stage_has j (y.sub / i.M) hj (by omega)
      exact h2 (hnone m' h1)
    have hloc : y.jloc j = y.sub / i.M ∧ y.jwait j = 0 := by
      rcases a1 with hk0 | ⟨m', b1, b2, b3⟩
      · refine ⟨by omega, ?_⟩
        apply Classical.byContradiction; intro hne
        obtain ⟨m0, hs0, _⟩ := x.jx j hj (by omega)
        have := (c.set_stage m0 j hj hs0).2
        have h0 : y.jloc j = 0 := by omega
        rw [h0] at this
        exact absurd this (Nat.not_lt_zero _)
      · have hst := (c.set_stage m' j hj b2).2
        refine ⟨by omega, ?_⟩
        apply Classical.byContradiction; intro hne
        obtain ⟨m0, hs0, he0⟩ := x.jx j hj (by omega)
        have hst0 := (c.set_stage m0 j hj hs0).2
        by_cases heq : m0 / i.M = m' / i.M
        · have := c.stage_uniq j m0 m' hj hs0 b2 heq
          subst this; omega
        · have := end_mono i c hj hs0 b2 (by omega)
          omega
    have : ready i y = true := by
      simp only [ready, Bool.and_eq_true, beq_iff_eq, List.any_eq_true, List.mem_range]
      exact ⟨hmw, j, hj, by simp [jobReady, stageOf, hloc.1, hloc.2]⟩
    rw [this] at hr; cases hr
  · -- the machine is busy: an operation covers the current time
    obtain ⟨j, hj, hs, he⟩ := x.mx y.midx (by omega)
    have := (c.start_rng y.midx j hj hs).2
    refine Or.inr (Or.inl ⟨j, hj, ?_, ?_, ?_⟩) <;> rw [← hmid]
    · exact hs
    · exact this
    · omega

/-! ### Through the loop, through a step, along a run -/

theorem hist_advance (i : Inst) (x : State) (c : Core i x) (a : Aux i x (x.sub + 1))
    (hp : HP i x (spos i x + 1)) :
    Aux i (advance i x) (advance i x).sub ∧ HP i (advance i x) (spos i (advance i x)) := by
  refine ⟨aux_advance i x c a, ?_⟩
  rw [spos_advance i x c.sub_lt]
  exact HP_congr i (fun _ _ _ => rfl) hp

theorem hist_loop (i : Inst) (h : WF i) (hi : PermInj i) : ∀ (f : Nat) (x : State), Core i x →
    Aux i x (x.sub + 1) → HP i x (spos i x + 1) →
    Aux i (moveLoop i (f + 1) x) (moveLoop i (f + 1) x).sub ∧
    HP i (moveLoop i (f + 1) x) (spos i (moveLoop i (f + 1) x)) := by
  intro f
  induction f with
  | zero =>
    intro x c a hp
    have := hist_advance i x c a hp
    simp only [moveLoop]
    split <;> exact this
  | succ f ih =>
    intro x c a hp
    obtain ⟨a1, h1⟩ := hist_advance i x c a hp
    rw [moveLoop]
    by_cases hr : ready i (advance i x) = true
    · simp only [hr, if_true]; exact ⟨a1, h1⟩
    · have hr' : ready i (advance i x) = false := by simpa using hr
      simp only [hr', Bool.false_eq_true, if_false]
      have cy := core_advance i h x c
      apply ih (advance i x) cy (aux_weaken a1 (Nat.le_succ _))
      intro t sub hsub hlt
      by_cases hcur : t * MT i + sub = spos i (advance i x)
      · have hs := slot_lt (n := MT i) (t := t) (sub := sub) (t' := (advance i x).time)
          (sub' := (advance i x).sub + 1)
        -- the slot is the current one
        have e : t = (advance i x).time ∧ sub = (advance i x).sub := by
          unfold spos at hcur
          have hsl := cy.sub_lt
          rcases Nat.lt_trichotomy t (advance i x).time with hlt' | heq | hgt
          · exfalso
            have := Nat.mul_le_mul_right (MT i) (Nat.succ_le_of_lt hlt')
            rw [Nat.succ_mul] at this; omega
          · subst heq; exact ⟨rfl, by omega⟩
          · exfalso
            have := Nat.mul_le_mul_right (MT i) (Nat.succ_le_of_lt hgt)
            rw [Nat.succ_mul] at this; omega
        rw [e.1, e.2]
        exact G_cur_nonready i h hi _ cy a1 hr'
      · exact h1 t sub hsub (by omega)


theorem slot_eq {n t sub t' sub' : Nat} (h1 : sub < n) (h2 : sub' < n) (h : t * n + sub = t' * n + sub') :
    t = t' ∧ sub = sub' := by
  rcases Nat.lt_trichotomy t t' with hlt | heq | hgt
  · exfalso
    have := Nat.mul_le_mul_right n (Nat.succ_le_of_lt hlt)
    rw [Nat.succ_mul] at this; omega
  · subst heq; exact ⟨rfl, by omega⟩
  · exfalso
    have := Nat.mul_le_mul_right n (Nat.succ_le_of_lt hgt)
    rw [Nat.succ_mul] at this; omega

/-- invariant of an unfinished row at a decision state: bookkeeping + every passed slot accounted for -/
def Hist (i : Inst) (s : State) : Prop := Aux i s s.sub ∧ HP i s (spos i s)

theorem hist_post_apply (i : Inst) (h : WF i) (hi : PermInj i) (s : State) (l : Live i s)
    (hd : s.done = false) (hs : Hist i s) (a : Nat) (ha : a < i.J + 1) (hm : s.mask a = true) :
    Aux i (apply i s a) (s.sub + 1) ∧ HP i (apply i s a) (spos i s + 1) := by
  by_cases haJ : a < i.J
  · refine ⟨aux_apply_job i h hi s l a haJ hm hs.1, ?_⟩
    intro t sub hsub hlt
    by_cases hcur : t * MT i + sub = spos i s
    · obtain ⟨e1, e2⟩ := slot_eq hsub l.core.sub_lt hcur
      rw [e1, e2]; exact G_cur_job i h s l a haJ hm
    · exact G_apply_job i h s l a haJ hm hsub (by omega) (hs.2 t sub hsub (by omega))
  · have : a = i.J := by omega
    subst this
    have hsame : ∀ m j, j < i.J → (apply i s i.J).sched m j = s.sched m j := by
      intro m j hj; rw [apply_sched]
      have : ¬ (m = s.midx ∧ j = i.J) := fun hh => by omega
      simp [this]
    refine ⟨aux_apply_wait i s hs.1, ?_⟩
    intro t sub hsub hlt
    apply G_congr i hsame
    by_cases hcur : t * MT i + sub = spos i s
    · obtain ⟨e1, e2⟩ := slot_eq hsub l.core.sub_lt hcur
      rw [e1, e2]; exact G_cur_wait i s l hd hs.1 hm
    · exact hs.2 t sub hsub (by omega)

theorem hist_stepM (i : Inst) (h : WF i) (hi : PermInj i) (s : State) (l : Live i s)
    (hd : s.done = false) (hs : Hist i s) (a : Nat) (ha : a < i.J + 1) (hm : s.mask a = true)
    (hd' : (stepM i s a).done = false) : Hist i (stepM i s a) := by
  have c1 := core_apply i h s l a ha hm
  have hd1 : (apply i s a).done = false := by
    have : (stepM i s a).done = (moveNext i (apply i s a)).done := rfl
    rw [this, moveNext_done i h _ c1] at hd'; exact hd'
  obtain ⟨x1, x2⟩ := hist_post_apply i h hi s l hd hs a ha hm
  obtain ⟨f, hf⟩ : ∃ f, moveFuel i (apply i s a) = f + 1 := by
    have : 1 ≤ moveFuel i (apply i s a) := by
      unfold moveFuel; exact Nat.mul_pos (by omega) (MT_pos h)
    exact ⟨moveFuel i (apply i s a) - 1, by omega⟩
  have hstep : stepM i s a = updateMask i (moveLoop i (f + 1) (apply i s a)) := by
    simp [stepM, stepG, finish, moveNext, hd1, hf]
  obtain ⟨y1, y2⟩ := hist_loop i h hi f (apply i s a) c1 x1 x2
  rw [hstep]
  exact ⟨aux_updateMask y1, HP_congr i (fun _ _ _ => rfl) y2⟩

theorem hist_of_reach (i : Inst) (h : WF i) (hi : PermInj i) {s : State} (hr : Reach envM i s) :
    Live i s ∧ (s.done = false → Hist i s) :=
  inv_of_reach (e := envM) (Inv := fun s => Live i s ∧ (s.done = false → Hist i s))
    ⟨live_reset i h, fun _ => ⟨aux_reset i, fun t sub _ hlt => by
      have : spos i (reset i) = 0 := by simp [spos, reset]
      have hlt' : t * MT i + sub < spos i (reset i) := hlt
      omega⟩⟩
    (fun s a hl ha hm => ⟨live_stepM i h s hl.1 a ha hm, fun hd' => by
      have hm' : s.mask a = true := hm
      have hd'' : (stepM i s a).done = false := hd'
      have hd : s.done = false := by
        cases hdd : s.done with
        | false => rfl
        | true =>
          have := done_stable_live i h s hl.1 hdd a hm' false
          rw [stepM] at hd''; rw [this] at hd''; cases hd''
      exact hist_stepM i h hi s hl.1 hd (hl.2 hd) a ha hm' hd''⟩) hr


/-! ### From the per-slot account to `Spec.Ffsp.Expressible` -/

theorem op_of_entry (i : Inst) (sched : Nat → Nat → Int) {m j : Nat} (hm : m < MT i) (hj : j < i.J)
    (hs : sched m j ≠ UNSET) : (⟨j, m, sched m j⟩ : Op) ∈ ofMatrix i sched :=
  (mem_ofMatrix i sched _).mpr ⟨hm, hj, hs, rfl⟩

theorem expressible_final (i : Inst) (h : WF i) (hi : PermInj i) (x : State) (c : Core i x)
    (a : Aux i x (x.sub + 1)) (hp : HP i x (spos i x + 1)) : Expressible i (ofMatrix i x.sched) := by
  have hU := unset_neg
  constructor
  · intro t _ sub hsub hidle hav
    by_cases hlt : t * MT i + sub < spos i x + 1
    · rcases hp t sub hsub hlt with ⟨j, hj, hv⟩ | ⟨j, hj, h1, h2, h3⟩ | hna | ⟨hk, j', hj', hsk⟩
      · exfalso
        have hs : x.sched (machineOf i sub) j ≠ UNSET := by rw [hv]; omega
        exact hidle _ (op_of_entry i x.sched (machineOf_lt h hsub) hj hs) rfl (Or.inl hv)
      · exfalso
        exact hidle _ (op_of_entry i x.sched (machineOf_lt h hsub) hj h1) rfl (Or.inr ⟨h2, h3⟩)
      · exfalso
        obtain ⟨j, hj, hav1, o, ho, hoj, host, hafter⟩ := hav
        apply hna j hj
        obtain ⟨_, _, hos, hov⟩ := (mem_ofMatrix i x.sched o).mp ho
        constructor
        · rcases hav1 with h0 | ⟨o', ho', hoj', host', hfin'⟩
          · exact Or.inl h0
          · obtain ⟨_, _, hos', hov'⟩ := (mem_ofMatrix i x.sched o').mp ho'
            refine Or.inr ⟨o'.machine, host', by rw [← hoj']; exact hos', ?_⟩
            rw [← hoj', ← hov']; exact hfin'
        · intro m' hm' hset
          have hmm : o.machine = m' := by
            apply c.stage_uniq j o.machine m' hj (by rw [← hoj]; exact hos) hset
            rw [hm']; exact host
          rw [← hmm, ← hoj, ← hov]
          rcases hafter with hl | ⟨he, sub', h1, h2, h3⟩
          · exact Or.inl hl
          · exact Or.inr ⟨he, sub', h1, h2, h3⟩
      · refine ⟨hk, j', hj', ?_⟩
        intro o ho hoj host
        obtain ⟨_, _, hos, hov⟩ := (mem_ofMatrix i x.sched o).mp ho
        have := hsk o.machine host (by rw [← hoj]; exact hos)
        rw [← hoj, ← hov] at this; exact this
    · -- the slot lies after the last operation: no job can be available there
      exfalso
      obtain ⟨j, hj, _, o, ho, hoj, _, hafter⟩ := hav
      obtain ⟨_, hoJ, hos, hov⟩ := (mem_ofMatrix i x.sched o).mp ho
      have hle := (c.start_rng o.machine o.job hoJ hos).2
      have hpos : x.time < t ∨ (x.time = t ∧ x.sub < sub) := by
        have : x.time * MT i + x.sub < t * MT i + sub := by unfold spos at hlt; omega
        exact slot_lt c.sub_lt hsub this
      rcases hafter with hl | ⟨he, sub', h1, h2, h3⟩
      · rcases hpos with hp' | ⟨hp', _⟩ <;> omega
      · have ht : x.time = t := by rcases hpos with hp' | ⟨hp', _⟩ <;> omega
        have hsub' : x.sub < sub := by rcases hpos with hp' | ⟨_, hp'⟩ <;> omega
        obtain ⟨sub'', g1, _, g3⟩ := a.np o.machine o.job hoJ hos (by rw [← hov, he, ht])
        rw [h3] at g3
        have := machineOf_inj i h hi g3
        omega
  · intro o ho o' ho' hne hmm
    obtain ⟨_, hoJ, hos, hov⟩ := (mem_ofMatrix i x.sched o).mp ho
    obtain ⟨_, hoJ', hos', hov'⟩ := (mem_ofMatrix i x.sched o').mp ho'
    have hj : o.job ≠ o'.job := by
      intro hjj; apply hne
      cases o; cases o'; simp_all
    rw [hov, hov', ← hmm]
    rw [← hmm] at hos'
    exact a.nd o.machine o.job o'.job hoJ hoJ' hj hos hos'

/-- **C05 (FFSP), soundness of the class, row of a batch.**  Whatever the batch-mates do: when a row
finishes (with action `a`), its schedule is expressible. -/
theorem finished_row_expressible (i : Inst) (h : WF i) (hi : PermInj i) {s : State}
    (hr : Reach envM i s) (hd : s.done = false) (a : Nat) (ha : a < i.J + 1) (hm : s.mask a = true) :
    Expressible i (ofMatrix i (apply i s a).sched) := by
  obtain ⟨l, hh⟩ := hist_of_reach i h hi hr
  obtain ⟨x1, x2⟩ := hist_post_apply i h hi s l hd (hh hd) a ha hm
  exact expressible_final i h hi _ (core_apply i h s l a ha hm) x1 x2

/-- the last step of a finished solo episode -/
theorem solo_last_step (i : Inst) (h : WF i) : ∀ {as : List Nat} {s s' : State}, Reach envM i s →
    s.done = false → RunND env i s as s' → s'.done = true →
    ∃ s0 a, Reach envM i s0 ∧ s0.done = false ∧ a < i.J + 1 ∧ s0.mask a = true ∧
      (apply i s0 a).done = true ∧ s' = stepG i s0 a true := by
  intro as
  induction as with
  | nil => intro s s' _ hd hr hd'; cases hr; rw [hd] at hd'; cases hd'
  | cons a as ih =>
    intro s s' hre hd hr hd'
    cases hr with
    | cons _ ha hm hrest =>
      have ha' : a < i.J + 1 := ha
      have hm' : s.mask a = true := hm
      have l := live_of_reach i h hre
      cases hg : (apply i s a).done with
      | false =>
        have he : step i s a = stepM i s a := by simp [step, stepM, hg]
        have hrest' : RunND env i (stepM i s a) as s' := by rw [← he]; exact hrest
        have hre' : Reach envM i (stepM i s a) := by
          obtain ⟨bs, hb⟩ := hre; exact ⟨bs ++ [a], hb.snoc ha hm⟩
        have hd1 : (stepM i s a).done = false := by
          have c1 := core_apply i h s l a ha' hm'
          have : (stepM i s a).done = (moveNext i (apply i s a)).done := rfl
          rw [this, moveNext_done i h _ c1, hg]
        exact ih hre' hd1 hrest' hd'
      | true =>
        have he : step i s a = stepG i s a true := by simp [step, hg]
        have hrest' : RunND env i (stepG i s a true) as s' := by rw [← he]; exact hrest
        have hdone : (stepG i s a true).done = true := by simp [stepG, finish, hg]
        cases hrest' with
        | nil => exact ⟨s, a, hre, hd, ha', hm', hg, rfl⟩
        | cons hd3 _ _ _ =>
          have hd4 : (stepG i s a true).done = false := hd3
          rw [hdone] at hd4; cases hd4

/-- **C05 (FFSP), soundness of the class.**  The schedule of every finished mask-confined episode is
expressible: the mask only ever produces schedules of the declarative class `Spec.Ffsp.Expressible`. -/
theorem episode_expressible (i : Inst) (h : WF i) (hi : PermInj i) {as : List Nat} {s : State}
    (hr : RunND env i (env.reset i) as s) (hd : s.done = true) :
    Expressible i (ofMatrix i s.sched) := by
  obtain ⟨s0, a, hre, hd0, ha, hm, _, rfl⟩ := solo_last_step i h ⟨[], Run.nil _⟩ rfl hr hd
  have : (stepG i s0 a true).sched = (apply i s0 a).sched := by simp [stepG, finish]
  rw [this]
  exact finished_row_expressible i h hi hre hd0 a ha hm

end Rl4co.Ffsp
