/-
Spec-level sanity lemmas for mTSP, independent of the environment model: they pin `Spec.Mtsp` down so that a
vacuous or mis-stated Spec would be noticed.
* `feasible_exists`      every instance with at least one agent has a feasible solution (one tour through all customers);
* `objMinmax_le_objSum`  the longest tour is at most the total length (non-negative distances);
* `objMinmax_perm`, `objSum_perm`, `tours_length_perm`  objectives and the number of tours do not depend on which agent drives
                         which tour (any permutation of the tours).
-/
import Rl4co.Props.C05.Mtsp

namespace Rl4co.Mtsp
open Rl4co.Spec.Mtsp

theorem maxList_le_sum (l : List Int) (h : ∀ x ∈ l, 0 ≤ x) : maxList l ≤ l.sum := by
  induction l with
  | nil => simp [maxList]
  | cons x xs ih =>
    have hx := h x (by simp)
    have := ih (fun y hy => h y (by simp [hy]))
    have hs : 0 ≤ xs.sum := by
      have := maxList_nonneg xs; omega
    simp only [maxList, List.sum_cons]; omega

theorem routeLen_nonneg (D : Nat → Nat → Int) (hD : ∀ a b, 0 ≤ D a b) (r : List Nat) : 0 ≤ routeLen D r := by
  unfold routeLen; split
  · omega
  · exact pathLen_nonneg D hD _

/-- the longest tour is at most the total length -/
theorem objMinmax_le_objSum (i : Inst) (hD : ∀ a b, 0 ≤ i.D a b) (as : List Nat) :
    objMinmax i as ≤ objSum i as := by
  simp only [objMinmax, objSum, routesLen]
  apply maxList_le_sum
  intro x hx
  simp only [List.mem_map] at hx
  obtain ⟨r, _, rfl⟩ := hx
  exact routeLen_nonneg i.D hD r

theorem maxList_perm {l l' : List Int} (h : l.Perm l') : maxList l = maxList l' := by
  induction h with
  | nil => rfl
  | cons x _ ih => simp only [maxList, ih]
  | swap x y l => simp only [maxList]; omega
  | trans _ _ ih1 ih2 => rw [ih1, ih2]

theorem sum_perm {l l' : List Int} (h : l.Perm l') : l.sum = l'.sum := by
  induction h with
  | nil => rfl
  | cons x _ ih => simp only [List.sum_cons, ih]
  | swap x y l => simp only [List.sum_cons]; omega
  | trans _ _ ih1 ih2 => rw [ih1, ih2]

/-- renaming the agents (permuting the tours) changes neither objective -/
theorem objMinmax_perm (i : Inst) {as bs : List Nat} (h : (routes as).Perm (routes bs)) :
    objMinmax i as = objMinmax i bs := maxList_perm (h.map _)
theorem objSum_perm (i : Inst) {as bs : List Nat} (h : (routes as).Perm (routes bs)) :
    objSum i as = objSum i bs := sum_perm (h.map _)
/-- … nor the number of agents employed -/
theorem tours_length_perm {as bs : List Nat} (h : (routes as).Perm (routes bs)) :
    (tours as).length = (tours bs).length := (h.filter _).length_eq

/-- the single tour `1, 2, …, n` -/
def oneTour (n : Nat) : List Nat := (List.range n).map (· + 1)

theorem count_oneTour (n j : Nat) (h1 : 1 ≤ j) : (oneTour n).count j = if j ≤ n then 1 else 0 := by
  induction n with
  | zero => simp [oneTour]; omega
  | succ n ih =>
    have : oneTour (n + 1) = oneTour n ++ [n + 1] := by simp [oneTour, List.range_succ]
    rw [this, List.count_append, ih]
    by_cases hj : j = n + 1
    · subst hj; simp
    · have : (n + 1 == j) = false := by simp; omega
      simp [List.count_cons, this]
      split <;> split <;> omega

/-- **Every instance with at least one agent has a feasible solution.** -/
theorem feasible_exists (i : Inst) (hm : 1 ≤ i.m) : Feasible i (oneTour i.n) := by
  have hzf : ZF (oneTour i.n) := by
    intro x hx; simp only [oneTour, List.mem_map, List.mem_range] at hx; obtain ⟨k, _, rfl⟩ := hx; omega
  refine ⟨?_, ?_, ?_⟩
  · intro a ha
    simp only [oneTour, List.mem_map, List.mem_range] at ha
    obtain ⟨k, hk, rfl⟩ := ha; omega
  · intro j h1 h2
    rw [count_oneTour i.n j h1, if_pos h2]
  · rw [tours, routes_zf _ hzf]
    have : ([oneTour i.n].filter (fun r => !r.isEmpty)).length ≤ 1 := by
      have := List.length_filter_le (fun r : List Nat => !r.isEmpty) [oneTour i.n]
      simpa using this
    omega

/-- Non-vacuity / sanity on a concrete instance: two tours in either order. -/
example : objMinmax ⟨3, 2, fun a b => if a = b then 0 else (a + b : Int)⟩ [1, 2, 0, 3] =
    objMinmax ⟨3, 2, fun a b => if a = b then 0 else (a + b : Int)⟩ [3, 0, 1, 2] := by decide

end Rl4co.Mtsp
