/-
Lemmas about the sort-and-compare idiom of the routing checkers (`Core/Sort.lean`):
`sortedTest n as`  ↔  every entry ≤ n and every customer 1..n occurs exactly once;
`sortedIsRange n as` ↔  `as` is a permutation of 0..n-1.  Core only, no Mathlib.
-/
import Rl4co.Core.Sort
namespace Rl4co
open List

theorem sortNat_perm (as : List Nat) : (sortNat as).Perm as := mergeSort_perm _ _

theorem sortNat_pairwise (as : List Nat) : (sortNat as).Pairwise (· ≤ ·) := by
  have := pairwise_mergeSort (le := fun a b : Nat => decide (a ≤ b))
    (by intro a b c; simp; omega) (by intro a b; simp; omega) as
  simpa [sortNat] using this

theorem pairwise_le_zeros_range (k n : Nat) : (replicate k 0 ++ range' 1 n).Pairwise (· ≤ ·) := by
  rw [pairwise_append]
  refine ⟨by simp [pairwise_replicate], ?_, ?_⟩
  · exact (List.pairwise_lt_range' (s := 1) (n := n)).imp (by intro a b h; omega)
  · intro a ha b _
    simp [mem_replicate] at ha; omega

/-- a list is a permutation of `k` zeros followed by `1..n` iff it is sorted to that list -/
theorem sortNat_eq_iff_perm (as : List Nat) (k n : Nat) :
    sortNat as = replicate k 0 ++ range' 1 n ↔ as.Perm (replicate k 0 ++ range' 1 n) := by
  constructor
  · intro h; rw [← h]; exact (sortNat_perm as).symm
  · intro h
    exact Perm.eq_of_pairwise (le := fun a b : Nat => a ≤ b) (by intro a b _ _ h1 h2; omega)
      (sortNat_pairwise as) (pairwise_le_zeros_range k n) ((sortNat_perm as).trans h)

end Rl4co

namespace Rl4co
open List

theorem count_range'_one (j n : Nat) : count j (range' 1 n) = if 1 ≤ j ∧ j ≤ n then 1 else 0 := by
  rw [(nodup_range' (s := 1) (n := n)).count]
  simp only [mem_range'_1]
  by_cases h : 1 ≤ j ∧ j ≤ n
  · simp [h]; omega
  · simp [h]; omega

theorem sortedTest_iff (n : Nat) (as : List Nat) :
    sortedTest n as = true ↔
      (∀ a ∈ as, a ≤ n) ∧ (∀ j, 1 ≤ j → j ≤ n → as.count j = 1) := by
  constructor
  · intro h
    simp only [sortedTest, Bool.and_eq_true, decide_eq_true_eq, beq_iff_eq, all_eq_true] at h
    obtain ⟨⟨hlen, hdrop⟩, htake⟩ := h
    have hl : (sortNat as).length = as.length := (sortNat_perm as).length_eq
    have htk : (sortNat as).take (as.length - n) = replicate (as.length - n) 0 := by
      apply eq_replicate_iff.2
      refine ⟨by simp [hl], fun b hb => htake b hb⟩
    have hs : sortNat as = replicate (as.length - n) 0 ++ range' 1 n := by
      rw [← take_append_drop (as.length - n) (sortNat as), htk, hdrop]
    have hp : as.Perm (replicate (as.length - n) 0 ++ range' 1 n) := (sortNat_eq_iff_perm as _ n).1 hs
    refine ⟨fun a ha => ?_, fun j h1 h2 => ?_⟩
    · have := hp.subset ha
      simp only [mem_append, mem_replicate, mem_range'_1] at this
      omega
    · rw [hp.count_eq, count_append, count_replicate, count_range'_one]
      have : (0 == j) = false := by simp; omega
      simp [this, h1, h2]
  · intro ⟨hr, ho⟩
    have hf : (as.filter (· != 0)).Perm (range' 1 n) := by
      apply perm_iff_count.2
      intro x
      rw [count_range'_one]
      by_cases hx : x = 0
      · subst hx
        have : (0 : Nat) ∉ as.filter (· != 0) := by simp
        simp [count_eq_zero_of_not_mem this]
      · rw [count_filter (by simpa using hx)]
        by_cases hxn : x ≤ n
        · simp [ho x (by omega) hxn, hxn]; omega
        · have : x ∉ as := fun hm => hxn (hr x hm)
          simp [count_eq_zero_of_not_mem this, hxn]
    have hlen : as.length = count 0 as + n := by
      have h1 := length_eq_countP_add_countP (fun a : Nat => a == 0) (l := as)
      have h2 : countP (fun a : Nat => decide ¬(a == 0) = true) as = n := by
        rw [countP_eq_length_filter]
        have : (as.filter (fun a : Nat => decide ¬(a == 0) = true)) = as.filter (· != 0) := by
          apply filter_congr; intro x _; by_cases hx : x = 0 <;> simp [hx]
        rw [this, hf.length_eq]; simp
      rw [h1, h2]; rfl
    have hp : as.Perm (replicate (as.length - n) 0 ++ range' 1 n) := by
      apply perm_iff_count.2
      intro x
      rw [count_append, count_replicate, count_range'_one]
      by_cases hx : x = 0
      · subst hx; simp; omega
      · have h0 : (0 == x) = false := by simp; omega
        by_cases hxn : x ≤ n
        · simp [ho x (by omega) hxn, hxn, h0]; omega
        · have : x ∉ as := fun hm => hxn (hr x hm)
          simp [count_eq_zero_of_not_mem this, hxn, h0]
    have hs := (sortNat_eq_iff_perm as _ n).2 hp
    simp only [sortedTest, Bool.and_eq_true, decide_eq_true_eq, beq_iff_eq, all_eq_true]
    refine ⟨⟨by omega, ?_⟩, ?_⟩
    · rw [hs, drop_append_of_le_length (by simp)]; simp
    · rw [hs, take_append_of_le_length (by simp)]
      intro b hb
      simp only [take_replicate, mem_replicate] at hb
      exact hb.2
end Rl4co

namespace Rl4co
open List

theorem sortedIsRange_iff (n : Nat) (as : List Nat) :
    sortedIsRange n as = true ↔ as.Perm (range n) := by
  simp only [sortedIsRange, beq_iff_eq]
  constructor
  · intro h; rw [← h]; exact (sortNat_perm as).symm
  · intro h
    exact Perm.eq_of_pairwise (le := fun a b : Nat => a ≤ b) (by intro a b _ _ h1 h2; omega)
      (sortNat_pairwise as) ((pairwise_lt_range (n := n)).imp (by intro a b h; omega))
      ((sortNat_perm as).trans h)

end Rl4co
