/-
Helper lemmas for the job-shop family (FJSPEnv / JSSPEnv model `Rl4co.Fjsp`): well-formedness `WF`,
the state invariant `Inv` (schedule bookkeeping), its preservation by `_make_step`,
`_transit_to_next_time` and the time-advance loop, progress (a stuck unfinished state always has a
busy machine), and termination of the loop within the model's fuel.  The property theorems are in
`Props/C02|C03|C04|C05|C07/Fjsp.lean`.  No Mathlib.
-/
import Rl4co.Env.Fjsp
import Rl4co.Spec.Fjsp
namespace Rl4co.Fjsp
open Rl4co.Spec.Fjsp (isReal opOf)

/-! ### the extracted comparison operators are the ones the proofs are about

These are the proof obligations on `Generated/Params.lean`: if the source flips one of the operators,
the regenerated parameter no longer satisfies its lemma and this file stops compiling. -/

theorem dec_eq_beq_int (a b : Int) : decide (a = b) = (a == b) := by
  cases h : (a == b) <;> simp_all
theorem dec_eq_beq_nat (a b : Nat) : decide (a = b) = (a == b) := by
  cases h : (a == b) <;> simp_all
theorem avail_eq (i : Inst) (s : State) (j m : Nat) :
    avail i s j m =
      (!s.jobDone j && !s.inProc j && !decide (s.busy m > s.time) && !(s.proc m (s.nextOp j) == 0)) := by
  simp only [avail, Params.fjspBusyCmp, Params.fjspEligCmp, Cmp.eval, dec_eq_beq_int]

theorem nextTime_zero (busy : Nat → Int) (t : Int) : nextTime 0 busy t = none := rfl

theorem nextTime_succ (m : Nat) (busy : Nat → Int) (t : Int) :
    nextTime (m + 1) busy t =
      if busy m > t then
        some (match nextTime m busy t with
          | none => busy m
          | some x => if x ≤ busy m then x else busy m)
      else nextTime m busy t := by
  by_cases h : busy m > t
  · simp only [nextTime, Params.fjspNextTimeCmp, Cmp.eval, h, decide_true, if_true]; rfl
  · simp only [nextTime, Params.fjspNextTimeCmp, Cmp.eval, h, decide_false, Bool.false_eq_true, if_false]

theorem evalNat_eq (a b : Nat) : Params.fjspJobFinCmp.evalNat a b = (a == b) := by
  simp only [Params.fjspJobFinCmp, Cmp.evalNat, dec_eq_beq_nat]

theorem release_eq (i : Inst) (s : State) :
    release i s =
      { s with
        nextOp := fun j =>
          if (s.inProc j && decide (s.finish (s.nextOp j) ≤ s.time)) &&
              !((s.inProc j && decide (s.finish (s.nextOp j) ≤ s.time)) && (s.nextOp j == i.endOp j))
          then s.nextOp j + 1 else s.nextOp j
        inProc := fun j => if (s.inProc j && decide (s.finish (s.nextOp j) ≤ s.time)) then false else s.inProc j
        jobDone := fun j => s.jobDone j ||
          ((s.inProc j && decide (s.finish (s.nextOp j) ≤ s.time)) && (s.nextOp j == i.endOp j))
        done := allUpTo i.J (fun j => s.jobDone j ||
          ((s.inProc j && decide (s.finish (s.nextOp j) ≤ s.time)) && (s.nextOp j == i.endOp j))) } := by
  simp only [release, evalNat_eq, Params.fjspReleaseGuardsInProcess, if_true]
  rfl

theorem translate_eq (i : Inst) (s : State) (a' : Nat) :
    translate i s a' =
      if i.jssp then (a', s.nextOp a', findMa i.M (fun m => s.proc m (s.nextOp a')))
      else (a' / i.M, s.nextOp (a' / i.M), a' % i.M) := by
  simp [translate, Params.fjspJobIsDiv, Params.fjspMachineIsMod]

theorem reward_eq (i : Inst) (s : State) :
    reward i s = (match maxOver i.N (fun o => !i.pad o) s.finish with | some x => -x | none => 0) := by
  simp only [reward, Params.fjspRewardMasksPadding, Params.fjspRewardIsMax, Bool.true_and, if_true]
  rfl

theorem isNoOp_eq (a : Nat) : isNoOp a = (a == 0) := by
  simp only [isNoOp, Params.fjspActionShift, Params.fjspNoOpId]
  cases h : (a == 0) with
  | true => have : a = 0 := by simpa using h
            subst this; rfl
  | false =>
    have : a ≠ 0 := by simpa using h
    simp; omega

theorem shifted_eq (a : Nat) : shifted a = a - 1 := by
  simp only [shifted, Params.fjspActionShift]; omega

theorem initFinish_eq : initFinish = 9999 := rfl

/-- `_step` in the form the proofs use (wait = action 0, scheduling action `a` ↦ `a − 1`) -/
theorem step_eq (i : Inst) (s : State) (a : Nat) :
    step i s a =
      if s.done then s
      else if a = 0 then autoTransit i (fuel i) (transit i s)
      else autoTransit i (fuel i) (makeStep i s (a - 1)) := by
  simp only [step, isNoOp_eq, shifted_eq, beq_iff_eq]

theorem noOpSel_eq (x : Row × Nat) : noOpSel x = ((x.2 == 0) && !x.1.2.done) := by
  simp only [noOpSel, isNoOp_eq]
theorem reqSel_eq (x : Row × Nat) : reqSel x = (!(x.2 == 0) && !x.1.2.done) := by
  simp only [reqSel, isNoOp_eq]

theorem noOpMask_eq (i : Inst) (s : State) :
    noOpMask i s = if i.maskNoOps then s.done else (anyUpTo i.J s.inProc && !s.done) || s.done := by
  simp only [noOpMask, Params.jsspNoOpKeepsDone, Params.fjspNoOpKeepsDone, ite_self, Bool.true_and]

/-! ### generic counting lemmas -/

theorem cnt_le_of_imp {n : Nat} {p q : Nat → Bool} (h : ∀ j, j < n → q j = true → p j = true) :
    cnt n q ≤ cnt n p := by
  induction n with
  | zero => simp [cnt]
  | succ n ih =>
    rw [cnt_succ, cnt_succ]
    have h1 := ih (fun j hj => h j (by omega))
    have h2 := h n (by omega)
    cases hq : q n <;> cases hp : p n <;> simp_all <;> omega

theorem cnt_lt_of_imp {n : Nat} {p q : Nat → Bool} (h : ∀ j, j < n → q j = true → p j = true)
    {k : Nat} (hk : k < n) (hpk : p k = true) (hqk : q k = false) : cnt n q < cnt n p := by
  induction n with
  | zero => omega
  | succ n ih =>
    rw [cnt_succ, cnt_succ]
    have hle := cnt_le_of_imp (n := n) (p := p) (q := q) (fun j hj => h j (by omega))
    by_cases hkn : k = n
    · subst hkn
      simp [hpk, hqk]; omega
    · have h1 := ih (fun j hj => h j (by omega)) (by omega)
      have h2 := h n (by omega)
      cases hq : q n <;> cases hp : p n <;> simp_all <;> omega

theorem cnt_eq_one_of_unique {n : Nat} {p : Nat → Bool} {m : Nat} (hm : m < n) (hp : p m = true)
    (hu : ∀ k, k < n → p k = true → k = m) : cnt n p = 1 := by
  induction n with
  | zero => omega
  | succ n ih =>
    rw [cnt_succ]
    by_cases hmn : m = n
    · subst hmn
      have : cnt m p = 0 := cnt_eq_zero.mpr (fun j hj => by
        cases hpj : p j with
        | false => rfl
        | true => have := hu j (by omega) hpj; omega)
      simp [this, hp]
    · have h1 := ih (by omega) (fun k hk hpk => hu k (by omega) hpk)
      have : p n = false := by
        cases hpn : p n with
        | false => rfl
        | true => have := hu n (by omega) hpn; omega
      simp [h1, this]

/-! ### `nextTime` -/

theorem nextTime_none {M : Nat} {busy : Nat → Int} {t : Int} :
    nextTime M busy t = none ↔ ∀ m, m < M → busy m ≤ t := by
  induction M with
  | zero => simp [nextTime_zero]
  | succ M ih =>
    simp only [nextTime_succ]
    by_cases hb : busy M > t
    · simp only [hb, if_true]
      constructor
      · intro h; simp at h
      · intro h; have := h M (by omega); omega
    · simp only [hb, if_false, ih]
      constructor
      · intro h m hm
        by_cases hmM : m = M
        · subst hmM; omega
        · exact h m (by omega)
      · intro h m hm; exact h m (by omega)

theorem nextTime_some {M : Nat} {busy : Nat → Int} {t t' : Int} (h : nextTime M busy t = some t') :
    t < t' ∧ (∃ m, m < M ∧ busy m = t') ∧ ∀ m, m < M → t < busy m → t' ≤ busy m := by
  induction M generalizing t' with
  | zero => simp [nextTime_zero] at h
  | succ M ih =>
    simp only [nextTime_succ] at h
    by_cases hb : busy M > t
    · simp only [hb, if_true] at h
      cases hr : nextTime M busy t with
      | none =>
        rw [hr] at h; simp at h; subst h
        have hn := nextTime_none.mp hr
        refine ⟨by omega, ⟨M, by omega, rfl⟩, fun m hm hlt => ?_⟩
        by_cases hmM : m = M
        · subst hmM; omega
        · have := hn m (by omega); omega
      | some x =>
        rw [hr] at h; simp at h
        obtain ⟨h1, ⟨m0, hm0, hbm0⟩, h3⟩ := ih hr
        by_cases hx : x ≤ busy M
        · simp [hx] at h; subst h
          refine ⟨h1, ⟨m0, by omega, hbm0⟩, fun m hm hlt => ?_⟩
          by_cases hmM : m = M
          · subst hmM; omega
          · exact h3 m (by omega) hlt
        · simp [hx] at h; subst h
          refine ⟨by omega, ⟨M, by omega, rfl⟩, fun m hm hlt => ?_⟩
          by_cases hmM : m = M
          · subst hmM; omega
          · have := h3 m (by omega) hlt; omega
    · simp only [hb, if_false] at h
      obtain ⟨h1, ⟨m0, hm0, hbm0⟩, h3⟩ := ih h
      refine ⟨h1, ⟨m0, by omega, hbm0⟩, fun m hm hlt => ?_⟩
      by_cases hmM : m = M
      · subst hmM; omega
      · exact h3 m (by omega) hlt

theorem nextTime_isSome {M : Nat} {busy : Nat → Int} {t : Int} {m : Nat} (hm : m < M) (hb : t < busy m) :
    ∃ t', nextTime M busy t = some t' := by
  cases h : nextTime M busy t with
  | some t' => exact ⟨t', rfl⟩
  | none => have := nextTime_none.mp h m hm; omega

/-! ### well-formed instances and the state invariant -/

/-- Well-formed instance (decidable; the harness evaluates it on every instance it uses). -/
structure WF (i : Inst) : Prop where
  jpos : 0 < i.J
  rng : ∀ j, j < i.J → i.startOp j ≤ i.endOp j ∧ i.endOp j < i.N
  disj : ∀ j j', j < i.J → j' < i.J → j < j' → i.endOp j < i.startOp j'
  procNN : ∀ m o, m < i.M → o < i.N → 0 ≤ i.proc m o
  elig : ∀ j, j < i.J → ∀ o, i.startOp j ≤ o → o ≤ i.endOp j → ∃ m, m < i.M ∧ 0 < i.proc m o
  uniq : i.jssp = true → ∀ j, j < i.J → ∀ o, i.startOp j ≤ o → o ≤ i.endOp j →
    ∀ m m', m < i.M → m' < i.M → 0 < i.proc m o → 0 < i.proc m' o → m = m'
  padIff : ∀ o, o < i.N → (i.pad o = false ↔ isReal i o = true)

/-- an operation belongs to at most one job -/
theorem job_unique {i : Inst} (hwf : WF i) {j j' o : Nat} (hj : j < i.J) (hj' : j' < i.J)
    (h1 : i.startOp j ≤ o) (h2 : o ≤ i.endOp j) (h3 : i.startOp j' ≤ o) (h4 : o ≤ i.endOp j') : j = j' := by
  rcases Nat.lt_trichotomy j j' with h | h | h
  · have := hwf.disj j j' hj hj' h; omega
  · exact h
  · have := hwf.disj j' j hj' hj h; omega

/-- The invariant of every reachable state. -/
structure Inv (i : Inst) (s : State) : Prop where
  time0 : 0 ≤ s.time
  errF : s.err = false
  inProcRng : ∀ j, s.inProc j = true → j < i.J
  nextRng : ∀ j, j < i.J → i.startOp j ≤ s.nextOp j ∧ s.nextOp j ≤ i.endOp j
  schedIff : ∀ j, j < i.J → ∀ o, i.startOp j ≤ o → o ≤ i.endOp j →
    (s.sched o = true ↔ (o < s.nextOp j ∨ (o = s.nextOp j ∧ (s.inProc j = true ∨ s.jobDone j = true))))
  procEq : ∀ m o, s.proc m o = if s.sched o = true then 0 else i.proc m o
  asg : ∀ o, s.sched o = true → ∃ m, m < i.M ∧ s.assign m o = true ∧ (∀ m', s.assign m' o = true → m' = m) ∧
    0 < i.proc m o ∧ s.finish o = s.start o + i.proc m o ∧ 0 ≤ s.start o ∧ s.finish o ≤ s.busy m
  unasg : ∀ o, s.sched o = false → ∀ m, s.assign m o = false
  inflight : ∀ j, s.inProc j = true → s.time < s.finish (s.nextOp j)
  finished : ∀ j, j < i.J → ∀ o, i.startOp j ≤ o → o ≤ i.endOp j → s.sched o = true →
    (o < s.nextOp j ∨ s.inProc j = false) → s.finish o ≤ s.time
  order : ∀ j, j < i.J → ∀ o, i.startOp j ≤ o → o < i.endOp j → s.sched (o + 1) = true →
    s.finish o ≤ s.start (o + 1)
  mach : ∀ m o1 o2, o1 ≠ o2 → s.assign m o1 = true → s.assign m o2 = true →
    s.finish o1 ≤ s.start o2 ∨ s.finish o2 ≤ s.start o1
  doneIff : s.done = allUpTo i.J s.jobDone
  jdone : ∀ j, j < i.J → s.jobDone j = true → s.nextOp j = i.endOp j ∧ s.inProc j = false
  schedReal : ∀ o, s.sched o = true → ∃ j, j < i.J ∧ i.startOp j ≤ o ∧ o ≤ i.endOp j
  startLe : ∀ o, s.sched o = true → s.start o ≤ s.time
  busyAtt : ∀ m, s.busy m = 0 ∨ ∃ o, s.sched o = true ∧ s.assign m o = true ∧ s.finish o = s.busy m

theorem allUpTo_false_pos {n : Nat} (h : 0 < n) : allUpTo n (fun _ => false) = false := by
  cases n with
  | zero => omega
  | succ n => simp [allUpTo]

theorem inv_reset {i : Inst} (hwf : WF i) : Inv i (reset i) := by
  refine ⟨by simp [reset], rfl, ?_, ?_, ?_, ?_, ?_, ?_, ?_, ?_, ?_, ?_, ?_, ?_, ?_, ?_, ?_⟩
  · intro j h; simp [reset] at h
  · intro j hj; have := hwf.rng j hj; simp [reset]; omega
  · intro j hj o h1 h2; simp [reset]; omega
  · intro m o; simp [reset]
  · intro o h; simp [reset] at h
  · intro o _ m; simp [reset]
  · intro j h; simp [reset] at h
  · intro j _ o _ _ h; simp [reset] at h
  · intro j _ o _ _ h; simp [reset] at h
  · intro m o1 o2 _ h; simp [reset] at h
  · simp [reset, allUpTo_false_pos hwf.jpos]
  · intro j _ h; simp [reset] at h
  · intro o h; simp [reset] at h
  · intro o h; simp [reset] at h
  · intro m; left; simp [reset]

/-! ### `_make_step` preserves the invariant -/

/-- what the mask guarantees about a scheduling action -/
structure Sel (i : Inst) (s : State) (j m : Nat) : Prop where
  hj : j < i.J
  hm : m < i.M
  notDone : s.jobDone j = false
  notProc : s.inProc j = false
  idle : s.busy m ≤ s.time
  elig : s.proc m (s.nextOp j) ≠ 0

theorem sel_of_avail {i : Inst} {s : State} {j m : Nat} (hj : j < i.J) (hm : m < i.M)
    (h : avail i s j m = true) : Sel i s j m := by
  simp only [avail_eq, Bool.and_eq_true, Bool.not_eq_true', decide_eq_false_iff_not, beq_eq_false_iff_ne] at h
  obtain ⟨⟨⟨h1, h2⟩, h3⟩, h4⟩ := h
  exact ⟨hj, hm, h1, h2, by omega, h4⟩

theorem sel_facts {i : Inst} (hwf : WF i) {s : State} (hinv : Inv i s) {j m : Nat} (h : Sel i s j m) :
    s.sched (s.nextOp j) = false ∧ s.proc m (s.nextOp j) = i.proc m (s.nextOp j) ∧
    0 < i.proc m (s.nextOp j) ∧ s.nextOp j < i.N := by
  have hr := hinv.nextRng j h.hj
  have hN := (hwf.rng j h.hj).2
  have hp := hinv.procEq m (s.nextOp j)
  have he := h.elig
  cases hs : s.sched (s.nextOp j) with
  | true => rw [hs] at hp; simp at hp; exact absurd hp he
  | false =>
    rw [hs] at hp; simp at hp
    have := hwf.procNN m (s.nextOp j) h.hm (by omega)
    refine ⟨rfl, hp, ?_, by omega⟩
    rw [hp] at he; omega

theorem inv_makeStepAt {i : Inst} (hwf : WF i) {s : State} (hinv : Inv i s) {j m : Nat}
    (h : Sel i s j m) : Inv i (makeStepAt s j (s.nextOp j) m) := by
  obtain ⟨hns, hpe, hpos, hoN⟩ := sel_facts hwf hinv h
  have hr := hinv.nextRng j h.hj
  have hidle := h.idle
  -- an op of another job is different from `nextOp j`
  have hother : ∀ j', j' < i.J → j' ≠ j → ∀ o', i.startOp j' ≤ o' → o' ≤ i.endOp j' → o' ≠ s.nextOp j := by
    intro j' hj' hne o' h1 h2 heq
    subst heq
    exact hne (job_unique hwf hj' h.hj h1 h2 hr.1 hr.2)
  refine ⟨hinv.time0, ?_, ?_, hinv.nextRng, ?_, ?_, ?_, ?_, ?_, ?_, ?_, ?_, hinv.doneIff, ?_, ?_, ?_, ?_⟩
  · -- errF
    simp only [makeStepAt, hinv.errF, Bool.false_or, decide_eq_false_iff_not]; omega
  · -- inProcRng
    intro j' hj'
    simp only [makeStepAt, upd_apply] at hj'
    split at hj'
    · subst_vars; exact h.hj
    · exact hinv.inProcRng j' hj'
  · -- schedIff
    intro j' hj' o h1 h2
    have hold := hinv.schedIff j' hj' o h1 h2
    simp only [makeStepAt, upd_apply]
    by_cases hjj : j' = j
    · subst hjj
      by_cases ho : o = s.nextOp j'
      · subst ho; simp
      · simp only [ho, if_false, if_true, false_and, or_false]
        rw [hold]; simp [ho]
    · have hne := hother j' hj' hjj o h1 h2
      simp only [hne, hjj, if_false]
      exact hold
  · -- procEq
    intro m' o'
    simp only [makeStepAt, upd_apply]
    by_cases ho : o' = s.nextOp j
    · simp [ho]
    · simp only [ho, if_false]; exact hinv.procEq m' o'
  · -- asg
    intro o' hs'
    simp only [makeStepAt, upd_apply] at hs' ⊢
    by_cases ho : o' = s.nextOp j
    · subst ho
      refine ⟨m, h.hm, by simp, ?_, hpos, ?_, ?_, ?_⟩
      · intro m' hm'
        by_cases hmm : m' = m
        · exact hmm
        · simp [hmm, hinv.unasg _ hns m'] at hm'
      · simp [hpe]
      · simp [hinv.time0]
      · simp
    · simp only [ho, if_false] at hs'
      obtain ⟨m0, hm0, ha, hu, hp0, hf, hs0, hb⟩ := hinv.asg o' hs'
      refine ⟨m0, hm0, by simp [ho, ha], ?_, hp0, by simp [ho, hf], by simp [ho, hs0], ?_⟩
      · intro m' hm'; simp [ho] at hm'; exact hu m' hm'
      · simp only [ho, if_false]
        by_cases hmm : m0 = m
        · subst hmm; simp; omega
        · simp [hmm, hb]
  · -- unasg
    intro o' hs' m'
    simp only [makeStepAt, upd_apply] at hs' ⊢
    by_cases ho : o' = s.nextOp j
    · simp [ho] at hs'
    · simp only [ho, if_false] at hs'
      simp [ho, hinv.unasg o' hs' m']
  · -- inflight
    intro j' hj'
    simp only [makeStepAt, upd_apply] at hj' ⊢
    by_cases hjj : j' = j
    · subst hjj; simp; omega
    · simp only [hjj, if_false] at hj'
      have hJ := hinv.inProcRng j' hj'
      have hr' := hinv.nextRng j' hJ
      have hne := hother j' hJ hjj (s.nextOp j') hr'.1 hr'.2
      simp only [hne, if_false]
      exact hinv.inflight j' hj'
  · -- finished
    intro j' hj' o' h1 h2 hs' hc
    simp only [makeStepAt, upd_apply] at hs' hc ⊢
    by_cases hjj : j' = j
    · subst hjj
      simp only [if_true] at hc
      have hlt : o' < s.nextOp j' := by
        rcases hc with hc | hc
        · exact hc
        · simp at hc
      have hne : o' ≠ s.nextOp j' := by omega
      simp only [hne, if_false] at hs' ⊢
      exact hinv.finished j' hj' o' h1 h2 hs' (Or.inl hlt)
    · have hne := hother j' hj' hjj o' h1 h2
      simp only [hne, hjj, if_false] at hs' hc ⊢
      exact hinv.finished j' hj' o' h1 h2 hs' hc
  · -- order
    intro j' hj' o' h1 h2 hs'
    simp only [makeStepAt, upd_apply] at hs' ⊢
    by_cases ho1 : o' + 1 = s.nextOp j
    · -- the new op is the successor of o'
      have hjj : j' = j := job_unique hwf hj' h.hj (by omega) (by omega) (by omega) hr.2
      subst hjj
      have hne : o' ≠ s.nextOp j' := by omega
      simp only [ho1, hne, if_true, if_false]
      have hso : s.sched o' = true := (hinv.schedIff j' hj' o' h1 (by omega)).mpr (Or.inl (by omega))
      exact hinv.finished j' hj' o' h1 (by omega) hso (Or.inl (by omega))
    · simp only [ho1, if_false] at hs' ⊢
      by_cases ho : o' = s.nextOp j
      · -- impossible: successor of the (unscheduled) next op is scheduled
        exfalso
        have hjj : j' = j := job_unique hwf hj' h.hj h1 (by omega) (by omega) (by omega)
        subst hjj
        have := (hinv.schedIff j' hj' (o' + 1) (by omega) (by omega)).mp hs'
        rcases this with h' | ⟨h', _⟩ <;> omega
      · simp only [ho, if_false]
        exact hinv.order j' hj' o' h1 h2 hs'
  · -- mach
    intro m' o1 o2 hne h1 h2
    simp only [makeStepAt, upd_apply] at h1 h2 ⊢
    by_cases ho1 : o1 = s.nextOp j
    · have ho2 : o2 ≠ s.nextOp j := by omega
      simp only [ho2, and_false, if_false] at h2
      simp only [ho1, ho2, if_true, if_false]
      by_cases hmm : m' = m
      · subst hmm
        have hs2 : s.sched o2 = true := by
          cases hs : s.sched o2 with
          | true => rfl
          | false => simp [hinv.unasg o2 hs m'] at h2
        obtain ⟨m0, _, _, hu, _, _, _, hb⟩ := hinv.asg o2 hs2
        have := hu m' h2; subst this
        right; omega
      · simp [ho1, hmm, hinv.unasg _ hns m'] at h1
    · simp only [ho1, and_false, if_false] at h1
      by_cases ho2 : o2 = s.nextOp j
      · simp only [ho1, ho2, if_true, if_false]
        by_cases hmm : m' = m
        · subst hmm
          have hs1 : s.sched o1 = true := by
            cases hs : s.sched o1 with
            | true => rfl
            | false => simp [hinv.unasg o1 hs m'] at h1
          obtain ⟨m0, _, _, hu, _, _, _, hb⟩ := hinv.asg o1 hs1
          have := hu m' h1; subst this
          left; omega
        · simp [ho2, hmm, hinv.unasg _ hns m'] at h2
      · simp only [ho2, and_false, if_false] at h2
        simp only [ho1, ho2, if_false]
        exact hinv.mach m' o1 o2 hne h1 h2
  · -- jdone
    intro j' hj' hd
    simp only [makeStepAt, upd_apply] at hd ⊢
    have := hinv.jdone j' hj' hd
    by_cases hjj : j' = j
    · subst hjj; rw [h.notDone] at hd; simp at hd
    · simp [hjj, this]
  · -- schedReal
    intro o' hs'
    simp only [makeStepAt, upd_apply] at hs'
    by_cases ho : o' = s.nextOp j
    · subst ho; exact ⟨j, h.hj, hr.1, hr.2⟩
    · simp only [ho, if_false] at hs'; exact hinv.schedReal o' hs'
  · -- startLe
    intro o' hs'
    simp only [makeStepAt, upd_apply] at hs' ⊢
    by_cases ho : o' = s.nextOp j
    · simp [ho]
    · simp only [ho, if_false] at hs' ⊢; exact hinv.startLe o' hs'
  · -- busyAtt
    intro m'
    simp only [makeStepAt, upd_apply]
    by_cases hmm : m' = m
    · subst hmm
      right
      exact ⟨s.nextOp j, by simp, by simp, by simp⟩
    · simp only [hmm, if_false]
      rcases hinv.busyAtt m' with h0 | ⟨o', hs', ha', hf'⟩
      · exact Or.inl h0
      · right
        have hne : o' ≠ s.nextOp j := by intro heq; subst heq; rw [hns] at hs'; simp at hs'
        exact ⟨o', by simp [hne, hs'], by simp [hne, ha'], by simp [hne, hf']⟩

/-! ### `_transit_to_next_time` preserves the invariant -/

theorem advance_some {i : Inst} {s : State} {t' : Int} (h : nextTime i.M s.busy s.time = some t') :
    advance i s = { s with time := t' } := by
  simp [advance, h]

/-- release after the clock moved forward to `t'` -/
theorem inv_release_at {i : Inst} (_hwf : WF i) {s : State} (hinv : Inv i s) {t' : Int} (ht : s.time ≤ t') :
    Inv i (release i { s with time := t' }) := by
  refine ⟨?_, hinv.errF, ?_, ?_, ?_, hinv.procEq, hinv.asg, hinv.unasg, ?_, ?_, hinv.order, hinv.mach, rfl, ?_,
    hinv.schedReal, ?_, hinv.busyAtt⟩
  · have := hinv.time0; simp only [release_eq]; omega
  · -- inProcRng
    intro j hj
    simp only [release_eq] at hj
    split at hj
    · simp at hj
    · exact hinv.inProcRng j hj
  · -- nextRng
    intro j hj
    have hr := hinv.nextRng j hj
    simp only [release_eq]
    split
    · rename_i hc
      simp only [Bool.and_eq_true, Bool.not_eq_true', decide_eq_true_eq, Bool.and_eq_false_iff,
        beq_eq_false_iff_ne] at hc
      obtain ⟨⟨_, _⟩, hc2⟩ := hc
      rcases hc2 with hc2 | hc2
      · rcases hc2 with hc2 | hc2 <;> simp_all
      · omega
    · exact hr
  · -- schedIff
    intro j hj o h1 h2
    have hold := hinv.schedIff j hj o h1 h2
    have hjd := hinv.jdone j hj
    have hr := hinv.nextRng j hj
    simp only [release_eq]
    by_cases hip : s.inProc j = true
    · have hnd : s.jobDone j = false := by
        cases hd : s.jobDone j with
        | false => rfl
        | true => have := (hjd hd).2; simp [hip] at this
      by_cases hf : s.finish (s.nextOp j) ≤ t'
      · by_cases he : s.nextOp j = i.endOp j
        · have hb : (s.nextOp j == i.endOp j) = true := by simp [he]
          simpa [hip, hf, hb, hnd] using hold
        · have hb : (s.nextOp j == i.endOp j) = false := by simp [he]
          simp [hip, hf, hb, hnd] at hold ⊢; rw [hold]; omega
      · simpa [hip, hf, hnd] using hold
    · simpa [hip] using hold
  · -- inflight
    intro j hj
    simp only [release_eq] at hj ⊢
    by_cases hip : s.inProc j = true
    · by_cases hf : s.finish (s.nextOp j) ≤ t'
      · simp [hip, hf] at hj
      · simp [hip, hf]; omega
    · simp [hip] at hj
  · -- finished
    intro j hj o h1 h2 hs hc
    have hold := hinv.schedIff j hj o h1 h2
    simp only [release_eq] at hc ⊢
    by_cases hip : s.inProc j = true
    · by_cases hf : s.finish (s.nextOp j) ≤ t'
      · -- the current op finished: every scheduled op of the job is ≤ nextOp j
        have hle : o ≤ s.nextOp j := by
          rcases hold.mp hs with h | ⟨h, _⟩ <;> omega
        by_cases heq : o = s.nextOp j
        · subst heq; exact hf
        · have := hinv.finished j hj o h1 h2 hs (Or.inl (by omega)); omega
      · simp only [hip, hf, decide_false, Bool.and_false, Bool.false_and] at hc
        rcases hc with hc | hc
        · have := hinv.finished j hj o h1 h2 hs (Or.inl hc); omega
        · simp at hc
    · simp only [Bool.not_eq_true] at hip
      have := hinv.finished j hj o h1 h2 hs (Or.inr hip); omega
  · -- jdone
    intro j hj hd
    have hjd := hinv.jdone j hj
    simp only [release_eq] at hd ⊢
    by_cases hip : s.inProc j = true
    · have hnd : s.jobDone j = false := by
        cases hd' : s.jobDone j with
        | false => rfl
        | true => have := (hjd hd').2; simp [hip] at this
      by_cases hf : s.finish (s.nextOp j) ≤ t'
      · by_cases he : s.nextOp j = i.endOp j
        · have hb : (s.nextOp j == i.endOp j) = true := by simp [he]
          simp only [hip, hf, hb, decide_true, Bool.and_self, Bool.not_true, Bool.and_false, if_true]
          exact ⟨he, trivial⟩
        · have hb : (s.nextOp j == i.endOp j) = false := by simp [he]
          simp [hip, hf, hb, hnd] at hd
      · simp [hip, hf, hnd] at hd
    · simp only [Bool.not_eq_true] at hip
      simp [hip] at hd ⊢
      exact (hjd hd).1
  · -- startLe
    intro o hs
    have := hinv.startLe o hs
    simp only [release_eq]; omega

theorem inv_transit {i : Inst} (hwf : WF i) {s : State} (hinv : Inv i s) {t' : Int}
    (h : nextTime i.M s.busy s.time = some t') : Inv i (transit i s) := by
  have := (nextTime_some h).1
  rw [transit, advance_some h]
  exact inv_release_at hwf hinv (by omega)

/-- On a state satisfying the invariant the release half alone (which the batched code applies to
every row, selected or not) changes nothing. -/
theorem release_id {i : Inst} {s : State} (hinv : Inv i s) : release i s = s := by
  have hfin : ∀ j, (s.inProc j && decide (s.finish (s.nextOp j) ≤ s.time)) = false := by
    intro j
    cases hip : s.inProc j with
    | false => simp
    | true => have := hinv.inflight j hip; simp; omega
  cases s with
  | mk time nextOp inProc jobDone busy proc start finish assign sched done err =>
    simp only [release_eq] at hfin ⊢
    have hd := hinv.doneIff
    simp only at hd hfin
    simp only [hfin, Bool.false_and, Bool.or_false]
    simp [hd]

/-! ### progress: when the clock has to advance, some machine is still busy -/

/-- an in-process job keeps its machine busy beyond the current time -/
theorem busy_of_inProc {i : Inst} {s : State} (hinv : Inv i s) {j : Nat} (hip : s.inProc j = true) :
    ∃ m, m < i.M ∧ s.time < s.busy m := by
  have hj := hinv.inProcRng j hip
  have hr := hinv.nextRng j hj
  have hs : s.sched (s.nextOp j) = true :=
    (hinv.schedIff j hj _ hr.1 hr.2).mpr (Or.inr ⟨rfl, Or.inl hip⟩)
  obtain ⟨m, hm, _, _, _, _, _, hb⟩ := hinv.asg _ hs
  have := hinv.inflight j hip
  exact ⟨m, hm, by omega⟩

/-- index arithmetic of the flattened FJSP action `1 + j·M + m` -/
theorem flat_div {j m M : Nat} (hm : m < M) : (j * M + m) / M = j := by
  have hM : 0 < M := by omega
  rw [Nat.add_comm, Nat.add_mul_div_right _ _ hM, Nat.div_eq_of_lt hm]; simp
theorem flat_mod {j m M : Nat} (hm : m < M) : (j * M + m) % M = m := by
  rw [Nat.add_comm, Nat.add_mul_mod_self_right, Nat.mod_eq_of_lt hm]

/-- the action that schedules job `j` (on machine `m`) -/
def actOf (i : Inst) (j m : Nat) : Nat := if i.jssp then 1 + j else 1 + (j * i.M + m)

theorem actOf_lt {i : Inst} {j m : Nat} (hj : j < i.J) (hm : m < i.M) : actOf i j m < nAct i := by
  unfold actOf nAct
  split
  · omega
  · have : j * i.M + m < i.J * i.M := by
      calc j * i.M + m < j * i.M + i.M := by omega
        _ = (j + 1) * i.M := by rw [Nat.add_mul]; simp
        _ ≤ i.J * i.M := Nat.mul_le_mul_right _ (by omega)
    omega

theorem mask_actOf {i : Inst} {s : State} {j m : Nat} (hm : m < i.M) (h : avail i s j m = true) :
    mask i s (actOf i j m) = true := by
  cases hjs : i.jssp with
  | true =>
    have h0 : 1 + j ≠ 0 := by omega
    have h1 : 1 + j - 1 = j := by omega
    simp only [actOf, mask, hjs, if_true, h0, if_false, h1]
    exact anyUpTo_iff.mpr ⟨m, hm, h⟩
  | false =>
    have h0 : 1 + (j * i.M + m) ≠ 0 := by omega
    have h1 : 1 + (j * i.M + m) - 1 = j * i.M + m := by omega
    simp only [actOf, mask, hjs, h0, if_false, h1, flat_div hm, flat_mod hm, Bool.false_eq_true]
    exact h

theorem exists_busy_of_stepComplete {i : Inst} (hwf : WF i) {s : State} (hinv : Inv i s)
    (hsc : stepComplete i s = true) : ∃ m, m < i.M ∧ s.time < s.busy m := by
  simp only [stepComplete, Bool.and_eq_true, Bool.not_eq_true'] at hsc
  obtain ⟨hno, hnd⟩ := hsc
  -- some job is not done
  have : ∃ j, j < i.J ∧ s.jobDone j = false := by
    rw [hinv.doneIff] at hnd
    apply Classical.byContradiction
    intro hcon
    have : allUpTo i.J s.jobDone = true := allUpTo_iff.mpr (fun j hj => by
      cases hd : s.jobDone j with
      | true => rfl
      | false => exact absurd ⟨j, hj, hd⟩ hcon)
    simp [this] at hnd
  obtain ⟨j, hj, hjd⟩ := this
  cases hip : s.inProc j with
  | true => exact busy_of_inProc hinv hip
  | false =>
    have hr := hinv.nextRng j hj
    have hns : s.sched (s.nextOp j) = false := by
      cases hs : s.sched (s.nextOp j) with
      | false => rfl
      | true =>
        have := (hinv.schedIff j hj _ hr.1 hr.2).mp hs
        simp [hip, hjd] at this
    obtain ⟨m, hm, hpos⟩ := hwf.elig j hj _ hr.1 hr.2
    have hp : s.proc m (s.nextOp j) = i.proc m (s.nextOp j) := by
      rw [hinv.procEq]; simp [hns]
    refine ⟨m, hm, ?_⟩
    apply Classical.byContradiction
    intro hnb
    have hav : avail i s j m = true := by
      simp only [avail_eq, hjd, hip, hp, Bool.not_false, Bool.true_and, Bool.and_eq_true, Bool.not_eq_true',
        decide_eq_false_iff_not, beq_eq_false_iff_ne]
      exact ⟨by omega, by omega⟩
    have h1 := mask_actOf hm hav
    have h2 := anyUpTo_eq_false.mp hno _ (actOf_lt hj hm)
    rw [h1] at h2; simp at h2

/-! ### the time-advance loop: invariant, termination within the fuel -/

/-- number of machines that are busy beyond the current time -/
def cntBusy (i : Inst) (s : State) : Nat := cnt i.M (fun m => decide (s.time < s.busy m))

theorem release_busy (i : Inst) (s : State) : (release i s).busy = s.busy := rfl
theorem release_time (i : Inst) (s : State) : (release i s).time = s.time := rfl
theorem release_sched (i : Inst) (s : State) : (release i s).sched = s.sched := rfl

theorem cntBusy_transit_lt {i : Inst} {s : State} {t' : Int}
    (h : nextTime i.M s.busy s.time = some t') : cntBusy i (transit i s) < cntBusy i s := by
  obtain ⟨hlt, ⟨m0, hm0, hb0⟩, _⟩ := nextTime_some h
  rw [transit, advance_some h]
  unfold cntBusy
  rw [release_busy, release_time]
  apply cnt_lt_of_imp (k := m0) _ hm0
  · simp; omega
  · simp; omega
  · intro m _ hq; simp at hq ⊢; omega

theorem autoTransit_spec {i : Inst} (hwf : WF i) (f : Nat) :
    ∀ s, Inv i s → cntBusy i s < f →
      Inv i (autoTransit i f s) ∧ stepComplete i (autoTransit i f s) = false ∧
      cntBusy i (autoTransit i f s) ≤ cntBusy i s ∧ (autoTransit i f s).sched = s.sched := by
  induction f with
  | zero => intro s _ h; omega
  | succ f ih =>
    intro s hinv hlt
    simp only [autoTransit]
    cases hsc : stepComplete i s with
    | false => simp [hinv, hsc]
    | true =>
      simp only [if_true]
      obtain ⟨m, hm, hb⟩ := exists_busy_of_stepComplete hwf hinv hsc
      obtain ⟨t', ht'⟩ := nextTime_isSome hm hb
      have hinv' := inv_transit hwf hinv ht'
      have hdec := cntBusy_transit_lt (i := i) ht'
      obtain ⟨h1, h2, h3, h4⟩ := ih (transit i s) hinv' (by omega)
      refine ⟨h1, h2, by omega, ?_⟩
      rw [h4, transit, release_sched, advance_some ht']

theorem cntBusy_le (i : Inst) (s : State) : cntBusy i s ≤ i.M := cnt_le _ _

/-- **the fuel of the model's loop is never exhausted** (so the code's unbounded `while` terminates) -/
theorem transit_fuel_enough {i : Inst} (hwf : WF i) {s : State} (hinv : Inv i s) :
    stepComplete i (autoTransit i (fuel i) s) = false :=
  (autoTransit_spec hwf (fuel i) s hinv (by have := cntBusy_le i s; unfold fuel; omega)).2.1

/-! ### a mask-admitted scheduling action selects an available (job, machine) pair -/

theorem findMa_spec {M : Nat} {p : Nat → Int} (h : ∃ m, m < M ∧ 0 < p m) :
    findMa M p < M ∧ 0 < p (findMa M p) := by
  induction M with
  | zero => obtain ⟨m, hm, _⟩ := h; omega
  | succ M ih =>
    simp only [findMa]
    cases ha : anyUpTo M (fun k => decide (p k > 0)) with
    | true =>
      simp only [if_true]
      obtain ⟨m, hm, hp⟩ := anyUpTo_iff.mp ha
      have := ih ⟨m, hm, by simpa using hp⟩
      exact ⟨by omega, this.2⟩
    | false =>
      simp only [Bool.false_eq_true, if_false]
      obtain ⟨m, hm, hp⟩ := h
      by_cases hmM : m = M
      · subst hmM; exact ⟨by omega, hp⟩
      · have := anyUpTo_eq_false.mp ha m (by omega)
        simp at this; omega

theorem sel_of_mask {i : Inst} (hwf : WF i) {s : State} (hinv : Inv i s) {a : Nat} (ha0 : a ≠ 0)
    (ha : a < nAct i) (hm : mask i s a = true) :
    Sel i s (translate i s (a - 1)).1 (translate i s (a - 1)).2.2 ∧
    (translate i s (a - 1)).2.1 = s.nextOp (translate i s (a - 1)).1 := by
  cases hjs : i.jssp with
  | true =>
    simp only [nAct, hjs, if_true] at ha
    simp only [mask, ha0, if_false, hjs, if_true] at hm
    obtain ⟨m, hmM, hav⟩ := anyUpTo_iff.mp hm
    have hj : a - 1 < i.J := by omega
    have hsel := sel_of_avail hj hmM hav
    obtain ⟨hns, hpe, hpos, hoN⟩ := sel_facts hwf hinv hsel
    have hr := hinv.nextRng _ hj
    have hf := findMa_spec (M := i.M) (p := fun m' => s.proc m' (s.nextOp (a - 1)))
      ⟨m, hmM, by show 0 < s.proc m (s.nextOp (a - 1)); rw [hpe]; exact hpos⟩
    have hpm : ∀ m', s.proc m' (s.nextOp (a - 1)) = i.proc m' (s.nextOp (a - 1)) := by
      intro m'; rw [hinv.procEq]; simp [hns]
    have heq : findMa i.M (fun m' => s.proc m' (s.nextOp (a - 1))) = m := by
      apply hwf.uniq hjs _ hj _ hr.1 hr.2 _ _ hf.1 hmM _ hpos
      have h2 : 0 < s.proc (findMa i.M (fun m' => s.proc m' (s.nextOp (a - 1)))) (s.nextOp (a - 1)) := hf.2
      rw [hpm] at h2; exact h2
    simp only [translate_eq, hjs, if_true, heq]
    exact ⟨hsel, trivial⟩
  | false =>
    simp only [nAct, hjs, Bool.false_eq_true, if_false] at ha
    simp only [mask, ha0, if_false, hjs, Bool.false_eq_true] at hm
    have hM : 0 < i.M := by
      cases hM : i.M with
      | zero => rw [hM] at ha; simp at ha; omega
      | succ k => omega
    have hj : (a - 1) / i.M < i.J := by
      apply Nat.div_lt_of_lt_mul
      rw [Nat.mul_comm]; omega
    have hmM : (a - 1) % i.M < i.M := Nat.mod_lt _ hM
    simp only [translate_eq, hjs, Bool.false_eq_true, if_false]
    exact ⟨sel_of_avail hj hmM hm, trivial⟩

/-! ### every mask-admitted step preserves the invariant and ends in a state with an open action -/

/-- invariant of reachable states: `Inv`, and the state is not stuck (finished, or some action open) -/
def Inv2 (i : Inst) (s : State) : Prop := Inv i s ∧ stepComplete i s = false

theorem anyInProc_busy {i : Inst} {s : State} (hinv : Inv i s) (h : anyUpTo i.J s.inProc = true) :
    ∃ m, m < i.M ∧ s.time < s.busy m := by
  obtain ⟨j, _, hip⟩ := anyUpTo_iff.mp h
  exact busy_of_inProc hinv hip

/-- what the mask guarantees about a wait action in an unfinished state -/
theorem wait_busy {i : Inst} {s : State} (hinv : Inv i s) (hnd : s.done = false)
    (hm : mask i s 0 = true) : i.maskNoOps = false ∧ ∃ m, m < i.M ∧ s.time < s.busy m := by
  simp only [mask, if_true, noOpMask_eq] at hm
  cases hmn : i.maskNoOps with
  | true => simp [hmn, hnd] at hm
  | false =>
    simp [hmn, hnd] at hm
    exact ⟨rfl, anyInProc_busy hinv hm⟩

theorem inv2_reset {i : Inst} (hwf : WF i) : Inv2 i (reset i) := by
  refine ⟨inv_reset hwf, ?_⟩
  have hr := hwf.rng 0 hwf.jpos
  obtain ⟨m, hm, hpos⟩ := hwf.elig 0 hwf.jpos (i.startOp 0) (by omega) hr.1
  have hav : avail i (reset i) 0 m = true := by
    simp [avail_eq, reset]; omega
  have h1 := mask_actOf hm hav
  have : anyMask i (reset i) = true := anyUpTo_iff.mpr ⟨_, actOf_lt hwf.jpos hm, h1⟩
  simp [stepComplete, this]

theorem cntBusy_le_fuel (i : Inst) (s : State) : cntBusy i s < fuel i := by
  have := cntBusy_le i s; unfold fuel; omega

theorem inv2_step {i : Inst} (hwf : WF i) {s : State} (h : Inv2 i s) {a : Nat} (ha : a < nAct i)
    (hm : mask i s a = true) : Inv2 i (step i s a) := by
  obtain ⟨hinv, hsc⟩ := h
  rw [step_eq]
  cases hd : s.done with
  | true => simp only [if_true]; exact ⟨hinv, hsc⟩
  | false =>
    simp only [Bool.false_eq_true, if_false]
    by_cases ha0 : a = 0
    · subst ha0
      simp only [if_true]
      obtain ⟨_, m, hmM, hb⟩ := wait_busy hinv hd hm
      obtain ⟨t', ht'⟩ := nextTime_isSome hmM hb
      have hinv' := inv_transit hwf hinv ht'
      have := autoTransit_spec hwf (fuel i) _ hinv' (cntBusy_le_fuel i _)
      exact ⟨this.1, this.2.1⟩
    · simp only [ha0, if_false]
      obtain ⟨hsel, ho⟩ := sel_of_mask hwf hinv ha0 ha hm
      have hinv' : Inv i (makeStep i s (a - 1)) := by
        unfold makeStep
        simp only [ho]
        exact inv_makeStepAt hwf hinv hsel
      have := autoTransit_spec hwf (fuel i) _ hinv' (cntBusy_le_fuel i _)
      exact ⟨this.1, this.2.1⟩

theorem inv2_of_reach {i : Inst} (hwf : WF i) {s : State} (h : Reach env i s) : Inv2 i s :=
  inv_of_reach (e := env) (Inv := Inv2 i) (inv2_reset hwf)
    (fun _ _ hi ha hm => inv2_step hwf hi ha hm) h

/-! ### further consequences of the invariant (used by C05) -/

/-- an operation that is still running belongs to an in-process job and is that job's current one -/
theorem inProc_of_running {i : Inst} {s : State} (hinv : Inv i s) {j o : Nat} (hj : j < i.J)
    (h1 : i.startOp j ≤ o) (h2 : o ≤ i.endOp j) (hs : s.sched o = true) (hrun : s.time < s.finish o) :
    s.inProc j = true ∧ o = s.nextOp j := by
  have hc := hinv.finished j hj o h1 h2 hs
  have hip : s.inProc j = true := by
    cases hip : s.inProc j with
    | true => rfl
    | false => have := hc (Or.inr hip); omega
  refine ⟨hip, ?_⟩
  have hnlt : ¬ o < s.nextOp j := fun hlt => by have := hc (Or.inl hlt); omega
  rcases (hinv.schedIff j hj o h1 h2).mp hs with hlt | ⟨heq, _⟩
  · exact absurd hlt hnlt
  · exact heq

/-- **`busy_until` of a machine is the completion time of the operation running on it** -/
theorem busy_eq_finish_of_running {i : Inst} {s : State} (hinv : Inv i s) {m o : Nat}
    (hs : s.sched o = true) (ha : s.assign m o = true) (hrun : s.time < s.finish o) :
    s.busy m = s.finish o := by
  obtain ⟨m0, _, _, hu, _, _, _, hb⟩ := hinv.asg o hs
  have := hu m ha; subst this
  rcases hinv.busyAtt m with h0 | ⟨o2, hs2, ha2, hf2⟩
  · have := hinv.time0; omega
  · by_cases heq : o2 = o
    · subst heq; omega
    · have h1 := hinv.startLe o hs
      have h2 := hinv.startLe o2 hs2
      rcases hinv.mach m o o2 (fun h => heq h.symm) ha ha2 with h | h <;> omega

/-- a machine that is busy beyond the current time runs an operation of an in-process job -/
theorem inProc_of_busy {i : Inst} {s : State} (hinv : Inv i s) {m : Nat} (hb : s.time < s.busy m) :
    ∃ j, j < i.J ∧ s.inProc j = true := by
  rcases hinv.busyAtt m with h0 | ⟨o, hs, _, hf⟩
  · have := hinv.time0; omega
  · obtain ⟨j, hj, h1, h2⟩ := hinv.schedReal o hs
    exact ⟨j, hj, (inProc_of_running hinv hj h1 h2 hs (by omega)).1⟩

/-- with `mask_no_ops = false` the time-advance loop never has anything to do: whenever a machine is
still busy some job is in process and the wait action is open -/
theorem not_stepComplete_of_wait_allowed {i : Inst} (hwf : WF i) (hmno : i.maskNoOps = false) {s : State}
    (hinv : Inv i s) : stepComplete i s = false := by
  cases hsc : stepComplete i s with
  | false => rfl
  | true =>
    exfalso
    obtain ⟨m, _, hb⟩ := exists_busy_of_stepComplete hwf hinv hsc
    obtain ⟨j, hj, hip⟩ := inProc_of_busy hinv hb
    simp only [stepComplete, Bool.and_eq_true, Bool.not_eq_true'] at hsc
    have h0 : mask i s 0 = true := by
      simp only [mask, if_true, noOpMask_eq, hmno, Bool.false_eq_true, if_false, hsc.2, Bool.not_false,
        Bool.and_true, Bool.or_false]
      exact anyUpTo_iff.mpr ⟨j, hj, hip⟩
    have h1 := anyUpTo_eq_false.mp hsc.1 0 (by unfold nAct; split <;> omega)
    rw [h0] at h1; simp at h1

theorem autoTransit_of_not_stepComplete {i : Inst} {s : State} (h : stepComplete i s = false) (f : Nat) :
    autoTransit i f s = s := by
  cases f <;> simp [autoTransit, h]

/-- in a finished state every operation of every job is scheduled -/
theorem all_sched_of_done {i : Inst} {s : State} (hinv : Inv i s) (hd : s.done = true) :
    ∀ j, j < i.J → ∀ o, i.startOp j ≤ o → o ≤ i.endOp j → s.sched o = true := by
  intro j hj o h1 h2
  have hall : ∀ j, j < i.J → s.jobDone j = true := by
    have := hinv.doneIff; rw [hd] at this
    exact allUpTo_iff.mp this.symm
  have hjd := hinv.jdone j hj (hall j hj)
  apply (hinv.schedIff j hj o h1 h2).mpr
  by_cases ho : o = s.nextOp j
  · exact Or.inr ⟨ho, Or.inr (hall j hj)⟩
  · left; rw [hjd.1]; rw [hjd.1] at ho; omega

/-! ### concrete well-formed instances used by the non-vacuity examples of the property files -/

/-- 2 jobs × 2 operations, 2 machines, every operation eligible on both machines (3 time units),
one padded column; `mask_no_ops = false`. -/
def exFjsp : Inst :=
  { J := 2, M := 2, N := 5, startOp := fun j => 2 * j, endOp := fun j => 2 * j + 1,
    proc := fun _ o => if o < 4 then 3 else 0, pad := fun o => decide (4 ≤ o), maskNoOps := false, jssp := false }

theorem exFjsp_wf : WF exFjsp where
  jpos := by decide
  rng := by intro j hj; simp only [exFjsp] at hj ⊢; omega
  disj := by intro j j' _ _ h; simp only [exFjsp]; omega
  procNN := by intro m o _ _; simp only [exFjsp]; split <;> omega
  elig := by
    intro j hj o h1 h2
    simp only [exFjsp] at hj h1 h2 ⊢
    exact ⟨0, by omega, by rw [if_pos (by omega)]; omega⟩
  uniq := by intro h; simp [exFjsp] at h
  padIff := by decide

/-- JSSP: 2 jobs × 2 operations, operation `o` runs on machine `o % 2` only; `mask_no_ops = true` -/
def exJssp : Inst :=
  { J := 2, M := 2, N := 4, startOp := fun j => 2 * j, endOp := fun j => 2 * j + 1,
    proc := fun m o => if m = o % 2 then 3 else 0, pad := fun _ => false, maskNoOps := true, jssp := true }

theorem exJssp_wf : WF exJssp where
  jpos := by decide
  rng := by intro j hj; simp only [exJssp] at hj ⊢; omega
  disj := by intro j j' _ _ h; simp only [exJssp]; omega
  procNN := by intro m o _ _; simp only [exJssp]; split <;> omega
  elig := by
    intro j hj o h1 h2
    simp only [exJssp] at hj h1 h2 ⊢
    exact ⟨o % 2, by omega, by simp⟩
  uniq := by
    intro _ j _ o _ _ m m' _ _ h1 h2
    simp only [exJssp] at h1 h2
    split at h1 <;> split at h2 <;> omega
  padIff := by decide

end Rl4co.Fjsp
