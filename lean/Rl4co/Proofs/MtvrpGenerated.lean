/-
Bridging lemmas for the statement-level translation of `MTVRPEnv.get_action_mask` and `MTVRPEnv._step`
(`Rl4co/Generated/MtvrpEnv.lean`, regenerated from the Python source on every run by
`harness/probes/mtvrp_trans.py`): the generated definitions ARE the model the property theorems talk about, and the
C01 / C02 clauses restated on the environment built from the generated definitions.  An edit of the source that changes
an operand, a term, the grouping or an operator of any of the translated statements changes the generated term and
these lemmas stop compiling.  No Mathlib.
-/
import Rl4co.Env.MtvrpGen
import Rl4co.Props.C01.Mtvrp
import Rl4co.Props.C02.Mtvrp

namespace Rl4co.Mtvrp
open Rl4co.Spec.Mtvrp

theorem canVisitGen_eq (i : Inst) (s : State) (j : Nat) : Generated.canVisitGen i s j = canVisit i s j := by
  simp only [Generated.canVisitGen, canVisit, meetsDemand, arrival, retTime, lenVia, lhMissing,
    Params.mtvrpMaskTwCmp, Params.mtvrpMaskDepotCmp, Params.mtvrpMaskLimitCmp, Params.mtvrpMaskCapLCmp,
    Params.mtvrpMaskCapBCmp, Cmp.eval, gt_iff_lt]

theorem stepGen_eq (i : Inst) (s : State) (a : Nat) : Generated.stepGen i s a = step i s a := by
  rw [step_def]
  simp only [Generated.stepGen, Cmp.evalNat, decide_eq_true_eq]

theorem envGen_eq : envGen = env := by
  have h1 : (fun (i : Inst) (s : State) (a : Nat) => if a = 0 then depotRule i s else Generated.canVisitGen i s a) = mask := by
    funext i s a; simp only [mask, canVisitGen_eq]
  have h2 : Generated.stepGen = step := by
    funext i s a; exact stepGen_eq i s a
  unfold envGen env
  rw [h1, h2]

/-- **C01 on the generated definitions** -/
theorem feasible_of_run_gen (i : Inst) (hx : Excl i) (hcap : 0 ≤ i.cap) {as : List Nat} {s : State}
    (h : Run envGen i (envGen.reset i) as s) (hd : envGen.done i s = true) : Feasible i as := by
  rw [envGen_eq] at h hd
  exact feasible_of_run i hx hcap h hd

/-- **C02 on the generated definitions** -/
theorem steps_le_gen (i : Inst) (hwf : wf i = true) {as : List Nat} {s : State}
    (h : RunND envGen i (envGen.reset i) as s) : as.length ≤ 2 * i.n + 1 := by
  rw [envGen_eq] at h
  exact steps_le i hwf h

end Rl4co.Mtvrp
