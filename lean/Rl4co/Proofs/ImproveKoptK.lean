/-
Helper lemmas for the general k-opt branch of `TSPkoptEnv._local_operator` (C09): the relinking walk
along a list whose consecutive triples are "locally right", one reversed segment, the untouched rest,
their assembly over any number of segments, the sequential scatter.  Core Lean only.
-/
import Rl4co.Proofs.ImproveCycle

namespace Rl4co.Improve.KoptK
open Rl4co.Spec.Improve

/-- a property of all consecutive triples of a list -/
def AllTriples (P : Nat → Nat → Nat → Prop) : List Nat → Prop
  | x :: y :: z :: t => P x y z ∧ AllTriples P (y :: z :: t)
  | _ => True

theorem allTriples_split (P : Nat → Nat → Nat → Prop) (A : List Nat) (y z : Nat) (B : List Nat) :
    AllTriples P (A ++ y :: z :: B) ↔ AllTriples P (A ++ [y, z]) ∧ AllTriples P (y :: z :: B) := by
  induction A with
  | nil => simp [AllTriples]
  | cons a A ih =>
    cases A with
    | nil => simp [AllTriples]
    | cons a' A' =>
      cases A' with
      | nil =>
        simp only [List.cons_append, List.nil_append, AllTriples] at ih ⊢
        rw [ih]; simp [and_assoc]
      | cons a'' A'' =>
        simp only [List.cons_append, AllTriples] at ih ⊢
        rw [ih]; simp [and_assoc]

/-- what one iteration of the relinking walk writes into `rec[next_cur]` when it comes from `cur`
and `next_cur` still holds its scattered value `rec0 next_cur` -/
def fixVal (prd : Rec) (rn : List Nat) (rec0 : Rec) (cur nextCur : Nat) : Nat :=
  if (cur != prd nextCur) && !(rn.contains nextCur) then prd nextCur else rec0 nextCur

/-- the relinking walk along a duplicate-free list whose consecutive triples `(u, v, w)` all satisfy
"coming from `u`, the loop stores `w` at `v`": afterwards the list is a chain, and nothing but its
inner nodes was written. -/
theorem koptLoop_chain (prd : Rec) (rn : List Nat) (rec0 : Rec) :
    ∀ (Q : List Nat) (u v : Nat) (rc : Rec),
    (u :: v :: Q).Nodup → rc u = v → (∀ z ∈ v :: Q, rc z = rec0 z) →
    AllTriples (fun x y w => fixVal prd rn rec0 x y = w) (u :: v :: Q) →
    Linked (koptLoop prd rn Q.length u rc) (u :: v :: Q) ∧
    (∀ z, z ∉ (v :: Q).dropLast → koptLoop prd rn Q.length u rc z = rc z) := by
  intro Q
  induction Q with
  | nil =>
    intro u v rc _ huv _ _
    exact ⟨⟨huv, trivial⟩, fun z _ => rfl⟩
  | cons w Q ih =>
    intro u v rc hnd huv hrc htri
    have hnd' := List.nodup_cons.mp hnd
    have hfix : fixVal prd rn rec0 u v = w := htri.1
    have hstep : koptLoop prd rn (w :: Q).length u rc =
        koptLoop prd rn Q.length v (upd rc v w) := by
      simp only [List.length_cons, koptLoop, huv]
      congr 1
      rw [← hfix]
      simp only [fixVal, hrc v (by simp)]
    rw [hstep]
    have hv_notin : v ∉ w :: Q := (List.nodup_cons.mp hnd'.2).1
    obtain ⟨ih1, ih2⟩ := ih v w (upd rc v w) hnd'.2 (by simp [upd])
      (fun z hz => by
        have : z ≠ v := fun e => hv_notin (e ▸ hz)
        simp [upd, this]; exact hrc z (List.mem_cons_of_mem _ hz))
      htri.2
    have hu_notin : u ∉ v :: w :: Q := hnd'.1
    constructor
    · refine ⟨?_, ih1⟩
      have huv' : u ≠ v := fun e => hu_notin (by simp [e])
      rw [ih2 u (fun hm => hu_notin (List.mem_cons_of_mem _ (List.dropLast_subset _ hm)))]
      simp [upd, huv', huv]
    · intro z hz
      have hzv : z ≠ v := by
        intro e; apply hz; subst e
        simp [List.dropLast]
      have hz' : z ∉ (w :: Q).dropLast := by
        intro hm; apply hz
        simp only [List.dropLast_cons_cons] at hm ⊢
        cases Q with
        | nil => simp [List.dropLast] at hm
        | cons q Q' => simp only [List.dropLast_cons_cons] at hm ⊢; exact List.mem_cons_of_mem _ hm
      rw [ih2 z hz']
      simp [upd, hzv]


theorem fixVal_of_mem (prd : Rec) (rn : List Nat) (rec0 : Rec) (u v : Nat) (h : v ∈ rn) :
    fixVal prd rn rec0 u v = rec0 v := by
  simp [fixVal, h]

theorem fixVal_of_eq (prd : Rec) (rn : List Nat) (rec0 : Rec) (u v : Nat) (h : u = prd v) :
    fixVal prd rn rec0 u v = rec0 v := by
  simp [fixVal, h]

theorem fixVal_rev (prd : Rec) (rn : List Nat) (rec0 : Rec) (u v : Nat) (h1 : u ≠ prd v) (h2 : v ∉ rn) :
    fixVal prd rn rec0 u v = prd v := by
  simp [fixVal, h1, h2]

abbrev OK (prd : Rec) (rn : List Nat) (rec0 : Rec) : Nat → Nat → Nat → Prop :=
  fun x y w => fixVal prd rn rec0 x y = w

/-- one reversed segment `T = rev S` entered from `u`: every inner node gets its OLD predecessor, the
last one (the old head of the segment, a "right node") keeps its scattered successor `q`. -/
theorem segOK (prd : Rec) (rn : List Nat) (rec0 : Rec) :
    ∀ (T : List Nat) (u : Nat) (q? : Option Nat), T ≠ [] → Linked prd T → (u :: T).Nodup →
    (∀ z ∈ T.dropLast, z ∉ rn) →
    (∀ h, T.getLast? = some h → h ∈ rn ∧ ∀ q ∈ q?, rec0 h = q) →
    AllTriples (OK prd rn rec0) (u :: T ++ q?.toList) := by
  intro T
  induction T with
  | nil => intro u q? h; exact absurd rfl h
  | cons x T ih =>
    intro u q? _ hl hnd hdl hlast
    cases T with
    | nil =>
      cases q? with
      | none => simp [AllTriples]
      | some q =>
        have := hlast x (by simp)
        simp only [List.cons_append, List.nil_append, Option.toList, AllTriples, and_true, OK]
        rw [fixVal_of_mem _ _ _ _ _ this.1]
        exact this.2 q (by simp)
    | cons y T' =>
      rw [linked_cons_cons] at hl
      have hnd' := List.nodup_cons.mp hnd
      have hux : u ≠ y := by
        intro e; apply hnd'.1; simp [e]
      have hxrn : x ∉ rn := hdl x (by simp [List.dropLast])
      refine ⟨?_, ?_⟩
      · show fixVal prd rn rec0 u x = y
        rw [fixVal_rev _ _ _ _ _ (by rw [hl.1]; exact hux) hxrn, hl.1]
      · have := ih x q? (by simp) hl.2 hnd'.2
          (fun z hz => hdl z (by
            simp only [List.dropLast_cons_cons] at hz ⊢
            exact List.mem_cons_of_mem _ hz))
          (fun h hh => hlast h (by rw [List.getLast?_cons_cons]; exact hh))
        simpa using this

/-- the untouched rest of the tour: every node keeps its old successor -/
theorem restOK (prd : Rec) (rn : List Nat) (rec0 r : Rec) :
    ∀ (R : List Nat) (u : Nat), Linked r R →
    (∀ x ∈ R.dropLast, prd (r x) = x) → (∀ x ∈ R.dropLast, rec0 x = r x) →
    (∀ v, R.head? = some v → u = prd v ∨ v ∈ rn) →
    AllTriples (OK prd rn rec0) (u :: R) := by
  intro R
  induction R with
  | nil => intro u _ _ _ _; trivial
  | cons v R ih =>
    intro u hl hp hr hu
    cases R with
    | nil => trivial
    | cons w R' =>
      rw [linked_cons_cons] at hl
      refine ⟨?_, ?_⟩
      · show fixVal prd rn rec0 u v = w
        have h0 := hr v (by simp [List.dropLast])
        rcases hu v rfl with h | h
        · rw [fixVal_of_eq _ _ _ _ _ h, h0, hl.1]
        · rw [fixVal_of_mem _ _ _ _ _ h, h0, hl.1]
      · apply ih v hl.2
        · intro x hx; exact hp x (by simp only [List.dropLast_cons_cons]; exact List.mem_cons_of_mem _ hx)
        · intro x hx; exact hr x (by simp only [List.dropLast_cons_cons]; exact List.mem_cons_of_mem _ hx)
        · intro v' hv'
          simp only [List.head?_cons, Option.some.injEq] at hv'
          subst hv'
          left
          rw [← hl.1]; exact (hp v (by simp [List.dropLast])).symm


theorem linked_prefix (r : Rec) : ∀ (A B : List Nat), Linked r (A ++ B) → Linked r A := by
  intro A
  induction A with
  | nil => intro _ _; trivial
  | cons a A ih =>
    intro B h
    cases A with
    | nil => trivial
    | cons a' A' =>
      simp only [List.cons_append, linked_cons_cons] at h ⊢
      exact ⟨h.1, ih B h.2⟩

theorem linked_suffix (r : Rec) : ∀ (A B : List Nat), Linked r (A ++ B) → Linked r B := by
  intro A
  induction A with
  | nil => intro _ h; exact h
  | cons a A ih =>
    intro B h
    apply ih
    cases hAB : A ++ B with
    | nil => trivial
    | cons c C =>
      rw [List.cons_append, hAB, linked_cons_cons] at h
      exact h.2

/-- reading an old chain backwards follows the predecessor array -/
theorem linked_prd_reverse (r prd : Rec) : ∀ (S : List Nat), Linked r S →
    (∀ x ∈ S.dropLast, prd (r x) = x) → Linked prd S.reverse := by
  intro S
  induction S with
  | nil => intro _ _; trivial
  | cons a S ih =>
    intro hl hp
    cases S with
    | nil => simp [Linked]
    | cons b S' =>
      rw [linked_cons_cons] at hl
      have ih' := ih hl.2 (fun x hx => hp x (by
        simp only [List.dropLast_cons_cons]; exact List.mem_cons_of_mem _ hx))
      have e : (a :: b :: S').reverse = S'.reverse ++ b :: [a] := by simp
      rw [e, linked_append_mid]
      refine ⟨by simpa using ih', ?_, trivial⟩
      have := hp a (by simp [List.dropLast])
      rw [hl.1] at this; exact this

/-- the scattered links `rec_next[left] = right`, read along the segments: the node `u` in front of a
segment points to the LAST node of that segment, the first node of the last segment points to whatever
followed it (the head of `R ++ [t0]`). -/
def Links (rec0 : Rec) (t0 : Nat) : Nat → List (List Nat) → List Nat → Prop
  | u, [], R => rec0 u = (R ++ [t0]).headD t0
  | u, S :: segs, R => S.getLast? = some (rec0 u) ∧ Links rec0 t0 (S.headD t0) segs R

theorem links_first (rec0 : Rec) (t0 u : Nat) (segs : List (List Nat)) (R : List Nat)
    (h : Links rec0 t0 u segs R) (hne : ∀ S ∈ segs, S ≠ []) :
    (newTail segs R ++ [t0]).head? = some (rec0 u) := by
  cases segs with
  | nil =>
    simp only [Links] at h
    simp only [newTail, List.map_nil, List.flatten_nil, List.nil_append]
    cases R <;> simp_all
  | cons S segs =>
    obtain ⟨h1, _⟩ := h
    have hS := hne S (by simp)
    simp only [newTail, List.map_cons, List.flatten_cons, List.append_assoc]
    rw [List.head?_append]
    simp [List.head?_reverse, h1]

theorem chainOK (prd : Rec) (rn : List Nat) (rec0 r : Rec) (t0 : Nat) :
    ∀ (segs : List (List Nat)) (R : List Nat) (u : Nat),
    (∀ S ∈ segs, S ≠ []) →
    (u :: (segs.flatten ++ R)).Nodup →
    Linked r (segs.flatten ++ R ++ [t0]) →
    (∀ x ∈ segs.flatten ++ R, prd (r x) = x) →
    Links rec0 t0 u segs R →
    (∀ x ∈ R, rec0 x = r x) →
    (∀ S ∈ segs, S.headD t0 ∈ rn ∧ ∀ z ∈ S.tail, z ∉ rn) →
    (∀ v, R.head? = some v → v ∈ rn) →
    AllTriples (OK prd rn rec0) (u :: newTail segs R) := by
  intro segs
  induction segs with
  | nil =>
    intro R u _ _ hl hp _ hr _ hrn
    simp only [newTail, List.map_nil, List.flatten_nil, List.nil_append] at *
    exact restOK prd rn rec0 r R u (linked_prefix r R [t0] hl)
      (fun x hx => hp x (List.dropLast_subset _ hx))
      (fun x hx => hr x (List.dropLast_subset _ hx))
      (fun v hv => Or.inr (hrn v hv))
  | cons S segs ih =>
    intro R u hne hnd hl hp hlk hr hsel hrn
    have hS : S ≠ [] := hne S (by simp)
    obtain ⟨h, Stl, rfl⟩ : ∃ h Stl, S = h :: Stl := by
      cases S with
      | nil => exact absurd rfl hS
      | cons h Stl => exact ⟨h, Stl, rfl⟩
    obtain ⟨hlk1, hlk2⟩ := hlk
    simp only [List.headD_cons] at hlk2
    simp only [List.flatten_cons, List.append_assoc, List.cons_append] at hnd hl hp
    -- the induction hypothesis for the remaining segments, entered from `h`
    have hnd_all := List.nodup_cons.mp hnd
    have hnd_h : (h :: (segs.flatten ++ R)).Nodup := by
      have hsub : (h :: (segs.flatten ++ R)).Sublist (h :: (Stl ++ (segs.flatten ++ R))) :=
        List.Sublist.cons_cons h (List.sublist_append_right _ _)
      exact hsub.nodup hnd_all.2
    have hl_rest : Linked r (segs.flatten ++ R ++ [t0]) := by
      have := linked_suffix r (h :: Stl) (segs.flatten ++ R ++ [t0]) (by simpa using hl)
      exact this
    have ihr := ih R h (fun S' hS' => hne S' (List.mem_cons_of_mem _ hS')) hnd_h hl_rest
      (fun x hx => hp x (by
        simp only [List.mem_cons, List.mem_append] at hx ⊢
        rcases hx with hx | hx
        · exact Or.inr (Or.inr (Or.inl hx))
        · exact Or.inr (Or.inr (Or.inr hx))))
      hlk2 hr (fun S' hS' => hsel S' (List.mem_cons_of_mem _ hS')) hrn
    -- the segment itself
    have hSl : Linked r (h :: Stl) := linked_prefix r (h :: Stl) (segs.flatten ++ R ++ [t0]) (by simpa using hl)
    have hT : Linked prd (h :: Stl).reverse := linked_prd_reverse r prd (h :: Stl) hSl
      (fun x hx => hp x (by
        have := List.dropLast_subset _ hx
        simp only [List.mem_cons, List.mem_append] at this ⊢
        rcases this with hx | hx
        · exact Or.inl hx
        · exact Or.inr (Or.inl hx)))
    have hndT : (u :: (h :: Stl).reverse).Nodup := by
      have hsub : (u :: (h :: Stl)).Sublist (u :: h :: (Stl ++ (segs.flatten ++ R))) :=
        List.Sublist.cons_cons u (List.Sublist.cons_cons h (List.sublist_append_left _ _))
      have := hsub.nodup hnd
      have hp' : (u :: (h :: Stl).reverse).Perm (u :: (h :: Stl)) := List.Perm.cons u (List.reverse_perm _)
      exact hp'.nodup_iff.mpr this
    have hselS := hsel (h :: Stl) (by simp)
    simp only [List.headD_cons, List.tail_cons] at hselS
    have hdl : ∀ z ∈ ((h :: Stl).reverse).dropLast, z ∉ rn := by
      intro z hz
      have : (h :: Stl).reverse = Stl.reverse ++ [h] := by simp
      rw [this, List.dropLast_concat] at hz
      exact hselS.2 z (by simpa using hz)
    have hlastT : ((h :: Stl).reverse).getLast? = some h := by simp
    have hfirst := links_first rec0 t0 h segs R hlk2 (fun S' hS' => hne S' (List.mem_cons_of_mem _ hS'))
    have hnt : newTail ((h :: Stl) :: segs) R = Stl.reverse ++ h :: newTail segs R := by
      simp [newTail]
    rw [hnt]
    cases hrest : newTail segs R with
    | nil =>
      have := segOK prd rn rec0 ((h :: Stl).reverse) u none (by simp) hT hndT hdl
        (fun h' hh' => by
          rw [hlastT] at hh'; cases hh'
          exact ⟨hselS.1, fun q hq => by simp at hq⟩)
      simpa using this
    | cons q rest' =>
      rw [hrest] at ihr hfirst
      have hq : rec0 h = q := by simpa using hfirst.symm
      have hseg := segOK prd rn rec0 ((h :: Stl).reverse) u (some q) (by simp) hT hndT hdl
        (fun h' hh' => by
          rw [hlastT] at hh'; cases hh'
          exact ⟨hselS.1, fun q' hq' => by simp at hq'; rw [← hq', hq]⟩)
      have e : u :: (Stl.reverse ++ h :: q :: rest') = (u :: Stl.reverse) ++ h :: q :: rest' := by simp
      rw [e, allTriples_split]
      refine ⟨?_, ihr⟩
      simpa using hseg


theorem getLast?_append_cons (A : List Nat) (h : Nat) (B : List Nat) :
    (A ++ h :: B).getLast? = (h :: B).getLast? := by
  rw [List.getLast?_append]
  cases hB : (h :: B).getLast? with
  | none => simp at hB
  | some x => rfl

/-- the last node of the new order points back to `t0` already after the scatter -/
theorem closing (rec0 r : Rec) (t0 : Nat) : ∀ (segs : List (List Nat)) (R : List Nat) (u : Nat),
    (∀ S ∈ segs, S ≠ []) → Links rec0 t0 u segs R → (∀ x ∈ R, rec0 x = r x) →
    Linked r (R ++ [t0]) →
    ∀ l, (u :: newTail segs R).getLast? = some l → rec0 l = t0 := by
  intro segs
  induction segs with
  | nil =>
    intro R u _ hlk hr hl l hlast
    simp only [newTail, List.map_nil, List.flatten_nil, List.nil_append] at hlast
    rcases List.eq_nil_or_concat R with hR | ⟨R', x, hR⟩
    · subst hR
      simp at hlast; subst hlast
      simpa [Links] using hlk
    · rw [List.concat_eq_append] at hR
      subst hR
      have : (u :: (R' ++ [x])).getLast? = some x := by
        have := getLast?_append_cons (u :: R') x []
        simpa using this
      rw [this] at hlast; cases hlast
      rw [hr l (by simp)]
      have e : R' ++ [l] ++ [t0] = R' ++ l :: [t0] := by simp
      rw [e, linked_append_mid] at hl
      exact hl.2.1
  | cons S segs ih =>
    intro R u hne hlk hr hl l hlast
    have hS : S ≠ [] := hne S (by simp)
    obtain ⟨h, Stl, rfl⟩ : ∃ h Stl, S = h :: Stl := by
      cases S with
      | nil => exact absurd rfl hS
      | cons h Stl => exact ⟨h, Stl, rfl⟩
    have hnt : u :: newTail ((h :: Stl) :: segs) R = (u :: Stl.reverse) ++ h :: newTail segs R := by
      simp [newTail]
    rw [hnt, getLast?_append_cons] at hlast
    exact ih R h (fun S' hS' => hne S' (List.mem_cons_of_mem _ hS')) hlk.2 hr hl l hlast

theorem flatten_reverse_perm : ∀ (segs : List (List Nat)),
    ((segs.map List.reverse).flatten).Perm segs.flatten := by
  intro segs
  induction segs with
  | nil => simp
  | cons S segs ih =>
    simp only [List.map_cons, List.flatten_cons]
    exact List.Perm.append (List.reverse_perm S) ih

/-- **The relinking walk is correct on every well-formed move.**  Old tour (read from `t0`):
`t0, S₁, S₂, …, S_k, R`; scattered links as described by `Links`; the "right nodes" contain the first
node of every segment and of `R`, and no other node of a segment.  Then after the `n − 2` iterations the
array is the successor function of the tour `t0, rev S₁, rev S₂, …, rev S_k, R`. -/
theorem relink_cycle (n : Nat) (r : Rec) (t0 : Nat) (segs : List (List Nat)) (R rn : List Nat)
    (rec0 : Rec)
    (hne : ∀ S ∈ segs, S ≠ [])
    (hperm : (t0 :: (segs.flatten ++ R)).Perm (List.range n))
    (hcyc : CycleOf r (t0 :: (segs.flatten ++ R)))
    (hlk : Links rec0 t0 t0 segs R)
    (hrec0 : ∀ x ∈ R, rec0 x = r x)
    (hsel : ∀ S ∈ segs, S.headD t0 ∈ rn ∧ ∀ z ∈ S.tail, z ∉ rn)
    (hrn : ∀ v, R.head? = some v → v ∈ rn) :
    (t0 :: newTail segs R).Perm (List.range n) ∧
    CycleOf (koptLoop (argsort n r) rn (n - 2) t0 rec0) (t0 :: newTail segs R) := by
  have hnd : (t0 :: (segs.flatten ++ R)).Nodup := hperm.nodup_iff.mpr List.nodup_range
  have hmem : ∀ z, z ∈ t0 :: (segs.flatten ++ R) ↔ z < n := fun z => hperm.mem_iff.trans List.mem_range
  have hpermN : (t0 :: newTail segs R).Perm (List.range n) := by
    refine List.Perm.trans (List.Perm.cons t0 ?_) hperm
    exact List.Perm.append_right R (flatten_reverse_perm segs)
  refine ⟨hpermN, ?_⟩
  have hndN : (t0 :: newTail segs R).Nodup := hpermN.nodup_iff.mpr List.nodup_range
  have hlenN : (t0 :: newTail segs R).length = n := hpermN.length_eq.trans List.length_range
  have hl : Linked r (segs.flatten ++ R ++ [t0]) := by
    rw [cycleOf_cons] at hcyc
    exact linked_suffix r [t0] _ (by simpa using hcyc)
  have hp : ∀ x ∈ segs.flatten ++ R, argsort n r (r x) = x := by
    intro x hx
    exact argsort_of_cycle n r _ hperm hcyc x (r x) ((hmem x).mp (List.mem_cons_of_mem _ hx)) rfl
  have htri := chainOK (argsort n r) rn rec0 r t0 segs R t0 hne hnd hl hp hlk hrec0 hsel hrn
  have hfirst := links_first rec0 t0 t0 segs R hlk hne
  have hclose := closing rec0 r t0 segs R t0 hne hlk hrec0
    (linked_suffix r segs.flatten (R ++ [t0]) (by simpa using hl))
  cases hN : newTail segs R with
  | nil =>
    rw [hN] at hlenN hfirst
    have hn1 : n = 1 := by simpa using hlenN.symm
    subst hn1
    show CycleOf (koptLoop (argsort 1 r) rn 0 t0 rec0) [t0]
    simp only [koptLoop]
    have : rec0 t0 = t0 := by simpa using hfirst.symm
    simp [CycleOf, Linked, this]
  | cons v Q =>
    rw [hN] at hlenN hfirst htri hndN hclose
    have hv : rec0 t0 = v := by simpa using hfirst.symm
    have hQ : Q.length = n - 2 := by simp at hlenN; omega
    rw [← hQ]
    obtain ⟨h1, h2⟩ := koptLoop_chain (argsort n r) rn rec0 Q t0 v rec0 hndN hv (fun z _ => rfl) htri
    obtain ⟨N', l, hNl⟩ : ∃ N' l, t0 :: v :: Q = N' ++ [l] := by
      rcases List.eq_nil_or_concat (t0 :: v :: Q) with h | ⟨N', l, h⟩
      · simp at h
      · exact ⟨N', l, by rw [h, List.concat_eq_append]⟩
    have hlast : (t0 :: v :: Q).getLast? = some l := by rw [hNl]; simp
    have hl_notin : l ∉ (v :: Q).dropLast := by
      intro hm
      have h3 : (t0 :: v :: Q).dropLast = N' := by rw [hNl, List.dropLast_concat]
      have h4 : l ∈ N' := by
        rw [← h3]; simp only [List.dropLast_cons_cons]; exact List.mem_cons_of_mem _ hm
      rw [hNl] at hndN
      have := List.nodup_append.mp hndN
      exact this.2.2 l h4 l (by simp) rfl
    have hres_l : koptLoop (argsort n r) rn Q.length t0 rec0 l = t0 := by
      rw [h2 l hl_notin]; exact hclose l hlast
    rw [cycleOf_cons]
    have e : t0 :: v :: Q ++ [t0] = N' ++ l :: [t0] := by
      have : t0 :: v :: Q ++ [t0] = (t0 :: v :: Q) ++ [t0] := by simp
      rw [this, hNl]; simp
    rw [e, linked_append_mid]
    refine ⟨by rw [← hNl]; exact h1, hres_l, trivial⟩


theorem inj_of_nodup_map' {α β : Type} {f : α → β} : ∀ (l : List α), (l.map f).Nodup →
    ∀ x ∈ l, ∀ y ∈ l, f x = f y → x = y := by
  intro l
  induction l with
  | nil => intro _ x hx; simp at hx
  | cons a l ih =>
    intro hnd x hx y hy hxy
    simp only [List.map_cons, List.nodup_cons, List.mem_map, not_exists, not_and] at hnd
    rcases List.mem_cons.mp hx with rfl | hx' <;> rcases List.mem_cons.mp hy with rfl | hy'
    · rfl
    · exact absurd hxy.symm (hnd.1 y hy')
    · exact absurd hxy (hnd.1 x hx')
    · exact ih hnd.2 x hx' y hy' hxy

theorem links_of_pairs (rec0 : Rec) (t0 : Nat) : ∀ (segs : List (List Nat)) (R : List Nat) (u : Nat),
    (∀ S ∈ segs, S ≠ []) → (∀ p ∈ pairs t0 u segs R, rec0 p.1 = p.2) → Links rec0 t0 u segs R := by
  intro segs
  induction segs with
  | nil => intro R u _ h; simpa [pairs, Links] using h
  | cons S segs ih =>
    intro R u hne h
    refine ⟨?_, ih R _ (fun S' hS' => hne S' (List.mem_cons_of_mem _ hS'))
      (fun p hp => h p (by unfold pairs; exact List.mem_cons_of_mem _ hp))⟩
    have h1 := h (u, S.getLastD t0) (by simp [pairs])
    have hS := hne S (by simp)
    simp only at h1
    rw [h1]
    cases S with
    | nil => exact absurd rfl hS
    | cons a S' => simp [List.getLastD, List.getLast?_eq_some_getLast]

theorem pairs_fst (t0 : Nat) : ∀ (segs : List (List Nat)) (R : List Nat) (u : Nat),
    (pairs t0 u segs R).map Prod.fst = u :: segs.map (·.headD t0) := by
  intro segs
  induction segs with
  | nil => intro R u; simp [pairs]
  | cons S segs ih => intro R u; simp [pairs, ih]

/-- sequential scatter of pairs that never give two different values to one index -/
theorem scatterL_spec : ∀ (left right : List Nat) (rc : Rec),
    (∀ p ∈ left.zip right, ∀ q ∈ left.zip right, p.1 = q.1 → p.2 = q.2) →
    (∀ p ∈ left.zip right, scatterL rc left right p.1 = p.2) ∧
    (∀ z, z ∉ (left.zip right).map Prod.fst → scatterL rc left right z = rc z) := by
  intro left
  induction left with
  | nil => intro right rc _; simp [scatterL]
  | cons l ls ih =>
    intro right rc hf
    cases right with
    | nil => simp [scatterL]
    | cons v rs =>
      simp only [scatterL, List.zip_cons_cons]
      obtain ⟨ih1, ih2⟩ := ih rs (upd rc l v) (fun p hp q hq => hf p (by simp [hp]) q (by simp [hq]))
      constructor
      · intro p hp
        rcases List.mem_cons.mp hp with hpe | hp
        · subst hpe
          show scatterL (upd rc l v) ls rs l = v
          by_cases hm : l ∈ (ls.zip rs).map Prod.fst
          · obtain ⟨q, hq, hql⟩ := List.mem_map.mp hm
            have h1 := hf (l, v) (by simp) q (by simp [hq]) hql.symm
            have h2 := ih1 q hq
            rw [hql] at h2
            rw [h2]; exact h1.symm
          · rw [ih2 l hm]; simp [upd]
        · exact ih1 p hp
      · intro z hz
        simp only [List.map_cons, List.mem_cons, not_or] at hz
        rw [ih2 z hz.2]; simp [upd, hz.1]

end Rl4co.Improve.KoptK
