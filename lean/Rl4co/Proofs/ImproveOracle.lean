/-
C09/C06 helpers: exact `visited_time` stamps, the walk from the depot, and the equivalence of the
executable run-time oracle `isTourB` with the declarative `IsTour`.  Imports one Mathlib module
(`Subperm`, for the pigeonhole step).
-/
import Rl4co.Proofs.ImproveCycle
import Rl4co.Proofs.Sort
import Mathlib.Data.List.Perm.Subperm

namespace Rl4co.Improve
open Rl4co.Spec.Improve

/-- exact stamps of the `visited_time` walk on a tour read from the depot: position in the tour, and
`gs` for the depot itself -/
theorem vt_exact (gs : Nat) (r : Rec) (rest : List Nat) (hc : CycleOf r (0 :: rest))
    (hnd : (0 :: rest).Nodup) (hlen : (0 :: rest).length = gs)
    (A : List Nat) (x : Nat) (B : List Nat) (hdec : 0 :: rest = A ++ x :: B) :
    visitedTime gs r x = if A = [] then gs else A.length := by
  rw [cycleOf_cons] at hc
  have hndW : (rest ++ [0]).Nodup := by
    have : (rest ++ [0]).Perm (0 :: rest) := (List.perm_append_comm : (rest ++ [0]).Perm ([0] ++ rest))
    exact this.nodup_iff.mpr hnd
  have hlenW : (rest ++ [0]).length = gs := by simpa using hlen
  obtain ⟨h1, _⟩ := vtLoop_spec r (rest ++ [0]) 0 0 (fun _ => 0) (by simpa using hc) hndW
  unfold visitedTime
  rw [← hlenW]
  cases A with
  | nil =>
    simp only [List.nil_append, List.cons.injEq] at hdec
    obtain ⟨rfl, _⟩ := hdec
    rw [h1 rest 0 [] rfl]
    simp
  | cons a A' =>
    simp only [List.cons_append, List.cons.injEq] at hdec
    obtain ⟨_, hrest⟩ := hdec
    have : rest ++ [0] = A' ++ x :: (B ++ [0]) := by rw [hrest]; simp
    rw [h1 A' x (B ++ [0]) this]
    simp

theorem walk_of_linked (r : Rec) : ∀ (W : List Nat) (pre : Nat), Linked r (pre :: W) →
    walk r W.length pre = W := by
  intro W
  induction W with
  | nil => intro pre _; rfl
  | cons w W ih =>
    intro pre h
    rw [linked_cons_cons] at h
    simp only [List.length_cons, walk, h.1, ih w h.2]

/-- a tour can be listed starting from any of its nodes -/
theorem isTour_from (r : Rec) (n : Nat) (h : IsTour r n) (a : Nat) (ha : a < n) :
    ∃ rest, (a :: rest).Perm (List.range n) ∧ CycleOf r (a :: rest) := by
  obtain ⟨seq, hperm, hcyc⟩ := h
  obtain ⟨X, Y, hX⟩ := List.append_of_mem (hperm.mem_iff.mpr (List.mem_range.mpr ha))
  refine ⟨Y ++ X, ?_, ?_⟩
  · rw [hX] at hperm; exact (List.perm_append_comm (l₁ := a :: Y) (l₂ := X)).trans hperm
  · rw [hX] at hcyc; exact (cycleOf_rotate r X (a :: Y)).mp hcyc

/-- the executable oracle accepts every tour -/
theorem isTourB_of_isTour (r : Rec) (n : Nat) (h : IsTour r n) : isTourB r n = true := by
  cases n with
  | zero => simp [isTourB, walk]
  | succ m =>
    obtain ⟨rest, hperm, hcyc⟩ := isTour_from r (m + 1) h 0 (by omega)
    have hnd : (0 :: rest).Nodup := hperm.nodup_iff.mpr List.nodup_range
    have hlen : (0 :: rest).length = m + 1 := hperm.length_eq.trans List.length_range
    rw [cycleOf_cons] at hcyc
    have hw := walk_of_linked r (rest ++ [0]) 0 (by simpa using hcyc)
    have hl : (rest ++ [0]).length = m + 1 := by simpa using hlen
    rw [hl] at hw
    have hndW : (rest ++ [0]).Nodup := by
      have : (rest ++ [0]).Perm (0 :: rest) := (List.perm_append_comm : (rest ++ [0]).Perm ([0] ++ rest))
      exact this.nodup_iff.mpr hnd
    simp only [isTourB, hw, Bool.and_eq_true, decide_eq_true_eq, List.all_eq_true, Bool.or_eq_true,
      beq_iff_eq]
    refine ⟨⟨hndW, ?_⟩, Or.inr (by simp)⟩
    intro x hx
    have : x ∈ 0 :: rest := by
      simp only [List.mem_append, List.mem_cons, List.not_mem_nil, or_false] at hx ⊢
      exact hx.symm
    exact List.mem_range.mp (hperm.mem_iff.mp this)


theorem walk_length (r : Rec) : ∀ (k pre : Nat), (walk r k pre).length = k := by
  intro k; induction k with
  | zero => intro _; rfl
  | succ k ih => intro pre; simp [walk, ih]

theorem walk_linked (r : Rec) : ∀ (k pre : Nat), Linked r (pre :: walk r k pre) := by
  intro k; induction k with
  | zero => intro _; trivial
  | succ k ih => intro pre; exact ⟨rfl, ih (r pre)⟩

/-- a duplicate-free list of `n` numbers below `n` is a permutation of `0..n-1` -/
theorem perm_range_of_nodup (l : List Nat) (n : Nat) (hnd : l.Nodup) (hlen : l.length = n)
    (hlt : ∀ x ∈ l, x < n) : l.Perm (List.range n) := by
  have hsub : l ⊆ List.range n := fun x hx => List.mem_range.mpr (hlt x hx)
  exact (List.subperm_of_subset hnd hsub).perm_of_length_le (by simp [hlen])

/-- … and every successor array the oracle accepts is a tour: the run-time oracle `isTourB`
decides `IsTour`. -/
theorem isTour_of_isTourB (r : Rec) (n : Nat) (h : isTourB r n = true) : IsTour r n := by
  cases n with
  | zero => exact ⟨[], by simp, by simp [CycleOf, Linked]⟩
  | succ m =>
    simp only [isTourB, Bool.and_eq_true, decide_eq_true_eq, List.all_eq_true, Bool.or_eq_true,
      beq_iff_eq] at h
    obtain ⟨⟨hnd, hlt⟩, hlast⟩ := h
    have hlast : (walk r (m + 1) 0).getLast? = some 0 := by
      rcases hlast with h | h
      · omega
      · exact h
    obtain ⟨w', hw'⟩ := List.getLast?_eq_some_iff.mp hlast
    have hlink := walk_linked r (m + 1) 0
    have hlen := walk_length r (m + 1) 0
    rw [hw'] at hnd hlt hlink hlen
    refine ⟨0 :: w', ?_, ?_⟩
    · have hp : (0 :: w').Perm (w' ++ [0]) := (List.perm_append_comm : ([0] ++ w').Perm (w' ++ [0]))
      exact hp.trans (perm_range_of_nodup _ _ hnd hlen hlt)
    · rw [cycleOf_cons]; simpa using hlink

theorem isTourB_iff (r : Rec) (n : Nat) : isTourB r n = true ↔ IsTour r n :=
  ⟨isTour_of_isTourB r n, isTourB_of_isTour r n⟩

end Rl4co.Improve
