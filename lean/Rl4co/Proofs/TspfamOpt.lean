/-
Existence of an optimal solution among the (finitely many) permutations of a base list that satisfy a
decidable side condition — the finite-minimum step of the C05 `opt_reachable` theorems.
Imports one Mathlib module (`List.permutations`).
-/
import Mathlib.Data.List.Permutation

namespace Rl4co.Tspfam

theorem exists_min_of_ne_nil {α : Type} (f : α → Int) :
    ∀ (l : List α), l ≠ [] → ∃ x ∈ l, ∀ y ∈ l, f x ≤ f y := by
  intro l
  induction l with
  | nil => intro h; exact absurd rfl h
  | cons a l ih =>
    intro _
    by_cases hl : l = []
    · subst hl; exact ⟨a, by simp, by intro y hy; simp at hy; subst hy; exact Int.le_refl _⟩
    · obtain ⟨x, hx, hmin⟩ := ih hl
      by_cases hax : f a ≤ f x
      · refine ⟨a, by simp, ?_⟩
        intro y hy
        rcases List.mem_cons.mp hy with h | h
        · subst h; exact Int.le_refl _
        · exact Int.le_trans hax (hmin y h)
      · refine ⟨x, by simp [hx], ?_⟩
        intro y hy
        rcases List.mem_cons.mp hy with h | h
        · subst h; omega
        · exact hmin y h

/-- among the permutations of `base` that satisfy `P` (one exists) some one minimises `f` -/
theorem exists_min_filter_perm (base : List Nat) (P : List Nat → Bool) (f : List Nat → Int)
    (w : List Nat) (hw : w.Perm base) (hPw : P w = true) :
    ∃ as, as.Perm base ∧ P as = true ∧ ∀ bs, bs.Perm base → P bs = true → f as ≤ f bs := by
  have hne : base.permutations.filter P ≠ [] := by
    intro h
    have : w ∈ base.permutations.filter P := List.mem_filter.mpr ⟨List.mem_permutations.mpr hw, hPw⟩
    rw [h] at this; cases this
  obtain ⟨x, hx, hmin⟩ := exists_min_of_ne_nil f _ hne
  obtain ⟨hx1, hx2⟩ := List.mem_filter.mp hx
  refine ⟨x, List.mem_permutations.mp hx1, hx2, ?_⟩
  intro bs hb hP
  exact hmin bs (List.mem_filter.mpr ⟨List.mem_permutations.mpr hb, hP⟩)

theorem exists_min_perm (base : List Nat) (f : List Nat → Int) :
    ∃ as, as.Perm base ∧ ∀ bs, bs.Perm base → f as ≤ f bs := by
  obtain ⟨as, h1, _, h3⟩ := exists_min_filter_perm base (fun _ => true) f base (List.Perm.refl _) rfl
  exact ⟨as, h1, fun bs hb => h3 bs hb rfl⟩

end Rl4co.Tspfam
