/-
Helper lemmas about mask-confined runs of the MTVRP model, shared by the property files C01/C04/C05/C06:
what an admitted customer step guarantees (`Adm`, read off the mask with the extracted comparison
operators), the route-continuation invariant `Cont`, and the visited-set bookkeeping.  No Mathlib.
-/
import Rl4co.Env.Mtvrp
import Rl4co.Proofs.MtvrpParams
import Rl4co.Spec.Mtvrp

namespace Rl4co.Mtvrp
open Rl4co.Spec.Mtvrp

/-- no customer is both a linehaul and a backhaul customer -/
def Excl (i : Inst) : Prop := ∀ j, 1 ≤ j → j ≤ i.n → ¬ (0 < i.dL j ∧ 0 < i.dB j)

/-- what an admitted customer step gives (the mask comparisons as extracted from the source) -/
structure Adm (i : Inst) (s : State) (a : Nat) : Prop where
  tw    : cmpInf .le (arrival i s a) (i.late a) = true
  depot : cmpInf .le (if i.openR then 0 else retTime i s a) (i.late 0) = true
  dem   : (i.dL a + s.usedL ≤ i.cap ∧ ¬ 0 < i.dB s.cur ∧ 0 < i.dL a) ∨ (i.dB a + s.usedB ≤ i.cap ∧ 0 < i.dB a)
  lim   : cmpInf .le (lenVia i s a) i.limit = true
  vis   : s.vis a = false

theorem cmpInf_not_gt (x : Int) (o : Option Int) : (!cmpInf .gt x o) = cmpInf .le x o := by
  cases o with
  | none => rfl
  | some y =>
    simp only [cmpInf, Cmp.eval]
    by_cases h : x ≤ y
    · have : ¬ x > y := by omega
      simp [h, this]
    · have : x > y := by omega
      simp [h, this]

theorem cmpInf_le_of_lt {x : Int} {o : Option Int} (h : cmpInf .lt x o = true) : cmpInf .le x o = true := by
  cases o with
  | none => rfl
  | some y => simp only [cmpInf, Cmp.eval, decide_eq_true_eq] at h ⊢; omega

theorem adm_of_mask (i : Inst) (s : State) (a : Nat) (h0 : a ≠ 0) (hm : mask i s a = true) : Adm i s a := by
  simp only [mask_def, h0, if_false, canVisit, meetsDemand, Params.mtvrpMaskTwCmp, Params.mtvrpMaskDepotCmp,
    Params.mtvrpMaskLimitCmp, Params.mtvrpMaskCapLCmp, Params.mtvrpMaskCapBCmp, Bool.and_eq_true,
    Bool.or_eq_true, Bool.not_eq_true', cmpInf_not_gt] at hm
  obtain ⟨⟨⟨⟨h1, h2⟩, h3⟩, h4⟩, h5⟩ := hm
  refine ⟨h1, h2, ?_, ?_, h5⟩
  · rcases h3 with h | h
    · left
      simp only [Cmp.eval, decide_eq_false_iff_not, decide_eq_true_eq] at h
      obtain ⟨⟨⟨_, h⟩, h'⟩, h''⟩ := h
      exact ⟨by omega, h', h''⟩
    · right
      simp only [Cmp.eval, decide_eq_false_iff_not, decide_eq_true_eq] at h
      exact ⟨by omega, h.2⟩
  · exact h4


/-- the rest `r` of the current route is fine when continued from state `s` -/
structure Cont (c : Cmp) (i : Inst) (s : State) (r : List Nat) : Prop where
  loadL : (r.map i.dL).sum + s.usedL ≤ i.cap
  loadB : (r.map i.dB).sum + s.usedB ≤ i.cap
  noLh  : 0 < i.dB s.cur → ∀ b ∈ r, ¬ 0 < i.dL b
  order : Ordered i r
  dist  : cmpInf .le (s.len + pathLen i.D (s.cur :: r ++ (if i.openR then [] else [0]))) i.limit = true
  time  : timeOk c i s.cur s.time r = true

theorem step_fields (i : Inst) (s : State) (a : Nat) (h0 : a ≠ 0) :
    (step i s a).cur = a ∧ (step i s a).len = s.len + i.D s.cur a ∧
    (step i s a).time = max (s.time + i.T s.cur a) (i.early a) + i.service a ∧
    (step i s a).usedL = s.usedL + i.dL a ∧ (step i s a).usedB = s.usedB + i.dB a := by
  simp [step_def, h0]

theorem excl_dL {i : Inst} (hx : Excl i) {a : Nat} (h0 : a ≠ 0) (ha : a < i.n + 1) (hb : 0 < i.dB a) :
    i.dL a ≤ 0 := by
  have := hx a (by omega) (by omega)
  simp only [not_and] at this
  by_cases h : 0 < i.dL a
  · exact absurd hb (this h)
  · omega

theorem excl_dB {i : Inst} (hx : Excl i) {a : Nat} (h0 : a ≠ 0) (ha : a < i.n + 1) (hl : 0 < i.dL a) :
    i.dB a ≤ 0 := by
  have := hx a (by omega) (by omega)
  simp only [not_and] at this
  have := this hl
  omega

theorem used_step {i : Inst} (hx : Excl i) {s : State} {a : Nat} (h0 : a ≠ 0) (ha : a < i.n + 1)
    (hadm : Adm i s a) (huL : s.usedL ≤ i.cap) (huB : s.usedB ≤ i.cap) :
    s.usedL + i.dL a ≤ i.cap ∧ s.usedB + i.dB a ≤ i.cap := by
  rcases hadm.dem with ⟨h1, _, h3⟩ | ⟨h1, h2⟩
  · have := excl_dB hx h0 ha h3; omega
  · have := excl_dL hx h0 ha h2; omega

theorem noLh_head {i : Inst} (hx : Excl i) {s : State} {a : Nat} (h0 : a ≠ 0) (ha : a < i.n + 1)
    (hadm : Adm i s a) (hb : 0 < i.dB s.cur) : ¬ 0 < i.dL a := by
  rcases hadm.dem with ⟨_, h2, _⟩ | ⟨_, h2⟩
  · exact absurd hb h2
  · have := excl_dL hx h0 ha h2; omega

theorem cont_single {i : Inst} (hx : Excl i) {s : State} {a : Nat} (h0 : a ≠ 0) (ha : a < i.n + 1)
    (hadm : Adm i s a) (huL : s.usedL ≤ i.cap) (huB : s.usedB ≤ i.cap) : Cont .le i s [a] := by
  have hu := used_step hx h0 ha hadm huL huB
  refine ⟨by simp; omega, by simp; omega, ?_, by simp [Ordered], ?_, ?_⟩
  · intro hb b hmem
    simp only [List.mem_singleton] at hmem; subst hmem
    exact noLh_head hx h0 ha hadm hb
  · have := hadm.lim
    simp only [lenVia] at this
    cases ho : i.openR <;> simp only [ho, if_true, if_false, List.cons_append, List.nil_append, pathLen,
      Bool.false_eq_true] at this ⊢
    · have e : s.len + (i.D s.cur a + (i.D a 0 + 0)) = s.len + i.D s.cur a + i.D a 0 := by omega
      rw [e]; exact this
    · have e : s.len + (i.D s.cur a + 0) = s.len + i.D s.cur a + 0 := by omega
      rw [e]; exact this
  · have h1 := hadm.tw
    have h2 := hadm.depot
    simp only [arrival] at h1
    simp only [timeOk, within, h1, Bool.true_and, Bool.or_eq_true]
    cases ho : i.openR
    · right
      simpa [ho, retTime, arrival] using h2
    · left; rfl

theorem cont_cons {c : Cmp} {i : Inst} (hx : Excl i) {s : State} {a : Nat} {r : List Nat} (h0 : a ≠ 0)
    (ha : a < i.n + 1) (hadm : Adm i s a) (hc : c = .le) (h : Cont c i (step i s a) r) :
    Cont c i s (a :: r) := by
  obtain ⟨e1, e2, e3, e4, e5⟩ := step_fields i s a h0
  obtain ⟨c1, c2, c3, c4, c5, c6⟩ := h
  rw [e4] at c1; rw [e5] at c2; rw [e1] at c3 c5 c6; rw [e2] at c5; rw [e3] at c6
  refine ⟨by simp only [List.map_cons, List.sum_cons]; omega,
          by simp only [List.map_cons, List.sum_cons]; omega, ?_, ?_, ?_, ?_⟩
  · intro hb b hmem
    rcases List.mem_cons.mp hmem with hh | hh
    · subst hh; exact noLh_head hx h0 ha hadm hb
    · rcases hadm.dem with ⟨_, h2, _⟩ | ⟨_, h2⟩
      · exact absurd hb h2
      · exact c3 h2 b hh
  · unfold Ordered
    rw [List.pairwise_cons]
    refine ⟨?_, c4⟩
    intro b hb hcon
    exact c3 hcon.1 b hb hcon.2
  · simp only [List.cons_append, pathLen_cons_cons] at c5 ⊢
    have e : s.len + (i.D s.cur a + pathLen i.D (a :: (r ++ if i.openR = true then [] else [0])))
        = s.len + i.D s.cur a + pathLen i.D (a :: (r ++ if i.openR = true then [] else [0])) := by omega
    rw [e]; exact c5
  · subst hc
    have h1 := hadm.tw
    simp only [arrival] at h1
    simp only [timeOk, within, h1, Bool.true_and]
    exact c6

/-- a continuation from a fresh vehicle at the depot is a complete route -/
theorem routeOk_of_cont {c : Cmp} {i : Inst} {s : State} {r : List Nat} (hcur : s.cur = 0) (hlen : s.len = 0)
    (ht : s.time = 0) (hL : s.usedL = 0) (hB : s.usedB = 0) (h : Cont c i s r) : RouteOk c i r := by
  obtain ⟨c1, c2, _, c4, c5, c6⟩ := h
  rw [hL] at c1; rw [hB] at c2; rw [hcur, hlen] at c5; rw [hcur, ht] at c6
  refine ⟨by omega, by omega, c4, ?_, c6⟩
  simpa [within, routeDist] using c5

/-- Route part of C01, generalised over the start state: the first segment continues the current
route, all later segments are complete routes. -/
theorem cont_of_run (i : Inst) (hx : Excl i) (hcap : 0 ≤ i.cap) {s s' : State} {as : List Nat}
    (h : Run env i s as s') (huL : s.usedL ≤ i.cap) (huB : s.usedB ≤ i.cap) :
    ∀ r rs, routes as = r :: rs →
      (r ≠ [] → Cont .le i s r) ∧ ∀ r' ∈ rs, r' ≠ [] → RouteOk .le i r' := by
  induction h with
  | nil s =>
    intro r rs h
    simp only [routes, List.cons.injEq] at h
    obtain ⟨h1, h2⟩ := h
    subst h1 h2
    simp
  | @cons s s' a as ha hm _ ih =>
    simp only [env] at ha hm ih
    intro r rs hr
    obtain ⟨r1, rs1, h1⟩ := routes_cons_exists as
    by_cases h0 : a = 0
    · subst h0
      simp only [routes, if_true, List.cons.injEq] at hr
      obtain ⟨h2, h3⟩ := hr
      subst h2 h3
      refine ⟨fun h => absurd rfl h, ?_⟩
      have := ih (by simp [step_def, hcap]) (by simp [step_def, hcap]) r1 rs1 h1
      intro r' hr' hne
      rw [h1] at hr'
      rcases List.mem_cons.mp hr' with hh | hh
      · subst hh
        exact routeOk_of_cont (s := step i s 0) rfl rfl rfl rfl rfl (this.1 hne)
      · exact this.2 r' hh hne
    · simp only [routes, h0, if_false, h1, List.cons.injEq] at hr
      obtain ⟨h2, h3⟩ := hr
      subst h2 h3
      have hadm := adm_of_mask i s a h0 hm
      have hu := used_step hx h0 ha hadm huL huB
      obtain ⟨_, _, _, e4, e5⟩ := step_fields i s a h0
      have := ih (by rw [e4]; exact hu.1) (by rw [e5]; exact hu.2) r1 rs1 h1
      refine ⟨fun _ => ?_, this.2⟩
      by_cases hr1 : r1 = []
      · subst hr1; exact cont_single hx h0 ha hadm huL huB
      · exact cont_cons hx h0 ha hadm rfl (this.1 hr1)

/-- Visited-set part, generalised over the start state. -/
theorem visits_of_run (i : Inst) {s s' : State} {as : List Nat} (h : Run env i s as s') :
    (∀ a ∈ as, a ≤ i.n) ∧
    (∀ j, 1 ≤ j → s.vis j = true → j ∉ as) ∧
    (∀ j, 1 ≤ j → as.count j ≤ 1) ∧
    (∀ j, s'.vis j = (s.vis j || decide (j ∈ as))) := by
  induction h with
  | nil s => simp
  | @cons s s' a as ha hm _ ih =>
    simp only [env] at ha hm ih
    obtain ⟨ih1, ih2, ih3, ih4⟩ := ih
    have hvis : a ≠ 0 → s.vis a = false := fun h0 => (adm_of_mask i s a h0 hm).vis
    refine ⟨?_, ?_, ?_, ?_⟩
    · intro b hb
      rcases List.mem_cons.mp hb with hh | hh
      · subst hh; omega
      · exact ih1 b hh
    · intro j hj hv hmem
      rcases List.mem_cons.mp hmem with hh | hh
      · subst hh
        have := hvis (by omega)
        simp [hv] at this
      · have : (step i s a).vis j = true := by
          simp only [step_def, upd_apply]; split <;> simp [hv]
        exact ih2 j hj this hh
    · intro j hj
      rw [List.count_cons]
      by_cases hja : a = j
      · subst hja
        have : (step i s a).vis a = true := by simp [step_def]
        have := ih2 a hj this
        simp [List.count_eq_zero_of_not_mem this]
      · have := ih3 j hj
        simp [hja]; exact this
    · intro j
      rw [ih4 j]
      simp only [step_def, upd_apply, List.mem_cons]
      by_cases hja : j = a <;> simp [hja]

theorem all_visited_of_done (i : Inst) (s : State) (hd : env.done i s = true) :
    ∀ j, j < i.n + 1 → s.vis j = true := by
  have h1 : cnt (i.n + 1) s.vis = i.n + 1 := by
    simpa [env, done, Params.mtvrpDoneCmp, Cmp.evalNat] using hd
  exact cnt_eq_n.mp h1

/-- example instance used by the non-vacuity examples: closed routes, a linehaul and a backhaul customer,
a distance limit and time windows -/
def exInst : Inst :=
  { n := 2, cap := 8, dL := fun j => if j = 1 then 4 else 0, dB := fun j => if j = 2 then 4 else 0,
    openR := false, limit := some 10, early := fun _ => 0, late := fun j => some (if j = 0 then 20 else 10),
    service := fun j => if j = 0 then 0 else 1, D := fun a b => if a = b then 0 else 2,
    T := fun a b => if a = b then 0 else 2 }

end Rl4co.Mtvrp
