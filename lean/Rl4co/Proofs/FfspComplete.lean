/-
FFSP, C05, part 2: every valid *expressible* schedule is produced by some mask-confined episode.
The episode is obtained by following the schedule: at every decision state start the job the schedule
starts on the current machine at the current time, if any, and wait otherwise.  The proof shows that this
action is always offered by the mask (for the wait action this is exactly what `Expressible` demands),
that the environment never skips a slot at which the schedule starts a job, and — by the step bound —
that the episode finishes, with the schedule it followed.  No Mathlib.
-/
import Rl4co.Proofs.FfspExpr
import Rl4co.Props.C02.Ffsp
namespace Rl4co.Ffsp
open Rl4co.Spec.Ffsp

/-- the machine permutation is onto (true of every `IndexTables` row, `tables_perm_surj`) -/
def PermSurj (i : Inst) : Prop := ∀ y, y < i.M → ∃ p, p < i.M ∧ i.perm p = y

/-- every machine is visited by the sweep, in its own stage -/
theorem machine_is_slot (i : Inst) (h : WF i) (hs : PermSurj i) {m : Nat} (hm : m < MT i) :
    ∃ sub, sub < MT i ∧ machineOf i sub = m ∧ sub / i.M = m / i.M := by
  obtain ⟨p, hp, he⟩ := hs (m % i.M) (Nat.mod_lt _ h.M_pos)
  have hk : m / i.M < i.S := stageOf_lt hm
  have e1 : (p + i.M * (m / i.M)) / i.M = m / i.M := by
    rw [Nat.add_mul_div_left _ _ h.M_pos, Nat.div_eq_of_lt hp, Nat.zero_add]
  have e2 : (p + i.M * (m / i.M)) % i.M = p := by
    rw [Nat.add_mul_mod_self_left, Nat.mod_eq_of_lt hp]
  refine ⟨p + i.M * (m / i.M), ?_, ?_, e1⟩
  · unfold MT
    calc p + i.M * (m / i.M) < i.M + i.M * (m / i.M) := by omega
      _ = i.M * (m / i.M + 1) := by rw [Nat.mul_add, Nat.mul_one, Nat.add_comm]
      _ ≤ i.M * i.S := Nat.mul_le_mul_left _ hk
  · unfold machineOf
    rw [e1, e2, he]
    have := Nat.mod_add_div m i.M
    omega

theorem slot_lt_of {n t sub t' sub' : Nat} (h1 : sub < n) (h : t < t' ∨ (t = t' ∧ sub < sub')) :
    t * n + sub < t' * n + sub' := by
  rcases h with hlt | ⟨rfl, hlt⟩
  · have := Nat.mul_le_mul_right n (Nat.succ_le_of_lt hlt)
    rw [Nat.succ_mul] at this; omega
  · omega

theorem sub_lt_of_stage_lt {M a b : Nat} (h : a / M < b / M) : a < b := by
  apply Classical.byContradiction; intro hn
  have := Nat.div_le_div_right (c := M) (Nat.le_of_not_lt hn)
  omega

/-- the facts about a schedule matrix `σ` that validity and expressibility of its operation list give -/
structure SigmaOK (i : Inst) (σ : Nat → Nat → Int) : Prop where
  nonneg : ∀ m j, m < MT i → j < i.J → σ m j ≠ UNSET → 0 ≤ σ m j
  has : ∀ j k, j < i.J → k < i.S → ∃ m, m < MT i ∧ m / i.M = k ∧ σ m j ≠ UNSET
  uniq : ∀ j m m', j < i.J → m < MT i → m' < MT i → σ m j ≠ UNSET → σ m' j ≠ UNSET →
    m / i.M = m' / i.M → m = m'
  order : ∀ j m m', j < i.J → m < MT i → m' < MT i → σ m j ≠ UNSET → σ m' j ≠ UNSET →
    m / i.M < m' / i.M → σ m j + (i.dur j m : Int) ≤ σ m' j
  machine : ∀ m j j', m < MT i → j < i.J → j' < i.J → j ≠ j' → σ m j ≠ UNSET → σ m j' ≠ UNSET →
    σ m j + (i.dur j m : Int) ≤ σ m j' ∨ σ m j' + (i.dur j' m : Int) ≤ σ m j
  nd : ∀ m j j', m < MT i → j < i.J → j' < i.J → j ≠ j' → σ m j ≠ UNSET → σ m j' ≠ UNSET → σ m j ≠ σ m j'
  expr : ∀ (t sub : Nat), sub < MT i →
    (∀ j, j < i.J → σ (machineOf i sub) j ≠ UNSET →
      ¬ (σ (machineOf i sub) j = (t : Int) ∨ (σ (machineOf i sub) j ≤ (t : Int) ∧
          (t : Int) < σ (machineOf i sub) j + (i.dur j (machineOf i sub) : Int)))) →
    (∃ j, j < i.J ∧
      (sub / i.M = 0 ∨ ∃ m', m' < MT i ∧ m' / i.M + 1 = sub / i.M ∧ σ m' j ≠ UNSET ∧
          σ m' j + (i.dur j m' : Int) ≤ (t : Int)) ∧
      (∃ m', m' < MT i ∧ m' / i.M = sub / i.M ∧ σ m' j ≠ UNSET ∧ SlotAfter i t sub (σ m' j) m')) →
    (1 ≤ sub / i.M ∧ ∃ j', j' < i.J ∧ ∀ m', m' < MT i → m' / i.M + 1 = sub / i.M → σ m' j' ≠ UNSET →
      (t : Int) < σ m' j' + (i.dur j' m' : Int))

theorem cnt_one_unique {n : Nat} {p : Nat → Bool} (h : cnt n p = 1) {a b : Nat} (ha : a < n) (hb : b < n)
    (pa : p a = true) (pb : p b = true) : a = b := by
  induction n with
  | zero => omega
  | succ n ih =>
    rw [cnt_succ] at h
    by_cases hpn : p n = true
    · simp only [hpn, if_true] at h
      have h0 : cnt n p = 0 := by omega
      have hz := cnt_eq_zero.mp h0
      have ea : a = n := by
        apply Classical.byContradiction; intro hne
        have := hz a (by omega); rw [pa] at this; cases this
      have eb : b = n := by
        apply Classical.byContradiction; intro hne
        have := hz b (by omega); rw [pb] at this; cases this
      omega
    · simp only [hpn, Bool.false_eq_true, if_false, Nat.add_zero] at h
      have ha' : a < n := by
        apply Classical.byContradiction; intro hne
        have : a = n := by omega
        subst this; exact hpn pa
      have hb' : b < n := by
        apply Classical.byContradiction; intro hne
        have : b = n := by omega
        subst this; exact hpn pb
      exact ih h ha' hb'

theorem foldl_max_ge (l : List Nat) : ∀ a, a ≤ l.foldl max a ∧ ∀ x ∈ l, x ≤ l.foldl max a := by
  induction l with
  | nil => intro a; exact ⟨Nat.le_refl _, fun _ h => by cases h⟩
  | cons y ys ih =>
    intro a
    simp only [List.foldl_cons]
    obtain ⟨h1, h2⟩ := ih (max a y)
    refine ⟨Nat.le_trans (Nat.le_max_left a y) h1, ?_⟩
    intro x hx
    rcases List.mem_cons.mp hx with rfl | hx
    · exact Nat.le_trans (Nat.le_max_right a x) h1
    · exact h2 x hx

theorem start_le_horizon {ops : List Op} {o : Op} (ho : o ∈ ops) : o.start.toNat ≤ horizon ops :=
  (foldl_max_ge _ 0).2 _ (List.mem_map.mpr ⟨o, ho, rfl⟩)


theorem sigmaOK_of_spec (i : Inst) (σ : Nat → Nat → Int)
    (hv : Valid i (ofMatrix i σ)) (he : Expressible i (ofMatrix i σ)) : SigmaOK i σ := by
  have hcnt : ∀ j k, j < i.J → k < i.S →
      cnt (MT i) (fun m => m / i.M == k && σ m j != UNSET) = 1 := by
    intro j k hj hk
    rw [← opsAt_ofMatrix i σ j k hj]; exact hv.once j hj k hk
  exact {
    nonneg := fun m j hm hj hs => (hv.range _ (op_of_entry i σ hm hj hs)).2.2
    has := by
      intro j k hj hk
      have : 0 < cnt (MT i) (fun m => m / i.M == k && σ m j != UNSET) := by rw [hcnt j k hj hk]; omega
      obtain ⟨m, hm, hp⟩ := cnt_pos.mp this
      simp only [Bool.and_eq_true, beq_iff_eq, bne_iff_ne, ne_eq] at hp
      exact ⟨m, hm, hp.1, hp.2⟩
    uniq := by
      intro j m m' hj hm hm' hs hs' hmm
      apply cnt_one_unique (hcnt j (m / i.M) hj (stageOf_lt hm)) hm hm'
      · simp [hs]
      · simp [hs', hmm]
    order := by
      intro j m m' hj hm hm' hs hs' hlt
      exact hv.order _ (op_of_entry i σ hm hj hs) _ (op_of_entry i σ hm' hj hs') rfl hlt
    machine := by
      intro m j j' hm hj hj' hne hs hs'
      exact hv.machine _ (op_of_entry i σ hm hj hs) _ (op_of_entry i σ hm hj' hs')
        (fun hh => hne (congrArg Op.job hh)) rfl
    nd := by
      intro m j j' hm hj hj' hne hs hs'
      exact he.2 _ (op_of_entry i σ hm hj hs) _ (op_of_entry i σ hm hj' hs')
        (fun hh => hne (congrArg Op.job hh)) rfl
    expr := by
      intro t sub hsub hidle hav
      obtain ⟨j, hj, hprev, m', hm', hst, hset, hafter⟩ := hav
      have hmem := op_of_entry i σ hm' hj hset
      have ht : t ≤ horizon (ofMatrix i σ) := by
        have h1 := start_le_horizon hmem
        have h2 : (t : Int) ≤ σ m' j := by
          rcases hafter with hl | ⟨he', _⟩ <;> omega
        have h3 : t ≤ (σ m' j).toNat := by omega
        exact Nat.le_trans h3 h1
      have hsk := he.1 t ht sub hsub
        (by
          intro o ho hom
          obtain ⟨_, hoJ, hos, hov⟩ := (mem_ofMatrix i σ o).mp ho
          have := hidle o.job hoJ (by rw [← hom]; exact hos)
          rw [← hom] at this
          simpa [Op.fin, hov] using this)
        ⟨j, hj, by
          rcases hprev with h0 | ⟨m'', hm'', hst'', hset'', hend''⟩
          · exact Or.inl h0
          · exact Or.inr ⟨_, op_of_entry i σ hm'' hj hset'', rfl, hst'', hend''⟩,
          _, hmem, rfl, hst, hafter⟩
      obtain ⟨hk, j', hj', hall⟩ := hsk
      exact ⟨hk, j', hj', fun m'' hm'' hst'' hset'' =>
        hall _ (op_of_entry i σ hm'' hj' hset'') rfl hst''⟩ }


/-! ### Following the schedule -/

/-- the state agrees with `σ`: what is scheduled is `σ`'s, and everything `σ` starts at a slot before
position `n` is scheduled -/
structure Sim (i : Inst) (σ : Nat → Nat → Int) (s : State) (n : Nat) : Prop where
  a1 : ∀ m j, j < i.J → s.sched m j ≠ UNSET → s.sched m j = σ m j
  a2 : ∀ (sub' t' j : Nat), sub' < MT i → j < i.J → σ (machineOf i sub') j = (t' : Int) →
    t' * MT i + sub' < n → s.sched (machineOf i sub') j = (t' : Int)

theorem sim_congr (i : Inst) (σ : Nat → Nat → Int) {s x : State}
    (hs : ∀ m j, j < i.J → x.sched m j = s.sched m j) {n : Nat} (sm : Sim i σ s n) : Sim i σ x n :=
  { a1 := fun m j hj hset => by rw [hs m j hj] at hset ⊢; exact sm.a1 m j hj hset
    a2 := fun sub' t' j h1 hj h2 h3 => by rw [hs _ j hj]; exact sm.a2 sub' t' j h1 hj h2 h3 }

/-- if `σ` starts job `j` at the slot the clock stands on, the machine is idle and the job is ready -/
theorem sigma_op_ready (i : Inst) (h : WF i) (hi : PermInj i) (hsj : PermSurj i) (σ : Nat → Nat → Int)
    (ok : SigmaOK i σ) (y : State) (c : Core i y) (x : Aux i y y.sub) (sm : Sim i σ y (spos i y))
    (j : Nat) (hj : j < i.J) (hσ : σ (machineOf i y.sub) j = (y.time : Int)) :
    y.jloc j = y.sub / i.M ∧ y.jwait j = 0 ∧ y.mwait y.midx = 0 ∧ y.sched (machineOf i y.sub) j = UNSET := by
  have hU := unset_neg
  have hm : machineOf i y.sub < MT i := machineOf_lt h c.sub_lt
  have hk : machineOf i y.sub / i.M = y.sub / i.M := machineOf_stage h y.sub
  have hσs : σ (machineOf i y.sub) j ≠ UNSET := by rw [hσ]; omega
  -- (i) not yet scheduled
  have hun : y.sched (machineOf i y.sub) j = UNSET := by
    apply Classical.byContradiction; intro hset
    have hv := sm.a1 _ j hj hset
    obtain ⟨sub'', h1, _, h3⟩ := x.np _ j hj hset (by rw [hv, hσ])
    have := machineOf_inj i h hi h3
    omega
  -- (ii) no operation of this stage yet
  have hle : y.jloc j ≤ y.sub / i.M := by
    apply Classical.byContradiction; intro hgt
    obtain ⟨m'', h1, h2⟩ := c.stage_has j (y.sub / i.M) hj (by omega)
    have hm'' := (c.set_stage m'' j hj h2).1
    have hv := sm.a1 m'' j hj h2
    have := ok.uniq j m'' _ hj hm'' hm (by rw [← hv]; exact h2) hσs (by rw [h1, hk])
    rw [this] at h2; exact h2 hun
  -- (iii) all earlier stages are scheduled
  have hge : y.sub / i.M ≤ y.jloc j := by
    apply Classical.byContradiction; intro hlt
    have hlt' : y.jloc j < y.sub / i.M := by omega
    have hkS : y.sub / i.M < i.S := stageOf_lt c.sub_lt
    obtain ⟨m1, hm1, hst1, hs1⟩ := ok.has j (y.jloc j) hj (by omega)
    have hord := ok.order j m1 _ hj hm1 hm hs1 hσs (by rw [hst1, hk]; exact hlt')
    have hnn := ok.nonneg m1 j hm1 hj hs1
    obtain ⟨sub1, hsub1, he1, hst1'⟩ := machine_is_slot i h hsj hm1
    have hval : σ (machineOf i sub1) j = ((σ m1 j).toNat : Int) := by rw [he1]; omega
    have hbefore : (σ m1 j).toNat * MT i + sub1 < spos i y := by
      unfold spos
      apply slot_lt_of hsub1
      by_cases heq : (σ m1 j).toNat = y.time
      · right; refine ⟨heq, sub_lt_of_stage_lt (M := i.M) ?_⟩
        rw [hst1', hst1]; exact hlt'
      · left; rw [hσ] at hord; omega
    have hset := sm.a2 sub1 _ j hsub1 hj hval hbefore
    rw [he1] at hset
    have := (c.set_stage m1 j hj (by rw [hset]; omega)).2
    omega
  have hloc : y.jloc j = y.sub / i.M := by omega
  refine ⟨hloc, ?_, ?_, hun⟩
  · -- (iv) the previous operation has finished
    apply Classical.byContradiction; intro hne
    obtain ⟨m0, hs0, he0⟩ := x.jx j hj (by omega)
    obtain ⟨hm0, hst0⟩ := c.set_stage m0 j hj hs0
    have hv := sm.a1 m0 j hj hs0
    have := ok.order j m0 _ hj hm0 hm (by rw [← hv]; exact hs0) hσs (by rw [hk]; omega)
    rw [hσ, ← hv] at this
    omega
  · -- (v) the machine is idle
    apply Classical.byContradiction; intro hne
    rw [c.midx_eq] at hne
    obtain ⟨j'', hj'', hs'', he''⟩ := x.mx (machineOf i y.sub) (by omega)
    have hv := sm.a1 _ j'' hj'' hs''
    have hjj : j'' ≠ j := by intro hh; rw [hh] at hs''; exact hs'' hun
    have hst := (c.start_rng _ j'' hj'' hs'').2
    have hσ'' : σ (machineOf i y.sub) j'' ≠ UNSET := by rw [← hv]; exact hs''
    rcases ok.machine _ j'' j hm hj'' hj hjj hσ'' hσs with hd | hd
    · rw [hσ, ← hv] at hd; omega
    · have hnd := ok.nd _ j'' j hm hj'' hj hjj hσ'' hσs
      rw [hσ, ← hv] at hd
      rw [← hv, hσ] at hnd
      have : (0 : Int) ≤ (i.dur j (machineOf i y.sub) : Int) := Int.natCast_nonneg _
      omega


/-- **the schedule's job is offered**: at a decision state where `σ` starts job `j` on the current machine
now, the mask admits `j`, and after scheduling it the state still follows `σ` -/
theorem follow_job (i : Inst) (h : WF i) (hi : PermInj i) (hsj : PermSurj i) (σ : Nat → Nat → Int)
    (ok : SigmaOK i σ) (s : State) (l : Live i s) (x : Aux i s s.sub)
    (sm : Sim i σ s (spos i s)) (j : Nat) (hj : j < i.J) (hσ : σ (machineOf i s.sub) j = (s.time : Int)) :
    s.mask j = true ∧ Sim i σ (apply i s j) (spos i s + 1) := by
  have hU := unset_neg
  obtain ⟨hloc, hjw, _, hun⟩ := sigma_op_ready i h hi hsj σ ok s l.core x sm j hj hσ
  have hmask : s.mask j = true := by
    rw [mask_job i s l.fresh hj]; simp [stageOf, hloc, hjw]
  refine ⟨hmask, ?_⟩
  have hmid := l.core.midx_eq
  have hnew : (apply i s j).sched s.midx j = (s.time : Int) := by rw [apply_sched]; simp
  have hold : ∀ m j', ¬ (m = s.midx ∧ j' = j) → (apply i s j).sched m j' = s.sched m j' := by
    intro m j' hn; rw [apply_sched, if_neg hn]
  exact {
    a1 := by
      intro m j' hj' hset
      by_cases hc : m = s.midx ∧ j' = j
      · rw [hc.1, hc.2, hnew, hmid, hσ]
      · rw [hold m j' hc] at hset ⊢; exact sm.a1 m j' hj' hset
    a2 := by
      intro sub' t' j' hsub' hj' hval hlt
      by_cases hcur : t' * MT i + sub' = spos i s
      · obtain ⟨e1, e2⟩ := slot_eq hsub' l.core.sub_lt hcur
        subst e1; subst e2
        have hjj : j' = j := by
          apply Classical.byContradiction; intro hne
          have hm := machineOf_lt h l.core.sub_lt
          exact ok.nd _ j' j hm hj' hj hne (by rw [hval]; omega) (by rw [hσ]; omega) (by rw [hval, hσ])
        rw [hjj, ← hmid, hnew]
      · have hv := sm.a2 sub' t' j' hsub' hj' hval (by omega)
        have hc : ¬ (machineOf i sub' = s.midx ∧ j' = j) := by
          intro hh
          rw [hh.1, hh.2, hmid, hun] at hv
          omega
        rw [hold _ j' hc]; exact hv }

/-- **the wait action is offered** when `σ` starts nothing at the current slot — this is exactly what
expressibility of `σ` provides -/
theorem follow_wait (i : Inst) (h : WF i) (hsj : PermSurj i) (σ : Nat → Nat → Int)
    (ok : SigmaOK i σ) (s : State) (l : Live i s) (hd : s.done = false)
    (sm : Sim i σ s (spos i s))
    (hno : ∀ j, j < i.J → σ (machineOf i s.sub) j ≠ (s.time : Int)) :
    s.mask i.J = true ∧ Sim i σ (apply i s i.J) (spos i s + 1) := by
  have hU := unset_neg
  have c := l.core
  have hm : machineOf i s.sub < MT i := machineOf_lt h c.sub_lt
  have hk : machineOf i s.sub / i.M = s.sub / i.M := machineOf_stage h s.sub
  have hsame : ∀ m j, j < i.J → (apply i s i.J).sched m j = s.sched m j := by
    intro m j hj; rw [apply_sched]
    have : ¬ (m = s.midx ∧ j = i.J) := fun hh => by omega
    simp [this]
  have hsim : Sim i σ (apply i s i.J) (spos i s + 1) := by
    apply sim_congr i σ hsame
    exact {
      a1 := sm.a1
      a2 := by
        intro sub' t' j' hsub' hj' hval hlt
        by_cases hcur : t' * MT i + sub' = spos i s
        · obtain ⟨e1, e2⟩ := slot_eq hsub' c.sub_lt hcur
          subst e1; subst e2
          exact absurd hval (hno j' hj')
        · exact sm.a2 sub' t' j' hsub' hj' hval (by omega) }
  refine ⟨?_, hsim⟩
  -- the state is a decision state: the machine is idle and some job `j0` is ready
  have hr := l.rdy hd
  simp only [ready, Bool.and_eq_true, beq_iff_eq, List.any_eq_true, List.mem_range, jobReady,
    stageOf] at hr
  obtain ⟨hmw, j0, hj0, hloc0, hjw0⟩ := hr
  rw [c.midx_eq] at hmw
  -- `σ` leaves the machine idle now
  have hidle : ∀ j, j < i.J → σ (machineOf i s.sub) j ≠ UNSET →
      ¬ (σ (machineOf i s.sub) j = (s.time : Int) ∨ (σ (machineOf i s.sub) j ≤ (s.time : Int) ∧
          (s.time : Int) < σ (machineOf i s.sub) j + (i.dur j (machineOf i s.sub) : Int))) := by
    intro j hj hs
    rintro (he | ⟨h1, h2⟩)
    · exact hno j hj he
    · have hnn := ok.nonneg _ j hm hj hs
      have hne := hno j hj
      have hval : σ (machineOf i s.sub) j = ((σ (machineOf i s.sub) j).toNat : Int) := by omega
      have hbefore : (σ (machineOf i s.sub) j).toNat * MT i + s.sub < spos i s := by
        unfold spos; apply slot_lt_of c.sub_lt; left; omega
      have hset := sm.a2 s.sub _ j c.sub_lt hj hval hbefore
      have := c.mach_busy hd _ j hj (by rw [hset]; omega)
      rw [hset, hmw] at this
      omega
  -- `j0` is available in `σ` at this slot
  have hkS : s.sub / i.M < i.S := stageOf_lt c.sub_lt
  obtain ⟨m2, hm2, hst2, hs2⟩ := ok.has j0 (s.sub / i.M) hj0 hkS
  have hav : ∃ j, j < i.J ∧
      (s.sub / i.M = 0 ∨ ∃ m', m' < MT i ∧ m' / i.M + 1 = s.sub / i.M ∧ σ m' j ≠ UNSET ∧
          σ m' j + (i.dur j m' : Int) ≤ (s.time : Int)) ∧
      (∃ m', m' < MT i ∧ m' / i.M = s.sub / i.M ∧ σ m' j ≠ UNSET ∧ SlotAfter i s.time s.sub (σ m' j) m') := by
    refine ⟨j0, hj0, ?_, m2, hm2, hst2, hs2, ?_⟩
    · by_cases hk0 : s.sub / i.M = 0
      · exact Or.inl hk0
      · obtain ⟨m', h1, h2⟩ := c.stage_has j0 (s.sub / i.M - 1) hj0 (by omega)
        have hm' := (c.set_stage m' j0 hj0 h2).1
        have hv := sm.a1 m' j0 hj0 h2
        have hb := c.job_busy m' j0 hj0 h2
        rw [hjw0] at hb
        exact Or.inr ⟨m', hm', by omega, by rw [← hv]; exact h2, by rw [← hv]; simpa using hb⟩
    · -- the stage-`k` operation of `j0` in `σ` cannot sit at or before the current slot
      have hnn := ok.nonneg m2 j0 hm2 hj0 hs2
      obtain ⟨sub2, hsub2, he2, hst2'⟩ := machine_is_slot i h hsj hm2
      have hval : σ (machineOf i sub2) j0 = ((σ m2 j0).toNat : Int) := by rw [he2]; omega
      rcases Nat.lt_trichotomy ((σ m2 j0).toNat * MT i + sub2) (spos i s) with hlt | heq | hgt
      · exfalso
        have hset := sm.a2 sub2 _ j0 hsub2 hj0 hval hlt
        rw [he2] at hset
        have := (c.set_stage m2 j0 hj0 (by rw [hset]; omega)).2
        omega
      · exfalso
        obtain ⟨e1, e2⟩ := slot_eq hsub2 c.sub_lt heq
        rw [e2] at he2
        exact hno j0 hj0 (by rw [he2]; omega)
      · rcases slot_lt c.sub_lt hsub2 hgt with hl | ⟨he, hl⟩
        · left; omega
        · right; exact ⟨by omega, sub2, hsub2, hl, he2.symm⟩
  obtain ⟨hk1, j', hj', hall⟩ := ok.expr s.time s.sub c.sub_lt hidle hav
  -- hence some job has not completed the previous stage: waiting is offered
  rw [l.fresh i.J]
  simp only [updateMask, Nat.lt_irrefl, if_false, if_true, hd, Bool.or_false, Bool.or_eq_true,
    List.any_eq_true, List.mem_range, decide_eq_true_eq, Bool.and_eq_true, beq_iff_eq, stageOf]
  by_cases hlt : s.jloc j' < s.sub / i.M
  · exact Or.inl ⟨j', hj', decide_eq_true hlt⟩
  · right
    obtain ⟨m1, h1, h2⟩ := c.stage_has j' (s.sub / i.M - 1) hj' (by omega)
    have hm1 := (c.set_stage m1 j' hj' h2).1
    have hv := sm.a1 m1 j' hj' h2
    have hend := hall m1 hm1 (by omega) (by rw [← hv]; exact h2)
    rw [← hv] at hend
    have hb := c.job_busy m1 j' hj' h2
    have hloc : s.jloc j' = s.sub / i.M := by
      apply Classical.byContradiction; intro hne
      obtain ⟨m3, g1, g2⟩ := c.stage_has j' (s.sub / i.M) hj' (by omega)
      have hord := c.order j' m1 m3 hj' h2 g2 (by omega)
      have hst := (c.start_rng m3 j' hj' g2).2
      omega
    exact ⟨j', hj', hloc, by omega⟩


/-- the environment never skips a slot at which `σ` starts a job -/
theorem sim_loop (i : Inst) (h : WF i) (hi : PermInj i) (hsj : PermSurj i) (σ : Nat → Nat → Int)
    (ok : SigmaOK i σ) : ∀ (f : Nat) (x : State), Core i x → Aux i x (x.sub + 1) →
    Sim i σ x (spos i x + 1) →
    Aux i (moveLoop i (f + 1) x) (moveLoop i (f + 1) x).sub ∧
    Sim i σ (moveLoop i (f + 1) x) (spos i (moveLoop i (f + 1) x)) := by
  intro f
  induction f with
  | zero =>
    intro x c a sm
    have ha := aux_advance i x c a
    have hs : Sim i σ (advance i x) (spos i (advance i x)) := by
      rw [spos_advance i x c.sub_lt]; exact sim_congr i σ (s := x) (x := advance i x) (fun _ _ _ => rfl) sm
    simp only [moveLoop]
    split <;> exact ⟨ha, hs⟩
  | succ f ih =>
    intro x c a sm
    have ha := aux_advance i x c a
    have hs : Sim i σ (advance i x) (spos i (advance i x)) := by
      rw [spos_advance i x c.sub_lt]; exact sim_congr i σ (s := x) (x := advance i x) (fun _ _ _ => rfl) sm
    rw [moveLoop]
    by_cases hr : ready i (advance i x) = true
    · simp only [hr, if_true]; exact ⟨ha, hs⟩
    · have hr' : ready i (advance i x) = false := by simpa using hr
      simp only [hr', Bool.false_eq_true, if_false]
      have cy := core_advance i h x c
      apply ih (advance i x) cy (aux_weaken ha (Nat.le_succ _))
      exact {
        a1 := hs.a1
        a2 := by
          intro sub' t' j' hsub' hj' hval hlt
          by_cases hcur : t' * MT i + sub' = spos i (advance i x)
          · -- `σ` would start `j'` at the slot of a non-ready state: impossible
            exfalso
            obtain ⟨e1, e2⟩ := slot_eq hsub' cy.sub_lt hcur
            subst e1; subst e2
            obtain ⟨g1, g2, g3, _⟩ := sigma_op_ready i h hi hsj σ ok _ cy ha hs j' hj' hval
            have : ready i (advance i x) = true := by
              simp only [ready, Bool.and_eq_true, beq_iff_eq, List.any_eq_true, List.mem_range]
              exact ⟨g3, j', hj', by simp [jobReady, stageOf, g1, g2]⟩
            rw [this] at hr'; cases hr'
          · exact hs.a2 sub' t' j' hsub' hj' hval (by omega) }

/-- one step of "follow `σ`" from an unfinished decision state: an admitted action after which the state
still follows `σ` (`Follows` packages what is carried along) -/
def Follows (i : Inst) (σ : Nat → Nat → Int) (s : State) : Prop :=
  Reach envM i s ∧ s.done = false ∧ Sim i σ s (spos i s)

theorem follow_step (i : Inst) (h : WF i) (hi : PermInj i) (hsj : PermSurj i) (σ : Nat → Nat → Int)
    (ok : SigmaOK i σ) (s : State) (fs : Follows i σ s) :
    ∃ a, a < i.J + 1 ∧ s.mask a = true ∧ Sim i σ (apply i s a) (spos i s + 1) ∧
      ((stepM i s a).done = false → Follows i σ (stepM i s a)) := by
  obtain ⟨hre, hd, sm⟩ := fs
  obtain ⟨l, hh⟩ := hist_of_reach i h hi hre
  have x := (hh hd).1
  -- choose the action
  have hact : ∃ a, a < i.J + 1 ∧ s.mask a = true ∧ Sim i σ (apply i s a) (spos i s + 1) := by
    by_cases hex : ∃ j, j < i.J ∧ σ (machineOf i s.sub) j = (s.time : Int)
    · obtain ⟨j, hj, hσ⟩ := hex
      obtain ⟨g1, g2⟩ := follow_job i h hi hsj σ ok s l x sm j hj hσ
      exact ⟨j, by omega, g1, g2⟩
    · obtain ⟨g1, g2⟩ := follow_wait i h hsj σ ok s l hd sm
        (fun j hj he => hex ⟨j, hj, he⟩)
      exact ⟨i.J, by omega, g1, g2⟩
  obtain ⟨a, ha, hm, sm1⟩ := hact
  refine ⟨a, ha, hm, sm1, ?_⟩
  intro hd'
  have hre' : Reach envM i (stepM i s a) := by
    obtain ⟨bs, hb⟩ := hre; exact ⟨bs ++ [a], hb.snoc ha hm⟩
  refine ⟨hre', hd', ?_⟩
  have c1 := core_apply i h s l a ha hm
  have hd1 : (apply i s a).done = false := by
    have : (stepM i s a).done = (moveNext i (apply i s a)).done := rfl
    rw [this, moveNext_done i h _ c1] at hd'; exact hd'
  obtain ⟨x1, _⟩ := hist_post_apply i h hi s l hd (hh hd) a ha hm
  obtain ⟨f, hf⟩ : ∃ f, moveFuel i (apply i s a) = f + 1 := by
    have : 1 ≤ moveFuel i (apply i s a) := by
      unfold moveFuel; exact Nat.mul_pos (by omega) (MT_pos h)
    exact ⟨moveFuel i (apply i s a) - 1, by omega⟩
  have hstep : stepM i s a = updateMask i (moveLoop i (f + 1) (apply i s a)) := by
    simp [stepM, stepG, finish, moveNext, hd1, hf]
  obtain ⟨_, y2⟩ := sim_loop i h hi hsj σ ok f (apply i s a) c1 x1 sm1
  rw [hstep]
  exact sim_congr i σ (s := moveLoop i (f + 1) (apply i s a)) (x := updateMask i _) (fun _ _ _ => rfl) y2


theorem mu_pos (i : Inst) (h : WF i) {s : State} (hr : Reach envM i s) (hd : s.done = false) :
    0 < mu i s := by
  have := pos_lt_bound i h hr hd
  unfold mu; rw [hd]; simp; omega

theorem mu_dec (i : Inst) (h : WF i) {s : State} (hr : Reach envM i s) (hd : s.done = false) (a : Nat)
    (ha : a < i.J + 1) (hm : s.mask a = true) (hd' : (stepM i s a).done = false) :
    mu i (stepM i s a) < mu i s := by
  have hre' : Reach envM i (stepM i s a) := by
    obtain ⟨bs, hb⟩ := hr; exact ⟨bs ++ [a], hb.snoc ha hm⟩
  have h1 := clock_increases i h hr a ha hm hd'
  have h2 := pos_lt_bound i h hre' hd'
  unfold mu; rw [hd, hd']; simp; omega

/-- following `σ` from a state that follows `σ` ends in a finished state whose schedule is `σ`'s -/
theorem exists_run (i : Inst) (h : WF i) (hi : PermInj i) (hsj : PermSurj i) (σ : Nat → Nat → Int)
    (ok : SigmaOK i σ) : ∀ (n : Nat) (s : State), Follows i σ s → mu i s ≤ n →
    ∃ as s', RunND env i s as s' ∧ s'.done = true ∧ Core i s' ∧
      ∀ m j, j < i.J → s'.sched m j ≠ UNSET → s'.sched m j = σ m j := by
  intro n
  induction n with
  | zero =>
    intro s fs hn
    have := mu_pos i h fs.1 fs.2.1
    omega
  | succ n ih =>
    intro s fs hn
    obtain ⟨a, ha, hm, sm1, hnext⟩ := follow_step i h hi hsj σ ok s fs
    obtain ⟨hre, hd, _⟩ := fs
    have l := live_of_reach i h hre
    cases hg : (apply i s a).done with
    | true =>
      have he : step i s a = stepG i s a true := by simp [step, hg]
      refine ⟨[a], step i s a, RunND.cons hd ha hm (RunND.nil _), ?_, ?_, ?_⟩
      · rw [he]; simp [stepG, finish, hg]
      · rw [he]; exact core_stepG i h s l a ha hm true
      · have : (step i s a).sched = (apply i s a).sched := by rw [he]; simp [stepG, finish]
        rw [this]; exact sm1.a1
    | false =>
      have he : step i s a = stepM i s a := by simp [step, stepM, hg]
      have hd1 : (stepM i s a).done = false := by
        have c1 := core_apply i h s l a ha hm
        have : (stepM i s a).done = (moveNext i (apply i s a)).done := rfl
        rw [this, moveNext_done i h _ c1, hg]
      have hdec := mu_dec i h hre hd a ha hm hd1
      obtain ⟨as, s', hrun, r2, r3, r4⟩ := ih (stepM i s a) (hnext hd1) (by omega)
      refine ⟨a :: as, s', RunND.cons hd ha hm ?_, r2, r3, r4⟩
      show RunND env i (step i s a) as s'
      rw [he]; exact hrun

/-- **C05 (FFSP), completeness of the class.**  Every schedule matrix `σ` whose operation list is valid
and expressible is the schedule of some finished mask-confined episode. -/
theorem expressible_reachable (i : Inst) (h : WF i) (hi : PermInj i) (hsj : PermSurj i)
    (σ : Nat → Nat → Int) (hv : Valid i (ofMatrix i σ)) (he : Expressible i (ofMatrix i σ)) :
    ∃ as s, RunND env i (env.reset i) as s ∧ s.done = true ∧
      ∀ m j, m < MT i → j < i.J → s.sched m j = σ m j := by
  have ok := sigmaOK_of_spec i σ hv he
  have f0 : Follows i σ (reset i) :=
    ⟨⟨[], Run.nil _⟩, rfl, ⟨fun m j _ hs => absurd rfl hs, fun sub' t' j _ _ _ hlt => by
      have : spos i (reset i) = 0 := by simp [spos, reset]
      omega⟩⟩
  obtain ⟨as, s, hrun, hd, c, hag⟩ := exists_run i h hi hsj σ ok _ (reset i) f0 (Nat.le_refl _)
  refine ⟨as, s, hrun, hd, ?_⟩
  intro m j hm hj
  by_cases hs : s.sched m j = UNSET
  · rw [hs]
    apply Classical.byContradiction; intro hne
    have hσ : σ m j ≠ UNSET := fun hh => hne hh.symm
    have hk : m / i.M < i.S := stageOf_lt hm
    obtain ⟨m'', h1, h2⟩ := c.stage_has j (m / i.M) hj (by rw [jloc_of_done c hd j hj]; exact hk)
    have hm'' := (c.set_stage m'' j hj h2).1
    have hv'' := hag m'' j hj h2
    have := ok.uniq j m'' m hj hm'' hm (by rw [← hv'']; exact h2) hσ h1
    rw [this] at h2; exact h2 hs
  · exact hag m j hj hs

end Rl4co.Ffsp
