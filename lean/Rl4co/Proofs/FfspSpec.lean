/-
Sanity lemmas pinning down `Spec.Ffsp` independently of the environment model: validity and the makespan
do not depend on the order in which the operations are listed, they are invariant under a common time
shift (the makespan shifts along), the makespan dominates every completion time and every single
duration, and — so that no theorem about `Valid` is vacuous — every well-formed instance has a valid
schedule.  No Mathlib.
-/
import Rl4co.Props.C07.Ffsp
import Rl4co.Props.C02.Ffsp
namespace Rl4co.Spec.Ffsp
open Rl4co.Ffsp (Inst MT)

/-- **listing order is irrelevant** -/
theorem valid_of_perm (i : Inst) {ops ops' : List Op} (hp : ops.Perm ops') (hv : Valid i ops) : Valid i ops' where
  range := fun o ho => hv.range o (hp.mem_iff.mpr ho)
  once := by
    intro j hj k hk
    have := hv.once j hj k hk
    unfold opsAt at this ⊢
    rw [← (hp.filter _).length_eq]; exact this
  order := fun o ho o' ho' => hv.order o (hp.mem_iff.mpr ho) o' (hp.mem_iff.mpr ho')
  machine := fun o ho o' ho' => hv.machine o (hp.mem_iff.mpr ho) o' (hp.mem_iff.mpr ho')

theorem isMakespan_of_perm (i : Inst) {ops ops' : List Op} (hp : ops.Perm ops') {v : Int}
    (hm : IsMakespan i ops v) : IsMakespan i ops' v := by
  obtain ⟨⟨o, ho, hov⟩, hall⟩ := hm
  exact ⟨⟨o, hp.mem_iff.mp ho, hov⟩, fun o' ho' => hall o' (hp.mem_iff.mpr ho')⟩

/-- the schedule delayed by `c` time units -/
def shift (c : Int) (ops : List Op) : List Op := ops.map (fun o => { o with start := o.start + c })

/-- **time-shift invariance**: delaying every operation by `c ≥ 0` keeps the schedule valid … -/
theorem valid_shift (i : Inst) (c : Int) (hc : 0 ≤ c) {ops : List Op} (hv : Valid i ops) :
    Valid i (shift c ops) := by
  have hmem : ∀ o, o ∈ shift c ops → ∃ o0, o0 ∈ ops ∧ o = { o0 with start := o0.start + c } := by
    intro o ho
    obtain ⟨o0, h0, rfl⟩ := List.mem_map.mp ho
    exact ⟨o0, h0, rfl⟩
  exact {
    range := by
      intro o ho
      obtain ⟨o0, h0, rfl⟩ := hmem o ho
      have := hv.range o0 h0
      exact ⟨this.1, this.2.1, by show 0 ≤ o0.start + c; omega⟩
    once := by
      intro j hj k hk
      have := hv.once j hj k hk
      unfold opsAt at this ⊢
      unfold shift
      rw [List.filter_map, List.length_map]
      exact this
    order := by
      intro o ho o' ho' hj hs
      obtain ⟨o0, h0, rfl⟩ := hmem o ho
      obtain ⟨o1, h1, rfl⟩ := hmem o' ho'
      have := hv.order o0 h0 o1 h1 hj hs
      simp only [Op.fin] at this ⊢
      omega
    machine := by
      intro o ho o' ho' hne hm
      obtain ⟨o0, h0, rfl⟩ := hmem o ho
      obtain ⟨o1, h1, rfl⟩ := hmem o' ho'
      have hne' : o0 ≠ o1 := fun hh => hne (by rw [hh])
      have := hv.machine o0 h0 o1 h1 hne' hm
      simp only [Op.fin] at this ⊢
      omega }

/-- … and shifts the makespan by `c` -/
theorem isMakespan_shift (i : Inst) (c : Int) {ops : List Op} {v : Int} (hm : IsMakespan i ops v) :
    IsMakespan i (shift c ops) (v + c) := by
  obtain ⟨⟨o, ho, hov⟩, hall⟩ := hm
  constructor
  · refine ⟨{ o with start := o.start + c }, List.mem_map.mpr ⟨o, ho, rfl⟩, ?_⟩
    simp only [Op.fin] at hov ⊢; omega
  · intro o' ho'
    obtain ⟨o0, h0, rfl⟩ := List.mem_map.mp ho'
    have := hall o0 h0
    simp only [Op.fin] at this ⊢; omega

/-- the makespan of a valid schedule is at least every single processing time that occurs in it, and
at least every completion time -/
theorem makespan_ge (i : Inst) {ops : List Op} (hv : Valid i ops) {v : Int} (hm : IsMakespan i ops v)
    {o : Op} (ho : o ∈ ops) : o.fin i ≤ v ∧ (i.dur o.job o.machine : Int) ≤ v := by
  have h1 := hm.2 o ho
  have h2 := (hv.range o ho).2.2
  simp only [Op.fin] at h1 ⊢
  exact ⟨h1, by omega⟩

end Rl4co.Spec.Ffsp

namespace Rl4co.Ffsp
open Rl4co.Spec.Ffsp

/-- from every unfinished state of a running row some mask-confined continuation finishes -/
theorem exists_finish (i : Inst) (h : WF i) : ∀ (n : Nat) (s : State), Reach envM i s → s.done = false →
    mu i s ≤ n → ∃ as s', RunND env i s as s' ∧ s'.done = true := by
  intro n
  induction n with
  | zero =>
    intro s hr hd hn
    have := pos_lt_bound i h hr hd
    unfold mu at hn; rw [hd] at hn; simp at hn; omega
  | succ n ih =>
    intro s hr hd hn
    have l := live_of_reach i h hr
    obtain ⟨a, ha, hm⟩ := mask_nonempty_live i s l
    cases hg : (apply i s a).done with
    | true =>
      refine ⟨[a], step i s a, RunND.cons hd ha hm (RunND.nil _), ?_⟩
      simp [step, stepG, finish, hg]
    | false =>
      have he : step i s a = stepM i s a := by simp [step, stepM, hg]
      have hd1 : (stepM i s a).done = false := by
        have c1 := core_apply i h s l a ha hm
        have : (stepM i s a).done = (moveNext i (apply i s a)).done := rfl
        rw [this, moveNext_done i h _ c1, hg]
      have hre' : Reach envM i (stepM i s a) := by
        obtain ⟨bs, hb⟩ := hr; exact ⟨bs ++ [a], hb.snoc ha hm⟩
      have h1 := clock_increases i h hr a ha hm hd1
      have h2 := pos_lt_bound i h hre' hd1
      have hdec : mu i (stepM i s a) < mu i s := by unfold mu; rw [hd, hd1]; simp; omega
      obtain ⟨as, s', hrun, hd'⟩ := ih (stepM i s a) hre' hd1 (by omega)
      refine ⟨a :: as, s', RunND.cons hd ha hm ?_, hd'⟩
      show RunND env i (step i s a) as s'
      rw [he]; exact hrun

/-- **every well-formed instance has a finished mask-confined episode** (the decoding loop of any policy
that respects the mask can finish) … -/
theorem exists_finished_episode (i : Inst) (h : WF i) :
    ∃ as s, RunND env i (env.reset i) as s ∧ s.done = true :=
  exists_finish i h _ (reset i) ⟨[], Run.nil _⟩ rfl (Nat.le_refl _)

/-- … hence **a valid schedule exists for every well-formed instance**: `Spec.Ffsp.Valid` is never
vacuous -/
theorem valid_schedule_exists (i : Inst) (h : WF i) : ∃ ops, Valid i ops := by
  obtain ⟨as, s, hr, hd⟩ := exists_finished_episode i h
  exact ⟨_, schedule_valid i h hr hd⟩

end Rl4co.Ffsp
