/-
The translator tie of the MTVRP model: the model definitions `step`, `mask`, `charged`, `reward` are parametric in
the operators / expression shapes extracted from the Python AST (`Rl4co/Generated/Params.lean`).  The lemmas
below restate them in the plain form every property proof of the family uses; they are proved by unfolding the
CURRENT extracted values, so a one-token source edit (roll direction, `go_to` ↔ `go_from`, `!=` ↔ `==` in the reset
guard, a dropped `/ speed`, a changed depot rule) makes them — and with them every theorem of the family — fail at
`lake build`.  No Mathlib.
-/
import Rl4co.Env.Mtvrp

namespace Rl4co.Mtvrp

theorem moved_eq (a : Nat) : moved a = decide (a ≠ 0) := by
  simp [moved, Params.mtvrpStepGuardCmp, Cmp.evalNat]

theorem legTime_eq (i : Inst) (a b : Nat) : legTime i a b = i.T a b := by
  simp [legTime, Params.mtvrpStepClockDivSpeed]

/-- `_step` in plain form -/
theorem step_def (i : Inst) (s : State) (a : Nat) : step i s a =
    { cur := a
      len := if a ≠ 0 then s.len + i.D s.cur a else 0
      time := if a ≠ 0 then max (s.time + i.T s.cur a) (i.early a) + i.service a else 0
      usedL := if a ≠ 0 then s.usedL + i.dL a else 0
      usedB := if a ≠ 0 then s.usedB + i.dB a else 0
      vis := upd s.vis a true } := by
  by_cases h : a = 0 <;> simp [step, moved_eq, legTime_eq, h]

theorem numCust_pos (i : Inst) (s : State) : decide (numCust i s > 0) = anyCust i s := by
  unfold numCust anyCust
  by_cases h : (List.range i.n).any (fun k => canVisit i s (k + 1)) = true
  · rw [h]
    obtain ⟨k, hk, hc⟩ := List.any_eq_true.mp h
    have : k ∈ (List.range i.n).filter (fun k => canVisit i s (k + 1)) := List.mem_filter.mpr ⟨hk, hc⟩
    have := List.length_pos_of_mem this
    simpa using this
  · have h' : (List.range i.n).any (fun k => canVisit i s (k + 1)) = false := by simpa using h
    rw [h']
    have : (List.range i.n).filter (fun k => canVisit i s (k + 1)) = [] := by
      apply List.filter_eq_nil_iff.mpr
      intro k hk hc
      exact h (List.any_eq_true.mpr ⟨k, hk, hc⟩)
    simp [this]

/-- the depot rule in plain form: the depot is closed iff the vehicle stands at the depot and some customer is offered -/
theorem depotRule_eq (i : Inst) (s : State) : depotRule i s = !(s.cur == 0 && anyCust i s) := by
  simp only [depotRule, Params.mtvrpDepotRuleCurCmp, Params.mtvrpDepotRuleAnyCmp, Params.mtvrpDepotRuleNegated,
    Cmp.evalNat, if_true, numCust_pos]
  by_cases h : s.cur = 0 <;> simp [h]

/-- `get_action_mask` in plain form -/
theorem mask_def (i : Inst) (s : State) (a : Nat) :
    mask i s a = if a = 0 then !(s.cur == 0 && anyCust i s) else canVisit i s a := by
  simp only [mask, depotRule_eq]

/-- the charged leg in plain form: legs INTO the depot are free for open routes -/
theorem charged_def (i : Inst) : charged i = fun a b => if b = 0 ∧ i.openR = true then 0 else i.D a b := by
  funext a b
  simp [charged, Params.mtvrpRewardFreeLegIsTo]

theorem rollBy_eq (xs : List Nat) : rollBy Params.mtvrpRewardRollShift xs = roll1 xs := by
  cases xs with
  | nil => simp [rollBy, Params.mtvrpRewardRollShift, roll1]
  | cons x xs =>
    cases xs with
    | nil => simp [rollBy, Params.mtvrpRewardRollShift, roll1, List.rotateLeft]
    | cons y ys => simp [rollBy, Params.mtvrpRewardRollShift, roll1, List.rotateLeft]

/-- `_get_reward` in plain form: the gather / roll(-1) / masked-sum idiom -/
theorem reward_def (i : Inst) (as : List Nat) : reward i as = - rollLen (charged i) (0 :: as) := by
  simp only [reward, rollBy_eq, rollLen]

/-- one step of the checker's replay loop in plain form (per-row open-route flag on legs into the depot, clock
`dist / speed`, both comparisons as extracted) -/
theorem checkReplay_cons (i : Inst) (cur : Nat) (t len : Int) (a : Nat) (as : List Nat) :
    checkReplay i cur t len (a :: as) =
      (cmpInf Params.mtvrpCheckLimitCmp (len + (if i.openR && a == 0 then 0 else i.D cur a)) i.limit
       && cmpInf Params.mtvrpCheckTwCmp (max (t + i.T cur a) (i.early a)) (i.late a)
       && checkReplay i a (if a = 0 then 0 else max (t + i.T cur a) (i.early a) + i.service a)
            (if a = 0 then 0 else len + (if i.openR && a == 0 then 0 else i.D cur a)) as) := by
  simp [checkReplay, Params.mtvrpCheckFreeLegCmp, Params.mtvrpCheckClockDivSpeed, Cmp.evalNat]

theorem checkReplay_nil (i : Inst) (cur : Nat) (t len : Int) : checkReplay i cur t len [] = true := rfl

/-- one step of `_check_c1` in plain form (running load reset at the depot) -/
theorem checkC1_cons (cap : Int) (dem : Nat → Int) (used : Int) (a : Nat) (as : List Nat) :
    checkC1 cap dem used (a :: as) =
      (Params.mtvrpCheckCapCmp.eval ((if a ≠ 0 then used else 0) + dem a) cap
       && checkC1 cap dem ((if a ≠ 0 then used else 0) + dem a) as) := by
  by_cases h : a = 0 <;> simp [checkC1, Params.mtvrpCheckC1GuardCmp, Cmp.evalNat, h]

end Rl4co.Mtvrp
