/-
Helper lemmas for the FFSP model (`Rl4co/Env/Ffsp.lean`): well-formedness, index arithmetic of
`IndexTables`, termination of `_move_to_next_machine`, and the schedule invariant `Core` with its
preservation by every piece of `_step`.  No Mathlib.
-/
import Rl4co.Env.Ffsp
import Rl4co.Proofs.FfspParams
import Rl4co.Spec.Ffsp
namespace Rl4co.Ffsp

structure WF (i : Inst) : Prop where
  S_pos : 0 < i.S
  M_pos : 0 < i.M
  J_pos : 0 < i.J
  perm_lt : ∀ p, p < i.M → i.perm p < i.M
  /-- durations stay below the magnitude of the schedule's "not scheduled" sentinel (extracted) -/
  dur_lt : ∀ j m, j < i.J → m < MT i → (i.dur j m : Int) < -UNSET

/-- **Obligation on the extracted sentinel**: every duration up to 10⁵ is below its magnitude -/
theorem small_lt_unset {d : Int} (h : d ≤ 100000) : d < -UNSET := by
  have : -UNSET = 999999 := by decide
  omega

theorem MT_pos {i : Inst} (h : WF i) : 0 < MT i := Nat.mul_pos h.M_pos h.S_pos
theorem stageOf_lt {i : Inst} {sub : Nat} (hs : sub < MT i) : stageOf i sub < i.S := by
  unfold stageOf MT at *
  exact Nat.div_lt_of_lt_mul hs
theorem machineOf_stage {i : Inst} (h : WF i) (sub : Nat) : machineOf i sub / i.M = sub / i.M := by
  unfold machineOf
  have hp := h.perm_lt (sub % i.M) (Nat.mod_lt _ h.M_pos)
  rw [Nat.add_mul_div_left _ _ h.M_pos, Nat.div_eq_of_lt hp, Nat.zero_add]
theorem machineOf_lt {i : Inst} (h : WF i) {sub : Nat} (hs : sub < MT i) : machineOf i sub < MT i := by
  have hp := h.perm_lt (sub % i.M) (Nat.mod_lt _ h.M_pos)
  have hk := stageOf_lt hs
  unfold machineOf MT stageOf at *
  calc i.perm (sub % i.M) + i.M * (sub / i.M) < i.M + i.M * (sub / i.M) := by omega
    _ = i.M * (sub / i.M + 1) := by rw [Nat.mul_add, Nat.mul_one, Nat.add_comm]
    _ ≤ i.M * i.S := Nat.mul_le_mul_left _ hk

/-! ### `_move_to_next_machine` terminates: the fuel of `moveLoop` always suffices -/

/-- `n` iterations of the loop body -/
def iter (i : Inst) : Nat → State → State
  | 0, s => s
  | n + 1, s => advance i (iter i n s)

theorem iter_succ' (i : Inst) (n : Nat) (s : State) : iter i (n + 1) s = iter i n (advance i s) := by
  induction n with
  | zero => rfl
  | succ n ih => show advance i (iter i (n + 1) s) = advance i (iter i n (advance i s)); rw [ih]

/-- if some iterate `1 ≤ n ≤ fuel` is ready, the loop stops in a ready state -/
theorem moveLoop_ready (i : Inst) : ∀ (f : Nat) (s : State) (n : Nat), 1 ≤ n → n ≤ f →
    ready i (iter i n s) = true → ready i (moveLoop i f s) = true := by
  intro f
  induction f with
  | zero => intro s n h1 h2; omega
  | succ f ih =>
    intro s n h1 h2 hr
    simp only [moveLoop]
    by_cases hs : ready i (advance i s) = true
    · simp [hs]
    · simp only [hs]
      have hn : n ≠ 1 := by
        intro h; subst h
        exact hs (by simpa [iter] using hr)
      obtain ⟨n', rfl⟩ : ∃ n', n = n' + 1 := ⟨n - 1, by omega⟩
      rw [iter_succ'] at hr
      exact ih (advance i s) n' (by omega) (by omega) hr

/-- the loop result is some iterate `≥ 1` (or the state itself when the fuel is 0) -/
theorem moveLoop_is_iter (i : Inst) : ∀ (f : Nat) (s : State), ∃ n, n ≤ f ∧ (f ≥ 1 → n ≥ 1) ∧
    moveLoop i f s = iter i n s := by
  intro f
  induction f with
  | zero => intro s; exact ⟨0, Nat.le_refl _, by omega, rfl⟩
  | succ f ih =>
    intro s
    simp only [moveLoop]
    by_cases hs : ready i (advance i s) = true
    · exact ⟨1, by omega, by omega, by simp [hs, iter]⟩
    · obtain ⟨n, hn, _, he⟩ := ih (advance i s)
      exact ⟨n + 1, by omega, by omega, by simp only [hs]; rw [iter_succ']; simpa using he⟩

/-- closed form of `n` iterations, with the number `c` of clock wraps as a ghost counter -/
theorem iter_closed (i : Inst) (hM : 0 < MT i) (s : State) (hs : s.sub < MT i) : ∀ n, ∃ c,
    (iter i n s).sub + MT i * c = s.sub + n ∧ (iter i n s).sub < MT i ∧
    (iter i n s).time = s.time + c ∧
    (∀ m, (iter i n s).mwait m = s.mwait m - c) ∧ (∀ j, (iter i n s).jwait j = s.jwait j - c) ∧
    (iter i n s).jloc = s.jloc ∧ (iter i n s).done = s.done ∧ (iter i n s).sched = s.sched ∧
    (1 ≤ n → (iter i n s).midx = machineOf i (iter i n s).sub) := by
  intro n
  induction n with
  | zero => exact ⟨0, by simp [iter], by simpa [iter] using hs, by simp [iter], by simp [iter], by simp [iter],
      rfl, rfl, rfl, by omega⟩
  | succ n ih =>
    obtain ⟨c, h1, h2, h3, h4, h5, h6, h7, h8, _⟩ := ih
    by_cases hw : (iter i n s).sub + 1 = MT i
    · refine ⟨c + 1, ?_, ?_, ?_, ?_, ?_, ?_, ?_, ?_, ?_⟩
      · simp only [iter, advance, hw, beq_self_eq_true, if_true]
        rw [Nat.mul_add, Nat.mul_one]; omega
      · simp only [iter, advance, hw, beq_self_eq_true, if_true]; exact hM
      · simp only [iter, advance, hw, beq_self_eq_true, if_true]; omega
      · intro m; simp only [iter, advance, hw, beq_self_eq_true, if_true]; rw [h4]; omega
      · intro j; simp only [iter, advance, hw, beq_self_eq_true, if_true]; rw [h5]; omega
      · simpa [iter, advance] using h6
      · simpa [iter, advance] using h7
      · simpa [iter, advance] using h8
      · intro _; simp [iter, advance]
    · have hb : ((iter i n s).sub + 1 == MT i) = false := by simpa using hw
      refine ⟨c, ?_, ?_, ?_, ?_, ?_, ?_, ?_, ?_, ?_⟩
      · simp only [iter, advance, hb, if_false, Bool.false_eq_true]; omega
      · simp only [iter, advance, hb, if_false, Bool.false_eq_true]; omega
      · simp only [iter, advance, hb, if_false, Bool.false_eq_true]; exact h3
      · intro m; simp only [iter, advance, hb, if_false, Bool.false_eq_true]; exact h4 m
      · intro j; simp only [iter, advance, hb, if_false, Bool.false_eq_true]; exact h5 j
      · simpa [iter, advance] using h6
      · simpa [iter, advance] using h7
      · simpa [iter, advance] using h8
      · intro _; simp [iter, advance]

theorem le_maxL {l : List Nat} {x : Nat} (h : x ∈ l) : x ≤ maxL l := by
  induction l with
  | nil => cases h
  | cons y ys ih =>
    simp only [maxL]
    rcases List.mem_cons.mp h with h | h
    · subst h; exact Nat.le_max_left _ _
    · exact Nat.le_trans (ih h) (Nat.le_max_right _ _)

theorem mwait_le_maxWait (i : Inst) (s : State) {m : Nat} (hm : m < MT i) : s.mwait m ≤ maxWait i s := by
  unfold maxWait
  exact Nat.le_trans (le_maxL (List.mem_map.mpr ⟨m, List.mem_range.mpr hm, rfl⟩)) (Nat.le_max_left _ _)

theorem jwait_le_maxWait (i : Inst) (s : State) {j : Nat} (hj : j < i.J) : s.jwait j ≤ maxWait i s := by
  unfold maxWait
  exact Nat.le_trans (le_maxL (List.mem_map.mpr ⟨j, List.mem_range.mpr hj, rfl⟩)) (Nat.le_max_right _ _)

/-- division with remainder is unique -/
theorem divmod_unique {b a c a' c' : Nat} (ha : a < b) (ha' : a' < b) (h : a + b * c = a' + b * c') :
    a = a' ∧ c = c' := by
  have hb : 0 < b := by omega
  have h1 : (a + b * c) % b = a := by rw [Nat.add_mul_mod_self_left, Nat.mod_eq_of_lt ha]
  have h2 : (a' + b * c') % b = a' := by rw [Nat.add_mul_mod_self_left, Nat.mod_eq_of_lt ha']
  have haa : a = a' := by rw [← h1, ← h2, h]
  subst haa
  exact ⟨rfl, Nat.eq_of_mul_eq_mul_left hb (by omega)⟩

/-- **Termination of `_move_to_next_machine`.**  From any state whose clock is in range and in which
some job has not passed all stages, the loop with fuel `(maxWait + 2) · M·S` ends in a *ready* state:
the fuel is never exhausted. -/
theorem moveLoop_fuel_enough (i : Inst) (h : WF i) (s : State) (hs : s.sub < MT i)
    (hj : ∃ j, j < i.J ∧ s.jloc j < i.S) : ready i (moveLoop i (moveFuel i s) s) = true := by
  obtain ⟨j0, hj0, hk⟩ := hj
  have hM := MT_pos h
  let W := maxWait i s
  let k := s.jloc j0
  have hkM : k * i.M < MT i := by
    show s.jloc j0 * i.M < i.M * i.S
    calc s.jloc j0 * i.M < i.S * i.M := Nat.mul_lt_mul_of_pos_right hk h.M_pos
      _ = i.M * i.S := Nat.mul_comm _ _
  -- the iterate at which the sweep stands on the first machine of stage k after W+1 wraps
  let n := (W + 1) * MT i - s.sub + k * i.M
  have hWM : MT i ≤ (W + 1) * MT i := Nat.le_mul_of_pos_left _ (by omega)
  have hn1 : 1 ≤ n := by show 1 ≤ (W + 1) * MT i - s.sub + k * i.M; omega
  have hn2 : n ≤ moveFuel i s := by
    show (W + 1) * MT i - s.sub + k * i.M ≤ (W + 2) * MT i
    have : (W + 2) * MT i = (W + 1) * MT i + MT i := Nat.succ_mul (W + 1) (MT i)
    omega
  apply moveLoop_ready i _ s n hn1 hn2
  obtain ⟨c, h1, h2, _, h4, h5, h6, _, _, h9⟩ := iter_closed i hM s hs n
  have hsum : (iter i n s).sub + MT i * c = k * i.M + MT i * (W + 1) := by
    rw [h1]; show s.sub + ((W + 1) * MT i - s.sub + k * i.M) = k * i.M + MT i * (W + 1)
    rw [Nat.mul_comm (MT i) (W + 1)]; omega
  obtain ⟨hsub, hc⟩ := divmod_unique h2 hkM hsum
  have hmid := h9 hn1
  simp only [ready, Bool.and_eq_true, beq_iff_eq, List.any_eq_true, List.mem_range]
  constructor
  · rw [h4, hc]
    have hlt : (iter i n s).midx < MT i := by rw [hmid]; exact machineOf_lt h h2
    have := mwait_le_maxWait i s hlt
    show s.mwait _ - (W + 1) = 0
    omega
  · refine ⟨j0, hj0, ?_⟩
    simp only [jobReady, Bool.and_eq_true, beq_iff_eq]
    constructor
    · rw [h6, hsub]; show k = stageOf i (k * i.M)
      unfold stageOf; rw [Nat.mul_div_cancel _ h.M_pos]
    · rw [h5, hc]
      have := jwait_le_maxWait i s hj0
      show s.jwait j0 - (W + 1) = 0
      omega


/-! ### The schedule invariant -/

structure Core (i : Inst) (s : State) : Prop where
  sub_lt : s.sub < MT i
  midx_eq : s.midx = machineOf i s.sub
  loc_le : ∀ j, j < i.J → s.jloc j ≤ i.S
  done_eq : s.done = allAtEnd i s.jloc
  set_stage : ∀ m j, j < i.J → s.sched m j ≠ UNSET → m < MT i ∧ m / i.M < s.jloc j
  stage_has : ∀ j k, j < i.J → k < s.jloc j → ∃ m, m / i.M = k ∧ s.sched m j ≠ UNSET
  stage_uniq : ∀ j m m', j < i.J → s.sched m j ≠ UNSET → s.sched m' j ≠ UNSET →
    m / i.M = m' / i.M → m = m'
  start_rng : ∀ m j, j < i.J → s.sched m j ≠ UNSET → 0 ≤ s.sched m j ∧ s.sched m j ≤ (s.time : Int)
  job_busy : ∀ m j, j < i.J → s.sched m j ≠ UNSET →
    s.sched m j + (i.dur j m : Int) ≤ (s.time : Int) + (s.jwait j : Int)
  mach_busy : s.done = false → ∀ m j, j < i.J → s.sched m j ≠ UNSET →
    s.sched m j + (i.dur j m : Int) ≤ (s.time : Int) + (s.mwait m : Int)
  order : ∀ j m m', j < i.J → s.sched m j ≠ UNSET → s.sched m' j ≠ UNSET → m / i.M < m' / i.M →
    s.sched m j + (i.dur j m : Int) ≤ s.sched m' j
  disjoint : ∀ m j j', j < i.J → j' < i.J → j ≠ j' → s.sched m j ≠ UNSET → s.sched m j' ≠ UNSET →
    s.sched m j + (i.dur j m : Int) ≤ s.sched m j' ∨ s.sched m j' + (i.dur j' m : Int) ≤ s.sched m j

theorem allAtEnd_true (i : Inst) (f : Nat → Nat) : allAtEnd i f = true ↔ ∀ j, j < i.J → f j = i.S := by
  simp [allAtEnd]

theorem allAtEnd_congr (i : Inst) {f g : Nat → Nat} (h : ∀ j, j < i.J → f j = g j) :
    allAtEnd i f = allAtEnd i g := by
  apply Bool.eq_iff_iff.mpr
  rw [allAtEnd_true, allAtEnd_true]
  constructor
  · intro hh j hj; rw [← h j hj]; exact hh j hj
  · intro hh j hj; rw [h j hj]; exact hh j hj

theorem core_reset (i : Inst) (h : WF i) : Core i (reset i) where
  sub_lt := MT_pos h
  midx_eq := rfl
  loc_le := fun _ _ => Nat.zero_le _
  done_eq := by
    symm
    have : ¬ allAtEnd i (reset i).jloc = true := by
      rw [allAtEnd_true]; intro hh
      have := hh 0 h.J_pos
      have := h.S_pos
      simp [reset] at *; omega
    simpa [reset] using this
  set_stage := fun m j _ hs => absurd rfl hs
  stage_has := fun j k _ hk => absurd hk (Nat.not_lt_zero _)
  stage_uniq := fun _ m _ _ hs => absurd rfl hs
  start_rng := fun m j _ hs => absurd rfl hs
  job_busy := fun m j _ hs => absurd rfl hs
  mach_busy := fun _ m j _ hs => absurd rfl hs
  order := fun _ m _ _ hs => absurd rfl hs
  disjoint := fun m j _ _ _ _ hs => absurd rfl hs

theorem core_advance (i : Inst) (h : WF i) (s : State) (c : Core i s) : Core i (advance i s) := by
  by_cases hw : s.sub + 1 = MT i
  · have hb : (s.sub + 1 == MT i) = true := by simpa using hw
    exact {
      sub_lt := by simp only [advance, hb, if_true]; exact MT_pos h
      midx_eq := by simp [advance]
      loc_le := c.loc_le
      done_eq := c.done_eq
      set_stage := c.set_stage
      stage_has := c.stage_has
      stage_uniq := c.stage_uniq
      start_rng := by
        intro m j hj hs
        have := c.start_rng m j hj hs
        simp only [advance, hb, if_true]
        omega
      job_busy := by
        intro m j hj hs
        have := c.job_busy m j hj hs
        simp only [advance, hb, if_true]
        have : s.sched m j = (advance i s).sched m j := rfl
        omega
      mach_busy := by
        intro hd m j hj hs
        have := c.mach_busy hd m j hj hs
        simp only [advance, hb, if_true]
        have : s.sched m j = (advance i s).sched m j := rfl
        omega
      order := c.order
      disjoint := c.disjoint }
  · have hb : (s.sub + 1 == MT i) = false := by simpa using hw
    have := c.sub_lt
    exact {
      sub_lt := by simp only [advance, hb, if_false, Bool.false_eq_true]; omega
      midx_eq := by simp [advance]
      loc_le := c.loc_le
      done_eq := c.done_eq
      set_stage := c.set_stage
      stage_has := c.stage_has
      stage_uniq := c.stage_uniq
      start_rng := by
        intro m j hj hs
        have := c.start_rng m j hj hs
        simpa only [advance, hb, if_false, Bool.false_eq_true] using this
      job_busy := by
        intro m j hj hs
        have := c.job_busy m j hj hs
        simpa only [advance, hb, if_false, Bool.false_eq_true] using this
      mach_busy := by
        intro hd m j hj hs
        have := c.mach_busy hd m j hj hs
        simpa only [advance, hb, if_false, Bool.false_eq_true] using this
      order := c.order
      disjoint := c.disjoint }

theorem core_iter (i : Inst) (h : WF i) (s : State) (c : Core i s) : ∀ n, Core i (iter i n s)
  | 0 => c
  | n + 1 => core_advance i h _ (core_iter i h s c n)

theorem core_moveNext (i : Inst) (h : WF i) (s : State) (c : Core i s) : Core i (moveNext i s) := by
  unfold moveNext
  split
  · exact c
  · obtain ⟨n, _, _, he⟩ := moveLoop_is_iter i (moveFuel i s) s
    rw [he]; exact core_iter i h s c n

theorem core_updateMask (i : Inst) (s : State) (c : Core i s) : Core i (updateMask i s) :=
  { sub_lt := c.sub_lt, midx_eq := c.midx_eq, loc_le := c.loc_le, done_eq := c.done_eq,
    set_stage := c.set_stage, stage_has := c.stage_has, stage_uniq := c.stage_uniq,
    start_rng := c.start_rng, job_busy := c.job_busy, mach_busy := c.mach_busy, order := c.order,
    disjoint := c.disjoint }

theorem core_setReward (i : Inst) (s : State) (c : Core i s) (r : Option Int) :
    Core i { s with reward := r } :=
  { sub_lt := c.sub_lt, midx_eq := c.midx_eq, loc_le := c.loc_le, done_eq := c.done_eq,
    set_stage := c.set_stage, stage_has := c.stage_has, stage_uniq := c.stage_uniq,
    start_rng := c.start_rng, job_busy := c.job_busy, mach_busy := c.mach_busy, order := c.order,
    disjoint := c.disjoint }

theorem core_finish (i : Inst) (h : WF i) (s : State) (c : Core i s) (g : Bool) : Core i (finish i s g) := by
  unfold finish
  split
  · exact core_setReward i s c _
  · exact core_updateMask i _ (core_moveNext i h s c)

/-- **Obligation on the extracted source key**: `_step` books on `td["machine_idx"]`. -/
theorem bookMachine_eq (s : State) : bookMachine s = s.midx := rfl

/-- **Obligation on the extracted slice bound**: the makespan ignores the dummy (wait) column. -/
theorem rewardCols_eq (i : Inst) : rewardCols i = i.J := rfl

theorem apply_sched (i : Inst) (s : State) (a m j : Nat) :
    (apply i s a).sched m j = if m = s.midx ∧ j = a then (s.time : Int) else s.sched m j := by
  simp only [apply, upd, bookMachine_eq]
  by_cases hm : m = s.midx
  · by_cases hj : j = a
    · simp [hm, hj]
    · simp [hm, hj]
  · simp [hm]

theorem unset_neg : UNSET < 0 := by decide


theorem apply_fields (i : Inst) (s : State) (a : Nat) :
    (apply i s a).time = s.time ∧ (apply i s a).sub = s.sub ∧ (apply i s a).midx = s.midx ∧
    (apply i s a).jloc = upd s.jloc a (s.jloc a + 1) ∧
    (apply i s a).mwait = upd s.mwait s.midx (jobDur i a s.midx) ∧
    (apply i s a).jwait = upd s.jwait a (jobDur i a s.midx) ∧
    (apply i s a).done = allAtEnd i (upd s.jloc a (s.jloc a + 1)) ∧ True :=
  ⟨rfl, rfl, rfl, rfl, rfl, rfl, rfl, trivial⟩

/-- scheduling job `a` (in the current stage, not waiting) on the idle current machine -/
theorem core_apply_job (i : Inst) (h : WF i) (s : State) (c : Core i s) (a : Nat) (ha : a < i.J)
    (hd : s.done = false) (hloc : s.jloc a = stageOf i s.sub) (hjw : s.jwait a = 0)
    (hmw : s.mwait s.midx = 0) : Core i (apply i s a) := by
  obtain ⟨e1, e2, e3, e4, e5, e6, e7, _⟩ := apply_fields i s a
  have hk : s.midx / i.M = s.jloc a := by rw [c.midx_eq, machineOf_stage h, hloc]; rfl
  have hmid : s.midx < MT i := by rw [c.midx_eq]; exact machineOf_lt h c.sub_lt
  have hkS : s.jloc a < i.S := by rw [hloc]; exact stageOf_lt c.sub_lt
  have hun : s.sched s.midx a = UNSET := by
    apply Classical.byContradiction; intro hne
    have := (c.set_stage s.midx a ha hne).2
    omega
  have hdur : jobDur i a s.midx = i.dur a s.midx := by simp [jobDur, ha]
  have hU := unset_neg
  -- characterisation of the entries of the new schedule
  have hset : ∀ m j, (apply i s a).sched m j ≠ UNSET →
      (m = s.midx ∧ j = a ∧ (apply i s a).sched m j = (s.time : Int)) ∨
      (¬ (m = s.midx ∧ j = a) ∧ (apply i s a).sched m j = s.sched m j ∧ s.sched m j ≠ UNSET) := by
    intro m j hs
    rw [apply_sched] at hs ⊢
    by_cases hc : m = s.midx ∧ j = a
    · left; exact ⟨hc.1, hc.2, by simp [hc]⟩
    · right
      rw [if_neg hc] at hs ⊢
      exact ⟨hc, rfl, hs⟩
  have hjl : ∀ j, s.jloc j ≤ (apply i s a).jloc j := by
    intro j; rw [e4, upd_apply]; split
    · rename_i hh; subst hh; omega
    · exact Nat.le_refl _
  have hjw' : ∀ j, j ≠ a → (apply i s a).jwait j = s.jwait j := by
    intro j hj; rw [e6, upd_other _ _ _ _ hj]
  have hjwa : (apply i s a).jwait a = i.dur a s.midx := by rw [e6, upd_same, hdur]
  have hmwa : (apply i s a).mwait s.midx = i.dur a s.midx := by rw [e5, upd_same, hdur]
  have hmw' : ∀ m, m ≠ s.midx → (apply i s a).mwait m = s.mwait m := by
    intro m hm; rw [e5, upd_other _ _ _ _ hm]
  exact {
    sub_lt := by rw [e2]; exact c.sub_lt
    midx_eq := by rw [e3, e2]; exact c.midx_eq
    loc_le := by
      intro j hj; rw [e4, upd_apply]; split
      · omega
      · exact c.loc_le j hj
    done_eq := by rw [e7, e4]
    set_stage := by
      intro m j hj hs
      rcases hset m j hs with ⟨rfl, rfl, _⟩ | ⟨_, _, hs'⟩
      · refine ⟨hmid, ?_⟩; rw [e4, upd_same]; omega
      · have h1 := c.set_stage m j hj hs'
        have h2 := hjl j
        exact ⟨h1.1, by omega⟩
    stage_has := by
      intro j k hj hk'
      by_cases hja : j = a
      · subst hja
        rw [e4, upd_same] at hk'
        by_cases hkk : k = s.jloc j
        · refine ⟨s.midx, by omega, ?_⟩
          rw [apply_sched]; simp; omega
        · obtain ⟨m, hm1, hm2⟩ := c.stage_has j k hj (by omega)
          refine ⟨m, hm1, ?_⟩
          rw [apply_sched]
          have hne : m ≠ s.midx := by
            intro hh; rw [hh] at hm1; omega
          simpa [hne] using hm2
      · rw [e4, upd_other _ _ _ _ hja] at hk'
        obtain ⟨m, hm1, hm2⟩ := c.stage_has j k hj hk'
        refine ⟨m, hm1, ?_⟩
        rw [apply_sched]
        have : ¬ (m = s.midx ∧ j = a) := fun hh => hja hh.2
        simpa [this] using hm2
    stage_uniq := by
      intro j m m' hj hs hs' hmm
      rcases hset m j hs with ⟨rfl, rfl, _⟩ | ⟨hn, _, hs1⟩
      · rcases hset m' j hs' with ⟨rfl, _, _⟩ | ⟨_, _, hs2⟩
        · rfl
        · have := (c.set_stage m' j hj hs2).2; omega
      · rcases hset m' j hs' with ⟨rfl, rfl, _⟩ | ⟨_, _, hs2⟩
        · have := (c.set_stage m j hj hs1).2; omega
        · exact c.stage_uniq j m m' hj hs1 hs2 hmm
    start_rng := by
      intro m j hj hs
      rw [e1]
      rcases hset m j hs with ⟨_, _, he⟩ | ⟨_, he, hs'⟩
      · rw [he]; omega
      · rw [he]; exact c.start_rng m j hj hs'
    job_busy := by
      intro m j hj hs
      rw [e1]
      rcases hset m j hs with ⟨hm1, hj1, he⟩ | ⟨hn, he, hs'⟩
      · rw [he, hj1, hm1, hjwa]; omega
      · rw [he]
        have := c.job_busy m j hj hs'
        by_cases hja : j = a
        · rw [hja] at this ⊢; rw [hjwa]; rw [hjw] at this; omega
        · rw [hjw' j hja]; exact this
    mach_busy := by
      intro _ m j hj hs
      rw [e1]
      rcases hset m j hs with ⟨hm1, hj1, he⟩ | ⟨hn, he, hs'⟩
      · rw [he, hj1, hm1, hmwa]; omega
      · rw [he]
        have := c.mach_busy hd m j hj hs'
        by_cases hmm : m = s.midx
        · rw [hmm] at this ⊢; rw [hmwa]; rw [hmw] at this; omega
        · rw [hmw' m hmm]; exact this
    order := by
      intro j m m' hj hs hs' hlt
      rcases hset m j hs with ⟨hm1, hj1, he⟩ | ⟨hn, he, hs1⟩
      · have h1 : m / i.M = s.jloc j := by rw [hm1, hj1]; exact hk
        rcases hset m' j hs' with ⟨hm2, _, _⟩ | ⟨_, _, hs2⟩
        · rw [hm1, hm2] at hlt; omega
        · have := (c.set_stage m' j hj hs2).2
          exfalso; omega
      · rcases hset m' j hs' with ⟨hm2, hj2, he'⟩ | ⟨_, he', hs2⟩
        · rw [he, he']
          have := c.job_busy m j hj hs1
          have hz : s.jwait j = 0 := by rw [hj2]; exact hjw
          rw [hz] at this; omega
        · rw [he, he']; exact c.order j m m' hj hs1 hs2 hlt
    disjoint := by
      intro m j j' hj hj' hne hs hs'
      rcases hset m j hs with ⟨hm1, hj1, he⟩ | ⟨hn, he, hs1⟩
      · rcases hset m j' hs' with ⟨_, hj2, _⟩ | ⟨_, he', hs2⟩
        · exact absurd (hj1.trans hj2.symm) hne
        · right; rw [he, he']
          have := c.mach_busy hd m j' hj' hs2
          have hz : s.mwait m = 0 := by rw [hm1]; exact hmw
          rw [hz] at this; omega
      · rcases hset m j' hs' with ⟨hm2, hj2, he'⟩ | ⟨_, he', hs2⟩
        · left; rw [he, he']
          have := c.mach_busy hd m j hj hs1
          have hz : s.mwait m = 0 := by rw [hm2]; exact hmw
          rw [hz] at this; omega
        · rw [he, he']; exact c.disjoint m j j' hj hj' hne hs1 hs2 }

/-- the wait action `J`: only the dummy job's column / counters change; on an unfinished row the
current machine is idle, on a finished row the machine counters no longer matter -/
theorem core_apply_wait (i : Inst) (s : State) (c : Core i s)
    (hmw : s.done = false → s.mwait s.midx = 0) : Core i (apply i s i.J) := by
  obtain ⟨e1, e2, e3, e4, e5, e6, e7, _⟩ := apply_fields i s i.J
  have hsch : ∀ m j, j < i.J → (apply i s i.J).sched m j = s.sched m j := by
    intro m j hj; rw [apply_sched]
    have : ¬ (m = s.midx ∧ j = i.J) := fun hh => by omega
    simp [this]
  have hjl : ∀ j, j < i.J → (apply i s i.J).jloc j = s.jloc j := by
    intro j hj; rw [e4, upd_other _ _ _ _ (by omega)]
  have hjw : ∀ j, j < i.J → (apply i s i.J).jwait j = s.jwait j := by
    intro j hj; rw [e6, upd_other _ _ _ _ (by omega)]
  have hdn : (apply i s i.J).done = s.done := by
    rw [e7, c.done_eq]; exact allAtEnd_congr i (fun j hj => by rw [upd_other _ _ _ _ (by omega)])
  have hd0 : jobDur i i.J s.midx = 0 := by simp [jobDur]
  exact {
    sub_lt := by rw [e2]; exact c.sub_lt
    midx_eq := by rw [e3, e2]; exact c.midx_eq
    loc_le := by intro j hj; rw [hjl j hj]; exact c.loc_le j hj
    done_eq := by rw [e7, e4]
    set_stage := by intro m j hj hs; rw [hsch m j hj] at hs; rw [hjl j hj]; exact c.set_stage m j hj hs
    stage_has := by
      intro j k hj hk; rw [hjl j hj] at hk
      obtain ⟨m, h1, h2⟩ := c.stage_has j k hj hk
      exact ⟨m, h1, by rw [hsch m j hj]; exact h2⟩
    stage_uniq := by
      intro j m m' hj hs hs' hmm; rw [hsch _ j hj] at hs hs'; exact c.stage_uniq j m m' hj hs hs' hmm
    start_rng := by intro m j hj hs; rw [hsch m j hj] at hs ⊢; rw [e1]; exact c.start_rng m j hj hs
    job_busy := by
      intro m j hj hs; rw [hsch m j hj] at hs ⊢; rw [e1, hjw j hj]; exact c.job_busy m j hj hs
    mach_busy := by
      intro hd m j hj hs
      rw [hdn] at hd
      rw [hsch m j hj] at hs ⊢; rw [e1, e5]
      have := c.mach_busy hd m j hj hs
      by_cases hm : m = s.midx
      · subst hm; rw [upd_same, hd0]; rw [hmw hd] at this; exact this
      · rw [upd_other _ _ _ _ hm]; exact this
    order := by
      intro j m m' hj hs hs' hlt; rw [hsch _ j hj] at hs hs' ⊢; rw [hsch _ j hj]; exact c.order j m m' hj hs hs' hlt
    disjoint := by
      intro m j j' hj hj' hne hs hs'
      rw [hsch m j hj] at hs ⊢; rw [hsch m j' hj'] at hs' ⊢
      exact c.disjoint m j j' hj hj' hne hs hs' }


/-! ### From the invariant to the specification -/
section
open Rl4co.Spec.Ffsp

theorem mem_ofMatrix (i : Inst) (sched : Nat → Nat → Int) (o : Op) :
    o ∈ ofMatrix i sched ↔
      o.machine < MT i ∧ o.job < i.J ∧ sched o.machine o.job ≠ UNSET ∧ o.start = sched o.machine o.job := by
  simp only [ofMatrix, List.mem_flatMap, List.mem_map, List.mem_filter, List.mem_range, bne_iff_ne, ne_eq]
  constructor
  · rintro ⟨m, hm, j, ⟨hj, hs⟩, rfl⟩
    exact ⟨hm, hj, hs, rfl⟩
  · rintro ⟨hm, hj, hs, he⟩
    refine ⟨o.machine, hm, o.job, ⟨hj, hs⟩, ?_⟩
    cases o; simp_all

theorem cnt_eq_one {n : Nat} {p : Nat → Bool} {a : Nat} (ha : a < n) (hp : p a = true)
    (hu : ∀ b, b < n → p b = true → b = a) : cnt n p = 1 := by
  induction n with
  | zero => omega
  | succ n ih =>
    rw [cnt_succ]
    by_cases han : a = n
    · subst han
      have h0 : cnt a p = 0 := cnt_eq_zero.mpr (fun j hj => by
        cases hpj : p j with
        | false => rfl
        | true => have := hu j (by omega) hpj; omega)
      simp [h0, hp]
    · have h1 := ih (by omega) (fun b hb hpb => hu b (by omega) hpb)
      have hn : p n = false := by
        cases hpn : p n with
        | false => rfl
        | true => have := hu n (by omega) hpn; omega
      simp [h1, hn]

/-- `cnt` of a predicate that pins its argument to `a` -/
theorem cnt_pin (n a : Nat) (q : Bool) : cnt n (fun x => x == a && q) = if a < n ∧ q = true then 1 else 0 := by
  induction n with
  | zero => simp [cnt]
  | succ n ih =>
    rw [cnt_succ, ih]
    by_cases hq : q = true
    · by_cases h1 : a < n
      · have : ¬ n = a := by omega
        simp [h1, hq, this]; omega
      · by_cases h2 : a = n
        · subst h2; simp [hq]
        · have : ¬ n = a := fun h => h2 h.symm
          have h3 : ¬ a < n + 1 := by omega
          simp [h1, this, h3]
    · simp [hq]

/-- number of operations of job `j` in stage `k` read off the matrix, as a count over machines -/
theorem opsAt_ofMatrix (i : Inst) (sched : Nat → Nat → Int) (j k : Nat) (hj : j < i.J) :
    opsAt i (ofMatrix i sched) j k = cnt (MT i) (fun m => m / i.M == k && sched m j != UNSET) := by
  unfold opsAt ofMatrix
  generalize MT i = n
  induction n with
  | zero => simp [cnt]
  | succ n ih =>
    rw [List.range_succ, List.flatMap_append, List.filter_append, List.length_append, ih, cnt_succ]
    congr 1
    simp only [List.flatMap_cons, List.flatMap_nil, List.append_nil, List.filter_map, List.length_map,
      List.filter_filter]
    have : (List.filter (fun a => ((fun o : Op => o.job == j && Op.stage i o == k) ∘ fun j => ⟨j, n, sched n j⟩) a &&
        (sched n a != UNSET)) (List.range i.J)).length =
        cnt i.J (fun x => x == j && (n / i.M == k && sched n j != UNSET)) := by
      unfold cnt
      congr 1
      apply List.filter_congr
      intro x _
      simp only [Function.comp, Op.stage]
      by_cases hx : x = j
      · subst hx; simp [Bool.and_comm]
      · have hb : (x == j) = false := by simpa using hx
        rw [hb]; simp
    rw [this, cnt_pin]
    simp [hj]


theorem jloc_of_done {i : Inst} {s : State} (c : Core i s) (hd : s.done = true) :
    ∀ j, j < i.J → s.jloc j = i.S := by
  rw [c.done_eq] at hd
  exact (allAtEnd_true i s.jloc).mp hd

/-- A finished state satisfying the invariant carries a valid schedule. -/
theorem core_valid (i : Inst) (s : State) (c : Core i s) (hd : s.done = true) :
    Valid i (ofMatrix i s.sched) where
  range := by
    intro o ho
    obtain ⟨h1, h2, h3, h4⟩ := (mem_ofMatrix i s.sched o).mp ho
    exact ⟨h2, h1, by rw [h4]; exact (c.start_rng _ _ h2 h3).1⟩
  once := by
    intro j hj k hk
    rw [opsAt_ofMatrix i s.sched j k hj]
    obtain ⟨m, hm1, hm2⟩ := c.stage_has j k hj (by rw [jloc_of_done c hd j hj]; exact hk)
    apply cnt_eq_one (a := m) (c.set_stage m j hj hm2).1
    · simp [hm1, hm2]
    · intro b _ hb
      simp only [Bool.and_eq_true, beq_iff_eq, bne_iff_ne, ne_eq] at hb
      exact c.stage_uniq j b m hj hb.2 hm2 (by rw [hb.1, hm1])
  order := by
    intro o ho o' ho' hjj hst
    obtain ⟨_, h2, h3, h4⟩ := (mem_ofMatrix i s.sched o).mp ho
    obtain ⟨_, _, h3', h4'⟩ := (mem_ofMatrix i s.sched o').mp ho'
    simp only [Op.fin, h4, h4']
    rw [← hjj] at h3' ⊢
    exact c.order o.job o.machine o'.machine h2 h3 h3' hst
  machine := by
    intro o ho o' ho' hne hmm
    obtain ⟨_, h2, h3, h4⟩ := (mem_ofMatrix i s.sched o).mp ho
    obtain ⟨_, h2', h3', h4'⟩ := (mem_ofMatrix i s.sched o').mp ho'
    have hj : o.job ≠ o'.job := by
      intro hjj
      apply hne
      cases o; cases o'; simp_all
    simp only [Op.fin, h4, h4']
    rw [← hmm] at h3' ⊢
    exact c.disjoint o.machine o.job o'.job h2 h2' hj h3 h3'


theorem maxI_mem : ∀ {l : List Int}, l ≠ [] → maxI l ∈ l
  | [], h => absurd rfl h
  | [x], _ => by simp [maxI]
  | x :: y :: xs, _ => by
    have ih := maxI_mem (l := y :: xs) (by simp)
    simp only [maxI]
    by_cases hle : x ≤ maxI (y :: xs)
    · rw [Int.max_eq_right hle]; exact List.mem_cons_of_mem _ ih
    · rw [Int.max_eq_left (by omega)]; exact List.mem_cons_self

theorem le_maxI : ∀ {l : List Int} {x : Int}, x ∈ l → x ≤ maxI l
  | [], _, h => by cases h
  | [y], x, h => by simp at h; subst h; simp [maxI]
  | y :: z :: zs, x, h => by
    simp only [maxI]
    rcases List.mem_cons.mp h with h | h
    · subst h; exact Int.le_max_left _ _
    · exact Int.le_trans (le_maxI h) (Int.le_max_right _ _)

/-- entry of `end_schedule` -/
def endAt (i : Inst) (s : State) (m j : Nat) : Int := s.sched m j + (i.dur j m : Int)

theorem endMax_eq (i : Inst) (s : State) : endMax i s =
    maxI ((List.range (MT i)).map (fun m =>
      maxI ((List.range i.J).map (fun j => s.sched m j + (i.dur j m : Int))))) := by
  unfold endMax
  rw [rewardCols_eq]
  congr 1
  apply List.map_congr_left
  intro m _
  congr 1
  apply List.map_congr_left
  intro j hj
  simp [jobDur, List.mem_range.mp hj]

theorem endAt_le_endMax (i : Inst) (s : State) {m j : Nat} (hm : m < MT i) (hj : j < i.J) :
    endAt i s m j ≤ endMax i s := by
  rw [endMax_eq]
  have h1 : endAt i s m j ≤ maxI ((List.range i.J).map (fun j => s.sched m j + (i.dur j m : Int))) :=
    le_maxI (List.mem_map.mpr ⟨j, List.mem_range.mpr hj, rfl⟩)
  exact Int.le_trans h1 (le_maxI (List.mem_map.mpr ⟨m, List.mem_range.mpr hm, rfl⟩))

theorem endMax_attained (i : Inst) (s : State) (hM : 0 < MT i) (hJ : 0 < i.J) :
    ∃ m j, m < MT i ∧ j < i.J ∧ endMax i s = endAt i s m j := by
  rw [endMax_eq]
  have hne : (List.range (MT i)).map (fun m =>
      maxI ((List.range i.J).map (fun j => s.sched m j + (i.dur j m : Int)))) ≠ [] := by
    intro h; have := congrArg List.length h; simp at this; omega
  obtain ⟨m, hm, he⟩ := List.mem_map.mp (maxI_mem hne)
  have hne2 : (List.range i.J).map (fun j => s.sched m j + (i.dur j m : Int)) ≠ [] := by
    intro h; have := congrArg List.length h; simp at this; omega
  obtain ⟨j, hj, he2⟩ := List.mem_map.mp (maxI_mem hne2)
  exact ⟨m, j, List.mem_range.mp hm, List.mem_range.mp hj, by rw [← he, ← he2]; rfl⟩

/-- On a finished state satisfying the invariant, `end_schedule.max()` is the makespan of the schedule. -/
theorem core_makespan (i : Inst) (h : WF i) (s : State) (c : Core i s) (hd : s.done = true) :
    IsMakespan i (ofMatrix i s.sched) (endMax i s) := by
  constructor
  · obtain ⟨m, j, hm, hj, he⟩ := endMax_attained i s (MT_pos h) h.J_pos
    by_cases hs : s.sched m j = UNSET
    · exfalso
      -- job 0 was processed in stage 0: that entry is ≥ 0, while an unset entry is negative
      obtain ⟨m0, _, hm02⟩ := c.stage_has 0 0 h.J_pos (by rw [jloc_of_done c hd 0 h.J_pos]; exact h.S_pos)
      have h1 := endAt_le_endMax i s (c.set_stage m0 0 h.J_pos hm02).1 h.J_pos
      have h2 := (c.start_rng m0 0 h.J_pos hm02).1
      have h3 := h.dur_lt j m hj hm
      simp only [endAt] at h1 he
      rw [hs] at he
      omega
    · exact ⟨⟨j, m, s.sched m j⟩, (mem_ofMatrix i s.sched _).mpr ⟨hm, hj, hs, rfl⟩, he.symm⟩
  · intro o ho
    obtain ⟨h1, h2, _, h4⟩ := (mem_ofMatrix i s.sched o).mp ho
    have := endAt_le_endMax i s h1 h2
    simpa [Op.fin, endAt, h4] using this

end


/-! ### States of a row while the batch is running -/

/-- the stored mask is the one `_update_step_state` computes from the current state -/
def Fresh (i : Inst) (s : State) : Prop := ∀ a, s.mask a = (updateMask i s).mask a

/-- invariant of the states a row is in while at least one row of its batch is unfinished -/
structure Live (i : Inst) (s : State) : Prop where
  core : Core i s
  fresh : Fresh i s
  rdy : s.done = false → ready i s = true

theorem not_allAtEnd {i : Inst} {f : Nat → Nat} (h : allAtEnd i f = false) : ∃ j, j < i.J ∧ f j ≠ i.S := by
  apply Classical.byContradiction
  intro hn
  have : allAtEnd i f = true := (allAtEnd_true i f).mpr (fun j hj => by
    apply Classical.byContradiction; intro hne; exact hn ⟨j, hj, hne⟩)
  rw [this] at h; cases h

theorem mask_job (i : Inst) (s : State) (f : Fresh i s) {a : Nat} (ha : a < i.J) :
    s.mask a = (s.jloc a == stageOf i s.sub && s.jwait a == 0) := by
  rw [f a]; simp [updateMask, ha]

theorem mask_wait (i : Inst) (s : State) (f : Fresh i s) (hd : s.done = true) : s.mask i.J = true := by
  rw [f i.J]; simp [updateMask, hd]

theorem mask_out (i : Inst) (s : State) (f : Fresh i s) {a : Nat} (ha : i.J < a) : s.mask a = false := by
  rw [f a]
  have h1 : ¬ a < i.J := by omega
  have h2 : ¬ a = i.J := by omega
  simp [updateMask, h1, h2]

/-- a finished row is offered exactly the wait action -/
theorem mask_of_done (i : Inst) (s : State) (l : Live i s) (hd : s.done = true) (a : Nat) :
    s.mask a = decide (a = i.J) := by
  rcases Nat.lt_trichotomy a i.J with h | h | h
  · rw [mask_job i s l.fresh h]
    have h1 := jloc_of_done l.core hd a h
    have h2 := stageOf_lt l.core.sub_lt
    have : ¬ a = i.J := by omega
    have h3 : ¬ s.jloc a = stageOf i s.sub := by omega
    simp [this, h3]
  · subst h; simp [mask_wait i s l.fresh hd]
  · rw [mask_out i s l.fresh h]; have : ¬ a = i.J := by omega
    simp [this]

theorem live_reset (i : Inst) (h : WF i) : Live i (reset i) where
  core := core_reset i h
  fresh := by
    intro a
    simp only [reset, updateMask, stageOf, Nat.zero_div, Params.ffspInitWaitMasked]
    by_cases ha : a < i.J
    · simp [ha]
    · by_cases ha2 : a = i.J
      · subst ha2; simp
      · simp [ha, ha2]
  rdy := by
    intro _
    simp only [ready, Bool.and_eq_true, beq_iff_eq, List.any_eq_true, List.mem_range]
    exact ⟨rfl, 0, h.J_pos, by simp [jobReady, reset, stageOf]⟩

theorem moveNext_done (i : Inst) (h : WF i) (s : State) (c : Core i s) : (moveNext i s).done = s.done := by
  unfold moveNext
  split
  · rfl
  · obtain ⟨n, _, _, he⟩ := moveLoop_is_iter i (moveFuel i s) s
    obtain ⟨_, _, _, _, _, _, _, h7, _, _⟩ := iter_closed i (MT_pos h) s c.sub_lt n
    rw [he, h7]

theorem ready_updateMask (i : Inst) (s : State) : ready i (updateMask i s) = ready i s := rfl

/-- the states `apply` produces from a live state under an admitted action satisfy `Core` -/
theorem core_apply (i : Inst) (h : WF i) (s : State) (l : Live i s) (a : Nat) (ha : a < i.J + 1)
    (hm : s.mask a = true) : Core i (apply i s a) := by
  by_cases haJ : a < i.J
  · have hmk := mask_job i s l.fresh haJ
    rw [hm] at hmk
    simp only [Bool.true_eq, Bool.and_eq_true, beq_iff_eq] at hmk
    have hd : s.done = false := by
      cases hdd : s.done with
      | false => rfl
      | true =>
        have := mask_of_done i s l hdd a
        rw [hm] at this
        have : a = i.J := by simpa using this.symm
        omega
    have hr := l.rdy hd
    simp only [ready, Bool.and_eq_true, beq_iff_eq] at hr
    exact core_apply_job i h s l.core a haJ hd hmk.1 hmk.2 hr.1
  · have : a = i.J := by omega
    subst this
    apply core_apply_wait i s l.core
    intro hd
    have hr := l.rdy hd
    simp only [ready, Bool.and_eq_true, beq_iff_eq] at hr
    exact hr.1

/-- **step of a row while a batch-mate is still running** preserves the invariant -/
theorem live_stepM (i : Inst) (h : WF i) (s : State) (l : Live i s) (a : Nat) (ha : a < i.J + 1)
    (hm : s.mask a = true) : Live i (stepM i s a) := by
  have c1 := core_apply i h s l a ha hm
  have hstep : stepM i s a = updateMask i (moveNext i (apply i s a)) := by simp [stepM, stepG, finish]
  rw [hstep]
  refine ⟨core_updateMask i _ (core_moveNext i h _ c1), fun _ => rfl, ?_⟩
  intro hd
  have hd1 : (apply i s a).done = false := by
    rw [← moveNext_done i h _ c1]; exact hd
  rw [ready_updateMask]
  unfold moveNext
  simp only [hd1, Bool.false_eq_true, if_false]
  apply moveLoop_fuel_enough i h _ c1.sub_lt
  rw [c1.done_eq] at hd1
  obtain ⟨j, hj, hne⟩ := not_allAtEnd hd1
  have := c1.loc_le j hj
  exact ⟨j, hj, by omega⟩

/-- every state reachable by a row whose batch keeps running satisfies the invariant -/
theorem live_of_reach (i : Inst) (h : WF i) {s : State} (hr : Reach envM i s) : Live i s :=
  inv_of_reach (e := envM) (Inv := Live i) (live_reset i h)
    (fun s a hl ha hm => live_stepM i h s hl a ha hm) hr

/-- the last step of the batch (`done.all()` true) keeps the schedule invariant -/
theorem core_stepG (i : Inst) (h : WF i) (s : State) (l : Live i s) (a : Nat) (ha : a < i.J + 1)
    (hm : s.mask a = true) (g : Bool) : Core i (stepG i s a g) :=
  core_finish i h _ (core_apply i h s l a ha hm) g

/-- solo episodes: while the instance is unfinished its state is a live state; in any case the
schedule invariant holds -/
theorem solo_inv (i : Inst) (h : WF i) : ∀ {as : List Nat} {s s' : State}, Live i s →
    RunND env i s as s' → Core i s' ∧ (s'.done = false → Live i s') := by
  intro as
  induction as with
  | nil => intro s s' l hr; cases hr; exact ⟨l.core, fun _ => l⟩
  | cons a as ih =>
    intro s s' l hr
    cases hr with
    | cons hd ha hm hrest =>
      simp only [env] at hd ha hm hrest
      cases hg : (apply i s a).done with
      | false =>
        have he : step i s a = stepM i s a := by simp [step, stepM, hg]
        rw [he] at hrest
        exact ih (live_stepM i h s l a ha hm) hrest
      | true =>
        have he : step i s a = stepG i s a true := by simp [step, hg]
        rw [he] at hrest
        have hdone : (stepG i s a true).done = true := by simp [stepG, finish, hg]
        cases hrest with
        | nil =>
          exact ⟨core_stepG i h s l a ha hm true, fun hf => by rw [hdone] at hf; cases hf⟩
        | cons hd' _ _ _ =>
          have hd'' : (stepG i s a true).done = false := hd'
          rw [hdone] at hd''; cases hd''

theorem iter_jloc (i : Inst) (n : Nat) (s : State) : (iter i n s).jloc = s.jloc := by
  induction n with
  | zero => rfl
  | succ n ih => exact ih

/-- solo episodes: invariant, liveness while unfinished, and the reward once finished -/
theorem solo_inv' (i : Inst) (h : WF i) : ∀ {as : List Nat} {s s' : State}, Live i s → s.done = false →
    RunND env i s as s' →
    Core i s' ∧ (s'.done = false → Live i s') ∧ (s'.done = true → s'.reward = some (rewardVal i s')) := by
  intro as
  induction as with
  | nil =>
    intro s s' l hd hr; cases hr
    exact ⟨l.core, fun _ => l, fun hf => by rw [hd] at hf; cases hf⟩
  | cons a as ih =>
    intro s s' l _ hr
    cases hr with
    | cons hd ha hm hrest =>
      have ha' : a < i.J + 1 := ha
      have hm' : s.mask a = true := hm
      cases hg : (apply i s a).done with
      | false =>
        have he : step i s a = stepM i s a := by simp [step, stepM, hg]
        have hrest' : RunND env i (stepM i s a) as s' := by rw [← he]; exact hrest
        have hd1 : (stepM i s a).done = false := by
          have c1 := core_apply i h s l a ha' hm'
          have : (stepM i s a).done = (moveNext i (apply i s a)).done := rfl
          rw [this, moveNext_done i h _ c1, hg]
        exact ih (live_stepM i h s l a ha' hm') hd1 hrest'
      | true =>
        have he : step i s a = stepG i s a true := by simp [step, hg]
        have hrest' : RunND env i (stepG i s a true) as s' := by rw [← he]; exact hrest
        have hdone : (stepG i s a true).done = true := by simp [stepG, finish, hg]
        cases hrest' with
        | nil =>
          refine ⟨core_stepG i h s l a ha' hm' true, ?_, ?_⟩
          · intro hf; rw [hdone] at hf; cases hf
          · intro _; simp [stepG, finish, rewardVal, endMax]
        | cons hd' _ _ _ =>
          have hd'' : (stepG i s a true).done = false := hd'
          rw [hdone] at hd''; cases hd''

end Rl4co.Ffsp
