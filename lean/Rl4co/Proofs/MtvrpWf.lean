/-
Well-formed MTVRP instances (`Rl4co.Mtvrp.wf`, executable) unpacked into usable facts, and the key
progress lemma: on a well-formed instance a fresh vehicle at the depot is offered every unvisited
customer.  No Mathlib.
-/
import Rl4co.Proofs.MtvrpRun

namespace Rl4co.Mtvrp

/-! ### unpacking the executable well-formedness predicate -/

theorem wf_cap {i : Inst} (h : wf i = true) : 0 ≤ i.cap := by
  simp only [wf, Bool.and_eq_true, decide_eq_true_eq] at h; exact h.1.1

theorem wf_depot {i : Inst} (h : wf i = true) : i.dL 0 = 0 ∧ i.dB 0 = 0 := by
  simp only [wf, demandsOk, Bool.and_eq_true, decide_eq_true_eq] at h; exact ⟨h.1.2.1.1, h.1.2.1.2⟩

theorem wf_dem {i : Inst} (h : wf i = true) (k : Nat) (hk : k < i.n + 1) :
    0 ≤ i.dL k ∧ 0 ≤ i.dB k ∧ (i.dL k = 0 ∨ i.dB k = 0) := by
  simp only [wf, demandsOk, Bool.and_eq_true, decide_eq_true_eq, List.all_eq_true, List.mem_range,
    Bool.or_eq_true] at h
  have := h.1.2.2 k hk
  exact ⟨this.1.1, this.1.2, this.2⟩

theorem wf_servable {i : Inst} (h : wf i = true) (j : Nat) (h1 : 1 ≤ j) (h2 : j ≤ i.n) : servable i j = true := by
  simp only [wf, Bool.and_eq_true, List.all_eq_true, List.mem_range] at h
  have := h.2 (j - 1) (by omega)
  rwa [Nat.sub_add_cancel h1] at this

theorem excl_of_wf {i : Inst} (h : wf i = true) : Excl i := by
  intro j _ h2 hcon
  have := (wf_dem h j (by omega)).2.2
  omega

theorem sum_map_pos {f : Nat → Int} : ∀ {l : List Nat}, (∀ k ∈ l, 0 ≤ f k) → ∀ {j}, j ∈ l → 0 < f j →
    0 < (l.map f).sum
  | [], _, _, hj, _ => by simp at hj
  | x :: l, hnn, j, hj, hp => by
    simp only [List.map_cons, List.sum_cons]
    have hx := hnn x (by simp)
    have hl : 0 ≤ (l.map f).sum := by
      clear hj
      induction l with
      | nil => simp
      | cons y l ih =>
        simp only [List.map_cons, List.sum_cons]
        have := hnn y (by simp)
        have := ih (fun k hk => hnn k (by
          rcases List.mem_cons.mp hk with h | h
          · subst h; simp
          · simp [h]))
        omega
    rcases List.mem_cons.mp hj with h | h
    · subst h; omega
    · have := sum_map_pos (fun k hk => hnn k (List.mem_cons_of_mem _ hk)) h hp
      omega

/-- a fresh vehicle at the depot: nothing accumulated -/
def Fresh (s : State) : Prop := s.cur = 0 → s.len = 0 ∧ s.time = 0 ∧ s.usedL = 0 ∧ s.usedB = 0

theorem fresh_reset (i : Inst) : Fresh (reset i) := fun _ => ⟨rfl, rfl, rfl, rfl⟩

theorem fresh_step (i : Inst) (s : State) (a : Nat) : Fresh (step i s a) := by
  intro h
  have h0 : a = 0 := h
  subst h0
  simp [step_def]

/-- On a well-formed instance every unvisited customer is offered to a fresh vehicle at the depot. -/
theorem canVisit_of_fresh {i : Inst} (hwf : wf i = true) {s : State} (hf : Fresh s) (hc : s.cur = 0)
    {j : Nat} (h1 : 1 ≤ j) (h2 : j ≤ i.n) (hv : s.vis j = false) : canVisit i s j = true := by
  obtain ⟨hl, ht, hL, hB⟩ := hf hc
  have hs := wf_servable hwf j h1 h2
  simp only [servable, Bool.and_eq_true, Bool.or_eq_true, decide_eq_true_eq] at hs
  obtain ⟨⟨⟨s1, s2⟩, s3⟩, s4⟩ := hs
  have hd0 := (wf_depot hwf).2
  simp only [canVisit, meetsDemand, arrival, retTime, lenVia, hc, hl, ht, hL, hB, hv, Params.mtvrpMaskTwCmp,
    Params.mtvrpMaskDepotCmp, Params.mtvrpMaskLimitCmp, Params.mtvrpMaskCapLCmp, Params.mtvrpMaskCapBCmp,
    Int.zero_add, Int.add_zero, cmpInf_not_gt, s1, s2, s4, hd0, Bool.and_true, Bool.true_and, Bool.not_false,
    Bool.or_eq_true, Bool.and_eq_true, Bool.not_eq_true', Cmp.eval, decide_eq_false_iff_not, decide_eq_true_eq,
    Int.lt_irrefl, not_false_eq_true, and_true]
  rcases s3 with ⟨p, q⟩ | ⟨p, q⟩
  · left
    refine ⟨⟨?_, by omega⟩, p⟩
    simp only [lhMissing, decide_eq_true_eq]
    apply sum_map_pos (f := fun k => if s.vis k = true then 0 else i.dL k) (j := j)
    · intro k hk
      have := (wf_dem hwf k (List.mem_range.mp hk)).1
      split <;> omega
    · exact List.mem_range.mpr (by omega)
    · simp [hv, p]
  · right; exact ⟨by omega, p⟩


end Rl4co.Mtvrp
