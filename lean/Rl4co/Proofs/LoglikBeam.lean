/-
Helper lemmas for C13 (beam search): `_backtrack` as a recursion over parents, the per-row invariant of
reachable beam-search states (`BeamReach`, `BeamInv`), index arithmetic of `_make_beam_step`, a list
pigeonhole.  No Mathlib.
-/
import Rl4co.Decode.Beam
import Rl4co.Proofs.Loglik

namespace Rl4co.Decode
open Rl4co.Spec.Loglik

variable {S : Type}

/-! ### extracted parameters (`Generated/Params.lean`): the closed forms the proofs below use; each lemma is
proved by evaluating the token extracted from `BeamSearch` and stops compiling when that token changes -/

/-- `selected = topk_ind % num_nodes` -/
theorem selectedOf_eq (c : BeamCfg) (top : Nat → List Nat) (i : Nat) :
    selectedOf c top i = topInd c top i % c.N := by
  simp [selectedOf, Params.beamSelectedIsMod]

/-- `beam_parent = (topk_ind // num_nodes).int()` -/
theorem parentOf_eq (c : BeamCfg) (top : Nat → List Nat) (i : Nat) :
    parentOf c top i = topInd c top i / c.N := by
  simp [parentOf, Params.beamParentIsFloorDiv]

/-- `batch_beam_idx = batch_beam_sequence + beam_parent * batch_size` -/
theorem bbiOf_eq (c : BeamCfg) (top : Nat → List Nat) (i : Nat) :
    bbiOf c top i = i % c.B + parentOf c top i * c.B := by
  simp [bbiOf, Params.beamBbiSeqPlusParentTimesB]

/-- `torch.topk(log_beam_prob_hstacked, self.beam_width, dim=1)`: the `beam_width` largest -/
theorem topkLe_eq (q p : LP) : topkLe q p = lpLe q p := by
  simp [topkLe, Params.beamTopkLargest, Params.beamTopkKIsWidth]

theorem validTop_closed {c : BeamCfg} {val : Nat → LP} {l : List Nat} (h : ValidTop c val l) :
    l.length = c.W ∧ l.Nodup ∧ (∀ p ∈ l, p < c.W * c.N) ∧
      ∀ q, q < c.W * c.N → q ∉ l → ∀ p ∈ l, lpLe (val q) (val p) = true := by
  obtain ⟨h1, h2, h3, h4⟩ := h
  refine ⟨h1, h2, h3, fun q hq hn p hp => ?_⟩
  have := h4 q hq hn p hp
  rwa [topkLe_eq] at this

/-- `_backtrack`: `batch_beam_idx = batch_beam_sequence + cur_parent * batch_size` -/
theorem btFromActs_cons (B b : Nat) (buf : BeamBuf) (rest : List BeamBuf) (cur : Nat) :
    btFromActs B b (buf :: rest) cur
      = btFromActs B b rest (buf.parent (b + cur * B)) ++ [buf.acts (b + cur * B)] := by
  simp [btFromActs, Params.beamBacktrackSeqPlusParentTimesB]

theorem btFromRows_cons (B b : Nat) (buf : BeamBuf) (rest : List BeamBuf) (cur : Nat) :
    btFromRows B b (buf :: rest) cur
      = btFromRows B b rest (buf.parent (b + cur * B)) ++ [buf.rows (b + cur * B)] := by
  simp [btFromRows, Params.beamBacktrackSeqPlusParentTimesB]

/-- `BeamSearch.pre_decoder_hook`: `logprobs = torch.zeros_like(td["action_mask"])` -/
theorem beamForced_eq : Params.beamForcedLogp = 0 := by decide

/-! ### back-tracking -/

theorem add_mul_mod_self (a p B : Nat) : (a % B + p * B) % B = a % B := by
  rw [Nat.add_mul_mod_self_right, Nat.mod_mod]

/-- `_backtrack` is the natural recursion over parents: the sequence of final row `i` is the sequence
of its parent row at the previous step, followed by its own action. -/
theorem btActs_cons (B : Nat) (buf buf' : BeamBuf) (rest : List BeamBuf) (i : Nat) :
    btActs B (buf :: buf' :: rest) i
      = btActs B (buf' :: rest) (i % B + buf.parent i * B) ++ [buf.acts (i)] := by
  simp only [btActs, btFromActs_cons, add_mul_mod_self]

theorem btRows_cons (B : Nat) (buf buf' : BeamBuf) (rest : List BeamBuf) (i : Nat) :
    btRows B (buf :: buf' :: rest) i
      = btRows B (buf' :: rest) (i % B + buf.parent i * B) ++ [buf.rows (i)] := by
  simp only [btRows, btFromRows_cons, add_mul_mod_self]

theorem btActs_ne_nil (B : Nat) (bufs : List BeamBuf) (h : bufs ≠ []) (i : Nat) :
    btActs B bufs i ≠ [] := by
  cases bufs with
  | nil => exact absurd rfl h
  | cons buf rest => simp [btActs]

/-- the accumulated score of a sequence of per-step values: the forced move's `0`, then
`logprobs + parent_beam_logprobs` step by step (in the code's order of operands) -/
def accScore (plus : Int → Int → Int) : List LP → LP
  | [] => some 0
  | v0 :: rest => rest.foldl (fun acc v => lpAdd plus v acc) v0

theorem accScore_snoc (plus : Int → Int → Int) (vs : List LP) (v : LP) (h : vs ≠ []) :
    accScore plus (vs ++ [v]) = lpAdd plus v (accScore plus vs) := by
  cases vs with
  | nil => exact absurd rfl h
  | cons v0 rest => simp [accScore, List.foldl_append]

theorem specVals_ne_nil (e : DEnv S) (π : S → Row) (s0 : S) (as : List Nat) (h : as ≠ []) :
    specVals e π s0 true as ≠ [] := by
  cases as with
  | nil => exact absurd rfl h
  | cons a rest => simp [specVals]

/-! ### reachable beam-search states -/

/-- States of a beam search: the pre-decoder hook, then any number of decoding steps in which the
decoder is the policy `π` evaluated on the current rows and `torch.topk` returned *some* valid
top-`W` set for every instance. -/
inductive BeamReach (e : DEnv S) (π : S → Row) (c : BeamCfg) (plus : Int → Int → Int)
    (start : Nat → Nat) (s0 : Nat → S) : BeamSt S → Prop
  | pre : BeamReach e π c plus start s0 (beamPre e c start s0)
  | step {st : BeamSt S} (top : Nat → List Nat) :
      BeamReach e π c plus start s0 st →
      (∀ b, b < c.B → ValidTop c (hstacked c plus (fun i => π (st.s i)) st.score b) (top b)) →
      BeamReach e π c plus start s0 (beamStep e c plus (fun i => π (st.s i)) top st)

/-- What every row of a reachable state looks like, relative to the reset state of its instance. -/
structure BeamInv (e : DEnv S) (π : S → Row) (c : BeamCfg) (plus : Int → Int → Int) (s0 : Nat → S)
    (st : BeamSt S) : Prop where
  nonempty : st.bufs ≠ []
  state : ∀ i, st.s i = execD e (s0 (i % c.B)) (btActs c.B st.bufs i)
  rows : ∀ i, btRows c.B st.bufs i = specRows e π c.N (s0 (i % c.B)) true (btActs c.B st.bufs i)
  score : ∀ i, st.score i = accScore plus (specVals e π (s0 (i % c.B)) true (btActs c.B st.bufs i))

theorem bbiOf_mod (c : BeamCfg) (top : Nat → List Nat) (i : Nat) : bbiOf c top i % c.B = i % c.B := by
  simp [bbiOf_eq]

theorem beamInv_pre (e : DEnv S) (π : S → Row) (c : BeamCfg) (plus : Int → Int → Int)
    (start : Nat → Nat) (s0 : Nat → S) : BeamInv e π c plus s0 (beamPre e c start s0) := by
  constructor
  · simp [beamPre]
  · intro i; simp [beamPre, btActs, btFromActs, execD]
  · intro i; simp [beamPre, btActs, btRows, btFromActs, btFromRows, specRows, tfRows, beamForced_eq]
  · intro i; simp [beamPre, btActs, btFromActs, specVals, tfVals, accScore, beamForced_eq]

theorem beamInv_step (e : DEnv S) (π : S → Row) (c : BeamCfg) (plus : Int → Int → Int)
    (s0 : Nat → S) (top : Nat → List Nat) (st : BeamSt S) (h : BeamInv e π c plus s0 st) :
    BeamInv e π c plus s0 (beamStep e c plus (fun i => π (st.s i)) top st) := by
  obtain ⟨hne, hs, hr, hsc⟩ := h
  cases hb : st.bufs with
  | nil => exact absurd hb hne
  | cons buf' rest =>
    have hbt : ∀ i, btActs c.B (stepBuf c (fun i => π (st.s i)) top :: buf' :: rest) i
          = btActs c.B st.bufs (bbiOf c top i) ++ [selectedOf c top i] := by
      intro i; rw [btActs_cons, hb]; rfl
    have hbr : ∀ i, btRows c.B (stepBuf c (fun i => π (st.s i)) top :: buf' :: rest) i
          = btRows c.B st.bufs (bbiOf c top i) ++ [π (st.s (bbiOf c top i))] := by
      intro i; rw [btRows_cons, hb]; rfl
    have hnn : ∀ j, btActs c.B st.bufs j ≠ [] := btActs_ne_nil c.B st.bufs hne
    constructor
    · simp [beamStep]
    · intro i
      simp only [beamStep, hb]
      rw [hbt, execD_snoc, ← bbiOf_mod c top i, ← hs]
    · intro i
      simp only [beamStep, hb]
      rw [hbt, hbr, specRows_snoc _ _ _ _ _ _ _ (fun _ => hnn _), hr, ← bbiOf_mod c top i, ← hs]
    · intro i
      have h1 : (beamStep e c plus (fun i => π (st.s i)) top st).score i
          = lpAdd plus (gather (π (st.s (bbiOf c top i))) (selectedOf c top i))
              (st.score (bbiOf c top i)) := by
        simp only [beamStep, hstacked, logBeam, selectedOf_eq, parentOf_eq, bbiOf_eq]
        rw [Nat.add_comm (topInd c top i / c.N * c.B)]
      rw [h1]
      simp only [beamStep, hb]
      rw [hbt, specVals_snoc _ _ _ _ _ _ (fun _ => hnn _),
        accScore_snoc _ _ _ (specVals_ne_nil _ _ _ _ (hnn _)), ← bbiOf_mod c top i, ← hsc, ← hs]

theorem beamInv_of_reach (e : DEnv S) (π : S → Row) (c : BeamCfg) (plus : Int → Int → Int)
    (start : Nat → Nat) (s0 : Nat → S) {st : BeamSt S} (h : BeamReach e π c plus start s0 st) :
    BeamInv e π c plus s0 st := by
  induction h with
  | pre => exact beamInv_pre e π c plus start s0
  | step top _ _ ih => exact beamInv_step e π c plus s0 top _ ih

/-! ### index arithmetic of `_make_beam_step` -/

theorem flat_mod {B k b : Nat} (hb : b < B) : (k * B + b) % B = b := by
  rw [Nat.add_comm, Nat.add_mul_mod_self_right, Nat.mod_eq_of_lt hb]

theorem flat_div {B k b : Nat} (hb : b < B) : (k * B + b) / B = k := by
  rw [Nat.add_comm, Nat.add_mul_div_right _ _ (by omega : 0 < B), Nat.div_eq_of_lt hb]
  simp

theorem topInd_flat (c : BeamCfg) (top : Nat → List Nat) {k b : Nat} (hb : b < c.B) :
    topInd c top (k * c.B + b) = (top b).getD k 0 := by
  simp [topInd, flat_mod hb, flat_div hb]

theorem getD_mem {l : List Nat} {k : Nat} (hk : k < l.length) : l.getD k 0 ∈ l := by
  simp [List.getD, List.getElem?_eq_getElem hk]

theorem nodup_getD_inj {l : List Nat} (hn : l.Nodup) {k k' : Nat} (hk : k < l.length)
    (hk' : k' < l.length) (h : l.getD k 0 = l.getD k' 0) : k = k' := by
  exact (List.getD_inj hk hk' hn).mp h

theorem mem_getD {l : List Nat} {p : Nat} (h : p ∈ l) : ∃ k, k < l.length ∧ l.getD k 0 = p := by
  obtain ⟨k, hk, hp⟩ := List.getElem_of_mem h
  exact ⟨k, hk, by simp [List.getD, List.getElem?_eq_getElem hk, hp]⟩

theorem div_lt_of_lt_mul {p W N : Nat} (h : p < W * N) : p / N < W := by
  have hN : 0 < N := by
    cases N with
    | zero => simp at h
    | succ n => omega
  exact (Nat.div_lt_iff_lt_mul hN).mpr h

theorem mod_lt_of_lt_mul {p W N : Nat} (h : p < W * N) : p % N < N := by
  have hN : 0 < N := by
    cases N with
    | zero => simp at h
    | succ n => omega
  exact Nat.mod_lt _ hN

/-- pigeonhole for lists -/
theorem nodup_subset_length : ∀ (l₁ l₂ : List Nat), l₁.Nodup → (∀ x ∈ l₁, x ∈ l₂) →
    l₁.length ≤ l₂.length := by
  intro l₁
  induction l₁ with
  | nil => intro l₂ _ _; simp
  | cons x xs ih =>
    intro l₂ hn hs
    have hx : x ∈ l₂ := hs x (by simp)
    have hn' := List.nodup_cons.mp hn
    have hsub : ∀ y ∈ xs, y ∈ l₂.erase x := by
      intro y hy
      have hne : y ≠ x := by
        intro h; subst h; exact hn'.1 hy
      exact (List.mem_erase_of_ne hne).mpr (hs y (by simp [hy]))
    have := ih (l₂.erase x) hn'.2 hsub
    rw [List.length_erase_of_mem hx] at this
    have : 0 < l₂.length := List.length_pos_of_mem hx
    simp only [List.length_cons]
    omega

/-- the executable check the driver runs on every recorded `topk` outcome implies `ValidTop` -/
theorem validTop_sound (c : BeamCfg) (val : Nat → LP) (l : List Nat) (h : validTop c val l = true) :
    ValidTop c val l := by
  simp only [validTop, Bool.and_eq_true, List.all_eq_true, decide_eq_true_eq, Bool.or_eq_true,
    List.mem_range] at h
  obtain ⟨⟨⟨h1, h2⟩, h3⟩, h4⟩ := h
  refine ⟨h1, h2, h3, fun q hq hnot p hp => ?_⟩
  rcases h4 q hq with hc | ha
  · exact absurd (by simpa using hc) hnot
  · exact ha p hp

end Rl4co.Decode
