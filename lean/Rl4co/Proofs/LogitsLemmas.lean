/-
Helper lemmas for the C10 theorems about `Rl4co.Decode.processLogits`: `sumN`/`cnt` as `Finset` sums /
cardinalities, the `-inf`-extended order, the stages unfolded, and the core facts about the top-k and
top-p filters.  (Proof file: imports single Mathlib modules.)
-/
import Rl4co.Decode.ProcessLogits
import Rl4co.Spec.Decode
import Mathlib.Algebra.Order.Field.Basic
import Mathlib.Algebra.Order.BigOperators.Group.Finset
import Mathlib.Algebra.BigOperators.Field
import Mathlib.Order.WithBot
import Mathlib.Tactic.Linarith
import Mathlib.Tactic.FieldSimp
import Mathlib.Tactic.Ring

namespace Rl4co.Decode
open Finset

section gen
set_option linter.unusedSectionVars false
variable {K : Type} [Field K] [LinearOrder K] [IsStrictOrderedRing K]

theorem sumN_eq_sum (n : Nat) (f : Nat → K) : sumN n f = ∑ i ∈ range n, f i := by
  induction n with
  | zero => simp [sumN]
  | succ n ih => simp [sumN, ih, Finset.sum_range_succ]

theorem cnt_eq_card (n : Nat) (p : Nat → Bool) : cnt n p = ((range n).filter (fun j => p j = true)).card := by
  induction n with
  | zero => simp [cnt]
  | succ n ih =>
    rw [cnt_succ, ih, Finset.range_add_one, Finset.filter_insert]
    by_cases h : p n = true
    · simp [h]
    · simp [h]

/-- `Option K` read as `WithBot K` (`none = ⊥ = -inf`) -/
def wb (a : Option K) : WithBot K := a

@[simp] theorem wb_none : wb (none : Option K) = ⊥ := rfl
@[simp] theorem wb_some (a : K) : wb (some a) = (a : WithBot K) := rfl

theorem ltO_iff (a b : Option K) : ltO a b = true ↔ wb a < wb b := by
  cases a <;> cases b <;> simp [ltO]

theorem leO_iff (a b : Option K) : leO a b = true ↔ wb a ≤ wb b := by
  rw [← not_lt, ← ltO_iff]; simp [leO]


/-! ### the extracted tokens, resolved

These lemmas are the proof obligations on `Rl4co/Generated/Params.lean` (regenerated from the Python source
on every run): each holds only for the committed value of its token, and everything below goes through them. -/

/-- the guards of the clip / top-k / top-p stages test the value of the option only (obligation on the extracted
`logitsStageGuards`; a type test in a guard — `isinstance(top_k, int) and top_k > 0` — breaks it) -/
theorem guardPlain_eq : guardPlain "clip" = true ∧ guardPlain "topk" = true ∧ guardPlain "topp" = true := by
  decide

theorem topkOn_eq (k : Nat) : topkOn k = decide (0 < k) := by
  simp [topkOn, guardPlain_eq.2.1, Params.logitsTopkOnCmp, Cmp.evalNat]

theorem kEff_eq (n k : Nat) : kEff n k = min k n := by
  simp [kEff, Params.logitsTopkClampMin, Params.logitsTopkFilter]

theorem cmpO_topk (a b : Option K) : cmpO topkCmp a b = ltO a b := by
  simp [topkCmp, Params.logitsTopkFilter, cmpO]

theorem toppOff_iff (p : K) : toppOff p = true ↔ (p ≤ 0 ∨ 1 ≤ p) := by
  simp only [toppOff, guardPlain_eq.2.2, Bool.not_true, Bool.false_or, Params.logitsToppOnCmp, Params.logitsToppGuardCmps, List.getD_cons_zero, List.getD_cons_succ,
    cmpK, Bool.or_eq_true, Bool.not_eq_true', decide_eq_false_iff_not, not_lt]
  tauto

theorem toppFlag_iff (cum p : K) : toppFlag cum p = true ↔ cum ≤ 1 - p := by
  simp [toppFlag, toppThr, Params.logitsToppCmp, cmpK]

theorem sortLe_eq (a b : Option K) : sortLe a b = leO a b := by
  simp [sortLe, Params.logitsSortDescending]

theorem greedyLe_eq (b a : Option K) : greedyLe b a = leO b a := by
  simp [greedyLe, Params.logitsGreedyArgmax]

theorem protPos_eq (n : Nat) : protPos n = n - 1 := by
  simp [protPos, Params.logitsToppProtectedIdx]

theorem maskStage_eq (mask : Nat → Bool) (x : Nat → K) (j : Nat) :
    maskStage mask x j = if mask j = true then some (x j) else none := by
  simp only [maskStage, maskFilled, Params.logitsMaskFill]
  cases mask j <;> simp

theorem stageOrder_eq : stageOrder = [.clip, .mask, .temp, .topk, .topp] := by
  decide

theorem rowFlag_eq (m : Nat → Bool) (a : Nat) : rowFlag m a = !m a := by
  simp [rowFlag, Params.logitsSampleLoop]

theorem contCond_eq (flags : List Bool) : contCond flags = flags.any id := by
  simp [contCond, Params.logitsSampleLoop]

theorem kthValid_iff (n k : Nat) (X : Nat → Option K) (kth : Nat) : KthValid n k X kth ↔
    (kth < n ∧ cnt n (fun j => ltO (X kth) (X j)) < min k n ∧ min k n ≤ cnt n (fun j => leO (X kth) (X j))) := by
  simp only [KthValid, kEff_eq]

theorem sortValid_iff (n : Nat) (X : Nat → Option K) (σ : Nat → Nat) : SortValid n X σ ↔
    ((∀ i, i < n → σ i < n) ∧ (∀ i, i < n → ∀ i', i' < n → σ i = σ i' → i = i') ∧
      (∀ i, i < n → i + 1 < n → leO (X (σ i)) (X (σ (i + 1))) = true)) := by
  simp only [SortValid, sortLe_eq]

theorem greedyValid_iff (n : Nat) (lg : Nat → Option K) (a : Nat) : GreedyValid n lg a ↔
    (a < n ∧ ∀ j, j < n → leO (lg j) (lg a) = true) := by
  simp only [GreedyValid, greedyLe_eq]

/-! ### the stages, unfolded -/

variable (w clip : K → K) (c : Cfg K) (n : Nat) (x : Nat → K) (mask : Nat → Bool) (kth : Nat) (σ : Nat → Nat)

/-- the score: the logit entering the masked softmax (after the optional clipping) -/
abbrev score : Nat → K := clipStage c.clipOn clip x

theorem pre_get (j : Nat) : (pre clip c n x mask).get j =
    if mask j = true then some (score clip c x j / c.temp) else none := by
  simp only [pre, Vec.tab_get, tempStage, maskStage_eq]
  split <;> simp

theorem afterK_get (j : Nat) : (afterK clip c n x mask kth).get j =
    if c.topK = 0 then (pre clip c n x mask).get j
    else if ltO ((pre clip c n x mask).get j) ((pre clip c n x mask).get kth) = true then none
    else (pre clip c n x mask).get j := by
  simp only [afterK, topKStage, topkOn_eq]
  by_cases hk : c.topK = 0
  · simp [hk]
  · have : 0 < c.topK := Nat.pos_of_ne_zero hk
    simp only [hk, if_false, this, decide_true, Bool.not_true, Bool.false_eq_true, Vec.tab_get, cmpO_topk]

theorem softmax_get (X : Nat → Option K) (j : Nat) :
    (softmaxN n w X).get j = wO w (X j) / ∑ i ∈ range n, wO w (X i) := by
  simp only [softmaxN, Vec.tab_get, sumN_eq_sum]

theorem toppRem_get (p : K) (X : Vec (Option K)) (i : Nat) :
    (toppRem n w p σ X).get i = true ↔
      i ≠ n - 1 ∧ ∑ t ∈ range (i + 1), (softmaxN n w (fun i => X.get (σ i))).get t ≤ 1 - p := by
  simp only [toppRem, Vec.tab_get, sumN_eq_sum, protPos_eq]
  split
  · rename_i h; simp [h]
  · rename_i h; simp [h, toppFlag_iff]

/-- the line `sorted_indices_to_remove[..., -1] = False`: the last sorted position is never flagged -/
theorem toppRem_last (p : K) (X : Vec (Option K)) : (toppRem n w p σ X).get (n - 1) = false := by
  simp only [toppRem, Vec.tab_get, protPos_eq, if_true]

theorem topP_get (p : K) (X : Vec (Option K)) (j : Nat) : (topPStage n w p σ X).get j =
    if p ≤ 0 ∨ 1 ≤ p then X.get j
    else if (∃ i, i < n ∧ σ i = j ∧ (toppRem n w p σ X).get i = true) then none else X.get j := by
  simp only [topPStage]
  by_cases h : p ≤ 0 ∨ 1 ≤ p
  · rw [if_pos ((toppOff_iff p).mpr h), if_pos h]
  · rw [if_neg (fun h' => h ((toppOff_iff p).mp h')), if_neg h]
    simp only [Vec.tab_get, List.any_eq_true, List.mem_range, Bool.and_eq_true, beq_iff_eq]

/-- with the committed order of the statements, the first three stages compute `pre` … -/
theorem stages_pre :
    applyStage w clip c n mask kth σ .temp (applyStage w clip c n mask kth σ .mask
      (applyStage w clip c n mask kth σ .clip (Vec.tab n (fun j => some (x j))))) = pre clip c n x mask := by
  simp only [applyStage, stClip, guardPlain_eq.1, Bool.true_and, stClipAlways, stMask, stTemp, pre, Vec.tab_eq]
  by_cases hc : c.clipOn = true
  · simp only [hc, if_true]
    congr 1
  · simp only [hc]
    congr 1

/-- … and `process_logits` is: clip → mask → temperature → top-k → top-p → softmax.  (Proof obligation on the
extracted `logitsStageOrder`.) -/
theorem runStages_canonical :
    runStages w clip c n mask kth σ stageOrder (Vec.tab n (fun j => some (x j))) =
      topPStage n w c.topP σ (afterK clip c n x mask kth) := by
  rw [stageOrder_eq]
  simp only [runStages, List.foldl]
  rw [stages_pre]
  rfl

theorem wO_nonneg (hw : ExpLike w) (a : Option K) : 0 ≤ wO w a := by
  cases a with
  | none => simp [wO]
  | some v => exact le_of_lt (hw.pos v)

theorem wO_pos_iff (hw : ExpLike w) (a : Option K) : 0 < wO w a ↔ a.isSome = true := by
  cases a with
  | none => simp [wO]
  | some v => simp [wO, hw.pos v]

theorem sumW_pos (hw : ExpLike w) (X : Nat → Option K) (j : Nat) (hj : j < n) (h : (X j).isSome = true) :
    0 < ∑ i ∈ range n, wO w (X i) := by
  apply Finset.sum_pos' (fun i _ => wO_nonneg w hw (X i))
  exact ⟨j, Finset.mem_range.mpr hj, (wO_pos_iff w hw _).mpr h⟩

theorem softmax_sum_one (hw : ExpLike w) (X : Nat → Option K) (j : Nat) (hj : j < n)
    (h : (X j).isSome = true) : ∑ i ∈ range n, (softmaxN n w X).get i = 1 := by
  simp only [softmax_get]
  rw [← Finset.sum_div]
  exact div_self (ne_of_gt (sumW_pos w n hw X j hj h))


/-! ### top-k -/

theorem cnt_mono {n : Nat} {p q : Nat → Bool} (h : ∀ j, j < n → p j = true → q j = true) :
    cnt n p ≤ cnt n q := by
  rw [cnt_eq_card, cnt_eq_card]
  apply Finset.card_le_card
  intro j hj
  simp only [Finset.mem_filter, Finset.mem_range] at hj ⊢
  exact ⟨hj.1, h j hj.1 hj.2⟩

theorem pre_some {j : Nat} {v : K} (h : (pre clip c n x mask).get j = some v) :
    mask j = true ∧ v = score clip c x j / c.temp := by
  rw [pre_get] at h
  split at h
  · rename_i hm; exact ⟨hm, by simpa using h.symm⟩
  · simp at h

theorem pre_of_mask {j : Nat} (h : mask j = true) :
    (pre clip c n x mask).get j = some (score clip c x j / c.temp) := by
  rw [pre_get]; simp [h]

theorem afterK_some {j : Nat} {v : K} (h : (afterK clip c n x mask kth).get j = some v) :
    (pre clip c n x mask).get j = some v ∧
      (c.topK ≠ 0 → wb ((pre clip c n x mask).get kth) ≤ wb ((pre clip c n x mask).get j)) := by
  rw [afterK_get] at h
  split at h
  · rename_i h0; exact ⟨h, fun h1 => absurd h0 h1⟩
  · split at h
    · simp at h
    · rename_i hlt
      refine ⟨h, fun _ => ?_⟩
      rw [← not_lt, ← ltO_iff]; exact hlt

theorem afterK_le_pre (j : Nat) :
    wb ((afterK clip c n x mask kth).get j) ≤ wb ((pre clip c n x mask).get j) := by
  rw [afterK_get]
  split
  · exact le_refl _
  · split
    · exact bot_le
    · exact le_refl _

theorem afterK_eq_of_ge {j : Nat}
    (h : c.topK ≠ 0 → wb ((pre clip c n x mask).get kth) ≤ wb ((pre clip c n x mask).get j)) :
    (afterK clip c n x mask kth).get j = (pre clip c n x mask).get j := by
  rw [afterK_get]
  split
  · rfl
  · rename_i h0
    split
    · rename_i hlt
      rw [ltO_iff] at hlt
      exact absurd (h h0) (not_le.mpr hlt)
    · rfl

/-- kept after top-k, scoring strictly above a kept action: fewer than `k` such actions -/
theorem topk_card_core (hT : 0 < c.temp) (hk0 : c.topK ≠ 0)
    (hv : KthValid n c.topK (pre clip c n x mask).get kth) (kept : Nat → Bool)
    (hkept : ∀ j, j < n → kept j = true → ((afterK clip c n x mask kth).get j).isSome = true)
    (j0 : Nat) (hj0 : j0 < n) (hk : kept j0 = true) :
    cnt n (fun j => kept j && decide (score clip c x j0 < score clip c x j)) < c.topK := by
  obtain ⟨_, hlt, _⟩ := (kthValid_iff _ _ _ _).mp hv
  refine lt_of_le_of_lt (cnt_mono ?_) (lt_of_lt_of_le hlt (Nat.min_le_left _ _))
  intro j hj hpj
  simp only [Bool.and_eq_true, decide_eq_true_eq] at hpj
  obtain ⟨v0, hv0⟩ := Option.isSome_iff_exists.mp (hkept j0 hj0 hk)
  obtain ⟨v, hv⟩ := Option.isSome_iff_exists.mp (hkept j hj hpj.1)
  obtain ⟨h30, hge0⟩ := afterK_some clip c n x mask kth hv0
  obtain ⟨h3, _⟩ := afterK_some clip c n x mask kth hv
  have e0 := (pre_some clip c n x mask h30).2
  have e := (pre_some clip c n x mask h3).2
  rw [ltO_iff]
  refine lt_of_le_of_lt (hge0 hk0) ?_
  rw [h30, h3, e0, e]
  simp only [wb_some, WithBot.coe_lt_coe]
  exact div_lt_div_of_pos_right hpj.2 hT

theorem topk_ge_feasible_core (hk : c.topK = 0 ∨ KthValid n c.topK (pre clip c n x mask).get kth)
    (hcnt : cnt n mask ≤ c.topK) (j : Nat) (hj : j < n) (hm : mask j = true) :
    ((afterK clip c n x mask kth).get j).isSome = true := by
  have h3 := pre_of_mask clip c n x mask hm
  by_cases hk0 : c.topK = 0
  · rw [afterK_get]; simp [hk0, h3]
  · rcases hk with h | hkv
    · exact absurd h hk0
    · obtain ⟨_, _, hge⟩ := (kthValid_iff _ _ _ _).mp hkv
      by_contra hnone
      have hlt : wb ((pre clip c n x mask).get j) < wb ((pre clip c n x mask).get kth) := by
        by_contra hnl
        rw [afterK_eq_of_ge clip c n x mask kth (fun _ => not_lt.mp hnl), h3] at hnone
        simp at hnone
      have hsub : cnt n (fun i => leO ((pre clip c n x mask).get kth) ((pre clip c n x mask).get i))
          ≤ cnt n (fun i => mask i && decide (i ≠ j)) := by
        apply cnt_mono
        intro i hi hle
        rw [leO_iff] at hle
        have hlt' := lt_of_lt_of_le hlt hle
        simp only [Bool.and_eq_true, decide_eq_true_eq]
        constructor
        · by_contra hmi
          have hnone' : (pre clip c n x mask).get i = none := by rw [pre_get]; simp [hmi]
          rw [hnone'] at hlt'
          exact not_lt_bot hlt'
        · rintro rfl; exact lt_irrefl _ hlt'
      have hstrict : cnt n (fun i => mask i && decide (i ≠ j)) < cnt n mask := by
        rw [cnt_eq_card, cnt_eq_card]
        apply Finset.card_lt_card
        constructor
        · intro i hi
          simp only [Finset.mem_filter, Finset.mem_range, Bool.and_eq_true, decide_eq_true_eq] at hi ⊢
          exact ⟨hi.1, hi.2.1⟩
        · intro hss
          have := hss (Finset.mem_filter.mpr ⟨Finset.mem_range.mpr hj, hm⟩)
          simp at this
      have := cnt_le n mask
      omega

/-- an entry that is maximal before the top-k filter is unchanged by it -/
theorem afterK_of_max (hk : c.topK = 0 ∨ KthValid n c.topK (pre clip c n x mask).get kth) {j : Nat}
    (hmax : ∀ i, i < n → wb ((pre clip c n x mask).get i) ≤ wb ((pre clip c n x mask).get j)) :
    (afterK clip c n x mask kth).get j = (pre clip c n x mask).get j := by
  apply afterK_eq_of_ge
  intro hk0
  rcases hk with h | hkv
  · exact absurd h hk0
  · exact hmax kth hkv.1


/-! ### top-p -/

section topp
variable (X : Vec (Option K)) (p : K)

theorem sigma_image (hσ : SortValid n X.get σ) : (range n).image σ = range n := by
  obtain ⟨hr, hinj, _⟩ := hσ
  apply Finset.eq_of_subset_of_card_le
  · intro j hj
    obtain ⟨i, hi, rfl⟩ := Finset.mem_image.mp hj
    exact Finset.mem_range.mpr (hr i (Finset.mem_range.mp hi))
  · rw [Finset.card_image_of_injOn]
    intro i hi i' hi' h
    exact hinj i (Finset.mem_range.mp hi) i' (Finset.mem_range.mp hi') h

theorem sum_sigma (hσ : SortValid n X.get σ) (f : Nat → K) :
    ∑ i ∈ range n, f (σ i) = ∑ j ∈ range n, f j := by
  conv_rhs => rw [← sigma_image n σ X hσ]
  rw [Finset.sum_image]
  intro i hi i' hi' h
  exact hσ.2.1 i (Finset.mem_range.mp hi) i' (Finset.mem_range.mp hi') h

theorem sigma_surj (hσ : SortValid n X.get σ) (j : Nat) (hj : j < n) : ∃ i, i < n ∧ σ i = j := by
  have : j ∈ (range n).image σ := by rw [sigma_image n σ X hσ]; exact Finset.mem_range.mpr hj
  obtain ⟨i, hi, h⟩ := Finset.mem_image.mp this
  exact ⟨i, Finset.mem_range.mp hi, h⟩

theorem sorted_le (hσ : SortValid n X.get σ) (i i' : Nat) (h : i ≤ i') (hi' : i' < n) :
    wb (X.get (σ i)) ≤ wb (X.get (σ i')) := by
  induction i', h using Nat.le_induction with
  | base => exact le_refl _
  | succ m hm ih =>
    refine le_trans (ih (by omega)) ?_
    rw [← leO_iff]
    exact hσ.2.2 m (by omega) hi'

/-- the last sorted position holds a maximum -/
theorem last_is_max (hσ : SortValid n X.get σ) (j : Nat) (hj : j < n) :
    wb (X.get j) ≤ wb (X.get (σ (n - 1))) := by
  obtain ⟨i, hi, rfl⟩ := sigma_surj n σ X hσ j hj
  exact sorted_le n σ X hσ i (n - 1) (by omega) (by omega)

/-- the sorted softmax is the softmax, permuted -/
theorem sorted_softmax (hσ : SortValid n X.get σ) (t : Nat) :
    (softmaxN n w (fun i => X.get (σ i))).get t = (softmaxN n w X.get).get (σ t) := by
  rw [softmax_get, softmax_get, sum_sigma n σ X hσ (fun j => wO w (X.get j))]

theorem topP_some {j : Nat} {v : K} (h : (topPStage n w p σ X).get j = some v) : X.get j = some v := by
  rw [topP_get] at h
  split at h
  · exact h
  · split at h
    · simp at h
    · exact h

theorem topP_le (j : Nat) : wb ((topPStage n w p σ X).get j) ≤ wb (X.get j) := by
  rw [topP_get]
  split
  · exact le_refl _
  · split
    · exact bot_le
    · exact le_refl _

/-- the last sorted position survives the top-p filter -/
theorem topP_last_kept (_hw : ExpLike w) (hσ : (p ≤ 0 ∨ 1 ≤ p) ∨ SortValid n X.get σ) (hn : 0 < n)
    (_hsome : (X.get (σ (n - 1))).isSome = true) :
    (topPStage n w p σ X).get (σ (n - 1)) = X.get (σ (n - 1)) := by
  rw [topP_get]
  split
  · rfl
  · rename_i hact
    rcases hσ with h | hσ
    · exact absurd h hact
    · split
      · rename_i hex
        exfalso
        obtain ⟨i, hi, hσi, hrem⟩ := hex
        have hi' : i = n - 1 := hσ.2.1 i hi (n - 1) (by omega) hσi
        subst hi'
        rw [toppRem_last w n σ p X] at hrem
        exact Bool.false_ne_true hrem
      · rfl

/-- **last_never_removed**: in exact arithmetic the line `sorted_indices_to_remove[..., -1] = False` is a
no-op — for `top_p > 0` and a row with a finite entry the cumulative probability of the last sorted
position is `1 > 1 - top_p`, so the comparison `cum <= 1 - top_p` never flags it anyway.  (In float32
`1 - top_p` can round to `1.0`; that is what the line guards against.) -/
theorem last_never_removed (hw : ExpLike w) (hp : 0 < p) (i0 : Nat) (hi0 : i0 < n)
    (hsome : (X.get (σ i0)).isSome = true) :
    ¬ (∑ t ∈ range (n - 1 + 1), (softmaxN n w (fun i => X.get (σ i))).get t ≤ 1 - p) := by
  have h1 : n - 1 + 1 = n := by omega
  rw [h1, softmax_sum_one w n hw _ i0 hi0 hsome]
  intro h; linarith

/-- mass of the pre-filter distribution on the support of the top-p output -/
theorem topp_mass_core (hw : ExpLike w) (hσ : (p ≤ 0 ∨ 1 ≤ p) ∨ SortValid n X.get σ) (hp1 : p ≤ 1)
    (j0 : Nat) (hj0 : j0 < n) (hsome : (X.get j0).isSome = true) :
    p ≤ ∑ j ∈ range n, (if ((topPStage n w p σ X).get j).isSome = true then (softmaxN n w X.get).get j else 0) := by
  have hq0 : ∀ j, (X.get j).isSome = false → (softmaxN n w X.get).get j = 0 := by
    intro j hj
    rw [softmax_get]
    cases hx : X.get j with
    | none => simp [wO]
    | some v => simp [hx] at hj
  have hqnn : ∀ j, 0 ≤ (softmaxN n w X.get).get j := by
    intro j
    rw [softmax_get]
    exact div_nonneg (wO_nonneg w hw _) (Finset.sum_nonneg (fun i _ => wO_nonneg w hw _))
  by_cases hact : p ≤ 0 ∨ 1 ≤ p
  · -- filter off: the support is the support of the input
    have : ∀ j, (if ((topPStage n w p σ X).get j).isSome = true then (softmaxN n w X.get).get j else 0)
        = (softmaxN n w X.get).get j := by
      intro j
      rw [topP_get]; simp only [hact, if_true]
      split
      · rfl
      · rename_i h; exact (hq0 j (by simpa using h)).symm
    simp only [this]
    rw [softmax_sum_one w n hw X.get j0 hj0 hsome]; exact hp1
  · rcases hσ with h | hσ
    · exact absurd h hact
    · -- rewrite the sum along σ
      rw [← sum_sigma n σ X hσ]
      set rem := (toppRem n w p σ X).get with hrem
      set qs := (softmaxN n w (fun i => X.get (σ i))).get with hqs
      have hterm : ∀ i, i ∈ range n →
          (if ((topPStage n w p σ X).get (σ i)).isSome = true then (softmaxN n w X.get).get (σ i) else 0)
            = (if rem i = true then 0 else qs i) := by
        intro i hi
        have hi := Finset.mem_range.mp hi
        rw [topP_get]; simp only [hact, if_false, ← hrem]
        have hex : (∃ i', i' < n ∧ σ i' = σ i ∧ rem i' = true) ↔ rem i = true := by
          constructor
          · rintro ⟨i', hi', hσi, hr⟩
            have := hσ.2.1 i' hi' i hi hσi
            subst this; exact hr
          · intro hr; exact ⟨i, hi, rfl, hr⟩
        simp only [hex]
        by_cases hr : rem i = true
        · simp [hr]
        · simp only [if_neg hr]
          rw [hqs, sorted_softmax w n σ X hσ i]
          split
          · rfl
          · rename_i h; exact (hq0 (σ i) (by simpa using h)).symm
      rw [Finset.sum_congr rfl hterm]
      have hsplit : ∑ i ∈ range n, (if rem i = true then 0 else qs i)
          + ∑ i ∈ range n, (if rem i = true then qs i else 0) = 1 := by
        rw [← Finset.sum_add_distrib]
        have : ∀ i ∈ range n, ((if rem i = true then 0 else qs i) + (if rem i = true then qs i else 0)) = qs i := by
          intro i _; split <;> simp
        rw [Finset.sum_congr rfl this]
        obtain ⟨i0, hi0, hσi0⟩ := sigma_surj n σ X hσ j0 hj0
        exact softmax_sum_one w n hw _ i0 hi0 (by simpa [hσi0] using hsome)
      have hqsnn : ∀ i, 0 ≤ qs i := by
        intro i; rw [hqs, sorted_softmax w n σ X hσ i]; exact hqnn _
      have hbound : ∑ i ∈ range n, (if rem i = true then qs i else 0) ≤ 1 - p := by
        by_cases hI : ((range n).filter (fun i => rem i = true)).Nonempty
        · set I := (range n).filter (fun i => rem i = true) with hIdef
          set m := I.max' hI with hm
          have hmI : m ∈ I := Finset.max'_mem I hI
          have hmn : m < n := Finset.mem_range.mp (Finset.mem_filter.mp hmI).1
          have hmrem : rem m = true := (Finset.mem_filter.mp hmI).2
          have hle : ∑ i ∈ range n, (if rem i = true then qs i else 0)
              ≤ ∑ i ∈ range n, (if i < m + 1 then qs i else 0) := by
            apply Finset.sum_le_sum
            intro i hi
            by_cases hr : rem i = true
            · have : i ≤ m := Finset.le_max' I i (Finset.mem_filter.mpr ⟨hi, hr⟩)
              simp [hr, Nat.lt_succ_of_le this]
            · rw [if_neg hr]
              split
              · exact hqsnn i
              · exact le_refl _
          refine le_trans hle ?_
          rw [← Finset.sum_filter]
          have hfil : (range n).filter (fun i => i < m + 1) = range (m + 1) := by
            ext i; simp only [Finset.mem_filter, Finset.mem_range]; omega
          rw [hfil]
          have := ((toppRem_get w n σ p X m).mp (by rw [← hrem]; exact hmrem)).2
          exact this
        · have hnone : ∀ i ∈ range n, (if rem i = true then qs i else 0) = 0 := by
            intro i hi
            have : ¬ rem i = true := fun hr => hI ⟨i, Finset.mem_filter.mpr ⟨hi, hr⟩⟩
            simp [this]
          rw [Finset.sum_congr rfl hnone]; simp
          have : p < 1 := by
            by_contra h; exact hact (Or.inr (not_lt.mp h))
          linarith
      linarith
end topp

end gen
end Rl4co.Decode
