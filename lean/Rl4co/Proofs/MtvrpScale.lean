/-
Invariance of the MTVRP model under a change of the demand unit (`scaleDem`: both demand kinds and the capacity times
the same positive factor): route constraints, masks, steps.  Used by the C19 clause about `load_data(scale)` /
`scale_demand`.  No Mathlib.
-/
import Rl4co.Proofs.MtvrpRun

namespace Rl4co.Mtvrp
open Rl4co.Spec.Mtvrp

theorem sum_map_mul (c : Int) (f : Nat → Int) : ∀ r : List Nat, (r.map (fun j => c * f j)).sum = c * (r.map f).sum
  | [] => by simp
  | a :: r => by simp [sum_map_mul c f r, Int.mul_add]

theorem pos_mul_iff {c a : Int} (hc : 0 < c) : 0 < c * a ↔ 0 < a := by
  have := Int.mul_lt_mul_left (a := c) (b := 0) (c := a) hc
  simpa using this

theorem timeOk_scaleDem (k : Int) (c : Cmp) (i : Inst) : ∀ (r : List Nat) (cur : Nat) (t : Int),
    timeOk c (scaleDem k i) cur t r = timeOk c i cur t r
  | [], _, _ => rfl
  | a :: r, cur, t => by simp only [timeOk]; rw [timeOk_scaleDem k c i r]; rfl

theorem routeOk_scaleDem {k : Int} (hk : 0 < k) (c : Cmp) (i : Inst) (r : List Nat) :
    RouteOk c (scaleDem k i) r ↔ RouteOk c i r := by
  have hL : (r.map (scaleDem k i).dL).sum = k * (r.map i.dL).sum := sum_map_mul k i.dL r
  have hB : (r.map (scaleDem k i).dB).sum = k * (r.map i.dB).sum := sum_map_mul k i.dB r
  have hcap : (scaleDem k i).cap = k * i.cap := rfl
  have hord : Ordered (scaleDem k i) r ↔ Ordered i r := by
    unfold Ordered
    constructor <;> intro h <;> refine h.imp ?_ <;> intro a b hab
    · have e1 : (scaleDem k i).dB a = k * i.dB a := rfl
      have e2 : (scaleDem k i).dL b = k * i.dL b := rfl
      rw [e1, e2, pos_mul_iff hk, pos_mul_iff hk] at hab; exact hab
    · have e1 : (scaleDem k i).dB a = k * i.dB a := rfl
      have e2 : (scaleDem k i).dL b = k * i.dL b := rfl
      rw [e1, e2, pos_mul_iff hk, pos_mul_iff hk]; exact hab
  constructor
  · rintro ⟨h1, h2, h3, h4, h5⟩
    rw [hL, hcap, Int.mul_le_mul_left hk] at h1
    rw [hB, hcap, Int.mul_le_mul_left hk] at h2
    rw [timeOk_scaleDem] at h5
    exact ⟨h1, h2, hord.1 h3, h4, h5⟩
  · rintro ⟨h1, h2, h3, h4, h5⟩
    refine ⟨?_, ?_, hord.2 h3, h4, ?_⟩
    · rw [hL, hcap, Int.mul_le_mul_left hk]; exact h1
    · rw [hB, hcap, Int.mul_le_mul_left hk]; exact h2
    · rw [timeOk_scaleDem]; exact h5

/-! the environment itself is invariant as well: masks, done flags and rewards along any action list -/

def scaleState (k : Int) (s : State) : State := { s with usedL := k * s.usedL, usedB := k * s.usedB }

theorem lhMissing_scale {k : Int} (hk : 0 < k) (i : Inst) (s : State) :
    lhMissing (scaleDem k i) (scaleState k s) = lhMissing i s := by
  unfold lhMissing
  have : ((List.range (i.n + 1)).map (fun j => if (scaleState k s).vis j = true then 0 else (scaleDem k i).dL j))
      = (List.range (i.n + 1)).map (fun j => k * (if s.vis j = true then 0 else i.dL j)) := by
    apply List.map_congr_left
    intro j _
    show (if s.vis j = true then 0 else k * i.dL j) = k * (if s.vis j = true then 0 else i.dL j)
    split <;> simp
  have hn : (scaleDem k i).n = i.n := rfl
  rw [hn, this, sum_map_mul k (fun j => if s.vis j = true then 0 else i.dL j)]
  by_cases h : 0 < ((List.range (i.n + 1)).map (fun j => if s.vis j = true then 0 else i.dL j)).sum
  · simp [h, (pos_mul_iff hk).2 h]
  · have : ¬ 0 < k * ((List.range (i.n + 1)).map (fun j => if s.vis j = true then 0 else i.dL j)).sum :=
      fun h' => h ((pos_mul_iff hk).1 h')
    simp [h, this]

theorem canVisit_scale {k : Int} (hk : 0 < k) (i : Inst) (s : State) (j : Nat) :
    canVisit (scaleDem k i) (scaleState k s) j = canVisit i s j := by
  have e1 : (decide (0 < (scaleDem k i).dB s.cur)) = decide (0 < i.dB s.cur) := by
    show decide (0 < k * i.dB s.cur) = _
    by_cases h : 0 < i.dB s.cur
    · simp [h, (pos_mul_iff hk).2 h]
    · have : ¬ 0 < k * i.dB s.cur := fun h' => h ((pos_mul_iff hk).1 h')
      simp [h, this]
  have e2 : ∀ f : Nat → Int, decide (0 < k * f j) = decide (0 < f j) := by
    intro f
    by_cases h : 0 < f j
    · simp [h, (pos_mul_iff hk).2 h]
    · have : ¬ 0 < k * f j := fun h' => h ((pos_mul_iff hk).1 h')
      simp [h, this]
  have e3 : ∀ a b c' : Int, Cmp.gt.eval (k * a + k * b) (k * c') = Cmp.gt.eval (a + b) c' := by
    intro a b c'
    simp only [Cmp.eval, ← Int.mul_add]
    by_cases h : a + b > c'
    · have : k * (a + b) > k * c' := (Int.mul_lt_mul_left hk).2 h
      simp [h, this]
    · have : ¬ k * (a + b) > k * c' := fun h' => h ((Int.mul_lt_mul_left hk).1 h')
      simp [h, this]
  simp only [canVisit, meetsDemand, Params.mtvrpMaskCapLCmp, Params.mtvrpMaskCapBCmp, lhMissing_scale hk]
  show (cmpInf _ (arrival i s j) (i.late j) && cmpInf _ (if i.openR = true then 0 else retTime i s j) (i.late 0) &&
      (lhMissing i s && !Cmp.gt.eval (k * i.dL j + k * s.usedL) (k * i.cap) && !decide (0 < k * i.dB s.cur) &&
        decide (0 < k * i.dL j) ||
        !Cmp.gt.eval (k * i.dB j + k * s.usedB) (k * i.cap) && decide (0 < k * i.dB j)) &&
      !cmpInf _ (lenVia i s j) i.limit && !s.vis j) = _
  rw [e3, e3, e2 i.dL, e2 i.dB]
  have : decide (0 < k * i.dB s.cur) = decide (0 < i.dB s.cur) := e1
  rw [this]


theorem mask_scale {k : Int} (hk : 0 < k) (i : Inst) (s : State) (a : Nat) :
    mask (scaleDem k i) (scaleState k s) a = mask i s a := by
  have hany : anyCust (scaleDem k i) (scaleState k s) = anyCust i s := by
    unfold anyCust
    have hn : (scaleDem k i).n = i.n := rfl
    rw [hn]
    congr 1
    funext j
    exact canVisit_scale hk i s (j + 1)
  rw [mask_def, mask_def, hany, canVisit_scale hk]
  rfl

theorem step_scale (k : Int) (i : Inst) (s : State) (a : Nat) :
    step (scaleDem k i) (scaleState k s) a = scaleState k (step i s a) := by
  rw [step_def, step_def]
  by_cases h : a = 0
  · subst h; simp [scaleState]
  · simp only [scaleState, h, ne_eq, not_false_eq_true, if_true, Int.mul_add]
    rfl

theorem done_scale (k : Int) (i : Inst) (s : State) : done (scaleDem k i) (scaleState k s) = done i s := rfl

theorem reset_scale (k : Int) (i : Inst) : reset (scaleDem k i) = scaleState k (reset i) := by
  simp [reset, scaleState]

theorem episode_scale {k : Int} (hk : 0 < k) (i : Inst) : ∀ (as : List Nat) (s : State),
    admitted env (scaleDem k i) (scaleState k s) as = admitted env i s as ∧
    exec env (scaleDem k i) (scaleState k s) as = scaleState k (exec env i s as)
  | [], s => ⟨rfl, rfl⟩
  | a :: as, s => by
    have ih := episode_scale hk i as (env.step i s a)
    have hm : env.mask (scaleDem k i) (scaleState k s) a = env.mask i s a := mask_scale hk i s a
    have hs : env.step (scaleDem k i) (scaleState k s) a = scaleState k (env.step i s a) := step_scale k i s a
    have hn : env.nAct (scaleDem k i) = env.nAct i := rfl
    constructor
    · simp only [admitted, hm, hs, hn]
      rw [ih.1]
    · simp only [exec, List.foldl_cons]
      have := ih.2
      simp only [exec] at this
      rw [hs]
      exact this

end Rl4co.Mtvrp
