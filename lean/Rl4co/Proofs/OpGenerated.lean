/-
Obligations tying the OP model to the expressions regenerated from the source (`Generated/Params.lean`,
probes in `harness/probes/prize.py`): `generated = model`, by `rfl` (or unfolding of the extracted
literal).  A source edit that changes the shape of one of these statements (operator, operand order,
parenthesisation) makes the lemma — and with it every property module of the family, which imports this
file — fail at `lake build`.  No Mathlib.
-/
import Rl4co.Env.Op

namespace Rl4co.Op
open Rl4co.Prize

theorem step_len_generated (i : Inst) (s : State) (a : Nat) :
    (step i s a).len = Params.opStepLenExpr s.len (i.D s.cur a) := rfl

theorem step_tot_generated (i : Inst) (s : State) (a : Nat) :
    (step i s a).tot = Params.opStepPrizeExpr s.tot (padded i.prize a) := rfl

theorem step_i_generated (i : Inst) (s : State) (a : Nat) :
    (step i s a).i = Params.opStepCounterExpr s.i := rfl

theorem exceeds_generated (i : Inst) (s : State) (j : Nat) :
    exceeds i s j = Params.opMaskLenCmp.eval (Params.opMaskLenExpr s.len (i.D s.cur j)) (i.budget j) := rfl

theorem baseMask_generated (i : Inst) (s : State) (j : Nat) :
    baseMask i s j = !(Params.opMaskOrExpr (s.vis j) (s.vis 0) (exceeds i s j)) := rfl

/-- the scaled pre-computation is the generated `_reset` expression applied to the scaled operands, the
float literal being the extracted constant `Params.opResetMargin` (the subtracted `eps` is `−num/den`) -/
theorem budgetSpec_generated (i : Inst) (U : Int) (j : Nat) :
    budgetSpecScaled i U j =
      Params.opResetBudgetExpr (Params.opResetMargin.2 * i.L) (Params.opResetMargin.2 * i.D j 0)
        (-(Params.opResetMargin.1 * U)) := by
  simp only [budgetSpecScaled, Params.opResetBudgetExpr, Params.opResetMargin]
  omega

/-- what the property proofs use -/
theorem step_len (i : Inst) (s : State) (a : Nat) : (step i s a).len = s.len + i.D s.cur a := by
  rw [step_len_generated]; rfl

theorem step_i (i : Inst) (s : State) (a : Nat) : (step i s a).i = s.i + 1 := by
  rw [step_i_generated]; rfl

end Rl4co.Op
