/-
FFSP, progress argument behind the step bound (C02): in every time unit of an unfinished row some
machine is busy or an operation of duration 0 was started, so the potential `time + (remaining busy time
of the machines) + (work not yet started, at the longest durations, a duration 0 counted as 1)` — plus
one spare unit while the sweep has passed an unfinished job's stage with no machine busy — never exceeds
the total work `D`; hence the clock of an unfinished row never exceeds `D`, for ALL durations ≥ 0.
No Mathlib.
-/
import Rl4co.Proofs.Ffsp
namespace Rl4co.Ffsp

/-! ### Work potential: the clock never runs past the total work -/

theorem sumN_congr {n : Nat} {f g : Nat → Nat} (h : ∀ x, x < n → f x = g x) : sumN n f = sumN n g := by
  induction n with
  | zero => rfl
  | succ n ih => simp only [sumN]; rw [ih (fun x hx => h x (by omega)), h n (by omega)]

theorem sumN_le {n : Nat} {f g : Nat → Nat} (h : ∀ x, x < n → f x ≤ g x) : sumN n f ≤ sumN n g := by
  induction n with
  | zero => exact Nat.le_refl _
  | succ n ih =>
    simp only [sumN]
    have := ih (fun x hx => h x (by omega))
    have := h n (by omega)
    omega

theorem sumN_upd {n : Nat} (f : Nat → Nat) {a : Nat} (v : Nat) (ha : a < n) :
    sumN n (upd f a v) + f a = sumN n f + v := by
  induction n with
  | zero => omega
  | succ n ih =>
    simp only [sumN]
    by_cases han : a = n
    · subst han
      have : sumN a (upd f a v) = sumN a f := sumN_congr (fun x hx => upd_other _ _ _ _ (by omega))
      rw [this, upd_same]; omega
    · have := ih (by omega)
      rw [upd_other _ _ _ _ (fun hh => han hh.symm)]; omega

/-- decrementing every counter lowers the sum, strictly if some counter is positive -/
theorem sumN_pred {n : Nat} (f : Nat → Nat) : sumN n (fun x => f x - 1) ≤ sumN n f :=
  sumN_le (fun _ _ => Nat.sub_le _ _)

theorem sumN_pred_lt {n : Nat} (f : Nat → Nat) {a : Nat} (ha : a < n) (hp : 0 < f a) :
    sumN n (fun x => f x - 1) + 1 ≤ sumN n f := by
  induction n with
  | zero => omega
  | succ n ih =>
    simp only [sumN]
    by_cases han : a = n
    · subst han
      have := sumN_pred (n := a) f
      omega
    · have := ih (by omega)
      omega

theorem dur_le_maxDur (i : Inst) (h : WF i) (j m : Nat) : i.dur j m ≤ maxDur i j (m / i.M) := by
  unfold maxDur
  apply le_maxL
  refine List.mem_map.mpr ⟨m % i.M, List.mem_range.mpr (Nat.mod_lt _ h.M_pos), ?_⟩
  have := Nat.div_add_mod m i.M
  rw [Nat.mul_comm] at this
  rw [this]

/-- longest duration of job `j` in stage `k`, a duration 0 counted as 1 -/
def maxDur1 (i : Inst) (j k : Nat) : Nat := max 1 (maxDur i j k)

/-- work of job `j` not yet started: stages `jloc j ..< S`, each at its longest duration -/
def remJob (i : Inst) (loc : Nat) (j : Nat) : Nat := sumN i.S (fun k => if loc ≤ k then maxDur1 i j k else 0)
def remWork (i : Inst) (s : State) : Nat := sumN i.J (fun j => remJob i (s.jloc j) j)
def busySum (i : Inst) (s : State) : Nat := sumN (MT i) s.mwait
/-- potential: clock + remaining busy time of the machines + work not yet started -/
def phi (i : Inst) (s : State) : Nat := s.time + busySum i s + remWork i s

theorem remJob_succ (i : Inst) (j k : Nat) (hk : k < i.S) :
    remJob i (k + 1) j + maxDur1 i j k = remJob i k j := by
  unfold remJob
  have h1 : (fun k' => if k + 1 ≤ k' then maxDur1 i j k' else 0) =
      upd (fun k' => if k ≤ k' then maxDur1 i j k' else 0) k 0 := by
    funext k'
    simp only [upd_apply]
    by_cases e : k' = k
    · subst e
      have : ¬ k' + 1 ≤ k' := by omega
      simp [this]
    · by_cases l : k ≤ k'
      · have : k + 1 ≤ k' := by omega
        simp [e, l, this]
      · have : ¬ k + 1 ≤ k' := by omega
        simp [e, l, this]
  rw [h1]
  have := sumN_upd (fun k' => if k ≤ k' then maxDur1 i j k' else 0) 0 hk
  simp only [Nat.le_refl, if_true] at this
  omega

theorem phi_reset (i : Inst) : phi i (reset i) = totalWork i := by
  unfold phi busySum remWork totalWork remJob maxDur1
  have h1 : sumN (MT i) (reset i).mwait = 0 := by
    generalize MT i = n
    induction n with
    | zero => rfl
    | succ n ih => simp only [sumN, ih]; rfl
  rw [h1]
  simp [reset]


/-- some machine is processing -/
def Busy (i : Inst) (s : State) : Prop := ∃ m, m < MT i ∧ 0 < s.mwait m
/-- a job that is being processed is being processed by some machine, for at least as long -/
def P1 (i : Inst) (s : State) : Prop := ∀ j, j < i.J → 0 < s.jwait j → ∃ m, m < MT i ∧ s.jwait j ≤ s.mwait m
/-- the sweep of the current time unit has not passed the stage of any unfinished job, or a machine is busy -/
def Q (i : Inst) (s : State) : Prop := Busy i s ∨ ∀ j, j < i.J → s.jloc j < i.S → stageOf i s.sub ≤ s.jloc j
def Q' (i : Inst) (s : State) : Prop := Busy i s ∨ ∀ j, j < i.J → s.jloc j < i.S → stageOf i s.sub < s.jloc j

/-- the potential is within the total work, with one spare unit when `q` fails -/
def Pot (i : Inst) (s : State) (q : Prop) : Prop :=
  phi i s ≤ totalWork i ∧ (¬ q → phi i s + 1 ≤ totalWork i)

structure Prog (i : Inst) (s : State) : Prop where
  p1 : P1 i s
  pot : Pot i s (Q i s)

theorem Q_of_Q' {i : Inst} {s : State} (q : Q' i s) : Q i s := by
  rcases q with hb | hq
  · exact Or.inl hb
  · exact Or.inr (fun j hj hlt => Nat.le_of_lt (hq j hj hlt))

theorem exists_unfinished {i : Inst} {s : State} (c : Core i s) (hd : s.done = false) :
    ∃ j, j < i.J ∧ s.jloc j < i.S := by
  rw [c.done_eq] at hd
  obtain ⟨j, hj, hne⟩ := not_allAtEnd hd
  have := c.loc_le j hj
  exact ⟨j, hj, by omega⟩

theorem last_stage {i : Inst} (h : WF i) {sub : Nat} (hw : sub + 1 = MT i) : i.S ≤ stageOf i sub + 1 := by
  obtain ⟨S', hS'⟩ : ∃ S', i.S = S' + 1 := ⟨i.S - 1, by have := h.S_pos; omega⟩
  have hM := h.M_pos
  unfold MT at hw
  rw [hS', Nat.mul_succ] at hw
  have : S' ≤ sub / i.M := (Nat.le_div_iff_mul_le hM).mpr (by rw [Nat.mul_comm]; omega)
  unfold stageOf; omega

theorem stage_succ_le (i : Inst) (h : WF i) (sub : Nat) : stageOf i (sub + 1) ≤ stageOf i sub + 1 := by
  unfold stageOf
  have h1 : (sub + 1) / i.M ≤ (sub + i.M) / i.M := Nat.div_le_div_right (by have := h.M_pos; omega)
  rw [Nat.add_div_right _ h.M_pos] at h1
  exact h1

/-- one iteration of the loop body, from a post-action or non-ready state -/
theorem adv_prog (i : Inst) (h : WF i) (x : State) (c : Core i x) (hd : x.done = false)
    (p1 : P1 i x) (pt : Pot i x (Q' i x)) :
    P1 i (advance i x) ∧ Pot i (advance i x) (Q i (advance i x)) := by
  by_cases hw : x.sub + 1 = MT i
  · have hb : (x.sub + 1 == MT i) = true := by simpa using hw
    have e1 : (advance i x).jwait = fun j => x.jwait j - 1 := by simp [advance, hb]
    have e2 : (advance i x).mwait = fun m => x.mwait m - 1 := by simp [advance, hb]
    have e3 : (advance i x).sub = 0 := by simp [advance, hb]
    have e4 : (advance i x).time = x.time + 1 := by simp [advance, hb]
    have e5 : (advance i x).jloc = x.jloc := rfl
    have hQy : Q i (advance i x) := by
      right; intro j _ _; rw [e3]; simp [stageOf]
    refine ⟨?_, ?_, fun hn => absurd hQy hn⟩
    · intro j hj hp
      rw [e1] at hp ⊢; rw [e2]
      simp only at hp ⊢
      obtain ⟨m, hm, hle⟩ := p1 j hj (by omega)
      exact ⟨m, hm, by omega⟩
    · have hphi : phi i (advance i x) ≤ phi i x + 1 := by
        unfold phi busySum remWork
        rw [e2, e4, e5]
        have := sumN_pred (n := MT i) x.mwait
        omega
      by_cases hbusy : Busy i x
      · obtain ⟨m, hm, hp⟩ := hbusy
        have : phi i (advance i x) ≤ phi i x := by
          unfold phi busySum remWork
          rw [e2, e4, e5]
          have := sumN_pred_lt x.mwait hm hp
          omega
        exact Nat.le_trans this pt.1
      · -- no machine busy at the wrap: the sweep has passed every unfinished job, the spare unit pays
        have hnq : ¬ Q' i x := by
          rintro (hb' | hq)
          · exact hbusy hb'
          · obtain ⟨j, hj, hlt⟩ := exists_unfinished c hd
            have := hq j hj hlt
            have := last_stage h hw
            omega
        have := pt.2 hnq
        omega
  · have hb : (x.sub + 1 == MT i) = false := by simpa using hw
    have e1 : (advance i x).jwait = x.jwait := by simp [advance, hb]
    have e2 : (advance i x).mwait = x.mwait := by simp [advance, hb]
    have e3 : (advance i x).sub = x.sub + 1 := by simp [advance, hb]
    have e4 : (advance i x).time = x.time := by simp [advance, hb]
    have e5 : (advance i x).jloc = x.jloc := rfl
    have hphi : phi i (advance i x) = phi i x := by
      unfold phi busySum remWork; rw [e2, e4, e5]
    have hQQ : Q' i x → Q i (advance i x) := by
      rintro (⟨m, hm, hp⟩ | hq)
      · left; exact ⟨m, hm, by rw [e2]; exact hp⟩
      · right; intro j hj hlt
        rw [e5] at hlt ⊢; rw [e3]
        have := hq j hj hlt
        have := stage_succ_le i h x.sub
        omega
    refine ⟨?_, ?_, ?_⟩
    · intro j hj hp; rw [e1] at hp ⊢; rw [e2]; exact p1 j hj hp
    · rw [hphi]; exact pt.1
    · intro hn; rw [hphi]; exact pt.2 (fun hq' => hn (hQQ hq'))

/-- a non-ready state inside the loop has strictly passed no unfinished job's stage -/
theorem nonready_strict (i : Inst) (h : WF i) (y : State) (c : Core i y) (p1 : P1 i y) (q : Q i y)
    (hr : ready i y = false) : Q' i y := by
  rcases q with hb | hq
  · exact Or.inl hb
  · by_cases hb : Busy i y
    · exact Or.inl hb
    · right
      intro j hj hlt
      have hle := hq j hj hlt
      have hm0 : ∀ m, m < MT i → y.mwait m = 0 := by
        intro m hm
        apply Classical.byContradiction; intro hne
        exact hb ⟨m, hm, by omega⟩
      have hj0 : y.jwait j = 0 := by
        apply Classical.byContradiction; intro hne
        obtain ⟨m, hm, hle⟩ := p1 j hj (by omega)
        have := hm0 m hm; omega
      apply Classical.byContradiction; intro hnlt
      have heq : y.jloc j = stageOf i y.sub := by omega
      have hmid : y.midx < MT i := by rw [c.midx_eq]; exact machineOf_lt h c.sub_lt
      have : ready i y = true := by
        simp only [ready, Bool.and_eq_true, beq_iff_eq, List.any_eq_true, List.mem_range]
        exact ⟨hm0 _ hmid, j, hj, by simp [jobReady, heq, hj0]⟩
      rw [this] at hr; cases hr

theorem loop_prog (i : Inst) (h : WF i) : ∀ (f : Nat) (x : State), Core i x → x.done = false →
    P1 i x → Pot i x (Q' i x) →
    P1 i (moveLoop i f x) ∧ Pot i (moveLoop i f x) (Q i (moveLoop i f x)) := by
  intro f
  induction f with
  | zero =>
    intro x _ _ p1 pt
    exact ⟨p1, pt.1, fun hn => pt.2 (fun hq' => hn (Q_of_Q' hq'))⟩
  | succ f ih =>
    intro x c hd p1 pt
    obtain ⟨a1, a2⟩ := adv_prog i h x c hd p1 pt
    simp only [moveLoop]
    by_cases hr : ready i (advance i x) = true
    · simp only [hr, if_true]; exact ⟨a1, a2⟩
    · have hr' : ready i (advance i x) = false := by simpa using hr
      simp only [hr', Bool.false_eq_true, if_false]
      have cy := core_advance i h x c
      refine ih (advance i x) cy hd a1 ⟨a2.1, fun hn => a2.2 (fun hq => hn ?_)⟩
      exact nonready_strict i h _ cy a1 hq hr'



theorem live_decision (i : Inst) (s : State) (l : Live i s) (hd : s.done = false) :
    s.mwait s.midx = 0 := by
  have hr := l.rdy hd
  simp only [ready, Bool.and_eq_true, beq_iff_eq] at hr
  exact hr.1

theorem apply_job_prog (i : Inst) (h : WF i) (s : State) (l : Live i s)
    (hd : s.done = false) (pr : Prog i s) (a : Nat) (ha : a < i.J) (hm : s.mask a = true) :
    P1 i (apply i s a) ∧ Pot i (apply i s a) (Q' i (apply i s a)) := by
  obtain ⟨e1, _, _, e4, e5, e6, _, _⟩ := apply_fields i s a
  have hmk := mask_job i s l.fresh ha
  rw [hm] at hmk
  simp only [Bool.true_eq, Bool.and_eq_true, beq_iff_eq] at hmk
  have hmw := live_decision i s l hd
  have hmid : s.midx < MT i := by rw [l.core.midx_eq]; exact machineOf_lt h l.core.sub_lt
  have hk : s.midx / i.M = s.jloc a := by rw [l.core.midx_eq, machineOf_stage h, hmk.1]; rfl
  have hdur : jobDur i a s.midx = i.dur a s.midx := by simp [jobDur, ha]
  -- the potential drops by (longest duration, at least 1) − (actual duration)
  have hphi : phi i (apply i s a) + maxDur1 i a (s.jloc a) = phi i s + i.dur a s.midx := by
    unfold phi busySum remWork
    rw [e1, e5, e4]
    have hb := sumN_upd s.mwait (jobDur i a s.midx) hmid
    have hF : (fun j => remJob i (upd s.jloc a (s.jloc a + 1) j) j) =
        upd (fun j => remJob i (s.jloc j) j) a (remJob i (s.jloc a + 1) a) := by
      funext j
      simp only [upd_apply]
      by_cases hja : j = a
      · subst hja; simp
      · simp [hja]
    rw [hF]
    have hr := sumN_upd (fun j => remJob i (s.jloc j) j) (remJob i (s.jloc a + 1) a) ha
    have hkS : s.jloc a < i.S := by rw [hmk.1]; exact stageOf_lt l.core.sub_lt
    have hs := remJob_succ i a (s.jloc a) hkS
    omega
  have hle : i.dur a s.midx ≤ maxDur i a (s.jloc a) := by
    have := dur_le_maxDur i h a s.midx
    rw [hk] at this; exact this
  have h1 : 1 ≤ maxDur1 i a (s.jloc a) := Nat.le_max_left _ _
  have h2 : maxDur i a (s.jloc a) ≤ maxDur1 i a (s.jloc a) := Nat.le_max_right _ _
  refine ⟨?_, ?_, ?_⟩
  · intro j hj hpos
    by_cases hja : j = a
    · exact ⟨s.midx, hmid, by rw [hja, e5, e6, upd_same, upd_same]; exact Nat.le_refl _⟩
    · rw [e6, upd_other _ _ _ _ hja] at hpos ⊢
      obtain ⟨m, hm1, hm2⟩ := pr.p1 j hj hpos
      have : m ≠ s.midx := by intro hh; rw [hh, hmw] at hm2; omega
      exact ⟨m, hm1, by rw [e5, upd_other _ _ _ _ this]; exact hm2⟩
  · have := pr.pot.1; omega
  · intro hnq
    by_cases hd0 : i.dur a s.midx = 0
    · have := pr.pot.1; omega
    · exfalso; apply hnq
      left; exact ⟨s.midx, hmid, by rw [e5, upd_same, hdur]; omega⟩

theorem apply_wait_prog (i : Inst) (h : WF i) (s : State) (l : Live i s)
    (hd : s.done = false) (pr : Prog i s) (hm : s.mask i.J = true) :
    P1 i (apply i s i.J) ∧ Pot i (apply i s i.J) (Q' i (apply i s i.J)) := by
  obtain ⟨e1, _, _, e4, e5, e6, _, _⟩ := apply_fields i s i.J
  have hmw := live_decision i s l hd
  have hmid : s.midx < MT i := by rw [l.core.midx_eq]; exact machineOf_lt h l.core.sub_lt
  have hd0 : jobDur i i.J s.midx = 0 := by simp [jobDur]
  -- waiting is only offered while a machine is busy — provided the sweep has not passed an unfinished job
  have hbusy : Q i s → Busy i s := by
    intro hQ
    have hw := l.fresh i.J
    rw [hm] at hw
    simp only [updateMask, Nat.lt_irrefl, if_false, if_true, hd, Bool.or_false, Bool.true_eq,
      Bool.or_eq_true, List.any_eq_true, List.mem_range, decide_eq_true_eq, Bool.and_eq_true,
      beq_iff_eq] at hw
    rcases hw with ⟨j, hj, hlt⟩ | ⟨j, hj, _, hpos⟩
    · rcases hQ with hb | hq
      · exact hb
      · exfalso
        have := stageOf_lt l.core.sub_lt
        have := hq j hj (by omega)
        omega
    · obtain ⟨m, hm1, hm2⟩ := pr.p1 j hj hpos
      exact ⟨m, hm1, by omega⟩
  have hmw' : ∀ m, 0 < s.mwait m → (apply i s i.J).mwait m = s.mwait m := by
    intro m hpos
    have : m ≠ s.midx := by intro hh; rw [hh, hmw] at hpos; omega
    rw [e5, upd_other _ _ _ _ this]
  have hphi : phi i (apply i s i.J) = phi i s := by
    unfold phi busySum remWork
    rw [e1, e5, e4]
    have hb := sumN_upd s.mwait (jobDur i i.J s.midx) hmid
    have hF : sumN i.J (fun j => remJob i (upd s.jloc i.J (s.jloc i.J + 1) j) j) =
        sumN i.J (fun j => remJob i (s.jloc j) j) :=
      sumN_congr (fun j hj => by rw [upd_other _ _ _ _ (by omega)])
    rw [hF]; omega
  refine ⟨?_, ?_, ?_⟩
  · intro j hj hpos
    rw [e6, upd_other _ _ _ _ (by omega)] at hpos ⊢
    obtain ⟨m, hm1, hm2⟩ := pr.p1 j hj hpos
    exact ⟨m, hm1, by rw [hmw' m (by omega)]; exact hm2⟩
  · rw [hphi]; exact pr.pot.1
  · intro hnq
    rw [hphi]
    apply pr.pot.2
    intro hQ
    obtain ⟨m, hm1, hm2⟩ := hbusy hQ
    exact hnq (Or.inl ⟨m, hm1, by rw [hmw' m hm2]; exact hm2⟩)

theorem done_stable_live (i : Inst) (h : WF i) (s : State) (l : Live i s) (hd : s.done = true)
    (a : Nat) (hm : s.mask a = true) (g : Bool) : (stepG i s a g).done = true := by
  have haJ : a = i.J := by
    have := mask_of_done i s l hd a
    rw [hm] at this; simpa using this.symm
  subst haJ
  have c1 := core_apply_wait i s l.core (fun hf => by rw [hd] at hf; cases hf)
  have hd1 : (apply i s i.J).done = true := by
    have : (apply i s i.J).done = allAtEnd i (upd s.jloc i.J (s.jloc i.J + 1)) := rfl
    rw [this, ← hd, l.core.done_eq]
    exact allAtEnd_congr i (fun j hj => by rw [upd_other _ _ _ _ (by omega)])
  simp only [stepG, finish]
  split
  · exact hd1
  · show (moveNext i (apply i s i.J)).done = true
    rw [moveNext_done i h _ c1]; exact hd1

/-- the progress invariant is kept by every step after which the row is still unfinished -/
theorem prog_stepM (i : Inst) (h : WF i) (s : State) (l : Live i s) (a : Nat)
    (ha : a < i.J + 1) (hm : s.mask a = true) (pr : s.done = false → Prog i s)
    (hd' : (stepM i s a).done = false) : Prog i (stepM i s a) := by
  have hd : s.done = false := by
    cases hdd : s.done with
    | false => rfl
    | true => have := done_stable_live i h s l hdd a hm false; rw [stepM] at hd'; rw [this] at hd'; cases hd'
  have c1 := core_apply i h s l a ha hm
  have hd1 : (apply i s a).done = false := by
    have : (stepM i s a).done = (moveNext i (apply i s a)).done := rfl
    rw [this, moveNext_done i h _ c1] at hd'; exact hd'
  have hx : P1 i (apply i s a) ∧ Pot i (apply i s a) (Q' i (apply i s a)) := by
    by_cases haJ : a < i.J
    · exact apply_job_prog i h s l hd (pr hd) a haJ hm
    · have : a = i.J := by omega
      subst this
      exact apply_wait_prog i h s l hd (pr hd) hm
  obtain ⟨x1, x2⟩ := hx
  obtain ⟨y1, y2⟩ := loop_prog i h (moveFuel i (apply i s a)) (apply i s a) c1 hd1 x1 x2
  have hstep : stepM i s a = updateMask i (moveLoop i (moveFuel i (apply i s a)) (apply i s a)) := by
    simp [stepM, stepG, finish, moveNext, hd1]
  rw [hstep]
  exact ⟨y1, y2⟩

theorem prog_reset (i : Inst) : Prog i (reset i) where
  p1 := by intro j _ hp; simp [reset] at hp
  pot := ⟨by rw [phi_reset]; exact Nat.le_refl _,
    fun hn => absurd (Or.inr (fun j _ _ => by simp [reset, stageOf])) hn⟩

/-- invariant of a row in a running batch, with the progress part while it is unfinished -/
theorem live_prog_of_reach (i : Inst) (h : WF i) {s : State} (hr : Reach envM i s) :
    Live i s ∧ (s.done = false → Prog i s) :=
  inv_of_reach (e := envM) (Inv := fun s => Live i s ∧ (s.done = false → Prog i s))
    ⟨live_reset i h, fun _ => prog_reset i⟩
    (fun s a hl ha hm => ⟨live_stepM i h s hl.1 a ha hm,
      fun hd' => prog_stepM i h s hl.1 a ha hm hl.2 hd'⟩) hr

end Rl4co.Ffsp
