/-
Helper lemmas for C09: chains and cycles of a successor array (`Linked`, `CycleOf`), rotation,
unlink / splice, predecessor (`argsort`) of a cycle, the `visited_time` walk.  Core Lean only.
-/
import Rl4co.Env.Improve
import Rl4co.Spec.Improve

namespace Rl4co.Improve
open Rl4co.Spec.Improve

theorem linked_cons_cons (r : Rec) (x y : Nat) (t : List Nat) :
    Linked r (x :: y :: t) ↔ r x = y ∧ Linked r (y :: t) := Iff.rfl

theorem linked_append_mid (r : Rec) (A : List Nat) (x : Nat) (B : List Nat) :
    Linked r (A ++ x :: B) ↔ Linked r (A ++ [x]) ∧ Linked r (x :: B) := by
  induction A with
  | nil => simp [Linked]
  | cons a A ih =>
    cases A with
    | nil => simp [Linked]
    | cons a' A' =>
      simp only [List.cons_append, linked_cons_cons] at ih ⊢
      rw [ih]; exact and_assoc.symm

theorem linked_congr (r1 r2 : Rec) (l : List Nat) (h : ∀ x ∈ l.dropLast, r1 x = r2 x) :
    Linked r1 l ↔ Linked r2 l := by
  induction l with
  | nil => simp [Linked]
  | cons a l ih =>
    cases l with
    | nil => simp [Linked]
    | cons b t =>
      simp only [linked_cons_cons]
      have ha : r1 a = r2 a := h a (by simp [List.dropLast])
      have := ih (fun x hx => h x (by simp [List.dropLast] at hx ⊢; exact Or.inr hx))
      rw [ha, this]

theorem linked_map (r : Rec) (l : List Nat) (z : Nat) (h : Linked r (l ++ [z])) :
    l.map r = (l ++ [z]).drop 1 := by
  induction l with
  | nil => simp
  | cons a l ih =>
    cases l with
    | nil => simp [Linked] at h ⊢; exact h
    | cons b t =>
      simp only [List.cons_append, linked_cons_cons] at h
      have := ih h.2
      simp only [List.map_cons, List.cons_append, List.drop_succ_cons, List.drop_zero] at this ⊢
      rw [this, h.1]


theorem cycleOf_cons (r : Rec) (x : Nat) (t : List Nat) :
    CycleOf r (x :: t) ↔ Linked r (x :: t ++ [x]) := by
  simp [CycleOf]

/-- cutting a cycle at two places: both arcs are chains ending at the head of the other arc -/
theorem cycleOf_append_cons_cons (r : Rec) (a b : Nat) (A B : List Nat) :
    CycleOf r ((a :: A) ++ (b :: B)) ↔ Linked r (a :: A ++ [b]) ∧ Linked r (b :: B ++ [a]) := by
  rw [List.cons_append, cycleOf_cons]
  have : a :: (A ++ b :: B) ++ [a] = (a :: A) ++ b :: (B ++ [a]) := by simp
  rw [this, linked_append_mid]
  simp

theorem cycleOf_rotate (r : Rec) (A B : List Nat) : CycleOf r (A ++ B) ↔ CycleOf r (B ++ A) := by
  cases A with
  | nil => simp
  | cons a A =>
    cases B with
    | nil => simp
    | cons b B =>
      rw [cycleOf_append_cons_cons, cycleOf_append_cons_cons]
      exact and_comm

/-- the successor of every member of a cycle is a member -/
theorem cycleOf_map (r : Rec) (x : Nat) (t : List Nat) (h : CycleOf r (x :: t)) :
    (x :: t).map r = t ++ [x] := by
  rw [cycleOf_cons] at h
  have := linked_map r (x :: t) x h
  simpa using this

theorem cycleOf_mem_closed (r : Rec) (seq : List Nat) (h : CycleOf r seq) {y : Nat} (hy : y ∈ seq) :
    r y ∈ seq := by
  cases seq with
  | nil => simp at hy
  | cons x t =>
    have hm := cycleOf_map r x t h
    have : r y ∈ (x :: t).map r := List.mem_map_of_mem hy
    rw [hm] at this
    simp at this ⊢
    exact this.symm

theorem inj_of_nodup_map {f : Nat → Nat} : ∀ (l : List Nat), (l.map f).Nodup →
    ∀ x ∈ l, ∀ y ∈ l, f x = f y → x = y := by
  intro l
  induction l with
  | nil => intro _ x hx; simp at hx
  | cons a l ih =>
    intro hnd x hx y hy hxy
    simp only [List.map_cons, List.nodup_cons, List.mem_map, not_exists, not_and] at hnd
    rcases List.mem_cons.mp hx with rfl | hx' <;> rcases List.mem_cons.mp hy with rfl | hy'
    · rfl
    · exact absurd hxy.symm (hnd.1 y hy')
    · exact absurd hxy (hnd.1 x hx')
    · exact ih hnd.2 x hx' y hy' hxy

/-- the successor function is injective on a duplicate-free cycle -/
theorem cycleOf_inj (r : Rec) (seq : List Nat) (h : CycleOf r seq) (hnd : seq.Nodup)
    {x y : Nat} (hx : x ∈ seq) (hy : y ∈ seq) (hxy : r x = r y) : x = y := by
  cases seq with
  | nil => simp at hx
  | cons a t =>
    have hm := cycleOf_map r a t h
    have hnd' : ((a :: t).map r).Nodup := by
      rw [hm]
      have : (t ++ [a]).Perm (a :: t) := (List.perm_append_comm : (t ++ [a]).Perm ([a] ++ t))
      exact this.nodup_iff.mpr hnd
    exact inj_of_nodup_map (a :: t) hnd' x hx y hy hxy

/-! ### `argsort` of a permutation is its inverse -/

theorem insertBy_perm (key : Nat → Nat) (x : Nat) : ∀ l : List Nat, (insertBy key x l).Perm (x :: l) := by
  intro l
  induction l with
  | nil => exact List.Perm.refl _
  | cons y ys ih =>
    simp only [insertBy]
    split
    · exact List.Perm.refl _
    · exact (List.Perm.cons y ih).trans (List.Perm.swap x y ys)

theorem isortBy_perm (key : Nat → Nat) : ∀ l : List Nat, (isortBy key l).Perm l := by
  intro l
  induction l with
  | nil => exact List.Perm.refl _
  | cons x xs ih => exact (insertBy_perm key x _).trans (List.Perm.cons x ih)

theorem insertBy_sorted (key : Nat → Nat) (x : Nat) : ∀ l : List Nat,
    l.Pairwise (fun a b => key a ≤ key b) → (insertBy key x l).Pairwise (fun a b => key a ≤ key b) := by
  intro l
  induction l with
  | nil => intro _; simp [insertBy]
  | cons y ys ih =>
    intro h
    simp only [insertBy]
    have h' := List.pairwise_cons.mp h
    split
    · rename_i hxy
      refine List.pairwise_cons.mpr ⟨?_, h⟩
      intro z hz
      rcases List.mem_cons.mp hz with rfl | hz
      · exact hxy
      · exact Nat.le_trans hxy (h'.1 z hz)
    · rename_i hxy
      refine List.pairwise_cons.mpr ⟨?_, ih h'.2⟩
      intro z hz
      have hz' : z ∈ x :: ys := (insertBy_perm key x ys).mem_iff.mp hz
      rcases List.mem_cons.mp hz' with rfl | hz'
      · omega
      · exact h'.1 z hz'

theorem isortBy_sorted (key : Nat → Nat) : ∀ l : List Nat,
    (isortBy key l).Pairwise (fun a b => key a ≤ key b) := by
  intro l
  induction l with
  | nil => simp [isortBy]
  | cons x xs ih => exact insertBy_sorted key x _ ih

/-- reading a permutation of `0..n-1` at its argsort gives `0..n-1` in order -/
theorem argsortL_map (n : Nat) (r : Rec) (hp : ((List.range n).map r).Perm (List.range n)) :
    (argsortL n r).map r = List.range n := by
  have h1 : ((argsortL n r).map r).Perm (List.range n) :=
    ((isortBy_perm r (List.range n)).map r).trans hp
  have h2 : ((argsortL n r).map r).Pairwise (· ≤ ·) := by
    rw [List.pairwise_map]; exact isortBy_sorted r (List.range n)
  exact List.Perm.eq_of_pairwise (le := fun a b : Nat => a ≤ b) (by intro a b _ _ h1 h2; omega)
    h2 ((List.pairwise_lt_range (n := n)).imp (by intro a b h; omega)) h1

/-- **`argsort` of a permutation array is its inverse**: if the entries `rec[0..n-1]` are a permutation of
`0..n-1` and `rec[x] = y`, then `rec.argsort()[y] = x`. -/
theorem argsort_eq (n : Nat) (r : Rec) (hp : ((List.range n).map r).Perm (List.range n))
    (x y : Nat) (hx : x < n) (hxy : r x = y) : argsort n r y = x := by
  have hmap := argsortL_map n r hp
  have hlen : (argsortL n r).length = n := by
    have := congrArg List.length hmap; simpa using this
  have hy : y < n := by
    have : y ∈ (List.range n).map r := List.mem_map.mpr ⟨x, List.mem_range.mpr hx, hxy⟩
    exact List.mem_range.mp (hp.mem_iff.mp this)
  have hget : argsort n r y = (argsortL n r)[y]'(by omega) := by
    simp [argsort, List.getD_eq_getElem?_getD, List.getElem?_eq_getElem (h := (by omega : y < (argsortL n r).length))]
  have hval : r ((argsortL n r)[y]'(by omega)) = y := by
    have := congrArg (fun l => l[y]?) hmap
    simp only [List.getElem?_map, List.getElem?_range hy] at this
    rw [List.getElem?_eq_getElem (h := (by omega : y < (argsortL n r).length))] at this
    simpa using this
  have hmemL : (argsortL n r)[y]'(by omega) < n := by
    have : (argsortL n r)[y]'(by omega) ∈ List.range n :=
      (isortBy_perm r (List.range n)).mem_iff.mp (List.getElem_mem _)
    exact List.mem_range.mp this
  have hnd : ((List.range n).map r).Nodup := hp.nodup_iff.mpr List.nodup_range
  rw [hget]
  exact inj_of_nodup_map (List.range n) hnd _ (List.mem_range.mpr hmemL) x (List.mem_range.mpr hx)
    (by rw [hval, hxy])

/-- the successor array of a cycle through `0..n-1` is a permutation of `0..n-1` -/
theorem map_perm_of_cycle (n : Nat) (r : Rec) (seq : List Nat) (hp : seq.Perm (List.range n))
    (hc : CycleOf r seq) : ((List.range n).map r).Perm (List.range n) := by
  have h1 : ((List.range n).map r).Perm (seq.map r) := (hp.symm.map r)
  refine h1.trans (List.Perm.trans ?_ hp)
  cases seq with
  | nil => simp
  | cons x t =>
    rw [cycleOf_map r x t hc]
    exact (List.perm_append_comm : (t ++ [x]).Perm ([x] ++ t))

theorem cycle_map_perm (r : Rec) (seq : List Nat) (hc : CycleOf r seq) : (seq.map r).Perm seq := by
  cases seq with
  | nil => simp
  | cons x t =>
    rw [cycleOf_map r x t hc]
    exact (List.perm_append_comm : (t ++ [x]).Perm ([x] ++ t))

/-- a cycle through all nodes but one fixed point `p` is still a permutation array -/
theorem map_perm_of_cycle_fix (n : Nat) (r : Rec) (seq : List Nat) (p : Nat)
    (hp : (p :: seq).Perm (List.range n)) (hc : CycleOf r seq) (hfix : r p = p) :
    ((List.range n).map r).Perm (List.range n) := by
  refine (hp.symm.map r).trans (List.Perm.trans ?_ hp)
  simp only [List.map_cons, hfix]
  exact List.Perm.cons p (cycle_map_perm r seq hc)

/-- on a tour `argsort` is the predecessor array -/
theorem argsort_of_cycle (n : Nat) (r : Rec) (seq : List Nat) (hp : seq.Perm (List.range n))
    (hc : CycleOf r seq) (x y : Nat) (hx : x < n) (hxy : r x = y) : argsort n r y = x :=
  argsort_eq n r (map_perm_of_cycle n r seq hp hc) x y hx hxy

/-- updating the successor of a node outside the cycle does not matter -/
theorem cycleOf_upd_notMem (r : Rec) (seq : List Nat) (v w : Nat) (hv : v ∉ seq) :
    CycleOf (upd r v w) seq ↔ CycleOf r seq := by
  unfold CycleOf
  apply linked_congr
  intro x hx
  have : x ∈ seq := by
    have := List.dropLast_subset _ hx
    rcases List.mem_append.mp this with h | h
    · exact h
    · exact List.mem_of_mem_take h
  have hne : x ≠ v := fun e => hv (e ▸ this)
  simp [upd, hne]


theorem linked_congr_concat (r1 r2 : Rec) (l : List Nat) (z : Nat) (h : ∀ x ∈ l, r1 x = r2 x) :
    Linked r1 (l ++ [z]) ↔ Linked r2 (l ++ [z]) := by
  apply linked_congr
  intro x hx
  rw [List.dropLast_concat] at hx
  exact h x hx

/-- unlink: `… x v y …` becomes `… x y …` when the successor of `x` is set to the successor of `v` -/
theorem cycle_remove (r : Rec) (L R : List Nat) (x v : Nat)
    (hc : CycleOf r (L ++ x :: v :: R)) (hnd : (L ++ x :: v :: R).Nodup) :
    CycleOf (upd r x (r v)) (L ++ x :: R) := by
  rw [cycleOf_rotate] at hc ⊢
  have hc' : Linked r (x :: v :: ((R ++ L) ++ [x])) := by
    simpa [cycleOf_cons] using hc
  have hx : x ∉ R ++ L := by
    intro hm
    have : x ∈ L ∨ x ∈ R := by simpa [or_comm] using hm
    simp [List.nodup_append, List.nodup_cons] at hnd
    rcases this with h | h
    · exact (hnd.2.2 x h).1 rfl
    · exact hnd.2.1.1.2 h
  have goal' : Linked (upd r x (r v)) (x :: ((R ++ L) ++ [x])) := by
    generalize hT : R ++ L = T at hc' hx
    cases T with
    | nil =>
      simp only [List.nil_append, linked_cons_cons] at hc' ⊢
      simp [upd, hc'.2.1, Linked]
    | cons y T' =>
      simp only [List.cons_append, linked_cons_cons] at hc' ⊢
      refine ⟨by simp [upd, hc'.2.1], ?_⟩
      have := linked_congr_concat (upd r x (r v)) r (y :: T') x (fun z hz => by
        have : z ≠ x := fun e => hx (e ▸ hz)
        simp [upd, this])
      simp only [List.cons_append] at this
      exact this.mpr hc'.2.2
  simpa [cycleOf_cons] using goal'

/-- splice: `… s y …` becomes `… s v y …` -/
theorem cycle_insert (r : Rec) (S1 S2 : List Nat) (s v : Nat)
    (hc : CycleOf r (S1 ++ s :: S2)) (hs : s ∉ S1 ++ S2) (hv : v ∉ S1 ++ S2) (hsv : s ≠ v) :
    CycleOf (upd (upd r s v) v (r s)) (S1 ++ s :: v :: S2) := by
  rw [cycleOf_rotate] at hc ⊢
  have hc' : Linked r (s :: ((S2 ++ S1) ++ [s])) := by
    simpa [cycleOf_cons] using hc
  have hs' : s ∉ S2 ++ S1 := by simpa [or_comm] using hs
  have hv' : v ∉ S2 ++ S1 := by simpa [or_comm] using hv
  have goal' : Linked (upd (upd r s v) v (r s)) (s :: v :: ((S2 ++ S1) ++ [s])) := by
    generalize hT : S2 ++ S1 = T at hc' hs' hv'
    have e1 : upd (upd r s v) v (r s) s = v := by simp [upd, hsv]
    have e2 : upd (upd r s v) v (r s) v = r s := by simp [upd]
    cases T with
    | nil =>
      simp only [List.nil_append, linked_cons_cons] at hc' ⊢
      exact ⟨e1, by rw [e2]; exact hc'.1, trivial⟩
    | cons y T' =>
      simp only [List.cons_append, linked_cons_cons] at hc' ⊢
      refine ⟨e1, by rw [e2]; exact hc'.1, ?_⟩
      have := linked_congr_concat (upd (upd r s v) v (r s)) r (y :: T') s (fun z hz => by
        have h1 : z ≠ s := fun e => hs' (e ▸ hz)
        have h2 : z ≠ v := fun e => hv' (e ▸ hz)
        simp [upd, h1, h2])
      simp only [List.cons_append] at this
      exact this.mpr hc'.2
  simpa [cycleOf_cons] using goal'


theorem cycleOf_adjacent (r : Rec) (L R : List Nat) (x v : Nat)
    (hc : CycleOf r (L ++ x :: v :: R)) : r x = v := by
  rw [cycleOf_rotate] at hc
  have hc' : Linked r (x :: v :: ((R ++ L) ++ [x])) := by
    simpa [cycleOf_cons] using hc
  exact hc'.1

/-- the `visited_time` walk along a duplicate-free chain stamps consecutive numbers -/
theorem vtLoop_spec (r : Rec) : ∀ (W : List Nat) (pre i : Nat) (vt : Nat → Nat),
    Linked r (pre :: W) → W.Nodup →
    (∀ A x B, W = A ++ x :: B → vtLoop r W.length i pre vt x = i + A.length + 1) ∧
    (∀ x, x ∉ W → vtLoop r W.length i pre vt x = vt x) := by
  intro W
  induction W with
  | nil =>
    intro pre i vt _ _
    exact ⟨fun A x B h => by simp at h, fun x _ => rfl⟩
  | cons w W ih =>
    intro pre i vt hl hnd
    rw [linked_cons_cons] at hl
    have hnd' := List.nodup_cons.mp hnd
    obtain ⟨ih1, ih2⟩ := ih w (i + 1) (upd vt w (i + 1)) hl.2 hnd'.2
    have hstep : vtLoop r (w :: W).length i pre vt = vtLoop r W.length (i + 1) w (upd vt w (i + 1)) := by
      simp only [List.length_cons, vtLoop, hl.1]
    rw [hstep]
    constructor
    · intro A x B hdec
      cases A with
      | nil =>
        simp only [List.nil_append, List.cons.injEq] at hdec
        obtain ⟨rfl, _⟩ := hdec
        rw [ih2 w hnd'.1]
        simp [upd]
      | cons a A' =>
        simp only [List.cons_append, List.cons.injEq] at hdec
        rw [ih1 A' x B hdec.2]
        simp only [List.length_cons]; omega
    · intro x hx
      simp only [List.mem_cons, not_or] at hx
      rw [ih2 x hx.2]
      simp [upd, hx.1]

/-- reading a tour from the depot: `visited_time % gs` is the position in the tour -/
theorem vt_of_cycle (gs : Nat) (r : Rec) (rest : List Nat) (hc : CycleOf r (0 :: rest))
    (hnd : (0 :: rest).Nodup) (hlen : (0 :: rest).length = gs)
    (A : List Nat) (x : Nat) (B : List Nat) (hdec : 0 :: rest = A ++ x :: B) :
    visitedTime gs r x % gs = A.length := by
  rw [cycleOf_cons] at hc
  have hndW : (rest ++ [0]).Nodup := by
    have : (rest ++ [0]).Perm (0 :: rest) := (List.perm_append_comm : (rest ++ [0]).Perm ([0] ++ rest))
    exact this.nodup_iff.mpr hnd
  have hlenW : (rest ++ [0]).length = gs := by simpa using hlen
  obtain ⟨h1, _⟩ := vtLoop_spec r (rest ++ [0]) 0 0 (fun _ => 0) (by simpa using hc) hndW
  unfold visitedTime
  rw [← hlenW]
  cases A with
  | nil =>
    simp only [List.nil_append, List.cons.injEq] at hdec
    obtain ⟨rfl, _⟩ := hdec
    rw [h1 rest 0 [] rfl]
    simp
  | cons a A' =>
    simp only [List.cons_append, List.cons.injEq] at hdec
    obtain ⟨_, hrest⟩ := hdec
    have : rest ++ [0] = A' ++ x :: (B ++ [0]) := by rw [hrest]; simp
    rw [h1 A' x (B ++ [0]) this]
    have hl : (rest ++ [0]).length = A'.length + 1 + B.length + 1 := by rw [this]; simp; omega
    simp only [List.length_cons, Nat.zero_add]
    apply Nat.mod_eq_of_lt
    omega

end Rl4co.Improve
