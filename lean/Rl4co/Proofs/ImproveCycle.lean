/-
Helper lemmas for C09: chains and cycles of a successor array (`Linked`, `CycleOf`), rotation,
unlink / splice, predecessor (`argsort`) of a cycle, the `visited_time` walk.  Core Lean only.
-/
import Rl4co.Env.Improve
import Rl4co.Spec.Improve

namespace Rl4co.Improve
open Rl4co.Spec.Improve

theorem linked_cons_cons (r : Rec) (x y : Nat) (t : List Nat) :
    Linked r (x :: y :: t) ↔ r x = y ∧ Linked r (y :: t) := Iff.rfl

theorem linked_append_mid (r : Rec) (A : List Nat) (x : Nat) (B : List Nat) :
    Linked r (A ++ x :: B) ↔ Linked r (A ++ [x]) ∧ Linked r (x :: B) := by
  induction A with
  | nil => simp [Linked]
  | cons a A ih =>
    cases A with
    | nil => simp [Linked]
    | cons a' A' =>
      simp only [List.cons_append, linked_cons_cons] at ih ⊢
      rw [ih]; exact and_assoc.symm

theorem linked_congr (r1 r2 : Rec) (l : List Nat) (h : ∀ x ∈ l.dropLast, r1 x = r2 x) :
    Linked r1 l ↔ Linked r2 l := by
  induction l with
  | nil => simp [Linked]
  | cons a l ih =>
    cases l with
    | nil => simp [Linked]
    | cons b t =>
      simp only [linked_cons_cons]
      have ha : r1 a = r2 a := h a (by simp [List.dropLast])
      have := ih (fun x hx => h x (by simp [List.dropLast] at hx ⊢; exact Or.inr hx))
      rw [ha, this]

theorem linked_map (r : Rec) (l : List Nat) (z : Nat) (h : Linked r (l ++ [z])) :
    l.map r = (l ++ [z]).drop 1 := by
  induction l with
  | nil => simp
  | cons a l ih =>
    cases l with
    | nil => simp [Linked] at h ⊢; exact h
    | cons b t =>
      simp only [List.cons_append, linked_cons_cons] at h
      have := ih h.2
      simp only [List.map_cons, List.cons_append, List.drop_succ_cons, List.drop_zero] at this ⊢
      rw [this, h.1]


theorem cycleOf_cons (r : Rec) (x : Nat) (t : List Nat) :
    CycleOf r (x :: t) ↔ Linked r (x :: t ++ [x]) := by
  simp [CycleOf]

/-- cutting a cycle at two places: both arcs are chains ending at the head of the other arc -/
theorem cycleOf_append_cons_cons (r : Rec) (a b : Nat) (A B : List Nat) :
    CycleOf r ((a :: A) ++ (b :: B)) ↔ Linked r (a :: A ++ [b]) ∧ Linked r (b :: B ++ [a]) := by
  rw [List.cons_append, cycleOf_cons]
  have : a :: (A ++ b :: B) ++ [a] = (a :: A) ++ b :: (B ++ [a]) := by simp
  rw [this, linked_append_mid]
  simp

theorem cycleOf_rotate (r : Rec) (A B : List Nat) : CycleOf r (A ++ B) ↔ CycleOf r (B ++ A) := by
  cases A with
  | nil => simp
  | cons a A =>
    cases B with
    | nil => simp
    | cons b B =>
      rw [cycleOf_append_cons_cons, cycleOf_append_cons_cons]
      exact and_comm

/-- the successor of every member of a cycle is a member -/
theorem cycleOf_map (r : Rec) (x : Nat) (t : List Nat) (h : CycleOf r (x :: t)) :
    (x :: t).map r = t ++ [x] := by
  rw [cycleOf_cons] at h
  have := linked_map r (x :: t) x h
  simpa using this

theorem cycleOf_mem_closed (r : Rec) (seq : List Nat) (h : CycleOf r seq) {y : Nat} (hy : y ∈ seq) :
    r y ∈ seq := by
  cases seq with
  | nil => simp at hy
  | cons x t =>
    have hm := cycleOf_map r x t h
    have : r y ∈ (x :: t).map r := List.mem_map_of_mem hy
    rw [hm] at this
    simp at this ⊢
    exact this.symm

theorem inj_of_nodup_map {f : Nat → Nat} : ∀ (l : List Nat), (l.map f).Nodup →
    ∀ x ∈ l, ∀ y ∈ l, f x = f y → x = y := by
  intro l
  induction l with
  | nil => intro _ x hx; simp at hx
  | cons a l ih =>
    intro hnd x hx y hy hxy
    simp only [List.map_cons, List.nodup_cons, List.mem_map, not_exists, not_and] at hnd
    rcases List.mem_cons.mp hx with rfl | hx' <;> rcases List.mem_cons.mp hy with rfl | hy'
    · rfl
    · exact absurd hxy.symm (hnd.1 y hy')
    · exact absurd hxy (hnd.1 x hx')
    · exact ih hnd.2 x hx' y hy' hxy

/-- the successor function is injective on a duplicate-free cycle -/
theorem cycleOf_inj (r : Rec) (seq : List Nat) (h : CycleOf r seq) (hnd : seq.Nodup)
    {x y : Nat} (hx : x ∈ seq) (hy : y ∈ seq) (hxy : r x = r y) : x = y := by
  cases seq with
  | nil => simp at hx
  | cons a t =>
    have hm := cycleOf_map r a t h
    have hnd' : ((a :: t).map r).Nodup := by
      rw [hm]
      have : (t ++ [a]).Perm (a :: t) := (List.perm_append_comm : (t ++ [a]).Perm ([a] ++ t))
      exact this.nodup_iff.mpr hnd
    exact inj_of_nodup_map (a :: t) hnd' x hx y hy hxy

/-- `argsort` on (the relevant part of) an injective successor array is the predecessor -/
theorem pred_eq (n : Nat) (r : Rec) (x y : Nat) (hx : x < n) (hxy : r x = y)
    (huniq : ∀ i, i < n → r i = y → i = x) : pred n r y = x := by
  unfold pred
  cases hf : (List.range n).find? (fun i => r i == y) with
  | none =>
    have := List.find?_eq_none.mp hf x (List.mem_range.mpr hx)
    simp [hxy] at this
  | some i =>
    have h1 := List.find?_some hf
    have h2 := List.mem_of_find?_eq_some hf
    simp at h1
    simp [huniq i (List.mem_range.mp h2) h1]

theorem pred_of_cycle (n : Nat) (r : Rec) (seq : List Nat) (hp : seq.Perm (List.range n))
    (hc : CycleOf r seq) (x y : Nat) (hx : x < n) (hxy : r x = y) : pred n r y = x := by
  have hnd : seq.Nodup := hp.nodup_iff.mpr List.nodup_range
  apply pred_eq n r x y hx hxy
  intro i hi hiy
  have hi' : i ∈ seq := hp.mem_iff.mpr (List.mem_range.mpr hi)
  have hx' : x ∈ seq := hp.mem_iff.mpr (List.mem_range.mpr hx)
  exact cycleOf_inj r seq hc hnd hi' hx' (by rw [hiy, hxy])

/-- updating the successor of a node outside the cycle does not matter -/
theorem cycleOf_upd_notMem (r : Rec) (seq : List Nat) (v w : Nat) (hv : v ∉ seq) :
    CycleOf (upd r v w) seq ↔ CycleOf r seq := by
  unfold CycleOf
  apply linked_congr
  intro x hx
  have : x ∈ seq := by
    have := List.dropLast_subset _ hx
    rcases List.mem_append.mp this with h | h
    · exact h
    · exact List.mem_of_mem_take h
  have hne : x ≠ v := fun e => hv (e ▸ this)
  simp [upd, hne]


theorem linked_congr_concat (r1 r2 : Rec) (l : List Nat) (z : Nat) (h : ∀ x ∈ l, r1 x = r2 x) :
    Linked r1 (l ++ [z]) ↔ Linked r2 (l ++ [z]) := by
  apply linked_congr
  intro x hx
  rw [List.dropLast_concat] at hx
  exact h x hx

/-- unlink: `… x v y …` becomes `… x y …` when the successor of `x` is set to the successor of `v` -/
theorem cycle_remove (r : Rec) (L R : List Nat) (x v : Nat)
    (hc : CycleOf r (L ++ x :: v :: R)) (hnd : (L ++ x :: v :: R).Nodup) :
    CycleOf (upd r x (r v)) (L ++ x :: R) := by
  rw [cycleOf_rotate] at hc ⊢
  have hc' : Linked r (x :: v :: ((R ++ L) ++ [x])) := by
    simpa [cycleOf_cons] using hc
  have hx : x ∉ R ++ L := by
    intro hm
    have : x ∈ L ∨ x ∈ R := by simpa [or_comm] using hm
    simp [List.nodup_append, List.nodup_cons] at hnd
    rcases this with h | h
    · exact (hnd.2.2 x h).1 rfl
    · exact hnd.2.1.1.2 h
  have goal' : Linked (upd r x (r v)) (x :: ((R ++ L) ++ [x])) := by
    generalize hT : R ++ L = T at hc' hx
    cases T with
    | nil =>
      simp only [List.nil_append, linked_cons_cons] at hc' ⊢
      simp [upd, hc'.2.1, Linked]
    | cons y T' =>
      simp only [List.cons_append, linked_cons_cons] at hc' ⊢
      refine ⟨by simp [upd, hc'.2.1], ?_⟩
      have := linked_congr_concat (upd r x (r v)) r (y :: T') x (fun z hz => by
        have : z ≠ x := fun e => hx (e ▸ hz)
        simp [upd, this])
      simp only [List.cons_append] at this
      exact this.mpr hc'.2.2
  simpa [cycleOf_cons] using goal'

/-- splice: `… s y …` becomes `… s v y …` -/
theorem cycle_insert (r : Rec) (S1 S2 : List Nat) (s v : Nat)
    (hc : CycleOf r (S1 ++ s :: S2)) (hs : s ∉ S1 ++ S2) (hv : v ∉ S1 ++ S2) (hsv : s ≠ v) :
    CycleOf (upd (upd r s v) v (r s)) (S1 ++ s :: v :: S2) := by
  rw [cycleOf_rotate] at hc ⊢
  have hc' : Linked r (s :: ((S2 ++ S1) ++ [s])) := by
    simpa [cycleOf_cons] using hc
  have hs' : s ∉ S2 ++ S1 := by simpa [or_comm] using hs
  have hv' : v ∉ S2 ++ S1 := by simpa [or_comm] using hv
  have goal' : Linked (upd (upd r s v) v (r s)) (s :: v :: ((S2 ++ S1) ++ [s])) := by
    generalize hT : S2 ++ S1 = T at hc' hs' hv'
    have e1 : upd (upd r s v) v (r s) s = v := by simp [upd, hsv]
    have e2 : upd (upd r s v) v (r s) v = r s := by simp [upd]
    cases T with
    | nil =>
      simp only [List.nil_append, linked_cons_cons] at hc' ⊢
      exact ⟨e1, by rw [e2]; exact hc'.1, trivial⟩
    | cons y T' =>
      simp only [List.cons_append, linked_cons_cons] at hc' ⊢
      refine ⟨e1, by rw [e2]; exact hc'.1, ?_⟩
      have := linked_congr_concat (upd (upd r s v) v (r s)) r (y :: T') s (fun z hz => by
        have h1 : z ≠ s := fun e => hs' (e ▸ hz)
        have h2 : z ≠ v := fun e => hv' (e ▸ hz)
        simp [upd, h1, h2])
      simp only [List.cons_append] at this
      exact this.mpr hc'.2
  simpa [cycleOf_cons] using goal'


theorem cycleOf_adjacent (r : Rec) (L R : List Nat) (x v : Nat)
    (hc : CycleOf r (L ++ x :: v :: R)) : r x = v := by
  rw [cycleOf_rotate] at hc
  have hc' : Linked r (x :: v :: ((R ++ L) ++ [x])) := by
    simpa [cycleOf_cons] using hc
  exact hc'.1

/-- the `visited_time` walk along a duplicate-free chain stamps consecutive numbers -/
theorem vtLoop_spec (r : Rec) : ∀ (W : List Nat) (pre i : Nat) (vt : Nat → Nat),
    Linked r (pre :: W) → W.Nodup →
    (∀ A x B, W = A ++ x :: B → vtLoop r W.length i pre vt x = i + A.length + 1) ∧
    (∀ x, x ∉ W → vtLoop r W.length i pre vt x = vt x) := by
  intro W
  induction W with
  | nil =>
    intro pre i vt _ _
    exact ⟨fun A x B h => by simp at h, fun x _ => rfl⟩
  | cons w W ih =>
    intro pre i vt hl hnd
    rw [linked_cons_cons] at hl
    have hnd' := List.nodup_cons.mp hnd
    obtain ⟨ih1, ih2⟩ := ih w (i + 1) (upd vt w (i + 1)) hl.2 hnd'.2
    have hstep : vtLoop r (w :: W).length i pre vt = vtLoop r W.length (i + 1) w (upd vt w (i + 1)) := by
      simp only [List.length_cons, vtLoop, hl.1]
    rw [hstep]
    constructor
    · intro A x B hdec
      cases A with
      | nil =>
        simp only [List.nil_append, List.cons.injEq] at hdec
        obtain ⟨rfl, _⟩ := hdec
        rw [ih2 w hnd'.1]
        simp [upd]
      | cons a A' =>
        simp only [List.cons_append, List.cons.injEq] at hdec
        rw [ih1 A' x B hdec.2]
        simp only [List.length_cons]; omega
    · intro x hx
      simp only [List.mem_cons, not_or] at hx
      rw [ih2 x hx.2]
      simp [upd, hx.1]

/-- reading a tour from the depot: `visited_time % gs` is the position in the tour -/
theorem vt_of_cycle (gs : Nat) (r : Rec) (rest : List Nat) (hc : CycleOf r (0 :: rest))
    (hnd : (0 :: rest).Nodup) (hlen : (0 :: rest).length = gs)
    (A : List Nat) (x : Nat) (B : List Nat) (hdec : 0 :: rest = A ++ x :: B) :
    visitedTime gs r x % gs = A.length := by
  rw [cycleOf_cons] at hc
  have hndW : (rest ++ [0]).Nodup := by
    have : (rest ++ [0]).Perm (0 :: rest) := (List.perm_append_comm : (rest ++ [0]).Perm ([0] ++ rest))
    exact this.nodup_iff.mpr hnd
  have hlenW : (rest ++ [0]).length = gs := by simpa using hlen
  obtain ⟨h1, _⟩ := vtLoop_spec r (rest ++ [0]) 0 0 (fun _ => 0) (by simpa using hc) hndW
  unfold visitedTime
  rw [← hlenW]
  cases A with
  | nil =>
    simp only [List.nil_append, List.cons.injEq] at hdec
    obtain ⟨rfl, _⟩ := hdec
    rw [h1 rest 0 [] rfl]
    simp
  | cons a A' =>
    simp only [List.cons_append, List.cons.injEq] at hdec
    obtain ⟨_, hrest⟩ := hdec
    have : rest ++ [0] = A' ++ x :: (B ++ [0]) := by rw [hrest]; simp
    rw [h1 A' x (B ++ [0]) this]
    have hl : (rest ++ [0]).length = A'.length + 1 + B.length + 1 := by rw [this]; simp; omega
    simp only [List.length_cons, Nat.zero_add]
    apply Nat.mod_eq_of_lt
    omega

end Rl4co.Improve
