/-
The replay passes of the MTVRP checker characterised exactly (both directions at once): `replay_iff` and the
route-by-route reading `accR_iff_routes`, used by `Rl4co.Mtvrp.check_iff` (C06).  No Mathlib.
-/
import Rl4co.Proofs.MtvrpChecker

namespace Rl4co.Mtvrp
open Rl4co.Spec.Mtvrp

/-- `i` with the depot deadline enforced / not enforced at the end of a route -/
abbrev iC (i : Inst) : Inst := { i with openR := false }
abbrev iO (i : Inst) : Inst := { i with openR := true }

def ClosedC (i : Inst) (cur : Nat) (t len : Int) (r : List Nat) : Prop :=
  cmpInf .le (len + pathLen i.D (cur :: r ++ (if i.openR then [] else [0]))) i.limit = true ∧
  timeOk .le (iC i) cur t r = true

def TrailC (i : Inst) (cur : Nat) (t len : Int) (r : List Nat) : Prop :=
  cmpInf .le (len + pathLen i.D (cur :: r)) i.limit = true ∧ timeOk .le (iO i) cur t r = true

/-- the replay conditions along a list of routes: all but the last are closed by a depot visit -/
def AccR (i : Inst) : Nat → Int → Int → List (List Nat) → Prop
  | _, _, _, [] => True
  | cur, t, len, [r] => TrailC i cur t len r
  | cur, t, len, r :: r' :: rs => ClosedC i cur t len r ∧ AccR i 0 0 0 (r' :: rs)

theorem closedC_cons_iff (i : Inst) (cur : Nat) (t len : Int) (a : Nat) (r : List Nat) :
    ClosedC i cur t len (a :: r) ↔
      cmpInf .le (t + i.T cur a) (i.late a) = true ∧
      ClosedC i a (max (t + i.T cur a) (i.early a) + i.service a) (len + i.D cur a) r := by
  simp only [ClosedC, timeOk, within, Bool.and_eq_true, List.cons_append, pathLen_cons_cons]
  have e : len + (i.D cur a + pathLen i.D (a :: (r ++ if i.openR = true then [] else [0])))
      = len + i.D cur a + pathLen i.D (a :: (r ++ if i.openR = true then [] else [0])) := by omega
  rw [e]
  constructor
  · rintro ⟨h1, h2, h3⟩; exact ⟨h2, h1, h3⟩
  · rintro ⟨h2, h1, h3⟩; exact ⟨h1, h2, h3⟩

theorem trailC_cons_iff (i : Inst) (cur : Nat) (t len : Int) (a : Nat) (r : List Nat) :
    TrailC i cur t len (a :: r) ↔
      cmpInf .le (t + i.T cur a) (i.late a) = true ∧
      TrailC i a (max (t + i.T cur a) (i.early a) + i.service a) (len + i.D cur a) r := by
  simp only [TrailC, timeOk, within, Bool.and_eq_true, pathLen_cons_cons]
  have e : len + (i.D cur a + pathLen i.D (a :: r)) = len + i.D cur a + pathLen i.D (a :: r) := by omega
  rw [e]
  constructor
  · rintro ⟨h1, h2, h3⟩; exact ⟨h2, h1, h3⟩
  · rintro ⟨h2, h1, h3⟩; exact ⟨h1, h2, h3⟩

theorem accR_cons_iff (i : Inst) (cur : Nat) (t len : Int) (a : Nat) (r : List Nat) (rs : List (List Nat)) :
    AccR i cur t len ((a :: r) :: rs) ↔
      cmpInf .le (t + i.T cur a) (i.late a) = true ∧
      AccR i a (max (t + i.T cur a) (i.early a) + i.service a) (len + i.D cur a) (r :: rs) := by
  cases rs with
  | nil => simp only [AccR]; exact trailC_cons_iff i cur t len a r
  | cons r' rs =>
    simp only [AccR]
    rw [closedC_cons_iff]
    exact and_assoc

/-- whatever the shape of the route list, its first entry's length bound implies `len ≤ limit` -/
theorem accR_len {i : Inst} (hD : ∀ a b, 0 ≤ i.D a b) {cur : Nat} {t len : Int} {r : List Nat} {rs : List (List Nat)}
    (h : AccR i cur t len (r :: rs)) : cmpInf .le len i.limit = true := by
  cases rs with
  | nil =>
    refine cmpInf_le_of_le_of_le ?_ h.1
    have := pathLen_nonneg' hD (cur :: r); omega
  | cons r' rs =>
    refine cmpInf_le_of_le_of_le ?_ h.1.1
    have := pathLen_nonneg' hD (cur :: r ++ if i.openR = true then [] else [0]); omega

/-- **the replay loop characterised**: on a statically admissible instance the replay passes accept exactly the
action lists whose routes satisfy the closed / trailing conditions -/
theorem replay_iff (i : Inst) (hstat : checkStatic i = true) (hD : ∀ a b, 0 ≤ i.D a b) :
    ∀ (as : List Nat) (cur : Nat) (t len : Int), (∀ a ∈ as, a ≤ i.n) → cmpInf .le len i.limit = true →
    (checkReplay i cur t len as = true ↔ AccR i cur t len (routes as)) := by
  have hlim := checkStatic_limit hstat
  intro as
  induction as with
  | nil =>
    intro cur t len _ hlen
    simp only [checkReplay_nil, routes, AccR, TrailC, timeOk, pathLen, Int.add_zero, Bool.true_or, and_true, true_iff]
    exact hlen
  | cons a as ih =>
    intro cur t len hrange hlen
    obtain ⟨r1, rs1, h1⟩ := routes_cons_exists as
    have hrange' : ∀ b ∈ as, b ≤ i.n := fun b hb => hrange b (List.mem_cons_of_mem _ hb)
    have ha : a ≤ i.n := hrange a (by simp)
    have hsta := checkStatic_node hstat a ha
    simp only [checkReplay_cons, Params.mtvrpCheckLimitCmp, Params.mtvrpCheckTwCmp, Bool.and_eq_true]
    rw [cmpInf_le_max]
    by_cases h0 : a = 0
    · subst h0
      have ih0 := ih 0 0 0 hrange' hlim
      simp only [routes, if_true, h1, AccR, beq_self_eq_true]
      rw [h1] at ih0
      rw [ih0]
      have hE : cmpInf .le (i.early 0) (i.late 0) = true := cmpInf_le_of_lt hsta.2
      simp only [ClosedC, timeOk, within, hE, and_true]
      cases ho : i.openR
      · simp [pathLen]
      · simp [pathLen, hlen]
    · have hbeq : (a == 0) = false := by simp [h0]
      have hE : cmpInf .le (i.early a) (i.late a) = true := cmpInf_le_of_lt hsta.2
      simp only [routes, h0, if_false, h1, hbeq, Bool.false_eq_true, hE, and_true, and_false]
      rw [accR_cons_iff]
      constructor
      · rintro ⟨⟨okL, okT⟩, hrec⟩
        have := (ih a _ _ hrange' okL).1 hrec
        rw [h1] at this
        exact ⟨okT, this⟩
      · rintro ⟨okT, hacc⟩
        have hl := accR_len hD hacc
        refine ⟨⟨hl, okT⟩, ?_⟩
        have := (ih a (max (t + i.T cur a) (i.early a) + i.service a) _ hrange' hl).2
        rw [h1] at this
        exact this hacc


theorem mem_dropLast_or_last {α : Type} : ∀ (l : List α) (r : α), r ∈ l → r ∈ l.dropLast ∨ l.getLast? = some r
  | [], _, h => by simp at h
  | [x], r, h => by simp at h; subst h; simp
  | x :: y :: l, r, h => by
    rcases List.mem_cons.mp h with e | e
    · subst e; left; simp [List.dropLast]
    · rcases mem_dropLast_or_last (y :: l) r e with h' | h'
      · left; simp only [List.dropLast_cons_cons]; exact List.mem_cons_of_mem _ h'
      · right; simpa [List.getLast?_cons_cons] using h'

theorem mem_of_dropLast {α : Type} : ∀ (l : List α) (r : α), r ∈ l.dropLast → r ∈ l
  | [], _, h => by simp at h
  | [x], _, h => by simp at h
  | x :: y :: l, r, h => by
    simp only [List.dropLast_cons_cons] at h
    rcases List.mem_cons.mp h with e | e
    · subst e; simp
    · exact List.mem_cons_of_mem _ (mem_of_dropLast (y :: l) r e)

theorem mem_of_last {α : Type} : ∀ (l : List α) (r : α), l.getLast? = some r → r ∈ l
  | [], _, h => by simp at h
  | [x], r, h => by simp at h; subst h; simp
  | x :: y :: l, r, h => by
    rw [List.getLast?_cons_cons] at h
    exact List.mem_cons_of_mem _ (mem_of_last (y :: l) r h)

/-- the route-list form of the replay conditions, read route by route -/
theorem accR_iff_routes (i : Inst) (hlim : cmpInf .le 0 i.limit = true) (hl0 : cmpInf .le 0 (i.late 0) = true)
    (h00 : i.D 0 0 = 0) (hT00 : i.T 0 0 = 0) : ∀ (rs : List (List Nat)), rs ≠ [] →
    (AccR i 0 0 0 rs ↔
      (∀ r ∈ rs.dropLast, r ≠ [] → ClosedC i 0 0 0 r) ∧ (∀ r, rs.getLast? = some r → r ≠ [] → TrailC i 0 0 0 r))
  | [], h => absurd rfl h
  | [r], _ => by
    have hnil : TrailC i 0 0 0 [] := by simp [TrailC, timeOk, pathLen, hlim]
    simp only [AccR, List.dropLast_singleton, List.not_mem_nil, false_implies, implies_true, true_and,
      List.getLast?_singleton, Option.some.injEq]
    constructor
    · intro h r' e _; subst e; exact h
    · intro h
      by_cases hr : r = []
      · subst hr; exact hnil
      · exact h r rfl hr
  | r :: r' :: rs, _ => by
    have hnil : ClosedC i 0 0 0 [] := by
      refine ⟨?_, by simp [timeOk, within, hT00, hl0]⟩
      cases ho : i.openR <;> simp [pathLen, h00, hlim]
    have ih := accR_iff_routes i hlim hl0 h00 hT00 (r' :: rs) (by simp)
    simp only [AccR, List.dropLast_cons_cons, List.getLast?_cons_cons]
    rw [ih]
    constructor
    · rintro ⟨h1, h2, h3⟩
      refine ⟨?_, h3⟩
      intro x hx hne
      rcases List.mem_cons.mp hx with e | e
      · subst e; exact h1
      · exact h2 x e hne
    · rintro ⟨h1, h3⟩
      refine ⟨?_, fun x hx hne => h1 x (List.mem_cons_of_mem _ hx) hne, h3⟩
      by_cases hr : r = []
      · subst hr; exact hnil
      · exact h1 r (by simp) hr

end Rl4co.Mtvrp
