/-
Helper lemmas shared by the OP and PCTSP property proofs: sums over the customers, the sorted
neighbour duplicate test, rotation of closed tours.  No Mathlib.
-/
import Rl4co.Env.OpShared
import Rl4co.Core.Tour

namespace Rl4co.Prize

/-! ### `sumTo` -/

theorem sumTo_congr {n : Nat} {g h : Nat → Int} (H : ∀ k, k < n → g k = h k) :
    sumTo n g = sumTo n h := by
  induction n with
  | zero => rfl
  | succ n ih =>
    simp only [sumTo]
    rw [ih (fun k hk => H k (Nat.lt_succ_of_lt hk)), H n (Nat.lt_succ_self n)]

theorem sumTo_add (n : Nat) (g h : Nat → Int) :
    sumTo n (fun k => g k + h k) = sumTo n g + sumTo n h := by
  induction n with
  | zero => rfl
  | succ n ih => simp only [sumTo, ih]; omega

theorem sumTo_zero (n : Nat) : sumTo n (fun _ => 0) = 0 := by
  induction n with
  | zero => rfl
  | succ n ih => simp [sumTo, ih]

/-- a sum with a single non-zero term -/
theorem sumTo_single (n a : Nat) (x : Int) :
    sumTo n (fun k => if k + 1 = a then x else 0) = if 1 ≤ a ∧ a ≤ n then x else 0 := by
  induction n with
  | zero =>
    have : ¬ (1 ≤ a ∧ a ≤ 0) := by omega
    rw [if_neg this]; rfl
  | succ n ih =>
    simp only [sumTo, ih]
    by_cases h1 : n + 1 = a
    · have h2 : ¬ (1 ≤ a ∧ a ≤ n) := by omega
      have h3 : (1 ≤ a ∧ a ≤ n + 1) := by omega
      rw [if_neg h2, if_pos h3, if_pos h1]; omega
    · by_cases h2 : 1 ≤ a ∧ a ≤ n
      · have h3 : 1 ≤ a ∧ a ≤ n + 1 := by omega
        rw [if_pos h2, if_pos h3, if_neg h1]; omega
      · have h3 : ¬ (1 ≤ a ∧ a ≤ n + 1) := by omega
        rw [if_neg h2, if_neg h3, if_neg h1]; omega

/-- Gathering a depot-padded row along an action list in which every customer occurs at most once
and every entry is in range sums the row over the set of customers that occur. -/
theorem gatherSum_eq_sumTo (n : Nat) (f : Nat → Int) (as : List Nat)
    (hr : ∀ a ∈ as, a ≤ n) (ho : ∀ j, 1 ≤ j → j ≤ n → as.count j ≤ 1) :
    gatherSum f as = sumTo n (fun k => if k + 1 ∈ as then f (k + 1) else 0) := by
  induction as with
  | nil =>
    simp only [gatherSum, List.map_nil, List.sum_nil, List.not_mem_nil, if_false]
    exact (sumTo_zero n).symm
  | cons a t ih =>
    have hr' : ∀ b ∈ t, b ≤ n := fun b hb => hr b (List.mem_cons_of_mem _ hb)
    have ho' : ∀ j, 1 ≤ j → j ≤ n → t.count j ≤ 1 := by
      intro j h1 h2
      have := ho j h1 h2
      rw [List.count_cons] at this
      omega
    have ih' := ih hr' ho'
    simp only [gatherSum, List.map_cons, List.sum_cons] at ih' ⊢
    rw [ih']
    by_cases h0 : a = 0
    · subst h0
      simp only [padded, if_true, Int.zero_add]
      apply sumTo_congr
      intro k _
      simp
    · have han : a ≤ n := hr a (List.mem_cons_self)
      have hnot : a ∉ t := by
        intro hm
        have h1 := ho a (by omega) han
        rw [List.count_cons] at h1
        have h2 : 0 < t.count a := List.count_pos_iff.mpr hm
        simp at h1
        omega
      simp only [padded, h0, if_false]
      have hsplit : (fun k => if k + 1 ∈ a :: t then f (k + 1) else 0) =
          (fun k => (if k + 1 = a then f a else 0) + (if k + 1 ∈ t then f (k + 1) else 0)) := by
        funext k
        by_cases hk : k + 1 = a
        · subst hk
          simp [hnot]
        · have : (k + 1 ∈ a :: t) ↔ (k + 1 ∈ t) := by
            simp [List.mem_cons, hk]
          by_cases hkt : k + 1 ∈ t
          · simp [hk, hkt]
          · simp [hk, hkt]
      rw [hsplit, sumTo_add, sumTo_single]
      have : 1 ≤ a ∧ a ≤ n := by omega
      simp [this]

theorem gatherSum_append (f : Nat → Int) (as bs : List Nat) :
    gatherSum f (as ++ bs) = gatherSum f as + gatherSum f bs := by
  simp [gatherSum, List.sum_append]

theorem gatherSum_zero (f : Nat → Int) : gatherSum f [0] = 0 := by
  simp [gatherSum, padded]

/-- the sum over all customers splits into occurring and non-occurring ones -/
theorem sumTo_split (n : Nat) (f : Nat → Int) (p : Nat → Prop) [DecidablePred p] :
    sumTo n (fun k => f (k + 1)) =
      sumTo n (fun k => if p (k + 1) then f (k + 1) else 0) +
      sumTo n (fun k => if p (k + 1) then 0 else f (k + 1)) := by
  rw [← sumTo_add]
  apply sumTo_congr
  intro k _
  by_cases h : p (k + 1) <;> simp [h]

/-! ### the sorted-neighbours duplicate test -/

theorem adjOk_iff_of_sorted (s : List Nat) (hs : s.Pairwise (fun a b => a ≤ b)) :
    adjOk s = true ↔ ∀ j, 1 ≤ j → s.count j ≤ 1 := by
  induction s with
  | nil => simp [adjOk]
  | cons x t ih =>
    cases t with
    | nil =>
      simp only [adjOk, true_iff]
      intro j _
      rw [List.count_cons]; simp; split <;> omega
    | cons y r =>
      rw [List.pairwise_cons] at hs
      obtain ⟨hx, ht⟩ := hs
      have ih' := ih ht
      simp only [adjOk, Bool.and_eq_true, Bool.or_eq_true, beq_iff_eq, decide_eq_true_eq]
      constructor
      · rintro ⟨h1, h2⟩ j hj
        have h3 := ih'.mp h2 j hj
        rw [List.count_cons]
        by_cases hxj : x = j
        · subst hxj
          -- every element of y :: r is > x
          have hxy : x ≤ y := hx y (List.mem_cons_self)
          have hy : y > x := by
            rcases h1 with h1 | h1
            · omega
            · exact h1
          have hnot : x ∉ y :: r := by
            intro hm
            rcases List.mem_cons.mp hm with hh | hh
            · omega
            · have := (List.pairwise_cons.mp ht).1 x hh
              omega
          simp [List.count_eq_zero_of_not_mem hnot]
        · simp [hxj]; exact h3
      · intro h
        have hsub : ∀ j, 1 ≤ j → (y :: r).count j ≤ 1 := by
          intro j hj
          have := h j hj
          rw [List.count_cons] at this
          omega
        refine ⟨?_, ih'.mpr hsub⟩
        have hxy : x ≤ y := hx y (List.mem_cons_self)
        by_cases hy0 : y = 0
        · exact Or.inl hy0
        · refine Or.inr ?_
          by_cases hxe : x = y
          · subst hxe
            have := h x (by omega)
            simp at this
          · omega

theorem sortNat_pairwise (as : List Nat) : (sortNat as).Pairwise (fun a b => a ≤ b) := by
  have := List.pairwise_mergeSort (le := fun a b : Nat => decide (a ≤ b))
    (by intro a b c; simp; omega) (by intro a b; simp; omega) as
  simpa [sortNat] using this

theorem sortNat_count (as : List Nat) (j : Nat) : (sortNat as).count j = as.count j :=
  (List.mergeSort_perm as _).count_eq j

/-- The code's duplicate test passes iff every customer occurs at most once. -/
theorem adjOk_sort_iff (as : List Nat) :
    adjOk (sortNat as) = true ↔ ∀ j, 1 ≤ j → as.count j ≤ 1 := by
  rw [adjOk_iff_of_sorted _ (sortNat_pairwise as)]
  constructor
  · intro h j hj; rw [← sortNat_count]; exact h j hj
  · intro h j hj; rw [sortNat_count]; exact h j hj

end Rl4co.Prize

namespace Rl4co

/-! ### closed tours -/

/-- Rotating a closed tour by one position keeps its length. -/
theorem closedLen_rotate (D : Nat → Nat → Int) (u : List Nat) (x : Nat) :
    closedLen D (u ++ [x]) = closedLen D (x :: u) := by
  cases u with
  | nil => simp [closedLen]
  | cons y t =>
    simp only [closedLen, List.cons_append]
    have h1 : y :: (t ++ [x] ++ [y]) = (y :: (t ++ [x])) ++ [y] := by simp
    rw [h1, pathLen_append_singleton]
    have h2 : (y :: (t ++ [x])).getLast (by simp) = x := by
      rw [List.getLast_cons (by simp)]; simp
    rw [h2]
    rw [pathLen_cons_cons]
    omega

/-- `gather / roll / sum` over a list that ends at the depot = path depot → … → depot. -/
theorem rollLen_snoc_depot (D : Nat → Nat → Int) (u : List Nat) :
    rollLen D (u ++ [0]) = pathLen D (0 :: u ++ [0]) := by
  rw [rollLen_eq_closedLen, closedLen_rotate]; rfl

/-- Under the triangle inequality through the depot the cycle through the listed nodes is not longer
than the tour depot → nodes → depot. -/
theorem rollLen_le_depot_tour (D : Nat → Nat → Int) (h00 : 0 ≤ D 0 0)
    (htri : ∀ a b, D a b ≤ D a 0 + D 0 b) (as : List Nat) :
    rollLen D as ≤ pathLen D (0 :: as ++ [0]) := by
  rw [rollLen_eq_closedLen]
  cases as with
  | nil => simpa [closedLen, pathLen] using h00
  | cons y t =>
    show pathLen D ((y :: t) ++ [y]) ≤ pathLen D (0 :: y :: (t ++ [0]))
    rw [pathLen_cons_cons]
    have e : y :: (t ++ [0]) = (y :: t) ++ [0] := rfl
    rw [e, pathLen_append_singleton, pathLen_append_singleton]
    have := htri ((y :: t).getLast (by simp)) y
    omega

/-- the path from the depot through `as` closed at the depot, in terms of the open path -/
theorem depot_tour_eq (D : Nat → Nat → Int) (as : List Nat) :
    pathLen D (0 :: as ++ [0]) = pathLen D (0 :: as) + D ((0 :: as).getLast (by simp)) 0 := by
  have : 0 :: as ++ [0] = (0 :: as) ++ [0] := by simp
  rw [this, pathLen_append_singleton]

/-- customers of an action list, in order -/
def customers (as : List Nat) : List Nat := as.filter (fun a => a != 0)

theorem mem_customers {as : List Nat} {j : Nat} : j ∈ customers as ↔ j ∈ as ∧ j ≠ 0 := by
  simp [customers]

theorem count_customers (as : List Nat) (j : Nat) (hj : j ≠ 0) : (customers as).count j = as.count j := by
  induction as with
  | nil => simp [customers]
  | cons a t ih =>
    simp only [customers] at ih ⊢
    by_cases ha : a = 0
    · subst ha
      have : (0 == j) = false := by simp; omega
      simp [List.count_cons, this, ih]
    · have h1 : (a != 0) = true := by simp [ha]
      simp only [List.filter_cons, h1, if_true, List.count_cons, ih]

/-- one step towards the depot first is never shorter (triangle inequality through the depot) -/
theorem pathLen_via_depot (D : Nat → Nat → Int) (htri : ∀ a b, D a b ≤ D a 0 + D 0 b)
    (x h : Nat) (r : List Nat) : pathLen D (x :: h :: r) ≤ D x 0 + pathLen D (0 :: h :: r) := by
  rw [pathLen_cons_cons, pathLen_cons_cons]
  have := htri x h
  omega

/-- Dropping the intermediate depot visits does not lengthen a tour. -/
theorem pathLen_customers_le (D : Nat → Nat → Int) (h00 : D 0 0 = 0)
    (htri : ∀ a b, D a b ≤ D a 0 + D 0 b) (as : List Nat) :
    ∀ x, pathLen D (x :: customers as ++ [0]) ≤ pathLen D (x :: as ++ [0]) := by
  induction as with
  | nil => intro x; simp [customers]
  | cons a t ih =>
    intro x
    by_cases ha : a = 0
    · subst ha
      have e1 : customers (0 :: t) = customers t := by simp [customers]
      rw [e1]
      have e2 : x :: (0 :: t) ++ [0] = x :: 0 :: (t ++ [0]) := by simp
      rw [e2, pathLen_cons_cons]
      have ih0 := ih 0
      have e3 : 0 :: t ++ [0] = 0 :: (t ++ [0]) := by simp
      rw [e3] at ih0
      -- customers t ++ [0] is non-empty
      cases hc : customers t with
      | nil =>
        rw [hc] at ih0
        simp only [List.nil_append, List.cons_append] at ih0 ⊢
        simp only [pathLen, h00] at ih0
        simp only [pathLen]
        omega
      | cons h r =>
        rw [hc] at ih0
        have e4 : x :: (h :: r) ++ [0] = x :: h :: (r ++ [0]) := by simp
        have e5 : 0 :: (h :: r) ++ [0] = 0 :: h :: (r ++ [0]) := by simp
        rw [e4]; rw [e5] at ih0
        have := pathLen_via_depot D htri x h (r ++ [0])
        omega
    · have h1 : (a != 0) = true := by simp [ha]
      have e1 : customers (a :: t) = a :: customers t := by simp [customers, h1]
      rw [e1]
      have e2 : x :: (a :: customers t) ++ [0] = x :: a :: (customers t ++ [0]) := by simp
      have e3 : x :: (a :: t) ++ [0] = x :: a :: (t ++ [0]) := by simp
      rw [e2, e3, pathLen_cons_cons, pathLen_cons_cons]
      have := ih a
      have e4 : a :: customers t ++ [0] = a :: (customers t ++ [0]) := by simp
      have e5 : a :: t ++ [0] = a :: (t ++ [0]) := by simp
      rw [e4, e5] at this
      omega


/-- canonical representative of an action list: its customers in order, then one return to the
depot; the empty tour is `[0, 0]` -/
def canon (as : List Nat) : List Nat := if customers as = [] then [0, 0] else customers as ++ [0]

theorem mem_canon {as : List Nat} {j : Nat} (hj : j ≠ 0) : j ∈ canon as ↔ j ∈ as := by
  unfold canon
  split
  · rename_i h
    constructor
    · intro hm; simp at hm; omega
    · intro hm
      have : j ∈ customers as := mem_customers.mpr ⟨hm, hj⟩
      rw [h] at this; simp at this
  · simp [mem_customers, hj]

theorem count_canon (as : List Nat) (j : Nat) (hj : j ≠ 0) : (canon as).count j = as.count j := by
  unfold canon
  have h0 : (0 == j) = false := by simp; omega
  split
  · rename_i h
    have := count_customers as j hj
    rw [h] at this
    simp [List.count_cons, h0] at this ⊢
    omega
  · rw [List.count_append, count_customers as j hj]
    simp [List.count_cons, h0]

theorem canon_range {as : List Nat} {n : Nat} (hr : ∀ a ∈ as, a ≤ n) : ∀ a ∈ canon as, a ≤ n := by
  intro a ha
  by_cases h0 : a = 0
  · omega
  · exact hr a ((mem_canon h0).mp ha)

/-- the canonical representative is not longer (depot self-distance 0, triangle inequality through
the depot) -/
theorem pathLen_canon_le (D : Nat → Nat → Int) (h00 : D 0 0 = 0)
    (htri : ∀ a b, D a b ≤ D a 0 + D 0 b) (as : List Nat) :
    pathLen D (0 :: canon as ++ [0]) ≤ pathLen D (0 :: as ++ [0]) := by
  have key := pathLen_customers_le D h00 htri as 0
  unfold canon
  split
  · rename_i h
    rw [h] at key
    simp only [List.nil_append, List.cons_append] at key ⊢
    simp only [pathLen, h00] at key ⊢
    omega
  · have e : 0 :: (customers as ++ [0]) ++ [0] = (0 :: (customers as ++ [0])) ++ [0] := by simp
    have hl : (0 :: (customers as ++ [0])).getLast (by simp) = 0 := by
      rw [List.getLast_cons (by simp)]; simp
    rw [e, pathLen_append_singleton, hl, h00]
    have e2 : 0 :: customers as ++ [0] = 0 :: (customers as ++ [0]) := by simp
    rw [e2] at key
    omega

end Rl4co
