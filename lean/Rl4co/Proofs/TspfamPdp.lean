/-
PDP as an instance of the generic permutation environment, with the invariant that ties the stored
`action_mask` and `to_deliver` vectors to `available`:
  * the depot is not available (after the forced first step, if any),
  * `action_mask = available & to_deliver`,
  * `to_deliver` is set for the depot and every pickup,
  * the delivery `p + h` is open (`to_deliver`) exactly when its pickup `p` has been visited.
Core only, no Mathlib.
-/
import Rl4co.Env.Pdp
import Rl4co.Proofs.TspfamParams
import Rl4co.Proofs.TspfamAvail

namespace Rl4co.Pdp
open Rl4co.Tspfam

theorem half (i : Inst) : i.n / 2 = i.h := by
  simp only [Inst.n]; omega

/-- partner index touched by a pickup: its delivery -/
theorem nt_pickup (i : Inst) {a : Nat} (ha : a ≤ i.h) : pairIdx i a = a + i.h := by
  rw [pairIdx_eq, half]
  exact Nat.mod_eq_of_lt (by simp only [Inst.n]; omega)

/-- partner index touched by a delivery `a = q + h`: the (already set) entry `q - 1 ≤ h - 1` -/
theorem nt_delivery (i : Inst) {a : Nat} (h1 : i.h < a) (h2 : a ≤ i.n) :
    pairIdx i a = a - i.h - 1 := by
  rw [pairIdx_eq, half]
  simp only [Inst.n] at h2 ⊢
  have : a + i.h = (a - i.h - 1) + (2 * i.h + 1) := by omega
  rw [this, Nat.add_mod_right]
  exact Nat.mod_eq_of_lt (by omega)

structure Main (i : Inst) (s : State) : Prop where
  av0 : s.avail 0 = false
  am  : ∀ j, s.amask j = (s.avail j && s.toDeliver j)
  tdp : ∀ j, j ≤ i.h → s.toDeliver j = true
  tdd : ∀ p, 1 ≤ p → p ≤ i.h → s.toDeliver (p + i.h) = !s.avail p

/-- state invariant: still at the forced start, or `Main` -/
def Inv (i : Inst) (s : State) : Prop := (i.force = true ∧ s = reset i) ∨ Main i s

theorem main_reset (i : Inst) (hf : i.force = false) : Main i (reset i) := by
  simp only [reset, hf]
  refine ⟨by simp, ?_, ?_, ?_⟩
  · intro j; by_cases hj : j = 0 <;> simp [hj]
  · intro j hj; simp only [Bool.false_eq_true, if_false, toDeliver0_eq, decide_eq_true_eq]; omega
  · intro p hp1 hp2
    simp only [Bool.false_eq_true, if_false, toDeliver0_eq]
    have : ¬ (p + i.h < i.h + 1) := by omega
    have h2 : p ≠ 0 := by omega
    simp [this, h2]

theorem main_step (i : Inst) (s : State) (a : Nat) (hm : Main i s) (ha : a < i.n + 1)
    (hmask : s.amask a = true) : Main i (step i s a) := by
  rw [hm.am a] at hmask
  simp only [Bool.and_eq_true] at hmask
  obtain ⟨hav, htd⟩ := hmask
  have ha0 : a ≠ 0 := by intro h; rw [h, hm.av0] at hav; cases hav
  refine ⟨?_, fun _ => rfl, ?_, ?_⟩
  · simp only [step, upd_apply]; split
    · rfl
    · exact hm.av0
  · intro j hj
    simp only [step, upd_apply]; split
    · rfl
    · exact hm.tdp j hj
  · intro p hp1 hp2
    simp only [step]
    by_cases hah : a ≤ i.h
    · -- a pickup: opens its own delivery
      rw [nt_pickup i hah]
      by_cases hpa : p = a
      · subst hpa; simp
      · have h1 : p + i.h ≠ a + i.h := by omega
        simp only [upd_apply, h1, hpa, if_false]
        exact hm.tdd p hp1 hp2
    · -- a delivery: touches an entry ≤ h - 1, no delivery entry changes
      have hn : a ≤ i.n := by omega
      rw [nt_delivery i (by omega) hn]
      have h1 : p + i.h ≠ a - i.h - 1 := by simp only [Inst.n] at hn; omega
      have h2 : p ≠ a := by omega
      simp only [upd_apply, h1, h2, if_false]
      exact hm.tdd p hp1 hp2

theorem main_forced_first (i : Inst) (hf : i.force = true) : Main i (step i (reset i) 0) := by
  simp only [reset, hf, if_true, step]
  have hnt : pairIdx i 0 = i.h := by
    have := nt_pickup i (a := 0) (Nat.zero_le _); simpa using this
  refine ⟨by simp, fun _ => rfl, ?_, ?_⟩
  · intro j hj
    simp only [upd_apply]; split
    · rfl
    · simp only [toDeliver0_eq, decide_eq_true_eq]; omega
  · intro p hp1 hp2
    rw [hnt]
    have h1 : p + i.h ≠ i.h := by omega
    have h2 : p ≠ 0 := by omega
    have h3 : ¬ (p + i.h < i.h + 1) := by omega
    simp [h2, toDeliver0_eq, h3]

theorem forced_mask (i : Inst) (hf : i.force = true) (a : Nat) :
    (reset i).amask a = decide (a = 0) := by
  simp [reset, hf]

theorem inv_step (i : Inst) (s : State) (a : Nat) (hi : Inv i s) (ha : a < env.nAct i)
    (hm : env.mask i s a = true) : Inv i (env.step i s a) := by
  right
  rcases hi with ⟨hf, hs⟩ | hmain
  · subst hs
    have : a = 0 := by
      have := forced_mask i hf a
      simp only [env, mask] at hm
      rw [hm] at this
      simpa using this.symm
    subst this
    exact main_forced_first i hf
  · exact main_step i s a hmain ha hm

theorem reset_done (i : Inst) : (reset i).done = false := by
  simp only [reset]; split <;> rfl

/-- PDP as a permutation environment -/
def availEnv : AvailEnv env where
  avail s := s.avail
  todo i := if i.force then i.n + 1 else i.n
  Inv := Inv
  inv_reset := by
    intro i
    by_cases hf : i.force = true
    · exact Or.inl ⟨hf, rfl⟩
    · exact Or.inr (main_reset i (by simpa using hf))
  inv_step := inv_step
  mask_avail := by
    intro i s a hi hm
    rcases hi with ⟨hf, hs⟩ | hmain
    · subst hs; simp [reset, hf]
    · simp only [env, mask] at hm
      rw [hmain.am a] at hm
      simp only [Bool.and_eq_true] at hm
      exact hm.1
  step_avail := fun _ _ _ => rfl
  step_done := fun i s a => (doneCmp_ok (cnt (i.n + 1) (upd s.avail a false))).2.2.1
  reset_done := reset_done
  reset_cnt := by
    intro i
    by_cases hf : i.force = true
    · simp only [env, reset, hf, if_true]
      exact cnt_eq_n.mpr (fun _ _ => rfl)
    · have hf' : i.force = false := by simpa using hf
      simp only [env, reset, hf', Bool.false_eq_true, if_false]
      exact cnt_ne_zero i.n

end Rl4co.Pdp
