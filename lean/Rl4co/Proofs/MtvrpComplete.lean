/-
Converse direction for the MTVRP model (used by C05): from the route-continuation invariant back to the
mask.  Definitions of `Canonical` action lists and of the `Metric` side conditions; prefix lemmas (if the
rest of a route can be completed within the deadline / the distance limit, the direct way back to the
depot is within them too — triangle inequality); the generalised induction `run_of_cont`.  No Mathlib.
-/
import Rl4co.Proofs.MtvrpWf
import Rl4co.Proofs.Sort

namespace Rl4co.Mtvrp
open Rl4co.Spec.Mtvrp

/-- canonical action lists relative to the node the vehicle stands at: the depot is never chosen while
standing at the depot (the documented pruning of the mask) -/
def canon : Nat → List Nat → Bool
  | _, [] => true
  | cur, a :: as => (a != 0 || cur != 0) && canon a as

/-- Canonical complete solutions: no leading depot visit, no two consecutive depot visits, and the depot
is visited at least once (the environment only declares an episode finished once the depot is visited). -/
def Canonical (as : List Nat) : Prop := canon 0 as = true ∧ 0 ∈ as

/-- metric side conditions: non-negative distances / travel times / service times and the triangle
inequality towards the depot (Euclidean instances satisfy them) -/
structure Metric (i : Inst) : Prop where
  dNonneg : ∀ a b, 0 ≤ i.D a b
  dTri    : ∀ a b, i.D a 0 ≤ i.D a b + i.D b 0
  tTri    : ∀ a b, i.T a 0 ≤ i.T a b + i.T b 0
  sNonneg : ∀ a, 0 ≤ i.service a

theorem cmpInf_lt_of_le_of_lt {x y : Int} {o : Option Int} (h : x ≤ y) (hy : cmpInf .lt y o = true) :
    cmpInf .lt x o = true := by
  cases o with
  | none => rfl
  | some l => simp only [cmpInf, Cmp.eval, decide_eq_true_eq] at hy ⊢; omega

theorem cmpInf_le_of_le_of_le {x y : Int} {o : Option Int} (h : x ≤ y) (hy : cmpInf .le y o = true) :
    cmpInf .le x o = true := by
  cases o with
  | none => rfl
  | some l => simp only [cmpInf, Cmp.eval, decide_eq_true_eq] at hy ⊢; omega

/-- closed routes: if the rest of the route can be completed in time, the depot can be reached in time
directly (triangle inequality, waiting and service only delay) -/
theorem ret_of_timeOk {i : Inst} (hm : Metric i) (ho : i.openR = false) : ∀ (r : List Nat) (cur : Nat) (t : Int),
    timeOk .le i cur t r = true → cmpInf .le (t + i.T cur 0) (i.late 0) = true
  | [], cur, t, h => by simpa [timeOk, within, ho] using h
  | b :: r, cur, t, h => by
    simp only [timeOk, within, Bool.and_eq_true] at h
    have ih := ret_of_timeOk hm ho r b _ h.2
    refine cmpInf_le_of_le_of_le ?_ ih
    have := hm.tTri cur b
    have := hm.sNonneg b
    have : t + i.T cur b ≤ max (t + i.T cur b) (i.early b) := Int.le_max_left _ _
    omega

theorem pathLen_nonneg {i : Inst} (hm : Metric i) : ∀ (xs : List Nat), 0 ≤ pathLen i.D xs
  | [] => by simp [pathLen]
  | [_] => by simp [pathLen]
  | x :: y :: r => by
    rw [pathLen_cons_cons]
    have := hm.dNonneg x y
    have := pathLen_nonneg hm (y :: r)
    omega

/-- closed routes: the way back from `a` directly is no longer than through the rest of the route -/
theorem back_le_pathLen {i : Inst} (hm : Metric i) : ∀ (r : List Nat) (a : Nat),
    i.D a 0 ≤ pathLen i.D (a :: r ++ [0])
  | [], a => by simp [pathLen]
  | b :: r, a => by
    have := back_le_pathLen hm r b
    simp only [List.cons_append, pathLen_cons_cons] at this ⊢
    have := hm.dTri a b
    omega

theorem sum_map_nonneg {f : Nat → Int} : ∀ {l : List Nat}, (∀ k ∈ l, 0 ≤ f k) → 0 ≤ (l.map f).sum
  | [], _ => by simp
  | x :: l, h => by
    simp only [List.map_cons, List.sum_cons]
    have := h x (by simp)
    have := sum_map_nonneg (l := l) (fun k hk => h k (List.mem_cons_of_mem _ hk))
    omega

/-- From the continuation invariant of `a :: r` at state `s` to the admission of `a` by the mask. -/
theorem canVisit_of_cont {i : Inst} (hwf : wf i = true) (hm : Metric i) {s : State} {a : Nat} {r : List Nat}
    (h0 : a ≠ 0) (ha : a ≤ i.n) (hr : ∀ b ∈ r, b ≤ i.n) (hv : s.vis a = false)
    (hc : Cont .le i s (a :: r)) : canVisit i s a = true := by
  obtain ⟨c1, c2, c3, c4, c5, c6⟩ := hc
  simp only [timeOk, within, Bool.and_eq_true] at c6
  have hs := wf_servable hwf a (by omega) ha
  simp only [servable, Bool.and_eq_true, Bool.or_eq_true, decide_eq_true_eq] at hs
  obtain ⟨⟨⟨_, s2⟩, s3⟩, _⟩ := hs
  have hnnL : 0 ≤ (r.map i.dL).sum := sum_map_nonneg (fun k hk => (wf_dem hwf k (by have := hr k hk; omega)).1)
  have hnnB : 0 ≤ (r.map i.dB).sum := sum_map_nonneg (fun k hk => (wf_dem hwf k (by have := hr k hk; omega)).2.1)
  simp only [List.map_cons, List.sum_cons] at c1 c2
  -- the five conjuncts of `can_visit`
  have k1 : cmpInf .le (arrival i s a) (i.late a) = true := c6.1
  have k2 : cmpInf .le (if i.openR then 0 else retTime i s a) (i.late 0) = true := by
    cases ho : i.openR
    · simp only [Bool.false_eq_true, if_false, retTime, arrival]
      have := ret_of_timeOk hm ho r a _ c6.2
      have e : max (s.time + i.T s.cur a) (i.early a) + i.service a + i.T a 0
          = max (s.time + i.T s.cur a) (i.early a) + i.service a + i.T a 0 := rfl
      exact this
    · simpa [ho] using s2
  have k3 : meetsDemand i s a = true := by
    simp only [meetsDemand, Params.mtvrpMaskCapLCmp, Params.mtvrpMaskCapBCmp, Cmp.eval, Bool.or_eq_true,
      Bool.and_eq_true, Bool.not_eq_true', decide_eq_false_iff_not, decide_eq_true_eq]
    rcases s3 with ⟨p, _⟩ | ⟨p, _⟩
    · left
      refine ⟨⟨⟨?_, by omega⟩, ?_⟩, p⟩
      · simp only [lhMissing, decide_eq_true_eq]
        apply sum_map_pos (f := fun k => if s.vis k = true then 0 else i.dL k) (j := a)
        · intro k hk
          have := (wf_dem hwf k (List.mem_range.mp hk)).1
          split <;> omega
        · exact List.mem_range.mpr (by omega)
        · simp [hv, p]
      · intro hb
        exact c3 hb a (by simp) p
    · right; exact ⟨by omega, p⟩
  have k4 : cmpInf .le (lenVia i s a) i.limit = true := by
    refine cmpInf_le_of_le_of_le ?_ c5
    simp only [lenVia, List.cons_append, pathLen_cons_cons]
    cases ho : i.openR
    · simp only [Bool.false_eq_true, if_false]
      have := back_le_pathLen hm r a
      simp only [List.cons_append] at this
      omega
    · simp only [if_true, List.append_nil]
      have := pathLen_nonneg hm (a :: r)
      omega
  simp only [canVisit, Params.mtvrpMaskTwCmp, Params.mtvrpMaskDepotCmp, Params.mtvrpMaskLimitCmp,
    cmpInf_not_gt, k1, k2, k3, k4, hv, Bool.and_self, Bool.not_false]

/-- … and to the continuation invariant of the rest `r` after the step. -/
theorem cont_tail {i : Inst} {s : State} {a : Nat} {r : List Nat} (h0 : a ≠ 0)
    (hc : Cont .le i s (a :: r)) : Cont .le i (step i s a) r := by
  obtain ⟨e1, e2, e3, e4, e5⟩ := step_fields i s a h0
  obtain ⟨c1, c2, c3, c4, c5, c6⟩ := hc
  simp only [List.map_cons, List.sum_cons] at c1 c2
  simp only [timeOk, within, Bool.and_eq_true] at c6
  unfold Ordered at c4
  rw [List.pairwise_cons] at c4
  refine ⟨by rw [e4]; omega, by rw [e5]; omega, ?_, c4.2, ?_, ?_⟩
  · rw [e1]
    intro hb b hmem hl
    exact c4.1 b hmem ⟨hb, hl⟩
  · rw [e1, e2]
    simp only [List.cons_append, pathLen_cons_cons] at c5 ⊢
    have e : s.len + i.D s.cur a + pathLen i.D (a :: (r ++ if i.openR = true then [] else [0]))
        = s.len + (i.D s.cur a + pathLen i.D (a :: (r ++ if i.openR = true then [] else [0]))) := by omega
    rw [e]; exact c5
  · rw [e1, e3]; exact c6.2

/-- a complete route is a continuation from a fresh vehicle at the depot -/
theorem cont_of_routeOk {c : Cmp} {i : Inst} (hwf : wf i = true) {s : State} {r : List Nat} (hcur : s.cur = 0)
    (hlen : s.len = 0) (ht : s.time = 0) (hL : s.usedL = 0) (hB : s.usedB = 0) (h : RouteOk c i r) :
    Cont c i s r := by
  obtain ⟨c1, c2, c3, c4, c5⟩ := h
  refine ⟨by rw [hL]; omega, by rw [hB]; omega, ?_, c3, ?_, by rw [hcur, ht]; exact c5⟩
  · rw [hcur, (wf_depot hwf).2]; intro h; exact absurd h (by omega)
  · rw [hcur, hlen]; simpa [within, routeDist] using c4


theorem mem_of_mem_routes (as : List Nat) : ∀ r ∈ routes as, ∀ b ∈ r, b ∈ as := by
  induction as with
  | nil => intro r hr b hb; simp [routes] at hr; subst hr; simp at hb
  | cons a as ih =>
    intro r hr b hb
    obtain ⟨r1, rs1, h1⟩ := routes_cons_exists as
    by_cases h0 : a = 0
    · subst h0
      simp only [routes, if_true] at hr
      rcases List.mem_cons.mp hr with h | h
      · subst h; simp at hb
      · exact List.mem_cons_of_mem _ (ih r h b hb)
    · simp only [routes, h0, if_false, h1] at hr
      rcases List.mem_cons.mp hr with h | h
      · subst h
        rcases List.mem_cons.mp hb with h | h
        · subst h; simp
        · exact List.mem_cons_of_mem _ (ih r1 (by rw [h1]; simp) b h)
      · exact List.mem_cons_of_mem _ (ih r (by rw [h1]; simp [h]) b hb)

/-- Converse of the C01 induction, generalised over the start state. -/
theorem run_of_cont (i : Inst) (hwf : wf i = true) (hm : Metric i) : ∀ (as : List Nat) (s : State),
    (∀ a ∈ as, a ≤ i.n) →
    (∀ j, 1 ≤ j → j ∈ as → s.vis j = false) →
    (∀ j, 1 ≤ j → as.count j ≤ 1) →
    canon s.cur as = true →
    (∀ r rs, routes as = r :: rs → (r ≠ [] → Cont .le i s r) ∧ ∀ r' ∈ rs, r' ≠ [] → RouteOk .le i r') →
    ∃ s', Run env i s as s' ∧ ∀ j, s'.vis j = (s.vis j || decide (j ∈ as)) := by
  intro as
  induction as with
  | nil => intro s _ _ _ _ _; exact ⟨s, Run.nil s, by simp⟩
  | cons a as ih =>
    intro s hrange hunv hcount hcanon hroutes
    obtain ⟨r1, rs1, h1⟩ := routes_cons_exists as
    simp only [canon, Bool.and_eq_true, Bool.or_eq_true, bne_iff_ne, ne_eq] at hcanon
    have hrange' : ∀ b ∈ as, b ≤ i.n := fun b hb => hrange b (List.mem_cons_of_mem _ hb)
    have hcount' : ∀ j, 1 ≤ j → as.count j ≤ 1 := by
      intro j hj
      have := hcount j hj
      rw [List.count_cons] at this
      omega
    by_cases h0 : a = 0
    · subst h0
      have hcur : s.cur ≠ 0 := by
        rcases hcanon.1 with h | h
        · exact absurd rfl h
        · exact h
      have hmask : mask i s 0 = true := by simp [mask_def, hcur]
      have hr := hroutes [] (r1 :: rs1) (by simp [routes, h1])
      obtain ⟨s', hrun, hvis⟩ := ih (step i s 0) hrange'
        (by
          intro j hj hmem
          have : j ≠ 0 := by omega
          simp only [step_def, upd_apply, this, if_false]
          exact hunv j hj (List.mem_cons_of_mem _ hmem))
        hcount' hcanon.2
        (by
          intro r rs hrs
          rw [h1] at hrs
          simp only [List.cons.injEq] at hrs
          obtain ⟨e1, e2⟩ := hrs
          subst e1 e2
          refine ⟨fun hne => ?_, fun r' hr' hne => hr.2 r' (List.mem_cons_of_mem _ hr') hne⟩
          exact cont_of_routeOk hwf (s := step i s 0) rfl rfl rfl rfl rfl (hr.2 r1 (by simp) hne))
      refine ⟨s', Run.cons (by simp [env]) hmask hrun, ?_⟩
      intro j
      rw [hvis j]
      simp only [step_def, upd_apply, List.mem_cons]
      by_cases hj : j = 0 <;> simp [hj]
    · have hr := hroutes (a :: r1) rs1 (by simp [routes, h0, h1])
      have hcont := hr.1 (by simp)
      have ha : a ≤ i.n := hrange a (by simp)
      have hv : s.vis a = false := hunv a (by omega) (by simp)
      have hr1 : ∀ b ∈ r1, b ≤ i.n := fun b hb =>
        hrange' b (mem_of_mem_routes as r1 (by rw [h1]; simp) b hb)
      have hcv := canVisit_of_cont hwf hm h0 ha hr1 hv hcont
      have hmask : mask i s a = true := by simp [mask_def, h0, hcv]
      obtain ⟨s', hrun, hvis⟩ := ih (step i s a) hrange'
        (by
          intro j hj hmem
          have hja : j ≠ a := by
            intro e; subst e
            have c1 := hcount j hj
            rw [List.count_cons_self] at c1
            have c2 := List.count_pos_iff.mpr hmem
            omega
          simp only [step_def, upd_apply, hja, if_false]
          exact hunv j hj (List.mem_cons_of_mem _ hmem))
        hcount' hcanon.2
        (by
          intro r rs hrs
          rw [h1] at hrs
          simp only [List.cons.injEq] at hrs
          obtain ⟨e1, e2⟩ := hrs
          subst e1 e2
          exact ⟨fun _ => cont_tail h0 hcont, hr.2⟩)
      refine ⟨s', Run.cons (by simp only [env]; omega) hmask hrun, ?_⟩
      intro j
      rw [hvis j]
      simp only [step_def, upd_apply, List.mem_cons]
      by_cases hj : j = a <;> simp [hj]

end Rl4co.Mtvrp
