/-
The run-time PDP oracle `pdpValidB` (walk from the depot, compare positions) decides the declarative
`PdpValid`.  Used by the C09 / C06 units to judge the outcomes of the real code.
-/
import Rl4co.Proofs.ImproveOracle
import Rl4co.Proofs.ImproveKoptK

namespace Rl4co.Improve
open Rl4co.Spec.Improve

theorem idxOf_decomp (A : List Nat) (x : Nat) (B : List Nat) (hx : x ∉ A) :
    (A ++ x :: B).idxOf x = A.length := by
  rw [List.idxOf_append, if_neg hx]; simp

/-- in a duplicate-free list "earlier position" and "sub-list `[x, y]`" coincide -/
theorem before_iff_idxOf (l : List Nat) (hnd : l.Nodup) (x y : Nat) (hx : x ∈ l) (hy : y ∈ l) (hxy : x ≠ y) :
    Before l x y ↔ l.idxOf x < l.idxOf y := by
  obtain ⟨A, B, hAB⟩ := List.append_of_mem hx
  subst hAB
  have hxA : x ∉ A := by
    intro h
    have := (List.nodup_append.mp hnd).2.2 x h x (by simp)
    exact this rfl
  have hxB : x ∉ B := by
    have := (List.nodup_append.mp hnd).2.1
    exact (List.nodup_cons.mp this).1
  rw [idxOf_decomp A x B hxA]
  unfold Before
  rcases List.mem_append.mp hy with hyA | hyB
  · -- y before x
    have h1 : (A ++ x :: B).idxOf y < A.length := by
      rw [List.idxOf_append, if_pos hyA]; exact List.idxOf_lt_length_of_mem hyA
    constructor
    · intro hsub
      exfalso
      -- [x, y] <+ A ++ x :: B with y ∈ A only: impossible
      rcases List.sublist_append_iff.mp hsub with ⟨l1, l2, hl, h1s, h2s⟩
      have hyB : y ∉ x :: B := by
        intro h
        exact (List.nodup_append.mp hnd).2.2 y hyA y h rfl
      cases l1 with
      | nil =>
        simp only [List.nil_append] at hl; subst hl
        exact hyB (h2s.subset (by simp))
      | cons a l1' =>
        simp only [List.cons_append, List.cons.injEq] at hl
        obtain ⟨rfl, hl⟩ := hl
        exact hxA (h1s.subset (by simp))
    · intro h; omega
  · rcases List.mem_cons.mp hyB with h | hyB
    · exact absurd h.symm hxy
    · have hyA : y ∉ A := by
        intro h
        exact (List.nodup_append.mp hnd).2.2 y h y (List.mem_cons_of_mem _ hyB) rfl
      have h1 : (A ++ x :: B).idxOf y = B.idxOf y + 1 + A.length := by
        rw [List.idxOf_append, if_neg hyA, List.idxOf_cons]
        have : (x == y) = false := by simpa using hxy
        simp [this]
      constructor
      · intro _; omega
      · intro _
        exact (List.Sublist.cons_cons x (List.singleton_sublist.mpr hyB)).trans (List.sublist_append_right A _)

/-- the run-time PDP oracle decides `PdpValid` (for `gs > 0`) -/
theorem pdpValidB_iff (r : Rec) (gs : Nat) (hgs : 0 < gs) (hodd : gs % 2 = 1) :
    pdpValidB r gs = true ↔ PdpValid r gs := by
  have key : ∀ rest, (0 :: rest).Perm (List.range gs) → CycleOf r (0 :: rest) →
      ((∀ i, 1 ≤ i → i ≤ gs / 2 → Before (0 :: rest) i (i + gs / 2)) ↔
       ∀ k, k < gs / 2 → posFrom0 r gs (k + 1) < posFrom0 r gs (k + 1 + gs / 2)) := by
    intro rest hperm hcyc
    have hnd : (0 :: rest).Nodup := hperm.nodup_iff.mpr List.nodup_range
    have hlen : (0 :: rest).length = gs := hperm.length_eq.trans List.length_range
    have hmem : ∀ z, z ∈ 0 :: rest ↔ z < gs := fun z => hperm.mem_iff.trans List.mem_range
    have hw : walk r (gs - 1) 0 = rest := by
      rw [cycleOf_cons] at hcyc
      have h' : Linked r (0 :: rest) := KoptK.linked_prefix r (0 :: rest) [0] (by simpa using hcyc)
      have := walk_of_linked r rest 0 h'
      have hl : rest.length = gs - 1 := by simp at hlen; omega
      rw [hl] at this; exact this
    have hpos : ∀ x, posFrom0 r gs x = (0 :: rest).idxOf x := by
      intro x; simp only [posFrom0, hw]
    constructor
    · intro h k hk
      rw [hpos, hpos]
      exact (before_iff_idxOf _ hnd _ _ ((hmem _).mpr (by omega)) ((hmem _).mpr (by omega)) (by omega)).mp
        (h (k + 1) (by omega) (by omega))
    · intro h i hi1 hi2
      have := h (i - 1) (by omega)
      have e : i - 1 + 1 = i := by omega
      rw [e, hpos, hpos] at this
      exact (before_iff_idxOf _ hnd _ _ ((hmem _).mpr (by omega)) ((hmem _).mpr (by omega)) (by omega)).mpr this
  constructor
  · intro h
    simp only [pdpValidB, Bool.and_eq_true, List.all_eq_true, List.mem_range, decide_eq_true_eq] at h
    obtain ⟨ht, hp⟩ := h
    obtain ⟨rest, hperm, hcyc⟩ := isTour_from r gs (isTour_of_isTourB r gs ht) 0 hgs
    exact ⟨rest, hperm, hcyc, (key rest hperm hcyc).mpr hp⟩
  · rintro ⟨rest, hperm, hcyc, hp⟩
    simp only [pdpValidB, Bool.and_eq_true, List.all_eq_true, List.mem_range, decide_eq_true_eq]
    exact ⟨isTourB_of_isTour r gs ⟨_, hperm, hcyc⟩, (key rest hperm hcyc).mp hp⟩

end Rl4co.Improve
