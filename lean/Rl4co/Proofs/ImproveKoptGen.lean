/-
C09, action builder of the k-opt branch (`TSPkoptEnv._random_action` for k_max > 2 and the identical loop
inside `NeuOptPolicy.forward`): invariants of the sequential builder and the proof that every admitted
node sequence yields a well-formed segment-reversal move (`builder_wf`).  Imports Mathlib only through
`ImproveOracle` (one module).
-/
import Rl4co.Proofs.ImproveOracle
import Rl4co.Proofs.ImproveKoptK

namespace Rl4co.Improve.KoptGen
open Rl4co.Spec.Improve

/-- `visited_time_tag` of the action builder: position relative to the first selected node -/
def tagFn (n : Nat) (vt : Nat → Nat) (a0 : Nat) : Nat → Nat := fun j => (vt j + n - vt a0 % n) % n

/-- a listing of a cycle from a given start is the walk from that start -/
theorem listing_eq_walk (r : Rec) (a : Nat) (X : List Nat) (h : CycleOf r (a :: X)) :
    X = walk r X.length a := by
  rw [cycleOf_cons] at h
  have h' : Linked r (a :: X) := KoptK.linked_prefix r (a :: X) [a] (by simpa using h)
  exact (walk_of_linked r X a h').symm

/-- the tag of a node is its position in the tour read from the first selected node -/
theorem tag_pos (n : Nat) (r : Rec) (a0 : Nat) (X : List Nat)
    (hperm : (a0 :: X).Perm (List.range n)) (hcyc : CycleOf r (a0 :: X))
    (A : List Nat) (z : Nat) (B : List Nat) (hdec : a0 :: X = A ++ z :: B) :
    tagFn n (visitedTime n r) a0 z = A.length := by
  have hn : 0 < n := by
    have := hperm.length_eq; simp at this; omega
  have hlenX : X.length = n - 1 := by
    have := hperm.length_eq; simp at this; omega
  obtain ⟨rest, hperm0, hcyc0⟩ := isTour_from r n ⟨_, hperm, hcyc⟩ 0 hn
  have hnd0 : (0 :: rest).Nodup := hperm0.nodup_iff.mpr List.nodup_range
  have hlen0 : (0 :: rest).length = n := hperm0.length_eq.trans List.length_range
  have ha0 : a0 ∈ 0 :: rest := hperm0.mem_iff.mpr (hperm.mem_iff.mp (by simp))
  obtain ⟨P, Q, hPQ⟩ := List.append_of_mem ha0
  -- the listing from a0 is the rotation Q ++ P
  have hrot : CycleOf r (a0 :: (Q ++ P)) := by
    have := (cycleOf_rotate r P (a0 :: Q)).mp (hPQ ▸ hcyc0)
    simpa using this
  have hlenQP : (Q ++ P).length = n - 1 := by
    have := hlen0; rw [hPQ] at this; simp at this ⊢; omega
  have hX : X = Q ++ P := by
    rw [listing_eq_walk r a0 X hcyc, listing_eq_walk r a0 (Q ++ P) hrot, hlenX, hlenQP]
  have hva0 := vt_exact n r rest hcyc0 hnd0 hlen0 P a0 Q hPQ
  have hlenP : P.length + 1 + Q.length = n := by
    have := hlen0; rw [hPQ] at this; simp at this; omega
  have hva0' : visitedTime n r a0 % n = P.length := by
    rw [hva0]
    by_cases hP : P = []
    · simp [hP]
    · simp only [hP, if_false]; exact Nat.mod_eq_of_lt (by omega)
  unfold tagFn
  rw [hva0']
  cases A with
  | nil =>
    simp only [List.nil_append, List.cons.injEq] at hdec
    obtain ⟨rfl, _⟩ := hdec
    rw [hva0]
    by_cases hP : P = []
    · simp [hP]
    · simp only [hP, if_false, List.length_nil]
      have : P.length + n - P.length = n := by omega
      rw [this]; simp
  | cons a A' =>
    simp only [List.cons_append, List.cons.injEq] at hdec
    obtain ⟨_, hXd⟩ := hdec
    rw [hX] at hXd
    rcases List.append_eq_append_iff.mp hXd.symm with ⟨a', hQ, hB⟩ | ⟨c', hA, hP⟩
    · cases a' with
      | nil =>
        -- z is the first node of P
        simp only [List.append_nil, List.nil_append] at hQ hB
        have hdec0 : 0 :: rest = [] ++ z :: (B ++ a0 :: Q) ∨ True := Or.inr trivial
        have hP' : P = z :: B := hB.symm
        have hd : 0 :: rest = [] ++ z :: (B ++ a0 :: Q) := by rw [hPQ, hP']; simp
        have hvz := vt_exact n r rest hcyc0 hnd0 hlen0 [] z _ hd
        rw [hvz]; simp only [if_true, List.length_cons]
        have hA' : A'.length = Q.length := by rw [hQ]
        have hBl : P.length = B.length + 1 := by rw [hP']; simp
        have : n + n - P.length = n + (n - P.length) := by omega
        rw [this, Nat.add_mod_left, Nat.mod_eq_of_lt (by omega)]
        omega
      | cons y a'' =>
        -- z lies in Q
        simp only [List.cons_append, List.cons.injEq] at hB
        obtain ⟨rfl, hB'⟩ := hB
        have hd : 0 :: rest = (P ++ a0 :: A') ++ z :: a'' := by rw [hPQ, hQ]; simp
        have hvz := vt_exact n r rest hcyc0 hnd0 hlen0 _ z _ hd
        rw [hvz]
        have hne : P ++ a0 :: A' ≠ [] := by simp
        simp only [hne, if_false, List.length_append, List.length_cons]
        have hQl : Q.length = A'.length + 1 + a''.length := by rw [hQ]; simp; omega
        have : P.length + (A'.length + 1) + n - P.length = n + (A'.length + 1) := by omega
        rw [this, Nat.add_mod_left, Nat.mod_eq_of_lt (by omega)]
    · -- z lies in P, after the prefix c'
      have hd : 0 :: rest = c' ++ z :: (B ++ a0 :: Q) := by rw [hPQ, hP]; simp
      have hvz := vt_exact n r rest hcyc0 hnd0 hlen0 c' z _ hd
      rw [hvz]
      have hPl : P.length = c'.length + 1 + B.length := by rw [hP]; simp; omega
      have hAl : A'.length = Q.length + c'.length := by rw [hA]; simp
      simp only [List.length_cons]
      by_cases hc : c' = []
      · subst hc
        simp only [if_true, List.length_nil] at *
        have : n + n - P.length = n + (n - P.length) := by omega
        rw [this, Nat.add_mod_left, Nat.mod_eq_of_lt (by omega)]
        omega
      · simp only [hc, if_false]
        have : c'.length + n - P.length = n - 1 - B.length := by omega
        rw [this, Nat.mod_eq_of_lt (by omega)]
        omega


/-- first node of `Y`, or `a0` when `Y` is empty: the node that follows the part of the tour before `Y` -/
def hd (a0 : Nat) (Y : List Nat) : Nat := (Y ++ [a0]).headD a0

theorem hd_cons (a0 y : Nat) (Y : List Nat) : hd a0 (y :: Y) = y := rfl
theorem hd_nil (a0 : Nat) : hd a0 [] = a0 := rfl

/-- in a listing `a0 :: (A ++ c :: B)` of a cycle the successor of `c` is the head of `B`, or `a0` -/
theorem succ_in_listing (r : Rec) (a0 : Nat) (A : List Nat) (c : Nat) (B : List Nat)
    (h : CycleOf r (a0 :: (A ++ c :: B))) : r c = hd a0 B := by
  rw [cycleOf_cons] at h
  have e : a0 :: (A ++ c :: B) ++ [a0] = (a0 :: A) ++ c :: (B ++ [a0]) := by simp
  rw [e, linked_append_mid] at h
  cases B with
  | nil => exact h.2.1
  | cons b B' => exact h.2.1

theorem succ_first (r : Rec) (a0 : Nat) (X : List Nat) (h : CycleOf r (a0 :: X)) : r a0 = hd a0 X := by
  rw [cycleOf_cons] at h
  cases X with
  | nil => exact h.1
  | cons x X' => exact h.1

section fields
variable (n K : Nat) (r : Rec) (vt : Nat → Nat)

/-- the fields of the state after a NON-forced sub-step `i > 0` -/
theorem genStep_run_fields (i : Nat) (hi : 0 < i) (g : GenState) (hns : g.stopped = false) (c : Nat) :
    (genStep n K r vt i g c).actionIndex = g.actionIndex ++ [c] ∧
    (genStep n K r vt i g c).stopped = (g.nextOfLast == some c) ∧
    (genStep n K r vt i g c).admitted = (g.admitted && !(g.mask c) && decide (c < n)) ∧
    (genStep n K r vt i g c).tag = g.tag := by
  have hi' : i ≠ 0 := by omega
  simp [genStep, hns, hi, hi']

theorem genStep_continue_fields (i : Nat) (hi : 0 < i) (g : GenState) (hns : g.stopped = false) (c : Nat)
    (hne : g.nextOfLast ≠ some c) :
    (genStep n K r vt i g c).stopped = false ∧
    (genStep n K r vt i g c).kLeft = upd g.kLeft (i + 1) (r c) ∧
    (genStep n K r vt i g c).kRight = upd g.kRight (i - 1) c ∧
    (genStep n K r vt i g c).nextOfLast = some (r c) ∧
    (∀ z, (genStep n K r vt i g c).mask z = false →
      g.tag c < g.tag z ∨ (z = (g.actionIndex ++ [c]).headD 0 ∧ r c = (g.actionIndex ++ [c]).headD 0)) := by
  have hi' : i ≠ 0 := by omega
  have hb : (g.nextOfLast == some c) = false := by simpa using hne
  refine ⟨by simp [genStep, hns, hi, hi', hb], by simp [genStep, hns, hi, hi', hb],
    by simp [genStep, hns, hi, hi', hb], by simp [genStep, hns, hi, hi', hb], ?_⟩
  intro z hz
  simp [genStep, hns, hi, hi', hb] at hz
  have hhd : (g.actionIndex ++ [c]).headD 0 = g.actionIndex.head?.getD c := by
    cases g.actionIndex <;> simp
  rw [hhd]
  by_cases hcond : r c = g.actionIndex.head?.getD c
  · rw [if_pos hcond] at hz
    by_cases hza : z = g.actionIndex.head?.getD c
    · exact Or.inr ⟨hza, hcond⟩
    · left
      simp [upd, hza] at hz
      exact hz
  · rw [if_neg hcond] at hz
    left
    simpa using hz

theorem genStep_close_fields (i : Nat) (hi : 0 < i) (g : GenState) (hns : g.stopped = false) (c : Nat)
    (he : g.nextOfLast = some c) :
    (genStep n K r vt i g c).stopped = true ∧
    (genStep n K r vt i g c).kLeft = upd (upd g.kLeft (i + 1) (r c)) i (g.kLeft (i - 1)) ∧
    (genStep n K r vt i g c).kRight = upd (upd g.kRight (i - 1) c) i c := by
  have hi' : i ≠ 0 := by omega
  have hb : (g.nextOfLast == some c) = true := by simp [he]
  have h1 : i - 1 ≠ i + 1 := by omega
  have h2 : i - 1 ≠ i := by omega
  refine ⟨by simp [genStep, hns, hi, hi', hb], ?_, ?_⟩
  · simp [genStep, hns, hi, hi', hb, upd, h1]
  · simp [genStep, hns, hi, hi', hb, upd]

theorem genStep_forced_fields (i : Nat) (hi : 0 < i) (g : GenState) (hs : g.stopped = true) (c : Nat) :
    (genStep n K r vt i g c).stopped = true ∧
    (genStep n K r vt i g c).actionIndex = g.actionIndex ++ [g.actionIndex.headD 0] ∧
    (genStep n K r vt i g c).kLeft =
      upd (upd (upd g.kLeft i (g.actionIndex.headD 0)) (i + 1) (r (g.actionIndex.headD 0))) i (g.kLeft (i - 1)) ∧
    (genStep n K r vt i g c).kRight = upd g.kRight i (g.kRight (i - 1)) ∧
    (genStep n K r vt i g c).admitted = (g.admitted && decide (c < n)) := by
  have hi' : i ≠ 0 := by omega
  have h1 : i - 1 ≠ i + 1 := by omega
  have h2 : i - 1 ≠ i := by omega
  refine ⟨by simp [genStep, hs, hi, hi'], by simp [genStep, hs, hi, hi'], ?_, by simp [genStep, hs, hi, hi'],
    by simp [genStep, hs, hi, hi']⟩
  simp [genStep, hs, hi, hi', upd, h1, h2]

end fields


/-! ### list helpers -/

theorem map_range_upd_ge {α : Type} (f : Nat → α) (k idx : Nat) (v : α) (h : k ≤ idx) :
    (List.range k).map (upd f idx v) = (List.range k).map f := by
  apply List.map_congr_left
  intro j hj
  have : j ≠ idx := by have := List.mem_range.mp hj; omega
  simp [upd, this]

theorem map_range_succ {α : Type} (f : Nat → α) (k : Nat) :
    (List.range (k + 1)).map f = (List.range k).map f ++ [f k] := by
  rw [List.range_succ, List.map_append]; rfl

theorem map_range_init {α : Type} (f : Nat → α) (k : Nat) (L : List α) (x : α)
    (h : (List.range (k + 1)).map f = L ++ [x]) : (List.range k).map f = L ∧ f k = x := by
  rw [map_range_succ] at h
  have := List.append_inj' h (by simp)
  exact ⟨this.1, by simpa using this.2⟩

theorem getLastD_append_singleton {α : Type} (L : List α) (x d : α) : (L ++ [x]).getLastD d = x := by
  rw [List.getLastD_eq_getLast?]; simp


/-! ### invariants of the action builder -/

section inv
variable (n K : Nat) (r : Rec) (a0 : Nat) (X : List Nat)

/-- after `i + 1` sampled nodes, move still open: the tour read from `a0` is `a0, S₁ … S_i, Y`; the selected
nodes are `a0` and the last nodes of the segments -/
structure RunInv (i : Nat) (g : GenState) (segs : List (List Nat)) (Y : List Nat) : Prop where
  dec : X = segs.flatten ++ Y
  ne : ∀ S ∈ segs, S ≠ []
  len : segs.length = i
  idx : g.actionIndex = a0 :: segs.map (·.getLastD a0)
  ns : g.stopped = false
  nol : g.nextOfLast = some (hd a0 Y)
  kl : (List.range (i + 2)).map g.kLeft = a0 :: (segs.map (·.headD a0) ++ [hd a0 Y])
  kr : (List.range i).map g.kRight = segs.map (·.getLastD a0)
  msk : ∀ c, c < n → g.mask c = false → c ∈ Y ∨ (c = a0 ∧ Y = [])
  tag : g.tag = tagFn n (visitedTime n r) a0

/-- after `j + 1` sampled nodes, move closed (at sub-step `segs.length + 1`) -/
structure StopInv (j : Nat) (g : GenState) (segs : List (List Nat)) (Y : List Nat) : Prop where
  dec : X = segs.flatten ++ Y
  ne : ∀ S ∈ segs, S ≠ []
  st : g.stopped = true
  klen : segs.length + 1 ≤ j
  idx : g.actionIndex = a0 :: (segs.map (·.getLastD a0) ++ hd a0 Y :: List.replicate (j - segs.length - 1) a0)
  kl : (List.range (j + 1)).map g.kLeft = (a0 :: segs.map (·.headD a0)) ++
      List.replicate (j - segs.length) ((a0 :: segs.map (·.headD a0)).getLastD a0)
  kr : (List.range (j + 1)).map g.kRight = (segs.map (·.getLastD a0) ++ [hd a0 Y]) ++
      List.replicate (j - segs.length) (hd a0 Y)

variable {n K r a0 X}
variable (hperm : (a0 :: X).Perm (List.range n)) (hcyc : CycleOf r (a0 :: X))
include hperm hcyc

theorem run_step_continue {i : Nat} {g : GenState} {segs : List (List Nat)} {Y : List Nat}
    (h : RunInv n r a0 X i g segs Y) (c : Nat) (hc : c < n) (hm : g.mask c = false)
    (hne : c ≠ hd a0 Y) :
    ∃ S Y', RunInv n r a0 X (i + 1) (genStep n K r (visitedTime n r) (i + 1) g c) (segs ++ [S]) Y' := by
  have hnd : (a0 :: X).Nodup := hperm.nodup_iff.mpr List.nodup_range
  have hcY : c ∈ Y := by
    rcases h.msk c hc hm with h1 | ⟨h1, h2⟩
    · exact h1
    · exfalso; apply hne; rw [h2, h1]; rfl
  obtain ⟨Y1, Y', hY⟩ := List.append_of_mem hcY
  refine ⟨Y1 ++ [c], Y', ?_⟩
  have hnol : g.nextOfLast ≠ some c := by rw [h.nol]; intro e; exact hne (Option.some.inj e).symm
  obtain ⟨f1, _, _, f4⟩ := genStep_run_fields n K r (visitedTime n r) (i + 1) (by omega) g h.ns c
  obtain ⟨c1, c2, c3, c4, c5⟩ := genStep_continue_fields n K r (visitedTime n r) (i + 1) (by omega) g h.ns c hnol
  have hXdec : X = (segs.flatten ++ Y1) ++ c :: Y' := by rw [h.dec, hY]; simp
  have hrc : r c = hd a0 Y' := succ_in_listing r a0 _ c Y' (hXdec ▸ hcyc)
  have hhdY : hd a0 Y = (Y1 ++ [c]).headD a0 := by
    rw [hY]; cases Y1 <;> rfl
  constructor
  · rw [h.dec, hY]; simp
  · intro S hS
    rcases List.mem_append.mp hS with hS | hS
    · exact h.ne S hS
    · simp at hS; subst hS; simp
  · simp [h.len]
  · rw [f1, h.idx]; simp
  · exact c1
  · rw [c4, hrc]
  · rw [c2, map_range_succ, map_range_upd_ge _ _ _ _ (by omega), h.kl]
    simp [upd, hrc, hhdY]
  · rw [c3, map_range_succ]
    simp only [Nat.add_sub_cancel]
    rw [map_range_upd_ge _ _ _ _ (Nat.le_refl _), h.kr]
    simp [upd]
  · intro z hz hmz
    have ha0 : (g.actionIndex ++ [c]).headD 0 = a0 := by rw [h.idx]; simp
    rcases c5 z hmz with htag | ⟨hz0, hrc0⟩
    · left
      rw [h.tag] at htag
      have hposc : tagFn n (visitedTime n r) a0 c = (a0 :: (segs.flatten ++ Y1)).length :=
        tag_pos n r a0 X hperm hcyc _ c Y' (by rw [hXdec]; simp)
      have hzm : z ∈ a0 :: X := hperm.mem_iff.mpr (List.mem_range.mpr hz)
      rw [hXdec] at hzm
      have hzm' : z ∈ (a0 :: (segs.flatten ++ Y1) ++ [c]) ∨ z ∈ Y' := by
        simp only [List.mem_cons, List.mem_append] at hzm ⊢
        rcases hzm with h1 | (h1 | h1) | h1 | h1
        · exact Or.inl (Or.inl (Or.inl h1))
        · exact Or.inl (Or.inl (Or.inr (Or.inl h1)))
        · exact Or.inl (Or.inl (Or.inr (Or.inr h1)))
        · exact Or.inl (Or.inr (Or.inl h1))
        · exact Or.inr h1
      rcases hzm' with hzP | hzY
      · exfalso
        obtain ⟨A, B, hAB⟩ := List.append_of_mem hzP
        have hposz : tagFn n (visitedTime n r) a0 z = A.length :=
          tag_pos n r a0 X hperm hcyc A z (B ++ Y') (by
            rw [hXdec]
            have : a0 :: (segs.flatten ++ Y1 ++ c :: Y') = (a0 :: (segs.flatten ++ Y1) ++ [c]) ++ Y' := by simp
            rw [this, hAB]; simp)
        have hlen : A.length + 1 + B.length = (a0 :: (segs.flatten ++ Y1)).length + 1 := by
          have := congrArg List.length hAB
          simp at this ⊢; omega
        rw [hposc, hposz] at htag
        omega
      · exact hzY
    · right
      rw [ha0] at hz0 hrc0
      refine ⟨hz0, ?_⟩
      rw [hrc] at hrc0
      cases Y' with
      | nil => rfl
      | cons y Y'' =>
        exfalso
        rw [hd_cons] at hrc0
        rw [hXdec] at hnd
        have := (List.nodup_cons.mp hnd).1
        apply this; rw [← hrc0]; simp
  · rw [f4, h.tag]

omit hperm hcyc in
theorem run_step_close {i : Nat} {g : GenState} {segs : List (List Nat)} {Y : List Nat}
    (h : RunInv n r a0 X i g segs Y) (c : Nat) (hc : c = hd a0 Y) :
    StopInv a0 X (i + 1) (genStep n K r (visitedTime n r) (i + 1) g c) segs Y := by
  have hnol : g.nextOfLast = some c := by rw [h.nol, hc]
  obtain ⟨f1, _, _, _⟩ := genStep_run_fields n K r (visitedTime n r) (i + 1) (by omega) g h.ns c
  obtain ⟨c1, c2, c3⟩ := genStep_close_fields n K r (visitedTime n r) (i + 1) (by omega) g h.ns c hnol
  have hkl := h.kl
  have e1 : a0 :: (segs.map (·.headD a0) ++ [hd a0 Y]) = (a0 :: segs.map (·.headD a0)) ++ [hd a0 Y] := by simp
  rw [e1] at hkl
  obtain ⟨hkl1, _⟩ := map_range_init g.kLeft (i + 1) _ _ hkl
  -- g.kLeft i is the last entry of that list
  have hlast : g.kLeft i = (a0 :: segs.map (·.headD a0)).getLastD a0 := by
    rw [← hkl1, map_range_succ, getLastD_append_singleton]
  constructor
  · exact h.dec
  · exact h.ne
  · exact c1
  · rw [h.len]; exact Nat.le_refl _
  · rw [f1, h.idx, h.len, hc]; simp
  · rw [c2, map_range_succ]
    simp only [Nat.add_sub_cancel]
    rw [map_range_upd_ge _ _ _ _ (Nat.le_refl _), map_range_upd_ge _ _ _ _ (by omega), hkl1, h.len]
    simp [upd, hlast]
  · rw [c3, map_range_succ, map_range_succ]
    simp only [Nat.add_sub_cancel]
    rw [map_range_upd_ge _ _ _ _ (by omega), map_range_upd_ge _ _ _ _ (Nat.le_refl _), h.kr, h.len]
    simp [upd, hc]

omit hperm hcyc in
theorem stop_step {j : Nat} {g : GenState} {segs : List (List Nat)} {Y : List Nat}
    (h : StopInv a0 X j g segs Y) (c : Nat) :
    StopInv a0 X (j + 1) (genStep n K r (visitedTime n r) (j + 1) g c) segs Y := by
  obtain ⟨f1, f2, f3, f4, _⟩ := genStep_forced_fields n K r (visitedTime n r) (j + 1) (by omega) g h.st c
  have ha0 : g.actionIndex.headD 0 = a0 := by rw [h.idx]; rfl
  have hk := h.klen
  -- last entries of the previous lists
  have hjl : j - segs.length = (j - segs.length - 1) + 1 := by omega
  have hlastL : g.kLeft j = (a0 :: segs.map (·.headD a0)).getLastD a0 := by
    have := h.kl
    rw [hjl, List.replicate_succ', ← List.append_assoc] at this
    exact (map_range_init g.kLeft j _ _ this).2
  have hlastR : g.kRight j = hd a0 Y := by
    have := h.kr
    rw [hjl, List.replicate_succ', ← List.append_assoc] at this
    exact (map_range_init g.kRight j _ _ this).2
  constructor
  · exact h.dec
  · exact h.ne
  · exact f1
  · omega
  · rw [f2, ha0, h.idx]
    have : j + 1 - segs.length - 1 = (j - segs.length - 1) + 1 := by omega
    rw [this, List.replicate_succ']
    simp
  · rw [f3, map_range_succ]
    simp only [Nat.add_sub_cancel]
    rw [map_range_upd_ge _ _ _ _ (Nat.le_refl _), map_range_upd_ge _ _ _ _ (by omega),
      map_range_upd_ge _ _ _ _ (Nat.le_refl _), h.kl]
    have : j + 1 - segs.length = (j - segs.length) + 1 := by omega
    rw [this, List.replicate_succ', ← List.append_assoc]
    simp [upd, hlastL]
  · rw [f4, map_range_succ]
    simp only [Nat.add_sub_cancel]
    rw [map_range_upd_ge _ _ _ _ (Nat.le_refl _), h.kr]
    have : j + 1 - segs.length = (j - segs.length) + 1 := by omega
    rw [this, List.replicate_succ', ← List.append_assoc]
    simp [upd, hlastR]

omit hperm hcyc in
theorem genStep_admitted (i : Nat) (g : GenState) (c : Nat) :
    (genStep n K r (visitedTime n r) i g c).admitted =
      (g.admitted && ((decide (i > 0) && g.stopped) || !(g.mask c)) && decide (c < n)) := rfl

omit hperm hcyc in
theorem genLoop_admitted : ∀ (cs : List Nat) (i : Nat) (g : GenState),
    (genLoop n K r (visitedTime n r) i g cs).admitted = true → g.admitted = true := by
  intro cs
  induction cs with
  | nil => intro i g h; exact h
  | cons c cs ih =>
    intro i g h
    have := ih (i + 1) _ h
    rw [genStep_admitted] at this
    simp only [Bool.and_eq_true] at this
    exact this.1.1

/-- the first sampled node -/
theorem base_step (mask0 : Nat → Bool) :
    RunInv n r a0 X 0 (genStep n K r (visitedTime n r) 0 { mask := mask0 } a0) [] X := by
  have hnd : (a0 :: X).Nodup := hperm.nodup_iff.mpr List.nodup_range
  have hra0 := succ_first r a0 X hcyc
  constructor
  · simp
  · intro S hS; simp at hS
  · rfl
  · simp [genStep]
  · simp [genStep]
  · simp [genStep, hra0]
  · simp [genStep, upd, hra0, List.range_succ]
  · simp
  · intro z hz hmz
    by_cases hza : z = a0
    · right
      refine ⟨hza, ?_⟩
      subst hza
      -- the mask of the first node is only lifted when it is its own successor
      simp [genStep] at hmz
      cases X with
      | nil => rfl
      | cons x X' =>
        exfalso
        rw [hd_cons] at hra0
        have := (List.nodup_cons.mp hnd).1
        apply this
        have : r z = z := by
          by_contra hne
          simp [hne] at hmz
        rw [← this, hra0]; simp
    · left
      have : z ∈ a0 :: X := hperm.mem_iff.mpr (List.mem_range.mpr hz)
      rcases List.mem_cons.mp this with h | h
      · exact absurd h hza
      · exact h
  · simp only [genStep]; rfl

theorem loop_inv : ∀ (cs : List Nat) (i : Nat) (g : GenState) (segs : List (List Nat)) (Y : List Nat),
    (RunInv n r a0 X i g segs Y ∨ StopInv a0 X i g segs Y) →
    (genLoop n K r (visitedTime n r) (i + 1) g cs).admitted = true →
    ∃ segs' Y',
      RunInv n r a0 X (i + cs.length) (genLoop n K r (visitedTime n r) (i + 1) g cs) segs' Y' ∨
      StopInv a0 X (i + cs.length) (genLoop n K r (visitedTime n r) (i + 1) g cs) segs' Y' := by
  intro cs
  induction cs with
  | nil => intro i g segs Y h _; exact ⟨segs, Y, h⟩
  | cons c cs ih =>
    intro i g segs Y h hadm
    have hadm1 := genLoop_admitted (n := n) (K := K) (r := r) cs (i + 1 + 1) _ hadm
    have hidx : i + (c :: cs).length = (i + 1) + cs.length := by simp; omega
    rw [hidx]
    show ∃ segs' Y',
      RunInv n r a0 X (i + 1 + cs.length) (genLoop n K r (visitedTime n r) (i + 1 + 1)
        (genStep n K r (visitedTime n r) (i + 1) g c) cs) segs' Y' ∨
      StopInv a0 X (i + 1 + cs.length) (genLoop n K r (visitedTime n r) (i + 1 + 1)
        (genStep n K r (visitedTime n r) (i + 1) g c) cs) segs' Y'
    rcases h with hrun | hstop
    · rw [genStep_admitted, hrun.ns] at hadm1
      simp only [Bool.and_false, Bool.false_or, Bool.and_eq_true, Bool.not_eq_true',
        decide_eq_true_eq] at hadm1
      obtain ⟨⟨_, hmc⟩, hcn⟩ := hadm1
      by_cases hc : c = hd a0 Y
      · exact ih (i + 1) _ segs Y (Or.inr (run_step_close (K := K) hrun c hc)) hadm
      · obtain ⟨S, Y', hnew⟩ := run_step_continue (K := K) hperm hcyc hrun c hcn hmc hc
        exact ih (i + 1) _ (segs ++ [S]) Y' (Or.inl hnew) hadm
    · exact ih (i + 1) _ segs Y (Or.inr (stop_step (K := K) hstop c)) hadm

end inv


/-! ### from the invariants to a well-formed move -/

theorem pairs_eq_zip (t0 : Nat) : ∀ (segs : List (List Nat)) (R : List Nat) (u : Nat),
    pairs t0 u segs R =
      List.zip (u :: segs.map (·.headD t0)) (segs.map (·.getLastD t0) ++ [hd t0 R]) := by
  intro segs
  induction segs with
  | nil => intro R u; rfl
  | cons S segs ih => intro R u; simp [pairs, ih]

theorem last_pair_mem (t0 : Nat) : ∀ (segs : List (List Nat)) (R : List Nat) (u d : Nat),
    ((u :: segs.map (·.headD t0)).getLastD d, hd t0 R) ∈ pairs t0 u segs R := by
  intro segs
  induction segs with
  | nil => intro R u d; simp [pairs, hd]
  | cons S segs ih =>
    intro R u d
    have := ih R (S.headD t0) d
    simp only [pairs, List.map_cons, List.mem_cons]
    right
    rw [List.getLastD_eq_getLast?] at this ⊢
    simpa [List.getLast?_cons_cons] using this

theorem hd_mem (a0 : Nat) (Y : List Nat) : hd a0 Y = a0 ∨ hd a0 Y ∈ Y := by
  cases Y with
  | nil => exact Or.inl rfl
  | cons y Y' => exact Or.inr (by simp [hd_cons])

theorem succ_general (r : Rec) (a0 : Nat) (X Pre : List Nat) (u : Nat) (Rest : List Nat)
    (h : CycleOf r (a0 :: X)) (hdec : a0 :: X = Pre ++ u :: Rest) : r u = hd a0 Rest := by
  rw [cycleOf_cons] at h
  have e : a0 :: X ++ [a0] = Pre ++ u :: (Rest ++ [a0]) := by
    have : a0 :: X ++ [a0] = (a0 :: X) ++ [a0] := by simp
    rw [this, hdec]; simp
  rw [e, linked_append_mid] at h
  cases Rest with
  | nil => exact h.2.1
  | cons b B' => exact h.2.1

theorem map_r_sel (r : Rec) (a0 : Nat) (X : List Nat) (hcyc : CycleOf r (a0 :: X)) :
    ∀ (segs : List (List Nat)) (Pre : List Nat) (u : Nat) (Y : List Nat),
    (∀ S ∈ segs, S ≠ []) → a0 :: X = Pre ++ u :: (segs.flatten ++ Y) →
    (u :: segs.map (·.getLastD a0)).map r = segs.map (·.headD a0) ++ [hd a0 Y] := by
  intro segs
  induction segs with
  | nil =>
    intro Pre u Y _ hdec
    simp only [List.flatten_nil, List.nil_append] at hdec
    simp [succ_general r a0 X Pre u Y hcyc hdec]
  | cons S segs ih =>
    intro Pre u Y hne hdec
    have hS := hne S (by simp)
    rcases List.eq_nil_or_concat S with h | ⟨Sinit, l, h⟩
    · exact absurd h hS
    · rw [List.concat_eq_append] at h
      subst h
      have hru := succ_general r a0 X Pre u _ hcyc hdec
      have hhd : hd a0 (((Sinit ++ [l]) :: segs).flatten ++ Y) = (Sinit ++ [l]).headD a0 := by
        cases Sinit <;> rfl
      have hdec' : a0 :: X = (Pre ++ u :: Sinit) ++ l :: (segs.flatten ++ Y) := by
        rw [hdec]; simp
      have := ih (Pre ++ u :: Sinit) l Y (fun S' hS' => hne S' (List.mem_cons_of_mem _ hS')) hdec'
      simp only [List.map_cons, getLastD_append_singleton] at this ⊢
      rw [this, hru, hhd]
      simp

theorem flatten_perm_heads_tails (d : Nat) : ∀ (segs : List (List Nat)), (∀ S ∈ segs, S ≠ []) →
    segs.flatten.Perm (segs.map (·.headD d) ++ (segs.map List.tail).flatten) := by
  intro segs
  induction segs with
  | nil => intro _; simp
  | cons S segs ih =>
    intro hne
    have hS := hne S (by simp)
    cases S with
    | nil => exact absurd rfl hS
    | cons h t =>
      have ih' := ih (fun S' hS' => hne S' (List.mem_cons_of_mem _ hS'))
      simp only [List.flatten_cons, List.map_cons, List.headD_cons, List.tail_cons, List.cons_append]
      refine List.Perm.cons h ?_
      refine (List.Perm.append_left t ih').trans ?_
      rw [← List.append_assoc, ← List.append_assoc]
      exact List.Perm.append_right _ List.perm_append_comm


/-- an action in canonical form (links of the segments, padded by repeating the last link; selected
nodes = `a0`, the last nodes of the segments, and possibly copies of `a0` / the closing node) is a
well-formed move -/
theorem wf_of_canonical (n : Nat) (r : Rec) (a0 : Nat) (X : List Nat)
    (hperm : (a0 :: X).Perm (List.range n)) (hcyc : CycleOf r (a0 :: X))
    (segs : List (List Nat)) (Y : List Nat) (hdec : X = segs.flatten ++ Y)
    (hne : ∀ S ∈ segs, S ≠ []) (sel left right extra : List Nat) (p : Nat)
    (hleft : left = (a0 :: segs.map (·.headD a0)) ++
      List.replicate p ((a0 :: segs.map (·.headD a0)).getLastD a0))
    (hright : right = (segs.map (·.getLastD a0) ++ [hd a0 Y]) ++ List.replicate p (hd a0 Y))
    (hsel : sel = (a0 :: segs.map (·.getLastD a0)) ++ extra)
    (hextra : ∀ e ∈ extra, e = a0 ∨ e = hd a0 Y) :
    KoptMoveWF n r sel left right a0 segs Y := by
  subst hdec
  have hnd : (a0 :: (segs.flatten ++ Y)).Nodup := hperm.nodup_iff.mpr List.nodup_range
  have hzip : left.zip right = pairs a0 a0 segs Y ++
      List.replicate p ((a0 :: segs.map (·.headD a0)).getLastD a0, hd a0 Y) := by
    rw [hleft, hright, List.zip_append (by simp), pairs_eq_zip, List.zip_replicate]
    simp
  have hmapr := map_r_sel r a0 _ hcyc segs [] a0 Y hne (by simp)
  refine ⟨hne, hperm, hcyc, by rw [hleft]; rfl, ?_, ?_, ?_, ?_⟩
  · intro q hq
    rw [hzip] at hq
    rcases List.mem_append.mp hq with h | h
    · exact h
    · rw [List.mem_replicate] at h
      rw [h.2]; exact last_pair_mem a0 segs Y a0 a0
  · intro q hq
    rw [hzip]; exact List.mem_append_left _ hq
  · -- the successors of the selected nodes
    have hselr : ∀ w ∈ sel.map r, w ∈ segs.map (·.headD a0) ∨ w = hd a0 Y ∨
        (∃ y Y', Y = y :: Y' ∧ w = hd a0 Y') := by
      intro w hw
      rw [hsel, List.map_append, hmapr] at hw
      rcases List.mem_append.mp hw with h | h
      · rcases List.mem_append.mp h with h | h
        · exact Or.inl h
        · exact Or.inr (Or.inl (by simpa using h))
      · obtain ⟨e, he, rfl⟩ := List.mem_map.mp h
        have hra0 : r a0 ∈ segs.map (·.headD a0) ∨ r a0 = hd a0 Y := by
          have : r a0 ∈ segs.map (·.headD a0) ++ [hd a0 Y] := by
            rw [← hmapr]; simp
          rcases List.mem_append.mp this with h | h
          · exact Or.inl h
          · exact Or.inr (by simpa using h)
        rcases hextra e he with rfl | rfl
        · rcases hra0 with h | h
          · exact Or.inl h
          · exact Or.inr (Or.inl h)
        · cases Y with
          | nil =>
            rw [hd_nil]
            rcases hra0 with h | h
            · exact Or.inl h
            · exact Or.inr (Or.inl h)
          | cons y Y' =>
            rw [hd_cons]
            right; right
            refine ⟨y, Y', rfl, ?_⟩
            exact succ_general r a0 _ (a0 :: segs.flatten) y Y' hcyc (by simp)
    intro S hS
    constructor
    · rw [hsel, List.map_append, hmapr]
      apply List.mem_append_left
      apply List.mem_append_left
      exact List.mem_map.mpr ⟨S, hS, rfl⟩
    · intro z hz hzr
      have hzflat : z ∈ segs.flatten := List.mem_flatten.mpr ⟨S, hS, List.mem_of_mem_tail hz⟩
      have hztails : z ∈ (segs.map List.tail).flatten :=
        List.mem_flatten.mpr ⟨S.tail, List.mem_map.mpr ⟨S, hS, rfl⟩, hz⟩
      have hndflat : segs.flatten.Nodup := by
        have := (List.nodup_cons.mp hnd).2
        exact (List.nodup_append.mp this).1
      have hdisj : ∀ w, w = a0 ∨ w ∈ Y → w ≠ z := by
        intro w hw e
        subst e
        rcases hw with h | h
        · subst h
          exact (List.nodup_cons.mp hnd).1 (List.mem_append_left _ hzflat)
        · have := (List.nodup_append.mp (List.nodup_cons.mp hnd).2).2.2
          exact this w hzflat w h rfl
      rcases hselr z hzr with h | h | ⟨y, Y', hY, h⟩
      · have hp := (flatten_perm_heads_tails a0 segs hne).nodup_iff.mp hndflat
        exact (List.nodup_append.mp hp).2.2 z h z hztails rfl
      · rcases hd_mem a0 Y with h' | h'
        · exact hdisj (hd a0 Y) (Or.inl h') h.symm
        · exact hdisj (hd a0 Y) (Or.inr h') h.symm
      · rcases hd_mem a0 Y' with h' | h'
        · exact hdisj (hd a0 Y') (Or.inl h') h.symm
        · exact hdisj (hd a0 Y') (Or.inr (by rw [hY]; exact List.mem_cons_of_mem _ h')) h.symm
  · intro v hv
    cases Y with
    | nil => simp at hv
    | cons y Y' =>
      simp at hv; subst hv
      rw [hsel, List.map_append, hmapr]
      apply List.mem_append_left
      apply List.mem_append_right
      simp [hd_cons]


/-- **The action builder only emits well-formed moves.**  For every tour, every `k_max = K ≥ 1`, every
initial mask and every sequence of `K` sampled nodes each of which was free in the builder's mask at its
sub-step (`admitted`), the action `(action_index, k_action_left, k_action_right)` assembled by
`_random_action` / `NeuOptPolicy.forward` is a well-formed segment-reversal move on the current tour. -/
theorem builder_wf (n : Nat) (r : Rec) (ht : IsTour r n) (mask0 : Nat → Bool) (c0 : Nat) (cs : List Nat)
    (hadm : (genRun n (cs.length + 1) r (visitedTime n r) mask0 (c0 :: cs)).admitted = true) :
    ∃ segs R, KoptMoveWF n r
      (genAction (cs.length + 1) (genRun n (cs.length + 1) r (visitedTime n r) mask0 (c0 :: cs))).1
      (genAction (cs.length + 1) (genRun n (cs.length + 1) r (visitedTime n r) mask0 (c0 :: cs))).2.1
      (genAction (cs.length + 1) (genRun n (cs.length + 1) r (visitedTime n r) mask0 (c0 :: cs))).2.2
      c0 segs R := by
  generalize hK : cs.length + 1 = K at *
  have hrun : genRun n K r (visitedTime n r) mask0 (c0 :: cs) =
      genLoop n K r (visitedTime n r) (0 + 1) (genStep n K r (visitedTime n r) 0 { mask := mask0 } c0) cs := rfl
  rw [hrun] at hadm ⊢
  have hadm0 := genLoop_admitted (n := n) (K := K) (r := r) cs (0 + 1) _ hadm
  rw [genStep_admitted] at hadm0
  have hc0 : c0 < n := by
    simp only [Bool.and_eq_true, decide_eq_true_eq] at hadm0
    exact hadm0.2
  obtain ⟨X, hperm, hcyc⟩ := isTour_from r n ht c0 hc0
  have hbase := base_step (K := K) hperm hcyc mask0
  obtain ⟨segs, Y, hfin⟩ := loop_inv (K := K) hperm hcyc cs 0 _ [] X (Or.inl hbase) hadm
  simp only [Nat.zero_add] at hfin
  generalize genLoop n K r (visitedTime n r) (0 + 1)
    (genStep n K r (visitedTime n r) 0 { mask := mask0 } c0) cs = g at hfin ⊢
  refine ⟨segs, Y, ?_⟩
  have hKl : K = cs.length + 1 := hK.symm
  rcases hfin with h | h
  · -- never closed: the last pair is completed by "Form final action"
    have hkl := h.kl
    have e1 : c0 :: (segs.map (·.headD c0) ++ [hd c0 Y]) = (c0 :: segs.map (·.headD c0)) ++ [hd c0 Y] := by simp
    have e2 : cs.length + 2 = K + 1 := by omega
    rw [e1, e2] at hkl
    obtain ⟨hl1, hl2⟩ := map_range_init g.kLeft K _ _ hkl
    apply wf_of_canonical n r c0 X hperm hcyc segs Y h.dec h.ne _ _ _ [] 0
    · simp only [genAction, List.replicate_zero, List.append_nil]; exact hl1
    · simp only [genAction, h.ns, Bool.false_eq_true, if_false, List.replicate_zero, List.append_nil]
      rw [hKl, map_range_succ]
      simp only [Nat.add_sub_cancel]
      rw [map_range_upd_ge _ _ _ _ (Nat.le_refl _), h.kr, ← hKl, hl2]
      simp [upd]
    · simp only [genAction, List.append_nil]; exact h.idx
    · intro e he; simp at he
  · apply wf_of_canonical n r c0 X hperm hcyc segs Y h.dec h.ne _ _ _
      (hd c0 Y :: List.replicate (cs.length - segs.length - 1) c0) (cs.length - segs.length)
    · simp only [genAction]; rw [hKl]; exact h.kl
    · simp only [genAction, h.st, if_true]; rw [hKl]; exact h.kr
    · simp only [genAction]; rw [h.idx]; simp
    · intro e he
      rcases List.mem_cons.mp he with h1 | h1
      · exact Or.inr h1
      · exact Or.inl (List.eq_of_mem_replicate h1)

end Rl4co.Improve.KoptGen
