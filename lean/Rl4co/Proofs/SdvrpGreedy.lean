/-
Helper lemmas for the SDVRP proofs: the greedy split rule of `Spec.Sdvrp.greedy` always produces
non-negative amounts, nothing at the depot, vehicle loads within capacity, and delivers to each customer
exactly the decrease of its remaining demand (`greedy_facts`).  Environment (`Sdvrp.step`) and checker
(`Sdvrp.checkGo`) are both shown to follow this rule in the C01 / C06 files.  Core only, no Mathlib.
-/
import Rl4co.Env.Sdvrp
import Rl4co.Spec.Sdvrp

namespace Rl4co.Sdvrp
open Rl4co.Spec.Sdvrp

/-- remaining demands after the greedy replay -/
def greedyRem (i : Inst) : (Nat → Int) → Int → List Nat → (Nat → Int)
  | rem, _, [] => rem
  | rem, used, a :: as =>
    if a = 0 then greedyRem i rem 0 as
    else
      let q := min (rem a) (i.cap - used)
      greedyRem i (upd rem a (rem a - q)) (used + q) as

theorem loads_cons_exists (zs : List (Nat × Int)) : ∃ l ls, loads zs = l :: ls := by
  cases zs with
  | nil => exact ⟨[], [], rfl⟩
  | cons z zs =>
    obtain ⟨a, q⟩ := z
    simp only [loads]
    split
    · exact ⟨_, _, rfl⟩
    · split <;> exact ⟨_, _, rfl⟩

theorem loads_cons_zero (q : Int) (zs : List (Nat × Int)) : loads ((0, q) :: zs) = [] :: loads zs := by
  simp [loads]

theorem loads_cons_ne {a : Nat} (h : a ≠ 0) (q : Int) (zs : List (Nat × Int)) (l : List Int)
    (ls : List (List Int)) (hl : loads zs = l :: ls) : loads ((a, q) :: zs) = (q :: l) :: ls := by
  simp [loads, h, hl]

structure GreedyFacts (i : Inst) (rem : Nat → Int) (used : Int) (as : List Nat) : Prop where
  nonneg : ∀ z ∈ as.zip (greedy i rem used as), 0 ≤ z.2
  depot  : ∀ z ∈ as.zip (greedy i rem used as), z.1 = 0 → z.2 = 0
  load   : ∀ l ls, loads (as.zip (greedy i rem used as)) = l :: ls →
             l.sum + used ≤ i.cap ∧ ∀ l' ∈ ls, l'.sum ≤ i.cap
  served : ∀ j, 1 ≤ j → deliveredTo j (as.zip (greedy i rem used as)) = rem j - greedyRem i rem used as j
  remNonneg : ∀ j, 1 ≤ j → 0 ≤ greedyRem i rem used as j

theorem greedy_facts (i : Inst) (hcap : 0 ≤ i.cap) (as : List Nat) :
    ∀ rem used, (∀ j, 1 ≤ j → 0 ≤ rem j) → 0 ≤ used → used ≤ i.cap → GreedyFacts i rem used as := by
  induction as with
  | nil =>
    intro rem used hr h0 hu
    refine ⟨by simp [greedy], by simp [greedy], ?_, by simp [greedy, greedyRem, deliveredTo], by simpa [greedyRem] using hr⟩
    intro l ls h
    simp only [greedy, List.zip_nil_right, loads, List.cons.injEq] at h
    obtain ⟨e1, e2⟩ := h; subst e1 e2
    simp [hu]
  | cons a as ih =>
    intro rem used hr h0 hu
    by_cases ha : a = 0
    · subst ha
      have F := ih rem 0 hr (Int.le_refl 0) hcap
      have hz : (0 :: as).zip (greedy i rem used (0 :: as)) = (0, 0) :: as.zip (greedy i rem 0 as) := by
        simp [greedy]
      have hg : greedyRem i rem used (0 :: as) = greedyRem i rem 0 as := by simp [greedyRem]
      refine ⟨?_, ?_, ?_, ?_, by rw [hg]; exact F.remNonneg⟩ <;> rw [hz]
      · intro z hz'
        rcases List.mem_cons.mp hz' with h | h
        · subst h; exact Int.le_refl 0
        · exact F.nonneg z h
      · intro z hz' h1
        rcases List.mem_cons.mp hz' with h | h
        · subst h; rfl
        · exact F.depot z h h1
      · intro l ls h
        rw [loads_cons_zero] at h
        simp only [List.cons.injEq] at h
        obtain ⟨e1, e2⟩ := h; subst e1 e2
        refine ⟨by simp [hu], ?_⟩
        obtain ⟨l1, ls1, h1⟩ := loads_cons_exists (as.zip (greedy i rem 0 as))
        have := F.load l1 ls1 h1
        intro l' hl'
        rw [h1] at hl'
        rcases List.mem_cons.mp hl' with hh | hh
        · subst hh; omega
        · exact this.2 l' hh
      · intro j hj
        have hne : (0 : Nat) ≠ j := by omega
        rw [hg]
        simp only [deliveredTo, hne, if_false, Int.zero_add]
        exact F.served j hj
    · have hra := hr
      let q := min (rem a) (i.cap - used)
      have hq0 : 0 ≤ q := by
        have := hr a (by omega)
        show 0 ≤ min (rem a) (i.cap - used)
        omega
      have hqr : q ≤ rem a := by show min (rem a) (i.cap - used) ≤ rem a; omega
      have hqc : used + q ≤ i.cap := by
        have : min (rem a) (i.cap - used) ≤ i.cap - used := by omega
        show used + min (rem a) (i.cap - used) ≤ i.cap
        omega
      have hr' : ∀ j, 1 ≤ j → 0 ≤ upd rem a (rem a - q) j := by
        intro j hj
        simp only [upd_apply]
        split
        · omega
        · exact hr j hj
      have F := ih (upd rem a (rem a - q)) (used + q) hr' (by omega) hqc
      have hz : (a :: as).zip (greedy i rem used (a :: as)) =
          (a, q) :: as.zip (greedy i (upd rem a (rem a - q)) (used + q) as) := by
        simp [greedy, ha, q]
      have hg : greedyRem i rem used (a :: as) = greedyRem i (upd rem a (rem a - q)) (used + q) as := by
        simp [greedyRem, ha, q]
      refine ⟨?_, ?_, ?_, ?_, by rw [hg]; exact F.remNonneg⟩ <;> rw [hz]
      · intro z hz'
        rcases List.mem_cons.mp hz' with h | h
        · subst h; exact hq0
        · exact F.nonneg z h
      · intro z hz' h1
        rcases List.mem_cons.mp hz' with h | h
        · subst h; exact absurd h1 ha
        · exact F.depot z h h1
      · intro l ls h
        obtain ⟨l1, ls1, h1⟩ := loads_cons_exists (as.zip (greedy i (upd rem a (rem a - q)) (used + q) as))
        rw [loads_cons_ne ha q _ l1 ls1 h1] at h
        simp only [List.cons.injEq] at h
        obtain ⟨e1, e2⟩ := h; subst e1 e2
        have := F.load l1 ls1 h1
        refine ⟨?_, this.2⟩
        simp only [List.sum_cons]
        omega
      · intro j hj
        have := F.served j hj
        rw [hg]
        simp only [deliveredTo]
        rw [this]
        by_cases hja : a = j
        · subst hja; simp; omega
        · have : j ≠ a := fun h => hja h.symm
          simp [hja, this]

/-- `greedyRem` only reads the remaining demands of customers (index ≥ 1) -/
theorem greedyRem_congr (i : Inst) (as : List Nat) : ∀ rem rem' used, (∀ j, 1 ≤ j → rem j = rem' j) →
    ∀ j, 1 ≤ j → greedyRem i rem used as j = greedyRem i rem' used as j := by
  induction as with
  | nil => intro rem rem' _ h j hj; simpa [greedyRem] using h j hj
  | cons a as ih =>
    intro rem rem' used h j hj
    by_cases ha : a = 0
    · subst ha; simp only [greedyRem, if_true]; exact ih rem rem' 0 h j hj
    · simp only [greedyRem, ha, if_false]
      have e := h a (by omega)
      rw [e]
      apply ih
      intro k hk
      simp only [upd_apply]
      split
      · rfl
      · exact h k hk
      · exact hj

/-- `greedy` only reads the remaining demands of customers (index ≥ 1) -/
theorem greedy_congr (i : Inst) (as : List Nat) : ∀ rem rem' used, (∀ j, 1 ≤ j → rem j = rem' j) →
    greedy i rem used as = greedy i rem' used as := by
  induction as with
  | nil => intro _ _ _ _; rfl
  | cons a as ih =>
    intro rem rem' used h
    by_cases ha : a = 0
    · subst ha; simp only [greedy, if_true]; rw [ih rem rem' 0 h]
    · simp only [greedy, ha, if_false]
      have e := h a (by omega)
      rw [e]
      congr 1
      apply ih
      intro k hk
      simp only [upd_apply]
      split
      · rfl
      · exact h k hk

end Rl4co.Sdvrp
