/-
Helper lemmas for the MTVRP reward: routes contain no depot visits; legs into non-depot nodes are charged
in full by `_get_reward`'s mask `~((go_to == 0) & open_route)`.  No Mathlib.
-/
import Rl4co.Env.Mtvrp
import Rl4co.Proofs.MtvrpParams
import Rl4co.Spec.Mtvrp

namespace Rl4co.Mtvrp
open Rl4co.Spec.Mtvrp

theorem zero_not_mem_routes (as : List Nat) : ∀ r ∈ routes as, 0 ∉ r := by
  induction as with
  | nil => intro r hr; simp [routes] at hr; subst hr; simp
  | cons a as ih =>
    intro r hr
    obtain ⟨r1, rs1, h1⟩ := routes_cons_exists as
    by_cases h0 : a = 0
    · subst h0
      simp only [routes, if_true] at hr
      rcases List.mem_cons.mp hr with h | h
      · subst h; simp
      · exact ih r h
    · simp only [routes, h0, if_false, h1] at hr
      rcases List.mem_cons.mp hr with h | h
      · subst h
        have := ih r1 (by rw [h1]; simp)
        intro hmem
        rcases List.mem_cons.mp hmem with h | h
        · exact h0 h.symm
        · exact this h
      · exact ih r (by rw [h1]; simp [h])

/-- legs into non-depot nodes are charged in full -/
theorem pathLen_charged_of_no_zero (i : Inst) : ∀ (x : Nat) (xs : List Nat), 0 ∉ xs →
    pathLen (charged i) (x :: xs) = pathLen i.D (x :: xs)
  | _, [], _ => rfl
  | x, y :: ys, h => by
    have hy : y ≠ 0 := fun e => h (by simp [e])
    have := pathLen_charged_of_no_zero i y ys (fun e => h (by simp [e]))
    rw [pathLen_cons_cons, pathLen_cons_cons, this]
    simp [charged_def, hy]

theorem routeLen_charged (i : Inst) (r : List Nat) (h : 0 ∉ r) : routeLen (charged i) r = routeCost i r := by
  unfold routeLen routeCost
  by_cases hr : r = []
  · simp [hr]
  · simp only [hr, if_false, routeDist]
    have e : 0 :: r ++ [0] = (0 :: r) ++ [0] := rfl
    rw [e, pathLen_append_singleton, pathLen_charged_of_no_zero i 0 r h]
    cases ho : i.openR
    · simp only [Bool.false_eq_true, if_false]
      rw [e, pathLen_append_singleton]
      simp [charged_def, ho]
    · simp [charged_def, ho]

end Rl4co.Mtvrp
