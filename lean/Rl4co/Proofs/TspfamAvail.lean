/-
Generic facts about "permutation" environments: the mask is confined to an `available` bit-vector
that loses exactly the chosen entry at every step, and `done` is the flag "no entry available"
computed by the step.  Used by TSP, ATSP, PDP and SMTWTP.  Core only, no Mathlib.
-/
import Rl4co.Core.Basic
namespace Rl4co.Tspfam
variable {I S : Type}

structure AvailEnv (e : Env I S) where
  avail : S → Nat → Bool
  /-- number of entries available at reset = length of every episode -/
  todo : I → Nat
  /-- a state invariant (e.g. consistency of a stored mask with the bookkeeping) -/
  Inv : I → S → Prop
  inv_reset : ∀ i, Inv i (e.reset i)
  inv_step : ∀ i s a, Inv i s → a < e.nAct i → e.mask i s a = true → Inv i (e.step i s a)
  mask_avail : ∀ i s a, Inv i s → e.mask i s a = true → avail s a = true
  step_avail : ∀ i s a, avail (e.step i s a) = upd (avail s) a false
  step_done : ∀ i s a, e.done i (e.step i s a) = decide (cnt (e.nAct i) (avail (e.step i s a)) = 0)
  reset_done : ∀ i, e.done i (e.reset i) = false
  reset_cnt : ∀ i, cnt (e.nAct i) (avail (e.reset i)) = todo i

variable {e : Env I S} (A : AvailEnv e)

theorem AvailEnv.inv_of_run {i : I} {s s' : S} {as : List Nat} (h : Run e i s as s')
    (h0 : A.Inv i s) : A.Inv i s' := by
  induction h with
  | nil s => exact h0
  | cons ha hm _ ih => exact ih (A.inv_step _ _ _ h0 ha hm)

/-- what a mask-confined run visits: in-range, available at the start, pairwise distinct, and the
final availability is the initial one minus the visited entries -/
theorem AvailEnv.visits_of_run {i : I} {s s' : S} {as : List Nat} (h : Run e i s as s')
    (h0 : A.Inv i s) :
    (∀ a ∈ as, a < e.nAct i) ∧ (∀ a ∈ as, A.avail s a = true) ∧ as.Nodup ∧
    (∀ j, A.avail s' j = (A.avail s j && !decide (j ∈ as))) := by
  induction h with
  | nil s => simp
  | @cons s s' a as ha hm _ ih =>
    obtain ⟨ih1, ih2, ih3, ih4⟩ := ih (A.inv_step _ _ _ h0 ha hm)
    have hav := A.mask_avail _ _ _ h0 hm
    have hnot : a ∉ as := by
      intro hmem
      have := ih2 a hmem
      rw [A.step_avail] at this
      simp at this
    refine ⟨?_, ?_, ?_, ?_⟩
    · intro b hb
      rcases List.mem_cons.mp hb with hh | hh
      · subst hh; exact ha
      · exact ih1 b hh
    · intro b hb
      rcases List.mem_cons.mp hb with hh | hh
      · subst hh; exact hav
      · have := ih2 b hh
        rw [A.step_avail, upd_apply] at this
        split at this
        · simp at this
        · exact this
    · exact List.nodup_cons.mpr ⟨hnot, ih3⟩
    · intro j
      rw [ih4 j, A.step_avail, upd_apply]
      by_cases hja : j = a
      · subst hja; simp
      · simp [hja]

/-- every admitted step consumes exactly one available entry -/
theorem AvailEnv.cnt_of_run {i : I} {s s' : S} {as : List Nat} (h : Run e i s as s')
    (h0 : A.Inv i s) :
    cnt (e.nAct i) (A.avail s') + as.length = cnt (e.nAct i) (A.avail s) := by
  induction h with
  | nil s => simp
  | @cons s s' a as ha hm _ ih =>
    have := ih (A.inv_step _ _ _ h0 ha hm)
    rw [A.step_avail] at this
    have h2 := cnt_upd_false (p := A.avail s) ha (A.mask_avail _ _ _ h0 hm)
    simp only [List.length_cons]
    omega

/-- on reachable states of a non-empty instance the `done` flag says exactly "nothing available" -/
theorem AvailEnv.done_iff {i : I} (hpos : 0 < A.todo i) {s : S} (h : Reach e i s) :
    e.done i s = true ↔ cnt (e.nAct i) (A.avail s) = 0 := by
  obtain ⟨as, hr⟩ := h
  have key : ∀ (s0 : S) (as : List Nat) (s : S), Run e i s0 as s →
      (e.done i s0 = true ↔ cnt (e.nAct i) (A.avail s0) = 0) →
      (e.done i s = true ↔ cnt (e.nAct i) (A.avail s) = 0) := by
    intro s0 as s hr
    induction hr with
    | nil s => exact id
    | @cons s s' a as _ _ _ ih =>
      intro _
      apply ih
      rw [A.step_done]; simp
  apply key _ _ _ hr
  rw [A.reset_done, A.reset_cnt]
  constructor
  · intro h; cases h
  · intro h; omega

/-- **equal length**: an episode is finished exactly when it has `todo` steps -/
theorem AvailEnv.run_length {i : I} (hpos : 0 < A.todo i) {s : S} {as : List Nat}
    (h : Run e i (e.reset i) as s) : e.done i s = true ↔ as.length = A.todo i := by
  rw [A.done_iff hpos ⟨as, h⟩]
  have := A.cnt_of_run h (A.inv_reset i)
  rw [A.reset_cnt] at this
  omega

/-- no mask-confined run is longer than `todo` -/
theorem AvailEnv.length_le {i : I} {s : S} {as : List Nat} (h : Run e i (e.reset i) as s) :
    as.length ≤ A.todo i := by
  have := A.cnt_of_run h (A.inv_reset i)
  rw [A.reset_cnt] at this
  omega

/-- an unfinished reachable state still has an available entry -/
theorem AvailEnv.avail_of_not_done {i : I} (hpos : 0 < A.todo i) {s : S} (h : Reach e i s)
    (hd : e.done i s = false) : ∃ j, j < e.nAct i ∧ A.avail s j = true := by
  apply cnt_pos.mp
  have := A.done_iff hpos h
  apply Nat.pos_of_ne_zero
  intro h0
  rw [this.mpr h0] at hd
  cases hd

/-- in a finished reachable state nothing is available -/
theorem AvailEnv.none_avail_of_done {i : I} (hpos : 0 < A.todo i) {s : S} (h : Reach e i s)
    (hd : e.done i s = true) : ∀ j, j < e.nAct i → A.avail s j = false :=
  cnt_eq_zero.mp ((A.done_iff hpos h).mp hd)

/-- `done` is absorbing, whatever node is stepped -/
theorem AvailEnv.done_stable {i : I} (hpos : 0 < A.todo i) {s : S} (h : Reach e i s)
    (hd : e.done i s = true) (a : Nat) : e.done i (e.step i s a) = true := by
  rw [A.step_done, A.step_avail]
  have hall := A.none_avail_of_done hpos h hd
  have : cnt (e.nAct i) (upd (A.avail s) a false) = 0 := by
    apply cnt_eq_zero.mpr
    intro j hj
    rw [upd_apply]; split
    · rfl
    · exact hall j hj
  simp [this]

/-- a finished run from reset has visited every entry that was available at reset, exactly once -/
theorem AvailEnv.count_eq_one_of_done {i : I} (hpos : 0 < A.todo i) {s : S} {as : List Nat}
    (h : Run e i (e.reset i) as s) (hd : e.done i s = true) {j : Nat} (hj : j < e.nAct i)
    (hav : A.avail (e.reset i) j = true) : as.count j = 1 := by
  obtain ⟨_, _, hnd, h4⟩ := A.visits_of_run h (A.inv_reset i)
  have := A.none_avail_of_done hpos ⟨as, h⟩ hd j hj
  rw [h4 j, hav] at this
  have hmem : j ∈ as := by simpa using this
  rw [hnd.count]; simp [hmem]

/-- converse direction for environments whose mask IS the availability vector: every duplicate-free
list of available in-range entries is a mask-confined run -/
theorem AvailEnv.run_of_nodup (hmask : ∀ i s a, e.mask i s a = A.avail s a) {i : I} :
    ∀ (as : List Nat) (s : S), as.Nodup → (∀ a ∈ as, a < e.nAct i) →
      (∀ a ∈ as, A.avail s a = true) → Run e i s as (exec e i s as) := by
  intro as
  induction as with
  | nil => intro s _ _ _; exact Run.nil _
  | cons a as ih =>
    intro s hnd hlt hav
    have hnd' := List.nodup_cons.mp hnd
    refine Run.cons (hlt a (by simp)) (by rw [hmask]; exact hav a (by simp)) ?_
    apply ih _ hnd'.2 (fun b hb => hlt b (by simp [hb]))
    intro b hb
    rw [A.step_avail, upd_apply]
    have : b ≠ a := fun h => hnd'.1 (h ▸ hb)
    simp [this, hav b (by simp [hb])]

end Rl4co.Tspfam

namespace Rl4co.Tspfam

/-- all entries but index 0 -/
theorem cnt_ne_zero (n : Nat) : cnt (n + 1) (fun j => decide (j ≠ 0)) = n := by
  induction n with
  | zero => simp [cnt]
  | succ n ih => rw [cnt_succ, ih]; simp

/-- "entries in `1..n`, each of `1..n` exactly once" is "a permutation of `[1, …, n]`" -/
theorem once_iff_perm (n : Nat) (as : List Nat) :
    ((∀ a ∈ as, 1 ≤ a ∧ a ≤ n) ∧ (∀ j, 1 ≤ j → j ≤ n → as.count j = 1)) ↔
      as.Perm (List.range' 1 n) := by
  rw [List.perm_iff_count]
  constructor
  · intro ⟨h1, h2⟩ a
    rw [(List.nodup_range' (s := 1) (n := n)).count]
    by_cases ha : 1 ≤ a ∧ a ≤ n
    · have : a ∈ List.range' 1 n := by simp [List.mem_range'_1]; omega
      simp [h2 a ha.1 ha.2, this]
    · have hn : a ∉ as := fun hm => ha (h1 a hm)
      have : a ∉ List.range' 1 n := by simp [List.mem_range'_1]; omega
      simp [List.count_eq_zero_of_not_mem hn, this]
  · intro h
    refine ⟨?_, ?_⟩
    · intro a ha
      have := h a
      rw [(List.nodup_range' (s := 1) (n := n)).count] at this
      by_cases hm : a ∈ List.range' 1 n
      · simp [List.mem_range'_1] at hm; omega
      · have h0 : List.count a as = 0 := by simpa [hm] using this
        exact absurd ha (List.count_eq_zero.mp h0)
    · intro j hj1 hj2
      have := h j
      rw [(List.nodup_range' (s := 1) (n := n)).count] at this
      have hm : j ∈ List.range' 1 n := by simp [List.mem_range'_1]; omega
      simpa [hm] using this

end Rl4co.Tspfam
