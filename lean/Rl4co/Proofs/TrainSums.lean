/-
Helper lemmas for the training-family proofs: finite sums `sumTo` over a field, shapes and broadcasting.
-/
import Rl4co.Train.Dual
import Mathlib.Tactic.Ring
import Mathlib.Tactic.FieldSimp

namespace Rl4co.Train
variable {K : Type} [Field K]

theorem sumTo_add' (n : Nat) (f g : Nat → K) :
    sumTo n (fun i => f i + g i) = sumTo n f + sumTo n g := by
  induction n with
  | zero => simp
  | succ n ih => simp only [sumTo_succ, ih]; ring

theorem sumTo_sub' (n : Nat) (f g : Nat → K) :
    sumTo n (fun i => f i - g i) = sumTo n f - sumTo n g := by
  induction n with
  | zero => simp
  | succ n ih => simp only [sumTo_succ, ih]; ring

theorem sumTo_mul_left (n : Nat) (c : K) (f : Nat → K) :
    sumTo n (fun i => c * f i) = c * sumTo n f := by
  induction n with
  | zero => simp
  | succ n ih => simp only [sumTo_succ, ih]; ring

theorem sumTo_mul_right (n : Nat) (c : K) (f : Nat → K) :
    sumTo n (fun i => f i * c) = sumTo n f * c := by
  induction n with
  | zero => simp
  | succ n ih => simp only [sumTo_succ, ih]; ring

theorem sumTo_div (n : Nat) (c : K) (f : Nat → K) :
    sumTo n (fun i => f i / c) = sumTo n f / c := by
  induction n with
  | zero => simp
  | succ n ih => simp only [sumTo_succ, ih]; ring

theorem sumTo_neg (n : Nat) (f : Nat → K) : sumTo n (fun i => - f i) = - sumTo n f := by
  induction n with
  | zero => simp
  | succ n ih => simp only [sumTo_succ, ih]; ring

theorem sumTo_const (n : Nat) (c : K) : sumTo n (fun _ => c) = (n : K) * c := by
  induction n with
  | zero => simp
  | succ n ih => simp only [sumTo_succ, ih, Nat.cast_succ]; ring

theorem sumTo_zero' (n : Nat) : sumTo n (fun _ => (0 : K)) = 0 := by
  rw [sumTo_const]; ring

theorem sumTo_one (f : Nat → K) : sumTo 1 f = f 0 := by simp [sumTo_succ]

theorem sumTo_comm (n m : Nat) (f : Nat → Nat → K) :
    sumTo n (fun i => sumTo m (fun j => f i j)) = sumTo m (fun j => sumTo n (fun i => f i j)) := by
  induction n with
  | zero => simp [sumTo_zero']
  | succ n ih => simp only [sumTo_succ, ih, sumTo_add']

/-- a flat sum over `s·B + b` is the double sum over `s < S`, `b < B` -/
theorem sumTo_mul (S B : Nat) (F : Nat → K) :
    sumTo (S * B) F = sumTo S (fun s => sumTo B (fun b => F (s * B + b))) := by
  induction S with
  | zero => simp
  | succ S ih =>
    have hadd : ∀ (m : Nat), sumTo (S * B + m) F = sumTo (S * B) F + sumTo m (fun b => F (S * B + b)) := by
      intro m
      induction m with
      | zero => simp
      | succ m ihm => rw [← Nat.add_assoc, sumTo_succ, ihm, sumTo_succ]; ring
    rw [Nat.succ_mul, hadd, ih, sumTo_succ]

/-! shapes -/
@[simp] theorem bdim_self (n : Nat) : bdim n n = some n := by simp [bdim]
@[simp] theorem bdim_one_right (n : Nat) : bdim n 1 = some n := by
  unfold bdim; by_cases h : n = 1 <;> simp [h]
@[simp] theorem bdim_one_left (n : Nat) : bdim 1 n = some n := by
  unfold bdim; by_cases h : 1 = n
  · simp [h]
  · simp [h]

theorem bshape_vv (n : Nat) : bshape (Shape.v n) (Shape.v n) = some (Shape.v n) := by
  simp [bshape, Shape.rows, Shape.cols, Shape.rank, Shape.ofRank]
theorem bshape_vs (n : Nat) : bshape (Shape.v n) Shape.s = some (Shape.v n) := by
  simp [bshape, Shape.rows, Shape.cols, Shape.rank, Shape.ofRank]
theorem bshape_mm (n k : Nat) : bshape (Shape.m n k) (Shape.m n k) = some (Shape.m n k) := by
  simp [bshape, Shape.rows, Shape.cols, Shape.rank, Shape.ofRank]
theorem bshape_mcol (n k : Nat) : bshape (Shape.m n k) (Shape.m n 1) = some (Shape.m n k) := by
  simp [bshape, Shape.rows, Shape.cols, Shape.rank, Shape.ofRank]
/-- the mix-up: a `[n]` vector against a `[n,1]` column broadcasts to `[n,n]` -/
theorem bshape_v_mcol (n : Nat) : bshape (Shape.v n) (Shape.m n 1) = some (Shape.m n n) := by
  simp [bshape, Shape.rows, Shape.cols, Shape.rank, Shape.ofRank]

end Rl4co.Train
