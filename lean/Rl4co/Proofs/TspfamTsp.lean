/-
TSP as an instance of the generic permutation environment (`Proofs/TspfamAvail.lean`), and the link
between the TSP spec and `List.Perm (range n)`.  Core only, no Mathlib.
-/
import Rl4co.Env.Tsp
import Rl4co.Spec.Tsp
import Rl4co.Proofs.TspfamAvail
import Rl4co.Proofs.TspfamParams
import Rl4co.Proofs.Sort
namespace Rl4co.Spec.Tsp

/-- a feasible tour is exactly a permutation of `0..n-1` -/
theorem feasible_iff_perm (n : Nat) (as : List Nat) : Feasible n as ↔ as.Perm (List.range n) := by
  rw [List.perm_iff_count]
  constructor
  · intro ⟨h1, h2⟩ a
    rw [List.nodup_range.count]
    by_cases ha : a < n
    · simp [h2 a ha, ha]
    · have : a ∉ as := fun hm => ha (h1 a hm)
      simp [List.count_eq_zero_of_not_mem this, ha]
  · intro h
    refine ⟨?_, ?_⟩
    · intro a ha
      have := h a
      rw [List.nodup_range.count] at this
      by_cases hlt : a < n
      · exact hlt
      · have h0 : List.count a as = 0 := by simpa [hlt] using this
        exact absurd ha (List.count_eq_zero.mp h0)
    · intro j hj
      have := h j
      rw [List.nodup_range.count] at this
      simpa [hj] using this

theorem Feasible.length_eq {n : Nat} {as : List Nat} (h : Feasible n as) : as.length = n := by
  have := ((feasible_iff_perm n as).mp h).length_eq
  simpa using this

theorem Feasible.nodup {n : Nat} {as : List Nat} (h : Feasible n as) : as.Nodup :=
  ((feasible_iff_perm n as).mp h).nodup_iff.mpr List.nodup_range

end Rl4co.Spec.Tsp

namespace Rl4co.Tsp
open Rl4co.Tspfam

/-- TSP as a permutation environment -/
def availEnv : AvailEnv env where
  avail s := s.avail
  todo i := i.n
  Inv _ _ := True
  inv_reset _ := trivial
  inv_step := fun _ _ _ _ _ _ => trivial
  mask_avail := fun _ _ _ _ h => h
  step_avail := fun _ _ _ => rfl
  step_done := fun i s a => (doneCmp_ok (cnt i.n (upd s.avail a false))).1
  reset_done := fun _ => rfl
  reset_cnt := by intro i; exact cnt_eq_n.mpr (fun _ _ => rfl)

theorem mask_eq_avail (i : Inst) (s : State) (a : Nat) : env.mask i s a = availEnv.avail s a := rfl

end Rl4co.Tsp
