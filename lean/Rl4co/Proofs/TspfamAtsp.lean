/-
ATSP as an instance of the generic permutation environment (`Proofs/TspfamAvail.lean`).  Core only.
-/
import Rl4co.Env.Atsp
import Rl4co.Proofs.TspfamTsp
namespace Rl4co.Atsp
open Rl4co.Tspfam

/-- ATSP as a permutation environment -/
def availEnv : AvailEnv env where
  avail s := s.avail
  todo i := i.n
  Inv _ _ := True
  inv_reset _ := trivial
  inv_step := fun _ _ _ _ _ _ => trivial
  mask_avail := fun _ _ _ _ h => h
  step_avail := fun _ _ _ => rfl
  step_done := fun i s a => (doneCmp_ok (cnt i.n (upd s.avail a false))).2.1
  reset_done := fun _ => rfl
  reset_cnt := by intro i; exact cnt_eq_n.mpr (fun _ _ => rfl)

theorem mask_eq_avail (i : Inst) (s : State) (a : Nat) : env.mask i s a = availEnv.avail s a := rfl

end Rl4co.Atsp
