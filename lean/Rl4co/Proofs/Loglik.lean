/-
Helper lemmas for C11 (decoding loop / log-likelihood bookkeeping): list lemmas about the teacher-forcing
spec, the per-row loop invariant `RowInv` and its preservation, the replay lemma behind the evaluate round
trip, the predicates `DRun` / `LoopHyp` / `loopSafe` used to state loop termination.  No Mathlib.
-/
import Rl4co.Decode.Strategy
import Rl4co.Spec.Loglik

namespace Rl4co.Decode
open Rl4co.Spec.Loglik

variable {S : Type}

/-! ### extracted parameters (`Generated/Params.lean`, regenerated from the Python AST on every run)

Each lemma states the closed form the proofs below use and is proved by evaluating the extracted token;
it stops compiling when the corresponding token of `decoding.py` / `constructive/base.py` / `ops.py` /
`ppo.py` changes. -/

/-- `logprobs[~mask] = 0` -/
theorem maskVal_eq (v : LP) (keep : Bool) : maskVal v keep = if keep then v else some 0 := by
  cases keep <;> simp [maskVal, Params.gllMaskInverted, Params.gllMaskFill]

/-- `torch.zeros_like(action)` / `torch.zeros_like(td["action_mask"])` in `pre_decoder_hook` -/
theorem forcedRec_eq (storeAll : Bool) (N : Nat) :
    forcedRec storeAll N = if storeAll then .full (List.replicate N (some 0)) else .g (some 0) := by
  simp [forcedRec, Params.preForcedLogp, Params.preForcedLogpAll]

/-- `return logprobs.sum(1)` -/
theorem getLLSum_eq (recs : List Rec) (acts : List Nat) (mask : Option (List Bool)) :
    getLLSum recs acts mask = lpSum (getLL recs acts mask) := by
  simp [getLLSum, Params.gllSumAxis]

/-- `while not td["done"].all()` -/
theorem allDone_eq (e : DEnv S) (B : Nat) (b : Nat → RowSt S) :
    allDone e B b = (List.range B).all (fun r => e.done (b r).s) := by
  simp [allDone, Params.decodeLoopAllDone]

/-- `action=actions[..., step]` -/
theorem evalSel_eq (actions : Nat → List Nat) (r t : Nat) (row : Row) :
    evalSel actions r t row = (actions r).getD t 0 := by
  simp [evalSel, Params.evalActionOffset]

/-- `if step > max_steps: break` after the increment -/
theorem loopFuel_eq (maxSteps : Nat) : loopFuel maxSteps = maxSteps + 1 := by
  simp [loopFuel, Params.decodeBreakCmp]

/-- `.max(dim=-1)` in `_select_best`, `.max(1)` in `_select_best_beam` -/
theorem betterEq_eq (x y : Int) : betterEq x y = decide (y ≤ x) := by
  simp [betterEq, Params.selectBestIsMax, Params.beamBestIsMax]

theorem validArgmax_le {B S : Nat} {rew : Nat → Int} {arg : Nat → Nat} (h : ValidArgmax B S rew arg)
    (b : Nat) (hb : b < B) : arg b < S ∧ ∀ s, s < S → rew (s * B + b) ≤ rew (arg b * B + b) := by
  obtain ⟨h1, h2⟩ := h b hb
  refine ⟨h1, fun s hs => ?_⟩
  have := h2 s hs
  simpa [betterEq_eq] using this

/-- `unbatchify(rewards, self.num_starts)`: the model's copy count `S` is `num_starts` -/
theorem selectBest_factor : Params.selectBestFactorIsNumStarts = true := by decide

/-- `ratio = torch.exp(ll.sum(dim=-1) - sub_td["logprobs"])` -/
theorem ppoRatio_eq (ex : Int → Int) (llNew : List LP) (a b : Int) (h : lpSum llNew = some a) :
    ppoRatio ex llNew (some b) = some (ex (a - b)) := by
  simp [ppoRatio, h, Params.ppoRatioNewMinusOld]

/-- `entropy = -(logprobs.exp() * logprobs).sum(dim=-1)`; `entropy.sum(dim=1)` -/
theorem calculateEntropy_eq (prod : LP → Int) (rows : List Row) :
    calculateEntropy prod rows
      = -((rows.map (fun row => (row.map prod).foldr (· + ·) 0)).foldr (· + ·) 0) := by
  simp [calculateEntropy, Params.entropyNegated]

/-! ### lists -/

theorem execD_snoc (e : DEnv S) (s : S) (as : List Nat) (a : Nat) :
    execD e s (as ++ [a]) = e.step (execD e s as) a := by
  simp [execD, List.foldl_append]

theorem execD_cons (e : DEnv S) (s : S) (a : Nat) (as : List Nat) :
    execD e s (a :: as) = execD e (e.step s a) as := by
  simp [execD]

theorem tfVals_snoc (e : DEnv S) (π : S → Row) (s : S) (as : List Nat) (a : Nat) :
    tfVals e π s (as ++ [a]) = tfVals e π s as ++ [gather (π (execD e s as)) a] := by
  induction as generalizing s with
  | nil => simp [tfVals, execD]
  | cons b bs ih => simp [tfVals, execD_cons, ih]

theorem tfRows_snoc (e : DEnv S) (π : S → Row) (s : S) (as : List Nat) (a : Nat) :
    tfRows e π s (as ++ [a]) = tfRows e π s as ++ [π (execD e s as)] := by
  induction as generalizing s with
  | nil => simp [tfRows, execD]
  | cons b bs ih => simp [tfRows, execD_cons, ih]

theorem specVals_snoc (e : DEnv S) (π : S → Row) (s0 : S) (forced : Bool) (as : List Nat) (a : Nat)
    (h : forced = true → as ≠ []) :
    specVals e π s0 forced (as ++ [a]) = specVals e π s0 forced as ++ [gather (π (execD e s0 as)) a] := by
  cases forced with
  | false => simp [specVals, tfVals_snoc]
  | true =>
    cases as with
    | nil => exact absurd rfl (h rfl)
    | cons a0 rest => simp [specVals, tfVals_snoc, execD_cons]

theorem specRows_snoc (e : DEnv S) (π : S → Row) (N : Nat) (s0 : S) (forced : Bool) (as : List Nat)
    (a : Nat) (h : forced = true → as ≠ []) :
    specRows e π N s0 forced (as ++ [a]) = specRows e π N s0 forced as ++ [π (execD e s0 as)] := by
  cases forced with
  | false => simp [specRows, tfRows_snoc]
  | true =>
    cases as with
    | nil => exact absurd rfl (h rfl)
    | cons a0 rest => simp [specRows, tfRows_snoc, execD_cons]

theorem recVal_mkRec (storeAll : Bool) (row : Row) (a : Nat) :
    recVal (mkRec storeAll row a) a = gather row a := by
  cases storeAll <;> simp [mkRec, recVal]

theorem fullRows_snoc (recs : List Rec) (row : Row) :
    fullRows (recs ++ [Rec.full row]) = (fullRows recs).map (· ++ [row]) := by
  induction recs with
  | nil => simp [fullRows]
  | cons rc rest ih =>
    cases rc with
    | g v => simp [fullRows]
    | full r0 =>
      simp only [List.cons_append, fullRows, ih]
      cases fullRows rest <;> simp

theorem lpSum_eq_sumLP (xs : List LP) : lpSum xs = sumLP xs := by
  induction xs with
  | nil => simp [lpSum, sumLP]
  | cons x xs ih =>
    have : lpSum (x :: xs) = lpAdd (· + ·) x (lpSum xs) := by simp [lpSum]
    rw [this, ih]
    cases x with
    | none => simp [lpAdd, sumLP]
    | some a =>
      cases h : sumLP xs with
      | none => simp [lpAdd, sumLP, h]
      | some b => simp [lpAdd, sumLP, h]

theorem getLL_mask (recs : List Rec) (acts : List Nat) (m : Option (List Bool)) :
    getLL recs acts m = applyMask (getLL recs acts none) m := by
  cases m with
  | none => simp [getLL, applyMask]
  | some m =>
    simp only [getLL, applyMask]
    congr 1
    funext v keep
    exact maskVal_eq v keep

/-! ### the per-row invariant of the decoding loop -/

/-- What a row of the batch looks like at any point of the loop, relative to the reset state `s0` of
its instance: the state is the one reached by the recorded actions, and the recorded log-probs are
the policy's along exactly these actions (a forced first move counting `0`). -/
structure RowInv (e : DEnv S) (π : S → Row) (storeAll : Bool) (N : Nat) (s0 : S) (forced : Bool)
    (st : RowSt S) : Prop where
  state : st.s = execD e s0 st.acts
  len : st.recs.length = st.acts.length
  nonempty : forced = true → st.acts ≠ []
  vals : getLL st.recs st.acts none = specVals e π s0 forced st.acts
  rows : storeAll = true → fullRows st.recs = some (specRows e π N s0 forced st.acts)

theorem rowInv_pre (e : DEnv S) (π : S → Row) (storeAll : Bool) (N : Nat)
    (start : Option (Nat → Nat)) (s0 : Nat → S) (hstart : ∀ f, start = some f → ∀ r, f r < N)
    (r : Nat) :
    RowInv e π storeAll N (s0 r) start.isSome (pre e storeAll N start s0 r) := by
  cases start with
  | none =>
    constructor <;> simp [pre, execD, getLL, specVals, specRows, tfVals, tfRows, fullRows]
  | some f =>
    have hf := hstart f rfl r
    constructor
    · simp [pre, execD]
    · simp [pre]
    · simp [pre]
    · cases storeAll <;>
        simp [pre, getLL, specVals, tfVals, forcedRec_eq, recVal, gather, List.getD, hf]
    · intro h
      subst h
      simp [pre, forcedRec_eq, fullRows, specRows, tfRows]

theorem rowInv_step (e : DEnv S) (π : S → Row) (storeAll : Bool) (N : Nat) (s0 : S) (forced : Bool)
    (choose : Row → Nat) (st : RowSt S) (h : RowInv e π storeAll N s0 forced st) :
    RowInv e π storeAll N s0 forced (stepRow e storeAll π choose st) := by
  obtain ⟨hs, hl, hne, hv, hr⟩ := h
  constructor
  · simp only [stepRow]
    rw [execD_snoc, ← hs]
  · simp [stepRow, hl]
  · intro _
    simp [stepRow]
  · simp only [stepRow]
    rw [specVals_snoc _ _ _ _ _ _ hne, ← hv, ← hs]
    simp only [getLL]
    rw [List.zipWith_append hl]
    simp [recVal_mkRec]
  · intro hsa
    simp only [stepRow]
    rw [specRows_snoc _ _ _ _ _ _ _ hne, ← hs]
    subst hsa
    simp only [mkRec, if_true]
    rw [fullRows_snoc, hr rfl]
    simp

/-- anything that holds of every row before the loop and is preserved by a pass holds after it -/
theorem loop_rows (e : DEnv S) (π : S → Row) (sel : Nat → Nat → Row → Nat) (storeAll : Bool) (B : Nat)
    (P : Nat → RowSt S → Prop)
    (hstep : ∀ r st choose, P r st → P r (stepRow e storeAll π choose st)) :
    ∀ (f t : Nat) (b : Nat → RowSt S), (∀ r, P r (b r)) →
      ∀ r, P r ((loop e π sel storeAll B f t b).1 r) := by
  intro f
  induction f with
  | zero => intro t b h r; simpa [loop] using h r
  | succ f ih =>
    intro t b h r
    simp only [loop]
    split
    · exact h r
    · exact ih (t + 1) _ (fun r => hstep r _ _ (h r)) r

theorem decode_rowInv (e : DEnv S) (π : S → Row) (sel : Nat → Nat → Row → Nat) (storeAll : Bool)
    (B N maxSteps : Nat) (start : Option (Nat → Nat)) (s0 : Nat → S)
    (hstart : ∀ f, start = some f → ∀ r, f r < N) (r : Nat) :
    RowInv e π storeAll N (s0 r) start.isSome ((decode e π sel storeAll B N maxSteps start s0).1 r) := by
  unfold decode
  exact loop_rows e π sel storeAll B (fun r st => RowInv e π storeAll N (s0 r) start.isSome st)
    (fun r st choose h => rowInv_step e π storeAll N (s0 r) start.isSome choose st h)
    (maxSteps + 1) 0 _ (fun r => rowInv_pre e π storeAll N start s0 hstart r) r

/-! ### evaluate round trip: replay lemma -/

/-- two batches agree on environment states and action buffers (what was recorded may differ) -/
def Sim (b b' : Nat → RowSt S) : Prop := ∀ r, (b r).s = (b' r).s ∧ (b r).acts = (b' r).acts

theorem allDone_congr (e : DEnv S) (B : Nat) {b b' : Nat → RowSt S} (h : Sim b b') :
    allDone e B b = allDone e B b' := by
  rw [allDone_eq, allDone_eq]
  congr 1
  funext r
  rw [(h r).1]

theorem loop_acts_prefix (e : DEnv S) (π : S → Row) (sel : Nat → Nat → Row → Nat) (sA : Bool) (B : Nat) :
    ∀ (f t : Nat) (b : Nat → RowSt S) (r : Nat),
      ∃ ext, ((loop e π sel sA B f t b).1 r).acts = (b r).acts ++ ext := by
  intro f
  induction f with
  | zero => intro t b r; exact ⟨[], by simp [loop]⟩
  | succ f ih =>
    intro t b r
    simp only [loop]
    split
    · exact ⟨[], by simp⟩
    · obtain ⟨ext, h⟩ := ih (t + 1) (iter e sA π (fun r row => sel r t row) b) r
      refine ⟨sel r t (π (b r).s) :: ext, ?_⟩
      rw [h]
      simp [iter, stepRow]

theorem getD_append_length {α : Type} (xs ext : List α) (a d : α) :
    (xs ++ a :: ext).getD xs.length d = a := by
  simp [List.getD]

/-- Replaying the actions a loop produced, through `Evaluate` (`actions[..., step]`), from a batch with
the same states: same number of passes, same states, same actions. -/
theorem loop_eval_replay (e : DEnv S) (π : S → Row) (sel : Nat → Nat → Row → Nat) (sA sA' : Bool)
    (B : Nat) :
    ∀ (f t : Nat) (b b' : Nat → RowSt S), Sim b b' → (∀ r, (b r).acts.length = t) →
      (loop e π (evalSel (fun r => ((loop e π sel sA B f t b).1 r).acts)) sA' B f t b').2
          = (loop e π sel sA B f t b).2 ∧
        Sim (loop e π sel sA B f t b).1
          (loop e π (evalSel (fun r => ((loop e π sel sA B f t b).1 r).acts)) sA' B f t b').1 := by
  intro f
  induction f with
  | zero => intro t b b' h _; simpa [loop] using h
  | succ f ih =>
    intro t b b' h hlen
    have hd := allDone_congr e B h
    by_cases hdone : allDone e B b = true
    · have hdone' : allDone e B b' = true := hd ▸ hdone
      simp only [loop, hdone, hdone', if_true]
      exact ⟨trivial, h⟩
    · have hdone' : ¬ allDone e B b' = true := hd ▸ hdone
      simp only [loop, hdone, hdone']
      -- the batch after one pass of the original loop and of the replay
      let b1 := iter e sA π (fun r row => sel r t row) b
      let A := fun r => ((loop e π sel sA B f (t + 1) b1).1 r).acts
      have hsel : ∀ r, evalSel A r t (π (b' r).s) = sel r t (π (b r).s) := by
        intro r
        obtain ⟨ext, hext⟩ := loop_acts_prefix e π sel sA B f (t + 1) b1 r
        have : A r = (b r).acts ++ sel r t (π (b r).s) :: ext := by
          show ((loop e π sel sA B f (t + 1) b1).1 r).acts = _
          rw [hext]
          simp [b1, iter, stepRow]
        simp only [evalSel, this]
        rw [← hlen r]
        exact getD_append_length _ _ _ _
      have hsim1 : Sim b1 (iter e sA' π (fun r row => evalSel A r t row) b') := by
        intro r
        have hr := h r
        have hs' := hsel r
        rw [← hr.1] at hs'
        simp only [b1, iter, stepRow]
        rw [← hr.1, ← hr.2, hs']
        exact ⟨rfl, rfl⟩
      have hlen1 : ∀ r, (b1 r).acts.length = t + 1 := by
        intro r
        simp [b1, iter, stepRow, hlen r]
      exact ih (t + 1) b1 _ hsim1 hlen1

/-! ### best-of-k -/

theorem bestReward_spec (B : Nat) (rew : Nat → Int) (b : Nat) :
    ∀ K m, bestReward B rew b K = some m →
      (∃ k, k < K ∧ rew (k * B + b) = m) ∧ ∀ k, k < K → rew (k * B + b) ≤ m := by
  intro K
  induction K with
  | zero => intro m h; simp [bestReward] at h
  | succ K ih =>
    intro m h
    simp only [bestReward] at h
    cases hK : bestReward B rew b K with
    | none =>
      rw [hK] at h
      have : K = 0 := by
        cases K with
        | zero => rfl
        | succ K' =>
          simp only [bestReward] at hK
          cases h' : bestReward B rew b K' <;> simp [h'] at hK
      subst this
      simp at h
      subst h
      exact ⟨⟨0, by omega, by simp⟩, fun k hk => by
        have : k = 0 := by omega
        subst this; simp⟩
    | some m0 =>
      rw [hK] at h
      obtain ⟨⟨k0, hk0, hk0e⟩, hmax⟩ := ih m0 hK
      simp at h
      by_cases hle : m0 ≤ rew (K * B + b)
      · simp [hle] at h
        subst h
        refine ⟨⟨K, by omega, rfl⟩, fun k hk => ?_⟩
        rcases Nat.lt_succ_iff_lt_or_eq.mp hk with hlt | heq
        · exact Int.le_trans (hmax k hlt) hle
        · subst heq; exact Int.le_refl _
      · simp [hle] at h
        subst h
        refine ⟨⟨k0, by omega, hk0e⟩, fun k hk => ?_⟩
        rcases Nat.lt_succ_iff_lt_or_eq.mp hk with hlt | heq
        · exact hmax k hlt
        · subst heq; omega

/-! ### loop termination -/

/-- mask-confined runs of one row (actions appended at the end, as the loop does) -/
inductive DRun (e : DEnv S) : S → List Nat → S → Prop
  | nil (s : S) : DRun e s [] s
  | snoc {s s' : S} {as : List Nat} {a : Nat} :
      DRun e s as s' → e.mask s' a = true → DRun e s (as ++ [a]) (e.step s' a)

/-- What C02 provides about the rows of a batch (initial states `init r`, `r < B`):
* `stepBound`: a mask-confined run of `bound` or more steps has finished (`E.steps_le`);
* `maskOK`: either every reachable state offers an action (variable-length families: a finished row
  stays steppable), or all rows finish after exactly `n` steps and every unfinished state offers an
  action (equal-length families: the all-false mask after the last step is never looked at). -/
structure LoopHyp (e : DEnv S) (B bound : Nat) (init : Nat → S) : Prop where
  stepBound : ∀ r, r < B → ∀ as s, DRun e (init r) as s → bound ≤ as.length → e.done s = true
  maskOK :
    (∀ r, r < B → ∀ as s, DRun e (init r) as s → ∃ a, e.mask s a = true) ∨
    (∃ n, ∀ r, r < B → ∀ as s, DRun e (init r) as s →
        ((e.done s = true ↔ as.length = n) ∧ (e.done s = false → ∃ a, e.mask s a = true)))

/-- every pass of the loop looks only at rows whose mask has a `True` (no all-false row reaches the
decoder / softmax) -/
def loopSafe (e : DEnv S) (π : S → Row) (sel : Nat → Nat → Row → Nat) (sA : Bool) (B : Nat) :
    Nat → Nat → (Nat → RowSt S) → Prop
  | 0, _, _ => True
  | f + 1, t, b =>
    if allDone e B b then True
    else (∀ r, r < B → ∃ a, e.mask (b r).s a = true) ∧
      loopSafe e π sel sA B f (t + 1) (iter e sA π (fun r row => sel r t row) b)

theorem allDone_iff (e : DEnv S) (B : Nat) (b : Nat → RowSt S) :
    allDone e B b = true ↔ ∀ r, r < B → e.done (b r).s = true := by
  simp [allDone_eq, List.all_eq_true]

theorem loop_terminates_aux (e : DEnv S) (π : S → Row) (sel : Nat → Nat → Row → Nat) (sA : Bool)
    (B bound : Nat) (init : Nat → S) (H : LoopHyp e B bound init)
    (hsel : ∀ r t s, (∃ a, e.mask s a = true) → e.mask s (sel r t (π s)) = true) :
    ∀ (f t : Nat) (b : Nat → RowSt S),
      (∀ r, r < B → ∃ as, DRun e (init r) as (b r).s ∧ as.length = t) →
      t ≤ bound → bound < t + f →
      allDone e B (loop e π sel sA B f t b).1 = true ∧ (loop e π sel sA B f t b).2 ≤ bound ∧
        loopSafe e π sel sA B f t b := by
  intro f
  induction f with
  | zero => intro t b _ h1 h2; omega
  | succ f ih =>
    intro t b hrun h1 h2
    by_cases hdone : allDone e B b = true
    · simp only [loop, loopSafe, hdone, if_true]
      exact ⟨trivial, h1, trivial⟩
    · -- some row is unfinished, hence t < bound
      have hlt : t < bound := by
        apply Nat.lt_of_le_of_ne h1
        intro heq
        apply hdone
        rw [allDone_iff]
        intro r hr
        obtain ⟨as, hr1, hr2⟩ := hrun r hr
        exact H.stepBound r hr as _ hr1 (by omega)
      have hmask : ∀ r, r < B → ∃ a, e.mask (b r).s a = true := by
        intro r hr
        obtain ⟨as, hr1, hr2⟩ := hrun r hr
        rcases H.maskOK with hA | ⟨n, hB⟩
        · exact hA r hr as _ hr1
        · -- equal-length case: if this row were done, all rows would be
          have hnd : e.done (b r).s = false := by
            cases hd : e.done (b r).s with
            | false => rfl
            | true =>
              exfalso
              apply hdone
              rw [allDone_iff]
              intro r' hr'
              obtain ⟨as', hr1', hr2'⟩ := hrun r' hr'
              have hn : as.length = n := ((hB r hr as _ hr1).1).mp hd
              exact ((hB r' hr' as' _ hr1').1).mpr (by omega)
          exact (hB r hr as _ hr1).2 hnd
      simp only [loop, loopSafe, hdone]
      have hrun' : ∀ r, r < B → ∃ as,
          DRun e (init r) as ((iter e sA π (fun r row => sel r t row) b) r).s ∧ as.length = t + 1 := by
        intro r hr
        obtain ⟨as, hr1, hr2⟩ := hrun r hr
        refine ⟨as ++ [sel r t (π (b r).s)], ?_, by simp [hr2]⟩
        simp only [iter, stepRow]
        exact DRun.snoc hr1 (hsel r t _ (hmask r hr))
      obtain ⟨i1, i2, i3⟩ := ih (t + 1) _ hrun' (by omega) (by omega)
      exact ⟨i1, i2, hmask, i3⟩

end Rl4co.Decode
