/-
Generic argument shared by the selection environments (FLP, MCP, DPP/MDPP).  A `View` exposes what
all of them have in common — a mask that loses exactly the selected entry at each step, a step
counter, and `done = (counter before the step ≥ quota − 1)` — and the quota / termination /
completeness facts are proved once from it.  No Mathlib.
-/
import Rl4co.Core.Basic

namespace Rl4co.Sel
variable {I S : Type}

/-- What the generic argument needs to know about a selection environment. -/
structure View (e : Env I S) where
  quota   : I → Int
  allowed : I → Nat → Bool               -- mask of the reset state
  am      : S → Nat → Bool               -- current mask
  ctr     : S → Int                      -- the counter `i`
  mask_eq    : ∀ i s a, e.mask i s a = am s a
  reset_am   : ∀ i a, am (e.reset i) a = allowed i a
  reset_ctr  : ∀ i, ctr (e.reset i) = 0
  reset_done : ∀ i, e.done i (e.reset i) = false
  step_am    : ∀ i s a j, am (e.step i s a) j = upd (am s) a false j
  step_ctr   : ∀ i s a, ctr (e.step i s a) = ctr s + 1
  step_done  : ∀ i s a, e.done i (e.step i s a) = decide (ctr s ≥ quota i - 1)

variable {e : Env I S} (v : View e)

/-- invariant over the history `h` of selections -/
structure Inv (i : I) (s : S) (h : List Nat) : Prop where
  am    : ∀ j, v.am s j = (v.allowed i j && !decide (j ∈ h))
  ctr   : v.ctr s = h.length
  nodup : h.Nodup
  ok    : ∀ a ∈ h, a < e.nAct i ∧ v.allowed i a = true
  done  : e.done i s = decide (h ≠ [] ∧ v.quota i ≤ h.length)
  free  : cnt (e.nAct i) (v.am s) + h.length = cnt (e.nAct i) (v.allowed i)

theorem inv_reset (i : I) : Inv v i (e.reset i) [] where
  am j := by simp [v.reset_am]
  ctr := by simp [v.reset_ctr]
  nodup := List.nodup_nil
  ok := by intro a h; cases h
  done := by simp [v.reset_done]
  free := by
    have : cnt (e.nAct i) (v.am (e.reset i)) = cnt (e.nAct i) (v.allowed i) :=
      cnt_congr (fun j _ => v.reset_am i j)
    simp [this]

theorem inv_step (i : I) (s : S) (h : List Nat) (a : Nat) (hi : Inv v i s h)
    (ha : a < e.nAct i) (hm : e.mask i s a = true) : Inv v i (e.step i s a) (h ++ [a]) := by
  rw [v.mask_eq] at hm
  have hma := hi.am a
  rw [hm] at hma
  have hal : v.allowed i a = true := by
    cases hx : v.allowed i a <;> simp [hx] at hma ⊢
  have hnot : a ∉ h := by
    intro hin; simp [hin] at hma
  refine ⟨?_, ?_, ?_, ?_, ?_, ?_⟩
  · intro j
    rw [v.step_am, upd_apply]
    by_cases hj : j = a
    · subst hj; simp
    · simp only [hj, if_false, hi.am j, List.mem_append, List.mem_singleton, or_false]
  · rw [v.step_ctr, hi.ctr]; simp
  · exact List.nodup_append.mpr ⟨hi.nodup, by simp, by
      intro x hx y hy; simp at hy; subst hy; intro hxy; subst hxy; exact hnot hx⟩
  · intro b hb
    rcases List.mem_append.mp hb with hb | hb
    · exact hi.ok b hb
    · simp at hb; subst hb; exact ⟨ha, hal⟩
  · rw [v.step_done, hi.ctr]
    simp only [List.length_append, List.length_singleton, ne_eq, List.append_eq_nil_iff,
      List.cons_ne_self, and_false, not_false_eq_true, true_and, decide_eq_decide]
    constructor <;> intro hh <;> push_cast at * <;> omega
  · have h1 : cnt (e.nAct i) (v.am (e.step i s a)) = cnt (e.nAct i) (upd (v.am s) a false) :=
      cnt_congr (fun j _ => v.step_am i s a j)
    have h2 := cnt_upd_false (n := e.nAct i) (p := v.am s) ha hm
    have := hi.free
    simp only [List.length_append, List.length_singleton]
    omega

/-- the invariant holds along every mask-confined run from reset -/
theorem inv_of_run {i : I} {s : S} {as : List Nat} (h : Run e i (e.reset i) as s) : Inv v i s as :=
  Rl4co.inv_of_run (Inv := Inv v i) (inv_reset v i) (fun s h a hi ha hm => inv_step v i s h a hi ha hm) h

/-- done exactly from the `quota`-th selection on -/
theorem done_iff {i : I} (hq : 1 ≤ v.quota i) {s : S} {as : List Nat}
    (h : Run e i (e.reset i) as s) : e.done i s = true ↔ v.quota i ≤ as.length := by
  have hi := inv_of_run v h
  rw [hi.done]
  simp only [decide_eq_true_eq]
  constructor
  · exact fun hh => hh.2
  · intro hh
    refine ⟨?_, hh⟩
    intro hnil; subst hnil; simp at hh; omega

include v in
/-- a finished reachable state stays finished -/
theorem done_stable {i : I} {s : S} {as : List Nat} (h : Run e i (e.reset i) as s) (a : Nat)
    (hd : e.done i s = true) : e.done i (e.step i s a) = true := by
  have hi := inv_of_run v h
  rw [hi.done] at hd
  simp only [decide_eq_true_eq] at hd
  rw [v.step_done, hi.ctr]
  simp only [decide_eq_true_eq]
  omega

/-- the mask is non-empty as long as fewer items were selected than the reset mask offers -/
theorem mask_nonempty {i : I} {s : S} {as : List Nat} (h : Run e i (e.reset i) as s)
    (hlt : as.length < cnt (e.nAct i) (v.allowed i)) :
    ∃ a, a < e.nAct i ∧ e.mask i s a = true := by
  have hi := inv_of_run v h
  have hpos : 0 < cnt (e.nAct i) (v.am s) := by have := hi.free; omega
  obtain ⟨a, ha, hm⟩ := cnt_pos.mp hpos
  exact ⟨a, ha, by rw [v.mask_eq]; exact hm⟩

end Rl4co.Sel

namespace Rl4co
variable {I S : Type}

/-- induction on lists from the right -/
theorem snoc_ind {α : Type} {P : List α → Prop} (nil : P []) (snoc : ∀ l a, P l → P (l ++ [a])) :
    ∀ l, P l := by
  intro l
  have : ∀ r : List α, P r.reverse := by
    intro r
    induction r with
    | nil => simpa using nil
    | cons a r ih => simpa using snoc _ a ih
  simpa using this l.reverse

/-- decomposition of a non-empty `RunND` at its last step -/
theorem RunND.snoc_inv {e : Env I S} {i : I} {s s' : S} {as : List Nat} (h : RunND e i s as s') :
    as = [] ∨ ∃ as0 a s0, as = as0 ++ [a] ∧ RunND e i s as0 s0 ∧ e.done i s0 = false ∧
      a < e.nAct i ∧ e.mask i s0 a = true ∧ s' = e.step i s0 a := by
  induction h with
  | nil s => exact Or.inl rfl
  | @cons s s' a as hd ha hm hr ih =>
    right
    rcases ih with hnil | ⟨as0, b, s0, has, hr0, hd0, hb, hmb, hs'⟩
    · subst hnil
      cases hr
      exact ⟨[], a, s, rfl, RunND.nil s, hd, ha, hm, rfl⟩
    · subst has
      exact ⟨a :: as0, b, s0, by simp, RunND.cons hd ha hm hr0, hd0, hb, hmb, hs'⟩

theorem RunND.snoc {e : Env I S} {i : I} {s s' : S} {as : List Nat} {a : Nat}
    (h : RunND e i s as s') (hd : e.done i s' = false) (ha : a < e.nAct i)
    (hm : e.mask i s' a = true) : RunND e i s (as ++ [a]) (e.step i s' a) := by
  induction h with
  | nil s => exact RunND.cons hd ha hm (RunND.nil _)
  | cons h0 h1 h2 _ ih => exact RunND.cons h0 h1 h2 (ih hd hm)

end Rl4co

namespace Rl4co.Sel
variable {I S : Type} {e : Env I S} (v : View e)

/-- an episode that is stepped only while unfinished never exceeds the quota … -/
theorem steps_le {i : I} (hq : 1 ≤ v.quota i) {s : S} {as : List Nat}
    (h : RunND e i (e.reset i) as s) : (as.length : Int) ≤ v.quota i := by
  rcases h.snoc_inv with hnil | ⟨as0, a, s0, has, hr0, hd0, _, _, _⟩
  · subst hnil; simp; omega
  · subst has
    have := (not_congr (done_iff v hq hr0.run)).mp (by simp [hd0])
    simp only [List.length_append, List.length_singleton]
    push_cast
    omega

/-- … and once finished it consists of exactly `quota` distinct items, all offered at reset. -/
theorem quota_of_runND {i : I} (hq : 1 ≤ v.quota i) {s : S} {as : List Nat}
    (h : RunND e i (e.reset i) as s) (hd : e.done i s = true) :
    (as.length : Int) = v.quota i ∧ as.Nodup ∧ ∀ a ∈ as, a < e.nAct i ∧ v.allowed i a = true := by
  have hi := inv_of_run v h.run
  refine ⟨?_, hi.nodup, hi.ok⟩
  have hle := steps_le v hq h
  have hge := (done_iff v hq h.run).mp hd
  omega

/-- completeness: every list of `quota` distinct offered items is a mask-confined episode that is
stepped only while unfinished and ends finished. -/
theorem runND_of_prefix {i : I} (hq : 1 ≤ v.quota i) (as : List Nat) :
    (as.length : Int) ≤ v.quota i → as.Nodup → (∀ a ∈ as, a < e.nAct i ∧ v.allowed i a = true) →
    ∃ s, RunND e i (e.reset i) as s := by
  induction as using snoc_ind with
  | nil => intro _ _ _; exact ⟨_, RunND.nil _⟩
  | snoc as a ih =>
    intro hlen hnd hok
    simp only [List.length_append, List.length_singleton] at hlen
    have hnd' := List.nodup_append.mp hnd
    obtain ⟨s, hr⟩ := ih (by push_cast at hlen ⊢; omega) hnd'.1
      (fun b hb => hok b (List.mem_append_left _ hb))
    have hi := inv_of_run v hr.run
    have hnd0 : e.done i s = false := by
      have := (not_congr (done_iff v hq hr.run)).mpr (by push_cast at hlen; omega)
      simpa using this
    have hoka := hok a (by simp)
    have hnot : a ∉ as := fun hin => hnd'.2.2 a hin a (by simp) rfl
    have hm : e.mask i s a = true := by
      rw [v.mask_eq, hi.am a]; simp [hoka.2, hnot]
    exact ⟨_, hr.snoc hnd0 hoka.1 hm⟩

theorem run_of_feasible {i : I} (hq : 1 ≤ v.quota i) (as : List Nat)
    (hlen : (as.length : Int) = v.quota i) (hnd : as.Nodup)
    (hok : ∀ a ∈ as, a < e.nAct i ∧ v.allowed i a = true) :
    ∃ s, RunND e i (e.reset i) as s ∧ e.done i s = true := by
  obtain ⟨s, hr⟩ := runND_of_prefix v hq as (by omega) hnd hok
  exact ⟨s, hr, (done_iff v hq hr.run).mpr (by omega)⟩

/-- two rows with the same quota that were stepped equally often are both done or both not done:
in a batch of equal quotas no row is ever stepped after it finished -/
theorem done_lockstep {i i' : I} (hq : 1 ≤ v.quota i) (hqq : v.quota i = v.quota i')
    {s s' : S} {as as' : List Nat} (h : Run e i (e.reset i) as s) (h' : Run e i' (e.reset i') as' s')
    (hlen : as.length = as'.length) : e.done i s = e.done i' s' := by
  have h1 := done_iff v hq h
  have h2 := done_iff v (by omega : 1 ≤ v.quota i') h'
  rw [Bool.eq_iff_iff, h1, h2, hqq, hlen]

/-- a row is stepped after it finished only next to a batch-mate with a strictly larger quota -/
theorem padded_only_if_larger_quota {i i' : I} (hq : 1 ≤ v.quota i) (hq' : 1 ≤ v.quota i')
    {s s' : S} {as as' : List Nat} (h : Run e i (e.reset i) as s) (h' : Run e i' (e.reset i') as' s')
    (hlen : as.length = as'.length) (hd : e.done i s = true) (hd' : e.done i' s' = false) :
    v.quota i < v.quota i' := by
  have h1 := (done_iff v hq h).mp hd
  have h2 := (not_congr (done_iff v hq' h')).mp (by simp [hd'])
  omega

end Rl4co.Sel
