/-
Helper lemmas about the mTSP model (`Rl4co.Mtsp`): field projections of `step`, the customer part of
the availability vector, the `done` flag, and the invariants shared by the property files.
-/
import Rl4co.Env.Mtsp
import Rl4co.Spec.Mtsp

namespace Rl4co.Mtsp

theorem anyCust_eq_true {n : Nat} {f : Nat → Bool} :
    anyCust n f = true ↔ ∃ j, 1 ≤ j ∧ j ≤ n ∧ f j = true := by
  simp only [anyCust, List.any_eq_true, List.mem_range]
  constructor
  · rintro ⟨k, hk, hf⟩; exact ⟨k + 1, by omega, by omega, hf⟩
  · rintro ⟨j, h1, h2, hf⟩
    refine ⟨j - 1, by omega, ?_⟩
    have : j - 1 + 1 = j := by omega
    rwa [this]

theorem anyCust_eq_false {n : Nat} {f : Nat → Bool} :
    anyCust n f = false ↔ ∀ j, 1 ≤ j → j ≤ n → f j = false := by
  constructor
  · intro h j h1 h2
    cases hf : f j with
    | false => rfl
    | true =>
      have := anyCust_eq_true.mpr ⟨j, h1, h2, hf⟩
      rw [h] at this; cases this
  · intro h
    cases hc : anyCust n f with
    | false => rfl
    | true =>
      obtain ⟨j, h1, h2, hf⟩ := anyCust_eq_true.mp hc
      rw [h j h1 h2] at hf; cases hf

theorem anyCust_congr {n : Nat} {f g : Nat → Bool} (h : ∀ j, 1 ≤ j → j ≤ n → f j = g j) :
    anyCust n f = anyCust n g := by
  cases hg : anyCust n g with
  | true =>
    obtain ⟨j, h1, h2, hj⟩ := anyCust_eq_true.mp hg
    exact anyCust_eq_true.mpr ⟨j, h1, h2, by rw [h j h1 h2]; exact hj⟩
  | false =>
    have := anyCust_eq_false.mp hg
    exact anyCust_eq_false.mpr (fun j h1 h2 => by rw [h j h1 h2]; exact this j h1 h2)

/-- the operator the theorems need: "an agent is left" is the strict comparison (obligation on the
extracted parameter `Params.mtspAgentCmp`) -/
theorem agentLeft_eq (i : Inst) (s : State) : agentLeft i s = decide (s.agent + 1 < i.m) := by
  simp [agentLeft, Params.mtspAgentCmp, Cmp.evalNat]

@[simp] theorem agentInc_eq (a : Nat) : agentInc a = if a = 0 then 1 else 0 := by
  simp [agentInc, Params.mtspAgentIncCmp, Cmp.evalNat]
@[simp] theorem depotNe_eq (a : Nat) : depotNe a = decide (a ≠ 0) := by
  simp [depotNe, Params.mtspDepotNeCmp, Cmp.evalNat]
@[simp] theorem sameAgent_eq (x y : Nat) : sameAgent x y = decide (x = y) := by
  simp [sameAgent, Params.mtspResetCmp, Cmp.evalNat]
/-- "no customer left" is the test `count == 0` (obligation on `Params.mtspDoneCmp`) -/
@[simp] theorem doneTest_eq (n : Nat) (av : Nat → Bool) : doneTest n av = !(anyCust n av) := by
  simp only [doneTest, Params.mtspDoneCmp, Cmp.evalNat]
  cases h : anyCust n av with
  | true =>
    obtain ⟨j, h1, h2, hj⟩ := anyCust_eq_true.mp h
    have : 0 < cnt n (fun k => av (k + 1)) := cnt_pos.mpr ⟨j - 1, by omega, by
      have e : j - 1 + 1 = j := by omega
      simp [e, hj]⟩
    simp; omega
  | false =>
    have := anyCust_eq_false.mp h
    have : cnt n (fun k => av (k + 1)) = 0 := cnt_eq_zero.mpr (fun j hj => this (j + 1) (by omega) (by omega))
    simp [this]

/-! ### projections of `step` -/

@[simp] theorem step_cur (i : Inst) (s : State) (a : Nat) : (step i s a).cur = a := rfl
@[simp] theorem step_agent (i : Inst) (s : State) (a : Nat) :
    (step i s a).agent = s.agent + (if a = 0 then 1 else 0) := by
  simp [step, stepWith]

/-- customers: only the visited one is switched off -/
theorem step_avail_cust (i : Inst) (s : State) (a j : Nat) (hj : j ≠ 0) :
    (step i s a).avail j = (if j = a then false else s.avail j) := by
  simp only [step, stepWith, upd_apply, hj, if_false]

theorem step_done (i : Inst) (s : State) (a : Nat) :
    (step i s a).done = !(anyCust i.n (step i s a).avail) := by
  have : anyCust i.n (step i s a).avail =
      anyCust i.n (upd (upd s.avail a false) 0 (depotNe a && agentLeft i s)) := by
    apply anyCust_congr
    intro j h1 _
    have hj : j ≠ 0 := by omega
    simp only [step, stepWith, upd_apply, hj, if_false]
  rw [this, ← doneTest_eq]; rfl

theorem step_avail_depot (i : Inst) (s : State) (a : Nat) :
    (step i s a).avail 0 = ((step i s a).done || (decide (a ≠ 0) && decide (s.agent + 1 < i.m))) := by
  rw [← agentLeft_eq]; simp [step, stepWith]

/-- after a step: finished ⇒ no customer is available -/
theorem step_done_true {i : Inst} {s : State} {a : Nat} (h : (step i s a).done = true) :
    ∀ j, 1 ≤ j → j ≤ i.n → (step i s a).avail j = false := by
  rw [step_done] at h
  exact anyCust_eq_false.mp (by simpa using h)

theorem step_done_false {i : Inst} {s : State} {a : Nat} (h : (step i s a).done = false) :
    ∃ j, 1 ≤ j ∧ j ≤ i.n ∧ (step i s a).avail j = true := by
  rw [step_done] at h
  exact anyCust_eq_true.mp (by simpa using h)

/-! ### the invariant of reachable states -/

/-- (1) finished ⇒ no customer available, depot open; (2) unfinished ⇒ some customer available;
(3) unfinished with the depot open ⇒ the salesman is away from the depot and an agent is left;
(4) unfinished ⇒ the running agent exists; (5) at the depot the running length is 0. -/
structure Inv (i : Inst) (s : State) : Prop where
  doneNo   : s.done = true → ∀ j, 1 ≤ j → j ≤ i.n → s.avail j = false
  doneDep  : s.done = true → s.avail 0 = true
  someCust : s.done = false → ∃ j, 1 ≤ j ∧ j ≤ i.n ∧ s.avail j = true
  depot    : s.done = false → s.avail 0 = true → s.cur ≠ 0 ∧ s.agent + 1 < i.m
  agentOk  : s.done = false → s.agent + 1 ≤ i.m

theorem inv_reset (i : Inst) (hn : 1 ≤ i.n) (hm : 1 ≤ i.m) : Inv i (reset i) := by
  refine ⟨?_, ?_, ?_, ?_, ?_⟩ <;> simp [reset]
  · exact ⟨1, by omega, hn, by omega⟩
  · exact hm

/-- a finished state only offers the depot -/
theorem mask_of_done {i : Inst} {s : State} (hi : Inv i s) (hd : s.done = true) {a : Nat}
    (ha : a < i.n + 1) (hm : s.avail a = true) : a = 0 := by
  cases a with
  | zero => rfl
  | succ k =>
    have := hi.doneNo hd (k + 1) (by omega) (by omega)
    rw [this] at hm; cases hm

theorem done_step_of_done {i : Inst} {s : State} (hi : Inv i s) (hd : s.done = true) :
    (step i s 0).done = true := by
  rw [step_done]
  have : anyCust i.n (step i s 0).avail = false := by
    apply anyCust_eq_false.mpr
    intro j h1 h2
    rw [step_avail_cust i s 0 j (by omega)]
    simp [hi.doneNo hd j h1 h2]
  simp [this]

theorem inv_step {i : Inst} {s : State} {a : Nat} (hi : Inv i s) (ha : a < i.n + 1)
    (hm : s.avail a = true) : Inv i (step i s a) := by
  have hdone : s.done = true → (step i s a).done = true := by
    intro hd
    have := mask_of_done hi hd ha hm
    subst this
    exact done_step_of_done hi hd
  refine ⟨fun h => step_done_true h, ?_, fun h => step_done_false h, ?_, ?_⟩
  · intro h; rw [step_avail_depot, h]; rfl
  · intro h h0
    rw [step_avail_depot, h] at h0
    simp only [Bool.false_or, Bool.and_eq_true, decide_eq_true_eq] at h0
    simp only [step_cur, step_agent, h0.1, if_false]
    exact ⟨h0.1, h0.2⟩
  · intro h
    have hs : s.done = false := by
      cases hd : s.done with
      | false => rfl
      | true => rw [hdone hd] at h; cases h
    simp only [step_agent]
    by_cases h0 : a = 0
    · subst h0
      have := (hi.depot hs hm).2
      simp; omega
    · have := hi.agentOk hs
      simp [h0]; omega

theorem inv_of_reach {i : Inst} (hn : 1 ≤ i.n) (hm : 1 ≤ i.m) {s : State} (h : Reach env i s) :
    Inv i s :=
  Rl4co.inv_of_reach (e := env) (Inv := Inv i) (inv_reset i hn hm)
    (fun _ _ hi ha hmask => inv_step hi ha hmask) h

theorem inv_of_run {i : Inst} {s s' : State} {as : List Nat} (h : Run env i s as s') (hi : Inv i s) :
    Inv i s' := by
  induction h with
  | nil s => exact hi
  | cons ha hm _ ih => exact ih (inv_step hi ha hm)

end Rl4co.Mtsp
