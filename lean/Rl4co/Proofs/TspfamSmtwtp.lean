/-
SMTWTP as an instance of the generic permutation environment (`Proofs/TspfamAvail.lean`), and the
link between its spec and permutations of the jobs.  Core only, no Mathlib.
-/
import Rl4co.Env.Smtwtp
import Rl4co.Spec.Smtwtp
import Rl4co.Proofs.TspfamAvail
import Rl4co.Proofs.TspfamParams

namespace Rl4co.Spec.Smtwtp

theorem Feasible.nodup {n : Nat} {as : List Nat} (h : Feasible n as) : as.Nodup := by
  rw [List.nodup_iff_count]
  intro a
  by_cases ha : a ∈ as
  · have := h.range a ha
    rw [h.once a this.1 this.2]; exact Nat.le_refl 1
  · rw [List.count_eq_zero_of_not_mem ha]; omega

/-- a schedule is a permutation of the jobs `1..n` -/
theorem feasible_iff_perm (n : Nat) (as : List Nat) : Feasible n as ↔ as.Perm (List.range' 1 n) := by
  rw [← Rl4co.Tspfam.once_iff_perm]
  exact ⟨fun ⟨h1, h2⟩ => ⟨h1, h2⟩, fun ⟨h1, h2⟩ => ⟨h1, h2⟩⟩

theorem Feasible.length_eq {n : Nat} {as : List Nat} (h : Feasible n as) : as.length = n := by
  have := ((feasible_iff_perm n as).mp h).length_eq
  simpa using this

end Rl4co.Spec.Smtwtp

namespace Rl4co.Smtwtp
open Rl4co.Tspfam

/-- SMTWTP as a permutation environment over the jobs `1..n` (the dummy is unavailable from reset on) -/
def availEnv : AvailEnv env where
  avail s := s.avail
  todo i := i.n
  Inv _ _ := True
  inv_reset _ := trivial
  inv_step := fun _ _ _ _ _ _ => trivial
  mask_avail := fun _ _ _ _ h => h
  step_avail := fun _ _ _ => rfl
  step_done := fun i s a => (doneCmp_ok (cnt (i.n + 1) (upd s.avail a false))).2.2.2
  reset_done := fun _ => rfl
  reset_cnt := fun i => cnt_ne_zero i.n

theorem mask_eq_avail (i : Inst) (s : State) (a : Nat) : env.mask i s a = availEnv.avail s a := rfl

end Rl4co.Smtwtp
