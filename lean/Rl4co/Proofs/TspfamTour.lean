/-
Spec-level sanity of the tour objectives (independent of every environment model):
the closed tour length is invariant under rotation of the tour; for symmetric distances it is invariant
under reversal; the roll idiom written leg by leg.  Core only, no Mathlib.
-/
import Rl4co.Core.Tour

namespace Rl4co.Tspfam

/-- appending one more node to a path adds the last leg -/
theorem pathLen_snoc (D : Nat → Nat → Int) (xs : List Nat) (y z : Nat) :
    pathLen D (xs ++ [y, z]) = pathLen D (xs ++ [y]) + D y z := by
  induction xs with
  | nil => simp [pathLen]
  | cons a xs ih =>
    cases xs with
    | nil => simp [pathLen]
    | cons b xs =>
      simp only [List.cons_append, pathLen_cons_cons] at ih ⊢
      rw [ih]; omega

/-- rotating a closed tour (start at the second node) does not change its length — any `D` -/
theorem closedLen_roll1 (D : Nat → Nat → Int) (xs : List Nat) : closedLen D (roll1 xs) = closedLen D xs := by
  match xs with
  | [] => rfl
  | [x] => rfl
  | x :: y :: ys =>
    show closedLen D (y :: ys ++ [x]) = closedLen D (x :: y :: ys)
    have h := pathLen_snoc D (y :: ys) x y
    simp only [closedLen, List.cons_append, pathLen_cons_cons, List.append_assoc, List.cons_append,
      List.nil_append] at h ⊢
    rw [h]; omega

/-- an open path has the same length walked backwards when distances are symmetric -/
theorem pathLen_reverse (D : Nat → Nat → Int) (hs : ∀ a b, D a b = D b a) (xs : List Nat) :
    pathLen D xs.reverse = pathLen D xs := by
  induction xs with
  | nil => rfl
  | cons x tl ih =>
    cases tl with
    | nil => rfl
    | cons y r =>
      have h := pathLen_snoc D r.reverse y x
      simp only [List.reverse_cons, List.append_assoc, List.cons_append, List.nil_append] at ih h ⊢
      rw [h, ih, pathLen_cons_cons, hs y x]; omega

/-- the closed tour has the same length in the opposite direction when distances are symmetric -/
theorem closedLen_reverse (D : Nat → Nat → Int) (hs : ∀ a b, D a b = D b a) (xs : List Nat) :
    closedLen D xs.reverse = closedLen D xs := by
  match xs with
  | [] => rfl
  | x :: r =>
    have h1 : (x :: r).reverse = roll1 (x :: r.reverse) := by simp [roll1]
    rw [h1, closedLen_roll1]
    show pathLen D (x :: r.reverse ++ [x]) = pathLen D (x :: r ++ [x])
    have h2 : x :: r.reverse ++ [x] = (x :: r ++ [x]).reverse := by simp
    rw [h2, pathLen_reverse D hs]

/-- the `gather / roll(-1)` idiom leg by leg: leg `k` goes FROM `xs[k]` TO `xs[(k+1) mod len]` -/
theorem zipWith_roll1_legs (D : Nat → Nat → Int) (xs : List Nat) :
    List.zipWith (fun a b => D a b) xs (roll1 xs) =
      (List.range xs.length).map (fun k => D (xs.getD k 0) (xs.getD ((k + 1) % xs.length) 0)) := by
  apply List.ext_getElem
  · cases xs <;> simp [roll1]
  · intro k h1 h2
    simp only [List.length_map, List.length_range] at h2
    cases xs with
    | nil => simp at h2
    | cons x r =>
      simp only [List.getElem_zipWith, List.getElem_map, List.getElem_range, roll1, List.length_cons,
        List.getD_eq_getElem?_getD]
      congr 1
      · simp [List.getElem?_eq_getElem h2]
      · simp only [List.length_cons] at h2
        by_cases hk : k + 1 < r.length + 1
        · rw [Nat.mod_eq_of_lt hk]
          have : k < r.length := by omega
          simp [List.getElem_append_left this, List.getElem?_cons_succ, List.getElem?_eq_getElem this]
        · have hk' : k = r.length := by omega
          subst hk'
          simp

end Rl4co.Tspfam
