/-
FFSP: what surrounds the per-row state machine.
* `IndexTables`: `itertools.permutations(range(M))` (`permsOf`), the row → permutation map after `set_bs`
  (`Tables.perm`, `pomo_idx = row // bs`): every table row is a permutation of `0..M-1`, there are `M!` of
  them (`get_num_starts`), and under the k-major `batchify` layout copy `j` of instance `b` uses
  permutation `j` — so the instance a batch row is stepped as (`rowInst`) is well-formed.
* `flatten_stages`: the policy-facing `stage_idx` / `stage_machine_idx` written by `_update_step_state`,
  and their relation to `machine_idx` in both settings; the schedule bookkeeping never reads them.
* `FFSPGenerator`: `run_time = randint(low=min_time, high=max_time)` lies in `[min_time, max_time)`, hence
  generated instances are well-formed (and have positive durations) — with the defaults extracted from the
  source on every run.
No Mathlib.
-/
import Rl4co.Proofs.Ffsp
namespace Rl4co.Ffsp

/-! ### `IndexTables` -/

theorem permsAux_mem : ∀ (n : Nat) (l p : List Nat), p ∈ permsAux n l → p.length = n ∧ ∀ x ∈ p, x ∈ l := by
  intro n
  induction n with
  | zero => intro l p hp; simp [permsAux] at hp; subst hp; exact ⟨rfl, fun _ h => by cases h⟩
  | succ n ih =>
    intro l p hp
    simp only [permsAux, List.mem_flatMap, List.mem_map] at hp
    obtain ⟨x, hx, p', hp', rfl⟩ := hp
    obtain ⟨h1, h2⟩ := ih (l.erase x) p' hp'
    refine ⟨by simp [h1], ?_⟩
    intro y hy
    rcases List.mem_cons.mp hy with rfl | hy
    · exact hx
    · exact List.mem_of_mem_erase (h2 y hy)

/-- every entry of every table row is a machine position `< M` -/
theorem permsOf_entry_lt (M : Nat) (p : List Nat) (hp : p ∈ permsOf M) : p.length = M ∧ ∀ x ∈ p, x < M := by
  obtain ⟨h1, h2⟩ := permsAux_mem M (List.range M) p hp
  exact ⟨h1, fun x hx => List.mem_range.mp (h2 x hx)⟩

def fact : Nat → Nat
  | 0 => 1
  | n + 1 => (n + 1) * fact n

theorem sum_map_const {α : Type} (l : List α) (g : α → Nat) (c : Nat) (h : ∀ x ∈ l, g x = c) :
    (l.map g).sum = l.length * c := by
  induction l with
  | nil => simp
  | cons a l ih =>
    simp only [List.map_cons, List.sum_cons, List.length_cons]
    rw [h a (by simp), ih (fun x hx => h x (List.mem_cons_of_mem _ hx)), Nat.succ_mul]; omega

theorem permsAux_length : ∀ (n : Nat) (l : List Nat), l.length = n → (permsAux n l).length = fact n := by
  intro n
  induction n with
  | zero => intro l _; rfl
  | succ n ih =>
    intro l hl
    simp only [permsAux, List.length_flatMap]
    rw [sum_map_const l _ (fact n)]
    · rw [hl]; rfl
    · intro x hx
      rw [List.length_map]
      apply ih
      rw [List.length_erase_of_mem hx, hl]; rfl

/-- **`get_num_starts`**: the table has `M!` rows -/
theorem permsOf_length (M : Nat) : (permsOf M).length = fact M :=
  permsAux_length M (List.range M) List.length_range

theorem getD_mem {α : Type} : ∀ (l : List α) (n : Nat) (d : α), n < l.length → l.getD n d ∈ l
  | [], _, _, h => by simp at h
  | a :: l, 0, d, _ => by simp
  | a :: l, n + 1, d, h => by
    simp only [List.getD_cons_succ]
    exact List.mem_cons_of_mem _ (getD_mem l n d (by simpa using h))

/-- the permutation a row uses maps `0..M-1` into itself, as long as its `pomo_idx` is a table row -/
theorem tables_perm_lt (tb : Tables) (row : Nat) (hrow : pomoIdx tb.bs row < fact tb.M) :
    ∀ p, p < tb.M → tb.perm row p < tb.M := by
  intro p hp
  unfold Tables.perm
  have hlen : pomoIdx tb.bs row < (permsOf tb.M).length := by rw [permsOf_length]; exact hrow
  have hmem : (permsOf tb.M).getD (pomoIdx tb.bs row) [] ∈ permsOf tb.M := getD_mem _ _ _ hlen
  obtain ⟨h1, h2⟩ := permsOf_entry_lt tb.M _ hmem
  have hp' : p < ((permsOf tb.M).getD (pomoIdx tb.bs row) []).length := by rw [h1]; exact hp
  exact h2 _ (getD_mem _ _ _ hp')

theorem permsAux_nodup : ∀ (n : Nat) (l p : List Nat), l.Nodup → p ∈ permsAux n l → p.Nodup := by
  intro n
  induction n with
  | zero => intro l p _ hp; simp [permsAux] at hp; subst hp; exact List.nodup_nil
  | succ n ih =>
    intro l p hl hp
    simp only [permsAux, List.mem_flatMap, List.mem_map] at hp
    obtain ⟨x, _, p', hp', rfl⟩ := hp
    have hn := ih (l.erase x) p' (hl.erase x) hp'
    refine List.nodup_cons.mpr ⟨?_, hn⟩
    intro hx
    have := (permsAux_mem n (l.erase x) p' hp').2 x hx
    exact (hl.mem_erase_iff.mp this).1 rfl

theorem permsAux_surj : ∀ (n : Nat) (l p : List Nat), l.length = n → p ∈ permsAux n l → ∀ y ∈ l, y ∈ p := by
  intro n
  induction n with
  | zero =>
    intro l p hl _ y hy
    rw [List.length_eq_zero_iff.mp hl] at hy; cases hy
  | succ n ih =>
    intro l p hl hp y hy
    simp only [permsAux, List.mem_flatMap, List.mem_map] at hp
    obtain ⟨x, hx, p', hp', rfl⟩ := hp
    by_cases hyx : y = x
    · subst hyx; exact List.mem_cons_self
    · have hlen : (l.erase x).length = n := by rw [List.length_erase_of_mem hx, hl]; rfl
      exact List.mem_cons_of_mem _ (ih (l.erase x) p' hlen hp' y ((List.mem_erase_of_ne hyx).mpr hy))

theorem getD_inj_of_nodup : ∀ (l : List Nat) (p q : Nat), l.Nodup → p < l.length → q < l.length →
    l.getD p 0 = l.getD q 0 → p = q
  | [], _, _, _, hp, _, _ => by simp at hp
  | a :: l, 0, 0, _, _, _, _ => rfl
  | a :: l, 0, q + 1, hn, _, hq, he => by
    exfalso
    simp only [List.getD_cons_zero, List.getD_cons_succ] at he
    have : a ∈ l := by rw [he]; exact getD_mem l q 0 (by simpa using hq)
    exact (List.nodup_cons.mp hn).1 this
  | a :: l, p + 1, 0, hn, hp, _, he => by
    exfalso
    simp only [List.getD_cons_zero, List.getD_cons_succ] at he
    have : a ∈ l := by rw [← he]; exact getD_mem l p 0 (by simpa using hp)
    exact (List.nodup_cons.mp hn).1 this
  | a :: l, p + 1, q + 1, hn, hp, hq, he => by
    simp only [List.getD_cons_succ] at he
    have := getD_inj_of_nodup l p q (List.nodup_cons.mp hn).2 (by simpa using hp) (by simpa using hq) he
    omega

theorem mem_getD : ∀ (l : List Nat) (y : Nat), y ∈ l → ∃ p, p < l.length ∧ l.getD p 0 = y
  | [], _, h => by cases h
  | a :: l, y, h => by
    rcases List.mem_cons.mp h with rfl | h
    · exact ⟨0, by simp, by simp⟩
    · obtain ⟨p, hp, he⟩ := mem_getD l y h
      exact ⟨p + 1, by simpa using hp, by simpa using he⟩

/-- every table row is a bijection of `0..M-1`: injective … -/
theorem tables_perm_inj (tb : Tables) (row : Nat) (hrow : pomoIdx tb.bs row < fact tb.M) :
    ∀ p q, p < tb.M → q < tb.M → tb.perm row p = tb.perm row q → p = q := by
  intro p q hp hq he
  unfold Tables.perm at he
  have hlen : pomoIdx tb.bs row < (permsOf tb.M).length := by rw [permsOf_length]; exact hrow
  have hmem : (permsOf tb.M).getD (pomoIdx tb.bs row) [] ∈ permsOf tb.M := getD_mem _ _ _ hlen
  have h1 := (permsOf_entry_lt tb.M _ hmem).1
  have hn := permsAux_nodup tb.M (List.range tb.M) _ List.nodup_range hmem
  exact getD_inj_of_nodup _ p q hn (by rw [h1]; exact hp) (by rw [h1]; exact hq) he

/-- … and onto -/
theorem tables_perm_surj (tb : Tables) (row : Nat) (hrow : pomoIdx tb.bs row < fact tb.M) :
    ∀ y, y < tb.M → ∃ p, p < tb.M ∧ tb.perm row p = y := by
  intro y hy
  unfold Tables.perm
  have hlen : pomoIdx tb.bs row < (permsOf tb.M).length := by rw [permsOf_length]; exact hrow
  have hmem : (permsOf tb.M).getD (pomoIdx tb.bs row) [] ∈ permsOf tb.M := getD_mem _ _ _ hlen
  have h1 := (permsOf_entry_lt tb.M _ hmem).1
  have hs := permsAux_surj tb.M (List.range tb.M) _ List.length_range hmem y (List.mem_range.mpr hy)
  obtain ⟨p, hp, he⟩ := mem_getD _ y hs
  exact ⟨p, by rw [← h1]; exact hp, he⟩

/-- **Every batch row is stepped as a well-formed instance**: env shape `S, M, J ≥ 1`, durations below the
sentinel, and a row index whose `pomo_idx` is inside the table (`row < M! · bs`). -/
theorem rowInst_wf (tb : Tables) (S J : Nat) (flat : Bool) (dur : Nat → Nat → Nat) (row : Nat)
    (hS : 0 < S) (hM : 0 < tb.M) (hJ : 0 < J) (hrow : pomoIdx tb.bs row < fact tb.M)
    (hd : ∀ j m, j < J → m < tb.M * S → (dur j m : Int) < -UNSET) : WF (rowInst tb S J flat dur row) :=
  ⟨hS, hM, hJ, tables_perm_lt tb row hrow, hd⟩

/-- **k-major multi-start layout** (`batchify(td, k)` after `reset` with batch size `B`): copy `j` of
instance `b` sits at row `j·B + b` and is stepped with table row `j`; un-replicated batches (`j = 0`) use
the identity order at every position. -/
theorem kmajor_perm (M B j b : Nat) (hb : b < B) :
    (Tables.mk M B).perm (j * B + b) = fun p => ((permsOf M).getD j []).getD p 0 := by
  unfold Tables.perm
  have : pomoIdx B (j * B + b) = j := by
    show (match Params.ffspPomoFloorDiv with | true => (j * B + b) / B | false => (j * B + b) % B) = j
    show (j * B + b) / B = j
    rw [Nat.add_comm, Nat.add_mul_div_right _ _ (by omega), Nat.div_eq_of_lt hb, Nat.zero_add]
  simp only [this]

/-- the first table row is the identity permutation -/
theorem permsAux_head : ∀ (n : Nat) (l : List Nat), l.length = n → (permsAux n l).head? = some l := by
  intro n
  induction n with
  | zero => intro l hl; simp [permsAux, List.length_eq_zero_iff.mp hl]
  | succ n ih =>
    intro l hl
    match l, hl with
    | x :: t, hl =>
      have ht : t.length = n := by simpa using hl
      simp only [permsAux, List.flatMap_cons, List.erase_cons_head]
      have h1 := ih t ht
      cases hp : permsAux n t with
      | nil => rw [hp] at h1; simp at h1
      | cons q qs =>
        rw [hp] at h1
        simp only [List.head?_cons, Option.some.injEq] at h1
        simp [h1]

theorem getD_range (M p : Nat) (hp : p < M) : (List.range M).getD p 0 = p := by
  simp [List.getD, hp]

theorem permsOf_head (M : Nat) : ∀ p, p < M → ((permsOf M).getD 0 []).getD p 0 = p := by
  intro p hp
  have h := permsAux_head M (List.range M) List.length_range
  have : (permsOf M).getD 0 [] = List.range M := by
    unfold permsOf
    cases hq : permsAux M (List.range M) with
    | nil => rw [hq] at h; simp at h
    | cons q qs => rw [hq] at h; simp at h; simp [h]
  rw [this]; exact getD_range M p hp


/-- an un-replicated batch (`k = 1`): every row, wherever it sits, sweeps the machines in identity order -/
theorem unreplicated_identity (M B b : Nat) (hb : b < B) : ∀ p, p < M → (Tables.mk M B).perm b p = p := by
  intro p hp
  have := kmajor_perm M B 0 b hb
  simp only [Nat.zero_mul, Nat.zero_add] at this
  rw [this]; exact permsOf_head M p hp

/-! ### `flatten_stages`: the policy-facing indices -/

/-- in every state of a row of a running batch `stage_idx` / `stage_machine_idx` are the table entries of
the current `sub_time_idx` (they are refreshed by `_update_step_state`, like the mask) -/
theorem policy_idx_of_reach (i : Inst) {s : State} (hr : Reach envM i s) :
    s.stage = stageOf i s.sub ∧ s.smidx = stageMachineOf i s.sub :=
  inv_of_reach (e := envM) (Inv := fun s => s.stage = stageOf i s.sub ∧ s.smidx = stageMachineOf i s.sub)
    ⟨rfl, rfl⟩ (fun _ _ _ _ _ => ⟨rfl, rfl⟩) hr

/-- `flatten_stages = True`: `stage_machine_idx = machine_idx` (one embedding per machine) -/
theorem smidx_flat (i : Inst) (h : WF i) {s : State} (hr : Reach envM i s) (hf : i.flat = true) :
    s.smidx = s.midx := by
  rw [(policy_idx_of_reach i hr).2, (live_of_reach i h hr).core.midx_eq]
  simp [stageMachineOf, hf]

/-- `flatten_stages = False`: `stage_machine_idx` is the machine's position within its stage,
`machine_idx = stage_machine_idx + M · stage_idx`, and `stage_machine_idx < M` — so reading it in place of
`machine_idx` (as the schedule bookkeeping must not) hits a stage-0 machine. -/
theorem smidx_unflat (i : Inst) (h : WF i) {s : State} (hr : Reach envM i s) (hf : i.flat = false) :
    s.midx = s.smidx + i.M * s.stage ∧ s.smidx < i.M := by
  obtain ⟨e1, e2⟩ := policy_idx_of_reach i hr
  rw [e1, e2, (live_of_reach i h hr).core.midx_eq]
  simp only [stageMachineOf, hf, Bool.false_eq_true, if_false, machineOf, stageOf]
  exact ⟨trivial, h.perm_lt _ (Nat.mod_lt _ h.M_pos)⟩

/-- the bookkeeping half of `_step` never reads the policy-facing indices: instances that differ only in
`flatten_stages` do the same bookkeeping -/
theorem apply_flat_irrelevant (i : Inst) (s : State) (a : Nat) (f : Bool) :
    apply { i with flat := f } s a = apply i s a := rfl

/-! ### `FFSPGenerator` -/

/-- **Generated instances are well-formed**: `run_time = min_time + u` with raw draws
`u < max_time − min_time` (`torch.randint(low=min_time, high=max_time)`), `max_time` at most the sentinel. -/
theorem gen_wf (S M J minT maxT : Nat) (u : Nat → Nat → Nat) (perm : Nat → Nat) (flat : Bool)
    (hS : 0 < S) (hM : 0 < M) (hJ : 0 < J) (hperm : ∀ p, p < M → perm p < M)
    (hmax : (maxT : Int) ≤ -UNSET) (hu : ∀ j m, j < J → m < M * S → u j m < maxT - minT) :
    WF ⟨S, M, J, genDur minT u, perm, flat⟩ :=
  ⟨hS, hM, hJ, hperm, fun j m hj hm => by
    have := hu j m hj hm
    simp only [genDur]; omega⟩

/-- all durations positive (the generator draws from `[min_time, max_time)` with `min_time ≥ 1`) -/
def DurPos (i : Inst) : Prop := ∀ j m, j < i.J → m < MT i → 0 < i.dur j m

theorem gen_durpos (S M J minT : Nat) (u : Nat → Nat → Nat) (perm : Nat → Nat) (flat : Bool)
    (hmin : 1 ≤ minT) : DurPos ⟨S, M, J, genDur minT u, perm, flat⟩ := by
  intro j m _ _; simp only [genDur]; omega

/-- **The bundled generator with its default parameters** (extracted from `generator.py` on every run:
`[num_stage, num_machine, num_job, min_time, max_time]`), stepped at any row of any batch whose
`pomo_idx` is inside the table: well-formed, with positive durations. -/
theorem default_gen_wf (u : Nat → Nat → Nat) (flat : Bool) (bs row : Nat)
    (hrow : pomoIdx bs row < fact (Params.ffspGenDefaults.getD 1 0))
    (hu : ∀ j m, u j m < Params.ffspGenDefaults.getD 4 0 - Params.ffspGenDefaults.getD 3 0) :
    WF (rowInst ⟨Params.ffspGenDefaults.getD 1 0, bs⟩ (Params.ffspGenDefaults.getD 0 0)
        (Params.ffspGenDefaults.getD 2 0) flat (genDur (Params.ffspGenDefaults.getD 3 0) u) row) ∧
    DurPos (rowInst ⟨Params.ffspGenDefaults.getD 1 0, bs⟩ (Params.ffspGenDefaults.getD 0 0)
        (Params.ffspGenDefaults.getD 2 0) flat (genDur (Params.ffspGenDefaults.getD 3 0) u) row) := by
  have hlh : Params.ffspGenLowHigh = true := rfl
  constructor
  · have hM : 0 < Params.ffspGenDefaults.getD 1 0 := by decide
    refine rowInst_wf _ _ _ _ _ _ (by decide) hM (by decide) hrow ?_
    intro j m _ _
    have := hu j m
    have h4 : ((Params.ffspGenDefaults.getD 4 0 : Nat) : Int) ≤ -UNSET := by decide
    simp only [genDur]; omega
  · intro j m _ _
    have h3 : 1 ≤ Params.ffspGenDefaults.getD 3 0 := by decide
    show 0 < genDur (Params.ffspGenDefaults.getD 3 0) u j m
    simp only [genDur]; omega


/-! ### The regenerated tables

`harness/probes/ffsp.py` executes the source text of the class `IndexTables` for 2 stages × 3 machines
(both `flatten_stages` settings) on every run and writes the three tables into `Generated/Params.lean`.
The model's index functions reproduce them entry for entry. -/

/-- the instance row `p` of a 2 × 3 env is stepped as (`bs = 1`, so `pomo_idx = row`) -/
def inst23 (flat : Bool) (p : Nat) : Inst := rowInst ⟨3, 1⟩ 2 1 flat (fun _ _ => 1) p

/-- **Obligation on the regenerated tables**: `stage_table`, `machine_table` and `stage_machine_table`
(both settings) of the source are the model's `stageOf`, `machineOf`, `stageMachineOf`. -/
theorem tables_match :
    (List.range 6).map (stageOf (inst23 false 0)) = Params.ffspTblStage23 ∧
    (List.range 6).map (fun p => (List.range 6).map (machineOf (inst23 false p))) = Params.ffspTblMachine23 ∧
    (List.range 6).map (fun p => (List.range 6).map (stageMachineOf (inst23 false p))) = Params.ffspTblStageMachine23 ∧
    (List.range 6).map (fun p => (List.range 6).map (stageMachineOf (inst23 true p))) = Params.ffspTblStageMachineFlat23 := by
  decide

/-- Non-vacuity: 3 machines → 6 table rows in `itertools` order; row 7 of a 2-fold replicated batch of 4
uses table row 1. -/
example : permsOf 3 = [[0, 1, 2], [0, 2, 1], [1, 0, 2], [1, 2, 0], [2, 0, 1], [2, 1, 0]] := by decide
example : (List.range 3).map ((Tables.mk 3 4).perm 7) = [0, 2, 1] := by decide
example : pomoIdx 4 7 < fact 3 := by decide

end Rl4co.Ffsp
