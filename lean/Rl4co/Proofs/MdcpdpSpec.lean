/-
Spec-level sanity lemmas for MDCPDP, independent of the environment model.
* `feasible_exists`      every problem with at least one depot whose vehicle can carry one order has a feasible solution
                         (the vehicle of depot 0 serves the orders one after the other);
* `objMinmax_le_objMinsum`  the longest per-depot length is at most the total (non-negative per-depot lengths);
* `wf_generated_iff` / `wf_generated_repaired`  the generator-facing clause: the instance the real `_reset`/`_step` build
                         from generator parameters is well-formed iff the capacity tensor has one entry per depot — with the
                         bundled generator (`genCapLen`) only for a single depot, with the repaired generator always.
-/
import Rl4co.Props.C03.MdcpdpSim

namespace Rl4co.Mdcpdp
open Rl4co.Spec.Mdcpdp

/-- the orders `j, j+1, …, h−1` served one after the other: pickup, delivery, pickup, delivery, … -/
def serialFrom (p : Problem) : Nat → Nat → List Nat
  | _, 0 => []
  | j, n + 1 => (p.K + j) :: (p.K + p.h + j) :: serialFrom p (j + 1) n

/-- the vehicle of depot 0 serves all orders one after the other -/
def serial (p : Problem) : List Nat := 0 :: serialFrom p 0 p.h

structure Serving (p : Problem) (j : Nat) (σ : Sim) : Prop where
  err     : σ.err = 0
  veh     : σ.veh = some 0
  onboard : σ.onboard = []
  served  : ∀ x, x ∈ σ.served ↔ ∃ k, k < j ∧ (x = p.K + k ∨ x = p.K + p.h + k)

theorem serving_pair (p : Problem) (hc : 1 ≤ p.cap 0) (j : Nat) (hj : j < p.h) (σ : Sim) (h : Serving p j σ) :
    Serving p (j + 1) (simStep p {} (simStep p {} σ (p.K + j)) (p.K + p.h + j)) := by
  have hns1 : (p.K + j) ∉ σ.served := by
    intro hm; obtain ⟨k, hk, h1 | h1⟩ := (h.served _).mp hm <;> omega
  have hns2 : (p.K + p.h + j) ∉ σ.served := by
    intro hm; obtain ⟨k, hk, h1 | h1⟩ := (h.served _).mp hm <;> omega
  have hN1 : ¬ (p.K + j ≥ p.N) := by simp [Problem.N]; omega
  have hK1 : ¬ (p.K + j < p.K) := by omega
  have hP1 : p.K + j < p.K + p.h := by omega
  have hcap : ¬ (((([] : List Nat).length : Nat) : Int) + 1 > p.cap 0) := by simp; omega
  have e1 : simStep p {} σ (p.K + j) =
      { σ with served := (p.K + j) :: σ.served, pos := p.K + j, clock := σ.clock + p.D σ.pos (p.K + j),
               lens := addLen σ.lens 0 (p.D σ.pos (p.K + j)), onboard := [p.K + j] } := by
    simp [simStep, h.err, hN1, hK1, h.veh, hns1, hP1, h.onboard]
    intro hlt; omega
  obtain ⟨σ1, hσ1⟩ : ∃ σ1, simStep p {} σ (p.K + j) = σ1 := ⟨_, rfl⟩
  rw [hσ1]
  rw [e1] at hσ1
  have s1err : σ1.err = 0 := by rw [← hσ1]; exact h.err
  have s1veh : σ1.veh = some 0 := by rw [← hσ1]; exact h.veh
  have s1on : σ1.onboard = [p.K + j] := by rw [← hσ1]
  have s1served : σ1.served = (p.K + j) :: σ.served := by rw [← hσ1]
  have hN2 : ¬ (p.K + p.h + j ≥ p.N) := by simp [Problem.N]; omega
  have hK2 : ¬ (p.K + p.h + j < p.K) := by omega
  have hP2 : ¬ (p.K + p.h + j < p.K + p.h) := by omega
  have hsub : p.K + p.h + j - p.h = p.K + j := by omega
  have hns2' : (p.K + p.h + j) ∉ σ1.served := by
    rw [s1served]; simp only [List.mem_cons, not_or]; exact ⟨by omega, hns2⟩
  have e2 : simStep p {} σ1 (p.K + p.h + j) =
      { σ1 with served := (p.K + p.h + j) :: σ1.served, pos := p.K + p.h + j,
                clock := σ1.clock + p.D σ1.pos (p.K + p.h + j),
                lens := addLen σ1.lens 0 (p.D σ1.pos (p.K + p.h + j)), onboard := [],
                late := σ1.late + (σ1.clock + p.D σ1.pos (p.K + p.h + j)) } := by
    simp [simStep, s1err, hN2, hK2, s1veh, hns2', hP2, hsub, s1on]
  rw [e2]
  refine ⟨s1err, s1veh, rfl, ?_⟩
  intro x
  show x ∈ (p.K + p.h + j) :: σ1.served ↔ _
  rw [s1served]
  simp only [List.mem_cons]
  constructor
  · rintro (hx | hx | hx)
    · exact ⟨j, by omega, Or.inr hx⟩
    · exact ⟨j, by omega, Or.inl hx⟩
    · obtain ⟨k, hk, h1⟩ := (h.served x).mp hx
      exact ⟨k, by omega, h1⟩
  · rintro ⟨k, hk, h1⟩
    by_cases hkj : k = j
    · subst hkj; rcases h1 with h1 | h1
      · exact Or.inr (Or.inl h1)
      · exact Or.inl h1
    · exact Or.inr (Or.inr ((h.served x).mpr ⟨k, by omega, h1⟩))

theorem serving_fold (p : Problem) (hc : 1 ≤ p.cap 0) (n : Nat) : ∀ (j : Nat) (σ : Sim), j + n = p.h → Serving p j σ →
    Serving p p.h ((serialFrom p j n).foldl (simStep p {}) σ) := by
  induction n with
  | zero => intro j σ hj h; have : j = p.h := by omega
            subst this; exact h
  | succ n ih =>
    intro j σ hj h
    simp only [serialFrom, List.foldl_cons]
    exact ih (j + 1) _ (by omega) (serving_pair p hc j (by omega) σ h)

/-- **Every problem with a depot whose vehicle can carry one order has a feasible solution.** -/
theorem feasible_exists (p : Problem) (hK : 1 ≤ p.K) (hc : 1 ≤ p.cap 0) : Feasible p (serial p) := by
  have h0 : Serving p 0 (simStep p {} {} 0) := by
    have hN : ¬ (0 ≥ p.N) := by simp [Problem.N]; omega
    have hK0 : 0 < p.K := hK
    have e : simStep p {} {} 0 = { ({} : Sim) with opened := [0], veh := some 0, pos := 0, clock := 0 } := by
      simp [simStep, hN, hK0]
    rw [e]
    exact ⟨rfl, rfl, rfl, fun x => by simp⟩
  have h := serving_fold p hc p.h 0 _ (by omega) h0
  simp only [Feasible, feasible, verdict, sim, serial, List.foldl_cons, beq_iff_eq]
  apply simEnd_err_zero p {} _ h.err h.onboard
  simp only [List.all_eq_true, List.mem_range, decide_eq_true_eq]
  intro k hk
  apply (h.served _).mpr
  by_cases hkh : k < p.h
  · exact ⟨k, hkh, Or.inl rfl⟩
  · exact ⟨k - p.h, by omega, Or.inr (by omega)⟩

/-! ### objectives -/

theorem sum_nonneg (l : List Int) (h : ∀ z ∈ l, 0 ≤ z) : 0 ≤ l.sum := by
  induction l with
  | nil => simp
  | cons z zs ih =>
    have := h z (by simp); have := ih (fun w hw => h w (by simp [hw]))
    simp only [List.sum_cons]; omega

theorem maxList1_le_sum (l : List Int) (h : ∀ x ∈ l, 0 ≤ x) : Spec.Mdcpdp.maxList1 l ≤ l.sum := by
  induction l with
  | nil => simp [Spec.Mdcpdp.maxList1]
  | cons x xs ih =>
    have hx := h x (by simp)
    have hxs := ih (fun y hy => h y (by simp [hy]))
    cases xs with
    | nil => simp [Spec.Mdcpdp.maxList1]
    | cons y ys =>
      have hs := sum_nonneg (y :: ys) (fun z hz => h z (by simp [hz]))
      simp only [Spec.Mdcpdp.maxList1, List.sum_cons] at hxs hs ⊢
      omega

/-- the longest per-depot length is at most the total length (whenever the per-depot lengths are non-negative) -/
theorem objMinmax_le_objMinsum (p : Problem) (v : Variant) (as : List Nat)
    (h : ∀ x ∈ perDepot p v as, 0 ≤ x) : objMinmax p v as ≤ objMinsum p v as :=
  maxList1_le_sum _ h

/-! ### generator-facing well-formedness -/

/-- the instance the real `_reset` / `_step` build from generator parameters (`n` customers, `G` depots) when the
capacity tensor has `w` entries per row -/
def genInst (n G w : Nat) (cap : Nat → Int) (D : Nat → Nat → Int) : Inst :=
  { N := n + G, K := w, split0 := n / 2 + G, KG := G, cap := cap, D := D, openMode := false, wNum := 0, wDen := 1 }

/-- **repaired clause**: one capacity entry per depot ⇒ well-formed -/
theorem wf_generated_repaired (n G : Nat) (cap : Nat → Int) (D : Nat → Nat → Int) (hn : n % 2 = 0) (hG : 1 ≤ G)
    (hc : 1 ≤ cap 0) : WF (genInst n G G cap D) := by
  refine ⟨hG, ?_, ?_, rfl, hc, rfl⟩
  · show n + G = G + 2 * ((n + G - G) / 2); omega
  · show n / 2 + G = (n + G - G) / 2 + G; simp

/-- **as generated** (capacity width `genCapLen G`, extracted from the source): well-formed iff there is one depot -/
theorem wf_generated_iff (n G : Nat) (cap : Nat → Int) (D : Nat → Nat → Int) (hn : n % 2 = 0) (hG : 1 ≤ G)
    (hc : 1 ≤ cap 0) : WF (genInst n G (genCapLen G) cap D) ↔ G = 1 := by
  rw [genCapLen_eq]
  constructor
  · intro h; have : G = 1 := h.kg; exact this
  · intro h; subst h; exact wf_generated_repaired n 1 cap D hn (by omega) hc

/-- Non-vacuity. -/
example : serial ⟨2, 2, fun _ => 1, fun _ _ => 1, false, 0, 1⟩ = [0, 2, 4, 3, 5] := by decide

end Rl4co.Mdcpdp
