/-
Instances of the generic selection argument (`Rl4co.Sel.View`) for FLP, MCP and DPP/MDPP, and the
model-specific invariants (what `chosen`, `distances`, `membership`, `weights` are in terms of the
history of selections).  No Mathlib.
-/
import Rl4co.Proofs.Select
import Rl4co.Spec.Flp
import Rl4co.Spec.Mcp
import Rl4co.Spec.Dpp

namespace Rl4co

/-! ### `minList`, `sumRange`, `cnt` helpers -/

theorem foldl_min_le_init (xs : List Int) (x : Int) : xs.foldl min x ≤ x := by
  induction xs generalizing x with
  | nil => simp
  | cons y ys ih => simp only [List.foldl_cons]; have := ih (min x y); omega

theorem foldl_min_le_mem (xs : List Int) (x : Int) : ∀ y ∈ xs, xs.foldl min x ≤ y := by
  induction xs generalizing x with
  | nil => intro y hy; cases hy
  | cons z zs ih =>
    intro y hy
    simp only [List.foldl_cons]
    rcases List.mem_cons.mp hy with h | h
    · subst h; have := foldl_min_le_init zs (min x y); omega
    · exact ih (min x z) y h

theorem foldl_min_mem (xs : List Int) (x : Int) : xs.foldl min x = x ∨ xs.foldl min x ∈ xs := by
  induction xs generalizing x with
  | nil => simp
  | cons z zs ih =>
    simp only [List.foldl_cons]
    rcases ih (min x z) with h | h
    · by_cases hxz : x ≤ z
      · left; rw [h]; omega
      · right; rw [h]; have : min x z = z := by omega
        rw [this]; simp
    · right; exact List.mem_cons_of_mem _ h

theorem minList_le {l : List Int} {x : Int} (h : x ∈ l) : minList l ≤ x := by
  cases l with
  | nil => cases h
  | cons y ys =>
    simp only [minList]
    rcases List.mem_cons.mp h with h | h
    · subst h; exact foldl_min_le_init ys x
    · exact foldl_min_le_mem ys y x h

theorem minList_mem {l : List Int} (h : l ≠ []) : minList l ∈ l := by
  cases l with
  | nil => exact absurd rfl h
  | cons y ys =>
    simp only [minList]
    rcases foldl_min_mem ys y with h | h
    · rw [h]; simp
    · exact List.mem_cons_of_mem _ h

/-- the minimum depends only on the set of values -/
theorem minList_congr {l₁ l₂ : List Int} (h1 : l₁ ≠ []) (h : ∀ x, x ∈ l₁ ↔ x ∈ l₂) :
    minList l₁ = minList l₂ := by
  have h2 : l₂ ≠ [] := by
    intro h0; subst h0
    have := (h _).mp (minList_mem h1); cases this
  have a := minList_le ((h _).mpr (minList_mem h2))
  have b := minList_le ((h _).mp (minList_mem h1))
  omega

theorem sumRange_congr {n : Nat} {f g : Nat → Int} (h : ∀ j, j < n → f j = g j) :
    sumRange n f = sumRange n g := by
  unfold sumRange
  congr 1
  apply List.map_congr_left
  intro j hj
  exact h j (List.mem_range.mp hj)

theorem sumRange_neg (n : Nat) (f : Nat → Int) : sumRange n (fun j => - f j) = - sumRange n f := by
  unfold sumRange
  induction n with
  | zero => simp
  | succ n ih => simp [List.range_succ, ih]; omega

theorem cnt_true (n : Nat) : cnt n (fun _ => true) = n := cnt_eq_n.mpr (fun _ _ => rfl)

/-! ### FLP -/
namespace Flp

def view : Sel.View env where
  quota i := i.quota
  allowed _ _ := true
  am s j := !s.chosen j
  ctr s := s.i
  mask_eq _ _ _ := rfl
  reset_am _ _ := rfl
  reset_ctr _ := rfl
  reset_done _ := rfl
  step_am i s a j := by
    simp only [env, step, upd_apply]; split <;> simp
  step_ctr _ _ _ := rfl
  step_done i s a := by
    simp [env, done, step, Params.flpDoneCmp, Params.flpDoneOffset, Cmp.eval]

/-- `chosen` is the set of the selections so far -/
theorem chosen_eq {i : Inst} {s : State} {as : List Nat} (h : Run env i (env.reset i) as s) (j : Nat) :
    s.chosen j = decide (j ∈ as) := by
  have := (Sel.inv_of_run view h).am j
  simp only [view, Bool.true_and] at this
  cases hc : s.chosen j <;> cases hd : decide (j ∈ as) <;> simp_all

/-- after at least one step `distances` is the column-wise minimum over the chosen rows -/
theorem dist_eq_curMin {i : Inst} {s : State} {as : List Nat} (h : Run env i (env.reset i) as s) :
    (as = [] ∧ s.dist = i.d0) ∨ (as ≠ [] ∧ s.dist = curMinDist i s.chosen) := by
  refine Rl4co.inv_of_run (e := env) (i := i)
    (Inv := fun s h => (h = [] ∧ s.dist = i.d0) ∨ (h ≠ [] ∧ s.dist = curMinDist i s.chosen))
    (Or.inl ⟨rfl, rfl⟩) ?_ h
  intro s h a _ _ _
  exact Or.inr ⟨by simp, rfl⟩

/-- the gathered-rows minimum over the chosen indices equals the minimum over the selection list -/
theorem curMin_eq_nearest {i : Inst} {s : State} {as : List Nat} (h : Run env i (env.reset i) as s)
    (hne : as ≠ []) (j : Nat) : curMinDist i s.chosen j = Spec.Flp.nearest i as j := by
  have hok := (Sel.inv_of_run view h).ok
  simp only [curMinDist, minOver, gathered, Params.flpStepGatherDim, Params.flpStepMinDim, if_true,
    Spec.Flp.nearest, chosenIdx]
  have hmem : ∀ c, c ∈ (List.range i.n).filter s.chosen ↔ c ∈ as := by
    intro c
    simp only [List.mem_filter, List.mem_range, chosen_eq h c, decide_eq_true_eq]
    constructor
    · exact fun hh => hh.2
    · exact fun hh => ⟨(hok c hh).1, hh⟩
  apply minList_congr
  · obtain ⟨a, ha⟩ := List.exists_mem_of_ne_nil as hne
    intro h0
    have : i.D a j ∈ List.map (fun c => i.D c j) ((List.range i.n).filter s.chosen) :=
      List.mem_map.mpr ⟨a, (hmem a).mpr ha, rfl⟩
    rw [h0] at this; cases this
  · intro x
    simp only [List.mem_map]
    constructor
    · rintro ⟨c, hc, rfl⟩; exact ⟨c, (hmem c).mp hc, rfl⟩
    · rintro ⟨c, hc, rfl⟩; exact ⟨c, (hmem c).mpr hc, rfl⟩

/-- the same for the expression of `_get_reward` -/
theorem rewardMin_eq_nearest {i : Inst} {s : State} {as : List Nat} (h : Run env i (env.reset i) as s)
    (hne : as ≠ []) (j : Nat) : rewardMinDist i s.chosen j = Spec.Flp.nearest i as j := by
  have hok := (Sel.inv_of_run view h).ok
  simp only [rewardMinDist, minOver, gathered, Params.flpRewardGatherDim, Params.flpRewardMinDim, if_true,
    Spec.Flp.nearest, chosenIdx]
  have hmem : ∀ c, c ∈ (List.range i.n).filter s.chosen ↔ c ∈ as := by
    intro c
    simp only [List.mem_filter, List.mem_range, chosen_eq h c, decide_eq_true_eq]
    constructor
    · exact fun hh => hh.2
    · exact fun hh => ⟨(hok c hh).1, hh⟩
  apply minList_congr
  · obtain ⟨a, ha⟩ := List.exists_mem_of_ne_nil as hne
    intro h0
    have : i.D a j ∈ List.map (fun c => i.D c j) ((List.range i.n).filter s.chosen) :=
      List.mem_map.mpr ⟨a, (hmem a).mpr ha, rfl⟩
    rw [h0] at this; cases this
  · intro x
    simp only [List.mem_map]
    constructor
    · rintro ⟨c, hc, rfl⟩; exact ⟨c, (hmem c).mp hc, rfl⟩
    · rintro ⟨c, hc, rfl⟩; exact ⟨c, (hmem c).mpr hc, rfl⟩

end Flp

/-! ### MCP -/
namespace Mcp

def view : Sel.View env where
  quota i := i.quota
  allowed _ _ := true
  am s j := !s.chosen j
  ctr s := s.i
  mask_eq _ _ _ := rfl
  reset_am _ _ := rfl
  reset_ctr _ := rfl
  reset_done _ := rfl
  step_am i s a j := by
    simp only [env, step, upd_apply]; split <;> simp
  step_ctr _ _ _ := rfl
  step_done i s a := by
    simp [env, done, step, Params.mcpDoneCmp, Params.mcpDoneOffset, Cmp.eval]

theorem chosen_eq {i : Inst} {s : State} {as : List Nat} (h : Run env i (env.reset i) as s) (j : Nat) :
    s.chosen j = decide (j ∈ as) := by
  have := (Sel.inv_of_run view h).am j
  simp only [view, Bool.true_and] at this
  cases hc : s.chosen j <;> cases hd : decide (j ∈ as) <;> simp_all

/-- `coveredBy` over a membership table whose selected rows are `orig` rows of `sel` -/
theorem coveredBy_iff (off nSets maxSize : Nat) (mem : Nat → Nat → Nat) (chosen : Nat → Bool) (x : Nat)
    (hoff : 0 < off) :
    coveredBy off nSets maxSize mem chosen x = true ↔
      ∃ j, j < nSets ∧ chosen j = true ∧ ∃ k, k < maxSize ∧ mem j k = x + off := by
  simp only [coveredBy, List.any_eq_true, List.mem_range, beq_iff_eq]
  constructor
  · rintro ⟨j, hj, k, hk, h⟩
    by_cases hc : chosen j = true
    · simp only [hc, if_true] at h; exact ⟨j, hj, hc, k, hk, h⟩
    · simp [hc] at h; omega
  · rintro ⟨j, hj, hc, k, hk, h⟩
    exact ⟨j, hj, k, hk, by simp [hc, h]⟩

theorem member_iff (i : Inst) (j x : Nat) :
    Spec.Mcp.member i j x = true ↔ ∃ k, k < i.maxSize ∧ i.mem j k = x + 1 := by
  simp [Spec.Mcp.member, List.any_eq_true, List.mem_range]

theorem covered_append (i : Inst) (h : List Nat) (a x : Nat) :
    Spec.Mcp.covered i (h ++ [a]) x = (Spec.Mcp.covered i h x || Spec.Mcp.member i a x) := by
  simp [Spec.Mcp.covered, List.any_append]

/-- invariant: remaining membership and uncovered weights as functions of the history -/
structure Inv2 (i : Inst) (s : State) (h : List Nat) : Prop where
  mem : ∀ j k, s.mem j k = if s.chosen j then 0 else i.mem j k
  wts : ∀ x, s.weights x = Spec.Mcp.uncoveredWeight i h x

theorem inv2_of_run {i : Inst} {s : State} {as : List Nat} (h : Run env i (env.reset i) as s) :
    Inv2 i s as := by
  -- carry the generic invariant along to know `chosen` and that the new action is unchosen
  have key : Sel.Inv view i s as ∧ Inv2 i s as := by
    refine Rl4co.inv_of_run (e := env) (i := i) (Inv := fun s h => Sel.Inv view i s h ∧ Inv2 i s h)
      ⟨Sel.inv_reset view i, ⟨fun _ _ => by simp [env, reset], fun _ => by
        simp [env, reset, Spec.Mcp.uncoveredWeight, Spec.Mcp.covered]⟩⟩ ?_ h
    intro s h a ⟨hg, h2⟩ ha hm
    refine ⟨Sel.inv_step view i s h a hg ha hm, ?_, ?_⟩
    · intro j k
      simp only [env, step, upd_apply, Params.mcpKeepRemainingRows, if_true]
      by_cases hj : j = a
      · simp [hj]
      · simp only [hj, if_false, h2.mem j k]
        cases s.chosen j <;> simp
    · intro x
      have hnot : s.chosen a = false := by
        have : mask i s a = true := hm
        simpa [mask] using this
      have hcov : coveredBy Params.mcpStepItemOffset i.nSets i.maxSize s.mem (upd s.chosen a true) x =
          Spec.Mcp.member i a x := by
        rw [Bool.eq_iff_iff, coveredBy_iff _ _ _ _ _ _ (by decide : 0 < Params.mcpStepItemOffset), member_iff]
        simp only [Params.mcpStepItemOffset]
        constructor
        · rintro ⟨j, _, hc, k, hk, hjk⟩
          rw [h2.mem j k] at hjk
          by_cases hj : j = a
          · subst hj; simp only [hnot] at hjk; exact ⟨k, hk, by simpa using hjk⟩
          · simp only [upd_apply, hj, if_false] at hc
            simp [hc] at hjk
        · rintro ⟨k, hk, hak⟩
          exact ⟨a, ha, by simp, k, hk, by rw [h2.mem a k, hnot]; simpa using hak⟩
      show (step i s a).weights x = _
      simp only [step, hcov, h2.wts x, Spec.Mcp.uncoveredWeight, covered_append]
      cases Spec.Mcp.covered i h x <;> cases Spec.Mcp.member i a x <;> simp
  exact key.2

/-- the reward's coverage test over the original membership = Spec coverage by the selection -/
theorem coveredBy_orig_eq {i : Inst} {s : State} {as : List Nat} (h : Run env i (env.reset i) as s)
    (x : Nat) : coveredBy Params.mcpRewardItemOffset i.nSets i.maxSize i.mem s.chosen x =
      Spec.Mcp.covered i as x := by
  have hok := (Sel.inv_of_run view h).ok
  rw [Bool.eq_iff_iff, coveredBy_iff _ _ _ _ _ _ (by decide : 0 < Params.mcpRewardItemOffset)]
  simp only [Spec.Mcp.covered, List.any_eq_true, member_iff, Params.mcpRewardItemOffset]
  constructor
  · rintro ⟨j, _, hc, hk⟩
    rw [chosen_eq h j] at hc
    exact ⟨j, by simpa using hc, hk⟩
  · rintro ⟨j, hj, hk⟩
    exact ⟨j, (hok j hj).1, by rw [chosen_eq h j]; simpa using hj, hk⟩

end Mcp

/-! ### DPP / MDPP -/
namespace Dpp

/-- mask of the reset state -/
def allowed0 (i : Inst) (j : Nat) : Bool := (reset i).am j

def view : Sel.View env where
  quota i := i.quota
  allowed := allowed0
  am s := s.am
  ctr s := s.i
  mask_eq _ _ _ := rfl
  reset_am _ _ := rfl
  reset_ctr _ := rfl
  reset_done _ := rfl
  step_am _ _ _ _ := by simp [env, step, Params.dppScatterValue]
  step_ctr _ _ _ := rfl
  step_done i s a := by
    simp [env, done, step, Params.dppDoneCmp, Params.dppDoneOffset, Cmp.eval]

/-- the instance contract `DPPEnv` relies on (its reset does not re-mask the probing port; the
bundled generator clears it): an instance mask never offers a probing port.  Not needed for MDPP. -/
def ProbeMasked (i : Inst) : Prop := ∀ j, i.probe j = true → i.avail j = false

theorem allowed0_eq_spec (i : Inst) (h : i.multi = true ∨ ProbeMasked i) (j : Nat) :
    allowed0 i j = Spec.Dpp.allowed i j := by
  simp only [allowed0, reset, Params.mdppResetProbeNegated, if_true, Spec.Dpp.allowed]
  rcases h with h | h
  · simp [h]
  · by_cases hm : i.multi = true
    · simp [hm]
    · simp only [hm, Bool.false_eq_true, if_false]
      cases hp : i.probe j
      · simp
      · simp [h j hp]

end Dpp
end Rl4co
