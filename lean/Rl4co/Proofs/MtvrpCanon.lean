/-
Canonical form of an MTVRP solution: the non-empty routes in order, each closed by one depot visit.  It has the same
routes (up to empty ones), hence the same feasibility verdict and the same objective, and it is `Canonical`, i.e.
inside the image of the mask (C05).  Used for the "optimum is reachable" corollary.  No Mathlib.
-/
import Rl4co.Proofs.MtvrpComplete
import Rl4co.Proofs.MtvrpReward

namespace Rl4co.Mtvrp
open Rl4co.Spec.Mtvrp

/-- routes written one after the other, each closed by a depot visit -/
def join : List (List Nat) → List Nat
  | [] => []
  | r :: rs => r ++ 0 :: join rs

/-- the canonical form of a solution: its non-empty routes in order, each followed by one depot visit -/
def canonize (as : List Nat) : List Nat := join ((routes as).filter (fun r => !r.isEmpty))

theorem routes_append_zero : ∀ (r xs : List Nat), 0 ∉ r → routes (r ++ 0 :: xs) = r :: routes xs
  | [], xs, _ => by simp [routes]
  | a :: r, xs, h => by
    have ha : a ≠ 0 := fun e => h (by simp [e])
    have := routes_append_zero r xs (fun e => h (by simp [e]))
    simp only [List.cons_append, routes, ha, if_false, this]

theorem routes_join : ∀ (rs : List (List Nat)), (∀ r ∈ rs, 0 ∉ r) → routes (join rs) = rs ++ [[]]
  | [], _ => by simp [join, routes]
  | r :: rs, h => by
    rw [join, routes_append_zero r _ (h r (by simp)), routes_join rs (fun r' hr' => h r' (by simp [hr']))]
    rfl

theorem count_routes (j : Nat) (hj : j ≠ 0) : ∀ as : List Nat, as.count j = ((routes as).map (List.count j)).sum
  | [] => by simp [routes]
  | a :: as => by
    obtain ⟨r1, rs1, h1⟩ := routes_cons_exists as
    have ih := count_routes j hj as
    rw [h1] at ih
    by_cases h0 : a = 0
    · subst h0
      have : (0 == j) = false := by simp; exact fun e => hj e.symm
      simp only [routes, if_true, h1, List.count_cons, this, List.map_cons, List.sum_cons, List.count_nil]
      simp only [List.map_cons, List.sum_cons] at ih
      simp [ih]
    · simp only [routes, h0, if_false, h1, List.map_cons, List.sum_cons, List.count_cons]
      simp only [List.map_cons, List.sum_cons] at ih
      omega

theorem count_join (j : Nat) (hj : j ≠ 0) : ∀ rs : List (List Nat), (join rs).count j = (rs.map (List.count j)).sum
  | [] => by simp [join]
  | r :: rs => by
    have : (0 == j) = false := by simp; exact fun e => hj e.symm
    simp [join, List.count_append, List.count_cons, this, count_join j hj rs]

theorem sum_filter_nonempty (f : List Nat → Nat) (h0 : f [] = 0) : ∀ rs : List (List Nat),
    ((rs.filter (fun r => !r.isEmpty)).map f).sum = (rs.map f).sum
  | [] => rfl
  | r :: rs => by
    cases r with
    | nil => simp [h0, sum_filter_nonempty f h0 rs]
    | cons a r => simp [sum_filter_nonempty f h0 rs]

theorem sum_filter_nonempty_int (f : List Nat → Int) (h0 : f [] = 0) : ∀ rs : List (List Nat),
    ((rs.filter (fun r => !r.isEmpty)).map f).sum = (rs.map f).sum
  | [] => rfl
  | r :: rs => by
    cases r with
    | nil => simp [h0, sum_filter_nonempty_int f h0 rs]
    | cons a r => simp [sum_filter_nonempty_int f h0 rs]

theorem mem_join : ∀ (rs : List (List Nat)) (a : Nat), a ∈ join rs → a = 0 ∨ ∃ r ∈ rs, a ∈ r
  | [], a, h => by simp [join] at h
  | r :: rs, a, h => by
    simp only [join, List.mem_append, List.mem_cons] at h
    rcases h with h | h | h
    · exact Or.inr ⟨r, by simp, h⟩
    · exact Or.inl h
    · rcases mem_join rs a h with h | ⟨r', hr', ha⟩
      · exact Or.inl h
      · exact Or.inr ⟨r', by simp [hr'], ha⟩

theorem canon_append_zero : ∀ (r rest : List Nat) (cur : Nat), r ≠ [] → 0 ∉ r →
    canon cur (r ++ 0 :: rest) = canon 0 rest
  | [], _, _, h, _ => absurd rfl h
  | [a], rest, cur, _, h => by
    have ha : a ≠ 0 := fun e => h (by simp [e])
    have hb : (a != 0) = true := by simp [ha]
    simp [canon, hb]
  | a :: b :: r, rest, cur, _, h => by
    have ha : a ≠ 0 := fun e => h (by simp [e])
    have := canon_append_zero (b :: r) rest a (by simp) (fun e => h (by simp [e]))
    simp only [List.cons_append] at this ⊢
    have hb : (a != 0) = true := by simp [ha]
    simp only [canon] at this ⊢
    rw [hb] at this
    simp only [Bool.or_true, Bool.true_and] at this
    simp [hb, this]

theorem canon_join : ∀ (rs : List (List Nat)), (∀ r ∈ rs, r ≠ [] ∧ 0 ∉ r) → canon 0 (join rs) = true
  | [], _ => by simp [join, canon]
  | r :: rs, h => by
    rw [join, canon_append_zero r _ 0 (h r (by simp)).1 (h r (by simp)).2]
    exact canon_join rs (fun r' hr' => h r' (by simp [hr']))

theorem exists_route_of_mem : ∀ (as : List Nat) (j : Nat), j ≠ 0 → j ∈ as → ∃ r ∈ routes as, j ∈ r
  | [], _, _, h => by simp at h
  | a :: as, j, hj, h => by
    obtain ⟨r1, rs1, h1⟩ := routes_cons_exists as
    by_cases h0 : a = 0
    · subst h0
      rcases List.mem_cons.mp h with e | e
      · exact absurd e hj
      · obtain ⟨r, hr, hjr⟩ := exists_route_of_mem as j hj e
        exact ⟨r, by simp [routes, hr], hjr⟩
    · simp only [routes, h0, if_false, h1]
      rcases List.mem_cons.mp h with e | e
      · exact ⟨a :: r1, by simp, by simp [e]⟩
      · obtain ⟨r, hr, hjr⟩ := exists_route_of_mem as j hj e
        rw [h1] at hr
        rcases List.mem_cons.mp hr with e' | e'
        · subst e'; exact ⟨a :: r, by simp, by simp [hjr]⟩
        · exact ⟨r, by simp [e'], hjr⟩

theorem nonempty_routes_props (as : List Nat) :
    ∀ r ∈ (routes as).filter (fun r => !r.isEmpty), r ≠ [] ∧ 0 ∉ r ∧ r ∈ routes as := by
  intro r hr
  obtain ⟨h1, h2⟩ := List.mem_filter.mp hr
  refine ⟨?_, zero_not_mem_routes as r h1, h1⟩
  intro e; subst e; simp at h2

theorem routes_canonize (as : List Nat) :
    routes (canonize as) = (routes as).filter (fun r => !r.isEmpty) ++ [[]] :=
  routes_join _ (fun r hr => (nonempty_routes_props as r hr).2.1)

theorem objective_canonize (i : Inst) (as : List Nat) : objective i (canonize as) = objective i as := by
  simp only [objective, routes_canonize, List.map_append, List.sum_append, List.map_cons, List.map_nil,
    List.sum_cons, List.sum_nil]
  rw [sum_filter_nonempty_int (routeCost i) (by simp [routeCost])]
  simp [routeCost]

theorem feasible_canonize {i : Inst} {as : List Nat} (hf : Feasible i as) : Feasible i (canonize as) := by
  refine ⟨?_, ?_, ?_⟩
  · intro a ha
    rcases mem_join _ a ha with h | ⟨r, hr, har⟩
    · omega
    · exact hf.range a (mem_of_mem_routes as r (nonempty_routes_props as r hr).2.2 a har)
  · intro j h1 h2
    have hj : j ≠ 0 := by omega
    rw [canonize, count_join j hj, sum_filter_nonempty (List.count j) (by simp), ← count_routes j hj]
    exact hf.once j h1 h2
  · intro r hr hne
    rw [routes_canonize] at hr
    rcases List.mem_append.mp hr with h | h
    · exact hf.route r (nonempty_routes_props as r h).2.2 hne
    · simp at h; exact absurd h hne

theorem canonical_canonize {i : Inst} {as : List Nat} (hn : 0 < i.n) (hf : Feasible i as) :
    Canonical (canonize as) := by
  refine ⟨canon_join _ (fun r hr => ⟨(nonempty_routes_props as r hr).1, (nonempty_routes_props as r hr).2.1⟩), ?_⟩
  have h1 : 1 ∈ as := List.count_pos_iff.mp (by have := hf.once 1 (by omega) (by omega); omega)
  obtain ⟨r, hr, h1r⟩ := exists_route_of_mem as 1 (by omega) h1
  have hmem : r ∈ (routes as).filter (fun r => !r.isEmpty) := by
    apply List.mem_filter.mpr
    refine ⟨hr, ?_⟩
    cases r with
    | nil => simp at h1r
    | cons a r => simp
  unfold canonize
  cases hfl : (routes as).filter (fun r => !r.isEmpty) with
  | nil => rw [hfl] at hmem; simp at hmem
  | cons r' rs' => simp [join]

end Rl4co.Mtvrp
