/-
Helper lemmas and the state invariant of the MDCPDP model (`Rl4co.Mdcpdp`), for the row stepped on its
own (`step`) on well-formed, hand-supplied instances (one capacity entry per depot).
-/
import Rl4co.Env.Mdcpdp

namespace Rl4co.Mdcpdp

/-- well-formed instance: the consistent configuration (`capacity` has one entry per depot, as many
depots as the generator parameters say, start_mode "order"), at least one depot, an even number of customers, and a
vehicle of depot 0 that can carry at least one order -/
structure WF (i : Inst) : Prop where
  kpos  : 1 ≤ i.K
  even  : i.N = i.K + 2 * i.h
  split : i.split0 = i.h + i.K
  kg    : i.KG = i.K
  cap0  : 1 ≤ i.cap 0
  start0 : i.start = 0

/-- the operators the theorems need (obligations on the extracted parameters) -/
@[simp] theorem capFlagOf_eq (i : Inst) (c : Int) (d : Nat) : capFlagOf i c d = decide (c ≥ i.cap d) := by
  simp [capFlagOf, Params.mdcpdpCapCmp, Cmp.eval]
@[simp] theorem carryFlagOf_eq (c : Int) : carryFlagOf c = decide (c > 0) := by
  simp [carryFlagOf, Params.mdcpdpCarryCmp, Cmp.eval]

theorem anyIn_eq_true {n : Nat} {f : Nat → Bool} : anyIn n f = true ↔ ∃ j, j < n ∧ f j = true := by
  simp [anyIn, List.any_eq_true, List.mem_range]

theorem anyIn_eq_false {n : Nat} {f : Nat → Bool} : anyIn n f = false ↔ ∀ j, j < n → f j = false := by
  constructor
  · intro h j hj
    cases hf : f j with
    | false => rfl
    | true => have := anyIn_eq_true.mpr ⟨j, hj, hf⟩; rw [h] at this; cases this
  · intro h
    cases hc : anyIn n f with
    | false => rfl
    | true =>
      obtain ⟨j, hj, hf⟩ := anyIn_eq_true.mp hc
      rw [h j hj] at hf; cases hf

/-- the operators / index expressions the theorems need (obligations on the extracted parameters) -/
theorem backFlag_eq (i : Inst) (s : State) (a : Nat) :
    backFlag i s a = (decide (a < i.K) && !(s.avail a)) := by
  cases h : s.avail a <;> simp [backFlag, Params.mdcpdpBackDepotCmp, Params.mdcpdpBackAvailCmp, Cmp.evalNat, h]
theorem cnt_zero_eq_not_any (n : Nat) (av : Nat → Bool) : decide (cnt n av = 0) = !(anyIn n av) := by
  cases h : anyIn n av with
  | true =>
    obtain ⟨j, hj, hjav⟩ := anyIn_eq_true.mp h
    have : 0 < cnt n av := cnt_pos.mpr ⟨j, hj, hjav⟩
    simp; omega
  | false => simp [cnt_eq_zero.mpr (anyIn_eq_false.mp h)]
@[simp] theorem lastDepotOf_eq (i : Inst) (av : Nat → Bool) : lastDepotOf i av = !(anyIn i.K av) := by
  simp only [lastDepotOf, Params.mdcpdpLastDepotCmp, Cmp.evalNat]; exact cnt_zero_eq_not_any _ _
@[simp] theorem doneOf_eq (i : Inst) (av : Nat → Bool) : doneOf i av = !(anyIn i.N av) := by
  simp only [doneOf, Params.mdcpdpDoneCmp, Cmp.evalNat]; exact cnt_zero_eq_not_any _ _
@[simp] theorem pairOff_eq (i : Inst) : i.pairOff = i.h := by
  simp [Inst.pairOff, Inst.h, Params.mdcpdpPairDiv, Params.mdcpdpPdDiv]
/-- `h` is half the number of customers (obligation on `Params.mdcpdpPdDiv`) -/
theorem h_eq (i : Inst) : i.h = (i.N - i.K) / 2 := by simp [Inst.h, Params.mdcpdpPdDiv]
@[simp] theorem pickTest_eq (i : Inst) (a : Nat) : pickTest i a = decide (i.K ≤ a ∧ a < i.pd) := by
  simp [pickTest, Params.mdcpdpPickLtCmp, Params.mdcpdpPickGeCmp, Cmp.evalNat, Bool.and_comm]
@[simp] theorem delivTest_eq (i : Inst) (a : Nat) : delivTest i a = decide (i.pd ≤ a) := by
  simp [delivTest, Params.mdcpdpDelivGeCmp, Cmp.evalNat]
@[simp] theorem depotLeg_eq (i : Inst) (cur a : Nat) : depotLeg i cur a = decide (a < i.K ∧ cur < i.K) := by
  simp [depotLeg, Params.mdcpdpLegToCmp, Params.mdcpdpLegFromCmp, Cmp.evalNat]
@[simp] theorem openZero_eq (i : Inst) (cur a : Nat) :
    openZero i cur a = (i.openMode && decide (a < i.K) && decide (i.K ≤ cur)) := by
  simp [openZero, Params.mdcpdpOpenToCmp, Params.mdcpdpOpenFromCmp, Cmp.evalNat]
/-- the bundled generator does not emit one capacity per depot (obligation on `Params.mdcpdpGenCapPerDepot`) -/
theorem genCapLen_eq (numDepot : Nat) : genCapLen numDepot = 1 := by simp [genCapLen, Params.mdcpdpGenCapPerDepot]

/-- the source updates `current_depot` only on a return (obligation on `Params.mdcpdpDepotOnVisit`) -/
@[simp] theorem depotSel_asCoded (i : Inst) (back : Bool) (a : Nat) :
    depotSel Params.mdcpdpDepotOnVisit i back a = back := by
  simp [depotSel, Params.mdcpdpDepotOnVisit]

theorem mod_cases (x n : Nat) (hx : x < 2 * n) : x % n = if x < n then x else x - n := by
  split
  · exact Nat.mod_eq_of_lt (by assumption)
  · rw [Nat.mod_eq_sub_mod (by omega)]
    exact Nat.mod_eq_of_lt (by omega)

/-! ### projections of the solo step -/

@[simp] theorem step_cur (i : Inst) (s : State) (a : Nat) : (step i s a).cur = a := rfl
@[simp] theorem step_avail (i : Inst) (s : State) (a : Nat) :
    (step i s a).avail = upd s.avail a false := rfl
@[simp] theorem step_td (i : Inst) (s : State) (a : Nat) :
    (step i s a).toDeliver = upd s.toDeliver ((a + i.h) % i.N) true := by
  simp [step, stepF]
@[simp] theorem step_carry (i : Inst) (s : State) (a : Nat) :
    (step i s a).carry =
      s.carry + (if i.K ≤ a ∧ a < i.pd then 1 else 0) - (if i.pd ≤ a then 1 else 0) := by
  simp [step, stepF]
@[simp] theorem step_depot (i : Inst) (s : State) (a : Nat) :
    (step i s a).depot = if backFlag i s a then a else s.depot := by
  simp [step, stepF]
@[simp] theorem step_done (i : Inst) (s : State) (a : Nat) :
    (step i s a).done = !(anyIn i.N (upd s.avail a false)) := by
  simp [step, stepF]
theorem step_mask (i : Inst) (s : State) (a : Nat) :
    (step i s a).mask = maskOf i (backFlag i s a) (step i s a).avail (step i s a).toDeliver
      (step i s a).carry (step i s a).depot (step i s a).done := rfl

/-- orders on board: picked up, not yet delivered -/
def onb (i : Inst) (av : Nat → Bool) : Nat :=
  cnt i.h (fun k => !av (i.K + k) && av (i.K + i.h + k))

/-- the invariant of reachable states (solo step, well-formed instance) -/
structure Inv (i : Inst) (s : State) : Prop where
  dep0     : s.depot = 0
  tdLow    : ∀ j, j < i.K + i.h → s.toDeliver j = true
  tdDel    : ∀ p, i.K ≤ p → p < i.K + i.h → s.toDeliver (p + i.h) = !s.avail p
  delAfter : ∀ p, i.K ≤ p → p < i.K + i.h → s.avail p = true → s.avail (p + i.h) = true
  carryEq  : s.carry = (onb i s.avail : Int)
  carryCap : s.carry ≤ i.cap 0
  doneEq   : s.done = !(anyIn i.N s.avail)
  phase    : (s.mask = (fun j => decide (j = 0)) ∧ (∀ j, s.avail j = true)) ∨
             (∃ b, s.mask = maskOf i b s.avail s.toDeliver s.carry 0 s.done ∧ s.avail 0 = false ∧
                (b = true → s.carry = 0 ∧ (s.done = false → anyIn i.K s.avail = true)))

theorem onb_all_true (i : Inst) (av : Nat → Bool) (h : ∀ j, av j = true) : onb i av = 0 := by
  unfold onb
  apply cnt_eq_zero.mpr
  intro j _
  simp [h]

theorem inv_reset (i : Inst) (hwf : WF i) : Inv i (reset i) := by
  refine ⟨hwf.start0, ?_, ?_, ?_, ?_, ?_, ?_, Or.inl ⟨rfl, fun _ => rfl⟩⟩
  · intro j hj; simp [reset, hwf.split]; omega
  · intro p h1 h2
    have := hwf.even
    simp [reset, hwf.split]; omega
  · intro _ _ _ _; rfl
  · simp [reset, onb_all_true]
  · have := hwf.cap0; simp [reset]; omega
  · have : anyIn i.N (reset i).avail = true :=
      anyIn_eq_true.mpr ⟨0, by have := hwf.kpos; have := hwf.even; omega, rfl⟩
    show (reset i).done = !(anyIn i.N (reset i).avail)
    rw [this]; rfl

/-! ### what an admitted action looks like -/

/-- customers in the mask are available and deliverable; a pickup moreover fits -/
theorem mask_customer {i : Inst} {s : State} (hwf : WF i) (hi : Inv i s) {a : Nat} (hK : i.K ≤ a)
    (hm : s.mask a = true) :
    s.avail a = true ∧ s.toDeliver a = true ∧ (a < i.pd → s.carry < i.cap 0) := by
  rcases hi.phase with ⟨hmk, _⟩ | ⟨b, hmk, _, _⟩
  · rw [hmk] at hm
    have := hwf.kpos
    simp at hm; omega
  · rw [hmk] at hm
    have hnk : ¬ a < i.K := by omega
    simp only [maskOf, capFlagOf_eq, carryFlagOf_eq, lastDepotOf_eq, hnk, if_false, Bool.and_eq_true, Bool.not_eq_true'] at hm
    by_cases hpd : a < i.pd
    · simp only [hpd, if_true, Bool.and_eq_true, Bool.not_eq_true', decide_eq_false_iff_not] at hm
      exact ⟨hm.1.1.1, hm.1.1.2, fun _ => by omega⟩
    · simp only [hpd, if_false, Bool.and_eq_true] at hm
      exact ⟨hm.1.1, hm.1.2, fun h => absurd h hpd⟩

/-- a depot other than node 0 in the mask is an unvisited one -/
theorem mask_depot_ne {i : Inst} {s : State} (_hwf : WF i) (hi : Inv i s) {a : Nat} (hK : a < i.K)
    (h0 : a ≠ 0) (hm : s.mask a = true) : s.avail a = true := by
  rcases hi.phase with ⟨_, hav⟩ | ⟨b, hmk, _, _⟩
  · exact hav a
  · rw [hmk] at hm
    simp only [maskOf, capFlagOf_eq, carryFlagOf_eq, lastDepotOf_eq, hK, if_true, h0, if_false, Bool.and_eq_true] at hm
    exact hm.1.1.1.1

/-- any depot in the mask is entered with an empty vehicle -/
theorem mask_depot_carry {i : Inst} {s : State} (hwf : WF i) (hi : Inv i s) {a : Nat} (hK : a < i.K)
    (hm : s.mask a = true) : s.carry = 0 := by
  have hge : 0 ≤ s.carry := by rw [hi.carryEq]; omega
  rcases hi.phase with ⟨_, hav⟩ | ⟨b, hmk, _, _⟩
  · rw [hi.carryEq, onb_all_true i _ hav]; rfl
  · rw [hmk] at hm
    by_cases h0 : a = 0
    · subst h0
      simp only [maskOf, capFlagOf_eq, carryFlagOf_eq, lastDepotOf_eq, hK, if_true, Bool.or_eq_true, Bool.and_eq_true, Bool.not_eq_true',
        decide_eq_false_iff_not] at hm
      rcases hm with hm | hd
      · omega
      · -- finished: nothing is available, so nothing is on board
        have hno : anyIn i.N s.avail = false := by
          have := hi.doneEq; rw [hd] at this; simpa using this.symm
        have hall := anyIn_eq_false.mp hno
        have : onb i s.avail = 0 := by
          unfold onb
          apply cnt_eq_zero.mpr
          intro j hj
          have := hall (i.K + i.h + j) (by have := hwf.even; omega)
          simp [this]
        rw [hi.carryEq, this]; rfl
    · simp only [maskOf, capFlagOf_eq, carryFlagOf_eq, lastDepotOf_eq, hK, if_true, h0, if_false, Bool.and_eq_true, Bool.not_eq_true',
        decide_eq_false_iff_not] at hm
      omega

/-- a return (`back_flag`) can only be a return to node 0 -/
theorem back_is_zero {i : Inst} {s : State} (hwf : WF i) (hi : Inv i s) {a : Nat}
    (hm : s.mask a = true) (hb : backFlag i s a = true) : a = 0 := by
  simp only [backFlag_eq, Bool.and_eq_true, decide_eq_true_eq, Bool.not_eq_true'] at hb
  by_cases h0 : a = 0
  · exact h0
  · have := mask_depot_ne hwf hi hb.1 h0 hm
    rw [hb.2] at this; cases this

/-! ### preservation -/

theorem td_step_pickup {i : Inst} (hwf : WF i) {a p : Nat} (ha : a < i.N) (_h1 : i.K ≤ p)
    (h2 : p < i.K + i.h) : (p + i.h = (a + i.h) % i.N) ↔ p = a := by
  have hev := hwf.even
  have hk := hwf.kpos
  rw [mod_cases (a + i.h) i.N (by omega)]
  split <;> omega

theorem td_step_low {i : Inst} {a j : Nat} (s : State) (h : s.toDeliver j = true) : upd s.toDeliver ((a + i.h) % i.N) true j = true := by
  simp only [upd_apply]; split <;> simp [h]

/-- effect of a step on the number of orders on board -/
theorem onb_step {i : Inst} {s : State} (hwf : WF i) (hi : Inv i s) {a : Nat} (ha : a < i.N)
    (hm : s.mask a = true) :
    (onb i (upd s.avail a false) : Int) =
      onb i s.avail + (if i.K ≤ a ∧ a < i.pd then 1 else 0) - (if i.pd ≤ a then 1 else 0) := by
  have hev := hwf.even
  have hpd : i.pd = i.h + i.K := rfl
  by_cases hK : a < i.K
  · -- a depot: no customer entry changes
    have : onb i (upd s.avail a false) = onb i s.avail := by
      unfold onb; apply cnt_congr; intro j hj
      rw [upd_other _ _ _ _ (by omega), upd_other _ _ _ _ (by omega)]
    rw [this]
    have h1 : ¬ (i.K ≤ a ∧ a < i.pd) := by omega
    have h2 : ¬ (i.pd ≤ a) := by omega
    simp [h1, h2]
  · obtain ⟨hav, htd, _⟩ := mask_customer hwf hi (by omega) hm
    by_cases hp : a < i.pd
    · -- a pickup: its entry turns on
      have hdel := hi.delAfter a (by omega) (by omega) hav
      have : onb i (upd s.avail a false) = onb i s.avail + 1 := by
        unfold onb
        have hfun : cnt i.h (fun k => !(upd s.avail a false) (i.K + k) && (upd s.avail a false) (i.K + i.h + k)) =
            cnt i.h (upd (fun k => !s.avail (i.K + k) && s.avail (i.K + i.h + k)) (a - i.K) true) := by
          apply cnt_congr
          intro k hkh
          simp only [upd_apply]
          by_cases hk : k = a - i.K
          · have e1 : i.K + k = a := by omega
            have e2 : i.K + i.h + k ≠ a := by omega
            have e3 : i.K + i.h + k = a + i.h := by omega
            rw [if_pos e1, if_neg e2, if_pos hk, e3, hdel]; rfl
          · have e1 : i.K + k ≠ a := by omega
            have e2 : i.K + i.h + k ≠ a := by omega
            rw [if_neg e1, if_neg e2, if_neg hk]
        rw [hfun]
        apply cnt_upd_true (by omega)
        have e1 : i.K + (a - i.K) = a := by omega
        simp [e1, hav]
      rw [this]
      have h1 : i.K ≤ a ∧ a < i.pd := by omega
      have h2 : ¬ (i.pd ≤ a) := by omega
      simp [h1, h2]
    · -- a delivery: the entry of its order turns off
      have hpk : s.avail (a - i.h) = false := by
        have := hi.tdDel (a - i.h) (by omega) (by omega)
        have e : a - i.h + i.h = a := by omega
        rw [e, htd] at this
        simpa using this.symm
      have : onb i (upd s.avail a false) + 1 = onb i s.avail := by
        unfold onb
        have hfun : cnt i.h (fun k => !(upd s.avail a false) (i.K + k) && (upd s.avail a false) (i.K + i.h + k)) =
            cnt i.h (upd (fun k => !s.avail (i.K + k) && s.avail (i.K + i.h + k)) (a - i.h - i.K) false) := by
          apply cnt_congr
          intro k hkh
          simp only [upd_apply]
          by_cases hk : k = a - i.h - i.K
          · have e1 : i.K + k ≠ a := by omega
            have e2 : i.K + i.h + k = a := by omega
            rw [if_neg e1, if_pos e2, if_pos hk]; simp
          · have e1 : i.K + k ≠ a := by omega
            have e2 : i.K + i.h + k ≠ a := by omega
            rw [if_neg e1, if_neg e2, if_neg hk]
        rw [hfun]
        apply cnt_upd_false (by omega)
        have e1 : i.K + (a - i.h - i.K) = a - i.h := by omega
        have e2 : i.K + i.h + (a - i.h - i.K) = a := by omega
        simp [e1, e2, hpk, hav]
      have h1 : ¬ (i.K ≤ a ∧ a < i.pd) := by omega
      have h2 : i.pd ≤ a := by omega
      simp only [h1, h2, if_true, if_false]
      omega

/-- a finished state has nothing available -/
theorem avail_of_done {i : Inst} {s : State} (hi : Inv i s) (hd : s.done = true) :
    ∀ j, j < i.N → s.avail j = false := by
  have hno : anyIn i.N s.avail = false := by
    have := hi.doneEq; rw [hd] at this; simpa using this.symm
  exact anyIn_eq_false.mp hno

theorem inv_step {i : Inst} {s : State} (hwf : WF i) (hi : Inv i s) {a : Nat} (ha : a < i.N)
    (hm : s.mask a = true) : Inv i (step i s a) := by
  have hev := hwf.even
  have hk := hwf.kpos
  have hpd : i.pd = i.h + i.K := rfl
  have hdep : (step i s a).depot = 0 := by
    rw [step_depot]
    split
    · exact back_is_zero hwf hi hm (by assumption)
    · exact hi.dep0
  -- node 0 is unavailable afterwards
  have hav0 : (step i s a).avail 0 = false := by
    rw [step_avail, upd_apply]
    split
    · rfl
    · rcases hi.phase with ⟨hmk, _⟩ | ⟨_, _, h0, _⟩
      · rw [hmk] at hm; simp at hm; omega
      · exact h0
  refine ⟨hdep, ?_, ?_, ?_, ?_, ?_, by simp, Or.inr ⟨backFlag i s a, ?_, hav0, ?_⟩⟩
  · intro j hj
    rw [step_td]
    exact td_step_low s (hi.tdLow j hj)
  · intro p h1 h2
    rw [step_td, step_avail, upd_apply, upd_apply]
    by_cases hpa : p = a
    · subst hpa
      rw [if_pos ((td_step_pickup hwf ha h1 h2).mpr rfl)]; simp
    · have : ¬ (p + i.h = (a + i.h) % i.N) := fun h => hpa ((td_step_pickup hwf ha h1 h2).mp h)
      rw [if_neg this, if_neg hpa]
      exact hi.tdDel p h1 h2
  · intro p h1 h2 hav
    rw [step_avail, upd_apply] at hav ⊢
    by_cases hpa : p = a
    · subst hpa; simp at hav
    · rw [if_neg hpa] at hav
      have hdel := hi.delAfter p h1 h2 hav
      by_cases hda : p + i.h = a
      · -- the delivery of an unvisited pickup is not deliverable, hence not in the mask
        exfalso
        obtain ⟨_, htd, _⟩ := mask_customer hwf hi (by omega : i.K ≤ a) hm
        have := hi.tdDel p h1 h2
        rw [hda, htd, hav] at this
        cases this
      · rw [if_neg hda]; exact hdel
  · rw [step_carry, step_avail, onb_step hwf hi ha hm, hi.carryEq]
  · rw [step_carry]
    have hc := hi.carryCap
    by_cases hp : i.K ≤ a ∧ a < i.pd
    · have := (mask_customer hwf hi hp.1 hm).2.2 hp.2
      have h2 : ¬ (i.pd ≤ a) := by omega
      simp only [hp, and_self, if_true, h2, if_false]; omega
    · simp only [hp, if_false]; split <;> omega
  · rw [step_mask, hdep]
  · intro hb
    have h0 := back_is_zero hwf hi hm hb
    subst h0
    have hc := mask_depot_carry hwf hi (by omega : 0 < i.K) hm
    have hK : ¬ (i.K ≤ 0 ∧ 0 < i.pd) := by omega
    have hP : ¬ (i.pd ≤ 0) := by omega
    refine ⟨by rw [step_carry]; simp only [hK, hP, if_false]; omega, ?_⟩
    intro hnd
    -- the return was offered in an unfinished state: some depot is still unvisited
    simp only [backFlag_eq, Bool.and_eq_true, decide_eq_true_eq, Bool.not_eq_true'] at hb
    have hsame : upd s.avail 0 false = s.avail := by
      funext j; simp only [upd_apply]; split
      · subst_vars; exact hb.2.symm
      · rfl
    rw [step_done, hsame] at hnd
    rw [step_avail, hsame]
    rcases hi.phase with ⟨_, hav⟩ | ⟨b, hmk, _, _⟩
    · rw [hav 0] at hb; cases hb.2
    · rw [hmk] at hm
      have hsd : s.done = false := by rw [hi.doneEq]; exact hnd
      simp only [maskOf, capFlagOf_eq, carryFlagOf_eq, lastDepotOf_eq, (by omega : 0 < i.K), if_true, hsd, Bool.or_false, Bool.and_eq_true,
        Bool.not_eq_true', Bool.not_eq_false'] at hm
      simpa using hm.1.2

theorem inv_of_reach {i : Inst} (hwf : WF i) {s : State} (h : Reach env i s) : Inv i s :=
  Rl4co.inv_of_reach (e := env) (Inv := Inv i) (inv_reset i hwf)
    (fun _ _ hi ha hmask => inv_step hwf hi ha hmask) h

end Rl4co.Mdcpdp
