/-
Route normalisation for depot-based routing (helper for the `opt_reachable` theorems): `normalize as`
re-assembles an action list from its NON-EMPTY routes, each closed by a depot visit.  It removes exactly
the moves the masks prune (leading depot visits, staying at the depot, never returning): the routes, the
visit counts of customers and the total route length are unchanged.  Core only, no Mathlib.
-/
import Rl4co.Core.Tour

namespace Rl4co

/-- `r₁ ++ [0] ++ r₂ ++ [0] ++ …` -/
def rebuild : List (List Nat) → List Nat
  | [] => []
  | r :: rs => r ++ 0 :: rebuild rs

def normalize (as : List Nat) : List Nat := rebuild ((routes as).filter (fun r => !r.isEmpty))

theorem routes_zero_free (as : List Nat) : ∀ r ∈ routes as, 0 ∉ r := by
  induction as with
  | nil => intro r hr; simp [routes] at hr; subst hr; simp
  | cons a as ih =>
    obtain ⟨r1, rs1, h1⟩ := routes_cons_exists as
    intro r hr
    by_cases h0 : a = 0
    · subst h0
      simp only [routes, if_true] at hr
      rcases List.mem_cons.mp hr with h | h
      · subst h; simp
      · exact ih r h
    · simp only [routes, h0, if_false, h1] at hr
      rcases List.mem_cons.mp hr with h | h
      · subst h
        have := ih r1 (by simp [h1])
        intro hm
        rcases List.mem_cons.mp hm with h' | h'
        · exact h0 h'.symm
        · exact this h'
      · exact ih r (by simp [h1, h])

theorem routes_append_zero_free (r : List Nat) (h : 0 ∉ r) (rest : List Nat) :
    routes (r ++ 0 :: rest) = r :: routes rest := by
  induction r with
  | nil => simp [routes]
  | cons a r ih =>
    have ha : a ≠ 0 := fun e => h (by simp [e])
    have hr : 0 ∉ r := fun e => h (by simp [e])
    simp [routes, ha, ih hr]

theorem routes_rebuild (rs : List (List Nat)) (h : ∀ r ∈ rs, 0 ∉ r) : routes (rebuild rs) = rs ++ [[]] := by
  induction rs with
  | nil => simp [rebuild, routes]
  | cons r rs ih =>
    simp only [rebuild]
    rw [routes_append_zero_free r (h r (by simp)), ih (fun r' hr' => h r' (by simp [hr']))]
    simp

theorem routes_normalize (as : List Nat) :
    routes (normalize as) = (routes as).filter (fun r => !r.isEmpty) ++ [[]] :=
  routes_rebuild _ (fun r hr => routes_zero_free as r (List.mem_filter.mp hr).1)

/-- customers are counted route by route -/
theorem count_eq_sum_routes (as : List Nat) (j : Nat) (hj : j ≠ 0) :
    as.count j = ((routes as).map (List.count j)).sum := by
  induction as with
  | nil => simp [routes]
  | cons a as ih =>
    obtain ⟨r1, rs1, h1⟩ := routes_cons_exists as
    by_cases h0 : a = 0
    · subst h0
      have : (0 == j) = false := by simpa using fun e => hj e.symm
      simp [routes, List.count_cons, this, ih]
    · simp only [routes, h0, if_false, h1, List.map_cons, List.sum_cons, List.count_cons]
      rw [ih, h1]
      simp only [List.map_cons, List.sum_cons]
      omega

theorem sum_map_filter_nonempty (f : List Nat → Nat) (hf : f [] = 0) (rs : List (List Nat)) :
    ((rs.filter (fun r => !r.isEmpty)).map f).sum = (rs.map f).sum := by
  induction rs with
  | nil => rfl
  | cons r rs ih =>
    cases r with
    | nil => simp [hf, ih]
    | cons a r => simp [ih]

theorem sum_map_filter_nonempty_int (f : List Nat → Int) (hf : f [] = 0) (rs : List (List Nat)) :
    ((rs.filter (fun r => !r.isEmpty)).map f).sum = (rs.map f).sum := by
  induction rs with
  | nil => rfl
  | cons r rs ih =>
    cases r with
    | nil => simp [hf, ih]
    | cons a r => simp [ih]

theorem count_normalize (as : List Nat) (j : Nat) (hj : j ≠ 0) : (normalize as).count j = as.count j := by
  rw [count_eq_sum_routes _ j hj, count_eq_sum_routes as j hj, routes_normalize]
  simp only [List.map_append, List.sum_append, List.map_cons, List.map_nil, List.sum_cons, List.sum_nil,
    List.count_nil, Nat.add_zero]
  exact sum_map_filter_nonempty (List.count j) (by simp) (routes as)

theorem routesLen_normalize (D : Nat → Nat → Int) (as : List Nat) :
    routesLen D (normalize as) = routesLen D as := by
  simp only [routesLen, routes_normalize, List.map_append, List.sum_append, List.map_cons, List.map_nil,
    List.sum_cons, List.sum_nil]
  rw [sum_map_filter_nonempty_int (routeLen D) (by simp [routeLen])]
  simp [routeLen]

theorem mem_rebuild (rs : List (List Nat)) (a : Nat) (h : a ∈ rebuild rs) : a = 0 ∨ ∃ r ∈ rs, a ∈ r := by
  induction rs with
  | nil => simp [rebuild] at h
  | cons r rs ih =>
    simp only [rebuild, List.mem_append, List.mem_cons] at h
    rcases h with h | h | h
    · exact Or.inr ⟨r, by simp, h⟩
    · exact Or.inl h
    · rcases ih h with h' | ⟨r', hr', ha⟩
      · exact Or.inl h'
      · exact Or.inr ⟨r', by simp [hr'], ha⟩

theorem mem_of_mem_routes (as : List Nat) : ∀ r ∈ routes as, ∀ a ∈ r, a ∈ as := by
  induction as with
  | nil => intro r hr a ha; simp [routes] at hr; subst hr; simp at ha
  | cons b as ih =>
    obtain ⟨r1, rs1, h1⟩ := routes_cons_exists as
    intro r hr a ha
    by_cases h0 : b = 0
    · subst h0
      simp only [routes, if_true] at hr
      rcases List.mem_cons.mp hr with h | h
      · subst h; simp at ha
      · exact List.mem_cons_of_mem _ (ih r h a ha)
    · simp only [routes, h0, if_false, h1] at hr
      rcases List.mem_cons.mp hr with h | h
      · subst h
        rcases List.mem_cons.mp ha with h' | h'
        · subst h'; simp
        · exact List.mem_cons_of_mem _ (ih r1 (by simp [h1]) a h')
      · exact List.mem_cons_of_mem _ (ih r (by simp [h1, h]) a ha)

theorem mem_normalize (as : List Nat) (a : Nat) (h : a ∈ normalize as) : a = 0 ∨ a ∈ as := by
  rcases mem_rebuild _ a h with h' | ⟨r, hr, ha⟩
  · exact Or.inl h'
  · exact Or.inr (mem_of_mem_routes as r (List.mem_filter.mp hr).1 a ha)

/-- shape of a rebuilt list of non-empty depot-free routes: starts with a customer, no two consecutive
depot visits, contains a depot visit -/
theorem rebuild_head (rs : List (List Nat)) (hne : rs ≠ []) (h : ∀ r ∈ rs, r ≠ [] ∧ 0 ∉ r) :
    (rebuild rs).head? ≠ some 0 := by
  cases rs with
  | nil => exact absurd rfl hne
  | cons r rs =>
    obtain ⟨hr, h0⟩ := h r (by simp)
    cases r with
    | nil => exact absurd rfl hr
    | cons a r =>
      simp only [rebuild, List.cons_append, List.head?_cons]
      intro e
      exact h0 (by simp at e; simp [e])

theorem zero_mem_rebuild (rs : List (List Nat)) (hne : rs ≠ []) : 0 ∈ rebuild rs := by
  cases rs with
  | nil => exact absurd rfl hne
  | cons r rs => simp [rebuild]

end Rl4co
