/-
The MDCPDP model with the INTENDED `current_depot` rule (`stepF true`: `current_depot` is updated on every
visit of a depot — what the one-line fix `torch.where(current_node < num_depot, current_node, current_depot)`
gives).  This is not the code that exists (`Params.mdcpdpDepotOnVisit = false`, see `depotSel_asCoded`); the
token is extracted from the source, so the day a maintainer applies the fix `Rl4co.Mdcpdp.step` IS `stepX`
and the theorems of the `Fixed` files apply to the real code.  Helper lemmas and the state invariant,
parallel to `Rl4co/Proofs/Mdcpdp.lean`.
-/
import Rl4co.Proofs.Mdcpdp

namespace Rl4co.Mdcpdp.Fixed
open Rl4co.Mdcpdp

/-- the step with the intended `current_depot` rule -/
def stepX (i : Inst) (s : State) (a : Nat) : State := stepF true i s a

/-- well-formed for the fixed variant: as `WF`, and every vehicle can carry at least one order -/
structure WFX (i : Inst) : Prop where
  wf     : WF i
  capPos : ∀ d, d < i.K → 1 ≤ i.cap d

@[simp] theorem step_cur (i : Inst) (s : State) (a : Nat) : (stepX i s a).cur = a := rfl
@[simp] theorem step_avail (i : Inst) (s : State) (a : Nat) :
    (stepX i s a).avail = upd s.avail a false := rfl
@[simp] theorem step_td (i : Inst) (s : State) (a : Nat) :
    (stepX i s a).toDeliver = upd s.toDeliver ((a + i.h) % i.N) true := by
  simp [stepX, stepF]
@[simp] theorem step_carry (i : Inst) (s : State) (a : Nat) :
    (stepX i s a).carry =
      s.carry + (if i.K ≤ a ∧ a < i.pd then 1 else 0) - (if i.pd ≤ a then 1 else 0) := by
  simp [stepX, stepF]
@[simp] theorem step_depot (i : Inst) (s : State) (a : Nat) :
    (stepX i s a).depot = if a < i.K then a else s.depot := by
  simp [stepX, stepF, depotSel]
@[simp] theorem step_done (i : Inst) (s : State) (a : Nat) :
    (stepX i s a).done = !(anyIn i.N (upd s.avail a false)) := by
  simp [stepX, stepF]
theorem step_mask (i : Inst) (s : State) (a : Nat) :
    (stepX i s a).mask = maskOf i (backFlag i s a) (stepX i s a).avail (stepX i s a).toDeliver
      (stepX i s a).carry (stepX i s a).depot (stepX i s a).done := rfl

/-- the invariant of reachable states (solo step, well-formed instance) -/
structure InvX (i : Inst) (s : State) : Prop where
  depK     : s.depot < i.K
  tdLow    : ∀ j, j < i.K + i.h → s.toDeliver j = true
  tdDel    : ∀ p, i.K ≤ p → p < i.K + i.h → s.toDeliver (p + i.h) = !s.avail p
  delAfter : ∀ p, i.K ≤ p → p < i.K + i.h → s.avail p = true → s.avail (p + i.h) = true
  carryEq  : s.carry = (onb i s.avail : Int)
  carryCap : s.carry ≤ i.cap s.depot
  doneEq   : s.done = !(anyIn i.N s.avail)
  phase    : (s.mask = (fun j => decide (j = 0)) ∧ (∀ j, s.avail j = true)) ∨
             (∃ b, s.mask = maskOf i b s.avail s.toDeliver s.carry s.depot s.done ∧ s.avail s.depot = false ∧
                (b = true → s.carry = 0 ∧ (s.done = false → anyIn i.K s.avail = true)))

theorem inv_reset (i : Inst) (hwf : WFX i) : InvX i (reset i) := by
  refine ⟨by show i.start < i.K; rw [hwf.wf.start0]; exact hwf.wf.kpos, ?_, ?_, ?_, ?_, ?_, ?_, Or.inl ⟨rfl, fun _ => rfl⟩⟩
  · intro j hj; simp [reset, hwf.wf.split]; omega
  · intro p h1 h2
    have := hwf.wf.even
    simp [reset, hwf.wf.split]; omega
  · intro _ _ _ _; rfl
  · simp [reset, onb_all_true]
  · have := hwf.wf.cap0; simp [reset, hwf.wf.start0]; omega
  · have : anyIn i.N (reset i).avail = true :=
      anyIn_eq_true.mpr ⟨0, by have := hwf.wf.kpos; have := hwf.wf.even; omega, rfl⟩
    show (reset i).done = !(anyIn i.N (reset i).avail)
    rw [this]; rfl

/-! ### what an admitted action looks like -/

/-- customers in the mask are available and deliverable; a pickup moreover fits -/
theorem mask_customer {i : Inst} {s : State} (hwf : WFX i) (hi : InvX i s) {a : Nat} (hK : i.K ≤ a)
    (hm : s.mask a = true) :
    s.avail a = true ∧ s.toDeliver a = true ∧ (a < i.pd → s.carry < i.cap s.depot) := by
  rcases hi.phase with ⟨hmk, _⟩ | ⟨b, hmk, _, _⟩
  · rw [hmk] at hm
    have := hwf.wf.kpos
    simp at hm; omega
  · rw [hmk] at hm
    have hnk : ¬ a < i.K := by omega
    simp only [maskOf, capFlagOf_eq, carryFlagOf_eq, lastDepotOf_eq, hnk, if_false, Bool.and_eq_true, Bool.not_eq_true'] at hm
    by_cases hpd : a < i.pd
    · simp only [hpd, if_true, Bool.and_eq_true, Bool.not_eq_true', decide_eq_false_iff_not] at hm
      exact ⟨hm.1.1.1, hm.1.1.2, fun _ => by omega⟩
    · simp only [hpd, if_false, Bool.and_eq_true] at hm
      exact ⟨hm.1.1, hm.1.2, fun h => absurd h hpd⟩

/-- a depot other than the current one in the mask is an unvisited one -/
theorem mask_depot_ne {i : Inst} {s : State} (_hwf : WFX i) (hi : InvX i s) {a : Nat} (hK : a < i.K)
    (h0 : a ≠ s.depot) (hm : s.mask a = true) : s.avail a = true := by
  rcases hi.phase with ⟨_, hav⟩ | ⟨b, hmk, _, _⟩
  · exact hav a
  · rw [hmk] at hm
    simp only [maskOf, capFlagOf_eq, carryFlagOf_eq, lastDepotOf_eq, hK, if_true, h0, if_false, Bool.and_eq_true] at hm
    exact hm.1.1.1.1

/-- any depot in the mask is entered with an empty vehicle -/
theorem mask_depot_carry {i : Inst} {s : State} (hwf : WFX i) (hi : InvX i s) {a : Nat} (hK : a < i.K)
    (hm : s.mask a = true) : s.carry = 0 := by
  have hge : 0 ≤ s.carry := by rw [hi.carryEq]; omega
  rcases hi.phase with ⟨_, hav⟩ | ⟨b, hmk, _, _⟩
  · rw [hi.carryEq, onb_all_true i _ hav]; rfl
  · rw [hmk] at hm
    by_cases h0 : a = s.depot
    · subst h0
      simp only [maskOf, capFlagOf_eq, carryFlagOf_eq, lastDepotOf_eq, hK, if_true, Bool.or_eq_true, Bool.and_eq_true, Bool.not_eq_true',
        decide_eq_false_iff_not] at hm
      rcases hm with hm | hd
      · omega
      · -- finished: nothing is available, so nothing is on board
        have hno : anyIn i.N s.avail = false := by
          have := hi.doneEq; rw [hd] at this; simpa using this.symm
        have hall := anyIn_eq_false.mp hno
        have : onb i s.avail = 0 := by
          unfold onb
          apply cnt_eq_zero.mpr
          intro j hj
          have := hall (i.K + i.h + j) (by have := hwf.wf.even; omega)
          simp [this]
        rw [hi.carryEq, this]; rfl
    · simp only [maskOf, capFlagOf_eq, carryFlagOf_eq, lastDepotOf_eq, hK, if_true, h0, if_false, Bool.and_eq_true, Bool.not_eq_true',
        decide_eq_false_iff_not] at hm
      omega

/-- a return (`back_flag`) can only be a return to the current depot -/
theorem back_is_depot {i : Inst} {s : State} (hwf : WFX i) (hi : InvX i s) {a : Nat}
    (hm : s.mask a = true) (hb : backFlag i s a = true) : a = s.depot := by
  simp only [backFlag_eq, Bool.and_eq_true, decide_eq_true_eq, Bool.not_eq_true'] at hb
  by_cases h0 : a = s.depot
  · exact h0
  · have := mask_depot_ne hwf hi hb.1 h0 hm
    rw [hb.2] at this; cases this

/-! ### preservation -/

/-- effect of a step on the number of orders on board -/
theorem onb_step {i : Inst} {s : State} (hwf : WFX i) (hi : InvX i s) {a : Nat} (ha : a < i.N)
    (hm : s.mask a = true) :
    (onb i (upd s.avail a false) : Int) =
      onb i s.avail + (if i.K ≤ a ∧ a < i.pd then 1 else 0) - (if i.pd ≤ a then 1 else 0) := by
  have hev := hwf.wf.even
  have hpd : i.pd = i.h + i.K := rfl
  by_cases hK : a < i.K
  · -- a depot: no customer entry changes
    have : onb i (upd s.avail a false) = onb i s.avail := by
      unfold onb; apply cnt_congr; intro j hj
      rw [upd_other _ _ _ _ (by omega), upd_other _ _ _ _ (by omega)]
    rw [this]
    have h1 : ¬ (i.K ≤ a ∧ a < i.pd) := by omega
    have h2 : ¬ (i.pd ≤ a) := by omega
    simp [h1, h2]
  · obtain ⟨hav, htd, _⟩ := mask_customer hwf hi (by omega) hm
    by_cases hp : a < i.pd
    · -- a pickup: its entry turns on
      have hdel := hi.delAfter a (by omega) (by omega) hav
      have : onb i (upd s.avail a false) = onb i s.avail + 1 := by
        unfold onb
        have hfun : cnt i.h (fun k => !(upd s.avail a false) (i.K + k) && (upd s.avail a false) (i.K + i.h + k)) =
            cnt i.h (upd (fun k => !s.avail (i.K + k) && s.avail (i.K + i.h + k)) (a - i.K) true) := by
          apply cnt_congr
          intro k hkh
          simp only [upd_apply]
          by_cases hk : k = a - i.K
          · have e1 : i.K + k = a := by omega
            have e2 : i.K + i.h + k ≠ a := by omega
            have e3 : i.K + i.h + k = a + i.h := by omega
            rw [if_pos e1, if_neg e2, if_pos hk, e3, hdel]; rfl
          · have e1 : i.K + k ≠ a := by omega
            have e2 : i.K + i.h + k ≠ a := by omega
            rw [if_neg e1, if_neg e2, if_neg hk]
        rw [hfun]
        apply cnt_upd_true (by omega)
        have e1 : i.K + (a - i.K) = a := by omega
        simp [e1, hav]
      rw [this]
      have h1 : i.K ≤ a ∧ a < i.pd := by omega
      have h2 : ¬ (i.pd ≤ a) := by omega
      simp [h1, h2]
    · -- a delivery: the entry of its order turns off
      have hpk : s.avail (a - i.h) = false := by
        have := hi.tdDel (a - i.h) (by omega) (by omega)
        have e : a - i.h + i.h = a := by omega
        rw [e, htd] at this
        simpa using this.symm
      have : onb i (upd s.avail a false) + 1 = onb i s.avail := by
        unfold onb
        have hfun : cnt i.h (fun k => !(upd s.avail a false) (i.K + k) && (upd s.avail a false) (i.K + i.h + k)) =
            cnt i.h (upd (fun k => !s.avail (i.K + k) && s.avail (i.K + i.h + k)) (a - i.h - i.K) false) := by
          apply cnt_congr
          intro k hkh
          simp only [upd_apply]
          by_cases hk : k = a - i.h - i.K
          · have e1 : i.K + k ≠ a := by omega
            have e2 : i.K + i.h + k = a := by omega
            rw [if_neg e1, if_pos e2, if_pos hk]; simp
          · have e1 : i.K + k ≠ a := by omega
            have e2 : i.K + i.h + k ≠ a := by omega
            rw [if_neg e1, if_neg e2, if_neg hk]
        rw [hfun]
        apply cnt_upd_false (by omega)
        have e1 : i.K + (a - i.h - i.K) = a - i.h := by omega
        have e2 : i.K + i.h + (a - i.h - i.K) = a := by omega
        simp [e1, e2, hpk, hav]
      have h1 : ¬ (i.K ≤ a ∧ a < i.pd) := by omega
      have h2 : i.pd ≤ a := by omega
      simp only [h1, h2, if_true, if_false]
      omega

/-- a finished state has nothing available -/
theorem avail_of_done {i : Inst} {s : State} (hi : InvX i s) (hd : s.done = true) :
    ∀ j, j < i.N → s.avail j = false := by
  have hno : anyIn i.N s.avail = false := by
    have := hi.doneEq; rw [hd] at this; simpa using this.symm
  exact anyIn_eq_false.mp hno

theorem inv_step {i : Inst} {s : State} (hwf : WFX i) (hi : InvX i s) {a : Nat} (ha : a < i.N)
    (hm : s.mask a = true) : InvX i (stepX i s a) := by
  have hev := hwf.wf.even
  have hk := hwf.wf.kpos
  have hpd : i.pd = i.h + i.K := rfl
  have hdK : (stepX i s a).depot < i.K := by
    rw [step_depot]; split
    · assumption
    · exact hi.depK
  -- the current depot is unavailable afterwards
  have havd : (stepX i s a).avail (stepX i s a).depot = false := by
    rw [step_avail, step_depot, upd_apply]
    by_cases haK : a < i.K
    · simp [haK]
    · simp only [haK, if_false]
      split
      · rfl
      · rcases hi.phase with ⟨hmk, _⟩ | ⟨_, _, h0, _⟩
        · rw [hmk] at hm; simp at hm; omega
        · exact h0
  refine ⟨hdK, ?_, ?_, ?_, ?_, ?_, by simp, Or.inr ⟨backFlag i s a, step_mask i s a, havd, ?_⟩⟩
  · intro j hj
    rw [step_td]
    exact td_step_low s (hi.tdLow j hj)
  · intro p h1 h2
    rw [step_td, step_avail, upd_apply, upd_apply]
    by_cases hpa : p = a
    · subst hpa
      rw [if_pos ((td_step_pickup hwf.wf ha h1 h2).mpr rfl)]; simp
    · have : ¬ (p + i.h = (a + i.h) % i.N) := fun h => hpa ((td_step_pickup hwf.wf ha h1 h2).mp h)
      rw [if_neg this, if_neg hpa]
      exact hi.tdDel p h1 h2
  · intro p h1 h2 hav
    rw [step_avail, upd_apply] at hav ⊢
    by_cases hpa : p = a
    · subst hpa; simp at hav
    · rw [if_neg hpa] at hav
      have hdel := hi.delAfter p h1 h2 hav
      by_cases hda : p + i.h = a
      · exfalso
        obtain ⟨_, htd, _⟩ := mask_customer hwf hi (by omega : i.K ≤ a) hm
        have := hi.tdDel p h1 h2
        rw [hda, htd, hav] at this
        cases this
      · rw [if_neg hda]; exact hdel
  · rw [step_carry, step_avail, onb_step hwf hi ha hm, hi.carryEq]
  · rw [step_carry, step_depot]
    have hc := hi.carryCap
    by_cases haK : a < i.K
    · -- a depot is entered empty, and its vehicle can carry something
      have hc0 := mask_depot_carry hwf hi haK hm
      have hK1 : ¬ (i.K ≤ a ∧ a < i.pd) := by omega
      have hK2 : ¬ (i.pd ≤ a) := by omega
      have := hwf.capPos a haK
      simp only [haK, if_true, hK1, hK2, if_false]; omega
    · simp only [haK, if_false]
      by_cases hp : a < i.pd
      · have := (mask_customer hwf hi (by omega) hm).2.2 hp
        have h1 : i.K ≤ a ∧ a < i.pd := ⟨by omega, hp⟩
        have h2 : ¬ (i.pd ≤ a) := by omega
        simp only [h1, and_self, if_true, h2, if_false]; omega
      · have h1 : ¬ (i.K ≤ a ∧ a < i.pd) := by omega
        simp only [h1, if_false]; split <;> omega
  · intro hb
    have h0 := back_is_depot hwf hi hm hb
    subst h0
    have hdK' := hi.depK
    have hc := mask_depot_carry hwf hi hdK' hm
    have hK : ¬ (i.K ≤ s.depot ∧ s.depot < i.pd) := by omega
    have hP : ¬ (i.pd ≤ s.depot) := by omega
    refine ⟨by rw [step_carry]; simp only [hK, hP, if_false]; omega, ?_⟩
    intro hnd
    simp only [backFlag_eq, Bool.and_eq_true, decide_eq_true_eq, Bool.not_eq_true'] at hb
    have hsame : upd s.avail s.depot false = s.avail := by
      funext j; simp only [upd_apply]; split
      · subst_vars; exact hb.2.symm
      · rfl
    rw [step_done, hsame] at hnd
    rw [step_avail, hsame]
    rcases hi.phase with ⟨_, hav⟩ | ⟨b, hmk, _, _⟩
    · rw [hav s.depot] at hb; cases hb.2
    · rw [hmk] at hm
      have hsd : s.done = false := by rw [hi.doneEq]; exact hnd
      simp only [maskOf, capFlagOf_eq, carryFlagOf_eq, lastDepotOf_eq, hdK', if_true, hsd, Bool.or_false, Bool.and_eq_true,
        Bool.not_eq_true', Bool.not_eq_false'] at hm
      simpa using hm.1.2

theorem invX_of_reach {i : Inst} (hwf : WFX i) {s : State} (h : Reach envFixed i s) : InvX i s :=
  Rl4co.inv_of_reach (e := envFixed) (Inv := InvX i) (inv_reset i hwf)
    (fun _ _ hi ha hmask => inv_step hwf hi ha hmask) h


end Rl4co.Mdcpdp.Fixed
