/-
Proof obligations on the extracted tokens (`Generated/Params.lean`, probes in `harness/probes/tspfam.py`):
each lemma below rewrites a parametric model definition of `Env/{Tsp,Atsp,Pdp,Smtwtp}.lean` into the
closed form the property proofs work with, and holds ONLY for the committed token values (`rfl` /
`decide` on the `Params` constants).  A source edit that changes an operator, a roll shift, an index
constant or the shape of the SMTWTP pipeline changes `Params.lean` and breaks the lemma — and with it
every theorem downstream — at `lake build`.  Core only, no Mathlib.
-/
import Rl4co.Env.Tsp
import Rl4co.Env.Atsp
import Rl4co.Env.Pdp
import Rl4co.Env.Smtwtp
import Rl4co.Proofs.Sort

namespace Rl4co.Tspfam

/-- `torch.roll(·, -1)` moves the first element to the end -/
theorem rollInt_neg_one {α : Type} (xs : List α) : rollInt (-1) xs = roll1 xs := by
  match xs with
  | [] => simp [rollInt, roll1]
  | [x] => simp [rollInt, roll1, List.rotateLeft]
  | x :: y :: r =>
    have h : ((- (-1 : Int)) % ((x :: y :: r).length : Int)).toNat = 1 := by
      simp only [List.length_cons, Int.neg_neg]
      rw [Int.emod_eq_of_lt (by omega) (by omega)]; rfl
    simp only [rollInt, h, roll1]
    simp [List.rotateLeft]

/-- element-wise equality reduced with `.all()` is list equality (equal widths) -/
theorem zipWith_eq_all (xs ys : List Nat) (h : xs.length = ys.length) :
    (List.zipWith (fun a b => decide (a = b)) xs ys).all id = (ys == xs) := by
  induction xs generalizing ys with
  | nil => cases ys <;> simp_all
  | cons x xs ih =>
    cases ys with
    | nil => simp at h
    | cons y ys =>
      simp only [List.length_cons, Nat.add_right_cancel_iff] at h
      simp only [List.zipWith_cons_cons, List.all_cons, id, ih ys h]
      by_cases hxy : x = y
      · subst hxy; simp
      · have : y ≠ x := fun h => hxy h.symm
        simp [hxy, this]

/-- with the `==` operator the width test is the sort-and-compare-with-`arange` idiom -/
theorem permTest_eq (acts : List Nat) : permTest .eq acts.length acts = sortedIsRange acts.length acts := by
  simp only [permTest, Cmp.evalNat, sortedIsRange]
  rw [zipWith_eq_all _ _ (by simp [(sortNat_perm acts).length_eq])]

end Rl4co.Tspfam

namespace Rl4co.Tspfam

/-- the four `done` tests say "no entry available": proved by cases on the count, so it goes through for every
operator that is semantically `== 0` on a count (`==`, `<=`) and fails for any other (`<`, `>=`, `!=`, …) -/
theorem doneCmp_ok (x : Nat) :
    Params.tspDoneCmp.evalNat x 0 = decide (x = 0) ∧ Params.atspDoneCmp.evalNat x 0 = decide (x = 0) ∧
    Params.pdpDoneCmp.evalNat x 0 = decide (x = 0) ∧ Params.smtwtpDoneCmp.evalNat x 0 = decide (x = 0) := by
  cases x <;> simp [Params.tspDoneCmp, Params.atspDoneCmp, Params.pdpDoneCmp, Params.smtwtpDoneCmp, Cmp.evalNat]

end Rl4co.Tspfam

namespace Rl4co.Tsp
open Rl4co.Tspfam

/-- obligation on the extracted size expression of `_reset`: for EVERY batch shape (flat `[B]`, `[B1, B2]`, …)
the mask gets one entry per city.  False for `size(1)` (then the width is `B2` for a `[B1, B2]` batch). -/
theorem resetWidth_eq (bs : List Nat) (i : Inst) : resetWidth bs i = i.n := by
  simp [resetWidth, numLocOf, Params.tspResetNumLocFromEnd]

theorem firstFlag_eq (rows : List State) : firstFlag rows = ((rows.all (fun s => s.i != 0)) == false) := by
  simp only [firstFlag, Params.tspFirstStepCmp, Cmp.evalNat]
  cases rows.all (fun s => s.i != 0) <;> simp

theorem tourNext_eq (as : List Nat) : tourNext as = roll1 as := by
  simp only [tourNext, Params.tourRollAlongSteps, Params.tourRollShift, if_true]
  exact rollInt_neg_one as

theorem reward_eq (i : Inst) (as : List Nat) :
    reward i as = - (List.zipWith (fun nxt c => i.D nxt c) (roll1 as) as).sum := by
  simp only [reward, tourNext_eq]

theorem check_eq (i : Inst) (as : List Nat) : check i as = sortedIsRange as.length as := by
  simp only [check, checkWith, Params.tspCheckWidthFromInst, Params.tspCheckCmp, Bool.false_eq_true, if_false]
  exact permTest_eq as

/-- the repaired clause (width from the instance): width test ∧ sort-and-compare with `arange(n)` -/
theorem checkWith_true_eq (i : Inst) (as : List Nat) :
    checkWith true i as = (decide (as.length = i.n) && sortedIsRange i.n as) := by
  simp only [checkWith, if_true, Params.tspCheckCmp]
  by_cases h : as.length = i.n
  · rw [← h, permTest_eq]
  · simp [h]

end Rl4co.Tsp

namespace Rl4co.Atsp
open Rl4co.Tspfam

theorem firstFlag_cons (s : State) (rest : List State) : firstFlag (s :: rest) = (s.i == 0) := by
  simp only [firstFlag, Params.atspFirstStepCmp, Cmp.evalNat]
  by_cases h : s.i = 0 <;> simp [h]

theorem tourNext_eq (as : List Nat) : tourNext as = roll1 as := by
  simp only [tourNext, Params.atspRollAlongSteps, Params.atspRollShift, if_true]
  exact rollInt_neg_one as

theorem reward_eq (i : Inst) (as : List Nat) :
    reward i as = - (List.zipWith (fun src tgt => i.M src tgt) as (roll1 as)).sum := by
  simp only [reward, Params.atspGatherSrcFirst, if_true, tourNext_eq]

theorem check_eq (i : Inst) (as : List Nat) : check i as = sortedIsRange as.length as := by
  simp only [check, checkWith, Params.atspCheckWidthFromInst, Params.atspCheckCmp, Bool.false_eq_true, if_false]
  exact permTest_eq as

theorem checkWith_true_eq (i : Inst) (as : List Nat) :
    checkWith true i as = (decide (as.length = i.n) && sortedIsRange i.n as) := by
  simp only [checkWith, if_true, Params.atspCheckCmp]
  by_cases h : as.length = i.n
  · rw [← h, permTest_eq]
  · simp [h]

end Rl4co.Atsp

namespace Rl4co.Pdp
open Rl4co.Tspfam

theorem pairIdx_eq (i : Inst) (a : Nat) : pairIdx i a = (a + i.n / 2) % (i.n + 1) := by
  simp [pairIdx, Params.pdpPairOffset]

theorem toDeliver0_eq (i : Inst) (j : Nat) : toDeliver0 i j = decide (j < i.h + 1) := by
  have : i.n / 2 = i.h := by simp only [Inst.n]; omega
  simp [toDeliver0, Params.pdpResetOnes, this]

theorem numStarts_eq (i : Inst) : numStarts i = i.h := by
  simp only [numStarts, Params.pdpStartRule, Inst.n]; omega

theorem selectStartNodes_eq (i : Inst) (B k : Nat) :
    selectStartNodes i B k = (List.range (k * B)).map (fun r => (r / B) % i.h + 1) := by
  simp only [selectStartNodes, numStarts_eq, Params.pdpStartRule]

/-- the action list the checker looks at: the depot is prepended unless the forced start already put it there -/
def actsOf (i : Inst) (as : List Nat) : List Nat := if i.force then as else 0 :: as

/-- the checker body with the committed operators, every size taken from the width of `acts` -/
def plainCheck (acts : List Nat) : Bool :=
  let L := acts.length
  let k := L / 2 + 1
  sortedIsRange L acts && ((acts.drop 1).dropLast).all (fun a => a != 0) &&
  bcastLt ((List.range (k - 1)).map (fun t => acts.idxOf (1 + t)))
    ((List.range (L - k)).map (fun t => acts.idxOf (k + t)))

theorem checkWith_eq (b : Bool) (i : Inst) (as : List Nat) :
    checkWith b i as = ((!b || decide ((actsOf i as).length = i.n + 1)) && plainCheck (actsOf i as)) := by
  have hne : (fun a : Nat => Params.pdpCheckDepotCmp.evalNat a 0) = (fun a => a != 0) := by
    funext a; by_cases h : a = 0 <;> simp [Params.pdpCheckDepotCmp, Cmp.evalNat, h]
  have hacts : (if i.force == Params.pdpCheckPrependWhenNotForced then as else 0 :: as) = actsOf i as := by
    simp only [actsOf, Params.pdpCheckPrependWhenNotForced]; cases i.force <;> rfl
  cases b
  · simp only [checkWith, hacts, hne, Params.pdpCheckPermCmp, Params.pdpCheckPrecCmp, permTest_eq, bcastLt,
      plainCheck, Bool.false_eq_true, if_false, Bool.not_false, Bool.true_or, Bool.true_and]
  · by_cases h : (actsOf i as).length = i.n + 1
    · simp only [checkWith, hacts, hne, if_true, ← h, Params.pdpCheckPermCmp, Params.pdpCheckPrecCmp, permTest_eq,
        bcastLt, plainCheck, Bool.not_true, Bool.false_or, decide_true, Bool.true_and]
    · simp only [checkWith, hacts, if_true, h, decide_false, Bool.not_true, Bool.false_or, Bool.false_and]

/-- the checker as written (width source = action tensor) -/
theorem check_unfold (i : Inst) (as : List Nat) : check i as = plainCheck (actsOf i as) := by
  simp only [check, Params.pdpCheckWidthFromInst, checkWith_eq, Bool.not_false, Bool.true_or, Bool.true_and]

end Rl4co.Pdp

namespace Rl4co.Smtwtp

/-- the reward pipeline with the committed shape and clamp operator -/
theorem weightedTardiness_eq (i : Inst) (as : List Nat) :
    weightedTardiness i as =
      (List.zipWith (fun w t => w * t) (as.map i.w)
        ((List.zipWith (fun c d => c - d) (cumsum 0 (as.map i.p)) (as.map i.d)).map
          (fun x => if x < 0 then 0 else x))).sum := by
  have hclamp : (fun x : Int => if Params.smtwtpClampCmp.eval x 0 then 0 else x) = (fun x => if x < 0 then 0 else x) := by
    funext x
    simp only [Params.smtwtpClampCmp, Cmp.eval, decide_eq_true_eq] <;> (split <;> split <;> omega)
  simp only [weightedTardiness, Params.smtwtpRewardShape, if_true, hclamp]

end Rl4co.Smtwtp
