/-
Obligations tying the PCTSP / SPCTSP model to the tokens and expressions regenerated from the source
(`Generated/Params.lean`, probes in `harness/probes/prize.py`).  Every lemma here is `rfl` or a one-line
`simp` on the extracted value: a source edit that changes a token or the shape of an expression makes
the lemma — and with it every property module of the family, which imports this file — fail at
`lake build`.  No Mathlib.
-/
import Rl4co.Env.Pctsp

namespace Rl4co.Pctsp
open Rl4co.Prize

/-! ### which prize row is used where -/

/-- `_reset`: the stochastic env collects the stochastic prize, the deterministic env the deterministic one -/
theorem realPrize_eq (i : Inst) : realPrize i = if i.stochastic then i.stoPrize else i.detPrize := by
  simp [realPrize, Params.pctspStoBranchReadsSto, Params.pctspDetBranchReadsDet]

/-- `_step` accumulates the REAL prize (not the expected prize shown to the policy) -/
theorem stepPrize_eq (i : Inst) : stepPrize i = realPrize i := by
  simp [stepPrize, Params.pctspStepGathersReal]

/-- the checker sums the REAL prize -/
theorem checkPrize_eq (i : Inst) : checkPrize i = realPrize i := by
  simp [checkPrize, Params.pctspCheckGathersReal]

/-- `PCTSPEnv._stochastic = False`: PCTSP collects the deterministic prize … -/
theorem pctsp_real_is_det (i : Inst) :
    realPrize { i with stochastic := Params.pctspClassStochastic } = i.detPrize := by
  simp [realPrize_eq, Params.pctspClassStochastic]

/-- … `SPCTSPEnv._stochastic = True`: SPCTSP collects the stochastic prize. -/
theorem spctsp_real_is_sto (i : Inst) :
    realPrize { i with stochastic := Params.spctspClassStochastic } = i.stoPrize := by
  simp [realPrize_eq, Params.spctspClassStochastic]

/-! ### the straight-line arithmetic, as regenerated from the source (`generated = model`) -/

theorem step_tot_generated (i : Inst) (s : State) (a : Nat) :
    (step i s a).tot = Params.pctspStepPrizeExpr s.tot (padded (stepPrize i) a) := rfl

theorem step_penTot_generated (i : Inst) (s : State) (a : Nat) :
    (step i s a).penTot = Params.pctspStepPenaltyExpr s.penTot (padded i.pen a) := rfl

theorem step_i_generated (i : Inst) (s : State) (a : Nat) :
    (step i s a).i = Params.pctspStepCounterExpr s.i := rfl

theorem mask_customer_generated (i : Inst) (s : State) (a : Nat) (h : a ≠ 0) :
    mask i s a = !(Params.pctspMaskOrExpr (s.vis a) (s.vis 0)) := by
  simp [mask, h, Params.pctspMaskOrExpr]

theorem reward_generated (i : Inst) (as : List Nat) :
    reward i as = if rewardSpecial as then 0
      else Params.pctspRewardExpr (gatherSum i.pen as) (rollLen i.D (0 :: as)) (totalPenalty i) := rfl

/-- what the property proofs use: the step adds the real prize of the visited node -/
theorem step_tot (i : Inst) (s : State) (a : Nat) :
    (step i s a).tot = s.tot + padded (realPrize i) a := by
  rw [step_tot_generated, stepPrize_eq]; rfl

theorem step_i (i : Inst) (s : State) (a : Nat) : (step i s a).i = s.i + 1 := by
  rw [step_i_generated]; rfl

end Rl4co.Pctsp
