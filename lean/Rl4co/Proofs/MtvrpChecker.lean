/-
The MTVRP checker model against the Spec: the replay passes (`checkReplay`, `checkC1`) characterised by the
length / clock / load constraints of the routes, in both directions.
No Mathlib.
-/
import Rl4co.Proofs.MtvrpComplete
import Rl4co.Proofs.Sort

namespace Rl4co.Mtvrp
open Rl4co.Spec.Mtvrp

/-- the action list ends with a depot visit -/
def endsAtDepot : List Nat → Bool
  | [] => false
  | [a] => a == 0
  | _ :: b :: as => endsAtDepot (b :: as)

/-- length and clock part of the route constraints for the rest `r` of a route, standing at `cur` with
accumulated length `len` and clock `t` -/
def ContTD (i : Inst) (cur : Nat) (t len : Int) (r : List Nat) : Prop :=
  cmpInf .le (len + pathLen i.D (cur :: r ++ (if i.openR then [] else [0]))) i.limit = true ∧
  timeOk .le i cur t r = true

theorem contTD_cons_iff (i : Inst) (cur : Nat) (t len : Int) (a : Nat) (r : List Nat) :
    ContTD i cur t len (a :: r) ↔
      cmpInf .le (t + i.T cur a) (i.late a) = true ∧
      ContTD i a (max (t + i.T cur a) (i.early a) + i.service a) (len + i.D cur a) r := by
  simp only [ContTD, timeOk, within, Bool.and_eq_true, List.cons_append, pathLen_cons_cons]
  have e : len + (i.D cur a + pathLen i.D (a :: (r ++ if i.openR = true then [] else [0])))
      = len + i.D cur a + pathLen i.D (a :: (r ++ if i.openR = true then [] else [0])) := by omega
  rw [e]
  constructor
  · rintro ⟨h1, h2, h3⟩; exact ⟨h2, h1, h3⟩
  · rintro ⟨h2, h1, h3⟩; exact ⟨h1, h2, h3⟩

theorem cmpInf_le_max {x y : Int} {o : Option Int} :
    cmpInf .le (max x y) o = true ↔ cmpInf .le x o = true ∧ cmpInf .le y o = true := by
  cases o with
  | none => simp [cmpInf]
  | some l =>
    simp only [cmpInf, Cmp.eval, decide_eq_true_eq]
    constructor
    · intro h
      have := Int.le_max_left x y
      have := Int.le_max_right x y
      omega
    · intro ⟨h1, h2⟩
      exact Int.max_le.mpr ⟨h1, h2⟩

/-! ### soundness of the replay passes -/

theorem replay_sound (i : Inst) (hlim : cmpInf .le 0 i.limit = true) :
    ∀ (as : List Nat) (cur : Nat) (t len : Int),
    cmpInf .le len i.limit = true →
    checkReplay i cur t len as = true →
    (i.openR = true ∨ endsAtDepot as = true ∨ (cur = 0 ∧ as = [])) →
    ∀ r rs, routes as = r :: rs →
      ((cur ≠ 0 ∨ r ≠ []) → ContTD i cur t len r) ∧ ∀ r' ∈ rs, r' ≠ [] → ContTD i 0 0 0 r' := by
  intro as
  induction as with
  | nil =>
    intro cur t len hlen _ hP r rs hr
    simp only [routes, List.cons.injEq] at hr
    obtain ⟨e1, e2⟩ := hr; subst e1 e2
    refine ⟨fun hc => ?_, by simp⟩
    have ho : i.openR = true := by
      rcases hP with h | h | h
      · exact h
      · simp [endsAtDepot] at h
      · rcases hc with hc | hc
        · exact absurd h.1 hc
        · exact absurd rfl hc
    simp only [ContTD, ho, if_true, List.append_nil, pathLen, Int.add_zero, timeOk, Bool.true_or, and_true]
    exact hlen
  | cons a as ih =>
    intro cur t len hlen hchk hP r rs hr
    obtain ⟨r1, rs1, h1⟩ := routes_cons_exists as
    simp only [checkReplay_cons, Params.mtvrpCheckLimitCmp, Params.mtvrpCheckTwCmp, Bool.and_eq_true] at hchk
    obtain ⟨⟨okL, okT⟩, hrec⟩ := hchk
    rw [cmpInf_le_max] at okT
    by_cases h0 : a = 0
    · subst h0
      simp only [routes, if_true, List.cons.injEq] at hr
      obtain ⟨e1, e2⟩ := hr; subst e1 e2
      simp only [if_true] at hrec
      have hP' : i.openR = true ∨ endsAtDepot as = true ∨ ((0 : Nat) = 0 ∧ as = []) := by
        rcases hP with h | h | h
        · exact Or.inl h
        · cases as with
          | nil => exact Or.inr (Or.inr ⟨rfl, rfl⟩)
          | cons b bs => exact Or.inr (Or.inl (by simpa [endsAtDepot] using h))
        · exact absurd h.2 (by simp)
      have := ih 0 0 0 hlim hrec hP' r1 rs1 h1
      refine ⟨fun _ => ?_, ?_⟩
      · simp only [ContTD, timeOk, within, List.cons_append, List.nil_append]
        cases ho : i.openR
        · simp only [ho, Bool.false_eq_true, beq_self_eq_true] at okL
          simp only [Bool.false_eq_true, if_false, pathLen, Int.add_zero, Bool.false_or]
          exact ⟨okL, okT.1⟩
        · simp only [if_true, pathLen, Int.add_zero, Bool.true_or, and_true]
          exact hlen
      · intro r' hr' hne
        rw [h1] at hr'
        rcases List.mem_cons.mp hr' with h | h
        · subst h; exact this.1 (Or.inr hne)
        · exact this.2 r' h hne
    · simp only [routes, h0, if_false, h1, List.cons.injEq] at hr
      obtain ⟨e1, e2⟩ := hr; subst e1 e2
      have hbeq : (a == 0) = false := by simp [h0]
      simp only [h0, if_false, hbeq, Bool.false_eq_true, and_false] at hrec okL
      have hP' : i.openR = true ∨ endsAtDepot as = true ∨ (a = 0 ∧ as = []) := by
        rcases hP with h | h | h
        · exact Or.inl h
        · cases as with
          | nil => simp [endsAtDepot, h0] at h
          | cons b bs => exact Or.inr (Or.inl (by simpa [endsAtDepot] using h))
        · exact absurd h.2 (by simp)
      have := ih a _ _ okL hrec hP' r1 rs1 h1
      refine ⟨fun _ => ?_, this.2⟩
      rw [contTD_cons_iff]
      exact ⟨okT.1, this.1 (Or.inl h0)⟩

theorem c1_sound (cap : Int) (dem : Nat → Int) (hd0 : dem 0 = 0) : ∀ (as : List Nat) (used : Int),
    checkC1 cap dem used as = true →
    ∀ r rs, routes as = r :: rs →
      (r ≠ [] → (r.map dem).sum + used ≤ cap) ∧ ∀ r' ∈ rs, r' ≠ [] → (r'.map dem).sum ≤ cap := by
  intro as
  induction as with
  | nil =>
    intro used _ r rs hr
    simp only [routes, List.cons.injEq] at hr
    obtain ⟨e1, e2⟩ := hr; subst e1 e2
    simp
  | cons a as ih =>
    intro used hchk r rs hr
    obtain ⟨r1, rs1, h1⟩ := routes_cons_exists as
    simp only [checkC1_cons, Params.mtvrpCheckCapCmp, Cmp.eval, Bool.and_eq_true, decide_eq_true_eq] at hchk
    obtain ⟨hle, hrec⟩ := hchk
    by_cases h0 : a = 0
    · subst h0
      simp only [routes, if_true, List.cons.injEq] at hr
      obtain ⟨e1, e2⟩ := hr; subst e1 e2
      simp only [ne_eq, not_true_eq_false, if_false, hd0, Int.add_zero] at hrec
      have := ih 0 hrec r1 rs1 h1
      refine ⟨fun h => absurd rfl h, ?_⟩
      intro r' hr' hne
      rw [h1] at hr'
      rcases List.mem_cons.mp hr' with h | h
      · subst h; have := this.1 hne; omega
      · exact this.2 r' h hne
    · simp only [routes, h0, if_false, h1, List.cons.injEq] at hr
      obtain ⟨e1, e2⟩ := hr; subst e1 e2
      simp only [ne_eq, h0, not_false_eq_true, if_true] at hrec hle
      have := ih _ hrec r1 rs1 h1
      refine ⟨fun _ => ?_, this.2⟩
      simp only [List.map_cons, List.sum_cons]
      by_cases hr1 : r1 = []
      · subst hr1; simp; omega
      · have := this.1 hr1; omega

theorem checkStatic_limit {i : Inst} (h : checkStatic i = true) : cmpInf .le 0 i.limit = true := by
  simp only [checkStatic, Bool.and_eq_true] at h
  have := h.1
  cases hl : i.limit with
  | none => rfl
  | some l => simpa [hl, geZeroInf, cmpInf, Cmp.eval] using this

/-! ### completeness of the replay passes -/

/-- open routes: the depot stays open long enough after the latest admissible service start at `j`
(what the generator guarantees: `tw_end + service + d_j0 ≤ max_time`) -/
def slackOk (i : Inst) (j : Nat) : Bool :=
  match i.late 0 with
  | none => true
  | some l0 => match i.late j with
    | none => false
    | some l => decide (l + i.service j + i.T j 0 ≤ l0)

theorem checkStatic_node {i : Inst} (h : checkStatic i = true) (k : Nat) (hk : k ≤ i.n) :
    cmpInf .le 0 (i.late k) = true ∧ cmpInf .lt (i.early k) (i.late k) = true := by
  simp only [checkStatic, Bool.and_eq_true, List.all_eq_true, List.mem_range, decide_eq_true_eq] at h
  have := h.2 k (by omega)
  refine ⟨?_, this.1.2⟩
  have g := this.1.1.1.2
  cases hl : i.late k with
  | none => rfl
  | some l => simpa [hl, geZeroInf, cmpInf, Cmp.eval] using g

theorem pathLen_nonneg' {D : Nat → Nat → Int} (hD : ∀ a b, 0 ≤ D a b) : ∀ (xs : List Nat), 0 ≤ pathLen D xs
  | [] => by simp [pathLen]
  | [_] => by simp [pathLen]
  | x :: y :: r => by
    rw [pathLen_cons_cons]
    have := hD x y
    have := pathLen_nonneg' hD (y :: r)
    omega

theorem replay_complete (i : Inst) (hstat : checkStatic i = true)
    (hD : ∀ a b, 0 ≤ i.D a b) (h00 : i.D 0 0 = 0) (hT00 : i.T 0 0 = 0)
    (hslack : i.openR = true → ∀ j, 1 ≤ j → j ≤ i.n → slackOk i j = true) :
    ∀ (as : List Nat) (cur : Nat) (t len : Int),
    (∀ a ∈ as, a ≤ i.n) → cur ≤ i.n →
    (cur = 0 → t = 0 ∧ len = 0) →
    (cur ≠ 0 → cmpInf .le (t - i.service cur) (i.late cur) = true) →
    (∀ r rs, routes as = r :: rs →
      ((cur ≠ 0 ∨ r ≠ []) → ContTD i cur t len r) ∧ ∀ r' ∈ rs, r' ≠ [] → ContTD i 0 0 0 r') →
    checkReplay i cur t len as = true := by
  have hlim := checkStatic_limit hstat
  intro as
  induction as with
  | nil => intros; rfl
  | cons a as ih =>
    intro cur t len hrange hcur hz hsl hroutes
    obtain ⟨r1, rs1, h1⟩ := routes_cons_exists as
    have hrange' : ∀ b ∈ as, b ≤ i.n := fun b hb => hrange b (List.mem_cons_of_mem _ hb)
    simp only [checkReplay_cons, Params.mtvrpCheckLimitCmp, Params.mtvrpCheckTwCmp, Bool.and_eq_true]
    by_cases h0 : a = 0
    · subst h0
      have hr := hroutes [] (r1 :: rs1) (by simp [routes, h1])
      have hst0 := checkStatic_node hstat 0 (by omega)
      simp only [beq_self_eq_true, if_true]
      refine ⟨⟨?_, ?_⟩, ?_⟩
      · by_cases hc : cur = 0
        · obtain ⟨_, hl⟩ := hz hc
          subst hc; subst hl
          cases ho : i.openR <;> simp [h00, hlim]
        · have := (hr.1 (Or.inl hc)).1
          cases ho : i.openR
          · simpa [ho, pathLen] using this
          · simpa [ho, pathLen] using this
      · rw [cmpInf_le_max]
        refine ⟨?_, cmpInf_le_of_lt hst0.2⟩
        by_cases hc : cur = 0
        · obtain ⟨ht, _⟩ := hz hc
          subst hc; subst ht
          simpa [hT00] using hst0.1
        · have htm := (hr.1 (Or.inl hc)).2
          cases ho : i.openR
          · simpa [timeOk, within, ho] using htm
          · have h1' := hsl hc
            have h2' := hslack ho cur (by omega) hcur
            simp only [slackOk] at h2'
            cases hl0 : i.late 0 with
            | none => rfl
            | some l0 =>
              rw [hl0] at h2'
              cases hlc : i.late cur with
              | none => simp [hlc] at h2'
              | some l =>
                simp only [hlc, decide_eq_true_eq] at h2'
                simp only [hlc, cmpInf, Cmp.eval, decide_eq_true_eq] at h1' ⊢
                omega
      · apply ih 0 0 0 hrange' (by omega) (fun _ => ⟨rfl, rfl⟩) (fun h => absurd rfl h)
        intro r rs hrs
        rw [h1] at hrs
        simp only [List.cons.injEq] at hrs
        obtain ⟨e1, e2⟩ := hrs; subst e1 e2
        refine ⟨fun hc => ?_, fun r' hr' hne => hr.2 r' (List.mem_cons_of_mem _ hr') hne⟩
        rcases hc with hc | hc
        · exact absurd rfl hc
        · exact hr.2 r1 (by simp) hc
    · have hr := hroutes (a :: r1) rs1 (by simp [routes, h0, h1])
      have hcont := (contTD_cons_iff i cur t len a r1).1 (hr.1 (Or.inr (by simp)))
      have ha : a ≤ i.n := hrange a (by simp)
      have hsta := checkStatic_node hstat a ha
      have hbeq : (a == 0) = false := by simp [h0]
      simp only [h0, if_false, hbeq, Bool.false_eq_true, and_false]
      have hokT : cmpInf .le (max (t + i.T cur a) (i.early a)) (i.late a) = true :=
        cmpInf_le_max.2 ⟨hcont.1, cmpInf_le_of_lt hsta.2⟩
      refine ⟨⟨?_, hokT⟩, ?_⟩
      · refine cmpInf_le_of_le_of_le ?_ hcont.2.1
        have := pathLen_nonneg' hD (a :: r1 ++ if i.openR = true then [] else [0])
        omega
      · apply ih a _ _ hrange' ha (fun h => absurd h h0)
        · intro _
          have e : max (t + i.T cur a) (i.early a) + i.service a - i.service a = max (t + i.T cur a) (i.early a) := by omega
          rw [e]; exact hokT
        · intro r rs hrs
          rw [h1] at hrs
          simp only [List.cons.injEq] at hrs
          obtain ⟨e1, e2⟩ := hrs; subst e1 e2
          exact ⟨fun _ => hcont.2, hr.2⟩

theorem c1_complete (n : Nat) (cap : Int) (dem : Nat → Int) (hcap : 0 ≤ cap) (hd0 : dem 0 = 0)
    (hnn : ∀ k, k ≤ n → 0 ≤ dem k) : ∀ (as : List Nat) (used : Int),
    (∀ a ∈ as, a ≤ n) →
    (∀ r rs, routes as = r :: rs → (r.map dem).sum + used ≤ cap ∧ ∀ r' ∈ rs, (r'.map dem).sum ≤ cap) →
    checkC1 cap dem used as = true := by
  intro as
  induction as with
  | nil => intros; rfl
  | cons a as ih =>
    intro used hrange hroutes
    obtain ⟨r1, rs1, h1⟩ := routes_cons_exists as
    have hrange' : ∀ b ∈ as, b ≤ n := fun b hb => hrange b (List.mem_cons_of_mem _ hb)
    simp only [checkC1_cons, Params.mtvrpCheckCapCmp, Cmp.eval, Bool.and_eq_true, decide_eq_true_eq]
    by_cases h0 : a = 0
    · subst h0
      have hr := hroutes [] (r1 :: rs1) (by simp [routes, h1])
      simp only [ne_eq, not_true_eq_false, if_false, hd0, Int.add_zero]
      refine ⟨hcap, ih 0 hrange' ?_⟩
      intro r rs hrs
      rw [h1] at hrs
      simp only [List.cons.injEq] at hrs
      obtain ⟨e1, e2⟩ := hrs; subst e1 e2
      exact ⟨by have := hr.2 r1 (by simp); omega, fun r' hr' => hr.2 r' (List.mem_cons_of_mem _ hr')⟩
    · have hr := hroutes (a :: r1) rs1 (by simp [routes, h0, h1])
      simp only [ne_eq, h0, not_false_eq_true, if_true]
      have hs := hr.1
      simp only [List.map_cons, List.sum_cons] at hs
      have hnn1 : 0 ≤ (r1.map dem).sum := sum_map_nonneg (fun k hk =>
        hnn k (hrange' k (mem_of_mem_routes as r1 (by rw [h1]; simp) k hk)))
      refine ⟨by omega, ih _ hrange' ?_⟩
      intro r rs hrs
      rw [h1] at hrs
      simp only [List.cons.injEq] at hrs
      obtain ⟨e1, e2⟩ := hrs; subst e1 e2
      exact ⟨by omega, hr.2⟩

end Rl4co.Mtvrp
