/-
Obligation tying the hard-coded comparison operators of the FFSP model (`Rl4co/Env/Ffsp.lean`) to the
operators `harness/probes/ffsp.py` extracts from the current source of
`rl4co/envs/scheduling/ffsp/env.py` on every run (`Rl4co/Generated/Params.lean`).  A source edit that
flips one of them makes this file — and everything that imports it — fail to compile; the check then
reports the broken tie and searches the real code for a failing input.  (Further extracted values enter
the model itself: the schedule sentinel `UNSET`, the key `_step` reads the machine index from
(`bookMachine`), the `pomo_idx` operator (`pomoIdx`), the job-column bound of the makespan (`rewardCols`),
the initial wait bit of the mask, and the generator defaults (`default_gen_wf`).)  No Mathlib.
-/
import Rl4co.Generated.Params
namespace Rl4co.Ffsp

/-- `ready` / `jobReady` / `advance` / `updateMask` / `allAtEnd` use `== 0`, `== 0`, `== MT`,
(`== 0`, `> 0`), (`== stage`, `< stage`), `== S` respectively. -/
theorem params_match :
    Params.ffspMachineReadyCmp = .eq ∧ Params.ffspJobReadyWaitCmp = .eq ∧ Params.ffspWrapCmp = .eq ∧
    Params.ffspMaskWaitCmps = [.eq, .gt] ∧ Params.ffspMaskStageCmps = [.eq, .lt] ∧
    Params.ffspDoneCmp = .eq ∧
    -- `job_location += 1`, `sub_time_idx + 1`, `machine_wait_steps -= 1`, `job_wait_steps -= 1`
    Params.ffspStepConsts = [1, 1, 1, 1] ∧
    -- M·S machines, stage table `arange(S).repeat_interleave(M)`, `wait_allowed = prev + waiting + done`,
    -- done rows not selected by the loop, `time += wrap`, `sub := 0` on wrap
    Params.ffspShapeFlags = [true, true, true, true, true, true] ∧
    Params.ffspInitWaitMasked = true ∧ Params.ffspGenLowHigh = true ∧
    -- `end_schedule = schedule + job_duration.permute(0,2,1)`, two `max(dim=-1)`, `reward = -max`
    Params.ffspRewardShape = [true, true, true] := by decide

end Rl4co.Ffsp
