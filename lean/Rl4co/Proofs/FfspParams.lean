/-
Obligation tying the hard-coded comparison operators of the FFSP model (`Rl4co/Env/Ffsp.lean`) to the
operators `harness/probes/ffsp.py` extracts from the current source of
`rl4co/envs/scheduling/ffsp/env.py` on every run (`Rl4co/Generated/Params.lean`).  A source edit that
flips one of them makes this file — and everything that imports it — fail to compile; the check then
reports the broken tie and searches the real code for a failing input.  No Mathlib.
-/
import Rl4co.Generated.Params
namespace Rl4co.Ffsp

/-- `ready` / `jobReady` / `advance` / `updateMask` / `allAtEnd` use `== 0`, `== 0`, `== MT`,
(`== 0`, `> 0`), (`== stage`, `< stage`), `== S` respectively. -/
theorem params_match :
    Params.ffspMachineReadyCmp = .eq ∧ Params.ffspJobReadyWaitCmp = .eq ∧ Params.ffspWrapCmp = .eq ∧
    Params.ffspMaskWaitCmps = [.eq, .gt] ∧ Params.ffspMaskStageCmps = [.eq, .lt] ∧
    Params.ffspDoneCmp = .eq := by decide

end Rl4co.Ffsp
