/-
What property C10 demands of a per-step action distribution, written from the property text (not from
the code): a row of `n` actions, a feasibility mask, a score per action (the logit that enters the
masked softmax; only its order matters), the emitted distribution `p` and its support `kept`
(`kept j` ⇔ the emitted log-probability is finite).  `tol` is `0` in the theorems about the model; the
driver evaluates the same (decidable) predicates on the outcomes of the real code, in integer ticks,
with the float32 tolerance.  No Mathlib.
-/
import Rl4co.Core.Basic
import Rl4co.Decode.ProcessLogits
namespace Rl4co.Spec.Decode
open Rl4co.Decode (sumN)

variable {K : Type} [Add K] [Sub K] [OfNat K 0] [OfNat K 1] [LT K] [LE K] [DecidableLT K] [DecidableLE K]
  [DecidableEq K]

/-- a normalised probability vector -/
def IsDist (n : Nat) (p : Nat → K) (tol : K) : Prop :=
  (∀ j, j < n → 0 ≤ p j) ∧ 1 - tol ≤ sumN n p ∧ sumN n p ≤ 1 + tol

/-- zero probability (and no support) on masked actions -/
def MaskedZero (n : Nat) (mask : Nat → Bool) (p : Nat → K) (kept : Nat → Bool) : Prop :=
  ∀ j, j < n → mask j = false → p j = 0 ∧ kept j = false

/-- a most likely feasible action (a feasible action of maximal score) is in the support -/
def ArgmaxKept (n : Nat) (mask : Nat → Bool) (score : Nat → K) (kept : Nat → Bool) : Prop :=
  ∃ j, j < n ∧ mask j = true ∧ (∀ i, i < n → mask i = true → score i ≤ score j) ∧ kept j = true

/-- top-k keeps no more than `k` actions, ties aside: the kept actions scoring strictly above the
lowest kept score number fewer than `k` (so `#kept ≤ k - 1 + #{ties at the lowest kept score}`) -/
def TopkCard (n k : Nat) (score : Nat → K) (kept : Nat → Bool) : Prop :=
  k = 0 ∨ ∀ j0, j0 < n → kept j0 = true → (∀ j, j < n → kept j = true → score j0 ≤ score j) →
    cnt n (fun j => kept j && decide (score j0 < score j)) < k

/-- no more feasible actions than `k`: the top-k filter removes nothing feasible -/
def TopkGeFeasible (n k : Nat) (mask kept : Nat → Bool) : Prop :=
  cnt n mask ≤ k → ∀ j, j < n → mask j = true → kept j = true

/-- the support carries at least mass `p` of the distribution `q` that entered the top-p filter -/
def ToppMass (n : Nat) (q : Nat → K) (kept : Nat → Bool) (p tol : K) : Prop :=
  p ≤ sumN n (fun j => if kept j then q j else 0) + tol

/-- top-p keeps nothing superfluous, ties aside: the actions strictly more likely (under the distribution
`q` that entered the filter) than a kept action carry less than mass `p` — an action is in the nucleus only
if the strictly more likely ones do not already reach `p` -/
def ToppTight (n : Nat) (q : Nat → K) (kept : Nat → Bool) (p tol : K) : Prop :=
  ∀ j, j < n → kept j = true → sumN n (fun i => if q j < q i then q i else 0) < p + tol

/-- two distributions agree (used for: adding a constant to all logits changes nothing) -/
def Close (n : Nat) (p p' : Nat → K) (tol : K) : Prop :=
  ∀ j, j < n → p j ≤ p' j + tol ∧ p' j ≤ p j + tol

/-- greedy returns a feasible maximiser of the distribution -/
def GreedyOk (n : Nat) (mask : Nat → Bool) (p : Nat → K) (a : Nat) : Prop :=
  a < n ∧ mask a = true ∧ ∀ j, j < n → p j ≤ p a

/-- sampling returns a feasible action of positive probability (in the support) -/
def SampleOk (n : Nat) (mask kept : Nat → Bool) (a : Nat) : Prop :=
  a < n ∧ mask a = true ∧ kept a = true

instance (n : Nat) (p : Nat → K) (tol : K) : Decidable (IsDist n p tol) := by
  unfold IsDist; infer_instance
instance (n : Nat) (mask : Nat → Bool) (p : Nat → K) (kept : Nat → Bool) :
    Decidable (MaskedZero n mask p kept) := by unfold MaskedZero; infer_instance
instance (n : Nat) (mask : Nat → Bool) (score : Nat → K) (kept : Nat → Bool) :
    Decidable (ArgmaxKept n mask score kept) := by unfold ArgmaxKept; infer_instance
instance (n k : Nat) (score : Nat → K) (kept : Nat → Bool) : Decidable (TopkCard n k score kept) := by
  unfold TopkCard; infer_instance
instance (n k : Nat) (mask kept : Nat → Bool) : Decidable (TopkGeFeasible n k mask kept) := by
  unfold TopkGeFeasible; infer_instance
instance (n : Nat) (q : Nat → K) (kept : Nat → Bool) (p tol : K) : Decidable (ToppMass n q kept p tol) := by
  unfold ToppMass; infer_instance
instance (n : Nat) (q : Nat → K) (kept : Nat → Bool) (p tol : K) : Decidable (ToppTight n q kept p tol) := by
  unfold ToppTight; infer_instance
instance (n : Nat) (p p' : Nat → K) (tol : K) : Decidable (Close n p p' tol) := by
  unfold Close; infer_instance
instance (n : Nat) (mask : Nat → Bool) (p : Nat → K) (a : Nat) : Decidable (GreedyOk n mask p a) := by
  unfold GreedyOk; infer_instance
instance (n : Nat) (mask kept : Nat → Bool) (a : Nat) : Decidable (SampleOk n mask kept a) := by
  unfold SampleOk; infer_instance

end Rl4co.Spec.Decode
