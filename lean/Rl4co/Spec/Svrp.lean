/-
Independent definition of a feasible skill-VRP solution and of its objective.  A solution is the list
of visited nodes (0 = depot visit); the routes are the maximal depot-free segments, in order; route
number k (0-based, empty routes count: a technician sent out and straight back) is driven by
technician k.  Feasible: every customer exactly once; every non-empty route k has a technician
(k < T) whose level covers the required skill of each of its customers.  Objective: Σ_k cost_k ·
(closed length of route k).  No Mathlib.
-/
import Rl4co.Core.Tour
import Rl4co.Env.Svrp
namespace Rl4co.Spec.Svrp
open Rl4co.Svrp (Inst)

/-- route `r` may be driven by technician `k` -/
def routeOk (i : Inst) (k : Nat) (r : List Nat) : Bool :=
  r.isEmpty || (decide (k < i.T) && r.all (fun j => decide (i.skills j ≤ i.techs k)))

/-- routes `rs` are driven by technicians `k, k+1, …` -/
def routesOk (i : Inst) : Nat → List (List Nat) → Bool
  | _, [] => true
  | k, r :: rs => routeOk i k r && routesOk i (k + 1) rs

structure Feasible (i : Inst) (as : List Nat) : Prop where
  range : ∀ a ∈ as, a ≤ i.n
  once  : ∀ j, 1 ≤ j → j ≤ i.n → as.count j = 1
  skill : routesOk i 0 (routes as) = true

def feasible (i : Inst) (as : List Nat) : Bool :=
  as.all (fun a => decide (a ≤ i.n)) &&
  (List.range i.n).all (fun k => as.count (k + 1) == 1) &&
  routesOk i 0 (routes as)

theorem feasible_iff (i : Inst) (as : List Nat) : feasible i as = true ↔ Feasible i as := by
  simp only [feasible, Bool.and_eq_true, List.all_eq_true, decide_eq_true_eq, List.mem_range,
    beq_iff_eq]
  constructor
  · rintro ⟨⟨h1, h2⟩, h3⟩
    refine ⟨h1, ?_, h3⟩
    intro j hj1 hj2
    have := h2 (j - 1) (by omega)
    rwa [Nat.sub_add_cancel hj1] at this
  · rintro ⟨h1, h2, h3⟩
    exact ⟨⟨h1, fun k hk => h2 (k + 1) (by omega) (by omega)⟩, h3⟩

/-- feasible when the last (open) route is disregarded: what a test of the depot-closed segments can see -/
def feasibleClosed (i : Inst) (as : List Nat) : Bool :=
  as.all (fun a => decide (a ≤ i.n)) &&
  (List.range i.n).all (fun k => as.count (k + 1) == 1) &&
  routesOk i 0 (routes as).dropLast

/-- executable form of the documented pruning (cf. `Rl4co.Svrp.Canonical`): technician `k` is sent home
without a customer (`atDepot` and the next action is the depot) only if he can serve none of the
customers still to come -/
def canonFromB (i : Inst) : Nat → Bool → List Nat → Bool
  | _, _, [] => true
  | k, atDepot, a :: as =>
    (!(a == 0 && atDepot) || as.all (fun j => j == 0 || !decide (i.skills j ≤ i.techs k))) &&
    canonFromB i (if a = 0 then k + 1 else k) (a == 0) as

def canonical (i : Inst) (as : List Nat) : Bool := canonFromB i 0 true as && as.contains 0

/-- cost-weighted length of routes driven by technicians `k, k+1, …` -/
def weighted (i : Inst) : Nat → List (List Nat) → Int
  | _, [] => 0
  | k, r :: rs => i.costs k * routeLen i.D r + weighted i (k + 1) rs

/-- Objective: every route's closed length times the cost factor of its technician. -/
def objective (i : Inst) (as : List Nat) : Int := weighted i 0 (routes as)

end Rl4co.Spec.Svrp
