/-
Independent definition of a feasible mTSP solution and of its two objectives, written from the
problem statement (not from the environment code).  A solution is the list of visited nodes
(0 = a visit of the depot); tours are the maximal depot-free segments, empty segments (an agent that
is not employed, padding visits of the depot) are not tours.  No Mathlib.
-/
import Rl4co.Core.Tour
import Rl4co.Env.Mtsp
namespace Rl4co.Spec.Mtsp
open Rl4co.Mtsp (Inst)

/-- the non-empty tours of a solution -/
def tours (as : List Nat) : List (List Nat) := (routes as).filter (fun r => !r.isEmpty)

/-- Feasible: all nodes in range, every customer exactly once, at most `m` (non-empty) tours. -/
structure Feasible (i : Inst) (as : List Nat) : Prop where
  range  : ∀ a ∈ as, a ≤ i.n
  once   : ∀ j, 1 ≤ j → j ≤ i.n → as.count j = 1
  agents : (tours as).length ≤ i.m

/-- executable version used as the run-time oracle -/
def feasible (i : Inst) (as : List Nat) : Bool :=
  as.all (fun a => decide (a ≤ i.n)) &&
  (List.range i.n).all (fun k => as.count (k + 1) == 1) &&
  decide ((tours as).length ≤ i.m)

theorem feasible_iff (i : Inst) (as : List Nat) : feasible i as = true ↔ Feasible i as := by
  simp only [feasible, Bool.and_eq_true, List.all_eq_true, decide_eq_true_eq, List.mem_range,
    beq_iff_eq]
  constructor
  · rintro ⟨⟨h1, h2⟩, h3⟩
    refine ⟨h1, ?_, h3⟩
    intro j hj1 hj2
    have := h2 (j - 1) (by omega)
    rwa [Nat.sub_add_cancel hj1] at this
  · rintro ⟨h1, h2, h3⟩
    exact ⟨⟨h1, fun k hk => h2 (k + 1) (by omega) (by omega)⟩, h3⟩

/-- maximum of a list of lengths (0 for the empty list; lengths are non-negative) -/
def maxList : List Int → Int
  | [] => 0
  | x :: xs => max x (maxList xs)

/-- `minmax` objective: the longest tour, each driven depot → customers → depot. -/
def objMinmax (i : Inst) (as : List Nat) : Int := maxList ((routes as).map (routeLen i.D))

/-- `sum` objective: total length of all tours. -/
def objSum (i : Inst) (as : List Nat) : Int := routesLen i.D as

end Rl4co.Spec.Mtsp
