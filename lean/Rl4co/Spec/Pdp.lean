/-
Independent definition of a feasible PDP solution: `h` pickup/delivery pairs, pickup `p ∈ 1..h`,
its delivery `p + h`; the vehicle starts and ends at the depot 0, visits every pickup and delivery
exactly once and every pickup before its delivery.  A solution is the sequence of customers
(without the depot); with `force_start_at_depot` the action list additionally starts with the depot.
No Mathlib.
-/
import Rl4co.Core.Tour
namespace Rl4co.Spec.Pdp

structure Feasible (h : Nat) (as : List Nat) : Prop where
  range : ∀ a ∈ as, 1 ≤ a ∧ a ≤ 2 * h
  once  : ∀ j, 1 ≤ j → j ≤ 2 * h → as.count j = 1
  prec  : ∀ p, 1 ≤ p → p ≤ h → as.idxOf p < as.idxOf (p + h)

def feasible (h : Nat) (as : List Nat) : Bool :=
  as.all (fun a => decide (1 ≤ a ∧ a ≤ 2 * h)) &&
  (List.range (2 * h)).all (fun k => as.count (k + 1) == 1) &&
  (List.range h).all (fun k => decide (as.idxOf (k + 1) < as.idxOf (k + 1 + h)))

theorem feasible_iff (h : Nat) (as : List Nat) : feasible h as = true ↔ Feasible h as := by
  simp only [feasible, Bool.and_eq_true, List.all_eq_true, decide_eq_true_eq, List.mem_range,
    beq_iff_eq]
  constructor
  · rintro ⟨⟨h1, h2⟩, h3⟩
    refine ⟨h1, ?_, ?_⟩
    · intro j hj1 hj2
      have := h2 (j - 1) (by omega)
      rwa [Nat.sub_add_cancel hj1] at this
    · intro p hp1 hp2
      have := h3 (p - 1) (by omega)
      rwa [Nat.sub_add_cancel hp1] at this
  · rintro ⟨h1, h2, h3⟩
    exact ⟨⟨h1, fun k hk => h2 (k + 1) (by omega) (by omega)⟩,
      fun k hk => h3 (k + 1) (by omega) (by omega)⟩

/-- action list under `force_start_at_depot`: the depot, then a feasible customer sequence -/
def FeasibleF (h : Nat) (as : List Nat) : Prop := ∃ cs, as = 0 :: cs ∧ Feasible h cs

def feasibleF (h : Nat) (as : List Nat) : Bool :=
  match as with
  | [] => false
  | a :: cs => a == 0 && feasible h cs

theorem feasibleF_iff (h : Nat) (as : List Nat) : feasibleF h as = true ↔ FeasibleF h as := by
  cases as with
  | nil => simp [feasibleF, FeasibleF]
  | cons a cs =>
    simp only [feasibleF, FeasibleF, Bool.and_eq_true, beq_iff_eq, feasible_iff, List.cons.injEq]
    constructor
    · rintro ⟨h1, h2⟩; exact ⟨cs, ⟨h1, rfl⟩, h2⟩
    · rintro ⟨cs', ⟨h1, h2⟩, h3⟩; subst h2; exact ⟨h1, h3⟩

/-- a closed depot tour written with one explicit depot visit, at the start or at the end
(`0 → cs → 0` is the same closed walk either way) -/
def FeasibleTour (h : Nat) (as : List Nat) : Prop :=
  ∃ cs, (as = 0 :: cs ∨ as = cs ++ [0]) ∧ Feasible h cs

def feasibleTour (h : Nat) (as : List Nat) : Bool :=
  feasibleF h as || (decide (as ≠ []) && as.getLast? == some 0 && feasible h as.dropLast)

theorem feasibleTour_iff (h : Nat) (as : List Nat) : feasibleTour h as = true ↔ FeasibleTour h as := by
  simp only [feasibleTour, FeasibleTour, Bool.or_eq_true, Bool.and_eq_true, decide_eq_true_eq,
    feasibleF_iff, feasible_iff, beq_iff_eq]
  constructor
  · rintro (⟨cs, rfl, hf⟩ | ⟨⟨_, hl⟩, hf⟩)
    · exact ⟨cs, Or.inl rfl, hf⟩
    · obtain ⟨ys, rfl⟩ := List.getLast?_eq_some_iff.mp hl
      rw [List.dropLast_concat] at hf
      exact ⟨ys, Or.inr rfl, hf⟩
  · rintro ⟨cs, (rfl | rfl), hf⟩
    · exact Or.inl ⟨cs, rfl, hf⟩
    · refine Or.inr ⟨⟨by simp, by simp⟩, ?_⟩
      rw [List.dropLast_concat]; exact hf

/-- Objective: closed walk depot → customers in order → depot (depot visits inside the action list
are the depot itself and cost nothing extra when `D 0 0 = 0`). -/
def objective (D : Nat → Nat → Int) (as : List Nat) : Int :=
  closedLen D (0 :: as.filter (fun a => a != 0))

end Rl4co.Spec.Pdp
