/-
Independent definition of a feasible facility-location solution and of its objective, written from
the problem statement: choose exactly `quota` distinct locations; the objective is the sum over all
locations of the distance from the nearest chosen facility.  No Mathlib.
-/
import Rl4co.Env.Flp
namespace Rl4co.Spec.Flp
open Rl4co.Flp (Inst)

/-- distance of location `j` from the nearest facility of the selection `as` (in selection order) -/
def nearest (i : Inst) (as : List Nat) (j : Nat) : Int := minList (as.map (fun c => i.D c j))

/-- summed nearest-facility distance -/
def objective (i : Inst) (as : List Nat) : Int := sumRange i.n (nearest i as)

/-- exactly the quota of distinct locations -/
structure Feasible (i : Inst) (as : List Nat) : Prop where
  len   : (as.length : Int) = i.quota
  nodup : as.Nodup
  range : ∀ a ∈ as, a < i.n

/-- executable version used as the run-time oracle -/
def feasible (i : Inst) (as : List Nat) : Bool :=
  decide ((as.length : Int) = i.quota) && decide as.Nodup && as.all (fun a => decide (a < i.n))

theorem feasible_iff (i : Inst) (as : List Nat) : feasible i as = true ↔ Feasible i as := by
  simp only [feasible, Bool.and_eq_true, decide_eq_true_eq, List.all_eq_true]
  constructor
  · rintro ⟨⟨h1, h2⟩, h3⟩; exact ⟨h1, h2, h3⟩
  · rintro ⟨h1, h2, h3⟩; exact ⟨⟨h1, h2⟩, h3⟩

end Rl4co.Spec.Flp
