/-
Independent definition of a feasible split-delivery (SDVRP) solution.  A solution of the library is a
list of visited nodes (0 = depot visit); customers may be visited several times.  It is FEASIBLE iff
there EXIST amounts handed over at the visits — non-negative, nothing at the depot — such that the
amounts handed over between two consecutive depot visits (one vehicle load) sum to at most the
capacity and every customer receives exactly its demand in total.  The library fixes the amounts
greedily ("deliver as much as possible"); `greedy` replays that rule and is used as the executable
witness generator (`feasible_of_greedy`: a successful greedy replay is a valid witness).  No Mathlib.
-/
import Rl4co.Core.Basic
import Rl4co.Core.Tour
import Rl4co.Env.Sdvrp
namespace Rl4co.Spec.Sdvrp
open Rl4co.Sdvrp (Inst)

/-- total amount handed to customer `j` -/
def deliveredTo (j : Nat) : List (Nat × Int) → Int
  | [] => 0
  | (a, q) :: r => (if a = j then q else 0) + deliveredTo j r

/-- amounts per vehicle load: split at depot visits (same splitting as `routes`) -/
def loads : List (Nat × Int) → List (List Int)
  | [] => [[]]
  | (a, q) :: r =>
    if a = 0 then [] :: loads r
    else match loads r with
      | [] => [[q]]
      | x :: xs => (q :: x) :: xs

structure ValidSplit (i : Inst) (zs : List (Nat × Int)) : Prop where
  range  : ∀ z ∈ zs, z.1 ≤ i.n
  nonneg : ∀ z ∈ zs, 0 ≤ z.2
  depot  : ∀ z ∈ zs, z.1 = 0 → z.2 = 0
  load   : ∀ l ∈ loads zs, l.sum ≤ i.cap
  served : ∀ j, 1 ≤ j → j ≤ i.n → deliveredTo j zs = i.demand j

/-- **the specification**: some assignment of amounts to the visits is a valid split -/
def Feasible (i : Inst) (as : List Nat) : Prop :=
  ∃ qs : List Int, qs.length = as.length ∧ ValidSplit i (as.zip qs)

/-- executable check of an explicitly given split -/
def validSplit (i : Inst) (zs : List (Nat × Int)) : Bool :=
  zs.all (fun z => decide (z.1 ≤ i.n) && decide (0 ≤ z.2) && (z.1 != 0 || z.2 == 0)) &&
  (loads zs).all (fun l => decide (l.sum ≤ i.cap)) &&
  (List.range i.n).all (fun k => deliveredTo (k + 1) zs == i.demand (k + 1))

theorem validSplit_iff (i : Inst) (zs : List (Nat × Int)) : validSplit i zs = true ↔ ValidSplit i zs := by
  simp only [validSplit, Bool.and_eq_true, List.all_eq_true, decide_eq_true_eq, List.mem_range,
    beq_iff_eq, Bool.or_eq_true, bne_iff_ne, ne_eq]
  constructor
  · rintro ⟨⟨h1, h2⟩, h3⟩
    refine ⟨fun z hz => (h1 z hz).1.1, fun z hz => (h1 z hz).1.2, ?_, h2, ?_⟩
    · intro z hz h0
      rcases (h1 z hz).2 with h | h
      · exact absurd h0 h
      · exact h
    · intro j hj1 hj2
      have := h3 (j - 1) (by omega)
      rwa [Nat.sub_add_cancel hj1] at this
  · rintro ⟨h1, h2, h3, h4, h5⟩
    refine ⟨⟨fun z hz => ⟨⟨h1 z hz, h2 z hz⟩, ?_⟩, h4⟩, fun k hk => h5 (k + 1) (by omega) (by omega)⟩
    by_cases h0 : z.1 = 0
    · exact Or.inr (h3 z hz h0)
    · exact Or.inl h0

/-- the library's rule: at every customer visit hand over as much as possible -/
def greedy (i : Inst) : (Nat → Int) → Int → List Nat → List Int
  | _, _, [] => []
  | rem, used, a :: as =>
    if a = 0 then 0 :: greedy i rem 0 as
    else
      let q := min (rem a) (i.cap - used)
      q :: greedy i (upd rem a (rem a - q)) (used + q) as

theorem greedy_length (i : Inst) (as : List Nat) : ∀ rem used, (greedy i rem used as).length = as.length := by
  induction as with
  | nil => intro _ _; rfl
  | cons a as ih =>
    intro rem used
    simp only [greedy]
    split <;> simp [ih]

/-- the greedy split of an action list -/
def greedySplit (i : Inst) (as : List Nat) : List (Nat × Int) := as.zip (greedy i i.demand 0 as)

/-- executable oracle: the greedy replay is a valid split -/
def greedyFeasible (i : Inst) (as : List Nat) : Bool := validSplit i (greedySplit i as)

/-- a successful greedy replay is a witness of feasibility -/
theorem feasible_of_greedy (i : Inst) (as : List Nat) (h : greedyFeasible i as = true) : Feasible i as :=
  ⟨greedy i i.demand 0 as, greedy_length i as _ _, (validSplit_iff i _).1 h⟩

/-- executable oracle for an explicitly supplied witness -/
theorem feasible_of_witness (i : Inst) (as : List Nat) (qs : List Int) (hl : qs.length = as.length)
    (h : validSplit i (as.zip qs) = true) : Feasible i as :=
  ⟨qs, hl, (validSplit_iff i _).1 h⟩

/-- no two consecutive depot visits -/
def noDoubleDepot : List Nat → Bool
  | [] => true
  | [_] => true
  | a :: b :: r => !(a == 0 && b == 0) && noDoubleDepot (b :: r)

/-- the documented pruning: the tour does not start with a depot visit, never stays at the depot twice
in a row, and every customer visit hands over a positive amount (under the greedy rule) -/
def canonical (i : Inst) (as : List Nat) : Bool :=
  (as.head? != some 0) && noDoubleDepot as &&
  (greedySplit i as).all (fun z => z.1 == 0 || decide (0 < z.2))

/-- Objective: total length of all routes, each driven depot → customers → depot. -/
def objective (i : Inst) (as : List Nat) : Int := routesLen i.D as

end Rl4co.Spec.Sdvrp
