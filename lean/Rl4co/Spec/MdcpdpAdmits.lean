/-
The Spec variant the MDCPDP code implements (`v0`) and the class of visit lists its mask admits
(`envAdmits`, `admitsAll`), both stated on the state of the Spec's own simulation.  That the real mask is
`envAdmits` is a theorem (`Rl4co.Mdcpdp.mask_eq_admits`, `run_iff_admitsAll`); the driver evaluates
`admitsAll` as an oracle next to the model's mask.  No Mathlib.
-/
import Rl4co.Spec.Mdcpdp
namespace Rl4co.Spec.Mdcpdp

/-- the Spec with exactly the four clauses switched off that the known defects of the code break
(return to the own depot, own capacity, per-vehicle lengths / clock, charge of the last way home) -/
def v0 : Variant := { home := false, ownCap := false, perVehicle := false, chargeLast := false }

/-- every depot's vehicle has been started and every customer served -/
def allDone (p : Problem) (σ : Sim) : Bool :=
  (List.range p.K).all (fun d => decide (d ∈ σ.opened)) &&
  (List.range (2 * p.h)).all (fun k => decide (p.K + k ∈ σ.served))
/-- some depot's vehicle has not been started yet -/
def depLeft (p : Problem) (σ : Sim) : Bool := (List.range p.K).any (fun d => decide (d ∉ σ.opened))

/-- **The visits the mask offers**, read off the state of the Spec simulation (under `v0`, i.e. with the
capacity of depot 0 for every vehicle):
* a depot whose vehicle has not started: when no vehicle is out — and the very first visit is depot 0;
* node 0 as the way home: when a vehicle is out, empty, and some depot is left — or when all is done;
* a customer: when a vehicle is out, the customer is unserved, and a pickup fits / a delivery is on board.
Compared with what the simulation accepts this prunes: returning to a depot other than node 0 (defect
`current_depot`), returning when no depot is left, and waiting at the depot before all is done. -/
def envAdmits (p : Problem) (σ : Sim) (a : Nat) : Bool :=
  if a < p.K then
    (decide (a ∉ σ.opened) && σ.veh.isNone && σ.onboard.isEmpty && (!σ.opened.isEmpty || decide (a = 0))) ||
    (decide (a = 0) && ((σ.veh.isSome && σ.onboard.isEmpty && depLeft p σ) || allDone p σ))
  else
    σ.veh.isSome && decide (a ∉ σ.served) &&
      (if a < p.K + p.h then decide ((σ.onboard.length : Int) + 1 ≤ p.cap 0) else decide ((a - p.h) ∈ σ.onboard))

/-- every visit of the list is offered (`envAdmits`) in the simulation state reached so far -/
def admitsAll (p : Problem) : Sim → List Nat → Bool
  | _, [] => true
  | σ, a :: as => decide (a < p.N) && envAdmits p σ a && admitsAll p (simStep p v0 σ a) as

/-! ### the intended `current_depot` rule -/

/-- the Spec as stated, except that the vehicle still out at the end is not charged its way home -/
def v1 : Variant := { chargeLast := false }

/-- capacity of the running vehicle -/
def vehCap (p : Problem) (σ : Sim) : Int :=
  match σ.veh with
  | some d => p.cap d
  | none => 0

/-- the visits the mask offers under the intended `current_depot` rule: as `envAdmits`, but the way home is the vehicle's
OWN depot and a pickup must fit the vehicle's OWN capacity -/
def envAdmitsX (p : Problem) (σ : Sim) (a : Nat) : Bool :=
  if a < p.K then
    (decide (a ∉ σ.opened) && σ.veh.isNone && σ.onboard.isEmpty && (!σ.opened.isEmpty || decide (a = 0))) ||
    (σ.veh == some a && σ.onboard.isEmpty && depLeft p σ) ||
    (allDone p σ && (σ.veh == some a || (σ.veh.isNone && decide (a = σ.pos))))
  else
    σ.veh.isSome && decide (a ∉ σ.served) &&
      (if a < p.K + p.h then decide ((σ.onboard.length : Int) + 1 ≤ vehCap p σ) else decide ((a - p.h) ∈ σ.onboard))

def admitsAllX (p : Problem) : Sim → List Nat → Bool
  | _, [] => true
  | σ, a :: as => decide (a < p.N) && envAdmitsX p σ a && admitsAllX p (simStep p v1 σ a) as

end Rl4co.Spec.Mdcpdp
