/-
Independent definition of a valid flexible-flow-shop schedule and of its makespan, written from the
problem statement (not from the environment code).  A schedule is a list of operations
`(job, machine, start)`; machine `m` belongs to stage `m / M`; processing `job` on `machine` takes
`dur job machine` time units.  No Mathlib.
-/
import Rl4co.Env.Ffsp
namespace Rl4co.Spec.Ffsp
open Rl4co.Ffsp (Inst MT)

structure Op where
  job     : Nat
  machine : Nat
  start   : Int
  deriving DecidableEq, Repr

def Op.stage (i : Inst) (o : Op) : Nat := o.machine / i.M
def Op.fin (i : Inst) (o : Op) : Int := o.start + (i.dur o.job o.machine : Int)

/-- number of operations of job `j` processed in stage `k` -/
def opsAt (i : Inst) (ops : List Op) (j k : Nat) : Nat :=
  (ops.filter (fun o => o.job == j && o.stage i == k)).length

/-- Valid schedule:
* every operation concerns a real job, a real machine and starts at a time ≥ 0;
* every job passes every stage exactly once (on a machine of that stage, for its duration there —
  the interval of `o` is `[o.start, o.start + dur o.job o.machine)`);
* the stages of a job run in order without overlapping;
* no machine processes two operations at the same time. -/
structure Valid (i : Inst) (ops : List Op) : Prop where
  range   : ∀ o ∈ ops, o.job < i.J ∧ o.machine < MT i ∧ 0 ≤ o.start
  once    : ∀ j, j < i.J → ∀ k, k < i.S → opsAt i ops j k = 1
  order   : ∀ o ∈ ops, ∀ o' ∈ ops, o.job = o'.job → o.stage i < o'.stage i → o.fin i ≤ o'.start
  machine : ∀ o ∈ ops, ∀ o' ∈ ops, o ≠ o' → o.machine = o'.machine →
              o.fin i ≤ o'.start ∨ o'.fin i ≤ o.start

/-- executable version used as the run-time oracle -/
def valid (i : Inst) (ops : List Op) : Bool :=
  ops.all (fun o => decide (o.job < i.J) && decide (o.machine < MT i) && decide (0 ≤ o.start)) &&
  (List.range i.J).all (fun j => (List.range i.S).all (fun k => opsAt i ops j k == 1)) &&
  ops.all (fun o => ops.all (fun o' =>
    !(decide (o.job = o'.job) && decide (o.stage i < o'.stage i)) || decide (o.fin i ≤ o'.start))) &&
  ops.all (fun o => ops.all (fun o' =>
    !(decide (o ≠ o') && decide (o.machine = o'.machine)) ||
      (decide (o.fin i ≤ o'.start) || decide (o'.fin i ≤ o.start))))

theorem valid_iff (i : Inst) (ops : List Op) : valid i ops = true ↔ Valid i ops := by
  simp only [valid, Bool.and_eq_true, List.all_eq_true, decide_eq_true_eq, List.mem_range,
    beq_iff_eq, Bool.or_eq_true, Bool.not_eq_true', Bool.and_eq_false_iff, decide_eq_false_iff_not]
  constructor
  · rintro ⟨⟨⟨h1, h2⟩, h3⟩, h4⟩
    refine ⟨fun o ho => ⟨(h1 o ho).1.1, (h1 o ho).1.2, (h1 o ho).2⟩, fun j hj k hk => h2 j hj k hk, ?_, ?_⟩
    · intro o ho o' ho' hj hs
      rcases h3 o ho o' ho' with h | h
      · rcases h with h | h
        · exact absurd hj h
        · exact absurd hs h
      · exact h
    · intro o ho o' ho' hne hm
      rcases h4 o ho o' ho' with h | h
      · rcases h with h | h
        · exact absurd hne h
        · exact absurd hm h
      · exact h
  · rintro ⟨h1, h2, h3, h4⟩
    refine ⟨⟨⟨fun o ho => ⟨⟨(h1 o ho).1, (h1 o ho).2.1⟩, (h1 o ho).2.2⟩, h2⟩, ?_⟩, ?_⟩
    · intro o ho o' ho'
      by_cases hj : o.job = o'.job
      · by_cases hs : o.stage i < o'.stage i
        · exact Or.inr (h3 o ho o' ho' hj hs)
        · exact Or.inl (Or.inr hs)
      · exact Or.inl (Or.inl hj)
    · intro o ho o' ho'
      by_cases hne : o ≠ o'
      · by_cases hm : o.machine = o'.machine
        · exact Or.inr (h4 o ho o' ho' hne hm)
        · exact Or.inl (Or.inr hm)
      · exact Or.inl (Or.inl hne)

/-- `v` is the makespan of a (non-empty) schedule: the latest completion time -/
def IsMakespan (i : Inst) (ops : List Op) (v : Int) : Prop :=
  (∃ o ∈ ops, o.fin i = v) ∧ ∀ o ∈ ops, o.fin i ≤ v

/-- executable makespan (0 for the empty schedule) -/
def makespan (i : Inst) : List Op → Int
  | [] => 0
  | [o] => o.fin i
  | o :: o' :: os => max (o.fin i) (makespan i (o' :: os))

theorem makespan_is (i : Inst) (ops : List Op) (h : ops ≠ []) : IsMakespan i ops (makespan i ops) := by
  induction ops with
  | nil => exact absurd rfl h
  | cons o os ih =>
    cases os with
    | nil =>
      refine ⟨⟨o, by simp, rfl⟩, ?_⟩
      intro o' ho'
      simp only [List.mem_singleton] at ho'
      subst ho'; exact Int.le_refl _
    | cons o' os =>
      have ih := ih (by simp)
      obtain ⟨⟨w, hw, hwv⟩, hall⟩ := ih
      simp only [makespan]
      constructor
      · by_cases hle : o.fin i ≤ makespan i (o' :: os)
        · exact ⟨w, List.mem_cons_of_mem _ hw, by rw [hwv]; omega⟩
        · exact ⟨o, by simp, by omega⟩
      · intro x hx
        rcases List.mem_cons.mp hx with hx | hx
        · subst hx; omega
        · have := hall x hx; omega

theorem isMakespan_unique (i : Inst) (ops : List Op) (v w : Int)
    (hv : IsMakespan i ops v) (hw : IsMakespan i ops w) : v = w := by
  obtain ⟨⟨o, ho, hov⟩, hv2⟩ := hv
  obtain ⟨⟨o', ho', hov'⟩, hw2⟩ := hw
  have := hv2 o' ho'
  have := hw2 o ho
  omega

end Rl4co.Spec.Ffsp

namespace Rl4co.Spec.Ffsp
open Rl4co.Ffsp (Inst MT UNSET)

/-- Reading of the environment's `schedule[m][j]` matrix (real jobs only) as a list of operations:
one operation per entry that differs from the "not scheduled" sentinel. -/
def ofMatrix (i : Inst) (sched : Nat → Nat → Int) : List Op :=
  (List.range (MT i)).flatMap (fun m =>
    ((List.range i.J).filter (fun j => sched m j != UNSET)).map (fun j => ⟨j, m, sched m j⟩))

end Rl4co.Spec.Ffsp

/-!
### The class of schedules the environment's decision rule can express

The environment sweeps, at every time `t`, over all machines stage by stage (within a stage in the
order given by `perm`).  At an idle machine for which some job is available it must start one of the
available jobs, unless (stage ≥ 1 and) some job has not yet completed the previous stage at time `t`;
only then it may leave the machine idle.  `expressible` states this declaratively about a schedule.
(Validated against exhaustive exploration of the real environment by the C05 unit; not every valid
schedule is expressible, and the optimum need not be.)
-/
namespace Rl4co.Spec.Ffsp
open Rl4co.Ffsp (Inst MT UNSET)

open Rl4co.Ffsp (machineOf)

/-- latest start time of the schedule -/
def horizon (ops : List Op) : Nat := (ops.map (fun o => o.start.toNat)).foldl max 0

/-- the operation `o` sits at a slot after `(t, sub)` of the sweep (time-major, then sweep index) -/
def SitsAfter (i : Inst) (t sub : Nat) (o : Op) : Prop :=
  (t : Int) < o.start ∨ (o.start = (t : Int) ∧ ∃ sub', sub' < MT i ∧ sub < sub' ∧ o.machine = machineOf i sub')

/-- no operation of machine `m` starts at or covers time `t` -/
def Idle (i : Inst) (ops : List Op) (m t : Nat) : Prop :=
  ∀ o, o ∈ ops → o.machine = m → ¬ (o.start = (t : Int) ∨ (o.start ≤ (t : Int) ∧ (t : Int) < o.fin i))

/-- when the sweep stands at slot `(t, sub)` (a machine of stage `sub / M`), job `j` has completed the
previous stage and has not yet started its operation of this stage -/
def Avail (i : Inst) (ops : List Op) (j t sub : Nat) : Prop :=
  (sub / i.M = 0 ∨ ∃ o, o ∈ ops ∧ o.job = j ∧ o.stage i + 1 = sub / i.M ∧ o.fin i ≤ (t : Int)) ∧
  (∃ o, o ∈ ops ∧ o.job = j ∧ o.stage i = sub / i.M ∧ SitsAfter i t sub o)

/-- leaving a stage-`k` machine idle at `t` is permitted: some job has not completed stage `k-1` by `t` -/
def SkipOK (i : Inst) (ops : List Op) (k t : Nat) : Prop :=
  1 ≤ k ∧ ∃ j, j < i.J ∧ ∀ o, o ∈ ops → o.job = j → o.stage i + 1 = k → (t : Int) < o.fin i

/-- **Expressible schedules**: whenever the sweep stands at an idle machine for which a job is available,
leaving it idle must have been permitted. -/
def Expressible (i : Inst) (ops : List Op) : Prop :=
  (∀ t, t ≤ horizon ops → ∀ sub, sub < MT i → Idle i ops (machineOf i sub) t →
    (∃ j, j < i.J ∧ Avail i ops j t sub) → SkipOK i ops (sub / i.M) t) ∧
  -- a machine is visited once per time unit (implied by validity when all durations are positive)
  (∀ o, o ∈ ops → ∀ o', o' ∈ ops → o ≠ o' → o.machine = o'.machine → o.start ≠ o'.start)

instance (i : Inst) (t sub : Nat) (o : Op) : Decidable (SitsAfter i t sub o) := by
  unfold SitsAfter; exact inferInstance
instance (i : Inst) (ops : List Op) (m t : Nat) : Decidable (Idle i ops m t) := by
  unfold Idle; exact inferInstance
instance (i : Inst) (ops : List Op) (j t sub : Nat) : Decidable (Avail i ops j t sub) := by
  unfold Avail; exact inferInstance
instance (i : Inst) (ops : List Op) (k t : Nat) : Decidable (SkipOK i ops k t) := by
  unfold SkipOK; exact inferInstance
instance (i : Inst) (ops : List Op) : Decidable (Expressible i ops) := by
  unfold Expressible; exact inferInstance

/-- job `j` has completed the stage before that of machine `m` by `t` and starts its operation of
`m`'s stage only later -/
def Waiting (i : Inst) (ops : List Op) (j m t : Nat) : Prop :=
  (m / i.M = 0 ∨ ∃ o, o ∈ ops ∧ o.job = j ∧ o.stage i + 1 = m / i.M ∧ o.fin i ≤ (t : Int)) ∧
  (∃ o, o ∈ ops ∧ o.job = j ∧ o.stage i = m / i.M ∧ (t : Int) < o.start)

instance (i : Inst) (ops : List Op) (j m t : Nat) : Decidable (Waiting i ops j m t) := by
  unfold Waiting; exact inferInstance

/-- **Non-delay schedules**: no machine stands idle at a time `t` at which a job that has completed the
previous stage is still waiting for its operation of the machine's stage (classical definition, no
reference to the sweep). -/
def NonDelay (i : Inst) (ops : List Op) : Prop :=
  ∀ t, t ≤ horizon ops → ∀ m, m < MT i → Idle i ops m t → ¬ ∃ j, j < i.J ∧ Waiting i ops j m t

/-- **Permutation schedules**: the jobs pass every stage in the same order. -/
def PermutationSchedule (i : Inst) (ops : List Op) : Prop :=
  ∀ o, o ∈ ops → ∀ o', o' ∈ ops → ∀ p, p ∈ ops → ∀ p', p' ∈ ops →
    o.job = p.job → o'.job = p'.job → o.stage i = o'.stage i → p.stage i = p'.stage i →
    o.start < o'.start → p.start ≤ p'.start

/-- non-delay *with the sweep's tie rule*: whenever the sweep stands at an idle machine, no job is
available there (in particular a job starting at the same time must start on the first idle machine of
the sweep) -/
def StrictNonDelay (i : Inst) (ops : List Op) : Prop :=
  ∀ t, t ≤ horizon ops → ∀ sub, sub < MT i → Idle i ops (machineOf i sub) t →
    ¬ ∃ j, j < i.J ∧ Avail i ops j t sub

instance (i : Inst) (ops : List Op) : Decidable (NonDelay i ops) := by
  unfold NonDelay; exact inferInstance
instance (i : Inst) (ops : List Op) : Decidable (PermutationSchedule i ops) := by
  unfold PermutationSchedule; exact inferInstance
instance (i : Inst) (ops : List Op) : Decidable (StrictNonDelay i ops) := by
  unfold StrictNonDelay; exact inferInstance

/-- executable version used as the run-time oracle (it *is* the decision of the definition) -/
def expressible (i : Inst) (ops : List Op) : Bool := decide (Expressible i ops)

theorem expressible_iff (i : Inst) (ops : List Op) : expressible i ops = true ↔ Expressible i ops := by
  simp [expressible]

/-- all assignments of a machine of the right stage and a start time `0..H` to every (job, stage) -/
def candidates (i : Inst) (H : Nat) : List (List Op) :=
  let slots := (List.range i.J).flatMap (fun j => (List.range i.S).map (fun k => (j, k)))
  slots.foldr (fun (jk : Nat × Nat) acc =>
    (List.range i.M).flatMap (fun p => (List.range (H + 1)).flatMap (fun (t : Nat) =>
      acc.map (fun ops => (⟨jk.1, jk.2 * i.M + p, Int.ofNat t⟩ : Op) :: ops)))) [[]]

/-- the matrix form the environment uses (`MT × J`, sentinel for "no operation") -/
def toMatrix (i : Inst) (ops : List Op) : List Int :=
  (List.range (MT i)).flatMap (fun m => (List.range i.J).map (fun j =>
    match ops.find? (fun o => o.job == j && o.machine == m) with
    | some o => o.start
    | none => UNSET))

end Rl4co.Spec.Ffsp
