/-
Independent definition of a valid flexible-flow-shop schedule and of its makespan, written from the
problem statement (not from the environment code).  A schedule is a list of operations
`(job, machine, start)`; machine `m` belongs to stage `m / M`; processing `job` on `machine` takes
`dur job machine` time units.  No Mathlib.
-/
import Rl4co.Env.Ffsp
namespace Rl4co.Spec.Ffsp
open Rl4co.Ffsp (Inst MT)

structure Op where
  job     : Nat
  machine : Nat
  start   : Int
  deriving DecidableEq, Repr

def Op.stage (i : Inst) (o : Op) : Nat := o.machine / i.M
def Op.fin (i : Inst) (o : Op) : Int := o.start + (i.dur o.job o.machine : Int)

/-- number of operations of job `j` processed in stage `k` -/
def opsAt (i : Inst) (ops : List Op) (j k : Nat) : Nat :=
  (ops.filter (fun o => o.job == j && o.stage i == k)).length

/-- Valid schedule:
* every operation concerns a real job, a real machine and starts at a time ≥ 0;
* every job passes every stage exactly once (on a machine of that stage, for its duration there —
  the interval of `o` is `[o.start, o.start + dur o.job o.machine)`);
* the stages of a job run in order without overlapping;
* no machine processes two operations at the same time. -/
structure Valid (i : Inst) (ops : List Op) : Prop where
  range   : ∀ o ∈ ops, o.job < i.J ∧ o.machine < MT i ∧ 0 ≤ o.start
  once    : ∀ j, j < i.J → ∀ k, k < i.S → opsAt i ops j k = 1
  order   : ∀ o ∈ ops, ∀ o' ∈ ops, o.job = o'.job → o.stage i < o'.stage i → o.fin i ≤ o'.start
  machine : ∀ o ∈ ops, ∀ o' ∈ ops, o ≠ o' → o.machine = o'.machine →
              o.fin i ≤ o'.start ∨ o'.fin i ≤ o.start

/-- executable version used as the run-time oracle -/
def valid (i : Inst) (ops : List Op) : Bool :=
  ops.all (fun o => decide (o.job < i.J) && decide (o.machine < MT i) && decide (0 ≤ o.start)) &&
  (List.range i.J).all (fun j => (List.range i.S).all (fun k => opsAt i ops j k == 1)) &&
  ops.all (fun o => ops.all (fun o' =>
    !(decide (o.job = o'.job) && decide (o.stage i < o'.stage i)) || decide (o.fin i ≤ o'.start))) &&
  ops.all (fun o => ops.all (fun o' =>
    !(decide (o ≠ o') && decide (o.machine = o'.machine)) ||
      (decide (o.fin i ≤ o'.start) || decide (o'.fin i ≤ o.start))))

theorem valid_iff (i : Inst) (ops : List Op) : valid i ops = true ↔ Valid i ops := by
  simp only [valid, Bool.and_eq_true, List.all_eq_true, decide_eq_true_eq, List.mem_range,
    beq_iff_eq, Bool.or_eq_true, Bool.not_eq_true', Bool.and_eq_false_iff, decide_eq_false_iff_not]
  constructor
  · rintro ⟨⟨⟨h1, h2⟩, h3⟩, h4⟩
    refine ⟨fun o ho => ⟨(h1 o ho).1.1, (h1 o ho).1.2, (h1 o ho).2⟩, fun j hj k hk => h2 j hj k hk, ?_, ?_⟩
    · intro o ho o' ho' hj hs
      rcases h3 o ho o' ho' with h | h
      · rcases h with h | h
        · exact absurd hj h
        · exact absurd hs h
      · exact h
    · intro o ho o' ho' hne hm
      rcases h4 o ho o' ho' with h | h
      · rcases h with h | h
        · exact absurd hne h
        · exact absurd hm h
      · exact h
  · rintro ⟨h1, h2, h3, h4⟩
    refine ⟨⟨⟨fun o ho => ⟨⟨(h1 o ho).1, (h1 o ho).2.1⟩, (h1 o ho).2.2⟩, h2⟩, ?_⟩, ?_⟩
    · intro o ho o' ho'
      by_cases hj : o.job = o'.job
      · by_cases hs : o.stage i < o'.stage i
        · exact Or.inr (h3 o ho o' ho' hj hs)
        · exact Or.inl (Or.inr hs)
      · exact Or.inl (Or.inl hj)
    · intro o ho o' ho'
      by_cases hne : o ≠ o'
      · by_cases hm : o.machine = o'.machine
        · exact Or.inr (h4 o ho o' ho' hne hm)
        · exact Or.inl (Or.inr hm)
      · exact Or.inl (Or.inl hne)

/-- `v` is the makespan of a (non-empty) schedule: the latest completion time -/
def IsMakespan (i : Inst) (ops : List Op) (v : Int) : Prop :=
  (∃ o ∈ ops, o.fin i = v) ∧ ∀ o ∈ ops, o.fin i ≤ v

/-- executable makespan (0 for the empty schedule) -/
def makespan (i : Inst) : List Op → Int
  | [] => 0
  | [o] => o.fin i
  | o :: o' :: os => max (o.fin i) (makespan i (o' :: os))

theorem makespan_is (i : Inst) (ops : List Op) (h : ops ≠ []) : IsMakespan i ops (makespan i ops) := by
  induction ops with
  | nil => exact absurd rfl h
  | cons o os ih =>
    cases os with
    | nil =>
      refine ⟨⟨o, by simp, rfl⟩, ?_⟩
      intro o' ho'
      simp only [List.mem_singleton] at ho'
      subst ho'; exact Int.le_refl _
    | cons o' os =>
      have ih := ih (by simp)
      obtain ⟨⟨w, hw, hwv⟩, hall⟩ := ih
      simp only [makespan]
      constructor
      · by_cases hle : o.fin i ≤ makespan i (o' :: os)
        · exact ⟨w, List.mem_cons_of_mem _ hw, by rw [hwv]; omega⟩
        · exact ⟨o, by simp, by omega⟩
      · intro x hx
        rcases List.mem_cons.mp hx with hx | hx
        · subst hx; omega
        · have := hall x hx; omega

theorem isMakespan_unique (i : Inst) (ops : List Op) (v w : Int)
    (hv : IsMakespan i ops v) (hw : IsMakespan i ops w) : v = w := by
  obtain ⟨⟨o, ho, hov⟩, hv2⟩ := hv
  obtain ⟨⟨o', ho', hov'⟩, hw2⟩ := hw
  have := hv2 o' ho'
  have := hw2 o ho
  omega

end Rl4co.Spec.Ffsp

namespace Rl4co.Spec.Ffsp
open Rl4co.Ffsp (Inst MT UNSET)

/-- Reading of the environment's `schedule[m][j]` matrix (real jobs only) as a list of operations:
one operation per entry that differs from the "not scheduled" sentinel. -/
def ofMatrix (i : Inst) (sched : Nat → Nat → Int) : List Op :=
  (List.range (MT i)).flatMap (fun m =>
    ((List.range i.J).filter (fun j => sched m j != UNSET)).map (fun j => ⟨j, m, sched m j⟩))

end Rl4co.Spec.Ffsp

/-!
### The class of schedules the environment's decision rule can express

The environment sweeps, at every time `t`, over all machines stage by stage (within a stage in the
order given by `perm`).  At an idle machine for which some job is available it must start one of the
available jobs, unless (stage ≥ 1 and) some job has not yet completed the previous stage at time `t`;
only then it may leave the machine idle.  `expressible` states this declaratively about a schedule.
(Validated against exhaustive exploration of the real environment by the C05 unit; not every valid
schedule is expressible, and the optimum need not be.)
-/
namespace Rl4co.Spec.Ffsp
open Rl4co.Ffsp (Inst MT UNSET)

/-- position of machine `m` in the sweep of its stage -/
def posOf (i : Inst) (m : Nat) : Nat :=
  ((List.range i.M).find? (fun p => i.perm p == m % i.M)).getD 0

def opOf (i : Inst) (ops : List Op) (j k : Nat) : Option Op :=
  ops.find? (fun o => o.job == j && o.stage i == k)

/-- no operation of machine `m` covers or starts at time `t` -/
def idleAt (i : Inst) (ops : List Op) (m : Nat) (t : Int) : Bool :=
  ops.all (fun o => o.machine != m || (!(decide (o.start ≤ t) && decide (t < o.fin i)) && o.start != t))

/-- job `j` has completed the stage before that of `m` by `t` and has not yet started its operation
of `m`'s stage when the sweep reaches `m` at time `t` -/
def availAt (i : Inst) (ops : List Op) (j m : Nat) (t : Int) : Bool :=
  let k := m / i.M
  (k == 0 || match opOf i ops j (k - 1) with
             | some o => decide (o.fin i ≤ t)
             | none => false) &&
  match opOf i ops j k with
  | some o => decide (t < o.start) || (o.start == t && decide (posOf i m < posOf i o.machine))
  | none => false

/-- leaving a stage-`k` machine idle at `t` is permitted: some job has not completed stage `k-1` -/
def skipOK (i : Inst) (ops : List Op) (k : Nat) (t : Int) : Bool :=
  decide (1 ≤ k) && (List.range i.J).any (fun j =>
    match opOf i ops j (k - 1) with
    | some o => decide (t < o.fin i)
    | none => true)

def horizon (ops : List Op) : Nat := (ops.map (fun o => o.start.toNat)).foldl max 0

def expressible (i : Inst) (ops : List Op) : Bool :=
  (List.range (MT i)).all (fun m => (List.range (horizon ops + 1)).all (fun t =>
    !(idleAt i ops m t && (List.range i.J).any (fun j => availAt i ops j m t)) || skipOK i ops (m / i.M) t))

/-- all assignments of a machine of the right stage and a start time `0..H` to every (job, stage) -/
def candidates (i : Inst) (H : Nat) : List (List Op) :=
  let slots := (List.range i.J).flatMap (fun j => (List.range i.S).map (fun k => (j, k)))
  slots.foldr (fun (jk : Nat × Nat) acc =>
    (List.range i.M).flatMap (fun p => (List.range (H + 1)).flatMap (fun (t : Nat) =>
      acc.map (fun ops => (⟨jk.1, jk.2 * i.M + p, Int.ofNat t⟩ : Op) :: ops)))) [[]]

/-- the matrix form the environment uses (`MT × J`, sentinel for "no operation") -/
def toMatrix (i : Inst) (ops : List Op) : List Int :=
  (List.range (MT i)).flatMap (fun m => (List.range i.J).map (fun j =>
    match ops.find? (fun o => o.job == j && o.machine == m) with
    | some o => o.start
    | none => UNSET))

end Rl4co.Spec.Ffsp
