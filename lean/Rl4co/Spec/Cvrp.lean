/-
Independent definition of a feasible CVRP solution and of its objective, written from the problem
statement (not from the environment code).  A solution is the list of visited nodes (0 = depot
visit); routes are the maximal depot-free segments.  No Mathlib.
-/
import Rl4co.Core.Tour
import Rl4co.Env.Cvrp
namespace Rl4co.Spec.Cvrp
open Rl4co.Cvrp (Inst)

/-- total demand of a route -/
def routeLoad (i : Inst) (r : List Nat) : Int := (r.map i.demand).sum

/-- Feasible: all nodes in range, every customer exactly once, every route within capacity. -/
structure Feasible (i : Inst) (as : List Nat) : Prop where
  range : ∀ a ∈ as, a ≤ i.n
  once  : ∀ j, 1 ≤ j → j ≤ i.n → as.count j = 1
  load  : ∀ r ∈ routes as, routeLoad i r ≤ i.cap

/-- executable version used as the run-time oracle -/
def feasible (i : Inst) (as : List Nat) : Bool :=
  as.all (fun a => decide (a ≤ i.n)) &&
  (List.range i.n).all (fun k => as.count (k + 1) == 1) &&
  (routes as).all (fun r => decide (routeLoad i r ≤ i.cap))

theorem feasible_iff (i : Inst) (as : List Nat) : feasible i as = true ↔ Feasible i as := by
  simp only [feasible, Bool.and_eq_true, List.all_eq_true, decide_eq_true_eq, List.mem_range,
    beq_iff_eq]
  constructor
  · rintro ⟨⟨h1, h2⟩, h3⟩
    refine ⟨h1, ?_, h3⟩
    intro j hj1 hj2
    have := h2 (j - 1) (by omega)
    rwa [Nat.sub_add_cancel hj1] at this
  · rintro ⟨h1, h2, h3⟩
    exact ⟨⟨h1, fun k hk => h2 (k + 1) (by omega) (by omega)⟩, h3⟩

/-- executable: feasible when every route load may exceed the capacity by at most `tol`
(the rounding tolerance the property grants the checker) -/
def feasibleWithin (tol : Int) (i : Inst) (as : List Nat) : Bool :=
  as.all (fun a => decide (a ≤ i.n)) &&
  (List.range i.n).all (fun k => as.count (k + 1) == 1) &&
  (routes as).all (fun r => decide (routeLoad i r ≤ i.cap + tol))

/-- Objective: total length of all routes, each driven depot → customers → depot. -/
def objective (i : Inst) (as : List Nat) : Int := routesLen i.D as

end Rl4co.Spec.Cvrp
