/-
ATSP: same solution set as TSP (a permutation of all nodes), objective = directed closed tour cost
over the cost matrix `M` (`M a b` = cost of the arc a → b).  No Mathlib.
-/
import Rl4co.Spec.Tsp
namespace Rl4co.Spec.Atsp

abbrev Feasible (n : Nat) (as : List Nat) : Prop := Rl4co.Spec.Tsp.Feasible n as
abbrev feasible (n : Nat) (as : List Nat) : Bool := Rl4co.Spec.Tsp.feasible n as

/-- Σ_k M a_k a_{k+1} + M a_{last} a_0, in THIS direction. -/
def objective (M : Nat → Nat → Int) (as : List Nat) : Int := closedLen M as

end Rl4co.Spec.Atsp
