/-
Independent definition of a feasible (A)TSP solution and of its objective, written from the problem
statement: a tour is a list of nodes in which every node `0..n-1` occurs exactly once and nothing
else occurs; its cost is the length of the closed walk along the list and back to its first node
(directed: `D a b` is the cost of going from `a` to `b`).  No Mathlib.
-/
import Rl4co.Core.Tour
namespace Rl4co.Spec.Tsp

structure Feasible (n : Nat) (as : List Nat) : Prop where
  range : ∀ a ∈ as, a < n
  once  : ∀ j, j < n → as.count j = 1

/-- executable version used as the run-time oracle -/
def feasible (n : Nat) (as : List Nat) : Bool :=
  as.all (fun a => decide (a < n)) && (List.range n).all (fun j => as.count j == 1)

theorem feasible_iff (n : Nat) (as : List Nat) : feasible n as = true ↔ Feasible n as := by
  simp only [feasible, Bool.and_eq_true, List.all_eq_true, decide_eq_true_eq, List.mem_range,
    beq_iff_eq]
  exact ⟨fun ⟨h1, h2⟩ => ⟨h1, h2⟩, fun ⟨h1, h2⟩ => ⟨h1, h2⟩⟩

/-- Objective: length of the closed tour `a₀ → a₁ → … → a_{n-1} → a₀`. -/
def objective (D : Nat → Nat → Int) (as : List Nat) : Int := closedLen D as

end Rl4co.Spec.Tsp
