/-
Independent, executable statements of what C12 / C17 demand of an *observed outcome* of the real code
(used as run-time oracle by `harness/units/ops.py`; none of this refers to the models in `Train/`).
No Mathlib.
-/
namespace Rl4co.Spec.Ops

/-- Expansion: `tags[r]` is the instance id carried by row `r` of an expanded batch of `B` instances;
the property demands `tags[r] = r mod B`. -/
def expandOk (B : Nat) (tags : List Nat) : Bool :=
  (List.range tags.length).all (fun r => tags.getD r 0 == r % B)

def nodup : List Nat → Bool
  | [] => true
  | x :: xs => !(xs.contains x) && nodup xs

/-- Regrouping: `cells` are the flat row ids found in a regrouped `[B, c]` array (row-major,
`c` = total number of copies).  Demanded: group `b` holds exactly rows of instance `b`
(`row mod B = b`), every row `< B·c` occurs, none twice. -/
def regroupOk (B c : Nat) (cells : List Nat) : Bool :=
  cells.length == B * c &&
  (List.range (B * c)).all (fun p => cells.getD p 0 % B == p / c && cells.getD p 0 < B * c) &&
  nodup cells

/-- number of feasible first moves among nodes `lo … hi-1` -/
def feasible (lo hi : Nat) (mask : Nat → Bool) : Nat :=
  ((List.range hi).filter (fun j => decide (lo ≤ j) && mask j)).length

/-- Forced starts of ONE instance: whenever at least `k = starts.length` feasible starts exist, all
forced starts are feasible and pairwise distinct. -/
def startsOk (lo hi : Nat) (mask : Nat → Bool) (starts : List Nat) : Bool :=
  if starts.length ≤ feasible lo hi mask then starts.all mask && nodup starts else true

def startsFeasOk (lo hi : Nat) (mask : Nat → Bool) (starts : List Nat) : Bool :=
  if starts.length ≤ feasible lo hi mask then starts.all mask else true

/-- stronger demand met by rules that pick among the feasible nodes (OP after d560d2a): all forced
starts are feasible as soon as ONE feasible start exists, whatever `k` -/
def startsFeasStrongOk (lo hi : Nat) (mask : Nat → Bool) (starts : List Nat) : Bool :=
  if 1 ≤ feasible lo hi mask then starts.all mask else true

def startsDistinctOk (lo hi : Nat) (mask : Nat → Bool) (starts : List Nat) : Bool :=
  if starts.length ≤ feasible lo hi mask then nodup starts else true

/-- Best-of-k for ONE instance with rollout rewards `rs`: the returned reward is the maximum, and the
rollout whose actions / log-likelihood were returned (`chosen`) attains it. -/
def bestOk (rs : List Int) (chosen : Nat) (ret : Int) : Bool :=
  rs.all (fun r => decide (r ≤ ret)) && decide (chosen < rs.length) && rs.getD chosen 0 == ret

/-- Loader: `ids` = instance ids in the order delivered, `sizes` = batch sizes, `extraIds` = the
instance id each delivered extra value belongs to.  Demanded: without shuffling the ids are
`0..n-1` in order, with shuffling each exactly once; batches are full except possibly the last,
which is non-empty; every extra travels with its instance. -/
def loaderOk (n bs : Nat) (shuffle : Bool) (ids sizes extraIds : List Nat) : Bool :=
  (if shuffle then ids.length == n && nodup ids && ids.all (fun i => decide (i < n))
   else ids == List.range n) &&
  sizes.sum == n &&
  sizes.all (fun s => decide (0 < s) && decide (s ≤ bs)) &&
  (sizes.dropLast).all (fun s => s == bs) &&
  (extraIds.isEmpty || extraIds == ids)

/-- Fetching an explicit index batch (any order, gaps, repetitions): the delivered instance ids are
exactly the requested ones in the requested order, and every extra value is the one of its instance. -/
def fetchOk (requested delivered extraIds : List Nat) : Bool :=
  delivered == requested && (extraIds.isEmpty || extraIds == requested)

end Rl4co.Spec.Ops
