/-
Independent definition of a *valid schedule* of a (flexible) job-shop instance and of its makespan,
written from the problem statement (not from the environment code), plus the schedule classes used
by C05 (semi-active list schedules, non-delay schedules) and a brute-force optimum for tiny
instances.  Only the data fields of `Fjsp.Inst` are used (`J M N startOp endOp proc`; `pad` is NOT
used: which operations are real is decided by the job ranges).  No Mathlib.
-/
import Rl4co.Env.Fjsp
namespace Rl4co.Spec.Fjsp
open Rl4co.Fjsp (Inst anyUpTo allUpTo anyUpTo_iff allUpTo_iff)

/-- A schedule: start and completion time of every operation and the machine(s) it was put on. -/
structure Sched where
  start  : Nat → Int
  finish : Nat → Int
  assign : Nat → Nat → Bool     -- machine, operation

/-- operation `o` belongs to job `j` -/
def opOf (i : Inst) (j o : Nat) : Bool := decide (i.startOp j ≤ o) && decide (o ≤ i.endOp j)

/-- `o` is an operation of some job (not padding) -/
def isReal (i : Inst) (o : Nat) : Bool := anyUpTo i.J (fun j => opOf i j o)

/-- Valid schedule with makespan `mk`:
* `once`     every real operation is on exactly one machine, that machine is eligible
             (`proc > 0`), the operation runs for exactly its processing time there, from a time ≥ 0;
* `order`    consecutive operations of a job run in order without overlapping;
* `machine`  two different real operations on the same machine do not overlap;
* `mkUpper`/`mkAttained`  `mk` is the latest completion time of a real operation. -/
structure ValidSchedule (i : Inst) (σ : Sched) (mk : Int) : Prop where
  once : ∀ o, o < i.N → isReal i o = true →
    Rl4co.cnt i.M (fun m => σ.assign m o) = 1 ∧ 0 ≤ σ.start o ∧
    ∀ m, m < i.M → σ.assign m o = true → 0 < i.proc m o ∧ σ.finish o = σ.start o + i.proc m o
  order : ∀ j, j < i.J → ∀ o, o < i.N → i.startOp j ≤ o → o < i.endOp j →
    σ.finish o ≤ σ.start (o + 1)
  machine : ∀ m, m < i.M → ∀ o1, o1 < i.N → ∀ o2, o2 < i.N → isReal i o1 = true → isReal i o2 = true →
    o1 ≠ o2 → σ.assign m o1 = true → σ.assign m o2 = true →
    σ.finish o1 ≤ σ.start o2 ∨ σ.finish o2 ≤ σ.start o1
  mkUpper : ∀ o, o < i.N → isReal i o = true → σ.finish o ≤ mk
  mkAttained : ∃ o, o < i.N ∧ isReal i o = true ∧ σ.finish o = mk

/-- executable clauses (the run-time oracle) -/
def onceB (i : Inst) (σ : Sched) : Bool :=
  allUpTo i.N (fun o => !isReal i o ||
    (decide (Rl4co.cnt i.M (fun m => σ.assign m o) = 1) && decide (0 ≤ σ.start o) &&
     allUpTo i.M (fun m => !σ.assign m o ||
       (decide (0 < i.proc m o) && decide (σ.finish o = σ.start o + i.proc m o)))))

def orderB (i : Inst) (σ : Sched) : Bool :=
  allUpTo i.J (fun j => allUpTo i.N (fun o =>
    !(decide (i.startOp j ≤ o) && decide (o < i.endOp j)) || decide (σ.finish o ≤ σ.start (o + 1))))

def machineB (i : Inst) (σ : Sched) : Bool :=
  allUpTo i.M (fun m => allUpTo i.N (fun o1 => allUpTo i.N (fun o2 =>
    !(isReal i o1 && isReal i o2 && decide (o1 ≠ o2) && σ.assign m o1 && σ.assign m o2) ||
    (decide (σ.finish o1 ≤ σ.start o2) || decide (σ.finish o2 ≤ σ.start o1)))))

def mkB (i : Inst) (σ : Sched) (mk : Int) : Bool :=
  allUpTo i.N (fun o => !isReal i o || decide (σ.finish o ≤ mk)) &&
  anyUpTo i.N (fun o => isReal i o && decide (σ.finish o = mk))

def valid (i : Inst) (σ : Sched) (mk : Int) : Bool :=
  onceB i σ && orderB i σ && machineB i σ && mkB i σ mk

theorem valid_iff (i : Inst) (σ : Sched) (mk : Int) : valid i σ mk = true ↔ ValidSchedule i σ mk := by
  simp only [valid, onceB, orderB, machineB, mkB, Bool.and_eq_true, allUpTo_iff, anyUpTo_iff,
    Bool.or_eq_true, Bool.not_eq_true', decide_eq_true_eq]
  constructor
  · rintro ⟨⟨⟨h1, h2⟩, h3⟩, h4, h5⟩
    refine ⟨?_, ?_, ?_, ?_, ?_⟩
    · intro o ho hr
      rcases h1 o ho with h | ⟨⟨ha, hb⟩, hc⟩
      · simp [hr] at h
      · refine ⟨ha, hb, fun m hm hma => ?_⟩
        rcases hc m hm with h | h
        · simp [hma] at h
        · exact h
    · intro j hj o ho hs he
      rcases h2 j hj o ho with h | h
      · simp [hs, he] at h
      · exact h
    · intro m hm o1 ho1 o2 ho2 hr1 hr2 hne ha1 ha2
      rcases h3 m hm o1 ho1 o2 ho2 with h | h
      · simp [hr1, hr2, hne, ha1, ha2] at h
      · exact h
    · intro o ho hr
      rcases h4 o ho with h | h
      · simp [hr] at h
      · exact h
    · obtain ⟨o, ho, hr, he⟩ := h5
      exact ⟨o, ho, hr, he⟩
  · rintro ⟨h1, h2, h3, h4, h5⟩
    refine ⟨⟨⟨?_, ?_⟩, ?_⟩, ?_, ?_⟩
    · intro o ho
      cases hr : isReal i o with
      | false => exact Or.inl rfl
      | true =>
        obtain ⟨ha, hb, hc⟩ := h1 o ho hr
        refine Or.inr ⟨⟨ha, hb⟩, fun m hm => ?_⟩
        cases hma : σ.assign m o with
        | false => exact Or.inl rfl
        | true => exact Or.inr (hc m hm hma)
    · intro j hj o ho
      by_cases h : i.startOp j ≤ o ∧ o < i.endOp j
      · exact Or.inr (h2 j hj o ho h.1 h.2)
      · left
        cases hh : (decide (i.startOp j ≤ o) && decide (o < i.endOp j)) with
        | false => rfl
        | true => simp at hh; exact absurd hh h
    · intro m hm o1 ho1 o2 ho2
      cases hh : (isReal i o1 && isReal i o2 && decide (o1 ≠ o2) && σ.assign m o1 && σ.assign m o2) with
      | false => exact Or.inl rfl
      | true =>
        simp only [Bool.and_eq_true, decide_eq_true_eq] at hh
        obtain ⟨⟨⟨⟨a, b⟩, c⟩, d⟩, e⟩ := hh
        exact Or.inr (h3 m hm o1 ho1 o2 ho2 a b c d e)
    · intro o ho
      cases hr : isReal i o with
      | false => exact Or.inl rfl
      | true => exact Or.inr (h4 o ho hr)
    · obtain ⟨o, ho, hr, he⟩ := h5
      exact ⟨o, ho, hr, he⟩

/-- which clause fails first (for witnesses): 0 = valid, 1 once, 2 order, 3 machine, 4 makespan -/
def failing (i : Inst) (σ : Sched) (mk : Int) : Nat :=
  if !onceB i σ then 1 else if !orderB i σ then 2 else if !machineB i σ then 3
  else if !mkB i σ mk then 4 else 0

/-- latest completion time of a real operation (0 if there is none) -/
def makespan (i : Inst) (σ : Sched) : Int :=
  match Rl4co.Fjsp.maxOver i.N (isReal i) σ.finish with
  | some x => x
  | none => 0

/-! ### Schedule classes for C05 (list-based, executable; tiny instances) -/

/-- number of operations of job `j` -/
def nOps (i : Inst) (j : Nat) : Nat := i.endOp j + 1 - i.startOp j

/-- State of a chronological *list scheduling* pass: per job the number of operations already placed
and the time its last one finishes, per machine the time it becomes free, and the schedule so far
as `(op, machine, start, finish)` records. -/
structure LS where
  placed   : List Nat
  jobReady : List Int
  maReady  : List Int
  recs     : List (Nat × Nat × Int × Int)

def LS.init (i : Inst) : LS :=
  { placed := List.replicate i.J 0, jobReady := List.replicate i.J 0,
    maReady := List.replicate i.M 0, recs := [] }

/-- place the next operation of job `j` on machine `m` as early as job and machine allow
(appending at the end of the machine's sequence: a *semi-active* placement) -/
def LS.place (i : Inst) (st : LS) (j m : Nat) : LS :=
  let k := st.placed.getD j 0
  let o := i.startOp j + k
  let s := max (st.jobReady.getD j 0) (st.maReady.getD m 0)
  let f := s + i.proc m o
  { placed := st.placed.set j (k + 1), jobReady := st.jobReady.set j f,
    maReady := st.maReady.set m f, recs := (o, m, s, f) :: st.recs }

/-- all complete semi-active list schedules (every interleaving of the jobs' operation sequences
and every eligible machine choice), as record lists; `fuel` = total number of operations -/
def allSemiActive (i : Inst) : Nat → LS → List (List (Nat × Nat × Int × Int))
  | 0, st => [st.recs]
  | f + 1, st =>
    let opts := (List.range i.J).flatMap (fun j =>
      if st.placed.getD j 0 < nOps i j then
        (List.range i.M).filterMap (fun m =>
          if i.proc m (i.startOp j + st.placed.getD j 0) > 0 then some (j, m) else none)
      else [])
    if opts.isEmpty then [st.recs]
    else opts.flatMap (fun jm => allSemiActive i f (LS.place i st jm.1 jm.2))

def totalOps (i : Inst) : Nat := ((List.range i.J).map (nOps i)).sum

def recsMakespan (recs : List (Nat × Nat × Int × Int)) : Int :=
  recs.foldl (fun acc r => max acc r.2.2.2) 0

/-- Non-delay: at no time `t` is a machine `m` idle while some operation that is eligible on `m` and
whose job predecessor has finished by `t` starts later than `t`.  It suffices to test `t = 0` and the
completion times. -/
def nonDelay (i : Inst) (recs : List (Nat × Nat × Int × Int)) : Bool :=
  let times : List Int := 0 :: recs.map (fun r => r.2.2.2)
  times.all (fun t =>
    (List.range i.M).all (fun m =>
      let busy := recs.any (fun r => r.2.1 == m && decide (r.2.2.1 ≤ t) && decide (t < r.2.2.2))
      busy || recs.all (fun r =>
        let o := r.1
        let predDone := (List.range i.J).any (fun j => i.startOp j == o) ||
          recs.any (fun q => q.1 + 1 == o && decide (q.2.2.2 ≤ t))
        !(decide (r.2.2.1 > t) && predDone && decide (i.proc m o > 0)))))

/-- canonical form of a record list (sorted by operation id) for set comparison -/
def insertRec (x : Nat × Nat × Int × Int) : List (Nat × Nat × Int × Int) → List (Nat × Nat × Int × Int)
  | [] => [x]
  | y :: ys => if x.1 ≤ y.1 then x :: y :: ys else y :: insertRec x ys
def sortRecs : List (Nat × Nat × Int × Int) → List (Nat × Nat × Int × Int)
  | [] => []
  | x :: xs => insertRec x (sortRecs xs)

/-- brute-force optimum: minimal makespan over all semi-active list schedules (an optimal schedule
can always be left-shifted into a semi-active one, so this is the optimum over all valid schedules) -/
def optMakespan (i : Inst) : Option Int :=
  ((allSemiActive i (totalOps i) (LS.init i)).map recsMakespan).foldl
    (fun acc x => match acc with | none => some x | some y => some (min x y)) none

/-- minimal makespan over the non-delay schedules only -/
def optNonDelay (i : Inst) : Option Int :=
  (((allSemiActive i (totalOps i) (LS.init i)).filter (nonDelay i)).map recsMakespan).foldl
    (fun acc x => match acc with | none => some x | some y => some (min x y)) none

end Rl4co.Spec.Fjsp
