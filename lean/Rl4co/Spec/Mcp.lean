/-
Independent definition of a feasible maximum-coverage solution and of its objective: choose exactly
`quota` distinct sets; the objective is the total weight of the items that belong to at least one
chosen set.  No Mathlib.
-/
import Rl4co.Env.Mcp
namespace Rl4co.Spec.Mcp
open Rl4co.Mcp (Inst)

/-- item `x` (0-based index, id `x+1`) is a member of set `j` (padding entries `0` are no members) -/
def member (i : Inst) (j x : Nat) : Bool := (List.range i.maxSize).any (fun k => i.mem j k == x + 1)

/-- item `x` is covered by the selection `as` -/
def covered (i : Inst) (as : List Nat) (x : Nat) : Bool := as.any (fun j => member i j x)

/-- total weight of the covered items -/
def objective (i : Inst) (as : List Nat) : Int :=
  sumRange i.nItems (fun x => if covered i as x then i.w x else 0)

/-- what the policy should be shown: weight of `x` if still uncovered, else 0 -/
def uncoveredWeight (i : Inst) (as : List Nat) (x : Nat) : Int := if covered i as x then 0 else i.w x

/-- the membership table the policy should be shown: rows of the selected sets blanked -/
def remaining (i : Inst) (as : List Nat) (j k : Nat) : Nat := if j ∈ as then 0 else i.mem j k

structure Feasible (i : Inst) (as : List Nat) : Prop where
  len   : (as.length : Int) = i.quota
  nodup : as.Nodup
  range : ∀ a ∈ as, a < i.nSets

def feasible (i : Inst) (as : List Nat) : Bool :=
  decide ((as.length : Int) = i.quota) && decide as.Nodup && as.all (fun a => decide (a < i.nSets))

theorem feasible_iff (i : Inst) (as : List Nat) : feasible i as = true ↔ Feasible i as := by
  simp only [feasible, Bool.and_eq_true, decide_eq_true_eq, List.all_eq_true]
  constructor
  · rintro ⟨⟨h1, h2⟩, h3⟩; exact ⟨h1, h2, h3⟩
  · rintro ⟨h1, h2, h3⟩; exact ⟨⟨h1, h2⟩, h3⟩

end Rl4co.Spec.Mcp
