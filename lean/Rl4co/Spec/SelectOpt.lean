/-
Brute-force optimum of the selection problems (FLP, MCP): explicit enumeration of all action lists of
the quota's length, filtered by the executable feasibility test, maximum of the objective-derived
value.  Executable (served by the drivers as the oracle for C05).  No Mathlib.
-/
import Rl4co.Spec.Flp
import Rl4co.Spec.Mcp

namespace Rl4co

/-- `max` over a list, `0` for the empty list -/
def maxList (l : List Int) : Int := - minList (l.map (fun x => -x))

/-- all action lists of length `q` over `0 … n-1` -/
def allSeqs (n : Nat) : Nat → List (List Nat)
  | 0 => [[]]
  | q + 1 => (List.range n).flatMap (fun a => (allSeqs n q).map (fun as => a :: as))

namespace Spec.Flp
open Rl4co.Flp (Inst)

/-- all feasible selections, enumerated -/
def candidates (i : Inst) : List (List Nat) := (allSeqs i.n i.quota.toNat).filter (feasible i)

/-- brute-force optimum of the reward scale: the largest `−objective` over all feasible selections -/
def optimum (i : Inst) : Int := maxList ((candidates i).map (fun as => - objective i as))

end Spec.Flp

namespace Spec.Mcp
open Rl4co.Mcp (Inst)

def candidates (i : Inst) : List (List Nat) := (allSeqs i.nSets i.quota.toNat).filter (feasible i)

/-- brute-force optimum: the largest covered weight over all feasible selections -/
def optimum (i : Inst) : Int := maxList ((candidates i).map (objective i))

end Spec.Mcp
end Rl4co
