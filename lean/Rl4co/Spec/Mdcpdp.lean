/-
Independent definition of the multi-depot capacitated pickup-and-delivery problem, written from the
problem statement in the class / generator docstrings (not from `_step`):

* `K` depots `0..K-1`, each with ONE vehicle that can carry at most `cap d` orders at a time;
  `h` orders, order `p` (`K ≤ p < K+h`) is picked up at node `p` and delivered at node `p + h`;
* a solution is the list of visited nodes.  The first visit of a depot starts that depot's vehicle,
  a later visit of a depot ends the running tour (the vehicle returns); a vehicle that is still out
  when the list ends returns to its own depot;
* feasible: every customer exactly once, an order is delivered after it was picked up by the SAME
  vehicle, a vehicle never carries more than its capacity, a vehicle returns (empty) to its OWN depot,
  customers are only served by a running vehicle;
* objective: per-depot tour length (own depot → customers → own depot, the way back not charged in
  open mode): longest (`minmax`) or summed (`minsum`); `lateness`: weighted sum of the summed length
  and of the arrival times at the delivery nodes, each measured from the start of its vehicle.

Part 1 (`Core…`) is the declarative part the theorems are about; part 2 (`sim`) is the executable
route-level oracle.  `Variant` switches off single clauses — the default is the problem as stated; the
other values exist only so that the harness can name WHICH clause a real episode violates.
No Mathlib.
-/
import Rl4co.Core.Tour
namespace Rl4co.Spec.Mdcpdp

structure Problem where
  K : Nat                    -- depots / vehicles
  h : Nat                    -- orders
  cap : Nat → Int            -- capacity of the vehicle of depot d
  D : Nat → Nat → Int
  openMode : Bool
  wNum : Int
  wDen : Int

def Problem.N (p : Problem) : Nat := p.K + 2 * p.h
def Problem.isDepot (p : Problem) (a : Nat) : Bool := decide (a < p.K)
def Problem.isPickup (p : Problem) (a : Nat) : Bool := decide (p.K ≤ a ∧ a < p.K + p.h)
def Problem.isDelivery (p : Problem) (a : Nat) : Bool := decide (p.K + p.h ≤ a ∧ a < p.N)

/-! ### Part 1: declarative core (single-visit, precedence, load, empty at depots) -/

/-- number of orders on board after the visits `as` (pickups minus deliveries) -/
def carryOf (p : Problem) (as : List Nat) : Int :=
  ((as.filter p.isPickup).length : Int) - ((as.filter p.isDelivery).length : Int)

/-- Core feasibility w.r.t. a load limit `c` (one common limit — the clause that depends on WHICH
vehicle drives is in part 2). -/
structure CoreFeasible (p : Problem) (c : Int) (as : List Nat) : Prop where
  /-- only nodes of the instance are visited -/
  range : ∀ a ∈ as, a < p.N
  /-- every customer is visited exactly once -/
  once  : ∀ j, p.K ≤ j → j < p.N → as.count j = 1
  /-- a delivery is preceded by its pickup -/
  prec  : ∀ k a, as[k]? = some a → p.isDelivery a = true → (a - p.h) ∈ as.take k
  /-- after every prefix the number of orders on board is within `[0, c]` -/
  load  : ∀ k, 0 ≤ carryOf p (as.take k) ∧ carryOf p (as.take k) ≤ c
  /-- whenever a depot is visited nothing is on board (so an order is delivered by the vehicle that
  picked it up) -/
  empty : ∀ k d, as[k]? = some d → d < p.K → carryOf p (as.take k) = 0

/-- Open-route total length, declaratively: every move that ends at a customer is driven by the running
vehicle (from its depot or from the previous customer) and is charged; moves that end at a depot (the
way back, the change to the next depot) are not charged in open mode.  `prev` is the node visited before. -/
def openLength (p : Problem) : Nat → List Nat → Int
  | _, [] => 0
  | prev, a :: as => (if a < p.K then 0 else p.D prev a) + openLength p a as

/-! ### Part 2: route-level simulation (executable oracle) -/

structure Variant where
  home       : Bool := true   -- a returning vehicle must return to its own depot
  ownCap     : Bool := true   -- a vehicle is limited by the capacity of its own depot (false: depot 0's)
  perVehicle : Bool := true   -- lengths / clocks are kept per vehicle (false: one shared slot and clock, returns as listed)
  chargeLast : Bool := true   -- the vehicle still out at the end is charged its way home (closed mode)

structure Sim where
  opened  : List Nat := []
  veh     : Option Nat := none
  onboard : List Nat := []
  served  : List Nat := []
  pos     : Nat := 0
  clock   : Int := 0
  lens    : Nat → Int := fun _ => 0
  late    : Int := 0
  err     : Nat := 0     -- 0 ok | 1 range | 2 customer without vehicle / start while out | 3 visited twice
                         -- 4 capacity | 5 delivery before pickup (or by another vehicle) | 6 returns loaded | 7 returns to a foreign depot | 8 incomplete

def Sim.fail (s : Sim) (e : Nat) : Sim := if s.err = 0 then { s with err := e } else s

def addLen (lens : Nat → Int) (d : Nat) (x : Int) : Nat → Int := fun j => if j = d then lens j + x else lens j

def simStep (p : Problem) (v : Variant) (s : Sim) (a : Nat) : Sim :=
  if s.err ≠ 0 then s
  else if a ≥ p.N then s.fail 1
  else if a < p.K then
    if a ∉ s.opened then
      -- the vehicle of depot `a` starts
      match s.veh with
      | some _ => s.fail 2
      | none =>
        if v.perVehicle then { s with opened := a :: s.opened, veh := some a, pos := a, clock := 0 }
        else { s with opened := a :: s.opened, veh := some a, pos := a }
    else
      -- the running vehicle returns
      match s.veh with
      | none => if a = s.pos then s else s.fail 2   -- waiting at the depot it stands at
      | some d =>
        if s.onboard ≠ [] then s.fail 6
        else if v.home && a ≠ d then s.fail 7
        else
          -- the way home; a vehicle that never left its depot (empty tour) drives nothing
          let leg := if p.openMode then 0 else if s.pos < p.K then 0 else p.D s.pos a
          let slot := if v.perVehicle then d else 0
          { s with veh := none, pos := a, clock := s.clock + leg, lens := addLen s.lens slot leg }
  else
    match s.veh with
    | none => s.fail 2
    | some d =>
      if a ∈ s.served then s.fail 3
      else
        let leg := p.D s.pos a
        let slot := if v.perVehicle then d else 0
        let s' := { s with served := a :: s.served, pos := a, clock := s.clock + leg,
                           lens := addLen s.lens slot leg }
        if a < p.K + p.h then
          let c := if v.ownCap then p.cap d else p.cap 0
          if (s.onboard.length : Int) + 1 > c then s.fail 4
          else { s' with onboard := a :: s.onboard }
        else
          if (a - p.h) ∉ s.onboard then s.fail 5
          else { s' with onboard := s.onboard.erase (a - p.h), late := s.late + (s.clock + leg) }

def simEnd (p : Problem) (v : Variant) (s : Sim) : Sim :=
  if s.err ≠ 0 then s
  else if s.onboard ≠ [] then s.fail 8
  else if !((List.range (2 * p.h)).all (fun k => (p.K + k) ∈ s.served)) then s.fail 8
  else match s.veh with
    | none => s
    | some d =>
      if v.chargeLast && !p.openMode then
        let leg := p.D s.pos d
        let slot := if v.perVehicle then d else 0
        { s with lens := addLen s.lens slot leg }
      else s

def sim (p : Problem) (v : Variant) (as : List Nat) : Sim := simEnd p v (as.foldl (simStep p v) {})

/-- executable feasibility (0 = feasible, otherwise the violated clause) -/
def verdict (p : Problem) (v : Variant) (as : List Nat) : Nat := (sim p v as).err
def feasible (p : Problem) (as : List Nat) : Bool := verdict p {} as == 0
/-- The problem as stated. -/
def Feasible (p : Problem) (as : List Nat) : Prop := feasible p as = true

def maxList1 : List Int → Int
  | [] => 0
  | [x] => x
  | x :: xs => max x (maxList1 xs)

def perDepot (p : Problem) (v : Variant) (as : List Nat) : List Int :=
  (List.range p.K).map (sim p v as).lens
def objMinsum (p : Problem) (v : Variant) (as : List Nat) : Int := (perDepot p v as).sum
def objMinmax (p : Problem) (v : Variant) (as : List Nat) : Int := maxList1 (perDepot p v as)
/-- scaled by `wDen` -/
def objLateness (p : Problem) (v : Variant) (as : List Nat) : Int :=
  objMinsum p v as * (p.wDen - p.wNum) + (sim p v as).late * p.wNum

/-- objective by mode index (0 minmax, 1 minsum, 2 lateness) -/
def objOf (mode : Nat) (p : Problem) (v : Variant) (as : List Nat) : Int :=
  if mode = 0 then objMinmax p v as else if mode = 1 then objMinsum p v as else objLateness p v as

end Rl4co.Spec.Mdcpdp
