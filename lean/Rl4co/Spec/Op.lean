/-
Independent definition of a feasible orienteering solution and of its objective, written from the
problem statement (not from the environment code).  A solution is the list of visited nodes; the
vehicle starts at the depot, drives through the listed nodes in order and returns to the depot.
Every customer may be visited at most once, not all need to be visited; the total length must not
exceed the budget `L` (equality allowed).  The objective is the prize of the visited customers.
No Mathlib.
-/
import Rl4co.Core.Tour
import Rl4co.Env.Op
namespace Rl4co.Spec.Op
open Rl4co.Op (Inst)
open Rl4co.Prize

/-- length of the tour depot → listed nodes → depot -/
def tourLen (i : Inst) (as : List Nat) : Int := pathLen i.D (0 :: as ++ [0])

/-- Feasible: nodes in range, every customer at most once, tour length within the budget. -/
structure Feasible (i : Inst) (as : List Nat) : Prop where
  range  : ∀ a ∈ as, a ≤ i.n
  once   : ∀ j, 1 ≤ j → j ≤ i.n → as.count j ≤ 1
  length : tourLen i as ≤ i.L

/-- Feasible up to a length tolerance (what a checker with a rounding tolerance may accept). -/
structure FeasibleWithin (tol : Int) (i : Inst) (as : List Nat) : Prop where
  range  : ∀ a ∈ as, a ≤ i.n
  once   : ∀ j, 1 ≤ j → j ≤ i.n → as.count j ≤ 1
  length : tourLen i as ≤ i.L + tol

/-- executable version used as the run-time oracle -/
def feasible (i : Inst) (as : List Nat) : Bool :=
  as.all (fun a => decide (a ≤ i.n)) &&
  (List.range i.n).all (fun k => decide (as.count (k + 1) ≤ 1)) &&
  decide (tourLen i as ≤ i.L)

theorem feasible_iff (i : Inst) (as : List Nat) : feasible i as = true ↔ Feasible i as := by
  simp only [feasible, Bool.and_eq_true, List.all_eq_true, decide_eq_true_eq, List.mem_range]
  constructor
  · rintro ⟨⟨h1, h2⟩, h3⟩
    refine ⟨h1, ?_, h3⟩
    intro j hj1 hj2
    have := h2 (j - 1) (by omega)
    rwa [Nat.sub_add_cancel hj1] at this
  · rintro ⟨h1, h2, h3⟩
    exact ⟨⟨h1, fun k hk => h2 (k + 1) (by omega) (by omega)⟩, h3⟩

/-- Objective (to be maximised): total prize of the customers that occur in the solution. -/
def objective (i : Inst) (as : List Nat) : Int :=
  sumTo i.n (fun k => if k + 1 ∈ as then i.prize (k + 1) else 0)

/-- slack of the length constraint (reported to the harness to classify boundary cases) -/
def slack (i : Inst) (as : List Nat) : Int := i.L - tourLen i as

end Rl4co.Spec.Op
