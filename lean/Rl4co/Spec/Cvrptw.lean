/-
Independent definition of a feasible CVRPTW solution, written from the problem statement: a CVRP
solution (customers exactly once, route loads within capacity) in which every route, driven from the
depot at time 0, starts the service of each customer no later than the end of the customer's window
(waiting until the window opens when early: `t ← max(t + d, e) + s`) and is back at the depot no
later than the end of the depot's window.  The objective is CVRP's (total route length).  No Mathlib.
-/
import Rl4co.Spec.Cvrp
import Rl4co.Env.Cvrptw
namespace Rl4co.Spec.Cvrptw
open Rl4co.Cvrptw (Inst)

/-- clock along (the rest of) one route: currently at `cur` with clock `t`, still to serve `r`, then
return to the depot. -/
def routeOk (i : Inst) : Int → Nat → List Nat → Bool
  | t, cur, [] => decide (t + i.base.D cur 0 ≤ i.twE 0)
  | t, cur, j :: r =>
    decide (t + i.base.D cur j ≤ i.twE j) &&
      routeOk i (max (t + i.base.D cur j) (i.twS j) + i.dur j) j r

structure Feasible (i : Inst) (as : List Nat) : Prop where
  base : Spec.Cvrp.Feasible i.base as
  tw   : ∀ r ∈ routes as, routeOk i 0 0 r = true

/-- executable version used as the run-time oracle -/
def feasible (i : Inst) (as : List Nat) : Bool :=
  Spec.Cvrp.feasible i.base as && (routes as).all (fun r => routeOk i 0 0 r)

theorem feasible_iff (i : Inst) (as : List Nat) : feasible i as = true ↔ Feasible i as := by
  simp only [feasible, Bool.and_eq_true, List.all_eq_true, Spec.Cvrp.feasible_iff]
  exact ⟨fun ⟨h1, h2⟩ => ⟨h1, h2⟩, fun ⟨h1, h2⟩ => ⟨h1, h2⟩⟩

def objective (i : Inst) (as : List Nat) : Int := Spec.Cvrp.objective i.base as

/-- feasible up to the load tolerance of the checker (time windows exact) -/
structure FeasibleWithin (tol : Int) (i : Inst) (as : List Nat) : Prop where
  range : ∀ a ∈ as, a ≤ i.base.n
  once  : ∀ j, 1 ≤ j → j ≤ i.base.n → as.count j = 1
  load  : ∀ r ∈ routes as, Spec.Cvrp.routeLoad i.base r ≤ i.base.cap + tol
  tw    : ∀ r ∈ routes as, routeOk i 0 0 r = true

/-- executable: feasible when the capacity is relaxed by `tol` (used to classify near-boundary cases) -/
def feasibleWithin (tol : Int) (i : Inst) (as : List Nat) : Bool :=
  Spec.Cvrp.feasible { i.base with cap := i.base.cap + tol } as && (routes as).all (fun r => routeOk i 0 0 r)

end Rl4co.Spec.Cvrptw
