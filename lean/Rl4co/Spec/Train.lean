/-
Independent reference definitions for the training-side properties (C16, C20).  No Mathlib.

C20: "mean and sample standard deviation of all values observed so far", the exponential-moving-average
recurrence and its closed form, the warm-up weight.
C16: the reference policy-gradient surrogates, written per sample with plain sums (no shapes, no
broadcasting): `−(1/n) Σ (R_i − b_i)·ll_i + bl_loss` and its directional derivative, the clipped-ratio
PPO objective, and the two semantic readings of the SymNCO shared baselines.
-/
import Rl4co.Train.Dual
namespace Rl4co.Spec.Train
open Rl4co.Train

section stats
variable {K : Type} [Add K] [Sub K] [Mul K] [Div K] [Zero K] [One K] [NatCast K]

/-- arithmetic mean of everything observed -/
def mean (xs : List K) : K := xs.sum / (xs.length : K)
/-- sum of squared deviations from the mean -/
def sumSqDev (xs : List K) : K := (xs.map (fun x => (x - mean xs) * (x - mean xs))).sum
/-- sample variance (Bessel-corrected); its square root is the sample standard deviation -/
def sampleVar (xs : List K) : K := sumSqDev xs / ((xs.length : K) - 1)

/-- `b^n` -/
def pw (b : K) : Nat → K
  | 0 => 1
  | n + 1 => pw b n * b

/-- closed form of the exponential moving average after batch means `m₀ :: ms`:
`β^t m₀ + (1-β) Σ_{k=1..t} β^{t-k} m_k` (computed by Horner's rule on the reversed list is the
recurrence itself, so the closed form is written with explicit powers). -/
def emaClosed (beta : K) (m0 : K) (ms : List K) : K :=
  pw beta ms.length * m0
    + (1 - beta) * ((List.range ms.length).map (fun k => pw beta (ms.length - 1 - k) * ms.getD k 0)).sum

/-- warm-up weight after the callback of epoch `e` (epochs called in order 0,1,2,…): `min 1 ((e+1)/n)` -/
def warmupAlpha (n e : Nat) : K := if n ≤ e + 1 then 1 else ((e + 1 : Nat) : K) / (n : K)

end stats

/-! ### C16 reference surrogates (per sample, plain sums) -/
section surrogates
variable {K : Type} [Add K] [Sub K] [Mul K] [Div K] [Neg K] [Zero K] [One K] [NatCast K]

/-- `−(1/n) Σ_i adv_i · ll_i` -/
def surrogate (n : Nat) (adv ll : Nat → K) : K := -(sumTo n (fun i => adv i * ll i) / (n : K))

/-- value of the REINFORCE reference: `−mean((R − b)·ll) + bl_loss` -/
def reinforce (n : Nat) (R b ll : Nat → K) (blLoss : K) : K :=
  surrogate n (fun i => R i - b i) ll + blLoss

/-- its directional derivative: `−mean((R − b)·d ll) + d bl_loss` (reward and baseline are constants) -/
def reinforceGrad (n : Nat) (R b dll : Nat → K) (dBlLoss : K) : K :=
  surrogate n (fun i => R i - b i) dll + dBlLoss

/-- mean-squared error `(1/n) Σ (v_i − c_i)²` and its derivative w.r.t. `v` along `dv` -/
def mse (n : Nat) (v c : Nat → K) : K := sumTo n (fun i => (v i - c i) * (v i - c i)) / (n : K)
def mseGrad (n : Nat) (v c dv : Nat → K) : K :=
  sumTo n (fun i => ((2 : Nat) : K) * (v i - c i) * dv i) / (n : K)

/-- Shared baseline in matrix form (`B` instances × `S` rollouts of each): rollout `(b, s)` is compared with the
mean reward of the `S` rollouts of the same instance:
`−(1/(B·S)) Σ_b Σ_s (R b s − (1/S) Σ_s' R b s') · ll b s` -/
def sharedSurrogate (B S : Nat) (R ll : Nat → Nat → K) : K :=
  -(sumTo B (fun b => sumTo S (fun s => (R b s - sumTo S (fun s' => R b s') / (S : K)) * ll b s)) / ((B * S : Nat) : K))

/-- Shared (multi-start) baseline on a flat batch laid out start-outer / instance-inner
(`k = s·B + b`, which is what `batchify` produces): the baseline of rollout `(b, s)` is the mean reward
of the `S` rollouts of instance `b`. -/
def sharedBaselineFlat (B S : Nat) (R : Nat → K) : Nat → K :=
  fun k => sumTo S (fun s' => R (s' * B + k % B)) / (S : K)

/-- SymNCO, flat batch laid out start-outer / augmentation-middle / instance-inner
(`k = (s·A + a)·B + b`): baseline = mean over the starts of the same instance and augmentation -/
def overStartsFlat (B S A : Nat) (R : Nat → K) : Nat → K :=
  fun k => sumTo S (fun s' => R ((s' * A + (k / B) % A) * B + k % B)) / (S : K)
/-- … baseline = mean over the augmentations of the same instance and start -/
def overAugsFlat (B _S A : Nat) (R : Nat → K) : Nat → K :=
  fun k => sumTo A (fun a' => R (((k / B) / A * A + a') * B + k % B)) / (A : K)

/-- What SymNCO's regrouping really averages over (layout `k = f·B + b`, flat group index `f = s·A + a`):
the dim-1 baseline of rollout `k` is the mean over the BLOCK of `S` consecutive group indices containing `f`
(`⌊f/S⌋·S … ⌊f/S⌋·S + S − 1`), of the same instance … -/
def blockMeanFlat (B S : Nat) (R : Nat → K) : Nat → K :=
  fun k => sumTo S (fun j => R (((k / B) / S * S + j) * B + k % B)) / (S : K)
/-- … and the last-dim baseline the mean over the STRIDE class of `f` modulo `S` (`f % S, f % S + S, …`, `A` members). -/
def strideMeanFlat (B S A : Nat) (R : Nat → K) : Nat → K :=
  fun k => sumTo A (fun i => R ((i * S + (k / B) % S) * B + k % B)) / (A : K)

/-- reading X (the axis labels in `symnco/model.py`): problem-symmetricity term over the start axis when
`S > 1`, solution-symmetricity term over the augmentation axis when `A > 1` -/
def symncoRefX (B S A : Nat) (beta : K) (R ll : Nat → K) : K :=
  let n := B * (if S = 0 then 1 else S) * (if A = 0 then 1 else A)
  let S' := if S = 0 then 1 else S
  let A' := if A = 0 then 1 else A
  (if 1 < S then surrogate n (fun k => R k - overStartsFlat B S' A' R k) ll else 0)
    + beta * (if 1 < A then surrogate n (fun k => R k - overAugsFlat B S' A' R k) ll else 0)

/-- reading Y (the docstrings in `symnco/losses.py`): the two axes exchanged -/
def symncoRefY (B S A : Nat) (beta : K) (R ll : Nat → K) : K :=
  let n := B * (if S = 0 then 1 else S) * (if A = 0 then 1 else A)
  let S' := if S = 0 then 1 else S
  let A' := if A = 0 then 1 else A
  (if 1 < S then surrogate n (fun k => R k - overAugsFlat B S' A' R k) ll else 0)
    + beta * (if 1 < A then surrogate n (fun k => R k - overStartsFlat B S' A' R k) ll else 0)

end surrogates

section ppo
variable {K : Type} [Add K] [Sub K] [Mul K] [Div K] [Neg K] [Zero K] [One K] [NatCast K] [LT K] [DecidableLT K]

def clip (lo hi x : K) : K := if x < lo then lo else if hi < x then hi else x
def minK (a b : K) : K := if b < a then b else a
def huber (z : K) : K :=
  let az := if z < 0 then -z else z
  if az < 1 then z * z / ((2 : Nat) : K) else az - 1 / ((2 : Nat) : K)
/-- derivative of `huber` -/
def huber' (z : K) : K := if z < -1 then -1 else if 1 < z then 1 else z

/-- PPO reference value for one mini-batch of `n` samples: ratios `r`, advantages `A`, critic values `v`,
rewards `R`, entropies `h` -/
def ppo (n : Nat) (lo hi vfL entL : K) (r A v R h : Nat → K) : K :=
  -(sumTo n (fun i => minK (r i * A i) (clip lo hi (r i) * A i)) / (n : K))
    + vfL * (sumTo n (fun i => huber (v i - R i)) / (n : K))
    - entL * (sumTo n (fun i => h i) / (n : K))

/-- is the unclipped term the active one (so that the sample contributes `A·r·d(Σ ll)`)? -/
def ppoActive (lo hi : K) (r A : K) : Bool :=
  if lo < r ∧ r < hi then true
  else if hi < r then decide (A < 0)
  else if r < lo then decide (0 < A)
  else false

/-- PPO reference directional derivative (at non-kink points) -/
def ppoGrad (n : Nat) (lo hi vfL entL : K) (r A v R : Nat → K) (dS dv dh : Nat → K) : K :=
  -(sumTo n (fun i => if ppoActive lo hi (r i) (A i) then A i * (r i * dS i) else 0) / (n : K))
    + vfL * (sumTo n (fun i => huber' (v i - R i) * dv i) / (n : K))
    - entL * (sumTo n (fun i => dh i) / (n : K))

/-- weight of a sample's `A·r·dΣll` in the derivative of the clipped surrogate at EVERY point, under the sub-gradient
convention PyTorch uses (observed on torch 2.14): `clamp` passes no gradient at its bounds and `min` splits the gradient
evenly at a tie — so a ratio sitting exactly on a clip bound counts one half. `passAtBound = true` is the other common
convention (gradient of `clamp` passes at the bounds), under which such a sample counts fully. -/
def ppoWeight (passAtBound : Bool) (lo hi r A : K) : K :=
  if lo < r ∧ r < hi then 1
  else if hi < r then (if A < 0 then 1 else 0)
  else if r < lo then (if 0 < A then 1 else 0)
  else if passAtBound then 1 else 1 / ((2 : Nat) : K)

/-- PPO reference directional derivative at ALL points (kinks included), for a sub-gradient convention -/
def ppoGradAll (passAtBound : Bool) (n : Nat) (lo hi vfL entL : K) (r A v R : Nat → K) (dS dv dh : Nat → K) : K :=
  -(sumTo n (fun i => ppoWeight passAtBound lo hi (r i) (A i) * (A i * (r i * dS i))) / (n : K))
    + vfL * (sumTo n (fun i => huber' (v i - R i) * dv i) / (n : K))
    - entL * (sumTo n (fun i => dh i) / (n : K))

/-- closed form of the n-step return of step `t` (rewards `r_0 … r_{n-1}`, bootstrap value `V`):
`R_t = Σ_{j ≥ t} γ^{j-t} r_j + γ^{n-t} V` -/
def nstepReturn (gamma V : K) (rs : List K) (t : Nat) : K :=
  ((List.range (rs.length - t)).map (fun j => pw gamma j * rs.getD (t + j) 0)).sum + pw gamma (rs.length - t) * V

/-- reference value of the n-step PPO loss of one inner epoch on `n` samples: ratios `r`, returns `G`, critic values `v`,
first-epoch critic values `old` (none in the first inner epoch), clip range `c` -/
def nstepLoss (n : Nat) (lo hi c vfL : K) (r G v : Nat → K) (old : Option (Nat → K)) : K :=
  -(sumTo n (fun i => minK (r i * (G i - v i)) (clip lo hi (r i) * (G i - v i))) / (n : K))
    + vfL * (sumTo n (fun i =>
        match old with
        | none => (v i - G i) * (v i - G i)
        | some o =>
          let vc := clip (-c) c (v i - o i) + o i
          let a := (v i - G i) * (v i - G i)
          let b := (vc - G i) * (vc - G i)
          if a < b then b else a) / (n : K))

end ppo

end Rl4co.Spec.Train
