/-
Independent definition of a feasible prize-collecting TSP solution and of its objective, written
from the problem statement (not from the environment code).  A solution is the list of visited nodes;
the vehicle starts at the depot, drives through the listed nodes in order and returns to the depot.
Every customer may be visited at most once; the prize actually collected (the *real* prize: the
stochastic one for SPCTSP) must reach the requirement unless every customer is visited.  The
objective (to be minimised) is the tour length plus the penalties of the customers not visited.
No Mathlib.
-/
import Rl4co.Core.Tour
import Rl4co.Env.Pctsp
namespace Rl4co.Spec.Pctsp
open Rl4co.Pctsp (Inst realPrize)
open Rl4co.Prize

/-- prize collected: real prize of the customers that occur in the solution -/
def collected (i : Inst) (as : List Nat) : Int :=
  sumTo i.n (fun k => if k + 1 ∈ as then realPrize i (k + 1) else 0)

/-- every customer occurs -/
def AllVisited (i : Inst) (as : List Nat) : Prop := ∀ j, 1 ≤ j → j ≤ i.n → j ∈ as

/-- Feasible: nodes in range, every customer at most once, enough prize or everybody visited. -/
structure Feasible (i : Inst) (as : List Nat) : Prop where
  range : ∀ a ∈ as, a ≤ i.n
  once  : ∀ j, 1 ≤ j → j ≤ i.n → as.count j ≤ 1
  prize : i.req ≤ collected i as ∨ AllVisited i as

/-- Feasible up to a prize tolerance (what a checker with a rounding tolerance may accept). -/
structure FeasibleWithin (tol : Int) (i : Inst) (as : List Nat) : Prop where
  range : ∀ a ∈ as, a ≤ i.n
  once  : ∀ j, 1 ≤ j → j ≤ i.n → as.count j ≤ 1
  prize : i.req - tol ≤ collected i as ∨ AllVisited i as

/-- executable version used as the run-time oracle -/
def feasible (i : Inst) (as : List Nat) : Bool :=
  as.all (fun a => decide (a ≤ i.n)) &&
  (List.range i.n).all (fun k => decide (as.count (k + 1) ≤ 1)) &&
  (decide (i.req ≤ collected i as) || (List.range i.n).all (fun k => decide (k + 1 ∈ as)))

theorem feasible_iff (i : Inst) (as : List Nat) : feasible i as = true ↔ Feasible i as := by
  simp only [feasible, Bool.and_eq_true, Bool.or_eq_true, List.all_eq_true, decide_eq_true_eq,
    List.mem_range]
  constructor
  · rintro ⟨⟨h1, h2⟩, h3⟩
    refine ⟨h1, ?_, ?_⟩
    · intro j hj1 hj2
      have := h2 (j - 1) (by omega)
      rwa [Nat.sub_add_cancel hj1] at this
    · rcases h3 with h3 | h3
      · exact Or.inl h3
      · refine Or.inr ?_
        intro j hj1 hj2
        have := h3 (j - 1) (by omega)
        rwa [Nat.sub_add_cancel hj1] at this
  · rintro ⟨h1, h2, h3⟩
    refine ⟨⟨h1, fun k hk => h2 (k + 1) (by omega) (by omega)⟩, ?_⟩
    rcases h3 with h3 | h3
    · exact Or.inl h3
    · exact Or.inr (fun k hk => h3 (k + 1) (by omega) (by omega))

/-- Objective (to be minimised): tour length + penalties of the customers that do not occur. -/
def objective (i : Inst) (as : List Nat) : Int :=
  pathLen i.D (0 :: as ++ [0]) + sumTo i.n (fun k => if k + 1 ∈ as then 0 else i.pen (k + 1))

/-- slack of the prize constraint (reported to the harness to classify boundary cases) -/
def slack (i : Inst) (as : List Nat) : Int := collected i as - i.req

end Rl4co.Spec.Pctsp
