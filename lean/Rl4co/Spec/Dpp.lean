/-
Independent definition of a feasible decap placement (single and multi port): exactly `quota`
distinct cells, none of them a keep-out cell (a cell the instance does not offer) and none a probing
port.  The objective (impedance suppression) is not modelled.  No Mathlib.
-/
import Rl4co.Env.Dpp
namespace Rl4co.Spec.Dpp
open Rl4co.Dpp (Inst)

/-- a cell that may carry a decap: offered by the instance and not a probing port -/
def allowed (i : Inst) (a : Nat) : Bool := i.avail a && !(i.probe a)

structure Feasible (i : Inst) (as : List Nat) : Prop where
  len   : (as.length : Int) = i.quota
  nodup : as.Nodup
  range : ∀ a ∈ as, a < i.n
  ok    : ∀ a ∈ as, allowed i a = true

def feasible (i : Inst) (as : List Nat) : Bool :=
  decide ((as.length : Int) = i.quota) && decide as.Nodup && as.all (fun a => decide (a < i.n)) &&
    as.all (fun a => allowed i a)

theorem feasible_iff (i : Inst) (as : List Nat) : feasible i as = true ↔ Feasible i as := by
  simp only [feasible, Bool.and_eq_true, decide_eq_true_eq, List.all_eq_true]
  constructor
  · rintro ⟨⟨⟨h1, h2⟩, h3⟩, h4⟩; exact ⟨h1, h2, h3, h4⟩
  · rintro ⟨h1, h2, h3, h4⟩; exact ⟨⟨⟨h1, h2⟩, h3⟩, h4⟩

end Rl4co.Spec.Dpp
