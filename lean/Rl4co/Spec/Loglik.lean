/-
Independent specification for C11 / C13: what "the log-probabilities the policy assigns along a
sequence" *is*.  Written from the property text only (teacher forcing: run the environment along the
given actions, ask the policy at every state, read the entry of the action taken); it does not
mention buffers, stacking, beams or parents.  No Mathlib.
-/
import Rl4co.Decode.Strategy
namespace Rl4co.Spec.Loglik
open Rl4co.Decode

variable {S : Type}

/-- state reached by executing `as` from `s` -/
def execD (e : DEnv S) (s : S) (as : List Nat) : S := as.foldl e.step s

/-- the policy's per-step distributions along `as` from `s` -/
def tfRows (e : DEnv S) (π : S → Row) : S → List Nat → List Row
  | _, [] => []
  | s, a :: as => π s :: tfRows e π (e.step s a) as

/-- the log-probability of each action of `as` under the policy, from `s` -/
def tfVals (e : DEnv S) (π : S → Row) : S → List Nat → List LP
  | _, [] => []
  | s, a :: as => gather (π s) a :: tfVals e π (e.step s a) as

/-- every action of the sequence is offered by the mask of the state it is taken in -/
def admittedD (e : DEnv S) : S → List Nat → Bool
  | _, [] => true
  | s, a :: as => e.mask s a && admittedD e (e.step s a) as

/-- Per-step log-probabilities of a returned sequence `acts` of an instance whose reset state is `s0`:
a forced (multi-start / beam-search) first move counts `0 = log 1`, every other move counts what the
policy assigns to it. -/
def specVals (e : DEnv S) (π : S → Row) (s0 : S) (forced : Bool) (acts : List Nat) : List LP :=
  if forced then
    match acts with
    | [] => []
    | a0 :: rest => some 0 :: tfVals e π (e.step s0 a0) rest
  else tfVals e π s0 acts

/-- Per-step distributions (the `[T, N]` slice a `store_all_logp` run returns); a forced move is the
all-zero row of width `N`. -/
def specRows (e : DEnv S) (π : S → Row) (N : Nat) (s0 : S) (forced : Bool) (acts : List Nat) :
    List Row :=
  if forced then
    match acts with
    | [] => []
    | a0 :: rest => List.replicate N (some 0) :: tfRows e π (e.step s0 a0) rest
  else tfRows e π s0 acts

/-- steps flagged irrelevant (`keep = false`) count zero -/
def applyMask (vals : List LP) : Option (List Bool) → List LP
  | none => vals
  | some m => List.zipWith (fun v keep => if keep then v else some 0) vals m

/-- exact sum, `none` if a `-inf` is involved -/
def sumLP : List LP → LP
  | [] => some 0
  | none :: _ => none
  | some a :: xs => match sumLP xs with
    | none => none
    | some b => some (a + b)

/-- The log-likelihood C11 asks for. -/
def specLL (e : DEnv S) (π : S → Row) (s0 : S) (forced : Bool) (acts : List Nat)
    (mask : Option (List Bool)) : LP :=
  sumLP (applyMask (specVals e π s0 forced acts) mask)

/-- maximum of the rewards of the `K` copies (`k·B + b`, `k < K`) of instance `b` -/
def bestReward (B : Nat) (rew : Nat → Int) (b : Nat) : Nat → Option Int
  | 0 => none
  | k + 1 => match bestReward B rew b k with
    | none => some (rew (k * B + b))
    | some m => some (if m ≤ rew (k * B + b) then rew (k * B + b) else m)

end Rl4co.Spec.Loglik
