/-
Independent definitions for the improvement environments (C09, and the C06 clauses of the k-opt TSP
and PDP ruin-repair checkers), written from the problem statement, not from the environment code.
No Mathlib.

A solution is a successor array `rec`.  It is a *tour* on `n` nodes when the nodes `0..n-1` can be
listed as one cyclic sequence in which every node is followed by its successor (`IsTour`).  A PDP
tour (node 0 = depot, pickups `1..h`, delivery of `i` is `i+h`) additionally visits every pickup
before its delivery when read from the depot (`PdpValid`).
-/
import Rl4co.Core.Basic

namespace Rl4co.Spec.Improve

/-- consecutive entries of the list are linked by `rec` -/
def Linked (rec : Nat → Nat) : List Nat → Prop
  | [] => True
  | [_] => True
  | x :: y :: t => rec x = y ∧ Linked rec (y :: t)

/-- `seq` is one full cycle of `rec`: consecutive entries are linked and the last entry links back
to the first. -/
def CycleOf (rec : Nat → Nat) (seq : List Nat) : Prop := Linked rec (seq ++ seq.take 1)

/-- `rec` restricted to `0..n-1` is a single cycle through all `n` nodes. -/
def IsTour (rec : Nat → Nat) (n : Nat) : Prop :=
  ∃ seq : List Nat, seq.Perm (List.range n) ∧ CycleOf rec seq

/-- `x` is visited before `y` in the sequence (for duplicate-free sequences). -/
def Before (seq : List Nat) (x y : Nat) : Prop := List.Sublist [x, y] seq

/-- PDP on `gs = 2h+1` nodes: a single cycle, and read from the depot every pickup `i ∈ 1..h`
comes before its delivery `i + h`. -/
def PdpValid (rec : Nat → Nat) (gs : Nat) : Prop :=
  ∃ rest : List Nat, (0 :: rest).Perm (List.range gs) ∧ CycleOf rec (0 :: rest) ∧
    ∀ i, 1 ≤ i → i ≤ gs / 2 → Before (0 :: rest) i (i + gs / 2)

/-- tour length over a distance matrix -/
def cost (n : Nat) (D : Nat → Nat → Int) (rec : Nat → Nat) : Int :=
  ((List.range n).map (fun j => D j (rec j))).sum

/-! executable oracles (used at run time on the outcomes of the real code) -/

/-- nodes met by `k` hops from `cur` (not including `cur`) -/
def walk (rec : Nat → Nat) : Nat → Nat → List Nat
  | 0, _ => []
  | k + 1, cur => rec cur :: walk rec k (rec cur)

/-- the `n` hops from node 0 meet `n` distinct nodes `< n` and end at 0 -/
def isTourB (rec : Nat → Nat) (n : Nat) : Bool :=
  let w := walk rec n 0
  decide (w.Nodup) && w.all (fun x => decide (x < n)) && (n == 0 || w.getLast? == some 0)

/-- position of `x` when reading the tour from the depot (depot = 0) -/
def posFrom0 (rec : Nat → Nat) (n : Nat) (x : Nat) : Nat := (0 :: walk rec (n - 1) 0).idxOf x

def pdpValidB (rec : Nat → Nat) (gs : Nat) : Bool :=
  isTourB rec gs &&
  (List.range (gs / 2)).all (fun k => decide (posFrom0 rec gs (k + 1) < posFrom0 rec gs (k + 1 + gs / 2)))

end Rl4co.Spec.Improve
