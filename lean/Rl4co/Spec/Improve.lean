/-
Independent definitions for the improvement environments (C09, and the C06 clauses of the k-opt TSP
and PDP ruin-repair checkers), written from the problem statement, not from the environment code.
No Mathlib.

A solution is a successor array `rec`.  It is a *tour* on `n` nodes when the nodes `0..n-1` can be
listed as one cyclic sequence in which every node is followed by its successor (`IsTour`).  A PDP
tour (node 0 = depot, pickups `1..h`, delivery of `i` is `i+h`) additionally visits every pickup
before its delivery when read from the depot (`PdpValid`).
-/
import Rl4co.Core.Basic

namespace Rl4co.Spec.Improve

/-- consecutive entries of the list are linked by `rec` -/
def Linked (rec : Nat → Nat) : List Nat → Prop
  | [] => True
  | [_] => True
  | x :: y :: t => rec x = y ∧ Linked rec (y :: t)

/-- `seq` is one full cycle of `rec`: consecutive entries are linked and the last entry links back
to the first. -/
def CycleOf (rec : Nat → Nat) (seq : List Nat) : Prop := Linked rec (seq ++ seq.take 1)

/-- `rec` restricted to `0..n-1` is a single cycle through all `n` nodes. -/
def IsTour (rec : Nat → Nat) (n : Nat) : Prop :=
  ∃ seq : List Nat, seq.Perm (List.range n) ∧ CycleOf rec seq

/-- `x` is visited before `y` in the sequence (for duplicate-free sequences). -/
def Before (seq : List Nat) (x y : Nat) : Prop := List.Sublist [x, y] seq

/-- PDP on `gs = 2h+1` nodes: a single cycle, and read from the depot every pickup `i ∈ 1..h`
comes before its delivery `i + h`. -/
def PdpValid (rec : Nat → Nat) (gs : Nat) : Prop :=
  ∃ rest : List Nat, (0 :: rest).Perm (List.range gs) ∧ CycleOf rec (0 :: rest) ∧
    ∀ i, 1 ≤ i → i ≤ gs / 2 → Before (0 :: rest) i (i + gs / 2)

/-- tour length over a distance matrix -/
def cost (n : Nat) (D : Nat → Nat → Int) (rec : Nat → Nat) : Int :=
  ((List.range n).map (fun j => D j (rec j))).sum

/-! executable oracles (used at run time on the outcomes of the real code) -/

/-- nodes met by `k` hops from `cur` (not including `cur`) -/
def walk (rec : Nat → Nat) : Nat → Nat → List Nat
  | 0, _ => []
  | k + 1, cur => rec cur :: walk rec k (rec cur)

/-- the `n` hops from node 0 meet `n` distinct nodes `< n` and end at 0 -/
def isTourB (rec : Nat → Nat) (n : Nat) : Bool :=
  let w := walk rec n 0
  decide (w.Nodup) && w.all (fun x => decide (x < n)) && (n == 0 || w.getLast? == some 0)

/-- position of `x` when reading the tour from the depot (depot = 0) -/
def posFrom0 (rec : Nat → Nat) (n : Nat) (x : Nat) : Nat := (0 :: walk rec (n - 1) 0).idxOf x

def pdpValidB (rec : Nat → Nat) (gs : Nat) : Bool :=
  isTourB rec gs &&
  (List.range (gs / 2)).all (fun k => decide (posFrom0 rec gs (k + 1) < posFrom0 rec gs (k + 1 + gs / 2)))


/-! ### a well-formed k-opt move (NeuOpt): in-place reversal of consecutive segments -/

instance instDecidableLinked (rec : Nat → Nat) : ∀ l : List Nat, Decidable (Linked rec l)
  | [] => isTrue trivial
  | [_] => isTrue trivial
  | x :: y :: t =>
    match Nat.decEq (rec x) y, instDecidableLinked rec (y :: t) with
    | isTrue h1, isTrue h2 => isTrue ⟨h1, h2⟩
    | isFalse h1, _ => isFalse (fun h => h1 h.1)
    | _, isFalse h2 => isFalse (fun h => h2 h.2)

instance (rec : Nat → Nat) (l : List Nat) : Decidable (CycleOf rec l) := by
  unfold CycleOf; infer_instance

/-- the new order of the nodes after the first one: every segment reversed in place, the rest kept -/
def newTail (segs : List (List Nat)) (R : List Nat) : List Nat :=
  (segs.map List.reverse).flatten ++ R

/-- the links a well-formed k-opt move installs, read along the segments: the node `u` in front of a
segment points to the LAST node of that segment; the first node of the last segment points to
whatever followed it (the head of `R ++ [t0]`). -/
def pairs (t0 : Nat) : Nat → List (List Nat) → List Nat → List (Nat × Nat)
  | u, [], R => [(u, (R ++ [t0]).headD t0)]
  | u, S :: segs, R => (u, S.getLastD t0) :: pairs t0 (S.headD t0) segs R

/-- **Well-formed k-opt move** `(sel, left, right)` on the tour `rec` (declarative): read from `t0`
the old tour is `t0, S₁, …, S_k, R` with non-empty segments; the installed pairs `(left_j, right_j)`
are exactly the links `t0 → last S₁`, `first S_j → last S_{j+1}`, `first S_k → first of (R ++ [t0])`
(repetitions allowed — the padding of the action); the successors of the selected nodes contain the
first node of every segment and of `R`, and no other node of a segment.  Its effect is to reverse
every segment in place: the new tour is `t0, rev S₁, …, rev S_k, R`. -/
def KoptMoveWF (n : Nat) (rec : Nat → Nat) (sel left right : List Nat) (t0 : Nat)
    (segs : List (List Nat)) (R : List Nat) : Prop :=
  (∀ S ∈ segs, S ≠ []) ∧
  (t0 :: (segs.flatten ++ R)).Perm (List.range n) ∧
  CycleOf rec (t0 :: (segs.flatten ++ R)) ∧
  left.headD 0 = t0 ∧
  (∀ p ∈ left.zip right, p ∈ pairs t0 t0 segs R) ∧
  (∀ p ∈ pairs t0 t0 segs R, p ∈ left.zip right) ∧
  (∀ S ∈ segs, S.headD t0 ∈ sel.map rec ∧ ∀ z ∈ S.tail, z ∉ sel.map rec) ∧
  (∀ v ∈ R.take 1, v ∈ sel.map rec)

instance (n : Nat) (rec : Nat → Nat) (sel left right : List Nat) (t0 : Nat)
    (segs : List (List Nat)) (R : List Nat) : Decidable (KoptMoveWF n rec sel left right t0 segs R) := by
  unfold KoptMoveWF; infer_instance

/-- witness search (untrusted, used by the driver only): rebuild `t0`, the segments and the rest from
the installed pairs by walking the old tour -/
def walkTo (rec : Nat → Nat) (stop : Nat) : Nat → Nat → List Nat
  | 0, _ => []
  | k + 1, cur => if cur = stop then [cur] else cur :: walkTo rec stop k (rec cur)

def walkUntil (rec : Nat → Nat) (stop : Nat) : Nat → Nat → List Nat
  | 0, _ => []
  | k + 1, cur => if cur = stop then [] else cur :: walkUntil rec stop k (rec cur)

def findWitness (n : Nat) (rec : Nat → Nat) (left right : List Nat) : Nat × List (List Nat) × List Nat :=
  let t0 := left.headD 0
  let ps := (left.zip right).eraseDups
  let ends := ps.dropLast.map (·.2)
  let acc := ends.foldl (fun (acc : List (List Nat) × Nat) e => (acc.1 ++ [walkTo rec e n acc.2], rec e))
    ([], rec t0)
  (t0, acc.1, walkUntil rec t0 n acc.2)

def koptMoveWFB (n : Nat) (rec : Nat → Nat) (sel left right : List Nat) : Bool :=
  let w := findWitness n rec left right
  decide (KoptMoveWF n rec sel left right w.1 w.2.1 w.2.2)

end Rl4co.Spec.Improve
