/-
Independent definition of the single-machine total weighted tardiness problem: a schedule is an
order of the jobs `1..n`, each exactly once (the dummy node 0 is not a job); job `a` completes at the
sum of the processing times of the jobs up to and including it; the objective is
Σ_a w_a · max(0, C_a − d_a).  No Mathlib.
-/
namespace Rl4co.Spec.Smtwtp

structure Feasible (n : Nat) (as : List Nat) : Prop where
  range : ∀ a ∈ as, 1 ≤ a ∧ a ≤ n
  once  : ∀ j, 1 ≤ j → j ≤ n → as.count j = 1

def feasible (n : Nat) (as : List Nat) : Bool :=
  as.all (fun a => decide (1 ≤ a ∧ a ≤ n)) && (List.range n).all (fun k => as.count (k + 1) == 1)

theorem feasible_iff (n : Nat) (as : List Nat) : feasible n as = true ↔ Feasible n as := by
  simp only [feasible, Bool.and_eq_true, List.all_eq_true, decide_eq_true_eq, List.mem_range,
    beq_iff_eq]
  constructor
  · rintro ⟨h1, h2⟩
    refine ⟨h1, ?_⟩
    intro j hj1 hj2
    have := h2 (j - 1) (by omega)
    rwa [Nat.sub_add_cancel hj1] at this
  · rintro ⟨h1, h2⟩
    exact ⟨h1, fun k hk => h2 (k + 1) (by omega) (by omega)⟩

/-- weighted tardiness of the jobs `as` processed back to back from time `t` on -/
def wtFrom (p d w : Nat → Int) (t : Int) : List Nat → Int
  | [] => 0
  | a :: as => w a * max 0 (t + p a - d a) + wtFrom p d w (t + p a) as

def objective (p d w : Nat → Int) (as : List Nat) : Int := wtFrom p d w 0 as

end Rl4co.Spec.Smtwtp
