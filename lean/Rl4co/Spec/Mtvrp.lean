/-
Independent definition of a feasible solution of the multi-task VRP (capacity C, open routes O,
backhauls B, duration limit L, time windows TW — any combination) and of its objective, written from
the problem statement (docstring of `MTVRPEnv`, Vidal et al. / PyVRP conventions), not from the
environment code.  A solution is the list of visited nodes (0 = depot visit); routes are the maximal
depot-free segments.  An absent feature is an infinite bound (`none`).  No Mathlib.

Per non-empty route `r` (driven depot → r → depot, or depot → r when routes are open):
* linehaul (delivery) load  Σ dL ≤ Q and backhaul (pickup) load  Σ dB ≤ Q;
* no linehaul customer after a backhaul customer;
* travelled length ≤ L, the return leg not counted when open;
* the vehicle leaves the depot at time 0, travels with times `T`, waits until `e_j` if early, must START
  service at `j` no later than `l_j` (equality allowed), serves for `s_j`; when routes are closed it
  must be back at the depot no later than `l_0`.
-/
import Rl4co.Core.Tour
import Rl4co.Env.Mtvrp
namespace Rl4co.Spec.Mtvrp
open Rl4co.Mtvrp (Inst cmpInf)

/-- `x ≤ bound` (`c = .le`, the problem statement) or `x < bound` (`c = .lt`, "with slack": only reported by
the driver so that the harness can tell boundary solutions apart), the bound possibly infinite -/
abbrev within (c : Cmp) (x : Int) (b : Option Int) : Bool := cmpInf c x b

/-- clock simulation along the rest `r` of a route, standing at `cur` with service finished at `t` -/
def timeOk (c : Cmp) (i : Inst) : Nat → Int → List Nat → Bool
  | cur, t, [] => i.openR || within c (t + i.T cur 0) (i.late 0)
  | cur, t, a :: r =>
    within c (t + i.T cur a) (i.late a)
    && timeOk c i a (max (t + i.T cur a) (i.early a) + i.service a) r

/-- travelled length of a route: depot → r (→ depot unless open) -/
def routeDist (i : Inst) (r : List Nat) : Int :=
  pathLen i.D (0 :: r ++ (if i.openR then [] else [0]))

/-- "no linehaul customer after a backhaul customer" -/
def Ordered (i : Inst) (r : List Nat) : Prop :=
  r.Pairwise (fun a b => ¬ (0 < i.dB a ∧ 0 < i.dL b))

instance (i : Inst) (r : List Nat) : Decidable (Ordered i r) := by unfold Ordered; infer_instance

structure RouteOk (c : Cmp) (i : Inst) (r : List Nat) : Prop where
  loadL : (r.map i.dL).sum ≤ i.cap
  loadB : (r.map i.dB).sum ≤ i.cap
  order : Ordered i r
  dist  : within .le (routeDist i r) i.limit = true
  time  : timeOk c i 0 0 r = true

/-- Feasible (deadline comparison `c`): all nodes in range, every customer exactly once, every
non-empty route satisfies the route constraints. -/
structure FeasibleC (c : Cmp) (i : Inst) (as : List Nat) : Prop where
  range : ∀ a ∈ as, a ≤ i.n
  once  : ∀ j, 1 ≤ j → j ≤ i.n → as.count j = 1
  route : ∀ r ∈ routes as, r ≠ [] → RouteOk c i r

/-- **The** feasibility notion of the problem statement: deadlines may be met with equality. -/
abbrev Feasible (i : Inst) (as : List Nat) : Prop := FeasibleC .le i as

/-! executable versions (run-time oracle), with the per-constraint verdicts the harness uses to
classify a disagreement between the checker and the definition -/

def onceB (i : Inst) (as : List Nat) : Bool :=
  as.all (fun a => decide (a ≤ i.n)) && (List.range i.n).all (fun k => as.count (k + 1) == 1)
def loadB (i : Inst) (as : List Nat) : Bool :=
  (routes as).all (fun r => decide ((r.map i.dL).sum ≤ i.cap) && decide ((r.map i.dB).sum ≤ i.cap))
def orderB (i : Inst) (as : List Nat) : Bool := (routes as).all (fun r => decide (Ordered i r))
def distB (i : Inst) (as : List Nat) : Bool :=
  (routes as).all (fun r => r.isEmpty || within .le (routeDist i r) i.limit)
def timeB (c : Cmp) (i : Inst) (as : List Nat) : Bool :=
  (routes as).all (fun r => r.isEmpty || timeOk c i 0 0 r)

def routeOkB (c : Cmp) (i : Inst) (r : List Nat) : Bool :=
  decide ((r.map i.dL).sum ≤ i.cap) && decide ((r.map i.dB).sum ≤ i.cap) && decide (Ordered i r)
  && within .le (routeDist i r) i.limit && timeOk c i 0 0 r

theorem routeOkB_iff (c : Cmp) (i : Inst) (r : List Nat) : routeOkB c i r = true ↔ RouteOk c i r := by
  simp only [routeOkB, Bool.and_eq_true, decide_eq_true_eq]
  constructor
  · rintro ⟨⟨⟨⟨h1, h2⟩, h3⟩, h4⟩, h5⟩; exact ⟨h1, h2, h3, h4, h5⟩
  · rintro ⟨h1, h2, h3, h4, h5⟩; exact ⟨⟨⟨⟨h1, h2⟩, h3⟩, h4⟩, h5⟩

def feasibleC (c : Cmp) (i : Inst) (as : List Nat) : Bool :=
  onceB i as && (routes as).all (fun r => r.isEmpty || routeOkB c i r)

def feasible (i : Inst) (as : List Nat) : Bool := feasibleC .le i as

theorem feasibleC_iff (c : Cmp) (i : Inst) (as : List Nat) :
    feasibleC c i as = true ↔ FeasibleC c i as := by
  simp only [feasibleC, onceB, Bool.and_eq_true, List.all_eq_true, decide_eq_true_eq, List.mem_range,
    beq_iff_eq, Bool.or_eq_true, List.isEmpty_iff]
  constructor
  · rintro ⟨⟨h1, h2⟩, h3⟩
    refine ⟨h1, ?_, ?_⟩
    · intro j hj1 hj2
      have := h2 (j - 1) (by omega)
      rwa [Nat.sub_add_cancel hj1] at this
    · intro r hr hne
      rcases h3 r hr with h | h
      · exact absurd h hne
      · exact (routeOkB_iff c i r).1 h
  · rintro ⟨h1, h2, h3⟩
    refine ⟨⟨h1, fun k hk => h2 (k + 1) (by omega) (by omega)⟩, ?_⟩
    intro r hr
    by_cases hne : r = []
    · exact Or.inl hne
    · exact Or.inr ((routeOkB_iff c i r).2 (h3 r hr hne))

theorem feasible_iff (i : Inst) (as : List Nat) : feasible i as = true ↔ Feasible i as :=
  feasibleC_iff .le i as

/-! ### the set of solutions the shipped checker accepts, described independently of its code

`check_solution_validity` differs from `Feasible` in exactly three documented ways (C06 findings): it never looks at
the linehaul/backhaul order; it applies the depot deadline to every leg INTO the depot, also for open routes; and it
only replays the legs listed in the action list, so the way back of the trailing route (the one not followed by a
depot visit) is tested neither against the distance limit nor against the depot deadline.  `Accepted` is `Feasible`
with precisely these three changes; `Rl4co.Mtvrp.check_iff` proves that it IS the accepted set. -/

/-- a route followed by a depot visit in the action list -/
structure ClosedOk (i : Inst) (r : List Nat) : Prop where
  loadL : (r.map i.dL).sum ≤ i.cap
  loadB : (r.map i.dB).sum ≤ i.cap
  dist  : within .le (routeDist i r) i.limit = true
  time  : timeOk .le { i with openR := false } 0 0 r = true

/-- the trailing route (not followed by a depot visit): its way back is not looked at -/
structure TrailOk (i : Inst) (r : List Nat) : Prop where
  loadL : (r.map i.dL).sum ≤ i.cap
  loadB : (r.map i.dB).sum ≤ i.cap
  dist  : within .le (pathLen i.D (0 :: r)) i.limit = true
  time  : timeOk .le { i with openR := true } 0 0 r = true

structure Accepted (i : Inst) (as : List Nat) : Prop where
  range  : ∀ a ∈ as, a ≤ i.n
  once   : ∀ j, 1 ≤ j → j ≤ i.n → as.count j = 1
  closed : ∀ r ∈ (routes as).dropLast, r ≠ [] → ClosedOk i r
  trail  : ∀ r, (routes as).getLast? = some r → r ≠ [] → TrailOk i r

/-! executable version of `Accepted` (run-time oracle: the real checker's verdict must equal it) -/

def closedOkB (i : Inst) (r : List Nat) : Bool :=
  decide ((r.map i.dL).sum ≤ i.cap) && decide ((r.map i.dB).sum ≤ i.cap)
  && within .le (routeDist i r) i.limit && timeOk .le { i with openR := false } 0 0 r
def trailOkB (i : Inst) (r : List Nat) : Bool :=
  decide ((r.map i.dL).sum ≤ i.cap) && decide ((r.map i.dB).sum ≤ i.cap)
  && within .le (pathLen i.D (0 :: r)) i.limit && timeOk .le { i with openR := true } 0 0 r

def acceptedB (i : Inst) (as : List Nat) : Bool :=
  onceB i as && (routes as).dropLast.all (fun r => r.isEmpty || closedOkB i r)
  && (match (routes as).getLast? with
      | some r => r.isEmpty || trailOkB i r
      | none => true)

theorem acceptedB_iff (i : Inst) (as : List Nat) : acceptedB i as = true ↔ Accepted i as := by
  have hc : ∀ r, closedOkB i r = true ↔ ClosedOk i r := by
    intro r
    simp only [closedOkB, Bool.and_eq_true, decide_eq_true_eq]
    exact ⟨fun ⟨⟨⟨a, b⟩, c⟩, d⟩ => ⟨a, b, c, d⟩, fun ⟨a, b, c, d⟩ => ⟨⟨⟨a, b⟩, c⟩, d⟩⟩
  have ht : ∀ r, trailOkB i r = true ↔ TrailOk i r := by
    intro r
    simp only [trailOkB, Bool.and_eq_true, decide_eq_true_eq]
    exact ⟨fun ⟨⟨⟨a, b⟩, c⟩, d⟩ => ⟨a, b, c, d⟩, fun ⟨a, b, c, d⟩ => ⟨⟨⟨a, b⟩, c⟩, d⟩⟩
  simp only [acceptedB, onceB, Bool.and_eq_true, List.all_eq_true, decide_eq_true_eq, List.mem_range,
    beq_iff_eq, Bool.or_eq_true, List.isEmpty_iff]
  constructor
  · rintro ⟨⟨⟨h1, h2⟩, h3⟩, h4⟩
    refine ⟨h1, ?_, ?_, ?_⟩
    · intro j hj1 hj2
      have := h2 (j - 1) (by omega)
      rwa [Nat.sub_add_cancel hj1] at this
    · intro r hr hne
      rcases h3 r hr with h | h
      · exact absurd h hne
      · exact (hc r).1 h
    · intro r hr hne
      rw [hr] at h4
      simp only [Bool.or_eq_true, List.isEmpty_iff] at h4
      rcases h4 with h | h
      · exact absurd h hne
      · exact (ht r).1 h
  · rintro ⟨h1, h2, h3, h4⟩
    refine ⟨⟨⟨h1, fun k hk => h2 (k + 1) (by omega) (by omega)⟩, ?_⟩, ?_⟩
    · intro r hr
      by_cases hne : r = []
      · exact Or.inl hne
      · exact Or.inr ((hc r).2 (h3 r hr hne))
    · cases hl : (routes as).getLast? with
      | none => rfl
      | some r =>
        simp only [Bool.or_eq_true, List.isEmpty_iff]
        by_cases hne : r = []
        · exact Or.inl hne
        · exact Or.inr ((ht r).2 (h4 r hl hne))

/-- cost of one route: depot → customers (→ depot unless routes are open); empty routes cost nothing -/
def routeCost (i : Inst) (r : List Nat) : Int := if r = [] then 0 else routeDist i r

/-- Objective: total travelled length; the legs back to the depot are not charged for open routes. -/
def objective (i : Inst) (as : List Nat) : Int := ((routes as).map (routeCost i)).sum

end Rl4co.Spec.Mtvrp
