/-
Model of `rl4co/utils/decoding.py:BeamSearch`.  No Mathlib.

    BeamSearch.pre_decoder_hook   → `beamPre`
    BeamSearch._make_beam_step    → `topInd`, `hstacked`, the `selected / parent / bbi` of `beamStep`
    BeamSearch._step + DecodingStrategy.step (store_all_logp=True) + env.step → `beamStep`
    BeamSearch._backtrack         → `btActs`, `btRows`  (`btFromActs`, `btFromRows` = the `for` loop)
    BeamSearch._select_best_beam  → `Decode.selectBestRow` / `ValidArgmax` (same index law as `_select_best`)
    the `while not done.all()` loop of `ConstructivePolicy.forward` → `beamLoop`

All `[B·W]`/`[B·W, N]` tensors are functions of the *flat* row index `i = w·B + b` (beam-major, as
`batchify` lays them out), so the index arithmetic of the code (`% N`, `// N`,
`batch_beam_sequence + parent * batch_size`, `split(batch_size)`/`cat(dim=1)`,
`hstack(unbind(·, 1))`) appears literally.  The python buffers `self.actions / self.logprobs /
self.beam_path` are one list of `BeamBuf` in *reverse* chronological order (`append` = cons), which
is the order `_backtrack` consumes them in.  `torch.topk` is an oracle: `beamStep` receives, per
instance `b`, the list of `W` column indices it returned, constrained only by `ValidTop`.
`plus` is the addition used for `logprobs + parent_beam_logprobs` (float32 addition in the driver,
arbitrary in the theorems).
-/
import Rl4co.Decode.Strategy
namespace Rl4co.Decode

structure BeamCfg where
  B : Nat  -- batch_size (instances)
  W : Nat  -- beam_width
  N : Nat  -- num_nodes = logprobs.shape[1]

/-- entry `k` of `self.actions`, `self.logprobs`, `self.beam_path` -/
structure BeamBuf where
  acts : Nat → Nat
  rows : Nat → Row
  parent : Nat → Nat

structure BeamSt (S : Type) where
  s : Nat → S          -- rows of `td`
  score : Nat → LP     -- `self.parent_beam_logprobs`
  bufs : List BeamBuf  -- head = most recent

variable {S : Type}

/-- order on scores with `-inf` at the bottom -/
def lpLe : LP → LP → Bool
  | none, _ => true
  | some _, none => false
  | some a, some b => decide (a ≤ b)

/-- `pre_decoder_hook`: `td = batchify(td, W)` (row `i` is instance `i % B`), forced start `start i`,
`env.step`, zero log-prob rows, `beam_parent = 0`, `parent_beam_logprobs = zeros.gather(action) = 0`. -/
def beamPre (e : DEnv S) (c : BeamCfg) (start : Nat → Nat) (s0 : Nat → S) : BeamSt S :=
  { s := fun i => e.step (s0 (i % c.B)) (start i),
    score := fun _ => some Params.beamForcedLogp,
    bufs := [{ acts := start, rows := fun _ => List.replicate c.N (some Params.beamForcedLogp), parent := fun _ => 0 }] }

/-- `log_beam_prob = logprobs + self.parent_beam_logprobs` -/
def logBeam (plus : Int → Int → Int) (lp : Nat → Row) (score : Nat → LP) (i j : Nat) : LP :=
  lpAdd plus (gather (lp i) j) (score i)

/-- `torch.cat(log_beam_prob.split(batch_size), dim=1)[b][pos]`: chunk `w = pos / N` holds rows
`w·B … w·B+B-1`, so column `w·N + j` of row `b` is `log_beam_prob[w·B + b][j]`. -/
def hstacked (c : BeamCfg) (plus : Int → Int → Int) (lp : Nat → Row) (score : Nat → LP)
    (b pos : Nat) : LP :=
  logBeam plus lp score ((pos / c.N) * c.B + b) (pos % c.N)

/-- `topk_ind = torch.hstack(torch.unbind(topk_ind, 1))`: flat index `k·B + b` ↦ `topk_ind[b][k]` -/
def topInd (c : BeamCfg) (top : Nat → List Nat) (i : Nat) : Nat := (top (i % c.B)).getD (i / c.B) 0

/-- `selected = topk_ind % num_nodes` -/
def selectedOf (c : BeamCfg) (top : Nat → List Nat) (i : Nat) : Nat :=
  if Params.beamSelectedIsMod then topInd c top i % c.N else topInd c top i / c.N
/-- `beam_parent = topk_ind // num_nodes` -/
def parentOf (c : BeamCfg) (top : Nat → List Nat) (i : Nat) : Nat :=
  if Params.beamParentIsFloorDiv then topInd c top i / c.N else topInd c top i % c.N
/-- `batch_beam_idx = batch_beam_sequence + beam_parent * batch_size`,
`batch_beam_sequence = arange(B).repeat(W)` i.e. `i % B` -/
def bbiOf (c : BeamCfg) (top : Nat → List Nat) (i : Nat) : Nat :=
  if Params.beamBbiSeqPlusParentTimesB then i % c.B + parentOf c top i * c.B else i % c.B + parentOf c top i

/-- what `DecodingStrategy.step` / `_make_beam_step` append to `self.actions`, `self.logprobs` (the
parent-aligned rows `logprobs[batch_beam_idx]`) and `self.beam_path` -/
def stepBuf (c : BeamCfg) (lp : Nat → Row) (top : Nat → List Nat) : BeamBuf :=
  { acts := selectedOf c top, rows := fun i => lp (bbiOf c top i), parent := parentOf c top }

/-- One decoding step in beam-search mode: `_make_beam_step`, the re-indexing `td[batch_beam_idx]`,
`logprobs[batch_beam_idx]` of `_step`, the buffer appends of `DecodingStrategy.step` and `env.step`.
`lp i` is the processed log-prob row the decoder produced for row `i` of the current `td`. -/
def beamStep (e : DEnv S) (c : BeamCfg) (plus : Int → Int → Int) (lp : Nat → Row)
    (top : Nat → List Nat) (st : BeamSt S) : BeamSt S :=
  { s := fun i => e.step (st.s (bbiOf c top i)) (selectedOf c top i),
    score := fun i => hstacked c plus lp st.score (i % c.B) (topInd c top i),
    bufs := stepBuf c lp top :: st.bufs }

/-- `torch.topk(x, self.beam_width, dim=1)` keeps the *largest* entries (`Params.beamTopkLargest`: no
`largest=False`) and exactly `beam_width` of them (`Params.beamTopkKIsWidth`): a non-kept value `q` must not
beat a kept value `p` -/
def topkLe (q p : LP) : Bool :=
  if Params.beamTopkLargest && Params.beamTopkKIsWidth then lpLe q p else lpLe p q

/-- What `torch.topk(x, W, dim=1)` may return for one row `val` of width `W·N`: `W` distinct
columns, none of the others strictly better than any of them. -/
def ValidTop (c : BeamCfg) (val : Nat → LP) (l : List Nat) : Prop :=
  l.length = c.W ∧ l.Nodup ∧ (∀ p ∈ l, p < c.W * c.N) ∧
    ∀ q, q < c.W * c.N → q ∉ l → ∀ p ∈ l, topkLe (val q) (val p) = true

/-- executable `ValidTop` (plus the `sorted=True` order of the returned values) -/
def validTop (c : BeamCfg) (val : Nat → LP) (l : List Nat) : Bool :=
  decide (l.length = c.W) && decide l.Nodup && l.all (fun p => decide (p < c.W * c.N)) &&
    (List.range (c.W * c.N)).all (fun q => l.contains q || l.all (fun p => topkLe (val q) (val p)))

/-- the `for k in reversed(range(len(beam_path) - 1))` loop of `_backtrack` for the final row whose
`batch_beam_sequence` entry is `b`; `cur` is `cur_parent` of that row. -/
def btFromActs (B b : Nat) : List BeamBuf → Nat → List Nat
  | [], _ => []
  | buf :: rest, cur =>
    let idx := if Params.beamBacktrackSeqPlusParentTimesB then b + cur * B else b + cur
    btFromActs B b rest (buf.parent idx) ++ [buf.acts idx]

def btFromRows (B b : Nat) : List BeamBuf → Nat → List Row
  | [], _ => []
  | buf :: rest, cur =>
    let idx := if Params.beamBacktrackSeqPlusParentTimesB then b + cur * B else b + cur
    btFromRows B b rest (buf.parent idx) ++ [buf.rows idx]

/-- `_backtrack()[0][i]`: the aligned action sequence of final row `i` -/
def btActs (B : Nat) : List BeamBuf → Nat → List Nat
  | [], _ => []
  | buf :: rest, i => btFromActs B (i % B) rest (buf.parent i) ++ [buf.acts i]

/-- `_backtrack()[1][i]`: the aligned `[T, N]` log-prob rows of final row `i` -/
def btRows (B : Nat) : List BeamBuf → Nat → List Row
  | [], _ => []
  | buf :: rest, i => btFromRows B (i % B) rest (buf.parent i) ++ [buf.rows i]

/-- `td["done"].all()` over the `B·W` rows -/
def beamAllDone (e : DEnv S) (c : BeamCfg) (st : BeamSt S) : Bool :=
  (List.range (c.B * c.W)).all (fun i => e.done (st.s i))

/-- The decoding loop in beam-search mode; `tk val` is `torch.topk(val, W)` for one row. -/
def beamLoop (e : DEnv S) (π : S → Row) (c : BeamCfg) (plus : Int → Int → Int)
    (tk : (Nat → LP) → List Nat) : Nat → Nat → BeamSt S → BeamSt S × Nat
  | 0, t, st => (st, t)
  | f + 1, t, st =>
    if beamAllDone e c st then (st, t)
    else
      let lp := fun i => π (st.s i)
      beamLoop e π c plus tk f (t + 1)
        (beamStep e c plus lp (fun b => tk (hstacked c plus lp st.score b)) st)

/-- `policy(td, env, decode_type="beam_search", beam_width=W)` up to `_backtrack` -/
def beamDecode (e : DEnv S) (π : S → Row) (c : BeamCfg) (plus : Int → Int → Int)
    (tk : (Nat → LP) → List Nat) (maxSteps : Nat) (start : Nat → Nat) (s0 : Nat → S) :
    BeamSt S × Nat :=
  beamLoop e π c plus tk (maxSteps + 1) 0 (beamPre e c start s0)

end Rl4co.Decode
