/-
Model of the bookkeeping of a decoding strategy object, `rl4co/utils/decoding.py`:

  DecodingStrategy.__init__           → `StratState.init`      (`self.actions = []`, `self.logprobs = []`)
  DecodingStrategy.step               → `stepBook`  (`logprobs = gather_by_index(logprobs, selected_action)` unless
                                         `store_all_logp`; `self.actions.append`, `self.logprobs.append`)
  Evaluate._step                      → `evaluateSelect` (the selected action is the given one)
  DecodingStrategy.post_decoder_hook  → `postHook`  (`torch.stack(self.logprobs, 1)`, `torch.stack(self.actions, 1)`;
                                         without `select_best`)

One row of the batch; a step is the emitted distribution of that step (`prob = exp(logprobs)`, a function on
action indices) together with the selected action.  `pre_decoder_hook` does *not* reset the lists, so a
second decoding sequence on the same object continues them (`runSteps_append`).  No Mathlib.
-/
import Rl4co.Decode.ProcessLogits
namespace Rl4co.Decode

/-- what `step` stores for one decoding step: the gathered entry, or the whole row with `store_all_logp` -/
inductive Logp (K : Type) where
  | one (v : K)
  | all (row : Nat → K)

/-- `self.actions`, `self.logprobs` of a strategy object (one row) -/
structure StratState (K : Type) where
  actions : List Nat
  logprobs : List (Logp K)

/-- `__init__`: empty buffers -/
def StratState.init {K : Type} : StratState K := { actions := [], logprobs := [] }

/-- the tail of `DecodingStrategy.step` after `_step` returned `selected`:
`if not self.store_all_logp: logprobs = gather_by_index(logprobs, selected_action, dim=1)`, then both appends -/
def stepBook {K : Type} (storeAll : Bool) (st : StratState K) (prob : Nat → K) (selected : Nat) : StratState K :=
  { actions := st.actions ++ [selected],
    logprobs := st.logprobs ++ [if storeAll then Logp.all prob else Logp.one (prob selected)] }

/-- `Evaluate._step`: `selected = action` (the externally given action), whatever the distribution -/
def evaluateSelect (given : Nat) : Nat := given

/-- a sequence of `step` calls -/
def runSteps {K : Type} (storeAll : Bool) (st : StratState K) (steps : List ((Nat → K) × Nat)) : StratState K :=
  steps.foldl (fun s ps => stepBook storeAll s ps.1 ps.2) st

/-- `post_decoder_hook` (no `select_best`): the stacked buffers -/
def postHook {K : Type} (st : StratState K) : List (Logp K) × List Nat := (st.logprobs, st.actions)

/-- the entry stored for a step -/
def entryOf {K : Type} (storeAll : Bool) (ps : (Nat → K) × Nat) : Logp K :=
  if storeAll then Logp.all ps.1 else Logp.one (ps.1 ps.2)

theorem runSteps_append {K : Type} (storeAll : Bool) (st : StratState K) (steps : List ((Nat → K) × Nat)) :
    (runSteps storeAll st steps).actions = st.actions ++ steps.map (·.2) ∧
    (runSteps storeAll st steps).logprobs = st.logprobs ++ steps.map (entryOf storeAll) := by
  induction steps generalizing st with
  | nil => simp [runSteps]
  | cons s rest ih =>
    have := ih (stepBook storeAll st s.1 s.2)
    simp only [runSteps, List.foldl_cons] at this ⊢
    rw [this.1, this.2]
    simp [stepBook, entryOf, List.append_assoc]

/-- **fresh object**: `post_decoder_hook` returns exactly the per-step selected actions, in order, and for
each step the probability of the action selected at that step (or the whole row with `store_all_logp`). -/
theorem postHook_fresh {K : Type} (storeAll : Bool) (steps : List ((Nat → K) × Nat)) :
    postHook (runSteps storeAll StratState.init steps) = (steps.map (entryOf storeAll), steps.map (·.2)) := by
  have := runSteps_append storeAll (StratState.init (K := K)) steps
  simp only [postHook, StratState.init, List.nil_append] at this ⊢
  rw [this.1, this.2]

/-- **object reuse**: the buffers are not reset by `pre_decoder_hook`; a second sequence of steps on the same
object returns the first sequence followed by the second. -/
theorem postHook_reuse {K : Type} (storeAll : Bool) (first second : List ((Nat → K) × Nat)) :
    postHook (runSteps storeAll (runSteps storeAll StratState.init first) second) =
      ((first ++ second).map (entryOf storeAll), (first ++ second).map (·.2)) := by
  have h1 := runSteps_append storeAll (StratState.init (K := K)) first
  have h2 := runSteps_append storeAll (runSteps storeAll StratState.init first) second
  unfold postHook
  rw [h2.1, h2.2, h1.1, h1.2]
  simp [StratState.init]

/-- **Evaluate**: with given actions `as`, the returned actions are `as` and the stored entry of step `t` is the
probability the step's distribution gives to `as[t]`. -/
theorem evaluate_gathers {K : Type} (probs : List (Nat → K)) (given : List Nat) (h : probs.length = given.length) :
    postHook (runSteps false StratState.init ((probs.zip given).map (fun pg => (pg.1, evaluateSelect pg.2)))) =
      ((probs.zip given).map (fun pg => Logp.one (pg.1 pg.2)), given) := by
  rw [postHook_fresh]
  simp only [List.map_map]
  refine Prod.ext ?_ ?_
  · simp [entryOf, evaluateSelect, Function.comp_def]
  · simp only [Function.comp_def, evaluateSelect]
    exact List.map_snd_zip (Nat.le_of_eq h.symm)

end Rl4co.Decode
