/-
Model of logit processing and action selection, `rl4co/utils/decoding.py`:

  process_logits                       → `processLogits`   (stages in the code's order)
  modify_logits_for_top_k_filtering    → `topKStage`
  modify_logits_for_top_p_filtering    → `topPStage`
  F.log_softmax                        → `softmaxN` (the distribution) + `Out.lg` (finite ⇔ logprob > -inf)
  DecodingStrategy.greedy              → `greedy` (+ validity of the observed argmax `GreedyValid`)
  DecodingStrategy.sampling            → `sampleLoop` / `sampleLoopB` (resample-while-infeasible)
  Greedy._step / Sampling._step via DecodingStrategy.step → `stepGreedy` / `stepSampling`

One row of the batch is a function `Nat → K` on indices `< n`; `-inf` is `none`.  The number type `K`
is abstract (only the operations the code uses); the proofs instantiate it with a linearly ordered
field and `Real`, the driver with `Rat`.  `exp` is an abstract weight function `w`, the tanh clipping
`tanh(·)·C` an abstract function `clip`.

`torch.topk`, `torch.sort` and `argmax` break ties in an unspecified way and `torch.multinomial` is
random: what they returned is an *oracle input* of the model (`kth` = index of the k-th largest entry,
`σ` = the ascending sorting permutation, `a` = the chosen index, `draws` = the successive multinomial
draws), constrained only by the validity predicates below.  No Mathlib.
-/
import Rl4co.Core.Basic
namespace Rl4co.Decode

/-- Σ_{i<n} f i -/
def sumN {K : Type} [Add K] [OfNat K 0] : Nat → (Nat → K) → K
  | 0, _ => 0
  | n + 1, f => sumN n f + f n

/-- What the theorems need of `exp`: positive, strictly increasing, `exp (x + c) = exp x * exp c`
(instantiated by `Real.exp` in the proofs and by `y ↦ 2^y` on integers in the driver). -/
structure ExpLike {K : Type} [Add K] [Mul K] [LT K] [OfNat K 0] (w : K → K) : Prop where
  pos : ∀ x, 0 < w x
  strictMono : ∀ x y, x < y → w x < w y
  mul : ∀ x c, w (x + c) = w x * w c

/-- A row of values, as a function behind a structure: the compiler evaluates a `Vec`-valued
definition once per call (a bare `Nat → α` result would be eta-expanded and its `let`s recomputed on
every index). -/
structure Vec (α : Type) where
  get : Nat → α

/-- `f` tabulated on `0..n-1` (an array behind the function); semantically `⟨f⟩`, see `Vec.tab_get`. -/
def Vec.tab {α : Type} (n : Nat) (f : Nat → α) : Vec α :=
  let a := Array.ofFn (n := n) (fun i => f i.val)
  ⟨fun j => if h : j < a.size then a[j] else f j⟩

@[simp] theorem Vec.tab_get {α : Type} (n : Nat) (f : Nat → α) (j : Nat) : (Vec.tab n f).get j = f j := by
  simp only [Vec.tab]
  split
  · simp
  · rfl

section order
variable {K : Type} [LT K] [DecidableLT K]

/-- strict order on logits with `none = -inf` below everything (`a < b` on float tensors) -/
def ltO : Option K → Option K → Bool
  | none, none => false
  | none, some _ => true
  | some _, none => false
  | some a, some b => decide (a < b)

/-- `a ≤ b` as `¬ b < a` (total order) -/
def leO (a b : Option K) : Bool := !ltO b a

end order

/-- decoding configuration (`DecodingStrategy.__init__` / `process_logits` keyword arguments;
`mask_logits = True`) -/
structure Cfg (K : Type) where
  temp : K          -- temperature
  topK : Nat        -- top_k
  topP : K          -- top_p
  clipOn : Bool     -- tanh_clipping > 0

section stages
variable {K : Type}

/-- `if tanh_clipping > 0: logits = torch.tanh(logits) * tanh_clipping` -/
def clipStage (clipOn : Bool) (clip : K → K) (x : Nat → K) : Nat → K :=
  fun j => if clipOn then clip (x j) else x j

/-- `logits[~mask] = float("-inf")` -/
def maskStage (mask : Nat → Bool) (x : Nat → K) : Nat → Option K :=
  fun j => if mask j then some (x j) else none

/-- `logits = logits / temperature` (`-inf / T = -inf` for `T > 0`) -/
def tempStage [Div K] (T : K) (x : Nat → Option K) : Nat → Option K :=
  fun j => (x j).map (· / T)

/-- `modify_logits_for_top_k_filtering` guarded by `if top_k > 0`:
`thr = torch.topk(logits, min(top_k, n))[0][..., -1]` is the value at the oracle index `kth`;
entries strictly below it become `-inf`. -/
def topKStage [LT K] [DecidableLT K] (n k kth : Nat) (x : Vec (Option K)) : Vec (Option K) :=
  if k = 0 then x else
  let thr := x.get kth
  Vec.tab n (fun j => if ltO (x.get j) thr then none else x.get j)

/-- weight of a logit: `exp`, with `exp(-inf) = 0` -/
def wO [OfNat K 0] (w : K → K) : Option K → K
  | none => 0
  | some v => w v

/-- `softmax(dim=-1)` of one row -/
def softmaxN [Add K] [Div K] [OfNat K 0] (n : Nat) (w : K → K) (x : Nat → Option K) : Vec K :=
  let Z := sumN n (fun i => wO w (x i))
  Vec.tab n (fun j => wO w (x j) / Z)

/-- the sorted-position removal flags of `modify_logits_for_top_p_filtering`:
`cumulative_probs = sorted_logits.softmax(-1).cumsum(-1)`, `cumulative_probs <= 1 - top_p`, then
`sorted_indices_to_remove[..., -1] = False` (the last sorted position is always kept; a no-op in exact
arithmetic, see `last_never_removed`) -/
def toppRem [Add K] [Sub K] [Div K] [OfNat K 0] [OfNat K 1] [LE K] [DecidableLE K]
    (n : Nat) (w : K → K) (p : K) (σ : Nat → Nat) (x : Vec (Option K)) : Vec Bool :=
  let q := softmaxN n w (fun i => x.get (σ i))
  Vec.tab n (fun i => if i + 1 = n then false else decide (sumN (i + 1) q.get ≤ 1 - p))

/-- `modify_logits_for_top_p_filtering` guarded by `if top_p > 0` (and its own early return for
`top_p <= 0 or top_p >= 1`); `σ = sorted_indices` of the ascending `torch.sort`; the flags are
scattered back to the original positions and flagged entries become `-inf`. -/
def topPStage [Add K] [Sub K] [Div K] [OfNat K 0] [OfNat K 1] [LE K] [DecidableLE K]
    (n : Nat) (w : K → K) (p : K) (σ : Nat → Nat) (x : Vec (Option K)) : Vec (Option K) :=
  if p ≤ 0 ∨ 1 ≤ p then x else
  let rem := toppRem n w p σ x
  Vec.tab n (fun j => if (List.range n).any (fun i => σ i == j && rem.get i) then none else x.get j)

end stages

/-- result of `process_logits` for one row: the filtered logits entering `log_softmax`
(`lg j = none` ⇔ `logprobs[j] = -inf`) and the distribution `prob = exp(logprobs)`. -/
structure Out (K : Type) where
  lg : Nat → Option K
  prob : Nat → K

def Out.kept {K : Type} (o : Out K) (j : Nat) : Bool := (o.lg j).isSome

section main
variable {K : Type} [Add K] [Sub K] [Div K] [OfNat K 0] [OfNat K 1] [LT K] [LE K]
  [DecidableLT K] [DecidableLE K]

/-- logits after clipping, masking and temperature (input of the top-k filter) -/
def pre (clip : K → K) (c : Cfg K) (n : Nat) (x : Nat → K) (mask : Nat → Bool) : Vec (Option K) :=
  Vec.tab n (tempStage c.temp (maskStage mask (clipStage c.clipOn clip x)))

/-- logits after the top-k filter (input of the top-p filter) -/
def afterK (clip : K → K) (c : Cfg K) (n : Nat) (x : Nat → K) (mask : Nat → Bool) (kth : Nat) :
    Vec (Option K) :=
  topKStage n c.topK kth (pre clip c n x mask)

/-- `process_logits` (one row). -/
def processLogits (w clip : K → K) (c : Cfg K) (n : Nat) (x : Nat → K) (mask : Nat → Bool)
    (kth : Nat) (σ : Nat → Nat) : Out K :=
  let x5 := topPStage n w c.topP σ (afterK clip c n x mask kth)
  { lg := x5.get, prob := (softmaxN n w x5.get).get }

/-! ### validity of the oracle inputs (decidable: the driver evaluates them on what torch returned) -/

/-- `kth` is the index of a `min(k, n)`-th largest entry of `x`: fewer than `k'` entries are strictly
larger and at least `k'` are at least as large (what `torch.topk(x, k')[1][..., -1]` returns). -/
def KthValid (n k : Nat) (x : Nat → Option K) (kth : Nat) : Prop :=
  kth < n ∧ cnt n (fun j => ltO (x kth) (x j)) < min k n ∧ min k n ≤ cnt n (fun j => leO (x kth) (x j))

instance (n k : Nat) (x : Nat → Option K) (kth : Nat) : Decidable (KthValid n k x kth) := by
  unfold KthValid; infer_instance

/-- `σ` is a permutation of `0..n-1` that sorts `x` ascending (what `torch.sort(x)[1]` returns). -/
def SortValid (n : Nat) (x : Nat → Option K) (σ : Nat → Nat) : Prop :=
  (∀ i, i < n → σ i < n) ∧ (∀ i, i < n → ∀ i', i' < n → σ i = σ i' → i = i') ∧
  (∀ i, i < n → i + 1 < n → leO (x (σ i)) (x (σ (i + 1))) = true)

instance (n : Nat) (x : Nat → Option K) (σ : Nat → Nat) : Decidable (SortValid n x σ) := by
  unfold SortValid; infer_instance

/-- `a` is what `logprobs.argmax(-1)` may return: an index of a largest entry
(`logprobs = lg - const`, so the order is that of `lg`). -/
def GreedyValid (n : Nat) (lg : Nat → Option K) (a : Nat) : Prop :=
  a < n ∧ ∀ j, j < n → leO (lg j) (lg a) = true

instance (n : Nat) (lg : Nat → Option K) (a : Nat) : Decidable (GreedyValid n lg a) := by
  unfold GreedyValid; infer_instance

/-- `a` is what `torch.multinomial(probs, 1)` may return: an index of positive probability. -/
def SampleValid (n : Nat) (prob : Nat → K) (a : Nat) : Prop := a < n ∧ 0 < prob a

instance (n : Nat) (prob : Nat → K) (a : Nat) : Decidable (SampleValid n prob a) := by
  unfold SampleValid; infer_instance

end main

/-! ### action selection -/

/-- `DecodingStrategy.greedy`: `selected = logprobs.argmax(-1)` (the oracle `a`), then
`assert not (~mask)[selected]`; `none` = the assertion fires. -/
def greedy (mask : Nat → Bool) (a : Nat) : Option Nat := if mask a then some a else none

/-- `DecodingStrategy.sampling` for a single row: draw; `while (~mask)[selected]: draw again`.
`draws` are the successive results of `multinomial`; `none` = the loop has not ended within them. -/
def sampleLoop (mask : Nat → Bool) : List Nat → Option Nat
  | [] => none
  | a :: rest => if mask a then some a else sampleLoop mask rest

/-- `DecodingStrategy.sampling` for a batch as written: the loop condition is `.any()` over the
batch, and a resample redraws *every* row.  `draws` = successive draw vectors. -/
def sampleLoopB (masks : List (Nat → Bool)) : List (List Nat) → Option (List Nat)
  | [] => none
  | v :: rest =>
    if (masks.zip v).all (fun ma => ma.1 ma.2) then some v else sampleLoopB masks rest

section step
variable {K : Type} [Add K] [Sub K] [Div K] [OfNat K 0] [OfNat K 1] [LT K] [LE K]
  [DecidableLT K] [DecidableLE K]

/-- `Greedy(...).step(logits, mask, td)`: `process_logits` then `greedy(logprobs, mask)`. -/
def stepGreedy (w clip : K → K) (c : Cfg K) (n : Nat) (x : Nat → K) (mask : Nat → Bool)
    (kth : Nat) (σ : Nat → Nat) (a : Nat) : Out K × Option Nat :=
  (processLogits w clip c n x mask kth σ, greedy mask a)

/-- `Sampling(...).step(logits, mask, td)`: `process_logits` then `sampling(logprobs, mask)`. -/
def stepSampling (w clip : K → K) (c : Cfg K) (n : Nat) (x : Nat → K) (mask : Nat → Bool)
    (kth : Nat) (σ : Nat → Nat) (draws : List Nat) : Out K × Option Nat :=
  (processLogits w clip c n x mask kth σ, sampleLoop mask draws)

end step

end Rl4co.Decode
