/-
Model of logit processing and action selection, `rl4co/utils/decoding.py`:

  process_logits                       → `processLogits`   (stages in the code's order)
  modify_logits_for_top_k_filtering    → `topKStage`
  modify_logits_for_top_p_filtering    → `topPStage`
  F.log_softmax                        → `softmaxN` (the distribution) + `Out.lg` (finite ⇔ logprob > -inf)
  DecodingStrategy.greedy              → `greedy` (+ validity of the observed argmax `GreedyValid`)
  DecodingStrategy.sampling            → `sampleLoop` / `sampleLoopB` (resample-while-infeasible)
  Greedy._step / Sampling._step via DecodingStrategy.step → `stepGreedy` / `stepSampling`

One row of the batch is a function `Nat → K` on indices `< n`; `-inf` is `none`.  The number type `K`
is abstract (only the operations the code uses); the proofs instantiate it with a linearly ordered
field and `Real`, the driver with `Rat`.  `exp` is an abstract weight function `w`, the tanh clipping
`tanh(·)·C` an abstract function `clip`.

`torch.topk`, `torch.sort` and `argmax` break ties in an unspecified way and `torch.multinomial` is
random: what they returned is an *oracle input* of the model (`kth` = index of the k-th largest entry,
`σ` = the ascending sorting permutation, `a` = the chosen index, `draws` = the successive multinomial
draws), constrained only by the validity predicates below.

The decision-critical tokens of the source (order of the stages, comparison operators, `top_k`
clamping and offset, the top-p threshold / guard / sort direction / protected index, the mask fill, the
loop condition of `sampling`, the reduction of `greedy`) are *parameters* read from
`Rl4co/Generated/Params.lean`, which `harness/extract.py` regenerates from the Python AST on every run
(probes: `harness/probes/logits.py`); the unfolding lemmas in `Rl4co/Proofs/LogitsLemmas.lean` need the
committed values, so a one-token source edit breaks a proof obligation at `lake build`.  No Mathlib.
-/
import Rl4co.Core.Basic
import Rl4co.Generated.Params
namespace Rl4co.Decode

/-- Σ_{i<n} f i -/
def sumN {K : Type} [Add K] [OfNat K 0] : Nat → (Nat → K) → K
  | 0, _ => 0
  | n + 1, f => sumN n f + f n

/-- What the theorems need of `exp`: positive, strictly increasing, `exp (x + c) = exp x * exp c`
(instantiated by `Real.exp` in the proofs and by `y ↦ 2^y` on integers in the driver). -/
structure ExpLike {K : Type} [Add K] [Mul K] [LT K] [OfNat K 0] (w : K → K) : Prop where
  pos : ∀ x, 0 < w x
  strictMono : ∀ x y, x < y → w x < w y
  mul : ∀ x c, w (x + c) = w x * w c

/-- A row of values, as a function behind a structure: the compiler evaluates a `Vec`-valued
definition once per call (a bare `Nat → α` result would be eta-expanded and its `let`s recomputed on
every index). -/
structure Vec (α : Type) where
  get : Nat → α

/-- `f` tabulated on `0..n-1` (an array behind the function); semantically `⟨f⟩`, see `Vec.tab_get`. -/
def Vec.tab {α : Type} (n : Nat) (f : Nat → α) : Vec α :=
  let a := Array.ofFn (n := n) (fun i => f i.val)
  ⟨fun j => if h : j < a.size then a[j] else f j⟩

@[simp] theorem Vec.tab_get {α : Type} (n : Nat) (f : Nat → α) (j : Nat) : (Vec.tab n f).get j = f j := by
  simp only [Vec.tab]
  split
  · simp
  · rfl

theorem Vec.tab_eq {α : Type} (n : Nat) (f : Nat → α) : Vec.tab n f = ⟨f⟩ := by
  have h : (Vec.tab n f).get = f := funext (Vec.tab_get n f)
  cases hv : Vec.tab n f with
  | mk g => rw [hv] at h; simp only at h; rw [h]

section order
variable {K : Type} [LT K] [DecidableLT K]

/-- strict order on logits with `none = -inf` below everything (`a < b` on float tensors) -/
def ltO : Option K → Option K → Bool
  | none, none => false
  | none, some _ => true
  | some _, none => false
  | some a, some b => decide (a < b)

/-- `a ≤ b` as `¬ b < a` (total order) -/
def leO (a b : Option K) : Bool := !ltO b a

/-- `a <op> b` on numbers, for an operator token extracted from the source (everything from `<`) -/
def cmpK : Cmp → K → K → Bool
  | .lt, a, b => decide (a < b)
  | .le, a, b => !decide (b < a)
  | .gt, a, b => decide (b < a)
  | .ge, a, b => !decide (a < b)
  | .eq, a, b => !decide (a < b) && !decide (b < a)
  | .ne, a, b => decide (a < b) || decide (b < a)

/-- `a <op> b` on logits (`none = -inf`) -/
def cmpO : Cmp → Option K → Option K → Bool
  | .lt, a, b => ltO a b
  | .le, a, b => !ltO b a
  | .gt, a, b => ltO b a
  | .ge, a, b => !ltO a b
  | .eq, a, b => !ltO a b && !ltO b a
  | .ne, a, b => ltO a b || ltO b a

end order

/-! ### the extracted tokens (see `harness/probes/logits.py`) -/

/-- does the guard of a stage test only the *value* of its option (`if top_k > 0:`), whatever its representation
(python int, numpy integer, 0-dim tensor)?  `false` when the source guard also contains a type test. -/
def guardPlain (stage : String) : Bool := (Params.logitsStageGuards.lookup stage).getD true

/-- `if top_k > 0:` -/
def topkOn (k : Nat) : Bool := guardPlain "topk" && Params.logitsTopkOnCmp.evalNat k 0
/-- operator of `logits < torch.topk(…)[0][..., -1, None]` -/
def topkCmp : Cmp := Params.logitsTopkFilter.1
/-- which order statistic the threshold is: `torch.topk(logits, k' + a)[0][..., -e]` is the
`(k' + a - (e - 1))`-th largest entry, `k' = min(top_k, n)` when the clamping statement is present -/
def kEff (n k : Nat) : Nat :=
  (if Params.logitsTopkClampMin then min k n else k) + Params.logitsTopkFilter.2.1 - (Params.logitsTopkFilter.2.2 - 1)

section toks
variable {K : Type} [Sub K] [OfNat K 0] [OfNat K 1] [LT K] [DecidableLT K]

/-- top-p filter skipped: `not (top_p > 0)` in `process_logits`, or `top_p <= 0.0 or top_p >= 1.0` inside -/
def toppOff (p : K) : Bool :=
  !guardPlain "topp" || !cmpK Params.logitsToppOnCmp p 0 ||
    cmpK (Params.logitsToppGuardCmps.getD 0 .le) p 0 || cmpK (Params.logitsToppGuardCmps.getD 1 .ge) p 1

/-- right-hand side of `cumulative_probs <= (1 - top_p)` -/
def toppThr (p : K) : K := if Params.logitsToppCmp.2 then 1 - p else p

/-- `cumulative_probs <= (1 - top_p)` -/
def toppFlag (cum p : K) : Bool := cmpK Params.logitsToppCmp.1 cum (toppThr p)

/-- order required of consecutive sorted entries: `torch.sort(logits, descending=False)` -/
def sortLe (a b : Option K) : Bool := if Params.logitsSortDescending then leO b a else leO a b

/-- `argmax` (or `argmin`) of `DecodingStrategy.greedy`: `a` beats `b` -/
def greedyLe (b a : Option K) : Bool := if Params.logitsGreedyArgmax then leO b a else leO a b

end toks

/-- the position protected by `sorted_indices_to_remove[..., -1] = False` -/
def protPos (n : Nat) : Nat :=
  if Params.logitsToppProtectedIdx < 0 then n - Params.logitsToppProtectedIdx.natAbs
  else Params.logitsToppProtectedIdx.toNat

/-- is an entry with mask bit `m` overwritten by `logits[~mask] = …` -/
def maskFilled (m : Bool) : Bool := if Params.logitsMaskFill.1 then !m else m

/-- decoding configuration (`DecodingStrategy.__init__` / `process_logits` keyword arguments;
`mask_logits = True`, for `mask_logits = False` see `processLogitsOpt`) -/
structure Cfg (K : Type) where
  temp : K          -- temperature
  topK : Nat        -- top_k
  topP : K          -- top_p
  clipOn : Bool     -- tanh_clipping > 0

section stages
variable {K : Type}

/-- `if tanh_clipping > 0: logits = torch.tanh(logits) * tanh_clipping` -/
def clipStage (clipOn : Bool) (clip : K → K) (x : Nat → K) : Nat → K :=
  fun j => if clipOn then clip (x j) else x j

/-- `logits[~mask] = float("-inf")` -/
def maskStage (mask : Nat → Bool) (x : Nat → K) : Nat → Option K :=
  fun j => if maskFilled (mask j) then (if Params.logitsMaskFill.2 then none else some (x j)) else some (x j)

/-- `logits = logits / temperature` (`-inf / T = -inf` for `T > 0`) -/
def tempStage [Div K] (T : K) (x : Nat → Option K) : Nat → Option K :=
  fun j => (x j).map (· / T)

/-- `modify_logits_for_top_k_filtering` guarded by `if top_k > 0`:
`thr = torch.topk(logits, min(top_k, n))[0][..., -1]` is the value at the oracle index `kth`;
entries strictly below it become `-inf`. -/
def topKStage [LT K] [DecidableLT K] (n k kth : Nat) (x : Vec (Option K)) : Vec (Option K) :=
  if !topkOn k then x else
  let thr := x.get kth
  Vec.tab n (fun j => if cmpO topkCmp (x.get j) thr then none else x.get j)

/-- weight of a logit: `exp`, with `exp(-inf) = 0` -/
def wO [OfNat K 0] (w : K → K) : Option K → K
  | none => 0
  | some v => w v

/-- `softmax(dim=-1)` of one row -/
def softmaxN [Add K] [Div K] [OfNat K 0] (n : Nat) (w : K → K) (x : Nat → Option K) : Vec K :=
  let Z := sumN n (fun i => wO w (x i))
  Vec.tab n (fun j => wO w (x j) / Z)

/-- the sorted-position removal flags of `modify_logits_for_top_p_filtering`:
`cumulative_probs = sorted_logits.softmax(-1).cumsum(-1)`, `cumulative_probs <= 1 - top_p`, then
`sorted_indices_to_remove[..., -1] = False` (the last sorted position is always kept; a no-op in exact
arithmetic, see `last_never_removed`) -/
def toppRem [Add K] [Sub K] [Div K] [OfNat K 0] [OfNat K 1] [LT K] [DecidableLT K]
    (n : Nat) (w : K → K) (p : K) (σ : Nat → Nat) (x : Vec (Option K)) : Vec Bool :=
  let q := softmaxN n w (fun i => x.get (σ i))
  Vec.tab n (fun i => if i = protPos n then false else toppFlag (sumN (i + 1) q.get) p)

/-- `modify_logits_for_top_p_filtering` guarded by `if top_p > 0` (and its own early return for
`top_p <= 0 or top_p >= 1`); `σ = sorted_indices` of the ascending `torch.sort`; the flags are
scattered back to the original positions and flagged entries become `-inf`. -/
def topPStage [Add K] [Sub K] [Div K] [OfNat K 0] [OfNat K 1] [LT K] [DecidableLT K]
    (n : Nat) (w : K → K) (p : K) (σ : Nat → Nat) (x : Vec (Option K)) : Vec (Option K) :=
  if toppOff p then x else
  let rem := toppRem n w p σ x
  Vec.tab n (fun j => if (List.range n).any (fun i => σ i == j && rem.get i) then none else x.get j)

end stages

/-- result of `process_logits` for one row: the filtered logits entering `log_softmax`
(`lg j = none` ⇔ `logprobs[j] = -inf`) and the distribution `prob = exp(logprobs)`. -/
structure Out (K : Type) where
  lg : Nat → Option K
  prob : Nat → K

def Out.kept {K : Type} (o : Out K) (j : Nat) : Bool := (o.lg j).isSome

/-- the statements of `process_logits` before the final `log_softmax` -/
inductive Stage where
  | clip | mask | temp | topk | topp
  deriving DecidableEq, Repr

def Stage.ofString : String → Option Stage
  | "clip" => some .clip
  | "mask" => some .mask
  | "temp" => some .temp
  | "topk" => some .topk
  | "topp" => some .topp
  | _ => none

/-- the order in which `process_logits` executes them, as extracted from the source -/
def stageOrder : List Stage := Params.logitsStageOrder.filterMap Stage.ofString

section main
variable {K : Type} [Add K] [Sub K] [Div K] [OfNat K 0] [OfNat K 1] [LT K] [DecidableLT K]

/-! the statements of `process_logits` as functions on the current value of `logits` (these are also the
primitives of the statement-level translation, `Generated/LogitsPipeline.lean`) -/

/-- `torch.tanh(logits) * tanh_clipping` -/
def stClipAlways (clip : K → K) (n : Nat) (X : Vec (Option K)) : Vec (Option K) :=
  Vec.tab n (fun j => (X.get j).map clip)

/-- `if tanh_clipping > 0: logits = torch.tanh(logits) * tanh_clipping` -/
def stClip (clip : K → K) (c : Cfg K) (n : Nat) (X : Vec (Option K)) : Vec (Option K) :=
  if guardPlain "clip" && c.clipOn then stClipAlways clip n X else X

/-- `if mask_logits: logits[~mask] = float("-inf")` -/
def stMask (n : Nat) (mask : Nat → Bool) (X : Vec (Option K)) : Vec (Option K) :=
  Vec.tab n (fun j =>
    if maskFilled (mask j) then (if Params.logitsMaskFill.2 then none else X.get j) else X.get j)

/-- `logits / temperature` -/
def stTemp (c : Cfg K) (n : Nat) (X : Vec (Option K)) : Vec (Option K) :=
  Vec.tab n (fun j => (X.get j).map (· / c.temp))

/-- `if top_k > 0: … logits = modify_logits_for_top_k_filtering(logits, top_k)` -/
def stTopK (c : Cfg K) (n kth : Nat) (X : Vec (Option K)) : Vec (Option K) := topKStage n c.topK kth X

/-- `if top_p > 0: … logits = modify_logits_for_top_p_filtering(logits, top_p)` -/
def stTopP (w : K → K) (c : Cfg K) (n : Nat) (σ : Nat → Nat) (X : Vec (Option K)) : Vec (Option K) :=
  topPStage n w c.topP σ X

/-- `F.log_softmax(logits, dim=-1)`: the support and the distribution `exp(logprobs)` -/
def stLogSoftmax (w : K → K) (n : Nat) (X : Vec (Option K)) : Out K :=
  { lg := X.get, prob := (softmaxN n w X.get).get }

/-- one statement of `process_logits` acting on the current logits -/
def applyStage (w clip : K → K) (c : Cfg K) (n : Nat) (mask : Nat → Bool) (kth : Nat) (σ : Nat → Nat) :
    Stage → Vec (Option K) → Vec (Option K)
  | .clip, X => stClip clip c n X
  | .mask, X => stMask n mask X
  | .temp, X => stTemp c n X
  | .topk, X => stTopK c n kth X
  | .topp, X => stTopP w c n σ X

def runStages (w clip : K → K) (c : Cfg K) (n : Nat) (mask : Nat → Bool) (kth : Nat) (σ : Nat → Nat)
    (order : List Stage) (X : Vec (Option K)) : Vec (Option K) :=
  order.foldl (fun X s => applyStage w clip c n mask kth σ s X) X

/-- logits after clipping, masking and temperature (input of the top-k filter) -/
def pre (clip : K → K) (c : Cfg K) (n : Nat) (x : Nat → K) (mask : Nat → Bool) : Vec (Option K) :=
  Vec.tab n (tempStage c.temp (maskStage mask (clipStage c.clipOn clip x)))

/-- logits after the top-k filter (input of the top-p filter) -/
def afterK (clip : K → K) (c : Cfg K) (n : Nat) (x : Nat → K) (mask : Nat → Bool) (kth : Nat) :
    Vec (Option K) :=
  topKStage n c.topK kth (pre clip c n x mask)

/-- `process_logits` (one row): the statements in the extracted order, then `log_softmax`.
(`processLogits_canonical` in the proofs: with the committed order this is
`topPStage (afterK …)` followed by the softmax.) -/
def processLogits (w clip : K → K) (c : Cfg K) (n : Nat) (x : Nat → K) (mask : Nat → Bool)
    (kth : Nat) (σ : Nat → Nat) : Out K :=
  stLogSoftmax w n (runStages w clip c n mask kth σ stageOrder (Vec.tab n (fun j => some (x j))))

/-- `process_logits(…, mask_logits=…)`: with `mask_logits = False` the statement `logits[~mask] = -inf` is
skipped, which is the same as an all-feasible mask (`maskStage_alltrue`). -/
def processLogitsOpt (maskLogits : Bool) (w clip : K → K) (c : Cfg K) (n : Nat) (x : Nat → K)
    (mask : Nat → Bool) (kth : Nat) (σ : Nat → Nat) : Out K :=
  processLogits w clip c n x (if maskLogits then mask else fun _ => true) kth σ

/-! ### validity of the oracle inputs (decidable: the driver evaluates them on what torch returned) -/

/-- `kth` is the index of a `kEff n k`-th (= `min(k, n)`-th) largest entry of `x`: fewer than that many
entries are strictly larger and at least that many are at least as large (what
`torch.topk(x, k')[1][..., -1]` returns). -/
def KthValid (n k : Nat) (x : Nat → Option K) (kth : Nat) : Prop :=
  kth < n ∧ cnt n (fun j => ltO (x kth) (x j)) < kEff n k ∧ kEff n k ≤ cnt n (fun j => leO (x kth) (x j))

instance (n k : Nat) (x : Nat → Option K) (kth : Nat) : Decidable (KthValid n k x kth) := by
  unfold KthValid; infer_instance

/-- `σ` is a permutation of `0..n-1` that sorts `x` ascending (what `torch.sort(x)[1]` returns). -/
def SortValid (n : Nat) (x : Nat → Option K) (σ : Nat → Nat) : Prop :=
  (∀ i, i < n → σ i < n) ∧ (∀ i, i < n → ∀ i', i' < n → σ i = σ i' → i = i') ∧
  (∀ i, i < n → i + 1 < n → sortLe (x (σ i)) (x (σ (i + 1))) = true)

instance (n : Nat) (x : Nat → Option K) (σ : Nat → Nat) : Decidable (SortValid n x σ) := by
  unfold SortValid; infer_instance

/-- `a` is what `logprobs.argmax(-1)` may return: an index of a largest entry
(`logprobs = lg - const`, so the order is that of `lg`). -/
def GreedyValid (n : Nat) (lg : Nat → Option K) (a : Nat) : Prop :=
  a < n ∧ ∀ j, j < n → greedyLe (lg j) (lg a) = true

instance (n : Nat) (lg : Nat → Option K) (a : Nat) : Decidable (GreedyValid n lg a) := by
  unfold GreedyValid; infer_instance

/-- `a` is what `torch.multinomial(probs, 1)` may return: an index of positive probability. -/
def SampleValid (n : Nat) (prob : Nat → K) (a : Nat) : Prop := a < n ∧ 0 < prob a

instance (n : Nat) (prob : Nat → K) (a : Nat) : Decidable (SampleValid n prob a) := by
  unfold SampleValid; infer_instance

end main

/-! ### action selection -/

/-- outcome of a selection routine: a value, its `assert … "infeasible action selected"` fired, or (model
only) the supplied draws ran out before the loop ended -/
inductive LoopRes (α : Type) where
  | ok (v : α)
  | assertFail
  | outOfDraws
  deriving DecidableEq, Repr

/-- `DecodingStrategy.greedy`: `selected = logprobs.argmax(-1)` (the oracle `a`), then
`assert not (~mask)[selected]`; `none` = the assertion fires. -/
def greedy (mask : Nat → Bool) (a : Nat) : Option Nat := if mask a then some a else none

/-- the flag `(~mask).gather(1, selected)` tested by the loop of `sampling` -/
def rowFlag (m : Nat → Bool) (a : Nat) : Bool := if Params.logitsSampleLoop.2 then !m a else m a

/-- the loop condition: `.any()` over the rows -/
def contCond (flags : List Bool) : Bool := if Params.logitsSampleLoop.1 then flags.any id else flags.all id

/-- `DecodingStrategy.sampling` for a batch as written: draw; `while (~mask)[selected].any(): redraw every
row`; then `assert not (~mask)[selected].any()`.  `draws` = the successive draw vectors of `multinomial`. -/
def sampleLoopB (masks : List (Nat → Bool)) : List (List Nat) → LoopRes (List Nat)
  | [] => .outOfDraws
  | v :: rest =>
    if contCond ((masks.zip v).map (fun ma => rowFlag ma.1 ma.2)) then sampleLoopB masks rest
    else if (masks.zip v).all (fun ma => ma.1 ma.2) then .ok v else .assertFail

/-- `DecodingStrategy.sampling` for a single row -/
def sampleLoop (mask : Nat → Bool) : List Nat → LoopRes Nat
  | [] => .outOfDraws
  | a :: rest =>
    if contCond [rowFlag mask a] then sampleLoop mask rest
    else if mask a then .ok a else .assertFail

def hasSub (s sub : String) : Bool := decide ((s.splitOn sub).length > 1)

/-- `decode_logprobs(logprobs, mask, decode_type)`: `"greedy" in decode_type` → `greedy`,
`"sampling" in decode_type` → `sampling`, else `assert False` -/
def decodeLogprobs (decodeType : String) (mask : Nat → Bool) (a : Nat) (draws : List Nat) : LoopRes Nat :=
  if hasSub decodeType "greedy" then
    (match greedy mask a with
     | some b => .ok b
     | none => .assertFail)
  else if hasSub decodeType "sampling" then sampleLoop mask draws
  else .assertFail

section step
variable {K : Type} [Add K] [Sub K] [Div K] [OfNat K 0] [OfNat K 1] [LT K] [DecidableLT K]

/-- `Greedy(...).step(logits, mask, td)`: `process_logits` then `greedy(logprobs, mask)`. -/
def stepGreedy (w clip : K → K) (c : Cfg K) (n : Nat) (x : Nat → K) (mask : Nat → Bool)
    (kth : Nat) (σ : Nat → Nat) (a : Nat) : Out K × Option Nat :=
  (processLogits w clip c n x mask kth σ, greedy mask a)

/-- `Sampling(...).step(logits, mask, td)`: `process_logits` then `sampling(logprobs, mask)`. -/
def stepSampling (w clip : K → K) (c : Cfg K) (n : Nat) (x : Nat → K) (mask : Nat → Bool)
    (kth : Nat) (σ : Nat → Nat) (draws : List Nat) : Out K × LoopRes Nat :=
  (processLogits w clip c n x mask kth σ, sampleLoop mask draws)

/-- `Greedy(mask_logits=False).step`: `step` sets `mask = None`, so nothing is masked and `greedy` makes no
assertion -/
def stepGreedyNoMask (w clip : K → K) (c : Cfg K) (n : Nat) (x : Nat → K) (mask : Nat → Bool)
    (kth : Nat) (σ : Nat → Nat) (a : Nat) : Out K × Option Nat :=
  (processLogitsOpt false w clip c n x mask kth σ, some a)

/-- `Sampling(mask_logits=False).step`: one draw, no loop -/
def stepSamplingNoMask (w clip : K → K) (c : Cfg K) (n : Nat) (x : Nat → K) (mask : Nat → Bool)
    (kth : Nat) (σ : Nat → Nat) (draws : List Nat) : Out K × LoopRes Nat :=
  (processLogitsOpt false w clip c n x mask kth σ,
    match draws with
    | [] => .outOfDraws
    | a :: _ => .ok a)

end step

end Rl4co.Decode
