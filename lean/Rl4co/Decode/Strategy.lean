/-
Model of the decoding loop and of the log-likelihood bookkeeping of rl4co.  No Mathlib.

  rl4co/utils/decoding.py
    DecodingStrategy.pre_decoder_hook   → `pre`        (multistart: forced first action, log-prob 0)
    DecodingStrategy.step               → `iter`       (gather / store-all, append to the buffers)
    DecodingStrategy.post_decoder_hook  → `post`       (stack, optional `_select_best`)
    DecodingStrategy._select_best       → `selectBest`
    Greedy/Sampling/Evaluate._step      → the selector `sel` (an oracle; `Evaluate` = `evalSel`)
    get_log_likelihood                  → `getLL`, `getLLSum`
  rl4co/utils/ops.py  calculate_entropy → `calculateEntropy`
  rl4co/models/common/constructive/base.py  ConstructivePolicy.forward  → `loop`, `decode`
  rl4co/models/rl/ppo/ppo.py  PPO.shared_step (ratio)                   → `ppoRatio`

Conventions.  A log-probability is `LP = Option Int`: `none` is `-inf`, `some k` is the float32 value
`k·2^-scale` (the harness passes the exact dyadic value of every float32 the code holds).  A batch is a
function `Nat → RowSt S` (row index ↦ row) together with its size `B`; tensors indexed by the batch
dimension are functions of the row index, so "for all rows" code is pointwise here.  The policy network
and `process_logits` (owned by C10) are an oracle `π : S → Row`: the masked, normalised per-step
log-prob row as a function of the row's decoding state.  The action selection (argmax tie-breaking,
the multinomial sampler, or the externally supplied actions of `Evaluate`) is an oracle
`sel : row → step → Row → action`.  The python buffers `self.actions`, `self.logprobs` are lists in
chronological order (`append` = `++ [x]`).

Translator tie: the decision-critical tokens of the two source files are *extracted from the Python AST on
every run* (harness/probes/loglik.py → `Rl4co/Generated/Params.lean`) and enter the definitions below as
parameters (`Params.gll…`, `Params.pre…`, `Params.decode…`, `Params.selectBest…`, `Params.entropy…`,
`Params.ppo…`); the lemmas of `Proofs/Loglik.lean` (section "extracted parameters") and the property
theorems need their pinned values and stop compiling when a token of the source changes.
-/
import Rl4co.Generated.Params
namespace Rl4co.Decode

/-- log-probability; `none` = `-inf` -/
abbrev LP := Option Int
/-- one row of a `[batch, num_actions]` log-prob matrix -/
abbrev Row := List LP

/-- lifted addition: anything plus `-inf` is `-inf` -/
def lpAdd (plus : Int → Int → Int) : LP → LP → LP
  | some a, some b => some (plus a b)
  | _, _ => none

/-- `logprobs.sum(1)` over exact values; `none` as soon as a `-inf` is summed (the code's
`assert (logprobs > -1000).all()` fires in that case). -/
def lpSum (xs : List LP) : LP := xs.foldr (lpAdd (· + ·)) (some 0)

/-- `row.gather(-1, a)`; an out-of-range index (an error in torch) reads as `-inf`. -/
def gather (row : Row) (a : Nat) : LP := row.getD a none

/-- What `DecodingStrategy.step` appends to `self.logprobs` for one row: the gathered value
(`store_all_logp = False`) or the whole row (`store_all_logp = True`). -/
inductive Rec where
  | g (v : LP)
  | full (row : Row)
  deriving Repr, DecidableEq

/-- `step`: `if not self.store_all_logp: logprobs = gather_by_index(logprobs, selected_action)` -/
def mkRec (storeAll : Bool) (row : Row) (a : Nat) : Rec :=
  if storeAll then .full row else .g (gather row a)

/-- `pre_decoder_hook`: `zeros_like(td["action_mask"])` (`[B,N]`) or `zeros_like(action)` (`[B]`) -/
def forcedRec (storeAll : Bool) (N : Nat) : Rec :=
  if storeAll then .full (List.replicate N (some Params.preForcedLogpAll)) else .g (some Params.preForcedLogp)

/-- `get_log_likelihood`: `if actions is not None and logprobs.dim() == 3: gather` -/
def recVal : Rec → Nat → LP
  | .g v, _ => v
  | .full row, a => gather row a

/-- `logprobs[~mask] = 0` for one entry -/
def maskVal (v : LP) (keep : Bool) : LP :=
  -- `logprobs[~mask] = 0`: the subscript is `~mask` (`Params.gllMaskInverted`), the assigned constant `Params.gllMaskFill`
  if (if Params.gllMaskInverted then !keep else keep) then some Params.gllMaskFill else v

/-- `get_log_likelihood(logprobs, actions, mask, return_sum=False)` for one row -/
def getLL (recs : List Rec) (acts : List Nat) (mask : Option (List Bool)) : List LP :=
  let vals := List.zipWith recVal recs acts
  match mask with
  | none => vals
  | some m => List.zipWith maskVal vals m

/-- `get_log_likelihood(..., return_sum=True)` -/
def getLLSum (recs : List Rec) (acts : List Nat) (mask : Option (List Bool)) : LP :=
  -- `logprobs.sum(1)`: axis 1 of `[batch, steps]` is the row's own steps (`Params.gllSumAxis`); any other axis is
  -- not a per-row sum and is modelled as the assertion-failure value
  if Params.gllSumAxis = 1 then lpSum (getLL recs acts mask) else none

/-- `calculate_entropy`: `-(logprobs.exp() * logprobs).sum(-1).sum(1)` for one row of the batch.
`prod` is the elementwise map `lp ↦ exp lp · lp` after `nan_to_num` (an oracle: `exp` is not modelled); the
model is the double sum and the leading minus sign (`Params.entropyNegated`). -/
def calculateEntropy (prod : LP → Int) (rows : List Row) : Int :=
  let total := (rows.map (fun row => (row.map prod).foldr (· + ·) 0)).foldr (· + ·) 0
  if Params.entropyNegated then -total else total

/-- the `[B, T, N]` tensor handed to `calculate_entropy` (only exists when `store_all_logp`) -/
def fullRows : List Rec → Option (List Row)
  | [] => some []
  | .full row :: rs => (fullRows rs).map (row :: ·)
  | .g _ :: _ => none

/-- The environment as the decoding loop sees one row of it. -/
structure DEnv (S : Type) where
  step : S → Nat → S
  done : S → Bool
  mask : S → Nat → Bool

/-- One batch row: environment state and the row's slice of `self.actions` / `self.logprobs`. -/
structure RowSt (S : Type) where
  s : S
  acts : List Nat
  recs : List Rec

variable {S : Type}

/-- `pre_decoder_hook`.  `start = none`: not multistart (nothing happens).  `start = some f`
(multistart, `num_starts ≥ 1`): row `r` of the already `batchify`-ed batch `s0` is stepped with the
start node `f r`; a zero log-prob and the action are appended.  (`batchify` itself is C12's.) -/
def pre (e : DEnv S) (storeAll : Bool) (N : Nat) (start : Option (Nat → Nat)) (s0 : Nat → S) :
    Nat → RowSt S :=
  match start with
  | none => fun r => { s := s0 r, acts := [], recs := [] }
  | some f => fun r => { s := e.step (s0 r) (f r), acts := [f r], recs := [forcedRec storeAll N] }

/-- Which start rule a pre-decoder hook applies when no custom `select_start_nodes_fn` is given: the
environment's own `env.select_start_nodes` (possibly overridden: PDP pickups only, OP feasible nodes, MTVRP …)
or the generic helper of `utils/ops.py`.  `fromEnv` is extracted (`Params.preStartFromEnvRule` for
`DecodingStrategy`, `Params.beamStartFromEnvRule` for `BeamSearch`). -/
def hookStart (fromEnv : Bool) (envRule generic : Nat → Nat) : Nat → Nat :=
  if fromEnv then envRule else generic

/-- the forced start nodes of multi-start decoding -/
def preStartRule (envRule generic : Nat → Nat) : Nat → Nat := hookStart Params.preStartFromEnvRule envRule generic
/-- the forced start nodes of beam search -/
def beamStartRule (envRule generic : Nat → Nat) : Nat → Nat := hookStart Params.beamStartFromEnvRule envRule generic

/-- One pass through the body of the `while` loop of `ConstructivePolicy.forward` for one row:
`logits, mask = decoder(td)`; `td = decode_strategy.step(...)`; `td = env.step(td)["next"]`.
`π st.s` is the processed log-prob row of the row, `choose row` the selected action. -/
def stepRow (e : DEnv S) (storeAll : Bool) (π : S → Row) (choose : Row → Nat) (st : RowSt S) :
    RowSt S :=
  let row := π st.s
  let a := choose row
  { s := e.step st.s a, acts := st.acts ++ [a], recs := st.recs ++ [mkRec storeAll row a] }

/-- the pass for the whole batch (`sel r` is the selector of row `r` at this pass) -/
def iter (e : DEnv S) (storeAll : Bool) (π : S → Row) (sel : Nat → Row → Nat) (b : Nat → RowSt S) :
    Nat → RowSt S :=
  fun r => stepRow e storeAll π (sel r) (b r)

/-- `td["done"].all()` -/
def allDone (e : DEnv S) (B : Nat) (b : Nat → RowSt S) : Bool :=
  -- `.all()` vs `.any()` is extracted (`Params.decodeLoopAllDone`)
  if Params.decodeLoopAllDone then (List.range B).all (fun r => e.done (b r).s)
  else (List.range B).any (fun r => e.done (b r).s)

/-- The `while not td["done"].all()` loop.  `fuel` counts the passes still allowed: the code leaves
the loop through `break` once `step > max_steps`, i.e. after `max_steps + 1` passes, so `decode`
starts it with `fuel = max_steps + 1`.  Returns the batch and the value of `step`. -/
def loop (e : DEnv S) (π : S → Row) (sel : Nat → Nat → Row → Nat) (storeAll : Bool) (B : Nat) :
    Nat → Nat → (Nat → RowSt S) → (Nat → RowSt S) × Nat
  | 0, t, b => (b, t)
  | f + 1, t, b =>
    if allDone e B b then (b, t)
    else loop e π sel storeAll B f (t + 1) (iter e storeAll π (fun r row => sel r t row) b)

/-- Number of passes after which `if step <cmp> max_steps: break` leaves the loop (`step` is incremented
before the test): `max_steps + 1` for `>` (the pinned operator, `Params.decodeBreakCmp`), `max(max_steps, 1)`
for `>=`. -/
def loopFuel (maxSteps : Nat) : Nat :=
  match Params.decodeBreakCmp with
  | .ge => max maxSteps 1
  | _ => maxSteps + 1

/-- `Evaluate._step`: the action is `actions[..., step]` -/
def evalSel (actions : Nat → List Nat) : Nat → Nat → Row → Nat :=
  -- the index expression is `step + Params.evalActionOffset` (extracted; `step` itself at the pinned commit)
  fun r t _ => (actions r).getD ((t : Int) + Params.evalActionOffset).toNat 0

/-- `policy(td, env, decode_type=…, max_steps=…)` up to (not including) `post_decoder_hook`. -/
def decode (e : DEnv S) (π : S → Row) (sel : Nat → Nat → Row → Nat) (storeAll : Bool) (B N : Nat)
    (maxSteps : Nat) (start : Option (Nat → Nat)) (s0 : Nat → S) : (Nat → RowSt S) × Nat :=
  loop e π sel storeAll B (loopFuel maxSteps) 0 (pre e storeAll N start s0)

/-- `policy(td, env, actions=…)`: decode type `evaluate` (never multistart). -/
def evaluate (e : DEnv S) (π : S → Row) (actions : Nat → List Nat) (storeAll : Bool) (B N : Nat)
    (maxSteps : Nat) (s0 : Nat → S) : (Nat → RowSt S) × Nat :=
  decode e π (evalSel actions) storeAll B N maxSteps none s0

/-- `_select_best`: `unbatchify(rewards, S)[b][s] = rewards[s·B + b]`; `arg b` is the index returned
by `.max(dim=-1)` for instance `b`; `unbatchify_and_gather` picks row `arg b · B + b`. -/
def selectBestRow (B : Nat) (arg : Nat → Nat) (b : Nat) : Nat := arg b * B + b

/-- the reduction of `_select_best` / `_select_best_beam` is `.max` (`Params.selectBestIsMax`, extracted; both call
sites must agree: `Params.beamBestIsMax`): `x` may be returned in the presence of `y` -/
def betterEq (x y : Int) : Bool :=
  if Params.selectBestIsMax && Params.beamBestIsMax then decide (y ≤ x) else decide (x ≤ y)

/-- `arg b` is a valid result of `max(dim=-1)` over the `S` copies of instance `b`. -/
def ValidArgmax (B S : Nat) (rew : Nat → Int) (arg : Nat → Nat) : Prop :=
  ∀ b, b < B → arg b < S ∧ ∀ s, s < S → betterEq (rew (arg b * B + b)) (rew (s * B + b)) = true

def validArgmax (B S : Nat) (rew : Nat → Int) (arg : Nat → Nat) : Bool :=
  (List.range B).all fun b =>
    decide (arg b < S) && (List.range S).all fun s => betterEq (rew (arg b * B + b)) (rew (s * B + b))

/-- `post_decoder_hook` with `select_best`: the batch of selected rows. -/
def post (B : Nat) (sb : Option (Nat → Nat)) (b : Nat → RowSt S) : Nat → RowSt S :=
  match sb with
  | none => b
  | some arg => fun i => b (selectBestRow B arg i)

/-- `PPO.shared_step`: `ratio = exp(ll.sum(-1) - old_logprobs)`; `ex` is `exp` on exact values
(an oracle; only `ex 0 = 1` is ever used); a `-inf` on either side gives `none`. -/
def ppoRatio (ex : Int → Int) (llNew : List LP) (llOld : LP) : LP :=
  match lpSum llNew, llOld with
  | some a, some b => some (ex (if Params.ppoRatioNewMinusOld then a - b else b - a))
  | _, _ => none

/-- The `mask_logits` flag `AttentionModelPolicy` (and its subclasses HAM / SymNCO / POMO's policy) hands to the decoding
machinery, as a function of the constructor arguments: the argument itself (`Params.amCtorDecodingArgsPassedThrough`,
extracted: no re-assignment in `__init__`, `mask_logits=mask_logits` in the forwarding call), otherwise "combined with
something else" (modelled as a conjunction with `other`, e.g. `mask_inner`). -/
def policyMaskLogits (ctorArg other : Bool) : Bool :=
  if Params.amCtorDecodingArgsPassedThrough then ctorArg else ctorArg && other

/-! ### stepwise PPO policies (`L2DPolicy4PPO.act` / `.evaluate`, the entry points of `StepwisePPO`)

One decoding step per call.  `proc opts s` is the processed step distribution of state `s` as a function of the
option arguments the call hands to `process_logits` (an oracle: the network and `process_logits` itself are
C10's / uninterpreted); the option argument lists of the two call sites are extracted from the source
(`Params.stepwiseActOpts`, `Params.stepwiseEvalOpts`). -/

/-- `act(td, env, phase="train")` for one row: the stored `td["logprobs"] = gather_by_index(logprobs, action)` -/
def stepwiseAct (proc : List String → S → Row) (s : S) (a : Nat) : LP :=
  gather (proc Params.stepwiseActOpts s) a

/-- the distribution `act` samples from -/
def stepwiseActRow (proc : List String → S → Row) (s : S) : Row := proc Params.stepwiseActOpts s

/-- `evaluate(td)` for one row: `action_logprobs` and the distribution whose entropy is returned -/
def stepwiseEvaluate (proc : List String → S → Row) (s : S) (a : Nat) : LP × Row :=
  (gather (proc Params.stepwiseEvalOpts s) a, proc Params.stepwiseEvalOpts s)

/-- `StepwisePPO.update`: `ratios = torch.exp(logprobs - previous_logp)` -/
def stepwiseRatio (ex : Int → Int) (new old : LP) : LP :=
  match new, old with
  | some a, some b => some (ex (if Params.stepwiseRatioNewMinusOld then a - b else b - a))
  | _, _ => none

end Rl4co.Decode
