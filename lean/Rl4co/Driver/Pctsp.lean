import Rl4co.Core.Proto
import Rl4co.Env.Pctsp
import Rl4co.Spec.Pctsp
namespace Rl4co.Driver.Pctsp
open Rl4co.Proto

/-- header `n req tol stochastic` | det prize[1..n] | stoch prize[1..n] | penalty[1..n] | D (n+1)² | actions -/
def parseInst (toks : List String) : Option (Rl4co.Pctsp.Inst × Int × List Nat) := do
  let [hd, dp, sp, pn, dm, acts] ← parseSections toks | none
  let [n, req, tol, sto] := hd | none
  let n := n.toNat
  let i : Rl4co.Pctsp.Inst :=
    { n := n, req := req, D := fn2 (n + 1) dm, detPrize := fn1From1 dp, stoPrize := fn1From1 sp,
      stochastic := sto != 0, pen := fn1From1 pn }
  pure (i, tol, toNats acts)

/-- infeasible only by a prize shortfall within `tol` -/
def near (i : Rl4co.Pctsp.Inst) (tol : Int) (as : List Nat) : Bool :=
  !(Rl4co.Spec.Pctsp.feasible i as) && Rl4co.Spec.Pctsp.feasible { i with req := i.req - tol } as

def verdicts (i : Rl4co.Pctsp.Inst) (tol : Int) (as : List Nat) : String :=
  s!"check={bit (Rl4co.Pctsp.check i tol as)} feas={bit (Rl4co.Spec.Pctsp.feasible i as)} near={bit (near i tol as)} slack={Rl4co.Spec.Pctsp.slack i as} obj={Rl4co.Spec.Pctsp.objective i as}"

def episode (toks : List String) : Option String := do
  let (i, tol, as) ← parseInst toks
  let tr := episodeTrace Rl4co.Pctsp.env i as
  pure s!"{tr} reward={Rl4co.Pctsp.reward i as} rassert={bit (Rl4co.Pctsp.rewardAssert as)} {verdicts i tol as} bound={max (i.n + 1) 2}"

def check (toks : List String) : Option String := do
  let (i, tol, as) ← parseInst toks
  pure (verdicts i tol as)

def handlers : List (String × (List String → Option String)) :=
  [("pctsp.episode", episode), ("pctsp.check", check)]

end Rl4co.Driver.Pctsp
