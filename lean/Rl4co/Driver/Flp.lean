import Rl4co.Core.Proto
import Rl4co.Env.Flp
import Rl4co.Spec.Flp
import Rl4co.Spec.SelectOpt
import Rl4co.Env.SelectBatch
namespace Rl4co.Driver.Flp
open Rl4co.Proto

/-- states after 0..T actions -/
def statesOf {I S : Type} (e : Env I S) (i : I) (as : List Nat) : List S :=
  let rec go (s : S) (acc : List S) : List Nat → List S
    | [] => (s :: acc).reverse
    | a :: as => go (e.step i s a) (s :: acc) as
  go (e.reset i) [] as

/-- row-major `m × m` matrix backed by an array (constant-time lookup; instances have up to 100² entries) -/
def fn2A (m : Nat) (xs : List Int) : Nat → Nat → Int :=
  let arr := xs.toArray
  fun a b => arr.getD (a * m + b) 0

def fn1A (xs : List Int) : Nat → Int :=
  let arr := xs.toArray
  fun j => arr.getD j 0

def rowStr (n : Nat) (f : Nat → Int) : String := intsStr ((List.range n).map f)

/-- `flp.episode n quota | D n² row-major | d0 n | actions`
reply: masks/done/adm trace, per-state `chosen` bits and `dist` rows (states separated by `:`),
`reward` of the final state, Spec verdict `feas`, Spec objective `obj`, Spec `near` rows per state
(nearest-facility distances recomputed from the action prefix alone; empty prefix = `-`), `bound`. -/
def episode (toks : List String) : Option String := do
  let [hd, dm, d0, acts] ← parseSections toks | none
  let [n, q] := hd | none
  let n := n.toNat
  let i : Rl4co.Flp.Inst := { n := n, quota := q, D := fn2A n dm, d0 := fn1A d0 }
  let as := toNats acts
  let tr := episodeTrace Rl4co.Flp.env i as
  let sts := statesOf Rl4co.Flp.env i as
  let chosen := ":".intercalate (sts.map (fun s => maskBits n s.chosen))
  let dist := ":".intercalate (sts.map (fun s => rowStr n s.dist))
  let near := ":".intercalate ((List.range (as.length + 1)).map (fun t =>
    if t = 0 then "-" else rowStr n (Rl4co.Spec.Flp.nearest i (as.take t))))
  let fin := exec Rl4co.Flp.env i (Rl4co.Flp.reset i) as
  pure s!"{tr} chosen={chosen} dist={dist} near={near} reward={Rl4co.Flp.reward i fin} feas={bit (Rl4co.Spec.Flp.feasible i as)} obj={Rl4co.Spec.Flp.objective i as} bound={q}"

/-- `flp.opt n quota | D | d0 | ` → brute-force optimum of the reward scale (`Spec.Flp.optimum`) and the
number of feasible selections -/
def opt (toks : List String) : Option String := do
  let [hd, dm, d0, _] ← parseSections toks | none
  let [n, q] := hd | none
  let n := n.toNat
  let i : Rl4co.Flp.Inst := { n := n, quota := q, D := fn2A n dm, d0 := fn1A d0 }
  pure s!"opt={Rl4co.Spec.Flp.optimum i} nfeas={(Rl4co.Spec.Flp.candidates i).length}"

/-- `flp.view B n | chosen bits (B·n, row-major)` → the rows of `chosen.nonzero(as_tuple=True)[1].view(B, -1)`
as modelled by `Flp.flatIdx` / `Flp.viewRow` (rows separated by `:`) -/
def view (toks : List String) : Option String := do
  let [hd, cb] ← parseSections toks | none
  let [b, n] := hd | none
  let b := b.toNat; let n := n.toNat
  let chosen : Nat → Nat → Bool := fun r j => cb.getD (r * n + j) 0 != 0
  let flat := Rl4co.Flp.flatIdx b (fun _ => n) chosen
  pure s!"rows={":".intercalate ((List.range b).map (fun r => natsStr (Rl4co.Flp.viewRow b flat r)))}"

/-- `flp.dm n | xs | ys` (integer grid coordinates) → `Flp.distOf`, the model of `get_distance_matrix`, row-major -/
def dm (toks : List String) : Option String := do
  let [hd, xs, ys] ← parseSections toks | none
  let [n] := hd | none
  let n := n.toNat
  let x := fn1A xs; let y := fn1A ys
  pure s!"dm={intsStr ((List.range (n * n)).map (fun p => Rl4co.Flp.distOf x y (p / n) (p % n)))}"

def handlers : List (String × (List String → Option String)) :=
  [("flp.episode", episode), ("flp.opt", opt), ("flp.view", view), ("flp.dm", dm)]

end Rl4co.Driver.Flp
