import Rl4co.Core.Proto
import Rl4co.Env.Svrp
import Rl4co.Spec.Svrp
namespace Rl4co.Driver.Svrp
open Rl4co.Proto

/-- header `n T`, then `techs[0..T-1] | skills[1..n] | costs[0..T-1] | D (n+1)² | actions` -/
def parse (toks : List String) : Option (Rl4co.Svrp.Inst × List Nat) := do
  let [hd, te, sk, co, dm, acts] ← parseSections toks | none
  let [n, t] := hd | none
  let n := n.toNat
  let i : Rl4co.Svrp.Inst :=
    { n := n, T := t.toNat, techs := fn1 te, skills := fn1From1 sk, costs := fn1 co, D := fn2 (n + 1) dm }
  pure (i, toNats acts)

/-- index of the first state (after k actions) whose mask computation overflows `techs`, or -1 -/
def firstOverflow (i : Rl4co.Svrp.Inst) (as : List Nat) : Int :=
  let rec go (s : Rl4co.Svrp.State) (k : Nat) : List Nat → Int
    | [] => if Rl4co.Svrp.techOverflow i s then k else -1
    | a :: as => if Rl4co.Svrp.techOverflow i s then k else go (Rl4co.Svrp.step i s a) (k + 1) as
  go (Rl4co.Svrp.reset i) 0 as

def verdicts (i : Rl4co.Svrp.Inst) (as : List Nat) : String :=
  s!"check={bit (Rl4co.Svrp.check i as)} feas={bit (Rl4co.Spec.Svrp.feasible i as)} closed={bit (Rl4co.Spec.Svrp.feasibleClosed i as)} canon={bit (Rl4co.Spec.Svrp.canonical i as)}"

def episode (toks : List String) : Option String := do
  let (i, as) ← parse toks
  let tr := episodeTrace Rl4co.Svrp.env i as
  pure s!"{tr} ovf={firstOverflow i as} zeros={Rl4co.Svrp.zeros as} reward={Rl4co.Svrp.reward i as} {verdicts i as} obj={Rl4co.Spec.Svrp.objective i as} bound={i.n + max (i.T - 1) 1}"

def check (toks : List String) : Option String := do
  let (i, as) ← parse toks
  pure (verdicts i as)

/-- `svrp.costsbatch T L | costs[0..T-1] | row₀ | row₁ | …`: the cost table the batched loop of `_get_reward`
builds for the action rows (each of length L): `table=<row₀ entries>;<row₁ entries>;…` (L+1 entries per row) -/
def costsbatch (toks : List String) : Option String := do
  let (hd :: co :: rows) ← parseSections toks | none
  let [t, l] := hd | none
  let i : Rl4co.Svrp.Inst :=
    { n := 0, T := t.toNat, techs := fun _ => 0, skills := fun _ => 0, costs := fn1 co, D := fun _ _ => 0 }
  let rs := rows.map toNats
  let len := l.toNat + 1
  let tab := Rl4co.Svrp.costsBatch i len rs
  let out := (List.range rs.length).map (fun b => intsStr ((List.range len).map (fun p => tab b p)))
  pure s!"table={";".intercalate out}"

def handlers : List (String × (List String → Option String)) :=
  [("svrp.episode", episode), ("svrp.check", check), ("svrp.costsbatch", costsbatch)]

end Rl4co.Driver.Svrp
