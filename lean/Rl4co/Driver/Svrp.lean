import Rl4co.Core.Proto
import Rl4co.Env.Svrp
import Rl4co.Spec.Svrp
namespace Rl4co.Driver.Svrp
open Rl4co.Proto

/-- header `n T`, then `techs[0..T-1] | skills[1..n] | costs[0..T-1] | D (n+1)² | actions` -/
def parse (toks : List String) : Option (Rl4co.Svrp.Inst × List Nat) := do
  let [hd, te, sk, co, dm, acts] ← parseSections toks | none
  let [n, t] := hd | none
  let n := n.toNat
  let i : Rl4co.Svrp.Inst :=
    { n := n, T := t.toNat, techs := fn1 te, skills := fn1From1 sk, costs := fn1 co, D := fn2 (n + 1) dm }
  pure (i, toNats acts)

/-- index of the first state (after k actions) whose mask computation overflows `techs`, or -1 -/
def firstOverflow (i : Rl4co.Svrp.Inst) (as : List Nat) : Int :=
  let rec go (s : Rl4co.Svrp.State) (k : Nat) : List Nat → Int
    | [] => if Rl4co.Svrp.techOverflow i s then k else -1
    | a :: as => if Rl4co.Svrp.techOverflow i s then k else go (Rl4co.Svrp.step i s a) (k + 1) as
  go (Rl4co.Svrp.reset i) 0 as

def verdicts (i : Rl4co.Svrp.Inst) (as : List Nat) : String :=
  s!"check={bit (Rl4co.Svrp.check i as)} feas={bit (Rl4co.Spec.Svrp.feasible i as)} closed={bit (Rl4co.Spec.Svrp.feasibleClosed i as)} canon={bit (Rl4co.Spec.Svrp.canonical i as)}"

def episode (toks : List String) : Option String := do
  let (i, as) ← parse toks
  let tr := episodeTrace Rl4co.Svrp.env i as
  pure s!"{tr} ovf={firstOverflow i as} zeros={Rl4co.Svrp.zeros as} reward={Rl4co.Svrp.reward i as} {verdicts i as} obj={Rl4co.Spec.Svrp.objective i as} bound={i.n + max (i.T - 1) 1}"

def check (toks : List String) : Option String := do
  let (i, as) ← parse toks
  pure (verdicts i as)

def handlers : List (String × (List String → Option String)) :=
  [("svrp.episode", episode), ("svrp.check", check)]

end Rl4co.Driver.Svrp
