import Rl4co.Core.Proto
import Rl4co.Env.Improve
import Rl4co.Spec.Improve
namespace Rl4co.Driver.Improve
open Rl4co.Proto Rl4co.Improve

/-- successor arrays are functions in the model; a function-valued result is a closure that re-runs the
operator on every lookup, so the driver materialises it into an array between operations. -/
def arrOf (n : Nat) (r : Rec) : Array Nat := ((List.range n).map r).toArray
def ofArr (a : Array Nat) : Rec := fun j => a.getD j 0
def recOf (xs : List Int) : Rec := ofArr (xs.map Int.toNat).toArray
def freezeState (n : Nat) (s : State) : State :=
  let a := arrOf n s.recCur
  let b := arrOf n s.recBest
  let v := arrOf n s.vt
  { s with recCur := ofArr a, recBest := ofArr b, vt := ofArr v }
def recStr (n : Nat) (r : Rec) : String := natsStr ((List.range n).map r)

/-- `improve.kopt2 n | rec | first second` -/
def kopt2 (toks : List String) : Option String := do
  let [[n], rc, [a, b]] ← parseSections toks | none
  let n := n.toNat
  let r := ofArr (arrOf n (Code.localOp2 n (recOf rc) a.toNat b.toNat))
  pure s!"rec={recStr n r} tour={bit (Spec.Improve.isTourB r n)} mask={bit (mask2 a.toNat b.toNat)}"

/-- `improve.koptk n K | rec | sel.. left.. right..` -/
def koptk (toks : List String) : Option String := do
  let [[n, k], rc, act] ← parseSections toks | none
  let n := n.toNat
  let k := k.toNat
  let act := toNats act
  let r := ofArr (arrOf n (Code.localOpK n (recOf rc) (act.take k) ((act.drop k).take k) (act.drop (2 * k))))
  let wf := Spec.Improve.koptMoveWFB n (recOf rc) (act.take k) ((act.drop k).take k) (act.drop (2 * k))
  pure s!"rec={recStr n r} tour={bit (Spec.Improve.isTourB r n)} wf={bit wf}"

/-- `improve.koptgen n K | rec | mask0 (n flags) | choices` : the action builder, then the move -/
def koptgen (toks : List String) : Option String := do
  let [[n, k], rc, m0, ch] ← parseSections toks | none
  let n := n.toNat
  let k := k.toNat
  let rc := recOf rc
  let vt := ofArr (arrOf n (visitedTime n rc))
  let g := genRun n k rc vt (fnB m0) (toNats ch)
  let (sel, left, right) := genAction k g
  let r := ofArr (arrOf n (Code.localOpK n rc sel left right))
  let ms := ",".intercalate (g.masks.map bits)
  pure s!"action={natsStr (sel ++ left ++ right)} adm={bit g.admitted} stopped={bit g.stopped} masks={ms} next={maskBits n g.mask} rec={recStr n r} tour={bit (Spec.Improve.isTourB r n)} wf={bit (Spec.Improve.koptMoveWFB n rc sel left right)}"

/-- `improve.pdprr gs | rec | pairIdx first second` -/
def pdprr (toks : List String) : Option String := do
  let [[gs], rc, [p, f, s]] ← parseSections toks | none
  let gs := gs.toNat
  let rc := recOf rc
  let r := ofArr (arrOf gs (Code.pdpLocalOp gs rc p.toNat f.toNat s.toNat))
  let m := Code.pdpMask gs (ofArr (arrOf gs (visitedTime gs rc))) (p.toNat + 1) f.toNat s.toNat
  pure s!"rec={recStr gs r} tour={bit (Spec.Improve.isTourB r gs)} valid={bit (Spec.Improve.pdpValidB r gs)} mask={bit m}"

/-- `improve.pdpmask gs | rec | p` : the whole `gs × gs` mask (row-major first, second) for pickup node `p` -/
def pdpmask (toks : List String) : Option String := do
  let [[gs], rc, [p]] ← parseSections toks | none
  let gs := gs.toNat
  let rc := recOf rc
  let vt := ofArr (arrOf gs (visitedTime gs rc))
  let m := (List.range gs).flatMap (fun f => (List.range gs).map (fun s => Code.pdpMask gs vt p.toNat f s))
  pure s!"mask={bits m} vt={recStr gs vt}"

/-- verdicts of the Spec oracle (and of the checker models) on one successor array:
`improve.spec kind n | D | rec`, kind 0 = PDP, otherwise TSP; `D` may be empty (cost=0). -/
def spec (toks : List String) : Option String := do
  let [[kind, n], dm, rc] ← parseSections toks | none
  let n := n.toNat
  let rc := recOf rc
  let valid := if kind = 0 then Spec.Improve.pdpValidB rc n else Spec.Improve.isTourB rc n
  let chk := if kind = 0 then Code.checkPdp n rc else Code.checkKopt n rc
  pure s!"tour={bit (Spec.Improve.isTourB rc n)} valid={bit valid} check={bit chk} cost={Spec.Improve.cost n (fn2 n dm) rc} vt={recStr n (visitedTime n rc)}"

def applyMove (kind n : Nat) (r : Rec) (act : List Nat) : Rec :=
  if kind = 0 then Code.pdpLocalOp n r (act.getD 0 0) (act.getD 1 0) (act.getD 2 0)
  else if kind = 2 then Code.localOp2 n r (act.getD 0 0) (act.getD 1 0)
  else Code.localOpK n r (act.take kind) ((act.drop kind).take kind) (act.drop (2 * kind))

/-- a move section starting with `-1` is `step_to_solution(td, solution)` (the `solution_to` branch of
`_step`: the next tour is the given array); anything else is an action for `_local_operator` -/
def applyMoveI (kind n : Nat) (r : Rec) (mv : List Int) : Rec :=
  if mv.head? = some (-1) then recOf mv.tail else applyMove kind n r (toNats mv)

/-- `improve.steps kind n | D | rec0 | move | move | …`  kind 0 = PDP, 2 = 2-opt, K>2 = k-opt.
Replays `_reset` + a sequence of `_step`s; one `;`-separated entry per state (reset included). -/
def steps (toks : List String) : Option String := do
  let ([kind, n] :: dm :: rc :: moves) ← parseSections toks | none
  let kind := kind.toNat
  let n := n.toNat
  let D := fn2 n dm
  let P := if kind = 0 then Code.pdpParams else Code.koptParams
  let s0 := freezeState n (resetP P n D (recOf rc))
  let states := (moves.foldl (fun (acc : List State × State) mv =>
      let s' := freezeState n (stepP P n D (applyMoveI kind n) acc.2 mv)
      (s' :: acc.1, s')) ([s0], s0)).1.reverse
  let col (f : State → String) := ";".intercalate (states.map f)
  pure s!"cur={col (fun s => recStr n s.recCur)} best={col (fun s => recStr n s.recBest)} ccur={col (fun s => toString s.costCur)} cbsf={col (fun s => toString s.costBsf)} rew={col (fun s => toString s.reward)} vt={col (fun s => recStr n s.vt)}"

/-- `improve.bsteps kind n B | D_1 | … | D_B | rec0_1 | … | rec0_B | (B move sections per step) …`
the BATCHED model (`batchStepP`, column by column); reply as `improve.steps`, rows separated by `#`. -/
def bsteps (toks : List String) : Option String := do
  let ([kind, n, b] :: rest) ← parseSections toks | none
  let kind := kind.toNat
  let n := n.toNat
  let b := b.toNat
  if b = 0 then none
  let Ds := (rest.take b).map (fn2 n)
  let recs := ((rest.drop b).take b).map recOf
  let moves := rest.drop (2 * b)
  let P := if kind = 0 then Code.pdpParams else Code.koptParams
  let ss0 := (List.zipWith (fun D r => freezeState n (resetP P n D r)) Ds recs)
  let rec chunks (fuel : Nat) (l : List (List Int)) : List (List (List Int)) :=
    match fuel with
    | 0 => []
    | fuel + 1 => if l.isEmpty then [] else l.take b :: chunks fuel (l.drop b)
  let steps := chunks (moves.length + 1) moves
  let trace := (steps.foldl (fun (acc : List (List State) × List State) mvs =>
      let ss' := (batchStepP P n Ds (applyMoveI kind n) acc.2 mvs).map (freezeState n)
      (ss' :: acc.1, ss')) ([ss0], ss0)).1.reverse
  let rowStr (r : Nat) : String :=
    let states := trace.filterMap (·[r]?)
    let col (f : State → String) := ";".intercalate (states.map f)
    s!"{col (fun s => recStr n s.recCur)}|{col (fun s => recStr n s.recBest)}|{col (fun s => toString s.costCur)}|{col (fun s => toString s.costBsf)}|{col (fun s => toString s.reward)}|{col (fun s => recStr n s.vt)}"
  pure s!"rows={"#".intercalate ((List.range b).map rowStr)}"

/-- `improve.pdact n | last (empty or a b) | k` : DACT's mask entry at flat index `k` and the decoded move -/
def pdact (toks : List String) : Option String := do
  let [[n], last, [k]] ← parseSections toks | none
  let n := n.toNat
  let k := k.toNat
  let lst : Option (Nat × Nat) := match last with
    | [a, b] => some (a.toNat, b.toNat)
    | _ => none
  let m := Code.dactMove n k
  pure s!"move={m.1},{m.2} mask={bit (dactMaskFlat n lst k)}"

/-- `improve.pn2s gs | rec | last removal (empty or one) | pi k` : N2S' two masks and the decoded move -/
def pn2s (toks : List String) : Option String := do
  let [[gs], rc, last, [pi, k]] ← parseSections toks | none
  let gs := gs.toNat
  let rc := recOf rc
  let vt := ofArr (arrOf gs (visitedTime gs rc))
  let lst : Option Nat := match last with
    | [a] => some a.toNat
    | _ => none
  let m := Code.n2sMove gs pi.toNat k.toNat
  pure s!"move={m.1},{m.2.1},{m.2.2} rmask={bit (n2sRemovalMask lst pi.toNat)} mask={bit (Code.n2sReinsertMaskFlat gs vt pi.toNat k.toNat)}"

def handlers : List (String × (List String → Option String)) :=
  [("improve.kopt2", kopt2), ("improve.koptk", koptk), ("improve.koptgen", koptgen),
   ("improve.pdprr", pdprr), ("improve.pdpmask", pdpmask), ("improve.spec", spec),
   ("improve.steps", steps), ("improve.bsteps", bsteps),
   ("improve.pdact", pdact), ("improve.pn2s", pn2s)]

end Rl4co.Driver.Improve
