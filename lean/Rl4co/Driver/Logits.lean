/-
Driver handlers for the decoding family (ops `logits.*`, executable `drv_logits`).

The model is instantiated with `K = Rat` and the weight function `w y = 2^y` on integer `y`
(the harness feeds the real code logits `y·ln 2`, so `exp` of them is `2^y`).  Logits arrive as
integers in "units of ln 2"; after clipping (an explicit table `x ↦ clip x`, supplied by the harness,
which chooses raw logits whose clipped value is on the grid) and division by the temperature every
finite entry must be an integer, otherwise the handler answers `err=nonint`.
No Mathlib.
-/
import Rl4co.Core.Proto
import Rl4co.Decode.ProcessLogits
import Rl4co.Decode.LogitsStep
import Rl4co.Generated.LogitsPipeline
import Rl4co.Spec.Decode
namespace Rl4co.Driver.Logits
open Rl4co.Proto Rl4co.Decode

def ratOfInt (z : Int) : Rat := Rat.ofInt z

/-- `2^y` for integer `y` (callers check `y.den = 1`) -/
def pow2 (y : Rat) : Rat :=
  if 0 ≤ y.num then ratOfInt ((2 : Int) ^ y.num.toNat) else 1 / ratOfInt ((2 : Int) ^ (-y.num).toNat)

def resStr {α : Type} (f : α → String) : LoopRes α → String
  | .ok v => f v
  | .assertFail => "assert"
  | .outOfDraws => "none"

def ratStr (q : Rat) : String := s!"{q.num}/{q.den}"

def fnR (xs : List Int) : Nat → Rat :=
  let a := xs.toArray
  fun j => ratOfInt (a.getD j 0)
def fnBA (xs : List Int) : Nat → Bool :=
  let a := xs.toArray
  fun j => a.getD j 0 != 0

/-- clip table: `x_j ↦ c_j` (first match; identity outside the table) -/
def clipTab (xs cs : List Int) : List (Rat × Rat) :=
  (xs.zip cs).map (fun xc => (ratOfInt xc.1, ratOfInt xc.2))

def clipLookup (tab : List (Rat × Rat)) (v : Rat) : Rat :=
  match tab.find? (fun xc => xc.1 == v) with
  | some xc => xc.2
  | none => v

/-- insertion of index `j` into an ascending (by `x`) index list, after its equals (stable) -/
def insAsc (x : Nat → Option Rat) (j : Nat) : List Nat → List Nat
  | [] => [j]
  | i :: is => if ltO (x j) (x i) then j :: i :: is else i :: insAsc x j is

/-- a valid ascending sorting permutation (used when the harness has none from torch) -/
def autoSigma (n : Nat) (x : Nat → Option Rat) : List Nat :=
  (List.range n).foldl (fun acc j => insAsc x j acc) []

def absR (q : Rat) : Rat := if q < 0 then -q else q

def minOpt : List Rat → Option Rat
  | [] => none
  | a :: as => match minOpt as with
    | none => some a
    | some b => some (if a ≤ b then a else b)

/-- `logits.process n Tnum Tden k pnum pden clipOn maskLogits | x[n] | mask[n] | clip[n] or empty | kth or empty |
σ[n] or empty | a s or empty`.
Reply: validity of the oracle inputs, support bits, probabilities, the smallest distance of a
cumulative probability to the top-p threshold (`margin`, `none` when the filter is off), and for the
observed argmax `a` / sampled index `s`: their validity and the results of `greedy` / `sampleLoop`. -/
def process (toks : List String) : Option String := do
  let [hd, xs, ms, cs, kths, sigs, as] ← parseSections toks | none
  let [n, tn, td, k, pn, pd, clipOn, ml] := hd | none
  let n := n.toNat
  if xs.length ≠ n ∨ ms.length ≠ n ∨ td = 0 ∨ pd = 0 then none
  let cfg : Cfg Rat := { temp := ratOfInt tn / ratOfInt td, topK := k.toNat,
                         topP := ratOfInt pn / ratOfInt pd, clipOn := clipOn != 0 }
  let x := fnR xs
  let mask : Nat → Bool := if ml != 0 then fnBA ms else fun _ => true
  let tab := (clipTab xs cs).eraseDups
  let clip := clipLookup tab
  let x3 := (pre clip cfg n x mask).get
  if (List.range n).any (fun j => match x3 j with | some v => v.den != 1 | none => false) then
    pure "err=nonint"
  else
  let auto := autoSigma n x3
  let kth : Nat := match kths with
    | [] => auto.getD (n - min cfg.topK n) 0
    | z :: _ => z.toNat
  let x4 := (afterK clip cfg n x mask kth).get
  let sigA : Array Nat := (if sigs.isEmpty then autoSigma n x4 else toNats sigs).toArray
  let σ : Nat → Nat := fun i => sigA.getD i 0
  -- mask_logits = True: the *generated* statement sequence (Generated/LogitsPipeline.lean, = `processLogits` by
  -- `processLogitsGen_eq`) is what is compared with the real code
  let out := if ml != 0 then Generated.processLogitsGen pow2 clip cfg n x (fnBA ms) kth σ
             else processLogitsOpt false pow2 clip cfg n x (fnBA ms) kth σ
  let kthOk := cfg.topK = 0 ∨ KthValid n cfg.topK x3 kth
  let toppOn := toppOff cfg.topP = false
  let sortOk := ¬ toppOn ∨ SortValid n x4 σ
  let margin : String :=
    if toppOn then
      let q := (softmaxN n pow2 (fun i => x4 (σ i))).get
      match minOpt ((List.range n).map (fun i => absR (sumN (i + 1) q - (1 - cfg.topP)))) with
      | some m => ratStr m
      | none => "none"
    else "none"
  let g : String := match as with
    | [a, sa] =>
      let a := a.toNat
      let sa := sa.toNat
      let r := if ml != 0 then (match greedy mask a with | some b => toString b | none => "none")
               else (match (stepGreedyNoMask pow2 clip cfg n x (fnBA ms) kth σ a).2 with | some b => toString b | none => "none")
      let rs := if ml != 0 then resStr toString (sampleLoop mask [sa])
                else resStr toString (stepSamplingNoMask pow2 clip cfg n x (fnBA ms) kth σ [sa]).2
      s!"gvalid={bit (decide (GreedyValid n out.lg a))} greedy={r} svalid={bit (decide (SampleValid n out.prob sa))} sample={rs}"
    | _ => "gvalid=- greedy=- svalid=- sample=-"
  pure s!"kthvalid={bit (decide kthOk)} sortvalid={bit (decide sortOk)} kept={maskBits n out.kept} probs={",".intercalate ((List.range n).map (fun j => ratStr (out.prob j)))} margin={margin} kth={kth} {g}"

/-- `logits.greedy n | finite[n] | val[n] | mask[n] | a` : `DecodingStrategy.greedy` on arbitrary
log-probabilities (`finite j = 0` ⇒ `-inf`); `valid` = `a` is an argmax, `res` = what `greedy` returns. -/
def greedyOp (toks : List String) : Option String := do
  let [hd, fs, vs, ms, as] ← parseSections toks | none
  let [n] := hd | none
  let [a] := as | none
  let n := n.toNat
  let lg : Nat → Option Rat := fun j => if fnB fs j then some (fnR vs j) else none
  let r := match greedy (fnB ms) a.toNat with | some b => toString b | none => "none"
  pure s!"valid={bit (decide (GreedyValid n lg a.toNat))} res={r}"

/-- `logits.sample n | mask[n] | draws` : single-row resampling loop -/
def sampleOp (toks : List String) : Option String := do
  let [hd, ms, ds] ← parseSections toks | none
  let [_n] := hd | none
  pure s!"res={resStr toString (sampleLoop (fnB ms) (toNats ds))}"

/-- `logits.decode isGreedy n | mask[n] | a | draws` : `decode_logprobs` with decode type "greedy" / "sampling" -/
def decodeOp (toks : List String) : Option String := do
  let [hd, ms, as, ds] ← parseSections toks | none
  let [g, _n] := hd | none
  let a := (as.getD 0 0).toNat
  let ty := if g != 0 then "greedy" else "sampling"
  pure s!"res={resStr toString (decodeLogprobs ty (fnB ms) a (toNats ds))}"

/-- `logits.book storeAll L1 evaluate | a[L1+L2]` : the buffers of a strategy object after a first sequence of
`L1` steps (`post_decoder_hook`) and after a second sequence on the same object.  The distribution of step
`t` is the tagged function `j ↦ 1000·t + j`, so a stored entry shows which index of which step was gathered
(`all` = the whole row was stored).  With `evaluate = 1` the selected action is `evaluateSelect a`. -/
def bookOp (toks : List String) : Option String := do
  let [hd, as] ← parseSections toks | none
  let [sa, l1, ev] := hd | none
  let acts := toNats as
  let steps : List ((Nat → Int) × Nat) :=
    (List.range acts.length).map (fun t =>
      let a := acts.getD t 0
      ((fun j => (1000 * t + j : Int)), if ev != 0 then evaluateSelect a else a))
  let first := steps.take l1.toNat
  let second := steps.drop l1.toNat
  let st1 := runSteps (sa != 0) StratState.init first
  let st2 := runSteps (sa != 0) st1 second
  let show_ : StratState Int → String := fun st =>
    let (lp, ac) := postHook st
    let e := lp.map (fun x => match x with | Logp.one v => toString v | Logp.all _ => "all")
    s!"{natsStr ac}/{",".intercalate e}"
  pure s!"first={show_ st1} reuse={show_ st2}"

def chunks (n : Nat) (xs : List Int) : Nat → List (List Int)
  | 0 => []
  | b + 1 => xs.take n :: chunks n (xs.drop n) b

/-- `logits.sampleB B n R | masks[B·n] | draws[R·B]` : batched resampling loop (R draw vectors) -/
def sampleBOp (toks : List String) : Option String := do
  let [hd, ms, ds] ← parseSections toks | none
  let [b, n, r] := hd | none
  let masks := (chunks n.toNat ms b.toNat).map fnB
  let draws := (chunks b.toNat ds r.toNat).map toNats
  pure s!"res={resStr natsStr (sampleLoopB masks draws)}"

open Rl4co.Spec.Decode in
/-- `logits.spec n k pticks tol one | mask[n] | score[n] | kept[n] | p[n] | q[n] or empty |
p'[n] or empty | greedy a or empty | sampled a or empty` — the C10 spec predicates evaluated on
outcomes of the real code (probabilities in integer ticks, `one` = ticks of 1.0). -/
def specOp (toks : List String) : Option String := do
  let [hd, ms, sc, ks, ps, qs, ps', ga, sa] ← parseSections toks | none
  let [n, k, pt, tol, one] := hd | none
  let n := n.toNat
  let mask := fnB ms
  let score := fn1 sc
  let kept := fnB ks
  let r : List Int → Nat → Rat := fun l j => ratOfInt (l.getD j 0) / ratOfInt one
  let p := r ps
  let tolR := ratOfInt tol / ratOfInt one
  let isd := decide (IsDist n p tolR)
  let mz := decide (MaskedZero n mask p kept)
  let ak := decide (ArgmaxKept n mask score kept)
  let tc := decide (TopkCard n k.toNat score kept)
  let tg := decide (TopkGeFeasible n k.toNat mask kept)
  let tm := if qs.isEmpty then "-" else bit (decide (ToppMass n (r qs) kept (ratOfInt pt / ratOfInt one) tolR))
  let tt := if qs.isEmpty || pt ≤ 0 then "-" else
    bit (decide (ToppTight n (r qs) kept (ratOfInt pt / ratOfInt one) tolR))
  let cl := if ps'.isEmpty then "-" else bit (decide (Close n p (r ps') tolR))
  let gr := match ga with | [] => "-" | a :: _ => bit (decide (GreedyOk n mask p a.toNat))
  let sm := match sa with | [] => "-" | a :: _ => bit (decide (SampleOk n mask kept a.toNat))
  pure s!"isdist={bit isd} maskedzero={bit mz} argmax={bit ak} topkcard={bit tc} topkge={bit tg} toppmass={tm} tight={tt} close={cl} greedy={gr} sample={sm}"

def handlers : List (String × (List String → Option String)) :=
  [("logits.process", process), ("logits.greedy", greedyOp), ("logits.sample", sampleOp),
   ("logits.sampleB", sampleBOp), ("logits.decode", decodeOp), ("logits.book", bookOp), ("logits.spec", specOp)]

end Rl4co.Driver.Logits
