/-
Driver for the definitions REGENERATED from the Python source by `harness/pytrans.py`
(`Rl4co/Generated/Numeric.lean`), instantiated over exact rationals.  No Mathlib.

  numeric.welford NB (LEN x^LEN)^NB      → after every batch: count;mean;M2 of the generated update folded from (0,0,0)
  numeric.scale MODE EPS SQ C MEAN M2 N x^N
                                          → generated factor (with `sq := fun _ => SQ`, the harness supplies the root)
                                            and the generated 'norm' / 'scale' output for the scores
  numeric.ema BETA NB (LEN x^LEN)^NB     → moving average after every batch (generated first value, then recurrence)
  numeric.alpha N E                       → generated warm-up weight for epochs 0..E-1
  numeric.mix A VB VWB LB LWB             → generated mixture (value;loss)
  numeric.reinforce SC R BL LL BLLOSS     → generated REINFORCE.calculate_loss on shaped tensors of dual numbers
                                            (SC = off | div C | norm M F; tensors: s X | v N X^N | m N K X^(N·K); X = value deriv)
  numeric.critic OUT C                    → generated CriticBaseline.eval
  numeric.shared R                        → generated SharedBaseline.eval
  numeric.ppo C VF EL LL OLD R VP ENT NR (ARG VAL)^NR
                                          → generated PPO loss block (OLD, R gradient-free tensors: s X | v N X^N | m N K …;
                                            the trailing table is the oracle for `exp` at the NR ratio arguments)
-/
import Rl4co.Core.Proto
import Rl4co.Generated.Numeric
import Rl4co.Generated.Losses
import Rl4co.Generated.Ppo
namespace Rl4co.Driver.Numeric
open Rl4co.Train

abbrev P := StateT (List String) Option
def tok : P String := fun s => match s with | [] => none | t :: ts => some (t, ts)
def pNat : P Nat := do let t ← tok; match t.toNat? with | some n => pure n | none => failure
def parseRat (t : String) : Option Rat :=
  match t.splitOn "/" with
  | [p] => p.toInt?.map (fun n => (n : Rat))
  | [p, q] => do let n ← p.toInt?; let d ← q.toNat?; if d = 0 then none else pure (mkRat n d)
  | _ => none
def pRat : P Rat := do let t ← tok; match parseRat t with | some r => pure r | none => failure
def pMany {α : Type} (p : P α) : Nat → P (List α)
  | 0 => pure []
  | n + 1 => do let x ← p; let xs ← pMany p n; pure (x :: xs)
def atEnd : P Unit := fun s => match s with | [] => some ((), []) | _ => none
def rs (r : Rat) : String := if r.den = 1 then s!"{r.num}" else s!"{r.num}/{r.den}"
def rsl (xs : List Rat) : String := ",".intercalate (xs.map rs)
def pBatches : P (List (List Rat)) := do
  let nb ← pNat
  pMany (do let n ← pNat; pMany pRat n) nb

def welford : P String := do
  let bs ← pBatches; atEnd
  let step (acc : (Nat × Rat × Rat) × List String) (b : List Rat) :=
    let s := Rl4co.Numeric.welfordUpdate acc.1.1 acc.1.2.1 acc.1.2.2 b
    (s, s!"{s.1};{rs s.2.1};{rs s.2.2}" :: acc.2)
  let r := bs.foldl step ((0, 0, 0), [])
  pure (" ".intercalate r.2.reverse)

def scale : P String := do
  let mode ← tok; let eps ← pRat; let sqv ← pRat
  let c ← pNat; let mean ← pRat; let m2 ← pRat
  let n ← pNat; let xs ← pMany pRat n; atEnd
  let fac := Rl4co.Numeric.scalerFactor (fun _ => sqv) eps c m2
  let arg := m2 / ((c : Rat) - 1)     -- what the generated code hands to `sq` (for the harness to take the root of)
  if mode == "norm" then pure s!"fac={rs fac} out={rsl (Rl4co.Numeric.scalerNorm mean fac xs)}"
  else if mode == "scale" then pure s!"fac={rs fac} out={rsl (Rl4co.Numeric.scalerScale mean fac xs)}"
  else if mode == "arg" then pure s!"arg={rs arg}"
  else failure

def ema : P String := do
  let beta ← pRat; let bs ← pBatches; atEnd
  let step (acc : Option Rat × List String) (b : List Rat) :=
    let v := match acc.1 with
      | none => Rl4co.Numeric.emaFirst b
      | some v => Rl4co.Numeric.emaStep beta v b
    (some v, rs v :: acc.2)
  pure (" ".intercalate (bs.foldl step (none, [])).2.reverse)

def alpha : P String := do
  let n ← pNat; let e ← pNat; atEnd
  pure (rsl ((List.range e).map (fun ep => (Rl4co.Numeric.warmupAlpha ep n : Rat))))

def mix : P String := do
  let a ← pRat; let vb ← pRat; let vwb ← pRat; let lb ← pRat; let lwb ← pRat; atEnd
  let r := Rl4co.Numeric.warmupMix a vb vwb lb lwb
  pure s!"{rs r.1};{rs r.2}"

def pDual : P (Dual Rat) := do let v ← pRat; let d ← pRat; pure ⟨v, d⟩
def pTen : P (Ten (Dual Rat)) := do
  let t ← tok
  if t == "s" then (do let x ← pDual; pure (Ten.scalar x))
  else if t == "v" then (do
    let n ← pNat; let xs ← pMany pDual n
    pure (Ten.vec n (fun j => xs.getD j 0)))
  else if t == "m" then (do
    let n ← pNat; let k ← pNat; let xs ← pMany pDual (n * k)
    pure (Ten.mat n k (fun i j => xs.getD (i * k + j) 0)))
  else failure
def pScale : P (ScaleOp Rat) := do
  let t ← tok
  if t == "off" then pure ScaleOp.off
  else if t == "div" then (do let c ← pRat; pure (ScaleOp.divBy c))
  else if t == "norm" then (do let m ← pRat; let f ← pRat; pure (ScaleOp.norm m f))
  else failure
def ds (x : Dual Rat) : String := s!"{rs x.v};{rs x.d}"
def tenStr (t : Ten (Dual Rat)) : String := s!"{t.sh.toStr}:{",".intercalate (t.toList.map ds)}"

def reinforce : P String := do
  let sc ← pScale; let r ← pTen; let bl ← pTen; let ll ← pTen; let bll ← pDual; atEnd
  match Rl4co.Numeric.reinforceLoss sc r bl ll bll with
  | none => pure "error=shape"
  | some (loss, rl, adv) => pure s!"loss={ds loss} rl={ds rl} adv={tenStr adv}"

def critic : P String := do
  let o ← pTen; let c ← pTen; atEnd
  match Rl4co.Numeric.criticEval o c with
  | none => pure "error=shape"
  | some (v, l) => pure s!"val={tenStr v} loss={ds l}"

def shared : P String := do
  let r ← pTen; atEnd
  match Rl4co.Numeric.sharedEval r with
  | none => pure "error=shape"
  | some (v, l) => pure s!"val={tenStr v} loss={ds l}"

def pTenK : P (Ten Rat) := do
  let t ← tok
  if t == "s" then (do let x ← pRat; pure (Ten.scalar x))
  else if t == "v" then (do
    let n ← pNat; let xs ← pMany pRat n
    pure (Ten.vec n (fun j => xs.getD j 0)))
  else if t == "m" then (do
    let n ← pNat; let k ← pNat; let xs ← pMany pRat (n * k)
    pure (Ten.mat n k (fun i j => xs.getD (i * k + j) 0)))
  else failure
def tenKStr (t : Ten Rat) : String := s!"{t.sh.toStr}:{rsl t.toList}"

def ppo : P String := do
  let c ← pRat; let vf ← pRat; let el ← pRat
  let ll ← pTen; let old ← pTenK; let r ← pTenK; let vp ← pTen; let ent ← pTen
  let nr ← pNat
  let table ← pMany (do let a ← pRat; let v ← pRat; pure (a, v)) nr
  atEnd
  let w : Rat → Rat := fun x => match table.find? (fun p => p.1 == x) with | some p => p.2 | none => 0
  match Rl4co.Numeric.ppoLoss w c vf el ll old r vp ent with
  | none => pure "error=shape"
  | some (loss, sl, vl, ratio, adv) =>
    pure s!"loss={ds loss} surrogate={ds sl} value={ds vl} ratio={tenStr ratio} adv={tenKStr adv}"

def run (p : P String) (toks : List String) : Option String := (p toks).map (·.1)

def handlers : List (String × (List String → Option String)) :=
  [("numeric.welford", run welford), ("numeric.scale", run scale), ("numeric.ema", run ema),
   ("numeric.alpha", run alpha), ("numeric.mix", run mix), ("numeric.reinforce", run reinforce),
   ("numeric.critic", run critic), ("numeric.shared", run shared), ("numeric.ppo", run ppo)]

end Rl4co.Driver.Numeric
