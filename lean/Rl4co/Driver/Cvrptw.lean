import Rl4co.Core.Proto
import Rl4co.Env.Cvrptw
import Rl4co.Spec.Cvrptw
namespace Rl4co.Driver.Cvrptw
open Rl4co.Proto

/-- header `n cap tol unit e0`, then `demand[1..n] | twS[0..n] | twE[0..n] | dur[0..n] | D (n+1)² | actions` -/
def parse (toks : List String) : Option (Rl4co.Cvrptw.Inst × Int × Int × Int × List Nat) := do
  let [hd, dem, ts, te, du, dm, acts] ← parseSections toks | none
  let [n, cap, tol, unit, e0] := hd | none
  let n := n.toNat
  let b : Rl4co.Cvrp.Inst := { n := n, cap := cap, demand := fn1From1 dem, D := fn2 (n + 1) dm }
  let i : Rl4co.Cvrptw.Inst := { base := b, twS := fn1 ts, twE := fn1 te, dur := fn1 du }
  pure (i, tol, unit, e0, toNats acts)

def verdicts (i : Rl4co.Cvrptw.Inst) (tol unit e0 : Int) (as : List Nat) : String :=
  let feas := Rl4co.Spec.Cvrptw.feasible i as
  let near := !feas && Rl4co.Spec.Cvrptw.feasibleWithin tol i as
  s!"check={bit (Rl4co.Cvrptw.check i tol unit e0 as)} feas={bit feas} near={bit near} base={bit (Rl4co.Spec.Cvrp.feasible i.base as)} checkx={bit (Rl4co.Cvrptw.check i tol 1 e0 as)} checkown={bit (Rl4co.Cvrptw.check i tol unit (i.twE 0) as)} checkrep={bit (Rl4co.Cvrptw.checkG false false i tol unit e0 as)} static={bit (Rl4co.Cvrptw.checkStatic i (i.twE 0))}"

/-- `cvrptw.episode …`: mask/done trace, reward, checker and spec verdicts -/
def episode (toks : List String) : Option String := do
  let (i, tol, unit, e0, as) ← parse toks
  let tr := episodeTrace Rl4co.Cvrptw.env i as
  pure s!"{tr} reward={Rl4co.Cvrptw.reward i as} {verdicts i tol unit e0 as} obj={Rl4co.Spec.Cvrptw.objective i as} bound={2 * i.base.n + 1}"

/-- `cvrptw.check …`: only the checker / spec verdicts (arbitrary action lists) -/
def check (toks : List String) : Option String := do
  let (i, tol, unit, e0, as) ← parse toks
  pure (verdicts i tol unit e0 as)

def handlers : List (String × (List String → Option String)) :=
  [("cvrptw.episode", episode), ("cvrptw.check", check)]

end Rl4co.Driver.Cvrptw
