import Rl4co.Core.Proto
import Rl4co.Env.Mcp
import Rl4co.Spec.Mcp
import Rl4co.Spec.SelectOpt
import Rl4co.Driver.Flp
namespace Rl4co.Driver.Mcp
open Rl4co.Proto
open Rl4co.Driver.Flp (statesOf rowStr)

def fnMem (w : Nat) (xs : List Int) : Nat → Nat → Nat :=
  let arr := xs.toArray
  fun j k => (arr.getD (j * w + k) 0).toNat

/-- `mcp.episode nSets nItems maxSize quota | membership nSets·maxSize row-major | weights nItems | actions`
reply: masks/done/adm trace, per-state `chosen` bits, `weights` rows, remaining `mem` rows (states
separated by `:`), `reward` of the final state, Spec `feas`, `obj`, and Spec `unc` rows per state
(uncovered weights recomputed from the action prefix alone) and `rem` rows (membership with the\nrows of the selected sets blanked), `bound`. -/
def episode (toks : List String) : Option String := do
  let [hd, mm, ww, acts] ← parseSections toks | none
  let [ns, ni, ms, q] := hd | none
  let ns := ns.toNat; let ni := ni.toNat; let ms := ms.toNat
  let i : Rl4co.Mcp.Inst := { nSets := ns, nItems := ni, maxSize := ms, quota := q, mem := fnMem ms mm, w := Rl4co.Driver.Flp.fn1A ww }
  let as := toNats acts
  let tr := episodeTrace Rl4co.Mcp.env i as
  let sts := statesOf Rl4co.Mcp.env i as
  let chosen := ":".intercalate (sts.map (fun s => maskBits ns s.chosen))
  let wts := ":".intercalate (sts.map (fun s => rowStr ni s.weights))
  let mem := ":".intercalate (sts.map (fun s =>
    natsStr ((List.range (ns * ms)).map (fun p => s.mem (p / ms) (p % ms)))))
  let unc := ":".intercalate ((List.range (as.length + 1)).map (fun t =>
    rowStr ni (Rl4co.Spec.Mcp.uncoveredWeight i (as.take t))))
  let rem := ":".intercalate ((List.range (as.length + 1)).map (fun t =>
    natsStr ((List.range (ns * ms)).map (fun p => Rl4co.Spec.Mcp.remaining i (as.take t) (p / ms) (p % ms)))))
  let fin := exec Rl4co.Mcp.env i (Rl4co.Mcp.reset i) as
  pure s!"{tr} chosen={chosen} weights={wts} mem={mem} unc={unc} rem={rem} reward={Rl4co.Mcp.reward i fin} feas={bit (Rl4co.Spec.Mcp.feasible i as)} obj={Rl4co.Spec.Mcp.objective i as} bound={q}"

/-- `mcp.opt …` (arguments of `mcp.episode`, actions ignored) → brute-force optimum (`Spec.Mcp.optimum`) -/
def opt (toks : List String) : Option String := do
  let [hd, mm, ww, _] ← parseSections toks | none
  let [ns, ni, ms, q] := hd | none
  let ns := ns.toNat; let ni := ni.toNat; let ms := ms.toNat
  let i : Rl4co.Mcp.Inst := { nSets := ns, nItems := ni, maxSize := ms, quota := q, mem := fnMem ms mm, w := Rl4co.Driver.Flp.fn1A ww }
  pure s!"opt={Rl4co.Spec.Mcp.optimum i} nfeas={(Rl4co.Spec.Mcp.candidates i).length}"

def handlers : List (String × (List String → Option String)) :=
  [("mcp.episode", episode), ("mcp.opt", opt)]

end Rl4co.Driver.Mcp
