/-
Driver handlers for the training family (`train.*`): running statistics, baselines, losses.
Numbers are exact rationals `p/q` (every float32/float64 the real code holds is a dyadic rational and is
passed exactly).  Token grammar (space separated):

  rat    := INT | INT/NAT
  dual   := rat rat                                   -- value, directional derivative
  tenK   := s rat | v N rat^N | m N K rat^(N*K)       -- row-major
  tenD   := s dual | v N dual^N | m N K dual^(N*K) | pomo S N dual^N
            (`pomo`: a flat `[N]` tensor regrouped the way POMO does, `unbatchify(x, (0, S))`)
  bl     := no | shared | given tenD dual | ema rat optrat | critic tenD | rollout tenK
          | warmup rat NAT rat optrat bl              -- alpha n_epochs beta ema-state inner
  optrat := none | some rat
  scale  := off | div rat | norm rat rat
-/
import Rl4co.Core.Proto
import Rl4co.Train.Dual
import Rl4co.Train.Welford
import Rl4co.Train.Baselines
import Rl4co.Train.Loss
import Rl4co.Spec.Train
namespace Rl4co.Driver.Train
open Rl4co.Train

abbrev P := StateT (List String) Option

def tok : P String := fun s => match s with | [] => none | t :: ts => some (t, ts)
def kw (w : String) : P Unit := do let t ← tok; if t == w then pure () else failure
def pNat : P Nat := do let t ← tok; match t.toNat? with | some n => pure n | none => failure
def parseRat (t : String) : Option Rat :=
  match t.splitOn "/" with
  | [p] => p.toInt?.map (fun n => (n : Rat))
  | [p, q] => do let n ← p.toInt?; let d ← q.toNat?; if d = 0 then none else pure (mkRat n d)
  | _ => none
def pRat : P Rat := do let t ← tok; match parseRat t with | some r => pure r | none => failure
def pDual : P (Dual Rat) := do let v ← pRat; let d ← pRat; pure ⟨v, d⟩
def pMany {α : Type} (p : P α) : Nat → P (List α)
  | 0 => pure []
  | n + 1 => do let x ← p; let xs ← pMany p n; pure (x :: xs)
def pOptRat : P (Option Rat) := do
  let t ← tok
  if t == "none" then pure none else if t == "some" then (do let r ← pRat; pure (some r)) else failure
def atEnd : P Unit := fun s => match s with | [] => some ((), []) | _ => none

def ofList {α : Type} (d : α) (xs : List α) : Nat → α := fun i => xs.getD i d

/-- a parsed tensor together with the flat (as-given) order of its entries -/
structure PT (α : Type) where
  t : Ten α
  n : Nat
  flat : Nat → α
  /-- `some S` when the tensor was given flat and regrouped POMO-style -/
  pomo : Option Nat

def pTenWith {α : Type} (d : α) (p : P α) (allowPomo : Bool) : P (PT α) := do
  let t ← tok
  if t == "s" then
    let x ← p; pure ⟨Ten.scalar x, 1, fun _ => x, none⟩
  else if t == "v" then
    let n ← pNat; let xs ← pMany p n
    pure ⟨Ten.vec n (ofList d xs), n, ofList d xs, none⟩
  else if t == "m" then
    let n ← pNat; let k ← pNat; let xs ← pMany p (n * k)
    pure ⟨Ten.mat n k (fun i j => xs.getD (i * k + j) d), n * k, ofList d xs, none⟩
  else if t == "pomo" && allowPomo then
    let s ← pNat; let n ← pNat; let xs ← pMany p n
    pure ⟨pomoRegroup s n (ofList d xs), n, ofList d xs, some s⟩
  else failure

def pTenD : P (PT (Dual Rat)) := pTenWith (0 : Dual Rat) pDual true
def pTenK : P (PT Rat) := pTenWith (0 : Rat) pRat false

/-! output -/
def rs (r : Rat) : String := if r.den = 1 then s!"{r.num}" else s!"{r.num}/{r.den}"
def rsl (xs : List Rat) : String := ",".intercalate (xs.map rs)
def ds (x : Dual Rat) : String := s!"{rs x.v};{rs x.d}"
def tenStr (t : Ten (Dual Rat)) : String :=
  s!"{t.sh.toStr}:{rsl (t.toList.map (·.v))}:{rsl (t.toList.map (·.d))}"
def tenKStr (t : Ten Rat) : String := s!"{t.sh.toStr}:{rsl t.toList}"
def orNone (o : Option Rat) : String := match o with | none => "none" | some r => rs r

/-! ### C20 -/

/-- `train.welford NB (LEN x^LEN)^NB` → state after every batch + the spec on everything seen so far -/
def welford : P String := do
  let nb ← pNat
  let batches ← pMany (do let n ← pNat; pMany pRat n) nb
  atEnd
  let rec go (st : Welford.St Rat) (seen : List Rat) (acc : List (Welford.St Rat × List Rat)) :
      List (List Rat) → List (Welford.St Rat × List Rat)
    | [] => acc.reverse
    | b :: bs => let st' := Welford.update st b; go st' (seen ++ b) ((st', seen ++ b) :: acc) bs
  let tr := go Welford.init [] [] batches
  let f (g : Welford.St Rat × List Rat → Rat) := rsl (tr.map g)
  pure (s!"count={",".intercalate (tr.map (fun p => toString p.1.count))} mean={f (·.1.mean)} M2={f (·.1.M2)} "
    ++ s!"var={f (fun p => Welford.variance p.1)} smean={f (fun p => Spec.Train.mean p.2)} "
    ++ s!"ssq={f (fun p => Spec.Train.sumSqDev p.2)} svar={f (fun p => Spec.Train.sampleVar p.2)}")

def pMode : P (Welford.Mode Rat) := do
  let t ← tok
  if t == "off" then pure Welford.Mode.off
  else if t == "div" then (do let c ← pRat; pure (Welford.Mode.divInt c))
  else if t == "norm" then pure Welford.Mode.norm
  else if t == "scale" then pure Welford.Mode.scale
  else failure

/-- `train.scale MODE EPS NB (SQRT LEN x^LEN)^NB` → the outputs of successive `__call__`s; `SQRT` is the
value the square root takes at that call (oracle, checked by the harness against `var`) -/
def scale : P String := do
  let mode ← pMode
  let eps ← pRat
  let nb ← pNat
  let calls ← pMany (do let s ← pRat; let n ← pNat; let xs ← pMany pRat n; pure (s, xs)) nb
  atEnd
  let rec go (st : Welford.St Rat) (acc : List (List Rat)) : List (Rat × List Rat) → List (List Rat) × Welford.St Rat
    | [] => (acc.reverse, st)
    | (s, b) :: cs => let (st', out) := Welford.call (fun _ => s) eps mode st b; go st' (out :: acc) cs
  let (outs, st) := go Welford.init [] calls
  pure s!"out={";".intercalate (outs.map rsl)} count={st.count} mean={rs st.mean} M2={rs st.M2}"

/-- `train.ema BETA NB (LEN x^LEN)^NB` → `v` after every `eval`, its gradient part, the closed form -/
def ema : P String := do
  let beta ← pRat
  let nb ← pNat
  let batches ← pMany (do let n ← pNat; pMany pRat n) nb
  atEnd
  let rec go (v : Option Rat) (acc : List (Dual Rat)) : List (List Rat) → List (Dual Rat)
    | [] => acc.reverse
    | b :: bs =>
      let (val, _, v') := Ema.eval beta v (Ten.vec b.length (ofList 0 (b.map Dual.const)))
      go (some v') (val.f 0 0 :: acc) bs
  let vs := go none [] batches
  let means := batches.map Spec.Train.mean
  let closed := (List.range means.length).map (fun t =>
    Spec.Train.emaClosed beta (means.getD 0 0) ((means.drop 1).take t))
  let rec runs (v : Option Rat) (acc : List Rat) : List Rat → List Rat
    | [] => acc.reverse
    | m :: ms => let v' := Ema.step beta v m; runs (some v') (v' :: acc) ms
  pure s!"v={rsl (vs.map (·.v))} d={rsl (vs.map (·.d))} closed={rsl closed} rec={rsl (runs none [] means)}"

/-! ### baselines -/

structure BlOut where
  val : Ten (Dual Rat)
  loss : Dual Rat
  state : String
  kind : String

partial def pBl (reward : Ten (Dual Rat)) : P (Option BlOut) := do
  let t ← tok
  if t == "no" then
    let (v, l) := (noBaselineEval : Ten (Dual Rat) × Dual Rat); pure (some ⟨v, l, "-", "no"⟩)
  else if t == "shared" then
    let (v, l) := sharedEval reward; pure (some ⟨v, l, "-", "shared"⟩)
  else if t == "given" then
    let v ← pTenD; let l ← pDual; pure (some ⟨v.t, l, "-", "given"⟩)
  else if t == "ema" then
    let beta ← pRat; let st ← pOptRat
    let (v, l, e) := Ema.eval beta st reward
    pure (some ⟨v, l, s!"ema:{rs e}", "ema"⟩)
  else if t == "critic" then
    let out ← pTenD
    match Critic.eval out.t reward with
    | some (v, l) => pure (some ⟨v, l, "-", "critic"⟩)
    | none => pure none
  else if t == "rollout" then
    let g ← pTenK
    let (v, l) := Rollout.eval g.t; pure (some ⟨v, l, "-", "rollout"⟩)
  else if t == "warmup" then
    let alpha ← pRat; let n ← pNat; let beta ← pRat; let st ← pOptRat
    let inner ← pBl reward
    match inner with
    | none => pure none
    | some i =>
      let w : Warmup.St Rat := ⟨alpha, n, st⟩
      match Warmup.eval beta w (i.val, i.loss) reward with
      | none => pure none
      | some (v, l, w') =>
        let br := match Warmup.branch w with
          | Warmup.Branch.inner => "inner" | Warmup.Branch.warm => "warm" | Warmup.Branch.both => "both"
        pure (some ⟨v, l, s!"warm:{br}:{orNone w'.ema}:{i.state}", "warmup"⟩)
  else failure

def pScaleOp : P (ScaleOp Rat) := do
  let t ← tok
  if t == "off" then pure ScaleOp.off
  else if t == "div" then (do let c ← pRat; pure (ScaleOp.divBy c))
  else if t == "norm" then (do let m ← pRat; let f ← pRat; pure (ScaleOp.norm m f))
  else failure

/-- per-sample baseline for the reference surrogate: by sample index in the as-given (flat) order -/
def specBaseline (R : PT (Dual Rat)) (bl : BlOut) : Option (Nat → Rat) :=
  if bl.kind == "shared" then
    match R.pomo, R.t.sh with
    | some s, _ => some (Spec.Train.sharedBaselineFlat (R.n / s) s (fun k => (R.flat k).v))
    | none, Shape.m _ k =>
      some (fun i => sumTo k (fun j => (R.flat (i / k * k + j)).v) / (k : Rat))
    | _, _ => none
  else if bl.val.sh.numel = 1 then some (fun _ => (bl.val.f 0 0).v)
  else if bl.val.sh.numel = R.n ∧ R.pomo.isNone then
    let xs := bl.val.toList
    some (fun i => (xs.getD i 0).v)
  else none

/-- `train.reinforce SCALE tenD(reward) tenD(ll) BL` → the model's `calculate_loss` and the reference -/
def reinforce : P String := do
  let sc ← pScaleOp
  let R ← pTenD
  let ll ← pTenD
  let bl ← pBl R.t
  atEnd
  match bl with
  | none => pure "error=baseline-shape"
  | some bl =>
    match calcLoss sc R.t bl.val ll.t bl.loss with
    | none => pure "error=shape"
    | some out =>
      let maxd := out.adv.toList.foldl (fun m x => if x.d = 0 then m else m + 1) 0
      let blgrad := bl.val.toList.foldl (fun m x => if x.d = 0 then m else m + 1) 0
      let rgrad := R.t.toList.foldl (fun m x => if x.d = 0 then m else m + 1) 0
      let spec : String :=
        match specBaseline R bl with
        | none => "spec=na"
        | some b =>
          if R.n = ll.n then
            let scK : Rat → Rat := fun x => match sc with
              | ScaleOp.off => x
              | ScaleOp.divBy c => x / c
              | ScaleOp.norm m f => (x - m) / f
            let adv : Nat → Rat := fun i => scK ((R.flat i).v - b i)
            let v := Spec.Train.surrogate R.n adv (fun i => (ll.flat i).v) + bl.loss.v
            let g := Spec.Train.surrogate R.n adv (fun i => (ll.flat i).d) + bl.loss.d
            s!"spec={rs v};{rs g}"
          else "spec=na"
      pure (s!"loss={ds out.loss} rl={ds out.reinforceLoss} blloss={ds bl.loss} blval={tenStr bl.val} "
        ++ s!"advshape={out.adv.sh.toStr} rewardshape={R.t.sh.toStr} advgrad={maxd} blgrad={blgrad} rewardgrad={rgrad} "
        ++ s!"state={bl.state} adv={rsl (out.adv.toList.map (·.v))} {spec}")

/-- `train.warmup N BETA NEV (cb EPOCH | ev BLKIND… tenD(reward))^NEV`: a history of epoch callbacks and
evaluations of a `WarmupBaseline` whose inner baseline's results are given (`given …`/`no`/`ema …`). -/
def warmup : P String := do
  let n ← pNat
  let beta ← pRat
  let nev ← pNat
  let rec go (k : Nat) (st : Warmup.St Rat) (acc : List String) : P (List String) :=
    match k with
    | 0 => pure acc.reverse
    | k + 1 => do
      let t ← tok
      if t == "cb" then
        let e ← pNat
        let st' := Warmup.epochCallback st e
        go k st' (s!"cb:{rs st'.alpha}:{rs (Spec.Train.warmupAlpha n e)}" :: acc)
      else if t == "ev" then
        let R ← pTenD
        let inner ← pBl R.t
        match inner with
        | none => failure
        | some i =>
          match Warmup.eval beta st (i.val, i.loss) R.t with
          | none => go k st ("ev:error" :: acc)
          | some (v, l, st') =>
            let br := match Warmup.branch st with
              | Warmup.Branch.inner => "inner" | Warmup.Branch.warm => "warm" | Warmup.Branch.both => "both"
            go k st' (s!"ev:{br}:{tenStr v}:{ds l}:{orNone st'.ema}" :: acc)
      else failure
  let out ← go nev (Warmup.init n) []
  atEnd
  pure s!"events={"|".intercalate out}"

/-! ### PPO -/

def ltB (a b : Rat) : Bool := decide (a < b)


/-- `train.ppo LO HI VFL ENTL NORM tenD(ll [B,T]) tenK(oldlogp) tenK(reward) tenD(value_pred) tenD(entropy)
NR rat^NR`  with `NORM := nonorm | norm STD EPS`; the trailing list gives `exp` at the `NR` ratio
arguments in flat order (oracle for `exp`). -/
def ppo : P String := do
  let lo ← pRat; let hi ← pRat; let vfl ← pRat; let entl ← pRat
  let t ← tok
  let normalize : Option (Rat × Rat) ←
    if t == "nonorm" then pure none
    else if t == "norm" then (do let s ← pRat; let e ← pRat; pure (some (s, e)))
    else failure
  let ll ← pTenD; let old ← pTenK; let rew ← pTenK; let vp ← pTenD; let ent ← pTenD
  let nr ← pNat
  let ws ← pMany pRat nr
  atEnd
  -- the arguments of exp, computed exactly as the model does, paired with the recorded values
  let args : List Rat :=
    match Ten.bop (fun (a : Dual Rat) (b : Rat) => a - Dual.const b) (Ten.sumLast ll.t) old.t with
    | some d => d.toList.map (·.v)
    | none => []
  let table := args.zip ws
  let w : Rat → Rat := fun x => match table.find? (fun p => p.1 == x) with | some p => p.2 | none => 0
  let cfg : PpoCfg Rat := ⟨lo, hi, vfl, entl, normalize⟩
  match ppoLoss cfg w ll.t old.t rew.t vp.t ent.t with
  | none => pure "error=shape"
  | some o =>
    let n := rew.n
    let spec : String :=
      if ll.t.sh.rows = n ∧ old.n = n ∧ vp.n = n ∧ ent.n = n ∧ nr = n then
        let S : Nat → Dual Rat := fun i => sumTo ll.t.sh.cols (fun j => ll.t.f i j)
        let r : Nat → Rat := fun i => w (args.getD i 0)
        let v : Nat → Rat := fun i => (vp.flat i).v
        let A0 : Nat → Rat := fun i => rew.flat i - v i
        let A : Nat → Rat := match normalize with
          | none => A0
          | some (s, e) => let m := sumTo n A0 / (n : Rat); fun i => (A0 i - m) / (s + e)
        let val := Spec.Train.ppo n lo hi vfl entl r A v rew.flat (fun i => (ent.flat i).v)
        let g := Spec.Train.ppoGrad n lo hi vfl entl r A v rew.flat (fun i => (S i).d)
                  (fun i => (vp.flat i).d) (fun i => (ent.flat i).d)
        let kinks := (List.range n).foldl (fun (c : Nat) (i : Nat) => if (r i == lo || r i == hi) then c + 1 else c) 0
        let clipped := (List.range n).foldl (fun (c : Nat) (i : Nat) => if (ltB (r i) lo || ltB hi (r i)) then c + 1 else c) 0
        let active := (List.range n).foldl (fun c i => if Spec.Train.ppoActive lo hi (r i) (A i) then c + 1 else c) 0
        s!"spec={rs val};{rs g} kinks={kinks} clipped={clipped} active={active}"
      else "spec=na"
    let var0 : Rat :=
      match Ten.bop (fun (r : Rat) (v : Rat) => r - v) rew.t.viewCol (vp.t.map (fun x => x.v)) with
      | some a => tenVar a | none => 0
    pure (s!"loss={ds o.loss} surrogate={ds o.surrogate} valueloss={ds o.valueLoss} entropy={ds o.entropy} "
      ++ s!"ratioshape={o.ratio.sh.toStr} advshape={o.adv.sh.toStr} adv={tenKStr o.adv} advvar={rs var0} {spec}")

/-! ### SymNCO -/

/-- `train.symnco NSTART NAUG N ALPHA BETA dual^N(reward) dual^N(ll) dual(inv)` -/
def symnco : P String := do
  let ns ← pNat; let na ← pNat; let n ← pNat
  let alpha ← pRat; let beta ← pRat
  let R ← pMany pDual n
  let ll ← pMany pDual n
  let inv ← pDual
  atEnd
  let Rf := ofList (0 : Dual Rat) R
  let lf := ofList (0 : Dual Rat) ll
  let o := symncoLoss ns na n alpha beta Rf lf inv
  let T := symncoRegroup ns na n Rf
  let B := T.nb
  -- reference readings on the flat layout k = (s·A + a)·B + b, value and derivative (reward gradient-free)
  let refv (f : Nat → Nat → Nat → Rat → (Nat → Rat) → (Nat → Rat) → Rat) (sel : Dual Rat → Rat) : Rat :=
    f B ns na beta (fun k => (Rf k).v) (fun k => sel (lf k)) + alpha * sel inv
  let xv := refv Spec.Train.symncoRefX (·.v); let xd := refv Spec.Train.symncoRefX (·.d)
  let yv := refv Spec.Train.symncoRefY (·.v); let yd := refv Spec.Train.symncoRefY (·.d)
  -- within-group advantage sums as the code groups them
  let z1 := (List.range T.nb).all (fun b => (List.range T.na).all (fun r =>
    sumTo T.ns (fun q => (T.f b q r).v - sumTo T.ns (fun q' => (T.f b q' r).v) / (T.ns : Rat)) == 0))
  let z2 := (List.range T.nb).all (fun b => (List.range T.ns).all (fun q =>
    sumTo T.na (fun r => (T.f b q r).v - sumTo T.na (fun r' => (T.f b q r').v) / (T.na : Rat)) == 0))
  pure (s!"loss={ds o.loss} ps={ds o.ps} ss={ds o.ss} shape=[{T.nb},{T.ns},{T.na}] refX={rs xv};{rs xd} "
    ++ s!"refY={rs yv};{rs yd} sumzero={Rl4co.Proto.bit (z1 && z2)}")

def run (p : P String) (toks : List String) : Option String := (p toks).map (·.1)

def handlers : List (String × (List String → Option String)) :=
  [("train.welford", run welford), ("train.scale", run scale), ("train.ema", run ema),
   ("train.warmup", run warmup), ("train.reinforce", run reinforce), ("train.ppo", run ppo),
   ("train.symnco", run symnco)]

end Rl4co.Driver.Train
