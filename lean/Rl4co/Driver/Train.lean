/-
Driver handlers for the training family (`train.*`): running statistics, baselines, losses.
Numbers are exact rationals `p/q` (every float32/float64 the real code holds is a dyadic rational and is
passed exactly).  Token grammar (space separated):

  rat    := INT | INT/NAT
  dual   := rat rat                                   -- value, directional derivative
  tenK   := s rat | v N rat^N | m N K rat^(N*K)       -- row-major
  tenD   := s dual | v N dual^N | m N K dual^(N*K) | pomo S N dual^N
            (`pomo`: a flat `[N]` tensor regrouped the way POMO does, `unbatchify(x, (0, S))`)
  bl     := no | shared | given tenD dual | ema rat optrat | critic tenD | rollout tenK
          | warmup rat NAT rat optrat bl              -- alpha n_epochs beta ema-state inner
  optrat := none | some rat
  scale  := off | div rat | norm rat rat
-/
import Rl4co.Core.Proto
import Rl4co.Train.Dual
import Rl4co.Train.Welford
import Rl4co.Train.Baselines
import Rl4co.Train.Loss
import Rl4co.Train.Coded
import Rl4co.Train.RolloutBl
import Rl4co.Spec.Train
namespace Rl4co.Driver.Train
open Rl4co.Train

abbrev P := StateT (List String) Option

def tok : P String := fun s => match s with | [] => none | t :: ts => some (t, ts)
def kw (w : String) : P Unit := do let t ← tok; if t == w then pure () else failure
def pNat : P Nat := do let t ← tok; match t.toNat? with | some n => pure n | none => failure
def parseRat (t : String) : Option Rat :=
  match t.splitOn "/" with
  | [p] => p.toInt?.map (fun n => (n : Rat))
  | [p, q] => do let n ← p.toInt?; let d ← q.toNat?; if d = 0 then none else pure (mkRat n d)
  | _ => none
def pRat : P Rat := do let t ← tok; match parseRat t with | some r => pure r | none => failure
def pDual : P (Dual Rat) := do let v ← pRat; let d ← pRat; pure ⟨v, d⟩
def pMany {α : Type} (p : P α) : Nat → P (List α)
  | 0 => pure []
  | n + 1 => do let x ← p; let xs ← pMany p n; pure (x :: xs)
def pOptRat : P (Option Rat) := do
  let t ← tok
  if t == "none" then pure none else if t == "some" then (do let r ← pRat; pure (some r)) else failure
def atEnd : P Unit := fun s => match s with | [] => some ((), []) | _ => none

def ofList {α : Type} (d : α) (xs : List α) : Nat → α := fun i => xs.getD i d

/-- a parsed tensor together with the flat (as-given) order of its entries -/
structure PT (α : Type) where
  t : Ten α
  n : Nat
  flat : Nat → α
  /-- `some S` when the tensor was given flat and regrouped POMO-style -/
  pomo : Option Nat

def pTenWith {α : Type} (d : α) (p : P α) (allowPomo : Bool) : P (PT α) := do
  let t ← tok
  if t == "s" then
    let x ← p; pure ⟨Ten.scalar x, 1, fun _ => x, none⟩
  else if t == "v" then
    let n ← pNat; let xs ← pMany p n
    pure ⟨Ten.vec n (ofList d xs), n, ofList d xs, none⟩
  else if t == "m" then
    let n ← pNat; let k ← pNat; let xs ← pMany p (n * k)
    pure ⟨Ten.mat n k (fun i j => xs.getD (i * k + j) d), n * k, ofList d xs, none⟩
  else if t == "pomo" && allowPomo then
    let s ← pNat; let n ← pNat; let xs ← pMany p n
    pure ⟨pomoRegroup s n (ofList d xs), n, ofList d xs, some s⟩
  else failure

def pTenD : P (PT (Dual Rat)) := pTenWith (0 : Dual Rat) pDual true
def pTenK : P (PT Rat) := pTenWith (0 : Rat) pRat false

/-! output -/
def rs (r : Rat) : String := if r.den = 1 then s!"{r.num}" else s!"{r.num}/{r.den}"
def rsl (xs : List Rat) : String := ",".intercalate (xs.map rs)
def ds (x : Dual Rat) : String := s!"{rs x.v};{rs x.d}"
def tenStr (t : Ten (Dual Rat)) : String :=
  s!"{t.sh.toStr}:{rsl (t.toList.map (·.v))}:{rsl (t.toList.map (·.d))}"
def tenKStr (t : Ten Rat) : String := s!"{t.sh.toStr}:{rsl t.toList}"
def orNone (o : Option Rat) : String := match o with | none => "none" | some r => rs r

/-! ### C20 -/

/-- `train.welford NB (LEAD LEN x^LEN)^NB` → state after every batch + the spec on everything seen so far;
`LEAD` is `len(tensor)` of the score tensor as passed (its first dimension), the entries are row-major -/
def welford : P String := do
  let nb ← pNat
  let batches ← pMany (do let lead ← pNat; let n ← pNat; let xs ← pMany pRat n; pure (lead, xs)) nb
  atEnd
  let rec go (st : Welford.St Rat) (seen : List Rat) (acc : List (Welford.St Rat × List Rat)) :
      List (Nat × List Rat) → List (Welford.St Rat × List Rat)
    | [] => acc.reverse
    | (lead, b) :: bs => let st' := Welford.updateC lead st b; go st' (seen ++ b) ((st', seen ++ b) :: acc) bs
  let tr := go Welford.init [] [] batches
  let f (g : Welford.St Rat × List Rat → Rat) := rsl (tr.map g)
  pure (s!"count={",".intercalate (tr.map (fun p => toString p.1.count))} mean={f (·.1.mean)} M2={f (·.1.M2)} "
    ++ s!"var={f (fun p => Welford.varianceC p.1)} smean={f (fun p => Spec.Train.mean p.2)} "
    ++ s!"ssq={f (fun p => Spec.Train.sumSqDev p.2)} svar={f (fun p => Spec.Train.sampleVar p.2)}")

def pMode : P (Welford.Mode Rat) := do
  let t ← tok
  if t == "off" then pure Welford.Mode.off
  else if t == "div" then (do let c ← pRat; pure (Welford.Mode.divInt c))
  else if t == "norm" then pure Welford.Mode.norm
  else if t == "scale" then pure Welford.Mode.scale
  else failure

/-- `train.scale MODE EPS NB (SQRT SQRTREF LEAD LEN x^LEN)^NB` (`SQRT`: root of the as-coded variance, `SQRTREF`: of the sample variance) → the outputs of successive `__call__`s; `SQRT` is the
value the square root takes at that call (oracle, checked by the harness against `var`) -/
def scale : P String := do
  let mode ← pMode
  let eps ← pRat
  let nb ← pNat
  let calls ← pMany (do let s ← pRat; let sr ← pRat; let lead ← pNat; let n ← pNat; let xs ← pMany pRat n; pure (s, sr, lead, xs)) nb
  atEnd
  let rec go (st : Welford.St Rat) (acc : List (List Rat)) : List (Rat × Rat × Nat × List Rat) → List (List Rat) × Welford.St Rat
    | [] => (acc.reverse, st)
    | (s, _, lead, b) :: cs => let (st', out) := Welford.callC (fun _ => s) eps mode lead st b; go st' (out :: acc) cs
  let (outs, st) := go Welford.init [] calls
  let rec goRef (st : Welford.St Rat) (acc : List (List Rat)) : List (Rat × Rat × Nat × List Rat) → List (List Rat)
    | [] => acc.reverse
    | (_, sr, _, b) :: cs => let (st', out) := Welford.call (fun _ => sr) eps mode st b; goRef st' (out :: acc) cs
  pure s!"out={";".intercalate (outs.map rsl)} ref={";".intercalate ((goRef Welford.init [] calls).map rsl)} count={st.count} mean={rs st.mean} M2={rs st.M2}"

/-- `train.ema BETA NB (LEN x^LEN)^NB` → `v` after every `eval`, its gradient part, the closed form -/
def ema : P String := do
  let beta ← pRat
  let nb ← pNat
  let batches ← pMany (do let n ← pNat; pMany pRat n) nb
  atEnd
  let rec go (v : Option Rat) (acc : List (Dual Rat)) : List (List Rat) → List (Dual Rat)
    | [] => acc.reverse
    | b :: bs =>
      let (val, _, v') := Ema.evalC beta v (Ten.vec b.length (ofList 0 (b.map Dual.const)))
      go (some v') (val.f 0 0 :: acc) bs
  let vs := go none [] batches
  let means := batches.map Spec.Train.mean
  let closed := (List.range means.length).map (fun t =>
    Spec.Train.emaClosed beta (means.getD 0 0) ((means.drop 1).take t))
  let rec runs (v : Option Rat) (acc : List Rat) : List Rat → List Rat
    | [] => acc.reverse
    | m :: ms => let v' := Ema.step beta v m; runs (some v') (v' :: acc) ms
  pure s!"v={rsl (vs.map (·.v))} d={rsl (vs.map (·.d))} closed={rsl closed} rec={rsl (runs none [] means)}"

/-! ### baselines -/

structure BlOut where
  val : Ten (Dual Rat)
  loss : Dual Rat
  state : String
  kind : String

inductive BlSpec where
  | no | shared
  | given (v : Ten (Dual Rat)) (l : Dual Rat)
  | ema (beta : Rat) (st : Option Rat)
  | critic (out : Ten (Dual Rat))
  | rollout (g : Ten Rat)
  | warmup (alpha : Rat) (n : Nat) (beta : Rat) (st : Option Rat) (inner : BlSpec)

partial def pBlSpec : P BlSpec := do
  let t ← tok
  if t == "no" then pure BlSpec.no
  else if t == "shared" then pure BlSpec.shared
  else if t == "given" then (do let v ← pTenD; let l ← pDual; pure (BlSpec.given v.t l))
  else if t == "ema" then (do let beta ← pRat; let st ← pOptRat; pure (BlSpec.ema beta st))
  else if t == "critic" then (do let out ← pTenD; pure (BlSpec.critic out.t))
  else if t == "rollout" then (do let g ← pTenK; pure (BlSpec.rollout g.t))
  else if t == "warmup" then (do
    let alpha ← pRat; let n ← pNat; let beta ← pRat; let st ← pOptRat
    let inner ← pBlSpec
    pure (BlSpec.warmup alpha n beta st inner))
  else failure

/-- evaluate a baseline: `coded = true` with the as-coded definitions (what the real code should do token by token),
`coded = false` with the reference-form definitions the theorems are about (what the property states) -/
def evalBl (coded : Bool) (reward : Ten (Dual Rat)) : BlSpec → Option BlOut
  | BlSpec.no => let (v, l) := (noBaselineEval : Ten (Dual Rat) × Dual Rat); some ⟨v, l, "-", "no"⟩
  | BlSpec.shared => let (v, l) := if coded then sharedEvalC reward else sharedEval reward; some ⟨v, l, "-", "shared"⟩
  | BlSpec.given v l => some ⟨v, l, "-", "given"⟩
  | BlSpec.ema beta st =>
    let (v, l, e) := if coded then Ema.evalC beta st reward else Ema.eval beta st reward
    some ⟨v, l, s!"ema:{rs e}", "ema"⟩
  | BlSpec.critic out =>
    match (if coded then Critic.evalC out reward else Critic.eval out reward) with
    | some (v, l) => some ⟨v, l, "-", "critic"⟩
    | none => none
  | BlSpec.rollout g => let (v, l) := Rollout.eval g; some ⟨v, l, "-", "rollout"⟩
  | BlSpec.warmup alpha nArg betaArg st inner =>
    let (n, beta) := if coded then Warmup.configC nArg betaArg (4 / 5 : Rat) else (nArg, betaArg)
    match evalBl coded reward inner with
    | none => none
    | some i =>
      let w : Warmup.St Rat := ⟨alpha, n, st⟩
      match (if coded then Warmup.evalC beta w (i.val, i.loss) reward else Warmup.eval beta w (i.val, i.loss) reward) with
      | none => none
      | some (v, l, w') =>
        let br := match Warmup.branch w with
          | Warmup.Branch.inner => "inner" | Warmup.Branch.warm => "warm" | Warmup.Branch.both => "both"
        some ⟨v, l, s!"warm:{br}:{orNone w'.ema}:{i.state}", "warmup"⟩

def pScaleOp : P (ScaleOp Rat) := do
  let t ← tok
  if t == "off" then pure ScaleOp.off
  else if t == "div" then (do let c ← pRat; pure (ScaleOp.divBy c))
  else if t == "norm" then (do let m ← pRat; let f ← pRat; pure (ScaleOp.norm m f))
  else failure

/-- per-sample baseline for the reference surrogate: by sample index in the as-given (flat) order -/
def specBaseline (R : PT (Dual Rat)) (bl : BlOut) : Option (Nat → Rat) :=
  if bl.kind == "shared" then
    match R.pomo, R.t.sh with
    | some s, _ => some (Spec.Train.sharedBaselineFlat (R.n / s) s (fun k => (R.flat k).v))
    | none, Shape.m _ k =>
      some (fun i => sumTo k (fun j => (R.flat (i / k * k + j)).v) / (k : Rat))
    | _, _ => none
  else if bl.val.sh.numel = 1 then some (fun _ => (bl.val.f 0 0).v)
  else if bl.val.sh.numel = R.n ∧ R.pomo.isNone then
    let xs := bl.val.toList
    some (fun i => (xs.getD i 0).v)
  else none

/-- `train.reinforce SCALE tenD(reward) tenD(ll) BL` → the model's `calculate_loss` and the reference -/
def reinforce : P String := do
  let sc ← pScaleOp
  let R ← pTenD
  let ll ← pTenD
  let bspec ← pBlSpec
  atEnd
  let blRef := evalBl false R.t bspec
  match evalBl true R.t bspec with
  | none => pure "error=baseline-shape"
  | some bl =>
    match calcLossC sc R.t bl.val ll.t bl.loss with
    | none => pure "error=shape"
    | some out =>
      let maxd := out.adv.toList.foldl (fun m x => if x.d = 0 then m else m + 1) 0
      let blgrad := bl.val.toList.foldl (fun m x => if x.d = 0 then m else m + 1) 0
      let rgrad := R.t.toList.foldl (fun m x => if x.d = 0 then m else m + 1) 0
      let spec : String :=
        match blRef.bind (fun br => (specBaseline R br).map (fun b => (b, br))) with
        | none => "spec=na"
        | some (b, blr) =>
          if R.n = ll.n then
            let scK : Rat → Rat := fun x => match sc with
              | ScaleOp.off => x
              | ScaleOp.divBy c => x / c
              | ScaleOp.norm m f => (x - m) / f
            let adv : Nat → Rat := fun i => scK ((R.flat i).v - b i)
            let v := Spec.Train.surrogate R.n adv (fun i => (ll.flat i).v) + blr.loss.v
            let g := Spec.Train.surrogate R.n adv (fun i => (ll.flat i).d) + blr.loss.d
            s!"spec={rs v};{rs g}"
          else "spec=na"
      pure (s!"loss={ds out.loss} rl={ds out.reinforceLoss} blloss={ds bl.loss} blval={tenStr bl.val} "
        ++ s!"advshape={out.adv.sh.toStr} rewardshape={R.t.sh.toStr} advgrad={maxd} blgrad={blgrad} rewardgrad={rgrad} "
        ++ s!"state={bl.state} adv={rsl (out.adv.toList.map (·.v))} {spec}")

inductive WEv where
  | cb (e : Nat)
  | ev (R : Ten (Dual Rat)) (inner : BlSpec)

/-- run a warm-up history with the as-coded (`coded = true`) or the reference-form definitions -/
def runWarmup (coded : Bool) (nArg : Nat) (betaArg : Rat) (evs : List WEv) : List String :=
  let (n, beta) := if coded then Warmup.configC nArg betaArg (4 / 5 : Rat) else (nArg, betaArg)
  let rec go (st : Warmup.St Rat) (acc : List String) : List WEv → List String
    | [] => acc.reverse
    | WEv.cb e :: rest =>
      let st' := if coded then Warmup.epochCallbackC st e else Warmup.epochCallback st e
      go st' (s!"cb:{rs st'.alpha}:{rs (Spec.Train.warmupAlpha nArg e)}" :: acc) rest
    | WEv.ev R inner :: rest =>
      match evalBl coded R inner with
      | none => go st ("ev:error" :: acc) rest
      | some i =>
        match (if coded then Warmup.evalC beta st (i.val, i.loss) R else Warmup.eval beta st (i.val, i.loss) R) with
        | none => go st ("ev:error" :: acc) rest
        | some (v, l, st') =>
          let br := match Warmup.branch st with
            | Warmup.Branch.inner => "inner" | Warmup.Branch.warm => "warm" | Warmup.Branch.both => "both"
          go st' (s!"ev:{br}:{tenStr v}:{ds l}:{orNone st'.ema}" :: acc) rest
  go (Warmup.init n) [] evs

/-- `train.warmup N BETA NEV (cb EPOCH | ev tenD(reward) BL)^NEV`: a history of epoch callbacks and evaluations of a
`WarmupBaseline(inner, n_epochs=N, warmup_exp_beta=BETA)`; `events` = as coded, `refevents` = reference form -/
def warmup : P String := do
  let nArg ← pNat
  let betaArg ← pRat
  let nev ← pNat
  let evs ← pMany (do
    let t ← tok
    if t == "cb" then (do let e ← pNat; pure (WEv.cb e))
    else if t == "ev" then (do let R ← pTenD; let inner ← pBlSpec; pure (WEv.ev R.t inner))
    else failure) nev
  atEnd
  pure s!"events={"|".intercalate (runWarmup true nArg betaArg evs)} refevents={"|".intercalate (runWarmup false nArg betaArg evs)}"

/-! ### PPO -/

def ltB (a b : Rat) : Bool := decide (a < b)


/-- `train.ppo LO HI VFL ENTL NORM tenD(ll [B,T]) tenK(oldlogp) tenK(reward) tenD(value_pred) tenD(entropy)
NR rat^NR`  with `NORM := nonorm | norm STD EPS`; the trailing list gives `exp` at the `NR` ratio
arguments in flat order (oracle for `exp`). -/
def ppo : P String := do
  let lo ← pRat; let hi ← pRat; let vfl ← pRat; let entl ← pRat
  let t ← tok
  let normalize : Option (Rat × Rat) ←
    if t == "nonorm" then pure none
    else if t == "norm" then (do let s ← pRat; let e ← pRat; pure (some (s, e)))
    else failure
  let ll ← pTenD; let old ← pTenK; let rew ← pTenK; let vp ← pTenD; let ent ← pTenD
  let nr ← pNat
  let ws ← pMany pRat nr
  atEnd
  -- the arguments of exp, computed exactly as the model does, paired with the recorded values
  let args : List Rat :=
    match Ten.bop (fun (a : Dual Rat) (b : Rat) => a - Dual.const b) (Ten.sumLast ll.t) old.t with
    | some d => d.toList.map (·.v)
    | none => []
  let table := args.zip ws
  let w : Rat → Rat := fun x => match table.find? (fun p => p.1 == x) with | some p => p.2 | none => 0
  let cfg : PpoCfg Rat := ⟨lo, hi, vfl, entl, normalize⟩
  match ppoLossC cfg w ll.t old.t rew.t vp.t ent.t with
  | none => pure "error=shape"
  | some o =>
    let n := rew.n
    let spec : String :=
      if ll.t.sh.rows = n ∧ old.n = n ∧ vp.n = n ∧ ent.n = n ∧ nr = n then
        let S : Nat → Dual Rat := fun i => sumTo ll.t.sh.cols (fun j => ll.t.f i j)
        let r : Nat → Rat := fun i => w (args.getD i 0)
        let v : Nat → Rat := fun i => (vp.flat i).v
        let A0 : Nat → Rat := fun i => rew.flat i - v i
        let A : Nat → Rat := match normalize with
          | none => A0
          | some (s, e) => let m := sumTo n A0 / (n : Rat); fun i => (A0 i - m) / (s + e)
        let val := Spec.Train.ppo n lo hi vfl entl r A v rew.flat (fun i => (ent.flat i).v)
        let g := Spec.Train.ppoGrad n lo hi vfl entl r A v rew.flat (fun i => (S i).d)
                  (fun i => (vp.flat i).d) (fun i => (ent.flat i).d)
        let kinks := (List.range n).foldl (fun (c : Nat) (i : Nat) => if (r i == lo || r i == hi) then c + 1 else c) 0
        let clipped := (List.range n).foldl (fun (c : Nat) (i : Nat) => if (ltB (r i) lo || ltB hi (r i)) then c + 1 else c) 0
        let active := (List.range n).foldl (fun c i => if Spec.Train.ppoActive lo hi (r i) (A i) then c + 1 else c) 0
        s!"spec={rs val};{rs g} kinks={kinks} clipped={clipped} active={active}"
      else "spec=na"
    let var0 : Rat :=
      match Ten.bop (fun (r : Rat) (v : Rat) => r - v) rew.t.viewCol (vp.t.map (fun x => x.v)) with
      | some a => tenVar a | none => 0
    pure (s!"loss={ds o.loss} surrogate={ds o.surrogate} valueloss={ds o.valueLoss} entropy={ds o.entropy} "
      ++ s!"ratioshape={o.ratio.sh.toStr} advshape={o.adv.sh.toStr} adv={tenKStr o.adv} advvar={rs var0} {spec}")

/-! ### SymNCO -/

/-- `train.symnco NSTART NAUG N ALPHA BETA dual^N(reward) dual^N(ll) dual(inv)` -/
def symnco : P String := do
  let ns ← pNat; let na ← pNat; let n ← pNat
  let alpha ← pRat; let beta ← pRat
  let R ← pMany pDual n
  let ll ← pMany pDual n
  let inv ← pDual
  atEnd
  let Rf := ofList (0 : Dual Rat) R
  let lf := ofList (0 : Dual Rat) ll
  let o := symncoLossC ns na n alpha beta Rf lf inv
  let T := symncoRegroupC ns na n Rf
  let B := T.nb
  -- reference readings on the flat layout k = (s·A + a)·B + b, value and derivative (reward gradient-free)
  let refv (f : Nat → Nat → Nat → Rat → (Nat → Rat) → (Nat → Rat) → Rat) (sel : Dual Rat → Rat) : Rat :=
    f B ns na beta (fun k => (Rf k).v) (fun k => sel (lf k)) + alpha * sel inv
  let xv := refv Spec.Train.symncoRefX (·.v); let xd := refv Spec.Train.symncoRefX (·.d)
  let yv := refv Spec.Train.symncoRefY (·.v); let yd := refv Spec.Train.symncoRefY (·.d)
  -- within-group advantage sums as the code groups them
  let z1 := (List.range T.nb).all (fun b => (List.range T.na).all (fun r =>
    sumTo T.ns (fun q => (T.f b q r).v - sumTo T.ns (fun q' => (T.f b q' r).v) / (T.ns : Rat)) == 0))
  let z2 := (List.range T.nb).all (fun b => (List.range T.ns).all (fun q =>
    sumTo T.na (fun r => (T.f b q r).v - sumTo T.na (fun r' => (T.f b q r').v) / (T.na : Rat)) == 0))
  pure (s!"loss={ds o.loss} ps={ds o.ps} ss={ds o.ss} shape=[{T.nb},{T.ns},{T.na}] refX={rs xv};{rs xd} "
    ++ s!"refY={rs yv};{rs yd} sumzero={Rl4co.Proto.bit (z1 && z2)}")

/-! ### greedy-rollout baseline -/

/-- `train.rolloutcb ALPHA PVAL NBL rat^NBL(bl_vals) NC rat^NC(candidate values on the evaluation set) NF rat^NF(candidate
values on the fresh evaluation set)` → the decision of `epoch_callback` and the state after it (`mean` is the stored
mean of `bl_vals`) -/
def rolloutcb : P String := do
  let alpha ← pRat; let pv ← pRat
  let nb ← pNat; let bl ← pMany pRat nb
  let nc ← pNat; let cand ← pMany pRat nc
  let nf ← pNat; let fresh ← pMany pRat nf
  atEnd
  -- instances are indices; the frozen policy / the candidate are their reward tables
  let st : RolloutBl.St Nat Rat := ⟨fun xs => xs.map (fun i => bl.getD i 0), List.range nb, bl, RolloutBl.lmean bl⟩
  let candP : List Nat → List Rat := fun xs => xs.map (fun i => if i < 1000000 then cand.getD i 0 else fresh.getD (i - 1000000) 0)
  let freshSet := (List.range nf).map (· + 1000000)
  -- as coded: `PVAL` is the one-sided value; the coded decision halves the two-sided one
  let acc := RolloutBl.acceptsC (fun _ _ => 2 * pv) alpha st (Ops.rollout candP 1 st.dataset)
  let st' := RolloutBl.epochCallbackC (fun _ _ => 2 * pv) alpha 3 st candP freshSet
  let accRef := RolloutBl.accepts (fun _ _ => pv) alpha st (Ops.rollout candP 1 st.dataset)
  pure s!"accept={Rl4co.Proto.bit acc} refaccept={Rl4co.Proto.bit accRef} mean={rs st'.mean} blvals={rsl st'.blVals} n={st'.dataset.length} candmean={rs (RolloutBl.lmean cand)}"

/-- `train.a2cgroups ACTORLR optrat(CRITICLR)` → the optimizer's parameter groups as coded: `policy|critic:lr,…` -/
def a2cgroups : P String := do
  let a ← pRat; let c ← pOptRat
  atEnd
  let gs := A2C.groupsC a c
  pure s!"groups={",".intercalate (gs.map (fun g => (if g.1 then "policy" else "critic") ++ ":" ++ rs g.2))}"

/-- `train.invrows A B` → the row pairs `invariance_loss` compares, as coded: `r0-r1,…` for b < B, 1 ≤ i < A -/
def invrows : P String := do
  let a ← pNat; let b ← pNat
  atEnd
  let prs := (List.range b).flatMap (fun bb => (List.range a).filterMap (fun i =>
    if i = 0 then none else some (invRowsC a b bb i)))
  pure s!"pairs={",".intercalate (prs.map (fun p => s!"{p.1}-{p.2}"))}"

/-! ### n-step PPO -/

/-- `train.nstep GAMMA LO HI CLIPR VF T B rat^(T·B)(rewards, t-major) rat^B(bootstrap values) HASOLD
(dual(ll) rat(old_ll) dual(bl) [rat(old_value)] rat(ratio))^(T·B)` → returns (as coded), loss of one inner epoch, reference -/
def nstep : P String := do
  let gamma ← pRat; let lo ← pRat; let hi ← pRat; let cr ← pRat; let vf ← pRat
  let T ← pNat; let B ← pNat
  let rew ← pMany pRat (T * B)
  let boot ← pMany pRat B
  let hasOld ← pNat
  let ents ← pMany (do
    let ll ← pDual; let ol ← pRat; let bl ← pDual
    let ov ← (if hasOld = 1 then pRat else pure 0)
    let w ← pRat
    pure (ll, ol, bl, ov, w)) (T * B)
  atEnd
  let n := T * B
  -- returns per instance, as coded and in closed form
  let retOf (coded : Bool) (b : Nat) : List Rat :=
    let rs := (List.range T).map (fun t => rew.getD (t * B + b) 0)
    if coded then NStep.returnsC gamma (boot.getD b 0) rs
    else (List.range T).map (fun t => Spec.Train.nstepReturn gamma (boot.getD b 0) rs t)
  let retC : Nat → Rat := fun i => (retOf true (i % B)).getD (i / B) 0
  let retR : Nat → Rat := fun i => (retOf false (i % B)).getD (i / B) 0
  let ll : Nat → Dual Rat := fun i => (ents.getD i (0, 0, 0, 0, 0)).1
  let ol : Nat → Rat := fun i => (ents.getD i (0, 0, 0, 0, 0)).2.1
  let bl : Nat → Dual Rat := fun i => (ents.getD i (0, 0, 0, 0, 0)).2.2.1
  let ov : Nat → Rat := fun i => (ents.getD i (0, 0, 0, 0, 0)).2.2.2.1
  let wv : Nat → Rat := fun i => (ents.getD i (0, 0, 0, 0, 0)).2.2.2.2
  let table := (List.range n).map (fun i => ((ll i).v - ol i, wv i))
  let w : Rat → Rat := fun x => match table.find? (fun p => p.1 == x) with | some p => p.2 | none => 0
  let cfg : NStep.Cfg Rat := ⟨lo, hi, cr, vf⟩
  let old : Option (Nat → Rat) := if hasOld = 1 then some ov else none
  let o := NStep.lossBlock cfg w n ll bl ol old retC
  let ref := Spec.Train.nstepLoss n lo hi cr vf (fun i => w ((ll i).v - ol i)) retR (fun i => (bl i).v) old
  pure (s!"loss={ds o.loss} surrogate={ds o.surrogate} valueloss={ds o.valueLoss} "
    ++ s!"returns={rsl ((List.range n).map retC)} refreturns={rsl ((List.range n).map retR)} spec={rs ref}")

/-- `train.nstepmem N FINAL s^N` → the memory after a rollout block as coded (states are integers tags) -/
def nstepmem : P String := do
  let n ← pNat; let fin ← pNat
  let st ← pMany pNat n
  atEnd
  pure s!"mem={",".intercalate ((NStep.rolloutMemC st fin).map toString)}"

def run (p : P String) (toks : List String) : Option String := (p toks).map (·.1)

def handlers : List (String × (List String → Option String)) :=
  [("train.welford", run welford), ("train.scale", run scale), ("train.ema", run ema),
   ("train.warmup", run warmup), ("train.reinforce", run reinforce), ("train.ppo", run ppo),
   ("train.symnco", run symnco), ("train.rolloutcb", run rolloutcb),
   ("train.a2cgroups", run a2cgroups), ("train.invrows", run invrows),
   ("train.nstep", run nstep), ("train.nstepmem", run nstepmem)]

end Rl4co.Driver.Train
