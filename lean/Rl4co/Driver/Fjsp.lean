import Rl4co.Core.Proto
import Rl4co.Env.Fjsp
import Rl4co.Spec.Fjsp
/-
Driver handlers of the job-shop family (ops `fjsp.*`; JSSP is the same model with `jssp = 1`).
All numbers are plain integers (processing times are integral; no tick scaling).
-/
namespace Rl4co.Driver.Fjsp
open Rl4co.Proto
open Rl4co.Fjsp

def mkInst (J M N : Nat) (mno jssp : Bool) (so eo pr pd : List Int) : Inst :=
  let soA := (toNats so).toArray
  let eoA := (toNats eo).toArray
  let prA := pr.toArray
  let pdA := pd.toArray
  { J := J, M := M, N := N,
    startOp := fun j => soA.getD j 0, endOp := fun j => eoA.getD j 0,
    proc := fun m o => if m < M ∧ o < N then prA.getD (m * N + o) 0 else 0,
    pad := fun o => pdA.getD o 1 != 0, maskNoOps := mno, jssp := jssp }

/-- states are chains of closures; re-materialise them into arrays after every step so that long
episodes stay linear -/
def norm (i : Inst) (s : State) : State :=
  let no := ((List.range i.J).map s.nextOp).toArray
  let ip := ((List.range i.J).map s.inProc).toArray
  let jd := ((List.range i.J).map s.jobDone).toArray
  let bu := ((List.range i.M).map s.busy).toArray
  let pr := ((List.range (i.M * i.N)).map (fun k => s.proc (k / i.N) (k % i.N))).toArray
  let st := ((List.range i.N).map s.start).toArray
  let fi := ((List.range i.N).map s.finish).toArray
  let asg := ((List.range (i.M * i.N)).map (fun k => s.assign (k / i.N) (k % i.N))).toArray
  let sc := ((List.range i.N).map s.sched).toArray
  { s with
    nextOp := fun j => if j < i.J then no.getD j 0 else s.nextOp j
    inProc := fun j => if j < i.J then ip.getD j false else s.inProc j
    jobDone := fun j => if j < i.J then jd.getD j false else s.jobDone j
    busy := fun m => if m < i.M then bu.getD m 0 else s.busy m
    proc := fun m o => if m < i.M ∧ o < i.N then pr.getD (m * i.N + o) 0 else s.proc m o
    start := fun o => if o < i.N then st.getD o 0 else s.start o
    finish := fun o => if o < i.N then fi.getD o 0 else s.finish o
    assign := fun m o => if m < i.M ∧ o < i.N then asg.getD (m * i.N + o) false else s.assign m o
    sched := fun o => if o < i.N then sc.getD o false else s.sched o }

structure Trace where
  masks : List String := []
  dones : List String := []
  times : List Int := []
  errs  : List String := []
  readys : List String := []
  adm   : Bool := true

def Trace.push (i : Inst) (s : State) (t : Trace) : Trace :=
  { t with masks := maskBits (nAct i) (mask i s) :: t.masks, dones := bit s.done :: t.dones,
           times := s.time :: t.times, errs := bit s.err :: t.errs,
           readys := bits ((List.range i.N).map (isReady i s)) :: t.readys }

def finalFields (i : Inst) (s : State) : String :=
  let σ : Rl4co.Spec.Fjsp.Sched := ⟨s.start, s.finish, s.assign⟩
  let mk := - reward i s
  let asg := bits ((List.range (i.M * i.N)).map (fun k => s.assign (k / i.N) (k % i.N)))
  s!"reward={reward i s} start={intsStr ((List.range i.N).map s.start)} finish={intsStr ((List.range i.N).map s.finish)} assign={asg} nextop={natsStr ((List.range i.J).map s.nextOp)} busy={intsStr ((List.range i.M).map s.busy)} valid={bit (Rl4co.Spec.Fjsp.valid i σ mk)} fail={Rl4co.Spec.Fjsp.failing i σ mk} makespan={Rl4co.Spec.Fjsp.makespan i σ}"

def Trace.render (t : Trace) (sfx : String) : String :=
  s!"masks{sfx}={",".intercalate t.masks.reverse} done{sfx}={String.join t.dones.reverse} times{sfx}={intsStr t.times.reverse} err{sfx}={String.join t.errs.reverse} ready{sfx}={",".intercalate t.readys.reverse} adm{sfx}={bit t.adm}"

/-- `fjsp.episode J M N mno jssp | startOp | endOp | proc (M·N row-major) | pad | actions` -/
def episode (toks : List String) : Option String := do
  let [hd, so, eo, pr, pd, acts] ← parseSections toks | none
  let [J, M, N, mno, js] := hd | none
  let i := mkInst J.toNat M.toNat N.toNat (mno != 0) (js != 0) so eo pr pd
  let rec go (s : State) (t : Trace) : List Nat → State × Trace
    | [] => (s, t.push i s)
    | a :: as =>
      let t := t.push i s
      let t := { t with adm := t.adm && decide (a < nAct i) && mask i s a }
      go (norm i (step i s a)) t as
  let (s, t) := go (reset i) {} (toNats acts)
  pure s!"{t.render ""} {finalFields i s} bound={2 * Rl4co.Spec.Fjsp.totalOps i}"

/-- `fjsp.batch J M N mno jssp B T | (startOp | endOp | proc | pad | actions[T]) × B`
the batched model: all rows stepped together through `stepBatch`. -/
def batch (toks : List String) : Option String := do
  let hd :: rest ← parseSections toks | none
  let [J, M, N, mno, js, B, T] := hd | none
  let B := B.toNat
  let T := T.toNat
  if rest.length ≠ 5 * B then none
  let rec rowsOf : Nat → List (List Int) → List (Inst × List Nat)
    | 0, _ => []
    | b + 1, so :: eo :: pr :: pd :: acts :: more =>
      (mkInst J.toNat M.toNat N.toNat (mno != 0) (js != 0) so eo pr pd, toNats acts) :: rowsOf b more
    | _, _ => []
  let ria := rowsOf B rest
  let insts := ria.map (·.1)
  let rows0 : List Row := insts.map (fun i => (i, reset i))
  let rec go (t : Nat) (rows : List Row) (trs : List Trace) : Nat → List Row × List Trace
    | 0 => (rows, (rows.zip trs).map (fun x => x.2.push x.1.1 x.1.2))
    | k + 1 =>
      let acts := ria.map (fun x => x.2.getD t 0)
      let trs := (rows.zip trs).map (fun x => x.2.push x.1.1 x.1.2)
      let trs := ((rows.zip trs).zip acts).map (fun x =>
        { x.1.2 with adm := x.1.2.adm && decide (x.2 < nAct x.1.1.1) && mask x.1.1.1 x.1.1.2 x.2 })
      let rows := (stepBatch (M.toNat + 1) (rows.zip acts)).map (fun r => (r.1, norm r.1 r.2))
      go (t + 1) rows trs k
  let (rows, trs) := go 0 rows0 (insts.map (fun _ => {})) T
  let parts := ((List.range B).zip (rows.zip trs)).map (fun x =>
    let r := x.2.1
    s!"{x.2.2.render (toString x.1)} reward{x.1}={reward r.1 r.2} start{x.1}={intsStr ((List.range r.1.N).map r.2.start)} finish{x.1}={intsStr ((List.range r.1.N).map r.2.finish)} assign{x.1}={bits ((List.range (r.1.M * r.1.N)).map (fun k => r.2.assign (k / r.1.N) (k % r.1.N)))}")
  pure (" ".intercalate parts)

/-- `fjsp.spec J M N | startOp | endOp | proc | start | finish | assign (M·N) | mk`
the Lean Spec oracle on an arbitrary schedule (e.g. the final tensors of the real env). -/
def spec (toks : List String) : Option String := do
  let [hd, so, eo, pr, st, fi, asg, mkl] ← parseSections toks | none
  let [J, M, N] := hd | none
  let [mk] := mkl | none
  let i := mkInst J.toNat M.toNat N.toNat true false so eo pr []
  let stA := st.toArray
  let fiA := fi.toArray
  let asA := asg.toArray
  let σ : Rl4co.Spec.Fjsp.Sched :=
    ⟨fun o => stA.getD o 0, fun o => fiA.getD o 0,
     fun m o => if m < i.M ∧ o < i.N then asA.getD (m * i.N + o) 0 != 0 else false⟩
  pure s!"valid={bit (Rl4co.Spec.Fjsp.valid i σ mk)} fail={Rl4co.Spec.Fjsp.failing i σ mk} makespan={Rl4co.Spec.Fjsp.makespan i σ}"

def recStr (r : Nat × Nat × Int × Int) : String := s!"{r.1}:{r.2.1}:{r.2.2.1}:{r.2.2.2}"
def schedStr (recs : List (Nat × Nat × Int × Int)) : String :=
  ",".intercalate ((Rl4co.Spec.Fjsp.sortRecs recs).map recStr)
def optStr : Option Int → String
  | none => "none"
  | some x => toString x

/-- `fjsp.brute J M N | startOp | endOp | proc`
Spec brute force on a tiny instance: all semi-active list schedules, the non-delay ones among
them, and the optimal makespans of both classes. -/
def brute (toks : List String) : Option String := do
  let [hd, so, eo, pr] ← parseSections toks | none
  let [J, M, N] := hd | none
  let i := mkInst J.toNat M.toNat N.toNat true false so eo pr []
  let all := Rl4co.Spec.Fjsp.allSemiActive i (Rl4co.Spec.Fjsp.totalOps i) (Rl4co.Spec.Fjsp.LS.init i)
  let nd := all.filter (Rl4co.Spec.Fjsp.nonDelay i)
  pure s!"opt={optStr (Rl4co.Spec.Fjsp.optMakespan i)} optnd={optStr (Rl4co.Spec.Fjsp.optNonDelay i)} nsemi={all.length} nnd={nd.length} semi={";".intercalate (all.map schedStr)} nd={";".intercalate (nd.map schedStr)}"

def handlers : List (String × (List String → Option String)) :=
  [("fjsp.episode", episode), ("fjsp.batch", batch), ("fjsp.spec", spec), ("fjsp.brute", brute)]

end Rl4co.Driver.Fjsp
