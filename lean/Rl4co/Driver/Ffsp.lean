import Rl4co.Core.Proto
import Rl4co.Env.Ffsp
import Rl4co.Spec.Ffsp
namespace Rl4co.Driver.Ffsp
open Rl4co.Proto
open Rl4co.Ffsp

def mkInst (hd dur perm : List Int) : Option Inst := do
  let (S, M, J, flat) ← match hd with
    | [S, M, J] => some (S, M, J, true)
    | [S, M, J, f] => some (S, M, J, f != 0)
    | _ => none
  let S := S.toNat; let M := M.toNat; let J := J.toNat
  let mt := M * S
  pure { S := S, M := M, J := J,
         dur := fun j m => (dur.getD (j * mt + m) 0).toNat,
         perm := fun k => (perm.getD k 0).toNat, flat := flat }

def schedStr (i : Inst) (s : State) : String :=
  intsStr ((List.range (MT i)).flatMap (fun m => (List.range (i.J + 1)).map (fun j => s.sched m j)))

def rewardStr (s : State) : String := match s.reward with | none => "none" | some r => toString r

/-- `ffsp.episode S M J | dur (J×MT row-major) | perm (M) | actions | g-flags (one per action)`
Runs `stepG` with the given batch-global flags.  Reply: per-state masks / done / clock, admission,
whether the fuel of `moveLoop` sufficed everywhere, final schedule, written reward, `rewardVal` of the
final state, and the Spec verdict + makespan of the final schedule. -/
def episode (toks : List String) : Option String := do
  let [hd, dur, perm, acts, gs] ← parseSections toks | none
  let i ← mkInst hd dur perm
  let as := toNats acts
  let gs := gs.map (· != 0)
  if gs.length != as.length then none
  let rec go (s : State) (ms ds cs : List String) (adm fuel : Bool) :
      List Nat → List Bool → (State × List String × List String × List String × Bool × Bool)
    | a :: as, g :: gs =>
      let s' := stepG i s a g
      let fuelOk := g || s'.done || ready i s'
      go s' (maskBits (i.J + 1) s.mask :: ms) (bit s.done :: ds)
        (s!"{s.time}:{s.sub}:{s.midx}:{s.stage}:{s.smidx}" :: cs) (adm && decide (a < i.J + 1) && s.mask a) (fuel && fuelOk) as gs
    | _, _ => (s, (maskBits (i.J + 1) s.mask :: ms).reverse, (bit s.done :: ds).reverse,
               (s!"{s.time}:{s.sub}:{s.midx}:{s.stage}:{s.smidx}" :: cs).reverse, adm, fuel)
  let (s, ms, ds, cs, adm, fuel) := go (reset i) [] [] [] true true as gs
  let ops := Rl4co.Spec.Ffsp.ofMatrix i s.sched
  pure s!"masks={",".intercalate ms} done={String.join ds} clock={",".intercalate cs} adm={bit adm} fuelok={bit fuel} sched={schedStr i s} reward={rewardStr s} rv={rewardVal i s} valid={bit (Rl4co.Spec.Ffsp.valid i ops)} mk={Rl4co.Spec.Ffsp.makespan i ops} nops={ops.length} bound={stepBound i}"

/-- all complete mask-confined solo episodes (depth-first, `depth` = fuel on the episode length) -/
def explore (i : Inst) : Nat → State → List State
  | 0, _ => []
  | d + 1, s =>
    if s.done then [s]
    else (List.range (i.J + 1)).flatMap (fun a => if s.mask a then explore i d (step i s a) else [])

def dedup (xs : List (List Int)) : List (List Int) :=
  xs.foldl (fun acc x => if acc.contains x then acc else x :: acc) []

/-- `ffsp.bfs S M J | dur | perm | depth`: every complete solo episode of the model; reply: number of
complete episodes, best (maximal) written reward, the distinct final schedules (real-job columns). -/
def bfs (toks : List String) : Option String := do
  let [hd, dur, perm, dp] ← parseSections toks | none
  let i ← mkInst hd dur perm
  let [d] := dp | none
  let finals := explore i d.toNat (reset i)
  let rewards := finals.filterMap (·.reward)
  let best := match rewards with | [] => "none" | r :: rs => toString (rs.foldl max r)
  let scheds := dedup (finals.map (fun s =>
    (List.range (MT i)).flatMap (fun m => (List.range i.J).map (fun j => s.sched m j))))
  let enc := ";".intercalate (scheds.map intsStr)
  pure s!"runs={finals.length} best={best} nsched={scheds.length} scheds={enc}"

/-- `ffsp.spec S M J | dur | perm | job machine start job machine start …`: Spec verdict on an
arbitrary list of operations. -/
def spec (toks : List String) : Option String := do
  let [hd, dur, perm, os] ← parseSections toks | none
  let i ← mkInst hd dur perm
  let rec ops : List Int → List Rl4co.Spec.Ffsp.Op
    | j :: m :: t :: rest => ⟨j.toNat, m.toNat, t⟩ :: ops rest
    | _ => []
  let l := ops os
  pure s!"valid={bit (Rl4co.Spec.Ffsp.valid i l)} mk={Rl4co.Spec.Ffsp.makespan i l} nops={l.length}"

/-- `ffsp.enum S M J | dur | perm | H`: brute force over every assignment of (machine of the stage,
start ≤ H) to every (job, stage): the Spec-valid ones, their optimum, and the expressible subclass. -/
def enum (toks : List String) : Option String := do
  let [hd, dur, perm, hh] ← parseSections toks | none
  let i ← mkInst hd dur perm
  let [H] := hh | none
  let cands := Rl4co.Spec.Ffsp.candidates i H.toNat
  let vs := cands.filter (Rl4co.Spec.Ffsp.valid i)
  let es := vs.filter (Rl4co.Spec.Ffsp.expressible i)
  let best (l : List (List Rl4co.Spec.Ffsp.Op)) : String :=
    match l.map (Rl4co.Spec.Ffsp.makespan i) with | [] => "none" | r :: rs => toString (rs.foldl min r)
  let enc := ";".intercalate (es.map (fun ops => intsStr (Rl4co.Spec.Ffsp.toMatrix i ops)))
  let snd := vs.filter (fun ops => decide (Rl4co.Spec.Ffsp.StrictNonDelay i ops))
  let sndOk := snd.all (fun ops => Rl4co.Spec.Ffsp.expressible i ops ||
    !(decide (∀ o, o ∈ ops → ∀ o', o' ∈ ops → o ≠ o' → o.machine = o'.machine → o.start ≠ o'.start)))
  let nd := vs.filter (fun ops => decide (Rl4co.Spec.Ffsp.NonDelay i ops))
  pure s!"ncand={cands.length} nvalid={vs.length} opt={best vs} nexpr={es.length} optE={best es} nsnd={snd.length} sndsub={bit sndOk} nnd={nd.length} ndexpr={(nd.filter (Rl4co.Spec.Ffsp.expressible i)).length} optND={best nd} expr={enc}"

/-- `ffsp.tables M bs | rows…`: `list(itertools.permutations(range(M)))` and, for each given row index,
the `pomo_idx` and the permutation `IndexTables.get_machine_index` uses after `set_bs(bs)`. -/
def tables (toks : List String) : Option String := do
  let [hd, rows] ← parseSections toks | none
  let [M, bs] := hd | none
  let tb : Tables := { M := M.toNat, bs := bs.toNat }
  let ps := ";".intercalate ((permsOf tb.M).map natsStr)
  let rs := ";".intercalate ((toNats rows).map (fun r =>
    s!"{pomoIdx tb.bs r}:{natsStr ((List.range tb.M).map (tb.perm r))}"))
  pure s!"perms={ps} rows={rs}"

def handlers : List (String × (List String → Option String)) :=
  [("ffsp.episode", episode), ("ffsp.bfs", bfs), ("ffsp.spec", spec), ("ffsp.enum", enum), ("ffsp.tables", tables)]

end Rl4co.Driver.Ffsp
