/-
Driver handlers of the generator / persistence family (ops `gen.*`).  No Mathlib.
Arguments are integers in `|`-separated sections (see each handler); replies are `key=value` fields.
-/
import Rl4co.Core.Proto
import Rl4co.Gen.Basic
import Rl4co.Gen.Routing
import Rl4co.Gen.Cvrptw
import Rl4co.Gen.Mtvrp
import Rl4co.Gen.Atsp
import Rl4co.Gen.Sched
import Rl4co.Gen.Persist
import Rl4co.Generated.GenMtvrpTw
namespace Rl4co.Driver.Gen
open Rl4co.Proto Rl4co.Gen

def fracStr (f : Frac) : String := s!"{f.1}/{f.2}"
def ratStr (r : Rat) : String := s!"{r.num}/{r.den}"
def optFrac : Option Frac → String
  | none => "none"
  | some f => fracStr f
def natsOf (xs : List Int) : List Nat := xs.map Int.toNat
def bitsStr (bs : List Bool) : String := bits bs

/-- `gen.aff lo hi p q` → numerator over q of `lo + (p/q)(hi−lo)` -/
def aff (toks : List String) : Option String := do
  let [lo, hi, p, q] ← ints toks | none
  pure s!"num={affNum lo hi p.toNat q.toNat}"

/-- `gen.tbl which numLoc` (0 = cvrp capacities, 1 = op max_length, 2 = pctsp max_length) -/
def tbl (toks : List String) : Option String := do
  let [w, n] ← ints toks | none
  let t := if w = 0 then Params.genCvrpCapacities else if w = 1 then Params.genOpMaxLengths else Params.genPctspMaxLengths
  pure s!"val={optFrac (tblLookup t n.toNat)}"

/-- `gen.cvrp minD maxD q hasOv ovNum ovDen numLoc | p…` → integer demands, capacity, all fit -/
def cvrp (toks : List String) : Option String := do
  let [hd, ps] ← parseSections toks | none
  let [minD, maxD, q, hasOv, ovN, ovD, n] := hd | none
  let cap := cvrpCapacity (if hasOv ≠ 0 then some (ovN, ovD.toNat) else none) n.toNat
  let ds := ps.map (fun p => cvrpDemand minD maxD p.toNat q.toNat)
  match cap with
  | none => pure s!"demand={intsStr ds} cap=none fits=0"
  | some c => pure s!"demand={intsStr ds} cap={fracStr c} fits={bit (ds.all (fun d => demandFits d c))}"

/-- `gen.opprize type | x…` (type 0 const, 1 unif: x = randint draws, 2 dist: x = distances, dmax = max of the list) -/
def opprize (toks : List String) : Option String := do
  let [hd, ds] ← parseSections toks | none
  let [t] := hd | none
  let ty := if t = 0 then PrizeType.const else if t = 1 then PrizeType.unif else PrizeType.dist
  let dmax := listMax ds
  pure s!"err=0 prize={intsStr (ds.map (fun d => opPrize100 ty d dmax))}"

/-- `gen.pctsp numLoc pfNum pfDen` → max penalty fraction -/
def pctsp (toks : List String) : Option String := do
  let [n, a, b] ← ints toks | none
  pure s!"maxpen={optFrac (pctspMaxPenalty none n.toNat (a, b.toNat))}"

/-- `gen.cvrptw S T dur q | d p1 p2 | d p1 p2 …` → windows (whole units) and verdicts per customer -/
def cvrptw (toks : List String) : Option String := do
  let hd :: cs ← parseSections toks | none
  let [S, T, dur, q] := hd | none
  let rows ← cs.mapM (fun c => match c with
    | [d, p1, p2] => some ({ S := S.toNat, T := T, d := d, dur := dur, p1 := p1.toNat, p2 := p2.toNat, q := q.toNat } : Cvrptw.In)
    | _ => none)
  let ws := rows.map Cvrptw.window
  let lo := ws.map (·.1)
  let hi := ws.map (·.2)
  let ok := rows.map (fun r => decide (Cvrptw.WindowOk r (Cvrptw.window r)))
  let asrt := rows.map Cvrptw.assertOk
  let dw := Cvrptw.depotWindow T S.toNat
  pure s!"lo={intsStr lo} hi={intsStr hi} ok={bitsStr ok} assert={bitsStr asrt} depot={dw.1},{dw.2}"

/-- `gen.mtvrpcap n` -/
def mtvrpcap (toks : List String) : Option String := do
  let [n] ← ints toks | none
  pure s!"cap={Mtvrp.vehicleCapacity n.toNat}"

/-- `gen.mtvrpdem minD maxD minB maxB rNum rDen q removeB | pl pb pr | …` -/
def mtvrpdem (toks : List String) : Option String := do
  let hd :: cs ← parseSections toks | none
  let [minD, maxD, minB, maxB, rn, rd, q, rem] := hd | none
  let out ← cs.mapM (fun c => match c with
    | [pl, pb, pr] => some (Mtvrp.defaultBackhaul (rem ≠ 0) (Mtvrp.demands minD maxD minB maxB (rn, rd.toNat) pl.toNat pb.toNat pr.toNat q.toNat))
    | _ => none)
  pure s!"line={intsStr (out.map (·.1))} back={intsStr (out.map (·.2))}"

def mkRat (n d : Int) : Rat := (n : Rat) / (d : Rat)

/-- `gen.mtvrptw an ad bn bd cn cd Tn Td vn vd | dn dd usn usd uln uld utn utd | …` → start, end, service -/
def mtvrptw (toks : List String) : Option String := do
  let hd :: cs ← parseSections toks | none
  let [an, ad, bn, bd, cn, cd, Tn, Td, vn, vd] := hd | none
  let rows ← cs.mapM (fun c => match c with
    | [dn, dd, usn, usd, uln, uld, utn, utd] =>
      some ({ a := mkRat an ad, b := mkRat bn bd, c := mkRat cn cd, T := mkRat Tn Td, v := mkRat vn vd,
              d := mkRat dn dd, us := mkRat usn usd, ul := mkRat uln uld, ut := mkRat utn utd } : Mtvrp.TwIn)
    | _ => none)
  let f := fun (r : Mtvrp.TwIn) => s!"{ratStr (Mtvrp.twStart r)}:{ratStr (Mtvrp.twEnd r)}:{ratStr (Mtvrp.service r)}"
  pure s!"tw={",".intercalate (rows.map f)}"

/-- `gen.mtvrptwgen Tn Td vn vd | dn dd usn usd uln uld utn utd | …` → start, end, service of the *generated* definition
(`Generated/GenMtvrpTw.lean: twGen`, translated from the source statements; constants a, b, c are the source's) -/
def mtvrptwgen (toks : List String) : Option String := do
  let hd :: cs ← parseSections toks | none
  let [Tn, Td, vn, vd] := hd | none
  let rows ← cs.mapM (fun c => match c with
    | [dn, dd, usn, usd, uln, uld, utn, utd] =>
      some ({ a := 0, b := 0, c := 0, T := mkRat Tn Td, v := mkRat vn vd,
              d := mkRat dn dd, us := mkRat usn usd, ul := mkRat uln uld, ut := mkRat utn utd } : Mtvrp.TwIn)
    | _ => none)
  let f := fun (r : Mtvrp.TwIn) => let g := Mtvrp.Generated.twGen r; s!"{ratStr g.1}:{ratStr g.2.1}:{ratStr g.2.2}"
  pure s!"tw={",".intercalate (rows.map f)}"

def keepStr (k : Mtvrp.Keep) : String := bitsStr [k.o, k.tw, k.l, k.b]

/-- `gen.keep <preset> named` | `gen.keep <preset> comb q p0 p1 p2 p3` | `gen.keep <preset> cat idx` -/
def keep (toks : List String) : Option String := do
  let preset :: mode :: rest := toks | none
  let row ← Params.genMtvrpPresets.lookup preset
  let args ← ints rest
  match mode, args with
  | "named", [] =>
    let k := Mtvrp.keepNamed row
    pure s!"keep={keepStr k} name={Mtvrp.variantName k}"
  | "comb", [q, p0, p1, p2, p3] =>
    let k := Mtvrp.keepCombination row [p0.toNat, p1.toNat, p2.toNat, p3.toNat] q.toNat
    pure s!"keep={keepStr k} name={Mtvrp.variantName k}"
  | "cat", [idx] =>
    let k := Mtvrp.keepCategorical preset idx.toNat
    pure s!"keep={keepStr k} name={Mtvrp.variantName k} support={natsStr (Mtvrp.catSupport row)}"
  | _, _ => none

/-- `gen.atsp n tmat slow | entries (row-major n²)` → output matrix and triangle verdict.
`slow = 1` evaluates the function-level model the theorem is about (small n only). -/
def atsp (toks : List String) : Option String := do
  let [hd, xs] ← parseSections toks | none
  let [n, tmat, slow] := hd | none
  let out := if slow ≠ 0 then Atsp.genList n.toNat xs (tmat ≠ 0) else Atsp.genListFast n.toNat xs (tmat ≠ 0)
  pure s!"out={intsStr out} tri={bit (Atsp.triangleOk n.toNat out)}"

/-- `gen.ops nOpsMax | nOps…` → start / end op ids and pad mask -/
def ops (toks : List String) : Option String := do
  let [hd, ns] ← parseSections toks | none
  let [mx] := hd | none
  let ns := natsOf ns
  pure s!"start={intsStr (Sched.startOps ns)} end={intsStr (Sched.endOps ns)} pad={bitsStr (Sched.padMask mx.toNat ns)}"

/-- `gen.fjspcol M minPt maxPt nElig mean plain | idx… | raws-or-times…` -/
def fjspcol (toks : List String) : Option String := do
  let [hd, idx, raws] ← parseSections toks | none
  let [M, mn, mx, ne, mean, plain] := hd | none
  let col := if plain ≠ 0 then Sched.fjspColumnPlain M.toNat ne.toNat (natsOf idx) raws
             else Sched.fjspColumn M.toNat mn mx ne.toNat (natsOf idx) mean (natsOf raws)
  pure s!"col={intsStr col} nelig={Sched.numEligible col} low={Sched.fjspLow mn mean} high={Sched.fjspHigh mx mean}"

/-- `gen.jsspcol M machine | times…` -/
def jsspcol (toks : List String) : Option String := do
  let [hd, ts] ← parseSections toks | none
  let [M, ma] := hd | none
  let col := Sched.jsspColumn M.toNat ma.toNat ts
  pure s!"col={intsStr col} nelig={Sched.numEligible col}"

/-- `gen.mcpclamp mn mx p q` -/
def mcpclamp (toks : List String) : Option String := do
  let [mn, mx, p, q] ← ints toks | none
  pure s!"val={mcpClampFloor mn mx p.toNat q.toNat}"

/-- `gen.mcprow size | items…` -/
def mcprow (toks : List String) : Option String := do
  let [hd, items] ← parseSections toks | none
  let [size] := hd | none
  pure s!"err=0 row={natsStr (mcpRow (natsOf items) size.toNat)}"

def linesStr (ls : List (List Nat)) : String := ";".intercalate (ls.map natsStr)

def denseStr (M total : Nat) (f : Nat → Nat → Nat) : String :=
  natsStr ((List.range M).flatMap (fun m => (List.range total).map (fun o => f m o)))

/-- `gen.fjspwrite M flex | nOps… | proc row-major (M × total)` → token lines -/
def fjspwrite (toks : List String) : Option String := do
  let [hd, ns, pr] ← parseSections toks | none
  let [M, flex] := hd | none
  let ns := natsOf ns
  let total := ns.sum
  let pr := natsOf pr
  let inst : Persist.Inst := { numMas := M.toNat, nOps := ns, proc := fun m o => pr.getD (m * total + o) 0 }
  pure s!"lines={linesStr (Persist.fjspWrite inst flex.toNat)}"

def readOutStr : Option Persist.ReadOut → String
  | none => "err=1"
  | some o => s!"err=0 nj={o.numJobs} nm={o.numMas} nops={natsStr o.nOps} proc={denseStr o.numMas o.nOps.sum o.proc}"

/-- `gen.fjspread | line | line …` (first section empty) -/
def fjspread (toks : List String) : Option String := do
  let _ :: ls ← parseSections toks | none
  pure (readOutStr (Persist.fjspRead (ls.map natsOf)))

/-- `gen.jsspwrite M | nOps… | ma… | dur…` -/
def jsspwrite (toks : List String) : Option String := do
  let [hd, ns, ma, du] ← parseSections toks | none
  let [M] := hd | none
  let ma := natsOf ma
  let du := natsOf du
  let inst : Persist.JInst := { numMas := M.toNat, nOps := natsOf ns, ma := fun o => ma.getD o 0, dur := fun o => du.getD o 0 }
  pure s!"lines={linesStr (Persist.jsspWrite inst)}"

def jsspread (toks : List String) : Option String := do
  let _ :: ls ← parseSections toks | none
  pure (readOutStr (Persist.jsspRead (ls.map natsOf)))

/-- `gen.loaddemand capNum capDen | d…` -/
def loaddemand (toks : List String) : Option String := do
  let [hd, ds] ← parseSections toks | none
  let [cn, cd] := hd | none
  pure s!"demand={",".intercalate ((Persist.loadDemand ds (cn, cd.toNat)).map fracStr)}"

/-- `gen.loadrows | capNum capDen d… | capNum capDen d… | …` → per row the normalised demands (`Persist.loadRows`) -/
def loadrows (toks : List String) : Option String := do
  let _ :: rs ← parseSections toks | none
  let rows ← rs.mapM (fun r => match r with
    | cn :: cd :: ds => some (ds, ((cn, cd.toNat) : Frac))
    | _ => none)
  let out := Persist.loadRows rows
  pure s!"rows={";".intercalate (out.map (fun r => ",".intercalate (r.map fracStr)))}"

/-- `gen.npzbatch | shape… | shape… | …` (one section per stored array, in file order) → the batch size
`load_npz_to_tensordict` derives, or `err=1` -/
def npzbatch (toks : List String) : Option String := do
  let _ :: ss ← parseSections toks | none
  match Persist.npzBatch (ss.map natsOf) with
  | none => pure "err=1"
  | some b => pure s!"err=0 batch={b}"

/-- `gen.vrpcalls | n k num den k num den … | n … | …` (one section per call: size, then the `capacities` override
triples) → the capacities a history of `generate_vrp_data` calls writes (`Persist.vrpCalls`) -/
def vrpcalls (toks : List String) : Option String := do
  let _ :: cs ← parseSections toks | none
  let rec trip : List Int → Option Persist.CapTable
    | [] => some []
    | k :: a :: b :: r => (trip r).map (fun t => (k.toNat, ((a, b.toNat) : Frac)) :: t)
    | _ => none
  let calls ← cs.mapM (fun c => match c with
    | n :: r => (trip r).map (fun ov => (ov, n.toNat))
    | _ => none)
  pure s!"caps={",".intercalate ((Persist.vrpCalls calls).map optFrac)}"

/-- `gen.keymap <key> <key> …` → the policy keys a warm start maps the checkpoint keys onto (`Persist.mapKey`) -/
def keymap (toks : List String) : Option String :=
  some s!"keys={",".intercalate (toks.map Persist.mapKey)}"

def handlers : List (String × (List String → Option String)) :=
  [("gen.aff", aff), ("gen.tbl", tbl), ("gen.cvrp", cvrp), ("gen.opprize", opprize), ("gen.pctsp", pctsp),
   ("gen.cvrptw", cvrptw), ("gen.mtvrpcap", mtvrpcap), ("gen.mtvrpdem", mtvrpdem), ("gen.mtvrptw", mtvrptw), ("gen.mtvrptwgen", mtvrptwgen),
   ("gen.keep", keep), ("gen.atsp", atsp), ("gen.ops", ops), ("gen.fjspcol", fjspcol), ("gen.jsspcol", jsspcol),
   ("gen.mcpclamp", mcpclamp), ("gen.mcprow", mcprow), ("gen.fjspwrite", fjspwrite), ("gen.fjspread", fjspread),
   ("gen.jsspwrite", jsspwrite), ("gen.jsspread", jsspread), ("gen.loaddemand", loaddemand),
   ("gen.loadrows", loadrows), ("gen.npzbatch", npzbatch), ("gen.vrpcalls", vrpcalls), ("gen.keymap", keymap)]

end Rl4co.Driver.Gen
