import Rl4co.Core.Proto
import Rl4co.Env.Mtsp
import Rl4co.Spec.Mtsp
namespace Rl4co.Driver.Mtsp
open Rl4co.Proto

/-- states after 0..T actions -/
def states (i : Rl4co.Mtsp.Inst) (as : List Nat) : List Rl4co.Mtsp.State :=
  let rec go (s : Rl4co.Mtsp.State) (acc : List Rl4co.Mtsp.State) : List Nat → List Rl4co.Mtsp.State
    | [] => (s :: acc).reverse
    | a :: as => go (Rl4co.Mtsp.step i s a) (s :: acc) as
  go (Rl4co.Mtsp.reset i) [] as

/-- `mtsp.episode n m | D (n+1)² row-major | actions`
reply: mask/done trace, per-step `max_subtour_length` / `current_length` / `agent_idx`,
`reward` (minmax, final state), `rsum` (sum mode), Spec verdict and objectives, step bound. -/
def episode (toks : List String) : Option String := do
  let [hd, dm, acts] ← parseSections toks | none
  let [n, m] := hd | none
  let n := n.toNat
  let i : Rl4co.Mtsp.Inst := { n := n, m := m.toNat, D := fn2 (n + 1) dm }
  let as := toNats acts
  let tr := episodeTrace Rl4co.Mtsp.env i as
  let sts := states i as
  let fin := sts.getLastD (Rl4co.Mtsp.reset i)
  pure s!"{tr} mx={intsStr (sts.map (·.maxLen))} cl={intsStr (sts.map (·.curLen))} ag={natsStr (sts.map (·.agent))} reward={Rl4co.Mtsp.rewardMinmax fin} rsum={Rl4co.Mtsp.rewardSum i as} feas={bit (Rl4co.Spec.Mtsp.feasible i as)} obj={Rl4co.Spec.Mtsp.objMinmax i as} objsum={Rl4co.Spec.Mtsp.objSum i as} bound={i.n + i.m - 1}"

def handlers : List (String × (List String → Option String)) :=
  [("mtsp.episode", episode)]

end Rl4co.Driver.Mtsp
