import Rl4co.Core.Proto
import Rl4co.Train.Batchify
import Rl4co.Train.Select
import Rl4co.Train.Dataset
import Rl4co.Spec.Ops
namespace Rl4co.Driver.Ops
open Rl4co.Proto Rl4co.Ops

def natsOf (xs : List Int) : List Nat := xs.map Int.toNat

/-- `ops.batchify B | k1 k2 …`  → source row of every output row -/
def hBatchify (toks : List String) : Option String := do
  let [hd, ks] ← parseSections toks | none
  let [b] := hd | none
  let y := batchify (iota b.toNat) (natsOf ks)
  pure s!"shape={natsStr y.shape} rows={natsStr y.flat}"

/-- `ops.unbatchify N | k1 k2 …` → legality of the views, shape, flat row ids in row-major order -/
def hUnbatchify (toks : List String) : Option String := do
  let [hd, ks] ← parseSections toks | none
  let [n] := hd | none
  let x := iota n.toNat
  let ok := unbatchifyOk x (natsOf ks)
  if ok then
    let y := unbatchify x (natsOf ks)
    pure s!"ok=1 shape={natsStr y.shape} flat={natsStr y.flat}"
  else pure "ok=0"

/-- `ops.rearrange N S` → `rearrange(unbatchify(x, S), "b s -> (s b)")` -/
def hRearrange (toks : List String) : Option String := do
  let [hd] ← parseSections toks | none
  let [n, s] := hd | none
  let y := rearrangeSB (unbatchify (iota n.toNat) [s.toNat])
  pure s!"shape={natsStr y.shape} flat={natsStr y.flat}"

/-- `ops.gather N k | idx[0..B-1]` → `unbatchify_and_gather` -/
def hGather (toks : List String) : Option String := do
  let [hd, idx] ← parseSections toks | none
  let [n, k] := hd | none
  let y := unbatchifyAndGather (iota n.toNat) (fun b => (natsOf idx).getD b 0) k.toNat
  pure s!"shape={natsStr y.shape} rows={natsStr y.flat}"

/-- `ops.gather2 B N S squeeze(0/1/2=default) | idx (B rows of S)` on `src : [B, N, 1]` tagged `b·N + j` -/
def hGather2 (toks : List String) : Option String := do
  let [hd, idx] ← parseSections toks | none
  let [b, n, s, sq] := hd | none
  let (b, n, s) := (b.toNat, n.toNat, s.toNat)
  let src : Tens Nat := { shape := [b, n, 1], get := fun i => match i with | r :: j :: _ => r * n + j | _ => 0 }
  let ix := fun r c => (natsOf idx).getD (r * s + c) 0
  let y := if sq == 2 then gatherIdxDefault src s ix else gatherIdx src s ix (sq != 0)
  pure s!"shape={natsStr y.shape} flat={natsStr y.flat}"

/-- `ops.tdfetch len | idxs` on the TensorDict `{id: [0..len-1], x: [100..]}`: the batch every class delivers -/
def hTdFetch (toks : List String) : Option String := do
  let [hd, idxs] ← parseSections toks | none
  let [len] := hd | none
  let n := len.toNat
  let td : Cols Nat := [("id", List.range n), ("x", (List.range n).map (· + 100))]
  let show_ := fun (c : Cols Nat) => ";".intercalate (c.map (fun kc => kc.1 ++ ":" ++ natsStr kc.2))
  pure s!"tdd={show_ (tddFetch td 0 n (natsOf idxs))} fast={show_ (fastGetitems td 0 (natsOf idxs))} fastgen={show_ (fastGenGetitems td 0 (natsOf idxs))}"

/-- `ops.bestactions N B | idx[0..B-1]` → rows whose FIRST action `get_best_actions` returns -/
def hBestActions (toks : List String) : Option String := do
  let [hd, idx] ← parseSections toks | none
  let [n, b] := hd | none
  -- actions : [N, L]; rows are tagged, column 0 is what survives
  let acts : Tens Nat := { shape := [n.toNat, 1], get := fun i => match i with | r :: _ => r | [] => 0 }
  let y := getBestActions acts b.toNat (fun i => (natsOf idx).getD i 0)
  pure s!"shape={natsStr y.shape} rows={natsStr y.flat}"

/-- `ops.numstarts <env> nAct nLocs` -/
def hNumStarts (toks : List String) : Option String := do
  let env :: rest := toks | none
  let [a, l] ← ints rest | none
  pure s!"generic={getNumStarts env a.toNat} method={envGetNumStarts env a.toNat l.toNat}"

/-- `ops.starts <env> B k genNumLoc nAct nLocs` (deterministic rules; OP: non-resampling branch) -/
def hStarts (toks : List String) : Option String := do
  let env :: rest := toks | none
  let [b, k, g, a, l] ← ints rest | none
  let (lo, m) := genericRule env g.toNat
  let (lo', m') := envRule env g.toNat a.toNat l.toNat
  let code := genericStartsCode (lo != 0) b.toNat k.toNat m
  let (l1, m1) := hookRule false env g.toNat a.toNat l.toNat
  let (l2, m2) := hookRule true env g.toNat a.toNat l.toNat
  pure s!"generic={natsStr code} method={natsStr (startsOf b.toNat k.toNat lo' m')} hookms={natsStr (startsOf b.toNat k.toNat l1 m1)} hookbeam={natsStr (startsOf b.toNat k.toNat l2 m2)}"

def splitRows (w : Nat) : Nat → List Int → List (Nat → Bool)
  | 0, _ => []
  | b + 1, xs => fnB (xs.take w) :: splitRows w b (xs.drop w)

/-- `ops.opstarts n k B | masks (B rows of n+1 bits)` → the forced starts (k-major) -/
def hOpStarts (toks : List String) : Option String := do
  let [hd, ms] ← parseSections toks | none
  let [n, k, b] := hd | none
  let masks := splitRows (n.toNat + 1) b.toNat ms
  pure s!"sel={natsStr (opStarts n.toNat k.toNat masks)}"

/-- `ops.samplen w n B | masks (B rows of w bits) | sel` -/
def hSampleN (toks : List String) : Option String := do
  let [hd, ms, sel] ← parseSections toks | none
  let [w, n, b] := hd | none
  let masks := splitRows w.toNat b.toNat ms
  pure s!"replace={bit (sampleNReplace w.toNat n.toNat masks)} ok={bit (sampleNOk w.toNat n.toNat masks (natsOf sel))} fjspok={bit (fjspStartsOk w.toNat n.toNat masks (natsOf sel))}"

/-- `ops.selectbest B k | rewards[0..kB-1]` → chosen flat rows and returned rewards, for both
tie-breakings of `max` -/
def hSelectBest (toks : List String) : Option String := do
  let [hd, rs] ← parseSections toks | none
  let [b, k] := hd | none
  let n := b.toNat * k.toNat
  let rew : Tens Int := { shape := [n], get := fun i => match i with | r :: _ => rs.getD r 0 | [] => 0 }
  let rowsF := (selectBest argmaxFirst rew (iota n) k.toNat).flat
  let rowsL := (selectBest argmaxLast rew (iota n) k.toNat).flat
  let valF := (selectBest argmaxFirst rew rew k.toNat).flat
  pure s!"first={natsStr rowsF} last={natsStr rowsL} val={intsStr valF}"

/-- `ops.gatherdefault B S A | idx (B rows of A)` on a `[B,S,A]` tensor of flat tags -/
def hGatherDefault (toks : List String) : Option String := do
  let [hd, idx] ← parseSections toks | none
  let [b, s, a] := hd | none
  let (b, s, a) := (b.toNat, s.toNat, a.toNat)
  let src : Tens Nat := { shape := [b, s, a], get := fun i => match i with
    | r :: x :: y :: _ => (r * s + x) * a + y | _ => 0 }
  let y := gatherDefaultDim src (fun r x => (natsOf idx).getD (r * a + x) 0)
  pure s!"shape={natsStr y.shape} flat={natsStr y.flat}"

def batchesStr (bs : List (List Nat)) : String := ";".intercalate (bs.map natsStr)

/-- `ops.loader bs | order` → the batches (as index lists) of the loader -/
def hLoader (toks : List String) : Option String := do
  let [hd, order] ← parseSections toks | none
  let [bs] := hd | none
  pure s!"batches={batchesStr (loader bs.toNat (natsOf order) id)}"

/-- `ops.evalcall | batch sizes | action length of each batch` → `EvalBase.__call__` on instances `0,1,…`
whose reward is the id and whose action row is `len` copies of `id + 1` -/
def hEvalCall (toks : List String) : Option String := do
  let [_, sizes, lens] ← parseSections toks | none
  let szs := natsOf sizes
  let starts := szs.foldl (fun (acc : List Nat × Nat) s => (acc.1 ++ [acc.2], acc.2 + s)) ([], 0)
  let batches : List (List (Nat × Nat)) :=
    (List.range szs.length).map (fun b =>
      (List.range (szs.getD b 0)).map (fun j => (starts.1.getD b 0 + j, (natsOf lens).getD b 0)))
  let inner : List (Nat × Nat) → List (Nat × List Int) :=
    fun xs => xs.map (fun x => (x.1, List.replicate x.2 (Int.ofNat (x.1 + 1))))
  let (rw, rows) := evalCall inner batches
  pure s!"rewards={natsStr rw} rows={";".intercalate (rows.map intsStr)}"

/-! spec oracles on observed outcomes -/

def hSpecExpand (toks : List String) : Option String := do
  let [hd, tags] ← parseSections toks | none
  let [b] := hd | none
  pure s!"ok={bit (Rl4co.Spec.Ops.expandOk b.toNat (natsOf tags))}"

def hSpecRegroup (toks : List String) : Option String := do
  let [hd, cells] ← parseSections toks | none
  let [b, c] := hd | none
  pure s!"ok={bit (Rl4co.Spec.Ops.regroupOk b.toNat c.toNat (natsOf cells))}"

/-- `ops.spec.starts lo hi | mask bits | starts` -/
def hSpecStarts (toks : List String) : Option String := do
  let [hd, ms, st] ← parseSections toks | none
  let [lo, hi] := hd | none
  let mask := fnB ms
  let s := natsOf st
  pure s!"feas={Rl4co.Spec.Ops.feasible lo.toNat hi.toNat mask} feasok={bit (Rl4co.Spec.Ops.startsFeasOk lo.toNat hi.toNat mask s)} feasstrong={bit (Rl4co.Spec.Ops.startsFeasStrongOk lo.toNat hi.toNat mask s)} distinctok={bit (Rl4co.Spec.Ops.startsDistinctOk lo.toNat hi.toNat mask s)}"

/-- `ops.spec.best chosen ret | rewards of the instance` -/
def hSpecBest (toks : List String) : Option String := do
  let [hd, rs] ← parseSections toks | none
  let [c, ret] := hd | none
  pure s!"ok={bit (Rl4co.Spec.Ops.bestOk rs c.toNat ret)}"

/-- `ops.spec.loader n bs shuffle | ids | sizes | extraIds` -/
def hSpecLoader (toks : List String) : Option String := do
  let [hd, ids, sizes, ex] ← parseSections toks | none
  let [n, bs, sh] := hd | none
  pure s!"ok={bit (Rl4co.Spec.Ops.loaderOk n.toNat bs.toNat (sh != 0) (natsOf ids) (natsOf sizes) (natsOf ex))}"

/-- `ops.spec.fetch | requested | delivered | extraIds` -/
def hSpecFetch (toks : List String) : Option String := do
  let [_, rq, dl, ex] ← parseSections toks | none
  pure s!"ok={bit (Rl4co.Spec.Ops.fetchOk (natsOf rq) (natsOf dl) (natsOf ex))}"

def handlers : List (String × (List String → Option String)) :=
  [("ops.batchify", hBatchify), ("ops.unbatchify", hUnbatchify), ("ops.rearrange", hRearrange),
   ("ops.gather", hGather), ("ops.gather2", hGather2), ("ops.tdfetch", hTdFetch), ("ops.bestactions", hBestActions), ("ops.numstarts", hNumStarts),
   ("ops.starts", hStarts), ("ops.opstarts", hOpStarts), ("ops.samplen", hSampleN), ("ops.selectbest", hSelectBest),
   ("ops.loader", hLoader), ("ops.evalcall", hEvalCall), ("ops.gatherdefault", hGatherDefault), ("ops.spec.expand", hSpecExpand), ("ops.spec.regroup", hSpecRegroup),
   ("ops.spec.starts", hSpecStarts), ("ops.spec.best", hSpecBest), ("ops.spec.loader", hSpecLoader), ("ops.spec.fetch", hSpecFetch)]

end Rl4co.Driver.Ops
