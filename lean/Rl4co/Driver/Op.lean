import Rl4co.Core.Proto
import Rl4co.Env.Op
import Rl4co.Spec.Op
namespace Rl4co.Driver.Op
open Rl4co.Proto

/-- header `n L tol U rho` (`U` = value of 1.0 in the instance's unit, `rho` = float32 rounding bound) | prize[1..n] | D (n+1)² row-major | budget[0..n] | cbound[0..n] | actions -/
def parseInst (toks : List String) : Option (Rl4co.Op.Inst × Int × List Nat × Int × Int) := do
  let [hd, pr, dm, bud, cb, acts] ← parseSections toks | none
  let [n, L, tol, U, rho] := hd | none
  let n := n.toNat
  let i : Rl4co.Op.Inst :=
    { n := n, L := L, D := fn2 (n + 1) dm, prize := fn1From1 pr, budget := fn1 bud, cbound := fn1 cb }
  pure (i, tol, toNats acts, U, rho)

/-- infeasible only by a length excess within `tol` -/
def near (i : Rl4co.Op.Inst) (tol : Int) (as : List Nat) : Bool :=
  !(Rl4co.Spec.Op.feasible i as) && Rl4co.Spec.Op.feasible { i with L := i.L + tol } as

def verdicts (i : Rl4co.Op.Inst) (tol : Int) (as : List Nat) : String :=
  s!"check={bit (Rl4co.Op.check i as)} feas={bit (Rl4co.Spec.Op.feasible i as)} near={bit (near i tol as)} slack={Rl4co.Spec.Op.slack i as} obj={Rl4co.Spec.Op.objective i as}"

def episode (toks : List String) : Option String := do
  let (i, tol, as, U, rho) ← parseInst toks
  let tr := episodeTrace Rl4co.Op.env i as
  pure s!"{tr} reward={Rl4co.Op.reward i as} rassert={bit (Rl4co.Op.rewardAssert as)} {verdicts i tol as} bound={max (i.n + 1) 2} precomp={bit (Rl4co.Op.precomp i U rho)} cprecomp={bit (Rl4co.Op.checkPrecomp i U rho)}"

def check (toks : List String) : Option String := do
  let (i, tol, as, _, _) ← parseInst toks
  pure (verdicts i tol as)

def handlers : List (String × (List String → Option String)) :=
  [("op.episode", episode), ("op.check", check)]

end Rl4co.Driver.Op

namespace Rl4co.Driver.Op
open Rl4co.Proto

/-- `op.check1col B | n_1 a_1 cbound_1[0..n_1] | … | n_B a_B cbound_B[0..n_B] | X (B×B row-major)`:
the batched checker on a single-column action tensor (only `n`, `cbound` of an instance matter; the cross-row
distances `X` are still transmitted but no longer enter the model: regression probe of upstream fix 9be001b). -/
def check1col (toks : List String) : Option String := do
  let secs ← parseSections toks
  let [b] ← secs.head? | none
  let B := b.toNat
  let rowSecs := (secs.drop 1).take B
  let _xs ← (secs.drop (1 + B)).head?
  let rows ← rowSecs.mapM (fun sec => match sec with
    | n :: a :: cb =>
      some (({ n := n.toNat, L := 0, D := fun _ _ => 0, prize := fun _ => 0, budget := fun _ => 0,
               cbound := fn1 cb } : Rl4co.Op.Inst), a.toNat)
    | _ => none)
  pure s!"check={bit (Rl4co.Op.checkSingleColumnBatch rows)}"

def handlers1 : List (String × (List String → Option String)) :=
  handlers ++ [("op.check1col", check1col)]

end Rl4co.Driver.Op
