import Rl4co.Core.Proto
import Rl4co.Env.Mdcpdp
import Rl4co.Spec.Mdcpdp
import Rl4co.Spec.MdcpdpAdmits
namespace Rl4co.Driver.Mdcpdp
open Rl4co.Proto
open Rl4co.Mdcpdp

/-- states after 0..T actions -/
def states (i : Inst) (as : List Nat) : List State :=
  let rec go (s : State) (acc : List State) : List Nat → List State
    | [] => (s :: acc).reverse
    | a :: as => go (step i s a) (s :: acc) as
  go (reset i) [] as

def admittedAlong (i : Inst) : List State → List Nat → Bool
  | s :: ss, a :: as => decide (a < i.N) && s.mask a && admittedAlong i ss as
  | _, _ => true

def modeOf (k : Int) : Mode := if k = 0 then .minmax else if k = 1 then .minsum else .lateness

def mkInst (hd cap dm : List Int) : Option Inst :=
  match hd with
  | n :: k :: split0 :: kg :: op :: _mode :: wn :: wd :: _ =>
    some { N := n.toNat, K := k.toNat, split0 := split0.toNat, KG := kg.toNat, cap := fn1 cap,
           D := fn2 n.toNat dm, openMode := op != 0, wNum := wn, wDen := wd,
           start := (hd.getD 10 0).toNat }
  | _ => none

/-- `mdcpdp.episode N K split0 KG open mode wNum wDen specK specH start | cap | specCap | D N² | actions`
mode: 0 minmax, 1 minsum, 2 lateness (reward scaled by wDen). -/
def episode (toks : List String) : Option String := do
  let secs ← parseSections toks
  let hd ← secs[0]?
  let cap ← secs[1]?
  let scap ← secs[2]?
  let dm ← secs[3]?
  let acts ← secs[4]?
  let i ← mkInst hd cap dm
  let mode := modeOf (hd.getD 5 0)
  let specK := (hd.getD 8 0).toNat
  let specH := (hd.getD 9 0).toNat
  let as := toNats acts
  let sts := states i as
  let fin := sts.getLastD (reset i)
  let firstDone := (sts.find? (·.done)).getD fin
  let masks := ",".intercalate (sts.map (fun s => maskBits i.N s.mask))
  let dn := String.join (sts.map (fun s => bit s.done))
  let lensTr := ";".intercalate (sts.map (fun s => intsStr (lens i s)))
  let carryTr := intsStr (sts.map (·.carry))
  let depTr := natsStr (sts.map (·.depot))
  let p : Rl4co.Spec.Mdcpdp.Problem :=
    { K := specK, h := specH, cap := fn1 scap, D := i.D, openMode := i.openMode, wNum := i.wNum, wDen := i.wDen }
  let obj := fun (v : Rl4co.Spec.Mdcpdp.Variant) => match mode with
    | .minmax => Rl4co.Spec.Mdcpdp.objMinmax p v as
    | .minsum => Rl4co.Spec.Mdcpdp.objMinsum p v as
    | .lateness => Rl4co.Spec.Mdcpdp.objLateness p v as
  let vd := Rl4co.Spec.Mdcpdp.verdict p {} as
  pure s!"masks={masks} done={dn} adm={bit (admittedAlong i sts as)} len={lensTr} carry={carryTr} dep={depTr} arr={intsStr ((List.range i.N).map fin.arrive)} reward={reward mode i fin} rnp={reward mode i firstDone} feas={bit (vd == 0)} why={vd} vnohome={Rl4co.Spec.Mdcpdp.verdict p { home := false } as} vcap0={Rl4co.Spec.Mdcpdp.verdict p { home := false, ownCap := false } as} obj={obj {}} objA={obj { chargeLast := false }} objB={obj { home := false, ownCap := false, perVehicle := false }} objAB={obj { home := false, ownCap := false, perVehicle := false, chargeLast := false }} admits={bit (Rl4co.Spec.Mdcpdp.admitsAll p {} as)} objopen={Rl4co.Spec.Mdcpdp.openLength p 0 as} bound={i.N + i.K - 1}"

def handlers : List (String × (List String → Option String)) :=
  [("mdcpdp.episode", episode)]

end Rl4co.Driver.Mdcpdp
