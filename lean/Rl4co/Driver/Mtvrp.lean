import Rl4co.Core.Proto
import Rl4co.Env.Mtvrp
import Rl4co.Spec.Mtvrp
import Rl4co.Env.MtvrpGen
namespace Rl4co.Driver.Mtvrp
open Rl4co.Proto
open Rl4co.Mtvrp

/-- protocol encoding of a possibly infinite bound: the sentinel `-2^62` = `inf` (every other integer,
negative ones included, is a finite value) -/
def infSentinel : Int := -4611686018427387904
def optOf (x : Int) : Option Int := if x = infSentinel then none else some x

/-- instance sections: `n cap open limit | dL[0..n] | dB[0..n] | early[0..n] | late[0..n] | service[0..n]
| D (n+1)² | T (n+1)²` (`limit` / `late` = `infSentinel` for inf) -/
def mkInst : List (List Int) → Option Inst
  | [hd, dl, db, ea, la, se, dm, tm] =>
    match hd with
    | [n, cap, op, lim] =>
      let n := n.toNat
      some { n := n, cap := cap, dL := fn1 dl, dB := fn1 db, openR := op != 0, limit := optOf lim,
             early := fn1 ea, late := fun j => optOf (la.getD j infSentinel), service := fn1 se,
             D := fn2 (n + 1) dm, T := fn2 (n + 1) tm }
    | _ => none
  | _ => none

/-- verdicts of the Spec per constraint and of the checker model per pass -/
def verdicts (i : Inst) (as : List Nat) : String :=
  let noLimit : Inst := { i with limit := none }
  let noTw : Inst := { i with late := fun _ => none }
  s!"check={bit (check i as)} feas={bit (Spec.Mtvrp.feasible i as)} feasStrict={bit (Spec.Mtvrp.feasibleC .lt i as)} " ++
  s!"once={bit (Spec.Mtvrp.onceB i as)} load={bit (Spec.Mtvrp.loadB i as)} order={bit (Spec.Mtvrp.orderB i as)} " ++
  s!"dist={bit (Spec.Mtvrp.distB i as)} time={bit (Spec.Mtvrp.timeB .le i as)} " ++
  s!"cSort={bit (sortedTest i.n as)} cStatic={bit (checkStatic i)} cLen={bit (checkReplay noTw 0 0 0 as)} " ++
  s!"cTime={bit (checkReplay noLimit 0 0 0 as)} cCapL={bit (checkC1 i.cap i.dL 0 as)} cCapB={bit (checkC1 i.cap i.dB 0 as)} " ++
  s!"wf={bit (wf i)} acc={bit (Spec.Mtvrp.acceptedB i as)} fixed={bit (checkR ⟨true, true, true⟩ i as)} cStaticR={bit (checkStatic (relaxDepot i))}"

/-- `mtvrp.episode <instance sections> | actions` -/
def episode (toks : List String) : Option String := do
  let secs ← parseSections toks
  let i ← mkInst (secs.take 8)
  let [acts] := secs.drop 8 | none
  let as := toNats acts
  let tr := episodeTrace env i as
  pure s!"{tr} reward={reward i as} obj={Spec.Mtvrp.objective i as} bound={2 * i.n + 1} {verdicts i as}"

/-- `mtvrp.check …` same arguments; only the checker / spec verdicts (arbitrary action lists) -/
def checkOp (toks : List String) : Option String := do
  let secs ← parseSections toks
  let i ← mkInst (secs.take 8)
  let [acts] := secs.drop 8 | none
  pure (verdicts i (toNats acts))

/-- split a list into consecutive groups of `k` -/
def groups (k : Nat) : Nat → List (List Int) → List (List (List Int))
  | 0, _ => []
  | fuel + 1, xs => if xs.isEmpty then [] else xs.take k :: groups k fuel (xs.drop k)

/-- `mtvrp.checkbatch <row 1: instance sections | actions> | <row 2 …> …`: the batched checker -/
def checkBatchOp (toks : List String) : Option String := do
  let secs ← parseSections toks
  let rows ← (groups 9 secs.length secs).mapM (fun g => do
    let i ← mkInst (g.take 8)
    let [acts] := g.drop 8 | none
    pure (i, toNats acts))
  let solo := rows.map (fun r => check r.1 r.2)
  let feas := rows.map (fun r => Spec.Mtvrp.feasible r.1 r.2)
  pure s!"checkBatch={bit (checkBatch rows)} solo={bits solo} feas={bits feas}"

/-- `mtvrp.episodegen …`: the mask / done trace of the environment built from the GENERATED definitions -/
def episodeGen (toks : List String) : Option String := do
  let secs ← parseSections toks
  let i ← mkInst (secs.take 8)
  let [acts] := secs.drop 8 | none
  pure (episodeTrace envGen i (toNats acts))

/-- `mtvrp.starts n B k`: the `k * B` forced start nodes of `select_start_nodes` -/
def startsOp (toks : List String) : Option String := do
  let [n, b, k] ← nats toks | none
  pure s!"starts={natsStr (startNodes n b k)}"

def handlers : List (String × (List String → Option String)) :=
  [("mtvrp.episode", episode), ("mtvrp.check", checkOp), ("mtvrp.checkbatch", checkBatchOp), ("mtvrp.starts", startsOp), ("mtvrp.episodegen", episodeGen)]

end Rl4co.Driver.Mtvrp
