import Rl4co.Core.Proto
import Rl4co.Env.Dpp
import Rl4co.Spec.Dpp
import Rl4co.Driver.Flp
namespace Rl4co.Driver.Dpp
open Rl4co.Proto
open Rl4co.Driver.Flp (statesOf)

/-- `dpp.episode n quota multi | avail bits n | probe bits n | actions`
reply: masks/done/adm trace, `keepout` bits of the reset state, Spec `feas`, number of allowed cells
`nallowed`, `bound`. -/
def episode (toks : List String) : Option String := do
  let [hd, av, pr, acts] ← parseSections toks | none
  let [n, q, multi] := hd | none
  let n := n.toNat
  let i : Rl4co.Dpp.Inst := { n := n, quota := q, avail := fnB av, probe := fnB pr, multi := multi != 0 }
  let as := toNats acts
  let tr := episodeTrace Rl4co.Dpp.env i as
  let nallowed := cnt n (Rl4co.Spec.Dpp.allowed i)
  pure s!"{tr} keepout={maskBits n (Rl4co.Dpp.reset i).keepout} feas={bit (Rl4co.Spec.Dpp.feasible i as)} nallowed={nallowed} bound={q}"

/-- `dpp.ctor multi dflt given`: the quota the constructed environment steps with -/
def ctor (toks : List String) : Option String := do
  let [hd] ← parseSections toks | none
  let [multi, dflt, given] := hd | none
  pure s!"quota={if multi != 0 then Rl4co.Dpp.mdppEnvQuota dflt given else Rl4co.Dpp.dppEnvQuota dflt given}"

def handlers : List (String × (List String → Option String)) :=
  [("dpp.episode", episode), ("dpp.ctor", ctor)]

end Rl4co.Driver.Dpp
