import Rl4co.Core.Proto
import Rl4co.Env.Cvrp
import Rl4co.Env.CvrpGen
import Rl4co.Spec.Cvrp
namespace Rl4co.Driver.Cvrp
open Rl4co.Proto

/-- `cvrp.episode n cap tol | demand[1..n] | D (n+1)² row-major | actions` -/
def episode (toks : List String) : Option String := do
  let [hd, dem, dm, acts] ← parseSections toks | none
  let [n, cap, tol] := hd | none
  let n := n.toNat
  let i : Rl4co.Cvrp.Inst := { n := n, cap := cap, demand := fn1From1 dem, D := fn2 (n + 1) dm }
  let as := toNats acts
  let tr := episodeTrace Rl4co.Cvrp.env i as
  -- the environment regenerated from the source (Generated/CvrpRow.lean), same actions
  let gtr := ((episodeTrace Rl4co.Cvrp.Gen.GenEnv i as).replace "masks=" "genmasks=").replace " done=" " gendone="
  let gtr := gtr.replace " adm=" " genadm="
  pure s!"{tr} {gtr} reward={Rl4co.Cvrp.reward i as} check={bit (Rl4co.Cvrp.check i tol as)} feas={bit (Rl4co.Spec.Cvrp.feasible i as)} obj={Rl4co.Spec.Cvrp.objective i as}"

/-- `cvrp.check …` same arguments; only the checker / spec verdicts (arbitrary action lists). -/
def check (toks : List String) : Option String := do
  let [hd, dem, dm, acts] ← parseSections toks | none
  let [n, cap, tol] := hd | none
  let n := n.toNat
  let i : Rl4co.Cvrp.Inst := { n := n, cap := cap, demand := fn1From1 dem, D := fn2 (n + 1) dm }
  let as := toNats acts
  let feas := Rl4co.Spec.Cvrp.feasible i as
  let near := !feas && Rl4co.Spec.Cvrp.feasibleWithin tol i as
  pure s!"check={bit (Rl4co.Cvrp.check i tol as)} feas={bit feas} near={bit near}"

def handlers : List (String × (List String → Option String)) :=
  [("cvrp.episode", episode), ("cvrp.check", check)]

end Rl4co.Driver.Cvrp
