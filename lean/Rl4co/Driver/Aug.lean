/-
Driver handlers of the `aug` family (C15 augmentation + evaluation, C14 decoding loop); ops `aug.*`.
No Mathlib.  Coordinates of the exact stream are integers in grid units (`one` = side of the unit square);
the symmetric transform is evaluated over `Rat` (numbers arrive as numerators over `2^K`).
-/
import Rl4co.Core.Proto
import Rl4co.Core.Tour
import Rl4co.Train.Augment
import Rl4co.Train.Eval
namespace Rl4co.Driver.Aug
open Rl4co.Proto Rl4co.Augment

def toPts {α : Type} : List α → List (α × α)
  | x :: y :: r => (x, y) :: toPts r
  | _ => []

def chunkN {α : Type} (n : Nat) (xs : List α) : List (List α) := Rl4co.Eval.chunks n xs

def rowsOf {α : Type} (N : Nat) (flat : List α) : List (List (α × α)) := chunkN N (toPts flat)

def ptsStr (rows : List (List (Int × Int))) : String :=
  ";".intercalate (rows.map fun r => ",".intercalate (r.map fun p => s!"{p.1},{p.2}"))

def ratStr (q : Rat) : String := s!"{q.num}/{q.den}"

def ptsStrRat (rows : List (List (Rat × Rat))) : String :=
  ";".intercalate (rows.map fun r => ",".intercalate (r.map fun p => s!"{ratStr p.1},{ratStr p.2}"))

/-- `aug.dihedral one A fai N | x y x y …`  → `StateAugmentation(A, 'dihedral8', first_aug_identity=fai)` -/
def dihedralOp (toks : List String) : Option String := do
  let [hd, xs] ← parseSections toks | none
  let [one, A, fai, N] := hd | none
  match stateAugmentationDihedral (one : Int) A.toNat (fai != 0) (rowsOf N.toNat xs) with
  | some out => pure s!"out={ptsStr out}"
  | none => pure "out=index-error"

def symArgs (toks : List String) :
    Option (Nat × Bool × Rat × List (Rat × Rat × Bool) × List (List (Rat × Rat))) := do
  let [hd, prm, xs] ← parseSections toks | none
  let [K, A, fai, N, o] := hd | none
  let den : Rat := (2 : Rat) ^ K.toNat
  let q (v : Int) : Rat := (v : Rat) / den
  let rec triples : List Int → List (Rat × Rat × Bool)
    | c :: s :: w :: r => (q c, q s, w != 0) :: triples r
    | _ => []
  pure (A.toNat, fai != 0, q o, triples prm, rowsOf N.toNat (xs.map q))

/-- `aug.sym K A fai N o | c s swap … (RAW draws, one triple per tiled row) | x y x y …`: the model zeroes the first
`rows // num_augment` angles itself (`symParams`); numbers are numerators over `2^K` -/
def symOp (toks : List String) : Option String := do
  let (A, fai, o, prm, rows) ← symArgs toks
  match stateAugSymDraws o A fai prm rows with
  | some out => pure s!"out={ptsStrRat out}"
  | none => pure "out=index-error"

/-- `aug.symraw …` same arguments, the triples are used as they are (`symmetric_transform` with given angles) -/
def symRawOp (toks : List String) : Option String := do
  let (A, fai, o, prm, rows) ← symArgs toks
  match stateAugmentationSym o A fai prm rows with
  | some out => pure s!"out={ptsStrRat out}"
  | none => pure "out=index-error"

/-- `aug.normalize K N | x y x y …` → `min_max_normalize` of the whole tensor (min / max over ALL coordinates) -/
def normalizeOp (toks : List String) : Option String := do
  let [hd, xs] ← parseSections toks | none
  let [K, N] := hd | none
  let den : Rat := (2 : Rat) ^ K.toNat
  let vals : List Rat := xs.map fun (v : Int) => ((v : Int) : Rat) / den
  match vals with
  | [] => none
  | v :: vs =>
    let lo := vs.foldl (fun a b => if b < a then b else a) v
    let hi := vs.foldl (fun a b => if a < b then b else a) v
    if hi = lo then pure "out=degenerate"
    else pure s!"out={ptsStrRat (minMaxNormalize (1 / (hi - lo)) lo (rowsOf N.toNat vals))} ratio={ratStr (1 / (hi - lo))}"

/-- `aug.cache S | v_0 … v_{B-1}` → rows of `PrecomputedCache.batchify(S)` for a `[B]` field -/
def cacheOp (toks : List String) : Option String := do
  let [hd, vs] ← parseSections toks | none
  let [S] := hd | none
  let x : Rl4co.Ops.Tens Int := { shape := [vs.length], get := fun idx => vs.getD (idx.headD 0) 0 }
  let y := Rl4co.Eval.cacheReplicate Params.augCacheStartMajor x S.toNat
  pure s!"rows={intsStr ((List.range (y.shape.headD 0)).map fun r => y.get [r])}"

/-- `aug.swap num den` → the reflection test for `u = num / den` -/
def swapOp (toks : List String) : Option String := do
  let [num, den] ← ints toks | none
  pure s!"swap={bit (swapOf num den)}"

/-- an instance as the evaluation checks see it: distance matrix (ticks), node prizes (OP; 0 elsewhere), length budget -/
structure EInst where
  D : Nat → Nat → Int
  prize : Nat → Int
  maxLen : Int

instance : Inhabited EInst := ⟨⟨fun _ _ => 0, fun _ => 0, 0⟩⟩

/-- `m² ` matrix entries, then optionally `m` prizes and the length budget -/
def parseInst (m : Nat) (xs : List Int) : EInst :=
  { D := fn2 m (xs.take (m * m)), prize := fn1 ((xs.drop (m * m)).take m), maxLen := (xs.drop (m * m + m)).headD 0 }

def distinctCustomers (as : List Nat) : List Nat := (as.filter (· ≠ 0)).eraseDups

/-- independent objectives (Core/Tour), as COSTS (reward = −objective): kind 0 = TSP closed tour, kind 1 = depot routes
(CVRP), kind 2 = orienteering: minus the prizes of the distinct customers visited -/
def objective (kind : Int) (i : EInst) (as : List Nat) : Int :=
  if kind = 0 then closedLen i.D as
  else if kind = 1 then routesLen i.D as
  else - ((distinctCustomers as).map i.prize).sum

/-- the env's reward as the evaluators see it (model of `get_reward` on one instance) -/
def rewardOf (kind : Int) (i : EInst) (as : List Nat) : Int :=
  if kind = 0 then - rollLen i.D as
  else if kind = 1 then - rollLen i.D (0 :: as)
  else (as.map i.prize).sum

/-- Spec feasibility of a returned solution where the evaluation checks need it: OP — no customer twice, and the tour
depot → … → depot within the budget -/
def feasible (kind : Int) (i : EInst) (as : List Nat) : Bool :=
  if kind = 2 then
    ((as.filter (· ≠ 0)).length == (distinctCustomers as).length) && decide (pathLen i.D (0 :: as ++ [0]) ≤ i.maxLen)
  else true

/-- `aug.cost kind m | D (m² row-major) [prizes (m) maxlen] | actions` -/
def costOp (toks : List String) : Option String := do
  let [hd, dm, acts] ← parseSections toks | none
  let [kind, m] := hd | none
  let i := parseInst m.toNat dm
  pure s!"obj={objective kind i (toNats acts)} reward={rewardOf kind i (toNats acts)} feas={bit (feasible kind i (toNats acts))}"

def resStr (out : List (Int × List Nat)) : String :=
  s!"rewards={intsStr (out.map (·.1))} actions={";".intercalate (out.map fun ra => natsStr ra.2)}"

/-- `aug.inner method kind m B A S L | inst_0 | … | inst_{B-1} | actions (rows × L, flat)`
method 0 greedy, 1 augment (K = A), 2 multistart (K = S), 3 multistart+augment, 4 sampling (K = S) -/
def innerOp (toks : List String) : Option String := do
  let secs ← parseSections toks
  let hd :: rest := secs | none
  let [method, kind, m, B, A, S, L] := hd | none
  if rest.length ≠ B.toNat + 1 then none
  let insts : List EInst := (rest.take B.toNat).map (parseInst m.toNat)
  let acts : List (List Nat) := chunkN L.toNat (toNats (rest.getD B.toNat []))
  let rew : EInst → List Nat → Int := rewardOf kind
  let out :=
    if method = 0 then Rl4co.Eval.greedyInner rew insts acts
    else if method = 1 then Rl4co.Eval.bestOfInner rew A.toNat insts acts
    else if method = 2 then Rl4co.Eval.bestOfInner rew S.toNat insts acts
    else if method = 3 then Rl4co.Eval.msAugInner rew A.toNat S.toNat insts acts
    else Rl4co.Eval.samplingInner rew S.toNat insts acts
  pure (resStr out)

/-- `aug.callseq listsLocal | n_1 r a r a … | n_2 … ` — a history of calls on ONE evaluator object; every call section is
the loader batch size followed by the per-instance (reward, single action) results; returns the length and rewards of the
LAST call's result (`callSeq`) -/
def callSeqOp (toks : List String) : Option String := do
  let secs ← parseSections toks
  let hd :: calls := secs | none
  let [flag] := hd | none
  let rec pairs : List Int → List (Int × List Nat)
    | r :: a :: t => (r, [a.toNat]) :: pairs t
    | _ => []
  let cs : List (Nat × List (Int × List Nat)) := calls.filterMap fun c => match c with
    | n :: t => some (n.toNat, pairs t)
    | [] => none
  let res := Rl4co.Eval.callSeq (flag != 0) (fun (b : List (Int × List Nat)) => b) Rl4co.Eval.EvalObj.fresh cs
  let last := res.getLastD ([], [])
  pure s!"rewards={intsStr last.1} n={last.1.length} listsLocal={bit Params.augEvalListsLocal}"

/-- `aug.select K L | rewards | actions flat` → unbatchify / max / gather alone -/
def selectOp (toks : List String) : Option String := do
  let [hd, rs, acts] ← parseSections toks | none
  let [K, L] := hd | none
  pure (resStr (Rl4co.Eval.selectBest K.toNat rs (chunkN L.toNat (toNats acts))))

/-- `aug.concat | L_1 rows… | L_2 rows… | …` (each section: row length, then the flat rows of one loader batch) -/
def concatOp (toks : List String) : Option String := do
  let secs ← parseSections toks
  let bs : List (List (List Nat)) := secs.filterMap fun s =>
    match s with
    | [] => none
    | l :: flat => some (chunkN l.toNat (toNats flat))
  pure s!"actions={";".intercalate ((Rl4co.Eval.concatActions bs).map natsStr)} maxlen={Rl4co.Eval.maxLen bs}"

/-- `aug.chunks n len` → sizes of the loader batches -/
def chunksOp (toks : List String) : Option String := do
  let [n, len] ← nats toks | none
  pure s!"sizes={natsStr ((Rl4co.Eval.chunks n (List.range len)).map List.length)}"

/-- `aug.loop fuel | T_0 a a a … | T_1 a a … | …`: one section per row: number of steps after which the row
is done when decoded alone, then the actions the (row-wise) oracle takes at steps 0,1,2,…  The model runs
`decodeBatch` on the trace environment (state = step counter). -/
def loopOp (toks : List String) : Option String := do
  let secs ← parseSections toks
  let hd :: rows := secs | none
  let [fuel] := hd | none
  let T (b : Nat) : Nat := ((rows.getD b []).headD 0).toNat
  let act (b t : Nat) : Nat := ((rows.getD b []).getD (t + 1) 0).toNat
  let e : Rl4co.Eval.StepEnv Nat Nat := { reset := fun _ => 0, step := fun _ t _ => t + 1, done := fun b t => decide (T b ≤ t) }
  let πB : List (Nat × Nat) → List Nat := fun rs => rs.map fun r => act r.1 r.2
  let out := Rl4co.Eval.decodeBatch e πB fuel.toNat (List.range rows.length)
  let acts := (List.range rows.length).map (Rl4co.Eval.rowActions out.1)
  pure s!"steps={out.1.length} actions={";".intercalate (acts.map natsStr)}"

/-- `aug.narindex | B_1 S_1 B_2 S_2 … B S` — a history of `(B, S)` calls followed by the current one: the index the current
call gets from the (extracted) memoisation, and the fresh index -/
def narIndexOp (toks : List String) : Option String := do
  let xs ← nats toks
  let rec pairs : List Nat → List (Nat × Nat)
    | b :: s :: t => (b, s) :: pairs t
    | _ => []
  let ps := pairs xs
  let (B, S) ← ps.getLast?
  let hist := ps.dropLast
  pure s!"cached={natsStr (Rl4co.Eval.narCachedIndex Params.augNarIndexKeyHasBoth hist B S)} fresh={natsStr (Rl4co.Eval.narIndex B S)}"

def handlers : List (String × (List String → Option String)) :=
  [("aug.dihedral", dihedralOp), ("aug.sym", symOp), ("aug.symraw", symRawOp), ("aug.normalize", normalizeOp), ("aug.cache", cacheOp), ("aug.swap", swapOp), ("aug.cost", costOp),
   ("aug.inner", innerOp), ("aug.narindex", narIndexOp), ("aug.callseq", callSeqOp), ("aug.select", selectOp), ("aug.concat", concatOp), ("aug.chunks", chunksOp),
   ("aug.loop", loopOp)]

end Rl4co.Driver.Aug
