/-
Driver handlers of the `loglik` family (C11, C13).  The real network is an oracle: a request carries
the per-step log-prob matrices, selections, done flags and masks *recorded from the real code*; the
handlers instantiate the generic models of `Decode/Strategy.lean`, `Decode/Beam.lean` with the
*trace environment* (state = (row, number of passes so far), everything else a table lookup) and
answer with what the model computes downstream of the oracle.  No Mathlib.

Numbers: every float32 the code holds is sent as the integer `v·2^k` for a per-request `k` chosen
by the harness (exact), `x` stands for `-inf`.
-/
import Rl4co.Core.Proto
import Rl4co.Decode.Strategy
import Rl4co.Decode.Beam
import Rl4co.Spec.Loglik
namespace Rl4co.Driver.Loglik
open Rl4co.Proto Rl4co.Decode Rl4co.Spec.Loglik

def lpTok (t : String) : Option LP := if t == "x" then some none else (t.toInt?).map some
def lps (toks : List String) : Option (List LP) := toks.mapM lpTok
def lpStr : LP → String
  | none => "x"
  | some v => toString v
def lpsStr (xs : List LP) : String := ",".intercalate (xs.map lpStr)

/-- `xs[off .. off+len)` -/
def slice {α : Type} (xs : List α) (off len : Nat) : List α := (xs.drop off).take len

/-- split a flat list into consecutive chunks of length `n` (`k` chunks) -/
def chunks {α : Type} (n : Nat) : Nat → List α → List (List α)
  | 0, _ => []
  | k + 1, xs => xs.take n :: chunks n k (xs.drop n)

/-- float32 addition on exact dyadic values with a common scale: the exact sum rounded to 24
significant bits, ties to even (no overflow / subnormal effects for sums of float32 log-probs) -/
def f32add (a b : Int) : Int :=
  let x := a + b
  let m := x.natAbs
  if m < 2 ^ 24 then x
  else
    let sh := (m.log2 + 1) - 24
    let q := m >>> sh
    let rem := m - (q <<< sh)
    let half := 1 <<< (sh - 1)
    let q' := if rem > half || (rem == half && q % 2 == 1) then q + 1 else q
    let r : Int := ((q' <<< sh : Nat) : Int)
    if x < 0 then -r else r

/-- trace environment of a recorded run: state `(row, passes)` -/
def traceEnv (done : Nat → Nat → Bool) (mask : Nat → Nat → Nat → Bool) : DEnv (Nat × Nat) :=
  { step := fun s _ => (s.1, s.2 + 1), done := fun s => done s.1 s.2, mask := fun s a => mask s.1 s.2 a }

def rowsStr (B : Nat) (f : Nat → String) : String := ";".intercalate ((List.range B).map f)

/-- all rows of the batch had a `true` in their mask at every pass the loop made (the model of
"the softmax is never evaluated on an all-false mask row") -/
def passesSafe (B N T : Nat) (mask : Nat → Nat → Nat → Bool) : Bool :=
  (List.range T).all fun t => (List.range B).all fun r => (List.range N).any fun a => mask r t a

/--
`loglik.decode B N T storeAll multistart maxSteps hasMask evalMode |
   start[B] | done[(T+1)·B] (pass-major, first block = after the pre hook) | sel[T·B] |
   lp[T·B·N] | amask[T·B·N] (0/1) | llmask[B·L] (L = T + multistart) | term[T·B·N] | eacts[B·T]`
-/
def decodeH (toks : List String) : Option String := do
  let secs := splitSections toks
  let [hd, startS, doneS, selS, lpS, amS, lmS, termS, eaS] := secs | none
  let [B, N, T, storeAll, multi, maxSteps, hasMask, evalMode] ← nats hd | none
  let storeAll := storeAll != 0
  let multi := multi != 0
  let start ← nats startS
  let doneL ← nats doneS
  let selL ← nats selS
  let lpL ← lps lpS
  let amL ← nats amS
  let lmL ← nats lmS
  let termL ← ints termS
  let eaL ← nats eaS
  let off := if multi then 1 else 0  -- the forced move is an env step that is not a loop pass
  let doneF : Nat → Nat → Bool := fun r t => doneL.getD (t * B + r) 1 != 0
  let lpA := lpL.toArray
  let amA := amL.toArray
  let lpAt : Nat → Nat → Row := fun r t => (List.range N).map fun j => (lpA.getD ((t * B + r) * N + j) none)
  let maskF : Nat → Nat → Nat → Bool := fun r t a => amA.getD ((t * B + r) * N + a) 0 != 0
  -- state = (row, number of env steps taken); tables are indexed by loop pass = steps - off
  let π : Nat × Nat → Row := fun s => lpAt s.1 (s.2 - off)
  let e := traceEnv (fun r n => doneF r (n - off)) (fun r n a => maskF r (n - off) a)
  let L := T + (if multi then 1 else 0)
  let sel : Nat → Nat → Row → Nat :=
    if evalMode != 0 then evalSel (fun r => slice eaL (r * T) T)
    else fun r t _ => selL.getD (t * B + r) 0
  let startO : Option (Nat → Nat) := if multi then some (fun r => start.getD r 0) else none
  let s0 : Nat → Nat × Nat := fun r => (r, 0)
  let (out, steps) := decode e π sel storeAll B N maxSteps startO s0
  let llmask : Nat → Option (List Bool) := fun r =>
    if hasMask != 0 then some ((slice lmL (r * L) L).map (· != 0)) else none
  -- entropy oracle term: value ↦ term, from the parallel table
  let table : List (LP × Int) := List.zip lpL termL
  let term : LP → Int := fun v => match v with
    | none => 0
    | some _ => (table.lookup v).getD 0
  let ent : Nat → String := fun r => match fullRows (out r).recs with
    | none => "x"
    | some rows => toString (calculateEntropy term rows)
  let spec : Nat → LP := fun r => specLL e π (s0 r) multi (out r).acts (llmask r)
  pure (s!"steps={steps} alldone={bit (allDone e B out)} safe={bit (passesSafe B N steps maskF)} "
    ++ s!"acts={rowsStr B fun r => natsStr (out r).acts} "
    ++ s!"vals={rowsStr B fun r => lpsStr (getLL (out r).recs (out r).acts (llmask r))} "
    ++ s!"ll={rowsStr B fun r => lpStr (getLLSum (out r).recs (out r).acts (llmask r))} "
    ++ s!"spec={rowsStr B fun r => lpStr (spec r)} "
    ++ s!"ent={rowsStr B ent}")

/-- `loglik.selectbest B S | rew[B·S] | arg[B]` → rows picked, validity of the argmax, spec maximum -/
def selectBestH (toks : List String) : Option String := do
  let [hd, rewS, argS] ← parseSections toks | none
  let [B, S] := toNats hd | none
  let rew : Nat → Int := fun i => rewS.getD i 0
  let arg : Nat → Nat := fun b => (toNats argS).getD b 0
  let rows := (List.range B).map (selectBestRow B arg)
  let best := (List.range B).map fun b => match bestReward B rew b S with
    | none => "x"
    | some m => toString m
  pure s!"rows={natsStr rows} valid={bit (validArgmax B S rew arg)} got={intsStr (rows.map rew)} best={",".intercalate best}"

/-- `loglik.ratio | llNew[T] | llOld` → `ppoRatio` with `ex = id` (the exponent) -/
def ratioH (toks : List String) : Option String := do
  let [_, newS, oldS] := splitSections toks | none
  let llNew ← lps newS
  let [llOld] ← lps oldS | none
  pure s!"exponent={lpStr (ppoRatio id llNew llOld)}"

structure BeamTrace where
  sel : List (List Nat)
  par : List (List Nat)
  bbi : List (List Nat)
  score : List (List LP)
  valid : List String

/--
`loglik.beam B W N T | start[B·W] | lp[T·(B·W)·N] | top[T·B·W] (pass-major, then instance, then rank)
   | rew[B·W] | arg[B]` (the last two may be empty: no best-selection)
-/
def beamH (toks : List String) : Option String := do
  let [hd, startS, lpS, topS, rewS, argS] := splitSections toks | none
  let [B, W, N, T] ← nats hd | none
  let c : BeamCfg := { B := B, W := W, N := N }
  let start ← nats startS
  let lpA := (← lps lpS).toArray
  let topL ← nats topS
  let rewL ← ints rewS
  let argL ← nats argS
  let BW := B * W
  let e : DEnv Unit := { step := fun _ _ => (), done := fun _ => false, mask := fun _ _ => true }
  let st0 : BeamSt Unit := beamPre e c (fun i => start.getD i 0) (fun _ => ())
  let flat := List.range BW
  let rec go (t : Nat) (fuel : Nat) (st : BeamSt Unit) (tr : BeamTrace) : BeamSt Unit × BeamTrace :=
    match fuel with
    | 0 => (st, tr)
    | fuel + 1 =>
      let lp : Nat → Row := fun i => (List.range N).map fun j => lpA.getD ((t * BW + i) * N + j) none
      let top : Nat → List Nat := fun b => slice topL ((t * B + b) * W) W
      let ok := bits ((List.range B).map fun b => validTop c (hstacked c f32add lp st.score b) (top b))
      let st' := beamStep e c f32add lp top st
      go (t + 1) fuel st'
        { sel := flat.map (selectedOf c top) :: tr.sel, par := flat.map (parentOf c top) :: tr.par,
          bbi := flat.map (bbiOf c top) :: tr.bbi, score := flat.map st'.score :: tr.score,
          valid := ok :: tr.valid }
  let (st, tr) := go 0 T st0 { sel := [], par := [], bbi := [], score := [], valid := [] }
  let seq := fun i => btActs B st.bufs i
  let rows := fun i => btRows B st.bufs i
  let recsOf := fun i => (rows i).map Rec.full
  let join2 (xs : List (List Nat)) : String := ";".intercalate (xs.reverse.map natsStr)
  let bestPart :=
    if rewL.isEmpty then "" else
      let rew : Nat → Int := fun i => rewL.getD i 0
      let arg : Nat → Nat := fun b => argL.getD b 0
      let picked := (List.range B).map (selectBestRow B arg)
      let best := (List.range B).map fun b => match bestReward B rew b W with
        | none => "x"
        | some m => toString m
      s!" picked={natsStr picked} validarg={bit (validArgmax B W rew arg)} got={intsStr (picked.map rew)} best={",".intercalate best}"
  pure (s!"sel={join2 tr.sel} par={join2 tr.par} bbi={join2 tr.bbi} "
    ++ s!"score={";".intercalate (tr.score.reverse.map lpsStr)} validtop={",".intercalate tr.valid.reverse} "
    ++ s!"seq={rowsStr BW fun i => natsStr (seq i)} "
    ++ s!"vals={rowsStr BW fun i => lpsStr (getLL (recsOf i) (seq i) none)} "
    ++ s!"ll={rowsStr BW fun i => lpStr (getLLSum (recsOf i) (seq i) none)}" ++ bestPart)

/-- `loglik.gll T N full hasMask | lp[T] or lp[T·N] | acts[T] | mask[T]`: `get_log_likelihood` on one row -/
def gllH (toks : List String) : Option String := do
  let [hd, lpS, actS, mS] := splitSections toks | none
  let [T, N, full, hasMask] ← nats hd | none
  let lpL ← lps lpS
  let acts ← nats actS
  let m ← nats mS
  let recs : List Rec :=
    if full != 0 then (chunks N T lpL).map Rec.full else lpL.map Rec.g
  let mask : Option (List Bool) := if hasMask != 0 then some (m.map (· != 0)) else none
  pure s!"vals={lpsStr (getLL recs acts mask)} ll={lpStr (getLLSum recs acts mask)}"

/-- `loglik.f32add a b` (self-test of the float32 addition used for beam scores) -/
def f32addH (toks : List String) : Option String := do
  let [a, b] ← ints toks | none
  pure s!"sum={f32add a b}"

def handlers : List (String × (List String → Option String)) :=
  [("loglik.decode", decodeH), ("loglik.selectbest", selectBestH), ("loglik.ratio", ratioH),
   ("loglik.beam", beamH), ("loglik.f32add", f32addH),
   ("loglik.gll", gllH)]

end Rl4co.Driver.Loglik
