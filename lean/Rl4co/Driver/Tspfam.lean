/-
Driver handlers of the equal-length family (TSP, ATSP, PDP, SMTWTP); executable `drv_tspfam`,
ops `tspfam.<env>.<op>`.  No Mathlib.
-/
import Rl4co.Core.Proto
import Rl4co.Env.Tsp
import Rl4co.Env.Atsp
import Rl4co.Env.Pdp
import Rl4co.Env.Smtwtp
import Rl4co.Spec.Tsp
import Rl4co.Spec.Atsp
import Rl4co.Spec.Pdp
import Rl4co.Spec.Smtwtp
namespace Rl4co.Driver.Tspfam
open Rl4co.Proto

/-- `tspfam.tsp.episode n | D n² row-major | actions` -/
def tspEpisode (toks : List String) : Option String := do
  let [hd, dm, acts] ← parseSections toks | none
  let [n] := hd | none
  let n := n.toNat
  let i : Rl4co.Tsp.Inst := { n := n, D := fn2 n dm }
  let as := toNats acts
  let tr := episodeTrace Rl4co.Tsp.env i as
  let s := exec Rl4co.Tsp.env i (Rl4co.Tsp.env.reset i) as
  pure s!"{tr} reward={Rl4co.Tsp.reward i as} check={bit (Rl4co.Tsp.check i as)} feas={bit (Rl4co.Spec.Tsp.feasible n as)} obj={Rl4co.Spec.Tsp.objective i.D as} bound={n} first={s.first} cur={s.cur} i={s.i}"

def tspCheck (toks : List String) : Option String := do
  let [hd, _dm, acts] ← parseSections toks | none
  let [n] := hd | none
  let n := n.toNat
  let i : Rl4co.Tsp.Inst := { n := n, D := fun _ _ => 0 }
  let as := toNats acts
  pure s!"check={bit (Rl4co.Tsp.check i as)} feas={bit (Rl4co.Spec.Tsp.feasible n as)} fix={bit (Rl4co.Tsp.checkWith true i as)}"

/-- state of every row after a batched run through `batchStep` (the code's batch-global first-step
test included): `tspfam.tsp.batch n | acts row 0 | acts row 1 | …` (rows of equal length) -/
def transpose (rows : List (List Nat)) : List (List Nat) :=
  match rows with
  | [] => []
  | r :: _ => (List.range r.length).map (fun t => rows.map (fun row => row.getD t 0))

def tspBatch (toks : List String) : Option String := do
  let (hd :: rows) ← parseSections toks | none
  let [n] := hd | none
  let n := n.toNat
  let i : Rl4co.Tsp.Inst := { n := n, D := fun _ _ => 0 }
  let cols := transpose (rows.map toNats)
  let st0 := rows.map (fun _ => (i, Rl4co.Tsp.reset i))
  let fin := cols.foldl Rl4co.Tsp.batchStep st0
  pure s!"first={natsStr (fin.map (·.2.first))} i={natsStr (fin.map (·.2.i))} done={bits (fin.map (·.2.done))} masks={",".intercalate (fin.map (fun r => maskBits n r.2.avail))}"

/-- `tspfam.atsp.episode n | M n² row-major | actions` -/
def atspEpisode (toks : List String) : Option String := do
  let [hd, dm, acts] ← parseSections toks | none
  let [n] := hd | none
  let n := n.toNat
  let i : Rl4co.Atsp.Inst := { n := n, M := fn2 n dm }
  let as := toNats acts
  let tr := episodeTrace Rl4co.Atsp.env i as
  let s := exec Rl4co.Atsp.env i (Rl4co.Atsp.env.reset i) as
  pure s!"{tr} reward={Rl4co.Atsp.reward i as} check={bit (Rl4co.Atsp.check i as)} feas={bit (Rl4co.Spec.Atsp.feasible n as)} obj={Rl4co.Spec.Atsp.objective i.M as} bound={n} first={s.first} cur={s.cur} i={s.i}"

def atspCheck (toks : List String) : Option String := do
  let [hd, _dm, acts] ← parseSections toks | none
  let [n] := hd | none
  let n := n.toNat
  let i : Rl4co.Atsp.Inst := { n := n, M := fun _ _ => 0 }
  let as := toNats acts
  pure s!"check={bit (Rl4co.Atsp.check i as)} feas={bit (Rl4co.Spec.Atsp.feasible n as)} fix={bit (Rl4co.Atsp.checkWith true i as)}"

def atspBatch (toks : List String) : Option String := do
  let (hd :: rows) ← parseSections toks | none
  let [n] := hd | none
  let n := n.toNat
  let i : Rl4co.Atsp.Inst := { n := n, M := fun _ _ => 0 }
  let cols := transpose (rows.map toNats)
  let st0 := rows.map (fun _ => (i, Rl4co.Atsp.reset i))
  let fin := cols.foldl Rl4co.Atsp.batchStep st0
  pure s!"first={natsStr (fin.map (·.2.first))} i={natsStr (fin.map (·.2.i))} done={bits (fin.map (·.2.done))} masks={",".intercalate (fin.map (fun r => maskBits n r.2.avail))}"

/-- `tspfam.pdp.episode h force | D (2h+1)² row-major | actions` -/
def pdpInst (hd dm : List Int) : Option Rl4co.Pdp.Inst :=
  match hd with
  | [h, f] => some { h := h.toNat, force := f != 0, D := fn2 (2 * h.toNat + 1) dm }
  | _ => none

def pdpFeas (i : Rl4co.Pdp.Inst) (as : List Nat) : Bool :=
  if i.force then Rl4co.Spec.Pdp.feasibleF i.h as else Rl4co.Spec.Pdp.feasible i.h as

/-- feasibility as a closed depot tour (what the checker can at most be asked to enforce) -/
def pdpFeasTour (i : Rl4co.Pdp.Inst) (as : List Nat) : Bool :=
  if i.force then Rl4co.Spec.Pdp.feasibleTour i.h as else Rl4co.Spec.Pdp.feasible i.h as

def pdpEpisode (toks : List String) : Option String := do
  let [hd, dm, acts] ← parseSections toks | none
  let i ← pdpInst hd dm
  let as := toNats acts
  let tr := episodeTrace Rl4co.Pdp.env i as
  let bound := if i.force then i.n + 1 else i.n
  pure s!"{tr} reward={Rl4co.Pdp.reward i as} check={bit (Rl4co.Pdp.check i as)} feas={bit (pdpFeas i as)} feasT={bit (pdpFeasTour i as)} obj={Rl4co.Spec.Pdp.objective i.D as} bound={bound}"

def pdpCheck (toks : List String) : Option String := do
  let [hd, dm, acts] ← parseSections toks | none
  let i ← pdpInst hd dm
  let as := toNats acts
  pure s!"check={bit (Rl4co.Pdp.check i as)} feas={bit (pdpFeas i as)} feasT={bit (pdpFeasTour i as)} fix={bit (Rl4co.Pdp.checkWith true i as)}"

/-- `tspfam.pdp.starts h force B k`: the model of `get_num_starts` / `select_start_nodes` and, per selected
row, whether the reset mask admits that start -/
def pdpStarts (toks : List String) : Option String := do
  let [hd] ← parseSections toks | none
  let [h, f, B, k] := hd | none
  let i : Rl4co.Pdp.Inst := { h := h.toNat, force := f != 0, D := fun _ _ => 0 }
  let sel := Rl4co.Pdp.selectStartNodes i B.toNat k.toNat
  let s0 := Rl4co.Pdp.env.reset i
  pure s!"num={Rl4co.Pdp.numStarts i} starts={natsStr sel} feas={bits (sel.map (fun a => Rl4co.Pdp.env.mask i s0 a))}"

/-- `tspfam.smtwtp.episode n | p[0..n] | d[0..n] | w[0..n] | actions` -/
def smtwtpEpisode (toks : List String) : Option String := do
  let [hd, ps, ds, ws, acts] ← parseSections toks | none
  let [n] := hd | none
  let n := n.toNat
  let i : Rl4co.Smtwtp.Inst := { n := n, p := fn1 ps, d := fn1 ds, w := fn1 ws }
  let as := toNats acts
  let tr := episodeTrace Rl4co.Smtwtp.env i as
  let s := exec Rl4co.Smtwtp.env i (Rl4co.Smtwtp.env.reset i) as
  pure s!"{tr} reward={Rl4co.Smtwtp.reward i as} feas={bit (Rl4co.Spec.Smtwtp.feasible n as)} obj={Rl4co.Spec.Smtwtp.objective i.p i.d i.w as} bound={n} time={s.time} cur={s.cur}"

def handlers : List (String × (List String → Option String)) :=
  [("tspfam.tsp.episode", tspEpisode), ("tspfam.tsp.check", tspCheck), ("tspfam.tsp.batch", tspBatch),
   ("tspfam.atsp.episode", atspEpisode), ("tspfam.atsp.check", atspCheck), ("tspfam.atsp.batch", atspBatch),
   ("tspfam.pdp.episode", pdpEpisode), ("tspfam.pdp.check", pdpCheck), ("tspfam.pdp.starts", pdpStarts),
   ("tspfam.smtwtp.episode", smtwtpEpisode)]

end Rl4co.Driver.Tspfam
