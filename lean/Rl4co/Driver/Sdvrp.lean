import Rl4co.Core.Proto
import Rl4co.Env.Sdvrp
import Rl4co.Spec.Sdvrp
namespace Rl4co.Driver.Sdvrp
open Rl4co.Proto

def sumTo (n : Nat) (f : Nat → Int) : Int := ((List.range n).map (fun k => f (k + 1))).sum

/-- header `n cap`, then `demand[1..n] | D (n+1)² | actions` -/
def parse (toks : List String) : Option (Rl4co.Sdvrp.Inst × List Nat × List (List Int)) := do
  let (hd :: dem :: dm :: acts :: rest) ← parseSections toks | none
  let [n, cap] := hd | none
  let n := n.toNat
  let i : Rl4co.Sdvrp.Inst := { n := n, cap := cap, demand := fn1From1 dem, D := fn2 (n + 1) dm }
  pure (i, toNats acts, rest)

/-- collapse runs of consecutive depot visits -/
def dedupZeros : List Nat → List Nat
  | [] => []
  | [a] => [a]
  | a :: b :: r => if a = 0 ∧ b = 0 then dedupZeros (b :: r) else a :: dedupZeros (b :: r)

/-- `checkz`: verdict with a depot visit appended; `checkd`: verdict with repeated depot visits collapsed
(used to attribute a rejection to exactly one of the known checker rules) -/
def extra (i : Rl4co.Sdvrp.Inst) (as : List Nat) : String :=
  s!"checkz={bit (Rl4co.Sdvrp.check i (as ++ [0]))} checkd={bit (Rl4co.Sdvrp.check i (dedupZeros as))}"

def verdicts (i : Rl4co.Sdvrp.Inst) (as : List Nat) : String :=
  s!"check={bit (Rl4co.Sdvrp.check i as)} feas={bit (Rl4co.Spec.Sdvrp.greedyFeasible i as)} greedy={bit (Rl4co.Spec.Sdvrp.greedyFeasible i as)} canon={bit (Rl4co.Spec.Sdvrp.canonical i as)} {extra i as}"

def bound (i : Rl4co.Sdvrp.Inst) : Int :=
  if i.cap ≤ 0 then 0 else 2 * ((i.n : Int) + (sumTo i.n i.demand) / i.cap) + 1

def episode (toks : List String) : Option String := do
  let (i, as, _) ← parse toks
  let tr := episodeTrace Rl4co.Sdvrp.env i as
  pure s!"{tr} reward={Rl4co.Sdvrp.reward i as} {verdicts i as} obj={Rl4co.Spec.Sdvrp.objective i as} bound={bound i}"

def check (toks : List String) : Option String := do
  let (i, as, _) ← parse toks
  pure (verdicts i as)

/-- `sdvrp.witness … | actions | amounts`: is the explicitly supplied split valid (Spec)?  Also the
checker model's verdict on the action list. -/
def witness (toks : List String) : Option String := do
  let (i, as, rest) ← parse toks
  let [qs] := rest | none
  let ok := decide (qs.length = as.length) && Rl4co.Spec.Sdvrp.validSplit i (as.zip qs)
  pure s!"check={bit (Rl4co.Sdvrp.check i as)} feas={bit ok} greedy={bit (Rl4co.Spec.Sdvrp.greedyFeasible i as)} {extra i as}"

def handlers : List (String × (List String → Option String)) :=
  [("sdvrp.episode", episode), ("sdvrp.check", check), ("sdvrp.witness", witness)]

end Rl4co.Driver.Sdvrp
