/-
Model of start-node selection and best-of-k selection.  No Mathlib.

Mirrors
* `rl4co/utils/ops.py:get_num_starts`, `select_start_nodes` (generic function incl. OP's resampling
  branch, as a relation over the sampler's outcome), and the overrides
  `PDPEnv.get_num_starts/select_start_nodes`, `MTVRPEnv.select_start_nodes`,
  `FLPEnv/MCPEnv.get_num_starts/select_start_nodes`;
* `rl4co/utils/decoding.py:DecodingStrategy._select_best`
  (`unbatchify(rewards, k).max(-1)` then `unbatchify_and_gather` of actions / log-probs / td);
* `rl4co/utils/ops.py:get_best_actions` (modelled as written, see `Props/C12/Select.lean`).
-/
import Rl4co.Train.Batchify
namespace Rl4co.Ops

variable {α : Type}

/-! ### number of starts -/

/-- env names for which `get_num_starts` subtracts the depot -/
def depotList : List String := Params.opsNumStartsDepotEnvs

/-- `utils/ops.py:get_num_starts(td, env_name)`; `nAct = td["action_mask"].shape[-1]` -/
def getNumStarts (env : String) (nAct : Nat) : Nat :=
  if env == "pdp" then (nAct - 1) / 2
  else if depotList.contains env then nAct - 1
  else nAct

/-- the method `env.get_num_starts(td)` of the env classes that override it
(`nLocs = td["locs"].shape[-2]`); every other env calls the generic function. -/
def envGetNumStarts (env : String) (nAct nLocs : Nat) : Nat :=
  if env == "pdp" then (nLocs - 1) / 2
  else if env == "flp" || env == "mcp" then nAct
  else getNumStarts env nAct

/-! ### forced start nodes -/

/-- `(torch.arange(k).repeat_interleave(B) % m) + lo` : row `r` is copy `r / B`. -/
def startsOf (B k lo m : Nat) : List Nat := (List.range (k * B)).map (fun r => (r / B) % m + lo)

/-- The generic function *as written* (token by token, every token regenerated from the source):
no-depot branch `arange(k).<expand>(B) % num_loc`, depot branch `arange(a0, …).<expand>(B) % (num_loc + dm) + c`,
`<expand>` = `repeat_interleave` (row `r` ↦ `r / B`) or `repeat` (row `r` ↦ `r mod k`).
`Props/C12/Select.lean:genericStartsCode_eq` proves it equal to `startsOf` for the extracted tokens. -/
def genericStartsCode (depot : Bool) (B k g : Nat) : List Nat :=
  (List.range (k * B)).map (fun r =>
    if depot then
      ((if Params.opsDepotInterleave then r / B else r % k) + Params.opsDepotArangeStart)
        % (g + Params.opsDepotModAdd) + Params.opsDepotPlus
    else (if Params.opsNoDepotInterleave then r / B else r % k) % g)

/-- `(lo, m)` of the *generic* `select_start_nodes(td, env, k)`; `genNumLoc = env.generator.num_loc`
(or `0xFFFFFFFF` when the generator has none). -/
def genericRule (env : String) (genNumLoc : Nat) : Nat × Nat :=
  if Params.opsNoDepotStartEnvs.contains env then (0, genNumLoc) else (1, genNumLoc)

/-- `(lo, m)` of the method `env.select_start_nodes(td, k)` (overrides first). -/
def envRule (env : String) (genNumLoc nAct nLocs : Nat) : Nat × Nat :=
  if env == "pdp" then (1, (nLocs - 1) / 2)
  else if env == "mtvrp" then (1, nLocs - 1)
  else if env == "flp" || env == "mcp" then (0, nAct)
  else genericRule env genNumLoc

/-- number of customers `1..n` with `mask j = true`
(`td["action_mask"][..., 1:].float().sum(-1)`) -/
def feasCount (n : Nat) (mask : Nat → Bool) : Nat :=
  ((List.range n).filter (fun j => mask (j + 1))).length

/-! OP (`env.name == "op"`, after upstream fix d560d2a): per instance the feasible customers in ascending
order, cycling over them when there are fewer than `k`:
```
feasible = td["action_mask"][..., 1:]
order = torch.argsort((~feasible).int(), dim=-1, stable=True)      # feasible nodes first
num_feasible = feasible.sum(-1, keepdim=True).clamp(min=1)
pick = torch.arange(num_starts)[None] % num_feasible
selected = rearrange(order.gather(-1, pick) + 1, "b n -> (n b)")
```
`n` = number of customers = mask width − 1 (the generator's `num_loc` no longer enters). -/

/-- 0-based feasible customers in ascending order -/
def opFeas (n : Nat) (mask : Nat → Bool) : List Nat := (List.range n).filter (fun j => mask (j + 1))
/-- 0-based infeasible customers in ascending order -/
def opInfeas (n : Nat) (mask : Nat → Bool) : List Nat := (List.range n).filter (fun j => !mask (j + 1))
/-- stable `argsort` of the 0/1 key `~feasible` (`Params.opsOpArgsortStable` is regenerated from the
source; without `stable=True` the order among equal keys is unspecified — modelled as "nothing known") -/
def opOrder (n : Nat) (mask : Nat → Bool) : List Nat :=
  if Params.opsOpArgsortStable then opFeas n mask ++ opInfeas n mask else []

/-- forced start of copy `j` of an instance with reset mask `mask`
(`Params.opsOpClampMin` is the regenerated constant of `.clamp(min=1)`) -/
def opPick (n : Nat) (mask : Nat → Bool) (j : Nat) : Nat :=
  -- `num_feasible` is the instance's own count (`Params.opsOpCountPerInstance`); a count reduced over the
  -- batch is outside this per-instance model: nothing known
  if Params.opsOpCountPerInstance then
    (opOrder n mask).getD (j % max Params.opsOpClampMin (feasCount n mask)) 0 + 1
  else 0

/-- the `k` forced starts of one instance -/
def opInstStarts (n k : Nat) (mask : Nat → Bool) : List Nat := (List.range k).map (opPick n mask)

/-- `select_start_nodes(td, env, k)` for OP on a batch with reset masks `masks` (`k`-major rows) -/
def opStarts (n k : Nat) (masks : List (Nat → Bool)) : List Nat :=
  -- `rearrange(selected, "b n -> (n b)")`: row `r` is copy `r / B` of instance `r % B`
  -- (`Params.opsOpReplicaMajor`; a plain `(b n)` flatten would make it copy `r % k` of instance `r / k`)
  (List.range (k * masks.length)).map (fun r =>
    if Params.opsOpReplicaMajor then opPick n (masks.getD (r % masks.length) (fun _ => false)) (r / masks.length)
    else opPick n (masks.getD (r / k) (fun _ => false)) (r % k))

/-- starts of instance `b` in a `k`-major list of `k·B` starts -/
def instStarts (B k b : Nat) (sel : List Nat) : List Nat :=
  (List.range k).map (fun j => sel.getD (j * B + b) 0)

/-- `nodup` on `Nat` lists (executable) -/
def nodupB : List Nat → Bool
  | [] => true
  | x :: xs => !(xs.contains x) && nodupB xs

/-- `utils/ops.py:sample_n_random_actions(td, n)` (FJSP/JSSP `select_start_nodes`, `SamplingEval`):
`replace = (action_mask[:, 1:].sum(1).min() < n)` is batch-global; the draw is
`torch.multinomial(softmax(rand masked to -inf), n, replacement=replace)` rearranged `"b n -> (n b)"`.
Known about the outcome: every entry is a feasible action (`< w`) of its instance; without replacement
the `n` entries of an instance are pairwise distinct. -/
def sampleNReplace (w n : Nat) (masks : List (Nat → Bool)) : Bool :=
  masks.any (fun m => Params.opsSampleNReplaceCmp.evalNat (feasCount (w - 1) m) n)

/-- the `n` draws of instance `b` in the returned vector: `rearrange(selected, "b n -> (n b)")` puts them at
rows `j·B + b` (`Params.opsSampleNReplicaMajor`); a row-major flatten would put them at `b·n + j` -/
def sampleNRows (B n b : Nat) (sel : List Nat) : List Nat :=
  if Params.opsSampleNReplicaMajor then instStarts B n b sel else (List.range n).map (fun j => sel.getD (b * n + j) 0)

def sampleNOk (w n : Nat) (masks : List (Nat → Bool)) (sel : List Nat) : Bool :=
  sel.length == n * masks.length &&
  (List.range masks.length).all (fun b =>
    (sampleNRows masks.length n b sel).all (fun s => decide (s < w) && (masks.getD b (fun _ => false)) s)) &&
  (sampleNReplace w n masks ||
    (List.range masks.length).all (fun b => nodupB (sampleNRows masks.length n b sel)))

/-- `FJSPEnv.select_start_nodes` (inherited by `JSSPEnv`): delegates to `sample_n_random_actions(td, num_starts)`
(`Params.fjspStartsDelegate`); a direct `torch.multinomial(mask, k, replacement=True)` is only known to return
feasible actions, never distinct ones -/
def fjspStartsOk (w n : Nat) (masks : List (Nat → Bool)) (sel : List Nat) : Bool :=
  if Params.fjspStartsDelegate then sampleNOk w n masks sel
  else sel.length == n * masks.length &&
    (List.range masks.length).all (fun b =>
      (instStarts masks.length n b sel).all (fun s => decide (s < w) && (masks.getD b (fun _ => false)) s))

/-- `(lo, m)` of the forced starts a decoding hook produces: `DecodingStrategy.pre_decoder_hook` (multistart) and
`BeamSearch.pre_decoder_hook` call the ENV METHOD `env.select_start_nodes(td, num_starts=…)` (so the overrides
of PDP / MTVRP / FLP / MCP apply); calling the generic helper instead would bypass them -/
def hookRule (beam : Bool) (env : String) (genNumLoc nAct nLocs : Nat) : Nat × Nat :=
  if (if beam then Params.decBeamEnvSelect else Params.decMultistartEnvSelect) then envRule env genNumLoc nAct nLocs
  else genericRule env genNumLoc

/-! ### best-of-k selection -/

/-- index of the first maximum of `f 0 … f (k-1)` -/
def argmaxFirst (f : Nat → Int) : Nat → Nat
  | 0 => 0
  | k + 1 => let m := argmaxFirst f k; if f m < f k then k else m

/-- index of the last maximum (the other tie-breaking a `max` kernel may exhibit) -/
def argmaxLast (f : Nat → Int) : Nat → Nat
  | 0 => 0
  | k + 1 => let m := argmaxLast f k; if f m ≤ f k then k else m

/-- `_, max_idxs = unbatchify(rewards, k).max(dim=-1)` with tie-breaking `am` -/
def bestIdx (am : (Nat → Int) → Nat → Nat) (rew : Tens Int) (k : Nat) (b : Nat) : Nat :=
  am (fun j => (unbatchify rew [k]).get [b, j]) k

/-- `_select_best` applied to one of `actions`, `logprobs`, `td` (or to the rewards themselves) -/
def selectBest (am : (Nat → Int) → Nat → Nat) (rew : Tens Int) {α : Type} (x : Tens α) (k : Nat) :
    Tens α :=
  unbatchifyAndGather x (bestIdx am rew k) k

/-- `gather_by_index(src, idx)` with the default `dim=1`, as SymNCO's validation branch calls it on
`src = unbatchify(actions, (n_start, n_aug)) : [B, S, A, …]` with `idx = max_idxs : [B, A]`:
`idx.view(B, A, 1, …).expand(B, -1, A, …)`, `src.gather(1, idx)` has shape `[B, A, A, …]` with entry
`[b][x][y] = src[b][idx b x][y]`; the gathered dimension is squeezed only when it has size 1. -/
def gatherDefaultDim (src : Tens α) (idx : Nat → Nat → Nat) : Tens α :=
  match src.shape with
  | b :: _ :: a :: rest =>
    if a = 1 then
      { shape := b :: a :: rest
        get := fun i => match i with
          | r :: y :: t => src.get (r :: idx r 0 :: y :: t)
          | _ => src.get [] }
    else
      { shape := b :: a :: a :: rest
        get := fun i => match i with
          | r :: x :: y :: t => src.get (r :: idx r x :: y :: t)
          | _ => src.get [] }
  | _ => src

end Rl4co.Ops
