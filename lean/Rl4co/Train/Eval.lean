/-
Model of rl4co/tasks/eval.py (evaluators) and of the greedy decoding loop of
rl4co/models/common/constructive/base.py — no Mathlib.

Policies are oracles: an evaluator's model receives the candidate action rows the policy returned
(`acts`, one row per replicated batch row, in the code's layout) and a reward function
`rew : I → List Nat → Int` (the env's `get_reward` on ONE instance, ticks); it mirrors what the evaluator
does with them: `batchify` of the original instances, `unbatchify` of rewards / actions, `max(dim=1)`,
`gather_by_index`, and `EvalBase.__call__`'s padding + concatenation across loader batches.

Layout (utils/ops.py): `batchify(x, K)` puts copy `k` of row `b` at flat row `k * B + b`;
`unbatchify(y, K)[b][k] = y[k * B + b]`.
-/
namespace Rl4co.Eval

variable {β : Type}

/-- `batchify(x, K)` on a list of rows. -/
def tile (K : Nat) (rows : List β) : List β := (List.replicate K rows).flatten

/-- `unbatchify(x, K)`: `view(K, len / K).permute(1, 0)`, i.e. `out[b][k] = x[k * (len / K) + b]`. -/
def unbatch [Inhabited β] (K : Nat) (xs : List β) : List (List β) :=
  (List.range (xs.length / K)).map fun b => (List.range K).map fun k => xs.getD (k * (xs.length / K) + b) default

/-- index of the first maximal entry (what `torch.max(dim)` returns); `0` on the empty list. -/
def argmaxFrom (best : Int) (bi i : Nat) : List Int → Nat
  | [] => bi
  | x :: xs => if x > best then argmaxFrom x i (i + 1) xs else argmaxFrom best bi (i + 1) xs

def argmax : List Int → Nat
  | [] => 0
  | x :: xs => argmaxFrom x 0 1 xs

/-- `rewards, max_idxs = rewards.max(dim=1); actions = gather_by_index(actions, max_idxs, dim=1)` after
`unbatchify(·, K)` of both. -/
def selectBest (K : Nat) (rs : List Int) (acts : List (List Nat)) : List (Int × List Nat) :=
  List.zipWith (fun r a => (r.getD (argmax r) 0, a.getD (argmax r) [])) (unbatch K rs) (unbatch K acts)

variable {I : Type}

/-- `env.get_reward(batchify(td_init, K), actions)` -/
def rewardsOn (rew : I → List Nat → Int) (K : Nat) (insts : List I) (acts : List (List Nat)) : List Int :=
  List.zipWith rew (tile K insts) acts

/-- `GreedyEval._inner` -/
def greedyInner (rew : I → List Nat → Int) (insts : List I) (acts : List (List Nat)) : List (Int × List Nat) :=
  List.zipWith (fun i a => (rew i a, a)) insts acts

/-- `AugmentationEval._inner` (K = num_augment) and `GreedyMultiStartEval._inner` (K = num_starts): rewards
of all `K * B` candidate rows on the tiled ORIGINAL instances, regrouped per instance, best kept. -/
def bestOfInner (rew : I → List Nat → Int) (K : Nat) (insts : List I) (acts : List (List Nat)) : List (Int × List Nat) :=
  selectBest K (rewardsOn rew K insts acts) acts

/-- `GreedyMultiStartAugmentEval._inner`: `batchify(td_init, (A, S))` = tile by `S`, then by `A`;
`unbatchify(·, S * A)`. -/
def msAugInner (rew : I → List Nat → Int) (A S : Nat) (insts : List I) (acts : List (List Nat)) : List (Int × List Nat) :=
  selectBest (S * A) (List.zipWith rew (tile A (tile S insts)) acts) acts

/-- `SamplingEval._inner`: the policy's own `_select_best` (same unbatchify / max / gather idiom on the
rewards of the `S` samples), after which `out["reward"]` is recomputed by `env.get_reward` on the
selected rows. -/
def samplingInner (rew : I → List Nat → Int) (S : Nat) (insts : List I) (acts : List (List Nat)) : List (Int × List Nat) :=
  List.zipWith (fun i (ra : Int × List Nat) => (rew i ra.2, ra.2)) insts (bestOfInner rew S insts acts)

/-! ### `EvalBase.__call__`: padding and concatenation across loader batches -/

/-- `action.size(-1)` of a (rectangular) batch of action rows -/
def rowLen (batch : List (List Nat)) : Nat := (batch.headD []).length

/-- `max(action.size(-1) for action in actions_list)` -/
def maxLen (bs : List (List (List Nat))) : Nat := (bs.map rowLen).foldl max 0

/-- `torch.nn.functional.pad(action, (0, L - action.size(-1)))` on one batch -/
def padBatch (L : Nat) (batch : List (List Nat)) : List (List Nat) :=
  batch.map fun row => row ++ List.replicate (L - rowLen batch) 0

/-- `torch.cat([pad(action) for action in actions_list], 0)` -/
def concatActions (bs : List (List (List Nat))) : List (List Nat) :=
  bs.flatMap (padBatch (maxLen bs))

/-- `torch.cat(rewards_list)` -/
def concatRewards (rs : List (List Int)) : List Int := rs.flatten

/-- sequential `DataLoader(batch_size = n, shuffle=False)`: consecutive chunks, last one possibly short -/
def chunksAux (n : Nat) : Nat → List β → List (List β)
  | 0, _ => []
  | _, [] => []
  | f + 1, x :: xs => (x :: xs).take n :: chunksAux n f ((x :: xs).drop n)

def chunks (n : Nat) (xs : List β) : List (List β) := chunksAux n xs.length xs

/-- `EvalBase.__call__` with a per-batch `_inner` (policy call included) `f`. -/
def evalCall (f : List I → List (Int × List Nat)) (n : Nat) (ds : List I) : List Int × List (List Nat) :=
  let outs := (chunks n ds).map f
  (concatRewards (outs.map (·.map (·.1))), concatActions (outs.map (·.map (·.2))))

/-! ### greedy decoding loop of `ConstructivePolicy.forward` (decode_type = "greedy", num_starts = 0) -/

/-- the part of an environment the loop uses -/
structure StepEnv (I S : Type) where
  reset : I → S
  step  : I → S → Nat → S
  done  : I → S → Bool

variable {S : Type}

/-- `td = env.step(td)["next"]` on every row, with the actions the decoding strategy selected -/
def stepRows (e : StepEnv I S) (rows : List (I × S)) (as : List Nat) : List (I × S) :=
  List.zipWith (fun (r : I × S) a => (r.1, e.step r.1 r.2 a)) rows as

/-- `while not td["done"].all(): logits, mask = decoder(td, hidden); td = strategy.step(…); td = env.step(td)`
— `πB` is the whole batched network + masking + argmax: it sees ALL rows and returns one action per row.
Returns the list of per-step action vectors (`self.actions`) and the final rows. `fuel` = `max_steps`. -/
def batchLoop (e : StepEnv I S) (πB : List (I × S) → List Nat) : Nat → List (I × S) → List (List Nat) × List (I × S)
  | 0, rows => ([], rows)
  | fuel + 1, rows =>
    if rows.all (fun r => e.done r.1 r.2) then ([], rows)
    else
      let as := πB rows
      let out := batchLoop e πB fuel (stepRows e rows as)
      (as :: out.1, out.2)

/-- `torch.stack(self.actions, 1)[b]` -/
def rowActions (steps : List (List Nat)) (b : Nat) : List Nat := steps.map (·.getD b 0)

/-- greedy decoding of a batch: actions per row and final states -/
def decodeBatch (e : StepEnv I S) (πB : List (I × S) → List Nat) (fuel : Nat) (insts : List I) :
    List (List Nat) × List (I × S) :=
  batchLoop e πB fuel (insts.map fun i => (i, e.reset i))

/-- `T` unconditional steps of one row under a per-row policy -/
def runN (e : StepEnv I S) (π1 : I × S → Nat) : Nat → I × S → List Nat × (I × S)
  | 0, r => ([], r)
  | n + 1, r =>
    let a := π1 r
    let out := runN e π1 n (r.1, e.step r.1 r.2 a)
    (a :: out.1, out.2)

/-- the network does not mix rows: embeddings, attention and normalisation act per row in eval mode.
CHECKED ON SAMPLES (harness/units/aug.py), NOT PROVED. -/
def RowWise (πB : List (I × S) → List Nat) (π1 : I × S → Nat) : Prop := ∀ rows, πB rows = rows.map π1

/-- AM decoder, multi-start with static embeddings: logits are computed on the `[B, S]` view
(`unbatchify(td, S)`) and flattened back with `rearrange "b s l -> (s b) l"`. -/
def regroupSB [Inhabited β] (S : Nat) (xss : List (List β)) : List β :=
  (List.range S).flatMap fun s => xss.map fun row => row.getD s default

end Rl4co.Eval
