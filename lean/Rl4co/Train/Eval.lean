/-
Model of rl4co/tasks/eval.py (evaluators) and of the greedy decoding loop of
rl4co/models/common/constructive/base.py — no Mathlib.

Policies are oracles: an evaluator's model receives the candidate action rows the policy returned
(`acts`, one row per replicated batch row, in the code's layout) and a reward function
`rew : I → List Nat → Int` (the env's `get_reward` on ONE instance, ticks); it mirrors what the evaluator
does with them: `batchify` of the original instances, `unbatchify` of rewards / actions, `max(dim=1)`,
`gather_by_index`, and `EvalBase.__call__`'s padding + concatenation across loader batches.

Layout (utils/ops.py): `batchify(x, K)` puts copy `k` of row `b` at flat row `k * B + b`;
`unbatchify(y, K)[b][k] = y[k * B + b]`.
-/
import Rl4co.Generated.Params
import Rl4co.Train.Batchify
namespace Rl4co.Eval

variable {β : Type}

/-- `batchify(x, K)` on a list of rows. -/
def tile (K : Nat) (rows : List β) : List β := (List.replicate K rows).flatten

/-- `unbatchify(x, K)`: `view(K, len / K).permute(1, 0)`, i.e. `out[b][k] = x[k * (len / K) + b]`. -/
def unbatch [Inhabited β] (K : Nat) (xs : List β) : List (List β) :=
  (List.range (xs.length / K)).map fun b => (List.range K).map fun k => xs.getD (k * (xs.length / K) + b) default

/-- index of the first maximal entry (what `torch.max(dim)` returns); `0` on the empty list. -/
def argmaxFrom (best : Int) (bi i : Nat) : List Int → Nat
  | [] => bi
  | x :: xs => if x > best then argmaxFrom x i (i + 1) xs else argmaxFrom best bi (i + 1) xs

def argmax : List Int → Nat
  | [] => 0
  | x :: xs => argmaxFrom x 0 1 xs

/-- `rewards, max_idxs = rewards.max(dim=1); actions = gather_by_index(actions, max_idxs, dim=1)` after
`unbatchify(·, K)` of both. -/
def selectBest (K : Nat) (rs : List Int) (acts : List (List Nat)) : List (Int × List Nat) :=
  List.zipWith (fun r a => (r.getD (argmax r) 0, a.getD (argmax r) [])) (unbatch K rs) (unbatch K acts)

variable {I : Type}

/-- `env.get_reward(batchify(td_init, K), actions)` -/
def rewardsOn (rew : I → List Nat → Int) (K : Nat) (insts : List I) (acts : List (List Nat)) : List Int :=
  List.zipWith rew (tile K insts) acts

/-- `GreedyEval._inner` -/
def greedyInner (rew : I → List Nat → Int) (insts : List I) (acts : List (List Nat)) : List (Int × List Nat) :=
  List.zipWith (fun i a => (rew i a, a)) insts acts

/-- `AugmentationEval._inner` (K = num_augment) and `GreedyMultiStartEval._inner` (K = num_starts): rewards
of all `K * B` candidate rows on the tiled ORIGINAL instances, regrouped per instance, best kept. -/
def bestOfInner (rew : I → List Nat → Int) (K : Nat) (insts : List I) (acts : List (List Nat)) : List (Int × List Nat) :=
  selectBest K (rewardsOn rew K insts acts) acts

/-- `GreedyMultiStartAugmentEval._inner`: `batchify(td_init, (A, S))` = tile by `S`, then by `A`;
`unbatchify(·, S * A)`. -/
def msAugInner (rew : I → List Nat → Int) (A S : Nat) (insts : List I) (acts : List (List Nat)) : List (Int × List Nat) :=
  selectBest (S * A) (List.zipWith rew (tile A (tile S insts)) acts) acts

/-- `max_idxs` of `unbatchify(rewards, K).max(dim=-1)`: per instance the index of its best candidate -/
def bestIdx (K : Nat) (rs : List Int) : List Nat := (unbatch K rs).map argmax

/-- `td = unbatchify_and_gather(td, max_idxs, num_starts)` in `DecodingStrategy._select_best`: the state row that goes
with the selected rollout of instance `b` is row `max_idxs[b] * B + b` of the start-major replicated batch.
(`gathers = false` models the alternative `td[:: num_starts]`, a strided slice; which one the source uses is extracted:
`Params.augSelectBestGathersTd`.) -/
def selectTd [Inhabited I] (gathers : Bool) (S : Nat) (tiled : List I) (idx : List Nat) : List I :=
  let B := tiled.length / S
  (List.range B).map fun b => if gathers then tiled.getD (idx.getD b 0 * B + b) default else tiled.getD (b * S) default

/-- `SamplingEval._inner`: the policy batchifies the state (`S` samples, start-major), decodes, and `_select_best`
picks per instance the best rollout: actions AND state rows are gathered with `max_idxs`; `out["reward"]` is then
recomputed by `env.get_reward(td_selected, actions_selected)`. -/
def samplingInner [Inhabited I] (rew : I → List Nat → Int) (S : Nat) (insts : List I) (acts : List (List Nat)) :
    List (Int × List Nat) :=
  let rs := rewardsOn rew S insts acts
  let idx := bestIdx S rs
  let actSel := List.zipWith (fun (a : List (List Nat)) j => a.getD j []) (unbatch S acts) idx
  let tdSel := selectTd Params.augSelectBestGathersTd S (tile S insts) idx
  List.zipWith (fun i a => (rew i a, a)) tdSel actSel

/-! ### `EvalBase.__call__`: padding and concatenation across loader batches -/

/-- `action.size(-1)` of a (rectangular) batch of action rows -/
def rowLen (batch : List (List Nat)) : Nat := (batch.headD []).length

/-- `max(action.size(-1) for action in actions_list)` -/
def maxLen (bs : List (List (List Nat))) : Nat := (bs.map rowLen).foldl max 0

/-- `torch.nn.functional.pad(action, (0, L - action.size(-1)))` on one batch -/
def padBatch (L : Nat) (batch : List (List Nat)) : List (List Nat) :=
  batch.map fun row => row ++ List.replicate (L - rowLen batch) 0

/-- `torch.cat([pad(action) for action in actions_list], 0)` -/
def concatActions (bs : List (List (List Nat))) : List (List Nat) :=
  bs.flatMap (padBatch (maxLen bs))

/-- `torch.cat(rewards_list)` -/
def concatRewards (rs : List (List Int)) : List Int := rs.flatten

/-- sequential `DataLoader(batch_size = n, shuffle=False)`: consecutive chunks, last one possibly short -/
def chunksAux (n : Nat) : Nat → List β → List (List β)
  | 0, _ => []
  | _, [] => []
  | f + 1, x :: xs => (x :: xs).take n :: chunksAux n f ((x :: xs).drop n)

def chunks (n : Nat) (xs : List β) : List (List β) := chunksAux n xs.length xs

/-- `EvalBase.__call__` with a per-batch `_inner` (policy call included) `f`. -/
def evalCall (f : List I → List (Int × List Nat)) (n : Nat) (ds : List I) : List Int × List (List Nat) :=
  let outs := (chunks n ds).map f
  (concatRewards (outs.map (·.map (·.1))), concatActions (outs.map (·.map (·.2))))

/-! ### greedy decoding loop of `ConstructivePolicy.forward` (decode_type = "greedy", num_starts = 0) -/

/-- the part of an environment the loop uses -/
structure StepEnv (I S : Type) where
  reset : I → S
  step  : I → S → Nat → S
  done  : I → S → Bool

variable {S : Type}

/-- `td = env.step(td)["next"]` on every row, with the actions the decoding strategy selected -/
def stepRows (e : StepEnv I S) (rows : List (I × S)) (as : List Nat) : List (I × S) :=
  List.zipWith (fun (r : I × S) a => (r.1, e.step r.1 r.2 a)) rows as

/-- `while not td["done"].all(): logits, mask = decoder(td, hidden); td = strategy.step(…); td = env.step(td)`
— `πB` is the whole batched network + masking + argmax: it sees ALL rows and returns one action per row.
Returns the list of per-step action vectors (`self.actions`) and the final rows. `fuel` = `max_steps`. -/
def batchLoop (e : StepEnv I S) (πB : List (I × S) → List Nat) : Nat → List (I × S) → List (List Nat) × List (I × S)
  | 0, rows => ([], rows)
  | fuel + 1, rows =>
    if rows.all (fun r => e.done r.1 r.2) then ([], rows)
    else
      let as := πB rows
      let out := batchLoop e πB fuel (stepRows e rows as)
      (as :: out.1, out.2)

/-- `torch.stack(self.actions, 1)[b]` -/
def rowActions (steps : List (List Nat)) (b : Nat) : List Nat := steps.map (·.getD b 0)

/-- greedy decoding of a batch: actions per row and final states -/
def decodeBatch (e : StepEnv I S) (πB : List (I × S) → List Nat) (fuel : Nat) (insts : List I) :
    List (List Nat) × List (I × S) :=
  batchLoop e πB fuel (insts.map fun i => (i, e.reset i))

/-- `T` unconditional steps of one row under a per-row policy -/
def runN (e : StepEnv I S) (π1 : I × S → Nat) : Nat → I × S → List Nat × (I × S)
  | 0, r => ([], r)
  | n + 1, r =>
    let a := π1 r
    let out := runN e π1 n (r.1, e.step r.1 r.2 a)
    (a :: out.1, out.2)

/-- the network does not mix rows: embeddings, attention and normalisation act per row in eval mode.
CHECKED ON SAMPLES (harness/units/aug.py), NOT PROVED. -/
def RowWise (πB : List (I × S) → List Nat) (π1 : I × S → Nat) : Prop := ∀ rows, πB rows = rows.map π1

/-- AM decoder, multi-start with static embeddings: logits are computed on the `[B, S]` view
(`unbatchify(td, S)`) and flattened back with `rearrange "b s l -> (s b) l"`. -/
def regroupSB [Inhabited β] (S : Nat) (xss : List (List β)) : List β :=
  (List.range S).flatMap fun s => xss.map fun row => row.getD s default


/-! ### row-locality of batched network layers (index algebra of the attention-model forward pass)

A batched layer maps a batch (its size `B` and its rows `x : Nat → X`, row `b < B`) to output rows.  `RowLocal F`: the
output row depends on the content of the SAME input row only — not on `B`, not on the position `b`, not on the other
rows.  The bundled AM forward pass is a composition of the layer kinds below; the kinds that are NOT row-local are
listed with them (Props/C14/AugRowWise.lean proves both halves). -/

abbrev Layer (X Y : Type) := Nat → (Nat → X) → (Nat → Y)

def RowLocal {X Y : Type} (F : Layer X Y) : Prop :=
  ∀ B B' x x' b b', b < B → b' < B' → x b = x' b' → F B x b = F B' x' b'

/-- a layer given by a per-row function -/
def perRow {X Y : Type} (φ : X → Y) : Layer X Y := fun _ x b => φ (x b)
/-- sequential composition `G ∘ F` -/
def compL {X Y Z : Type} (G : Layer Y Z) (F : Layer X Y) : Layer X Z := fun B x => G B (F B x)
/-- two branches on the same input combined entry-wise (residual connections, `q = context + graph_context`, …) -/
def zipL {X Y Y' Z : Type} (op : Y → Y' → Z) (F : Layer X Y) (G : Layer X Y') : Layer X Z :=
  fun B x b => op (F B x b) (G B x b)

/-- one instance's activations: `row n d`, node `n`, feature `d` -/
abbrev Row (α : Type) := Nat → Nat → α

section kinds
open Lean.Grind (CommRing)
variable {α : Type} [CommRing α]

def sumRange (n : Nat) (f : Nat → α) : α := (List.range n).foldl (fun acc k => acc + f k) 0

/-- `nn.Linear` on the feature dimension: `out[b,n,e] = Σ_d W[e,d]·x[b,n,d] + bias[e]` -/
def linearRow (D : Nat) (W : Nat → Nat → α) (bias : Nat → α) (row : Row α) : Row α :=
  fun n e => sumRange D (fun d => W e d * row n d) + bias e

/-- per-instance (self-)attention: scores, normaliser `w` (softmax, uninterpreted) and the weighted sum all range over
the nodes `m < N` of the SAME row: `out[b,n] = Σ_m w(⟨x[b,n], x[b,·]⟩)_m · x[b,m]` -/
def attnRow (N D : Nat) (w : (Nat → α) → Nat → α) (row : Row α) : Row α :=
  fun n e => sumRange N (fun m => w (fun m' => sumRange D (fun d => row n d * row m' d)) m * row m e)

/-- `nn.InstanceNorm1d` (after `permute(0,2,1)`): statistics of one channel over the nodes of ONE row -/
def instNormRow (stat : (Nat → α) → α × α) (row : Row α) : Row α :=
  fun n d => (row n d - (stat (fun n' => row n' d)).1) * (stat (fun n' => row n' d)).2

/-- the code's `"layer"` branch: `x.mean((1, 2))`, `x.var((1, 2))` — statistics over nodes and features of ONE row -/
def layerNormRow (stat : Row α → α × α) (row : Row α) : Row α :=
  fun n d => (row n d - (stat row).1) * (stat row).2

/-- `nn.BatchNorm1d` in EVAL mode: running mean / scale are constants of the module -/
def batchNormEvalRow (μ ρ : Nat → α) (row : Row α) : Row α := fun n d => (row n d - μ d) * ρ d

/-- graph context `embeddings.mean(1)` (sum over the row's own nodes; the `1/N` is a constant) -/
def meanPoolRow (N : Nat) (row : Row α) : Row α := fun _ d => sumRange N (fun n => row n d)

/-- context embedding `gather_by_index(embeddings, td["current_node"])`: the index comes from the same row's state -/
def gatherRow (cur : Nat) (row : Row α) : Row α := fun _ d => row cur d

/-! the kinds that mix rows -/

/-- `nn.BatchNorm1d` with BATCH statistics (train mode, or `track_running_stats=False`): centering by the mean over all
rows and nodes (`(B·N)·x − Σ_{b',n'} x`, the division-free form) -/
def batchNormTrain (N : Nat) : Layer (Row α) (Row α) :=
  fun B x b n d => (sumRange B fun _ => sumRange N fun _ => x b n d) - sumRange B (fun b' => sumRange N fun n' => x b' n' d)

/-- a gate / feature computed from the mean over ALL rows of the batch (MVMoE light decoder: `out.view(-1, d).mean(0)`) -/
def batchMeanGate : Layer (Row α) (Row α) := fun B x b n d => x b n d + sumRange B (fun b' => x b' 0 d)

/-- a per-instance parameter read once from the FIRST row of the batch (`td[key][(0,) * dim]`, "get first item fast") -/
def readsRowZero : Layer (Row α) (Row α) := fun _ x b n d => x b n d + x 0 0 d

/-- random numbers drawn for the whole batch in row-major order (`torch.rand(b, c)`, MatNet's one-hot columns): row `b`
consumes draws `b·C … b·C + C − 1` of the stream -/
def rngLayer (C : Nat) (draw : Nat → α) : Layer (Row α) (Row α) := fun _ x b n d => x b n d + draw (b * C + d)

end kinds

/-- a shape shortcut that behaves differently at batch size one (`.squeeze()` of a `[B, 1, d]` tensor also drops the
batch dimension when `B = 1`; `none` = the following `cat` raises) -/
def squeezeAll {X Y : Type} (φ : X → Y) : Layer X (Option Y) := fun B x b => if B = 1 then none else some (φ (x b))

/-- normalisation kinds of `Normalization` (`models/nn/ops.py`) -/
inductive NormKind where
  | batchEval | batchTrain | instNorm | layerNorm
  deriving DecidableEq, Repr

/-- kind selected by the class code of the extracted table, the `track_running_stats` flag and the module's mode -/
def normKindOf (code : Nat) (tracksRunning evalMode : Bool) : NormKind :=
  match code with
  | 0 => if evalMode && tracksRunning then .batchEval else .batchTrain
  | 1 => .instNorm
  | _ => .layerNorm

section
open Lean.Grind (CommRing)
variable {α : Type} [CommRing α]

/-- `Normalization.forward` for each kind -/
def normLayer (kind : NormKind) (N : Nat) (μ ρ : Nat → α) (istat : (Nat → α) → α × α) (lstat : Row α → α × α) :
    Layer (Row α) (Row α) :=
  match kind with
  | .batchEval => perRow (batchNormEvalRow μ ρ)
  | .instNorm => perRow (instNormRow istat)
  | .layerNorm => perRow (layerNormRow lstat)
  | .batchTrain => batchNormTrain N

/-- one `MultiHeadAttentionLayer` of the AM encoder: `norm(x + mha(x))`, then `norm(h + ff(h))` -/
def encoderLayer (N D : Nat) (w : (Nat → α) → Nat → α) (W : Nat → Nat → α) (bias : Nat → α)
    (norm : Layer (Row α) (Row α)) : Layer (Row α) (Row α) :=
  let add : Row α → Row α → Row α := fun r s n d => r n d + s n d
  let h := compL norm (zipL add (perRow id) (perRow (attnRow N D w)))
  compL (compL norm (zipL add (perRow id) (perRow (linearRow D W bias)))) h

end

/-- the batched policy built from a network layer and a per-row decision (masking + argmax of that row's logits) -/
def policyOf {X L : Type} (dflt : X) (net : Layer X L) (pick : L → Nat) : List X → List Nat :=
  fun rows => (List.range rows.length).map fun b => pick (net rows.length (fun j => rows.getD j dflt) b)

/-! ### `PrecomputedCache.batchify` (AM decoder, multi-start with dynamic embeddings) -/

/-- `emb.repeat_interleave(S, dim=0)`: row `r` is a copy of row `r / S` (instance-major) -/
def repeatInterleave {α : Type} (x : Ops.Tens α) (S : Nat) : Ops.Tens α :=
  match x.shape with
  | [] => x
  | n :: rest => { shape := (n * S) :: rest, get := fun idx => match idx with
      | r :: t => x.get ((r / S) :: t)
      | [] => x.get [] }

/-- how a cached tensor is expanded to `S·B` rows: `ops.batchify(emb, num_starts)` (start-major) when `startMajor`,
`repeat_interleave` otherwise; which one the source uses is extracted (`Params.augCacheStartMajor`) -/
def cacheReplicate {α : Type} (startMajor : Bool) (x : Ops.Tens α) (S : Nat) : Ops.Tens α :=
  if startMajor then Ops.batchify x [S] else repeatInterleave x S

/-- `PrecomputedCache.batchify(num_starts)`: every tensor field expanded, non-tensor fields (`graph_context = 0`) kept -/
def cacheBatchify {α : Type} (fields : List (Option (Ops.Tens α))) (S : Nat) : List (Option (Ops.Tens α)) :=
  fields.map (Option.map fun x => cacheReplicate Params.augCacheStartMajor x S)


/-! ### the evaluator as an OBJECT: history of calls (growth round 2)

`EvalBase.__call__` builds `rewards_list` / `actions_list`.  Whether these are fresh locals of every call or attributes
of the evaluator object (created in `__init__`, hence carried over to the next call) is extracted
(`Params.augEvalListsLocal`). -/

structure EvalObj where
  rewardsList : List (List Int)
  actionsList : List (List (List Nat))

/-- a freshly constructed evaluator -/
def EvalObj.fresh : EvalObj := ⟨[], []⟩

/-- one `__call__` on an evaluator in state `st`: new state and returned `(rewards, actions)` -/
def callObj {I : Type} (listsLocal : Bool) (f : List I → List (Int × List Nat)) (n : Nat) (st : EvalObj) (ds : List I) :
    EvalObj × (List Int × List (List Nat)) :=
  let outs := (chunks n ds).map f
  let rl := (if listsLocal then [] else st.rewardsList) ++ outs.map (·.map (·.1))
  let al := (if listsLocal then [] else st.actionsList) ++ outs.map (·.map (·.2))
  (if listsLocal then st else ⟨rl, al⟩, (concatRewards rl, concatActions al))

/-- a history of calls (datasets with their loader batch sizes) on one object; returns the results in order -/
def callSeq {I : Type} (listsLocal : Bool) (f : List I → List (Int × List Nat)) (st : EvalObj) :
    List (Nat × List I) → List (List Int × List (List Nat))
  | [] => []
  | (n, ds) :: rest =>
    let r := callObj listsLocal f n st ds
    r.2 :: callSeq listsLocal f r.1 rest

/-! ### further layer kinds of the bundled policies (growth round 2) -/

section kinds2
open Lean.Grind (CommRing)
variable {α : Type} [CommRing α]

/-- entry-wise activation (ReLU, tanh clipping, …) -/
def mapRow (g : α → α) (row : Row α) : Row α := fun n d => g (row n d)

/-- the feed-forward block `Linear → activation → Linear` -/
def mlpRow (D H : Nat) (W1 : Nat → Nat → α) (b1 : Nat → α) (g : α → α) (W2 : Nat → Nat → α) (b2 : Nat → α) (row : Row α) : Row α :=
  linearRow H W2 b2 (mapRow g (linearRow D W1 b1 row))

/-- attention with a key mask that is part of the SAME row's state (`action_mask`): masked keys get weight from the
normaliser `w` applied to the masked scores (`neg` stands for `-inf`) -/
def maskedAttnRow (N D : Nat) (w : (Nat → α) → Nat → α) (neg : α) (mask : Nat → Bool) (q kv : Row α) : Row α :=
  fun n e => sumRange N (fun m => w (fun m' => if mask m' then sumRange D (fun d => q n d * kv m' d) else neg) m * kv m e)

/-- `PointerAttention`: glimpse (masked multi-head attention of the query over the row's own nodes), projection, then
logits `⟨glimpse, logit_key[m]⟩` for the row's own nodes; `none`-masked logits are `neg` -/
def pointerRow (N D : Nat) (w : (Nat → α) → Nat → α) (neg : α) (Wout : Nat → Nat → α) (mask : Nat → Bool)
    (q gk gv lk : Row α) : Nat → α :=
  let glimpse : Row α := fun n e => sumRange N (fun m =>
      w (fun m' => if mask m' then sumRange D (fun d => q n d * gk m' d) else neg) m * gv m e)
  let proj := linearRow D Wout (fun _ => 0) glimpse
  fun m => if mask m then sumRange D (fun d => proj 0 d * lk m d) else neg

/-- dynamic embedding (SDVRP): a linear map of the row's own remaining demands added to the cached keys / values -/
def dynEmbRow (W : Nat → α) (demand : Nat → α) (cached : Row α) : Row α := fun n d => cached n d + W d * demand n

/-- what one decoding step of the AM decoder sees of a row: cached encoder output and the row's own state -/
structure StepIn (α : Type) where
  emb : Row α
  cur : Nat
  mask : Nat → Bool
  demand : Nat → α

/-- one decoder step of the attention model on one row: context (current node embedding + graph context), dynamic
keys / values, pointer attention → logits of that row -/
def amDecoderRow (N D : Nat) (w : (Nat → α) → Nat → α) (neg : α) (Wq Wk Wv Wl Wout : Nat → Nat → α) (Wdyn : Nat → α)
    (x : StepIn α) : Nat → α :=
  let ctx : Row α := fun n d => gatherRow x.cur x.emb n d + meanPoolRow N x.emb n d
  let q := linearRow D Wq (fun _ => 0) ctx
  let gk := dynEmbRow Wdyn x.demand (linearRow D Wk (fun _ => 0) x.emb)
  let gv := dynEmbRow Wdyn x.demand (linearRow D Wv (fun _ => 0) x.emb)
  let lk := dynEmbRow Wdyn x.demand (linearRow D Wl (fun _ => 0) x.emb)
  pointerRow N D w neg Wout x.mask q gk gv lk

/-- a context that reads one field of the state from the first row of the batch (seed-class "get first item fast") -/
def decoderReadsRowZero (N D : Nat) (w : (Nat → α) → Nat → α) (neg : α) (Wq Wk Wv Wl Wout : Nat → Nat → α) (Wdyn : Nat → α) :
    Layer (StepIn α) (Nat → α) :=
  fun _ x b => amDecoderRow N D w neg Wq Wk Wv Wl Wout Wdyn { x b with demand := (x 0).demand }

end kinds2

/-- batch-dimension reductions that are known and accounted for (the MVMoE light-decoder gate: known finding) -/
def knownBatchReductions : List String := ["nn/attention.py:PointerAttnMoE._project_out:mean"]

/-- forced-training-behaviour sites that are known and harmless in the swept configurations: dropout inside the two
hand-written SDPA functions is guarded by `dropout_p > 0.0` (default 0.0); `PointerNetworkPolicy.forward` sets the
module mode from its `phase` argument (the network has no mode-dependent layer) -/
def knownForcedTrain : List String :=
  ["nn/attention.py:scaled_dot_product_attention_simple:dropout", "zoo/matnet/encoder.py:MixedScoresSDPA.forward:dropout",
   "zoo/ptrnet/policy.py:PointerNetworkPolicy.forward:train()"]


/-! ### non-autoregressive (heatmap) decoding: `_multistart_batched_index` and its memoisation (round 5) -/

/-- `_multistart_batched_index(batch_size, num_starts)`: `arange(B)` for `S ≤ 1`, else `batchify(arange(B), S)`
(start-major when `startMajor`, the extracted form; `repeat_interleave` otherwise) -/
def narIndexWith (startMajor : Bool) (B S : Nat) : List Nat :=
  if S ≤ 1 then List.range B
  else if startMajor then tile S (List.range B)
  else (List.range (B * S)).map (· / S)

def narIndex (B S : Nat) : List Nat := narIndexWith Params.augNarIndexStartMajor B S

/-- the memoisation key of one call: the pair `(B, S)` when the cache key has both components (`@lru_cache` on the two
arguments), only the number of decoded rows `B · max(S, 1)` otherwise -/
def narKey (keyHasBoth : Bool) (B S : Nat) : Nat × Nat := if keyHasBoth then (B, S) else (B * max S 1, 0)

/-- the index a call `(B, S)` gets after the calls in `hist` (oldest first): the value stored by the FIRST earlier call with
the same key, else freshly computed -/
def narCachedIndex (keyHasBoth : Bool) (hist : List (Nat × Nat)) (B S : Nat) : List Nat :=
  match hist.find? (fun c => narKey keyHasBoth c.1 c.2 == narKey keyHasBoth B S) with
  | some c => narIndex c.1 c.2
  | none => narIndex B S

/-- `logits = heatmaps_logits[_indexer, current_action, :]`: decoded row `r` reads heatmap row `_indexer[r]` -/
def narLogitsRow {H : Type} (heat : Nat → Nat → H) (indexer : List Nat) (cur : Nat → Nat) (r : Nat) : H :=
  heat (indexer.getD r 0) (cur r)


/-! ### padding-locality of masked attention (round 6)

Instances with different numbers of operations are zero-padded to a common width; an attention layer must give a real row the
same output whatever the number and content of the padded (masked) columns.  Attention is kept division-free: numerator
`Σ_m weight_m · value_m` and denominator `Σ_m weight_m`, `weight_m = ex(score_m)` (`ex` the exponential, uninterpreted). -/

section padding
open Lean.Grind (CommRing)
variable {α : Type} [CommRing α]

/-- masked softmax attention (mask BEFORE the softmax: masked columns get weight `ex(-inf) = 0`): numerator and denominator -/
def maskedAttn (N : Nat) (ex : α → α) (mask : Nat → Bool) (score val : Nat → α) : α × α :=
  (sumRange N (fun m => if mask m then ex (score m) * val m else 0), sumRange N (fun m => if mask m then ex (score m) else 0))

/-- "softmax over ALL columns, then multiply by the mask" without renormalising: the denominator still runs over the padded
columns -/
def maskAfterSoftmax (N : Nat) (ex : α → α) (mask : Nat → Bool) (score val : Nat → α) : α × α :=
  (sumRange N (fun m => if mask m then ex (score m) * val m else 0), sumRange N (fun m => ex (score m)))

/-- `HetGNNLayer`'s attention over the operation columns, in the form the source uses (extracted:
`Params.augHgnnMasksBeforeSoftmax`) -/
def hgnnAttn (N : Nat) (ex : α → α) (mask : Nat → Bool) (score val : Nat → α) : α × α :=
  if Params.augHgnnMasksBeforeSoftmax then maskedAttn N ex mask score val else maskAfterSoftmax N ex mask score val

end padding

/-! ### which coordinate keys an augmentation transforms (round 6) -/

/-- a TensorDict's coordinate-bearing entries: key ↦ points -/
abbrev CoordTd (P : Type) := String → Nat → P

/-- `StateAugmentation(feats)`: only the keys in `feats` are transformed -/
def augTd {P : Type} (feats : List String) (f : P → P) (td : CoordTd P) : CoordTd P :=
  fun k i => if k ∈ feats then f (td k i) else td k i

/-- the coordinate keys the augmentation of a model's `shared_step` sees: those of the RESET state when the step resets first
and augments the reset td (`resetFirst`), those of the raw batch otherwise -/
def stepAugKeys (resetFirst : Bool) (rawKeys resetKeys : List String) : List String :=
  if resetFirst then resetKeys else rawKeys

end Rl4co.Eval
