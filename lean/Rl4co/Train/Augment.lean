/-
Model of rl4co/data/transforms.py (coordinate augmentations) — no Mathlib.

Coordinates live in an arbitrary commutative ring `α` (core class `Lean.Grind.CommRing`; `Int` ticks and
`Rat` in the driver, any commutative ring — the reals included — in the theorems).  `one` is the side of
the unit square in the chosen unit (1 for `Rat`, 2^20 for ticks).

* `dihedral one k`            `dihedral_8_augmentation`: copy `k` is row `k` of the table **extracted from
                              the source** (`Params.augDihedralTable`, harness/probes/aug.py)
* `symTransform c s o swap`   `symmetric_transform` with `c = cos φ`, `s = sin φ`, `o = offset`,
                              `swap = (φ > 2π)`; the linear form is `Params.augRotTable`, the shifts
                              `Params.augOffsetSigns` (both extracted)
* `swapOf`                    the reflection test `phi > 2 * math.pi` for `phi = u * 4 * math.pi`
* `tile`, `stateAugDihedral`, `stateAugSym`, `restoreFirst`
                              `StateAugmentation.__call__`: `batchify(td, A)`, the transform applied to the
                              tiled rows, and the `first_aug_identity=False` write-back as written
-/
import Rl4co.Generated.Params

namespace Rl4co.Augment
open Lean.Grind (CommRing)

abbrev Pt (α : Type) := α × α

section ring
variable {α : Type} [CommRing α]

/-- squared Euclidean distance -/
def sqDist (p q : Pt α) : α := (p.1 - q.1) * (p.1 - q.1) + (p.2 - q.2) * (p.2 - q.2)

/-- input coordinate selected by `useY` -/
def sel (useY : Bool) (p : Pt α) : α := if useY then p.2 else p.1

/-- One output coordinate `(useY, hasOne, neg)`:  `[one] ± v`. -/
def coord (one : α) (c : Bool × Bool × Bool) (p : Pt α) : α :=
  let v := sel c.1 p
  let k : α := if c.2.1 then one else 0
  if c.2.2 then k - v else k + v

/-- `dihedral_8_augmentation` copy `k` for an explicit table (rows beyond the table: identity). -/
def dihedralWith (tbl : List ((Bool × Bool × Bool) × (Bool × Bool × Bool))) (one : α) (k : Nat) (p : Pt α) : Pt α :=
  match tbl[k]? with
  | some e => (coord one e.1 p, coord one e.2 p)
  | none => p

/-- `dihedral_8_augmentation`, copy `k` (the table is regenerated from the source on every run). -/
def dihedral (one : α) (k : Nat) (p : Pt α) : Pt α := dihedralWith Params.augDihedralTable one k p

/-- one term `± (cos|sin) * (x|y)` of the rotation, `(useSin, useY, neg)` -/
def term (c s : α) (p : Pt α) (t : Bool × Bool × Bool) : α :=
  let v := (if t.1 then s else c) * sel t.2.1 p
  if t.2.2 then 0 - v else v

/-- the linear part of `symmetric_transform` for an explicit table -/
def rotWith (tbl : ((Bool × Bool × Bool) × (Bool × Bool × Bool)) × ((Bool × Bool × Bool) × (Bool × Bool × Bool)))
    (c s : α) (p : Pt α) : Pt α :=
  (term c s p tbl.1.1 + term c s p tbl.1.2, term c s p tbl.2.1 + term c s p tbl.2.2)

def shift (minus : Bool) (v o : α) : α := if minus then v - o else v + o

/-- `symmetric_transform(x, y, phi, offset)` for one point, with explicit tables. -/
def symTransformWith
    (rot : ((Bool × Bool × Bool) × (Bool × Bool × Bool)) × ((Bool × Bool × Bool) × (Bool × Bool × Bool)))
    (sg : (Bool × Bool) × Bool) (c s o : α) (swap : Bool) (p : Pt α) : Pt α :=
  let q : Pt α := (shift sg.1.1 p.1 o, shift sg.1.2 p.2 o)      -- x, y = x - offset, y - offset
  let r := rotWith rot c s q                                     -- x_prime, y_prime
  let w : Pt α := if swap then (r.2, r.1) else r                 -- torch.where(mask, xy.flip(-1), xy)
  (shift sg.2 w.1 o, shift sg.2 w.2 o)                           -- xy + offset

/-- `symmetric_transform` as it stands in the source. -/
def symTransform (c s o : α) (swap : Bool) (p : Pt α) : Pt α :=
  symTransformWith Params.augRotTable Params.augOffsetSigns c s o swap p

end ring

/-- `mask = phi > 2 * math.pi` for `phi = u * 4 * math.pi`, `u = num / den` (`den > 0`) the `torch.rand` draw. -/
def swapOf (num den : Int) : Bool :=
  Params.augReflectCmp.eval ((Params.augPhiMul : Int) * num) ((Params.augReflectMul : Int) * den)

/-! ### `StateAugmentation.__call__` : layout -/

/-- `batchify(x, A)` on a list of rows: `A` copies of the whole batch one after the other. -/
def tile {β : Type} (A : Nat) (rows : List β) : List β := (List.replicate A rows).flatten

section ring
variable {α : Type} [CommRing α]

/-- `dihedral_8_augmentation_wrapper(batchify(xy, A), reduce=True)`: the first `len / 8` rows of the tiled
batch are transformed by each of the table's maps in turn and concatenated. -/
def stateAugDihedral (one : α) (A : Nat) (rows : List (List (Pt α))) : List (List (Pt α)) :=
  let tiled := tile A rows
  let base := tiled.take (tiled.length / 8)
  (List.range Params.augDihedralTable.length).flatMap fun k => base.map fun row => row.map (dihedral one k)

/-- `symmetric_augmentation(batchify(xy, A), A)`: one `(cos φ, sin φ, φ > 2π)` per row of the tiled batch
(the code sets `φ = 0` on the first `len / A` rows; the angles are data here). -/
def stateAugSym (o : α) (A : Nat) (prm : List (α × α × Bool)) (rows : List (List (Pt α))) : List (List (Pt α)) :=
  List.zipWith (fun (q : α × α × Bool) row => row.map (symTransform q.1 q.2.1 o q.2.2)) prm (tile A rows)

/-- `aug_feat[list(td.size()), 0] = init_aug_feat` with `init_aug_feat = td_aug[feat][list(td.size()), 0]`:
`list(td.size()) = [B]`, so this writes node 0 of row `B` of the *tiled original* back into row `B` of the
augmented batch (`none`: the index `B` is out of range, the code raises `IndexError`). -/
def restoreFirst (B : Nat) (aug tiled : List (List (Pt α))) : Option (List (List (Pt α))) :=
  match tiled[B]?, aug[B]? with
  | some r0, some r =>
    match r0[0]? with
    | some p0 => some (aug.set B (r.set 0 p0))
    | none => none
  | _, _ => none

/-- `StateAugmentation(num_augment=A, augment_fn='dihedral8', first_aug_identity=fai)(td)['locs']` -/
def stateAugmentationDihedral (one : α) (A : Nat) (fai : Bool) (rows : List (List (Pt α))) :
    Option (List (List (Pt α))) :=
  let out := stateAugDihedral one A rows
  if fai then some out else restoreFirst rows.length out (tile A rows)

def stateAugmentationSym (o : α) (A : Nat) (fai : Bool) (prm : List (α × α × Bool)) (rows : List (List (Pt α))) :
    Option (List (List (Pt α))) :=
  let out := stateAugSym o A prm rows
  if fai then some out else restoreFirst rows.length out (tile A rows)

end ring

end Rl4co.Augment

/-! ### growth round: which rows get `φ = 0`, `num_augment` forwarding, `min_max_normalize` -/
namespace Rl4co.Augment
open Lean.Grind (CommRing)

/-- bound of `phi[: <bound>] = 0.0` in `symmetric_augmentation` (`rows = xy.shape[0]`, `A` = the `num_augment` the
function sees); the form of the bound is extracted from the source (`Params.augFirstZeroBound`). -/
def firstZeroCount (code rows A : Nat) : Nat :=
  match code with
  | 1 => rows / A
  | 2 => A
  | 3 => rows
  | _ => 0

/-- the `num_augment` that reaches `symmetric_augmentation` from `StateAugmentation(num_augment = A)`:
`self.augmentation(td_aug[feat], self.num_augment)` forwards it, otherwise the function's own default applies. -/
def seenNumAugment (A : Nat) : Nat :=
  if Params.augForwardsNumAugment then A else Params.augSymDefaultNumAugment

section ring
variable {α : Type} [CommRing α]

/-- per-row `(cos φ, sin φ, φ > 2π)` after `phi[: bound] = 0.0`: the first rows become `(1, 0, false)`
(cos 0, sin 0, no reflection — `swap_first`), the other draws stay. -/
def symParams (A : Nat) (draws : List (α × α × Bool)) : List (α × α × Bool) :=
  let z := firstZeroCount Params.augFirstZeroBound draws.length (seenNumAugment A)
  List.replicate (min z draws.length) ((1 : α), (0 : α), false) ++ draws.drop z

/-- `StateAugmentation(num_augment = A, augment_fn = 'symmetric')` from the RAW draws of `torch.rand`:
zeroing of the first rows included. -/
def stateAugSymDraws (o : α) (A : Nat) (fai : Bool) (draws : List (α × α × Bool)) (rows : List (List (Pt α))) :
    Option (List (List (Pt α))) :=
  stateAugmentationSym o A fai (symParams A draws) rows

/-- `min_max_normalize` on one point, with `m = x.min()` and `r = 1 / (x.max() - x.min())` (both taken over the
WHOLE augmented batch tensor) -/
def normPt (r m : α) (p : Pt α) : Pt α := (r * (p.1 - m), r * (p.2 - m))

def minMaxNormalize (r m : α) (rows : List (List (Pt α))) : List (List (Pt α)) :=
  rows.map fun row => row.map (normPt r m)

end ring
end Rl4co.Augment
