/-
Models of the training losses, over dual numbers and shaped tensors.  No Mathlib.

* `calcLoss`     `rl4co/models/rl/reinforce/reinforce.py:REINFORCE.calculate_loss`
* `ppoLoss`      the loss block of `rl4co/models/rl/ppo/ppo.py:PPO.shared_step`
* `unbatch1/2`   `rl4co/utils/ops.py:unbatchify` as POMO / SymNCO call it (index maps)
* `symncoLoss`   `rl4co/models/zoo/symnco/model.py:SymNCO.shared_step` + `losses.py`
-/
import Rl4co.Train.Dual
import Rl4co.Train.Welford
import Rl4co.Train.Baselines
namespace Rl4co.Train
variable {K : Type} [Add K] [Sub K] [Mul K] [Div K] [Neg K] [Zero K] [One K] [NatCast K]

/-! ### REINFORCE -/

/-- what `self.advantage_scaler(advantage)` does to the advantage tensor once the running statistics
have been updated (under `no_grad`): an affine map with gradient-free coefficients -/
inductive ScaleOp (K : Type) where
  | off                      -- `reward_scale=None`
  | divBy (c : K)            -- integer scale, or `'scale'` with `c = std + eps`
  | norm (mean fac : K)      -- `'norm'`: `(adv - mean) / (std + eps)`

def ScaleOp.apply (op : ScaleOp K) (x : Dual K) : Dual K :=
  match op with
  | ScaleOp.off => x
  | ScaleOp.divBy c => Dual.divc x c
  | ScaleOp.norm m f => Dual.divc (x - Dual.const m) f

structure LossOut (K : Type) where
  loss : Dual K
  reinforceLoss : Dual K
  adv : Ten (Dual K)

/-- `REINFORCE.calculate_loss`:
    advantage = reward - bl_val
    advantage = self.advantage_scaler(advantage)
    reinforce_loss = -(advantage * log_likelihood).mean()
    loss = reinforce_loss + bl_loss
`none` = a shape error is raised. -/
def calcLoss (sc : ScaleOp K) (reward blVal ll : Ten (Dual K)) (blLoss : Dual K) : Option (LossOut K) :=
  match Ten.bop (fun r b => r - b) reward blVal with
  | none => none
  | some adv0 =>
    let adv := adv0.map sc.apply
    match Ten.bop (fun a l => a * l) adv ll with
    | none => none
    | some prod =>
      let rl := - Ten.meanAll prod
      some ⟨rl + blLoss, rl, adv⟩

/-! ### PPO -/

section ppo
variable [LT K] [DecidableLT K]

/-- `torch.clamp(x, lo, hi)`; the gradient passes strictly inside the interval (torch ≥ 2: zero at the
boundary itself, which only matters at kink points) -/
def clampD (lo hi : K) (x : Dual K) : Dual K :=
  if x.v < lo then Dual.const lo else if hi < x.v then Dual.const hi
  else if lo < x.v ∧ x.v < hi then x else Dual.const x.v

/-- `torch.min(a, b)` (elementwise): at a tie the gradient is split evenly, as `aten::minimum` does -/
def minD (a b : Dual K) : Dual K :=
  if a.v < b.v then a else if b.v < a.v then b else ⟨a.v, (a.d + b.d) / ((2 : Nat) : K)⟩

/-- one element of `F.huber_loss(input, target)` with `delta = 1`, `z = input - target`:
`0.5 z²` if `|z| < 1`, else `|z| - 0.5` -/
def huberD (z : Dual K) : Dual K :=
  let half : K := 1 / ((2 : Nat) : K)
  let az : Dual K := if z.v < 0 then -z else z
  if az.v < 1 then Dual.smul half (z * z) else az - Dual.const half

structure PpoCfg (K : Type) where
  clipLo : K            -- `1 - clip_range`
  clipHi : K            -- `1 + clip_range`
  vfLambda : K
  entLambda : K
  /-- `normalize_adv`: `some (std, eps)` where `std = adv.std()` (an oracle for the square root; checked
  against the variance by the harness) -/
  normalize : Option (K × K)

structure PpoOut (K : Type) where
  loss : Dual K
  surrogate : Dual K
  valueLoss : Dual K
  entropy : Dual K
  ratio : Ten (Dual K)
  adv : Ten K

/-- unbiased variance of all entries of a gradient-free tensor (`adv.std()**2`) -/
def tenVar (t : Ten K) : K :=
  let n := t.sh.numel
  let mean := Ten.sumAll t / (n : K)
  Ten.sumAll (t.map (fun x => (x - mean) * (x - mean))) / ((n : K) - 1)

/-- `if normalize_adv: adv = (adv - adv.mean()) / (adv.std() + 1e-8)` as an elementwise map (the mean is
taken over all entries of the un-normalised advantage tensor; `std` is the oracle value of `adv.std()`) -/
def ppoNormFn (norm : Option (K × K)) (adv0 : Ten K) : K → K :=
  match norm with
  | none => fun a => a
  | some (std, eps) => fun a => (a - Ten.sumAll adv0 / (adv0.sh.numel : K)) / (std + eps)

/-- The loss block of `PPO.shared_step` for one mini-batch.
`w` is `exp`; `ll` the per-step log-likelihoods `[B,T]` of the re-evaluated actions; `oldLogp`, `reward`
were produced under `torch.no_grad()` and stored in the TensorDict (gradient-free by construction);
`valuePred` is the critic output with the shape it really has; `entropy` the policy's entropy output. -/
def ppoLoss (cfg : PpoCfg K) (w : K → K) (ll : Ten (Dual K)) (oldLogp reward : Ten K)
    (valuePred entropy : Ten (Dual K)) : Option (PpoOut K) :=
  let prev : Ten K := reward.viewCol                                   -- previous_reward = reward.view(-1, 1)
  match Ten.bop (fun a b => a - Dual.const b) (Ten.sumLast ll) oldLogp with
  | none => none
  | some diff =>
    let ratio := (diff.map (Dual.expw w)).viewCol                      -- torch.exp(...).view(-1, 1)
    match Ten.bop (fun r v => r - v) prev (valuePred.map (fun x => x.v)) with   -- adv = prev - value_pred.detach()
    | none => none
    | some adv0 =>
      let adv : Ten K := adv0.map (ppoNormFn cfg.normalize adv0)
      match Ten.bop (fun r a => Dual.smul a r) ratio adv,
            Ten.bop (fun r a => Dual.smul a r) (ratio.map (clampD cfg.clipLo cfg.clipHi)) adv with
      | some t1, some t2 =>
        match Ten.bop minD t1 t2, Ten.bop (fun v r => huberD (v - Dual.const r)) valuePred prev with
        | some mn, some hub =>
          let surrogate := - Ten.meanAll mn
          let valueLoss := Ten.meanAll hub
          let ent := Ten.meanAll entropy
          some ⟨surrogate + Dual.smul cfg.vfLambda valueLoss - Dual.smul cfg.entLambda ent,
                surrogate, valueLoss, ent, ratio, adv⟩
        | _, _ => none
      | _, _ => none

end ppo

/-! ### Regrouping of flat multi-start / augmented batches -/

/-- `_unbatchify_single(x, r)` on a flat vector of length `n`: `x.view(r, n/r).permute(1, 0)`,
entry `[j, q] = x[q * (n / r) + j]` -/
def unbatch1 {α : Type} (r n : Nat) (x : Nat → α) : Nat → Nat → α :=
  fun j q => x (q * (n / r) + j)

/-- `unbatchify(x, (s, a))` with `s, a > 0` on a flat vector of length `n`:
first `a` (giving `[n/a, a]`), then `s` on the leading dimension (giving `[n/a/s, s, a]`):
entry `[b, q, r] = x[r * (n/a) + (q * (n/a/s) + b)]` -/
def unbatch2 {α : Type} (s a n : Nat) (x : Nat → α) : Nat → Nat → Nat → α :=
  fun b q r => unbatch1 a n x (q * ((n / a) / s) + b) r

/-- POMO training (`n_aug = 0`): `unbatchify(x, (0, S))` = a single `_unbatchify_single(x, S)`;
the result as a `[B, S]` tensor -/
def pomoRegroup {α : Type} (S n : Nat) (x : Nat → α) : Ten α := Ten.mat (n / S) S (unbatch1 S n x)

/-! ### SymNCO -/

/-- a rank-3 tensor `[nb, ns, na]` -/
structure Ten3 (α : Type) where
  nb : Nat
  ns : Nat
  na : Nat
  f : Nat → Nat → Nat → α

/-- `unbatchify(x, (n_start, n_aug))` as SymNCO calls it; a factor `0` is skipped by the code, which
leaves a rank-2 tensor — represented here with that axis of size 1 -/
def symncoRegroup {α : Type} (nStart nAug n : Nat) (x : Nat → α) : Ten3 α :=
  let s := if nStart = 0 then 1 else nStart
  let a := if nAug = 0 then 1 else nAug
  ⟨n / a / s, s, a, unbatch2 s a n x⟩

/-- `-( (reward - reward.mean(dim=1, keepdim=True)) * ll ).mean()` on a `[nb, ns, na]` tensor -/
def lossDim1 (R ll : Ten3 (Dual K)) : Dual K :=
  let tot := sumTo R.nb (fun b => sumTo R.ns (fun q => sumTo R.na (fun r =>
    (R.f b q r - Dual.divc (sumTo R.ns (fun q' => R.f b q' r)) (R.ns : K)) * ll.f b q r)))
  Neg.neg (Dual.divc tot ((R.nb * R.ns * R.na : Nat) : K))

/-- `-( (reward - reward.mean(dim=-1, keepdim=True)) * ll ).mean()` -/
def lossDimLast (R ll : Ten3 (Dual K)) : Dual K :=
  let tot := sumTo R.nb (fun b => sumTo R.ns (fun q => sumTo R.na (fun r =>
    (R.f b q r - Dual.divc (sumTo R.na (fun r' => R.f b q r')) (R.na : K)) * ll.f b q r)))
  Neg.neg (Dual.divc tot ((R.nb * R.ns * R.na : Nat) : K))

structure SymOut (K : Type) where
  loss : Dual K
  ps : Dual K
  ss : Dual K

/-- The training branch of `SymNCO.shared_step`:
    reward = unbatchify(out["reward"], (n_start, n_aug));  ll likewise
    loss_ps = problem_symmetricity_loss(reward, ll) if n_start > 1 else 0      # mean over dim=1
    loss_ss = solution_symmetricity_loss(reward, ll) if n_aug > 1 else 0       # mean over dim=-1
    loss = loss_ps + beta * loss_ss + alpha * loss_inv
`inv` is the invariance loss (a function of the projected embeddings, an oracle here). -/
def symncoLoss (nStart nAug n : Nat) (alpha beta : K) (reward ll : Nat → Dual K) (inv : Dual K) : SymOut K :=
  let R := symncoRegroup nStart nAug n reward
  let L := symncoRegroup nStart nAug n ll
  let ps : Dual K := if 1 < nStart then lossDim1 R L else 0
  let ss : Dual K := if 1 < nAug then lossDimLast R L else 0
  ⟨ps + Dual.smul beta ss + Dual.smul alpha inv, ps, ss⟩

end Rl4co.Train
