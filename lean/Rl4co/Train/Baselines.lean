/-
Models of `rl4co/models/rl/reinforce/baselines.py` — every bundled REINFORCE baseline's `eval`, and the
warm-up `epoch_callback` — over dual numbers and shaped tensors.  No Mathlib.

A baseline evaluation returns `(bl_val, bl_loss)`; `bl_val` is a shaped tensor (a Python `0` and a
0-dim tensor are both `Shape.s`), `bl_loss` a scalar.  Stateful baselines also return their new state.
-/
import Rl4co.Train.Dual
namespace Rl4co.Train
variable {K : Type} [Add K] [Sub K] [Mul K] [Div K] [Neg K] [Zero K] [One K] [NatCast K]

/-- `NoBaseline.eval`: `return 0, 0` -/
def noBaselineEval : Ten (Dual K) × Dual K := (Ten.scalar 0, 0)

/-- `SharedBaseline.eval`: `reward.mean(dim=1, keepdims=True), 0` -/
def sharedEval (reward : Ten (Dual K)) : Ten (Dual K) × Dual K := (Ten.meanLastKeep reward, 0)

namespace Ema
/-- `ExponentialBaseline.eval` on the batch mean (values only):
`v = mean` the first time, `v = beta * v + (1 - beta) * mean` afterwards -/
def step (beta : K) (v : Option K) (m : K) : K :=
  match v with
  | none => m
  | some v => beta * v + (1 - beta) * m

/-- state after a history of batch means -/
def run (beta : K) (v : Option K) : List K → Option K
  | [] => v
  | m :: ms => run beta (some (step beta v m)) ms

/-- `ExponentialBaseline.eval` on dual numbers: the moving average is computed from `reward.mean()`
(gradient and all) and then detached: `self.v = v.detach(); return self.v, 0`.
Returns `(bl_val, bl_loss, new state)`. -/
def eval (beta : K) (v : Option K) (reward : Ten (Dual K)) : Ten (Dual K) × Dual K × K :=
  let m := Ten.meanAll reward
  let v' : Dual K := match v with
    | none => m
    | some v => Dual.smul beta (Dual.const v) + Dual.smul (1 - beta) m
  (Ten.scalar (Dual.detach v'), 0, v'.v)
end Ema

namespace Critic
/-- `F.mse_loss(v, c)` (mean reduction, operands broadcast) -/
def mse (v c : Ten (Dual K)) : Option (Dual K) :=
  (Ten.bop (fun a b => (a - b) * (a - b)) v c).map Ten.meanAll

/-- `CriticBaseline.eval(x, c)`: `v = critic(x).squeeze(-1); return v.detach(), F.mse_loss(v, c.detach())`;
`out` is the critic network's output with the shape it really has. -/
def eval (out : Ten (Dual K)) (c : Ten (Dual K)) : Option (Ten (Dual K) × Dual K) :=
  let v := Ten.squeezeLast out
  (mse v (c.map Dual.detach)).map (fun l => (v.map Dual.detach, l))
end Critic

namespace Rollout
/-- `RolloutBaseline.eval`: the frozen policy's greedy reward computed under `torch.inference_mode()`;
the reward values are an oracle (a neural network's output), and they carry no gradient. -/
def eval (greedyReward : Ten K) : Ten (Dual K) × Dual K := (greedyReward.map Dual.const, 0)
end Rollout

namespace Warmup
variable [DecidableEq K]

/-- `WarmupBaseline` state: `alpha`, `n_epochs`, and the state `v` of its inner `ExponentialBaseline` -/
structure St (K : Type) where
  alpha : K
  nEpochs : Nat
  ema : Option K

/-- `WarmupBaseline.__init__`: `alpha = 0` -/
def init (n : Nat) : St K := ⟨0, n, none⟩

/-- `epoch_callback`: `if epoch < n_epochs: alpha = (epoch + 1) / float(n_epochs)` -/
def epochCallback (st : St K) (epoch : Nat) : St K :=
  if epoch < st.nEpochs then { st with alpha := ((epoch + 1 : Nat) : K) / (st.nEpochs : K) } else st

/-- which of the two baselines `eval` evaluates -/
inductive Branch where
  | inner | warm | both
deriving DecidableEq, Repr

def branch (st : St K) : Branch :=
  if st.alpha = 1 then Branch.inner else if st.alpha = 0 then Branch.warm else Branch.both

/-- `WarmupBaseline.eval`.  `inner` is the result `(v_b, l_b)` of the wrapped baseline's `eval`
(only used — and, in the code, only evaluated — when `alpha ≠ 0`); `beta` the warm-up EMA weight.
Returns `(bl_val, bl_loss, new state)`; `none` when the mixture's shapes do not broadcast. -/
def eval (beta : K) (st : St K) (inner : Ten (Dual K) × Dual K) (reward : Ten (Dual K)) :
    Option (Ten (Dual K) × Dual K × St K) :=
  match branch st with
  | Branch.inner => some (inner.1, inner.2, st)
  | Branch.warm =>
    let (v, l, e) := Ema.eval beta st.ema reward
    some (v, l, { st with ema := some e })
  | Branch.both =>
    let (vwb, lwb, e) := Ema.eval beta st.ema reward
    let a := st.alpha
    match Ten.bop (fun x y => x + y) (inner.1.map (Dual.smul a)) (vwb.map (Dual.smul (1 - a))) with
    | some v => some (v, Dual.smul a inner.2 + Dual.smul (1 - a) lwb, { st with ema := some e })
    | none => none
end Warmup

end Rl4co.Train
