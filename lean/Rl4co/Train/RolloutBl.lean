/-
Model of `rl4co/models/rl/reinforce/baselines.py:RolloutBaseline` — `setup` / `_update_policy`, `epoch_callback`
(challenge the frozen policy with the current one, replace it when it is significantly better), `wrap_dataset` — on top
of the data-set model of `Rl4co/Train/Dataset.lean` (`Ops.rollout`, `Ops.wrapItem`).  No Mathlib.

Policies are oracles: a policy is its greedy-reward function on a batch, `List Inst → List K`.  The statistical test
(`scipy.stats.ttest_rel`, one-sided p-value) is an oracle `pval : candidate values → baseline values → K`.

    def _update_policy(self, policy, env, batch_size, device, dataset_size, dataset=None):
        self.policy = copy.deepcopy(policy)
        if dataset is None: self.dataset = env.dataset(batch_size=[dataset_size])      # a FRESH evaluation set
        self.bl_vals = self.rollout(self.policy, env, batch_size, device, self.dataset)
        self.mean = self.bl_vals.mean()
    def epoch_callback(self, policy, env, batch_size, …):
        candidate_vals = self.rollout(policy, env, batch_size, device)                  # on self.dataset
        candidate_mean = candidate_vals.mean()
        if candidate_mean - self.mean > 0:
            t, p = ttest_rel(-candidate_vals, -self.bl_vals);  p_val = p / 2
            if p_val < self.bl_alpha: self._update_policy(policy, env, batch_size, device, dataset_size)
    def wrap_dataset(self, dataset, env, batch_size, …):
        return dataset.add_key("extra", self.rollout(self.policy, env, batch_size, device, dataset=dataset))
-/
import Rl4co.Train.Dataset
namespace Rl4co.Train.RolloutBl
open Rl4co.Ops

variable {Inst K : Type} [Add K] [Sub K] [Div K] [Zero K] [NatCast K] [LT K] [DecidableLT K]

structure St (Inst K : Type) where
  /-- the frozen baseline policy: greedy rewards of a batch -/
  policy : List Inst → List K
  /-- its evaluation data set -/
  dataset : List Inst
  /-- `bl_vals`: rewards of the frozen policy on the evaluation set -/
  blVals : List K
  /-- `mean` -/
  mean : K

def lmean (xs : List K) : K := xs.sum / (xs.length : K)

/-- `_update_policy(policy, …, dataset=None)`: freeze `policy`, draw a fresh evaluation set, evaluate -/
def updatePolicy (bs : Nat) (policy : List Inst → List K) (fresh : List Inst) : St Inst K :=
  let vals := rollout policy bs fresh
  ⟨policy, fresh, vals, lmean vals⟩

/-- `setup` -/
def setup (bs : Nat) (policy : List Inst → List K) (fresh : List Inst) : St Inst K := updatePolicy bs policy fresh

/-- the decision of `epoch_callback`: better on average AND significant -/
def accepts (pval : List K → List K → K) (alpha : K) (st : St Inst K) (candVals : List K) : Bool :=
  decide (0 < lmean candVals - st.mean) && decide (pval candVals st.blVals < alpha)

/-- `epoch_callback(policy, …)`; `fresh` is the evaluation set that WOULD be drawn on replacement -/
def epochCallback (pval : List K → List K → K) (alpha : K) (bs : Nat) (st : St Inst K)
    (cand : List Inst → List K) (fresh : List Inst) : St Inst K :=
  let candVals := rollout cand bs st.dataset
  if accepts pval alpha st candVals then updatePolicy bs cand fresh else st

/-- `wrap_dataset(dataset, …)`: item `i` of the wrapped data set -/
def wrap (st : St Inst K) (bs : Nat) (ds : List Inst) (d : Inst) (dK : K) : Nat → Inst × K :=
  wrapItem st.policy bs ds d dK

/-- a training history: the sequence of (candidate policy, fresh evaluation set) seen by the epoch callbacks -/
def run (pval : List K → List K → K) (alpha : K) (bs : Nat) (st : St Inst K) :
    List ((List Inst → List K) × List Inst) → St Inst K
  | [] => st
  | (c, f) :: rest => run pval alpha bs (epochCallback pval alpha bs st c f) rest

end Rl4co.Train.RolloutBl
