/-
Model of the replication / regrouping utilities of `rl4co/utils/ops.py`.  No Mathlib.

A tensor — or a `TensorDict`, whose `expand / view / permute / gather` act on the batch dimensions of
every entry alike — is seen through its *leading* dimensions only: `shape` lists them and `get idx` is
whatever lives at multi-index `idx` (the trailing dimensions of a tensor are simply further index
positions that the functions below pass through untouched; for a `TensorDict` the content is the
whole row, i.e. the tuple of all its entries at that batch index).

Mirrors, statement by statement:
* `_batchify_single`   `x.expand(repeats, *s).contiguous().view(s[0] * repeats, *s[1:])`
* `batchify`           `for s in reversed(shape): x = _batchify_single(x, s) if s > 0 else x`
* `_unbatchify_single` `x.view(repeats, s[0] // repeats, *s[1:]).permute(1, 0, 2, …)`
* `unbatchify`         `for s in reversed(shape): x = _unbatchify_single(x, s) if s > 0 else x`
* `gather_by_index(src, idx, dim=idx.dim())` for a `[B]` index on a `[B, k, …]` source
* `unbatchify_and_gather`, `get_best_actions`
* einops `rearrange(x, "b s ... -> (s b) ...")` (AM decoder's flatten-back)
-/
import Rl4co.Generated.Params
namespace Rl4co.Ops

structure Tens (α : Type) where
  shape : List Nat
  get : List Nat → α

variable {α : Type}

/-- `_batchify_single`: `[n, …] → [k·n, …]`, row `r = j·n + b` is a copy of row `b`. -/
def batchifySingle (x : Tens α) (k : Nat) : Tens α :=
  match x.shape with
  | [] => x
  | n :: rest =>
    { shape := (n * k) :: rest
      get := fun idx => match idx with
        | r :: t => x.get ((r % n) :: t)
        | [] => x.get [] }

/-- one iteration of the loop body of `batchify` -/
def batchifyStep (x : Tens α) (s : Nat) : Tens α := if s > 0 then batchifySingle x s else x

/-- order in which both loops visit the factors: `for s in reversed(shape)`
(`Params.opsLoopsReversed` is regenerated from the source on every run) -/
def loopOrder (shape : List Nat) : List Nat := if Params.opsLoopsReversed then shape.reverse else shape

/-- `batchify(x, shape)` — iterates `reversed(shape)` as the code does. -/
def batchify (x : Tens α) (shape : List Nat) : Tens α := (loopOrder shape).foldl batchifyStep x

/-- `view(k, n // k, …)` is only legal when `k` divides `n` (torch raises otherwise). -/
def viewOk (x : Tens α) (k : Nat) : Bool :=
  match x.shape with
  | [] => false
  | n :: _ => k != 0 && n % k == 0

/-- `_unbatchify_single`: `[n, …] → [n/k, k, …]`, entry `[b][j]` is row `j·(n/k) + b`. -/
def unbatchifySingle (x : Tens α) (k : Nat) : Tens α :=
  match x.shape with
  | [] => x
  | n :: rest =>
    { shape := (n / k) :: k :: rest
      get := fun idx => match idx with
        | b :: j :: t => x.get ((j * (n / k) + b) :: t)
        | _ => x.get [] }

def unbatchifyStep (x : Tens α) (s : Nat) : Tens α := if s > 0 then unbatchifySingle x s else x

/-- `unbatchify(x, shape)` — iterates `reversed(shape)` as the code does. -/
def unbatchify (x : Tens α) (shape : List Nat) : Tens α := (loopOrder shape).foldl unbatchifyStep x

/-- every `view` along the way of `unbatchify` is legal -/
def unbatchifyOk (x : Tens α) (shape : List Nat) : Bool :=
  ((loopOrder shape).foldl (fun (acc : Bool × Tens α) s =>
      if s > 0 then (acc.1 && viewOk acc.2 s, unbatchifySingle acc.2 s) else acc) (true, x)).1

/-- `gather_by_index(src, idx, dim=1)` for `src : [B, k, …]`, `idx : [B]` (the singleton gathered
dimension is squeezed): entry `[b]` is `src[b][idx b]`. -/
def gatherDim1 (x : Tens α) (idx : Nat → Nat) : Tens α :=
  match x.shape with
  | b :: _ :: rest =>
    { shape := b :: rest
      get := fun i => match i with
        | r :: t => x.get (r :: idx r :: t)
        | [] => x.get [] }
  | _ => x

/-- `unbatchify_and_gather(x, idx, n)` with a `[B]` index. -/
def unbatchifyAndGather (x : Tens α) (idx : Nat → Nat) (n : Nat) : Tens α :=
  gatherDim1 (unbatchify x [n]) idx

/-- einops `rearrange(x, "b s ... -> (s b) ...")`. -/
def rearrangeSB (x : Tens α) : Tens α :=
  match x.shape with
  | b :: s :: rest =>
    { shape := (s * b) :: rest
      get := fun i => match i with
        | r :: t => x.get ((r % b) :: (r / b) :: t)
        | [] => x.get [] }
  | _ => x

/-- `get_best_actions(actions, max_idxs)` with `actions : [N, L]`, `max_idxs : [B]`:
`unbatchify(actions, B)` is `[N/B, B, L]`; `.gather(0, max_idxs[..., None, None])` has the index's
shape `[B, 1, 1]` and entry `[i][0][0] = unb[max_idxs i][0][0]`. -/
def getBestActions (actions : Tens α) (B : Nat) (maxIdx : Nat → Nat) : Tens α :=
  let u := unbatchify actions [B]
  { shape := [B, 1, 1]
    get := fun i => match i with
      | r :: _ => u.get [maxIdx r, 0, 0]
      | [] => u.get [] }

/-! ### TensorDicts with (nested) keys, the AM decoder's cache regrouping, `gather_by_index` -/

/-- a TensorDict seen as one leaf tensor per key path (`("c", "d")` for a nested entry): `expand`, `view`,
`permute` and indexing of a TensorDict act on the batch dimensions of every leaf alike -/
abbrev TD (α : Type) := List String → Tens α

def batchifyTD (td : TD α) (shape : List Nat) : TD α := fun path => batchify (td path) shape
def unbatchifyTD (td : TD α) (shape : List Nat) : TD α := fun path => unbatchify (td path) shape

/-- `AttentionModelDecoder.forward`, static embeddings: `td = unbatchify(td, num_starts)` … -/
def amRegroup (x : Tens α) (S : Nat) : Tens α := if Params.amStaticUnbatchify then unbatchify x [S] else x
/-- … `rearrange(logits, "b s l -> (s b) l")` -/
def amFlatten (x : Tens α) : Tens α := if Params.amFlattenReplicaMajor then rearrangeSB x else x
/-- dynamic embeddings: `PrecomputedCache.batchify` = `batchify(emb, num_starts)` for every tensor field -/
def cacheBatchify (c : Tens α) (S : Nat) : Tens α := if Params.amCacheUsesBatchify then batchify c [S] else c

/-- a multi-start replication site of the policy zoo: `batchify(x, S)` when the (regenerated) token says so;
an instance-major form (`repeat_interleave`, `repeat`, `expand`+`reshape`) puts copy `j` of instance `b` at row
`b·S + j` instead -/
def replicateSite (usesBatchify : Bool) (x : Tens α) (S : Nat) : Tens α :=
  if usesBatchify then batchify x [S]
  else match x.shape with
    | n :: rest => { shape := (n * S) :: rest, get := fun i => match i with | r :: t => x.get ((r / S) :: t) | [] => x.get [] }
    | [] => x

/-- `L2DActor.pre_decoder_hook`: encoder embeddings replicated for multi-start -/
def l2dHidden (x : Tens α) (S : Nat) : Tens α := replicateSite Params.l2dHiddenUsesBatchify x S
/-- `nonautoregressive/decoder.py:_multistart_batched_index` -/
def narIndex (x : Tens α) (S : Nat) : Tens α := replicateSite Params.narIndexUsesBatchify x S
/-- `MultiStageFFSPPolicy.pre_forward`: `td = batchify(td, num_starts)` -/
def matnetTd (x : Tens α) (S : Nat) : Tens α := replicateSite Params.matnetTdUsesBatchify x S
/-- `eas/decoder.py:forward_eas`: `td = batchify(td, num_starts + 1)` -/
def easTd (x : Tens α) (S : Nat) : Tens α := replicateSite Params.easTdUsesBatchify x (S + 1)

/-- `gather_by_index(src, idx, dim=1, squeeze)` for `src : [B, N, …]`, `idx : [B, S]` (an index `[B]` is
the case `S = 1` after the `view`): `[B, S, …]` with entry `[b][s] = src[b][idx b s]`; the step dimension
is squeezed away iff `idx.size(dim) == 1 and squeeze` (constants regenerated from the source). -/
def gatherIdx (src : Tens α) (S : Nat) (idx : Nat → Nat → Nat) (squeeze : Bool) : Tens α :=
  match src.shape with
  | b :: _ :: rest =>
    if (S == Params.opsGatherSqueezeSize) && squeeze then
      { shape := b :: rest
        get := fun i => match i with
          | r :: t => src.get (r :: idx r 0 :: t)
          | [] => src.get [] }
    else
      { shape := b :: S :: rest
        get := fun i => match i with
          | r :: s :: t => src.get (r :: idx r s :: t)
          | _ => src.get [] }
  | _ => src

/-- the call with the default `squeeze` (and the default `dim = 1`, otherwise nothing is modelled) -/
def gatherIdxDefault (src : Tens α) (S : Nat) (idx : Nat → Nat → Nat) : Tens α :=
  if Params.opsGatherDimDefault == 1 then gatherIdx src S idx Params.opsGatherSqueezeDefault else src

/-! ### executable helpers for the driver -/

/-- all multi-indices of a shape in row-major order -/
def indices : List Nat → List (List Nat)
  | [] => [[]]
  | n :: rest => (List.range n).flatMap (fun i => (indices rest).map (fun t => i :: t))

/-- row-major flattening of the leading dimensions -/
def Tens.flat (x : Tens α) : List α := (indices x.shape).map x.get

/-- the 1-d tensor `[0, 1, …, n-1]` of row tags -/
def iota (n : Nat) : Tens Nat :=
  { shape := [n], get := fun i => match i with | r :: _ => r | [] => 0 }

/-- mixed-radix value of the copy digits `js` for factors `ks` (first factor fastest) -/
def mixedRadix : List Nat → List Nat → Nat
  | j :: js, k :: ks => j + k * mixedRadix js ks
  | _, _ => 0

/-- product of the factors, a factor `0` meaning "skip" as in the code (`if s > 0 else x`) -/
def mult : List Nat → Nat
  | [] => 1
  | k :: ks => (if k > 0 then k else 1) * mult ks

end Rl4co.Ops
