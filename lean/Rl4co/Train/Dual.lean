/-
Dual numbers and small shaped tensors: the executable semantics the training-loss models are written in.
No Mathlib (the driver links against this file).

* `Dual K = (v, d)`: a value together with its first-order directional derivative along one fixed
  direction in parameter space.  `detach (v, d) = (v, 0)`.  Sums, products, quotients by constants follow
  the usual rules, so a loss written over `Dual K` yields *value and θ·grad* at once.  That PyTorch
  autograd implements exactly these rules is part of the trusted base (DESIGN §5); everything downstream
  (which quantities are detached, which mean is taken over which axis, which shapes broadcast) is modelled.
* `sumTo n f = f 0 + … + f (n-1)`.
* `Ten α`: a tensor of rank ≤ 2 given by its shape and an index function, with PyTorch's right-aligned
  broadcasting (`bop`).  Shapes are data: a `[B]` against `[B,1]` operand pair broadcasts to `[B,B]` here
  exactly as it does in torch, so such a mix-up shows up in the value and in the reported shape.

Everything is generic in the scalar type `K` through the core notation classes only; the driver
instantiates `K := Rat`, the theorems (in `Props/`) an arbitrary (linearly ordered) field.
-/
namespace Rl4co.Train

/-- `f 0 + … + f (n-1)` -/
def sumTo {α : Type} [Add α] [Zero α] : Nat → (Nat → α) → α
  | 0, _ => 0
  | n + 1, f => sumTo n f + f n

structure Dual (K : Type) where
  v : K
  d : K
deriving Repr

namespace Dual
variable {K : Type}

/-- a quantity that carries no gradient (data, a Python number, the result of a `no_grad` block) -/
def const [Zero K] (x : K) : Dual K := ⟨x, 0⟩
/-- `tensor.detach()` -/
def detach [Zero K] (x : Dual K) : Dual K := ⟨x.v, 0⟩

instance [Zero K] : Zero (Dual K) := ⟨⟨0, 0⟩⟩
instance [Add K] : Add (Dual K) := ⟨fun a b => ⟨a.v + b.v, a.d + b.d⟩⟩
instance [Sub K] : Sub (Dual K) := ⟨fun a b => ⟨a.v - b.v, a.d - b.d⟩⟩
instance [Neg K] : Neg (Dual K) := ⟨fun a => ⟨-a.v, -a.d⟩⟩
instance [Add K] [Mul K] : Mul (Dual K) := ⟨fun a b => ⟨a.v * b.v, a.v * b.d + a.d * b.v⟩⟩

/-- multiplication by a gradient-free scalar `c * x` -/
def smul [Mul K] (c : K) (a : Dual K) : Dual K := ⟨c * a.v, c * a.d⟩
/-- division by a gradient-free scalar `x / c` -/
def divc [Div K] (a : Dual K) (c : K) : Dual K := ⟨a.v / c, a.d / c⟩
/-- `exp` (or any smooth function `w` with `w' = w`): value `w v`, derivative `w v * d` -/
def expw [Mul K] (w : K → K) (a : Dual K) : Dual K := ⟨w a.v, w a.v * a.d⟩

@[simp] theorem zero_v [Zero K] : (0 : Dual K).v = 0 := rfl
@[simp] theorem zero_d [Zero K] : (0 : Dual K).d = 0 := rfl
@[simp] theorem add_v [Add K] (a b : Dual K) : (a + b).v = a.v + b.v := rfl
@[simp] theorem add_d [Add K] (a b : Dual K) : (a + b).d = a.d + b.d := rfl
@[simp] theorem sub_v [Sub K] (a b : Dual K) : (a - b).v = a.v - b.v := rfl
@[simp] theorem sub_d [Sub K] (a b : Dual K) : (a - b).d = a.d - b.d := rfl
@[simp] theorem neg_v [Neg K] (a : Dual K) : (-a).v = -a.v := rfl
@[simp] theorem neg_d [Neg K] (a : Dual K) : (-a).d = -a.d := rfl
@[simp] theorem mul_v [Add K] [Mul K] (a b : Dual K) : (a * b).v = a.v * b.v := rfl
@[simp] theorem mul_d [Add K] [Mul K] (a b : Dual K) : (a * b).d = a.v * b.d + a.d * b.v := rfl
@[simp] theorem const_v [Zero K] (x : K) : (const x).v = x := rfl
@[simp] theorem const_d [Zero K] (x : K) : (const x).d = 0 := rfl
@[simp] theorem detach_v [Zero K] (a : Dual K) : (detach a).v = a.v := rfl
@[simp] theorem detach_d [Zero K] (a : Dual K) : (detach a).d = 0 := rfl
@[simp] theorem smul_v [Mul K] (c : K) (a : Dual K) : (smul c a).v = c * a.v := rfl
@[simp] theorem smul_d [Mul K] (c : K) (a : Dual K) : (smul c a).d = c * a.d := rfl
@[simp] theorem divc_v [Div K] (a : Dual K) (c : K) : (divc a c).v = a.v / c := rfl
@[simp] theorem divc_d [Div K] (a : Dual K) (c : K) : (divc a c).d = a.d / c := rfl
@[simp] theorem expw_v [Mul K] (w : K → K) (a : Dual K) : (expw w a).v = w a.v := rfl
@[simp] theorem expw_d [Mul K] (w : K → K) (a : Dual K) : (expw w a).d = w a.v * a.d := rfl

end Dual

@[simp] theorem sumTo_zero {α : Type} [Add α] [Zero α] (f : Nat → α) : sumTo 0 f = 0 := rfl
theorem sumTo_succ {α : Type} [Add α] [Zero α] (n : Nat) (f : Nat → α) :
    sumTo (n + 1) f = sumTo n f + f n := rfl

theorem sumTo_v {K : Type} [Add K] [Zero K] (n : Nat) (f : Nat → Dual K) :
    (sumTo n f).v = sumTo n (fun i => (f i).v) := by
  induction n with
  | zero => rfl
  | succ n ih => simp [sumTo_succ, ih]

theorem sumTo_d {K : Type} [Add K] [Zero K] (n : Nat) (f : Nat → Dual K) :
    (sumTo n f).d = sumTo n (fun i => (f i).d) := by
  induction n with
  | zero => rfl
  | succ n ih => simp [sumTo_succ, ih]

theorem sumTo_congr {α : Type} [Add α] [Zero α] (n : Nat) (f g : Nat → α)
    (h : ∀ i, i < n → f i = g i) : sumTo n f = sumTo n g := by
  induction n with
  | zero => rfl
  | succ n ih =>
    rw [sumTo_succ, sumTo_succ, ih (fun i hi => h i (Nat.lt_succ_of_lt hi)), h n (Nat.lt_succ_self n)]

/-! ### Shaped tensors of rank ≤ 2 -/

inductive Shape where
  | s                    -- 0-dim (also a Python number)
  | v (n : Nat)          -- `[n]`
  | m (n k : Nat)        -- `[n, k]`
deriving DecidableEq, Repr

namespace Shape
def rows : Shape → Nat
  | s => 1 | v _ => 1 | m n _ => n
def cols : Shape → Nat
  | s => 1 | v n => n | m _ k => k
def rank : Shape → Nat
  | s => 0 | v _ => 1 | m _ _ => 2
def numel (sh : Shape) : Nat := sh.rows * sh.cols
def ofRank : Nat → Nat → Nat → Shape
  | 0, _, _ => s
  | 1, _, k => v k
  | _, n, k => m n k
def toStr : Shape → String
  | s => "[]" | v n => s!"[{n}]" | m n k => s!"[{n},{k}]"
end Shape

/-- broadcasting of one dimension: equal, or one of them is 1 -/
def bdim (a b : Nat) : Option Nat :=
  if a = b then some a else if a = 1 then some b else if b = 1 then some a else none

/-- PyTorch broadcasting of two shapes (right-aligned; a `[n]` vector is a `1×n` row) -/
def bshape (a b : Shape) : Option Shape :=
  match bdim a.rows b.rows, bdim a.cols b.cols with
  | some r, some c => some (Shape.ofRank (max a.rank b.rank) r c)
  | _, _ => none

/-- A tensor: shape and index function `(row, col) ↦ entry` (a vector is indexed by `col`). -/
structure Ten (α : Type) where
  sh : Shape
  f : Nat → Nat → α

namespace Ten
variable {α β γ : Type}

def scalar (x : α) : Ten α := ⟨Shape.s, fun _ _ => x⟩
def vec (n : Nat) (g : Nat → α) : Ten α := ⟨Shape.v n, fun _ j => g j⟩
def mat (n k : Nat) (g : Nat → Nat → α) : Ten α := ⟨Shape.m n k, g⟩

/-- entry with broadcasting: a dimension of size 1 is read at index 0 (and an in-range index of a
full dimension at itself) -/
def get (t : Ten α) (i j : Nat) : α := t.f (i % t.sh.rows) (j % t.sh.cols)

def map (g : α → β) (t : Ten α) : Ten β := ⟨t.sh, fun i j => g (t.f i j)⟩

/-- elementwise binary operation with broadcasting; `none` = shapes not broadcastable (torch raises) -/
def bop (g : α → β → γ) (a : Ten α) (b : Ten β) : Option (Ten γ) :=
  match bshape a.sh b.sh with
  | some sh => some ⟨sh, fun i j => g (a.get i j) (b.get i j)⟩
  | none => none

/-- `x.view(-1, 1)` / `x.reshape(-1, 1)` (row-major flattening into one column) -/
def viewCol (t : Ten α) : Ten α :=
  ⟨Shape.m t.sh.numel 1, fun i _ => t.f (i / t.sh.cols) (i % t.sh.cols)⟩

/-- `x.squeeze(-1)`: drops the last dimension when it has size 1 -/
def squeezeLast (t : Ten α) : Ten α :=
  match t.sh with
  | Shape.m n 1 => ⟨Shape.v n, fun _ j => t.f j 0⟩
  | Shape.v 1 => ⟨Shape.s, fun _ _ => t.f 0 0⟩
  | _ => t

section sums
variable [Add α] [Zero α]

/-- `x.sum()` over all entries -/
def sumAll (t : Ten α) : α := sumTo t.sh.rows (fun i => sumTo t.sh.cols (fun j => t.f i j))

/-- `x.sum(dim=-1)` -/
def sumLast (t : Ten α) : Ten α :=
  match t.sh with
  | Shape.m n k => ⟨Shape.v n, fun _ i => sumTo k (fun j => t.f i j)⟩
  | Shape.v n => ⟨Shape.s, fun _ _ => sumTo n (fun j => t.f 0 j)⟩
  | Shape.s => t
end sums

def toList (t : Ten α) : List α :=
  (List.range t.sh.rows).flatMap (fun i => (List.range t.sh.cols).map (fun j => t.f i j))

end Ten

namespace Ten
variable {K : Type} [Add K] [Zero K] [Div K] [NatCast K]

/-- `x.mean()` over all entries -/
def meanAll (t : Ten (Dual K)) : Dual K := Dual.divc (sumAll t) (t.sh.numel : K)

/-- `x.mean(dim=1, keepdims=True)` of a `[n,k]` tensor → `[n,1]`; of a vector `[n]` (dim = -1) → `[1]` -/
def meanLastKeep (t : Ten (Dual K)) : Ten (Dual K) :=
  match t.sh with
  | Shape.m n k => ⟨Shape.m n 1, fun i _ => Dual.divc (sumTo k (fun j => t.f i j)) (k : K)⟩
  | Shape.v n => ⟨Shape.v 1, fun _ _ => Dual.divc (sumTo n (fun j => t.f 0 j)) (n : K)⟩
  | Shape.s => t

end Ten

end Rl4co.Train
