/-
Model of the bundled datasets, the data loader and the rollout-baseline wrapping.  No Mathlib.

Mirrors
* `rl4co/data/dataset.py`: `TensorDictDataset` (`__init__` disassembles the TensorDict into the list
  of its rows, `__getitem__ i` = row `i`, `collate_fn` = stack), `FastTdDataset.__getitems__ idx =
  data[idx]`, `TensorDictDatasetFastGeneration.__getitems__` (per-key `item[index]`), both with the
  identity `collate_fn`; `ExtraKeyDataset.__getitem__ i` = row `i` with `extra[i]` under the new key;
* `torch.utils.data.DataLoader(dataset, batch_size, shuffle, collate_fn)` with `drop_last=False`:
  the sampler yields an order of indices (sequential, or a permutation when `shuffle`), the batch
  sampler cuts it into consecutive chunks of `batch_size` (last one possibly shorter), each chunk is
  fetched (`[dataset[i] for i in chunk]` or `dataset.__getitems__(chunk)`) and collated;
* `rl4co/models/rl/reinforce/baselines.py:RolloutBaseline.rollout`
  (`torch.cat([eval_policy(batch) for batch in dl], 0)`) and `wrap_dataset`
  (`dataset.add_key("extra", rewards)`).
-/
namespace Rl4co.Ops

variable {α β : Type}

/-- consecutive chunks of size `n` (the last one may be shorter); `fuel` bounds the recursion -/
def chunksAux (n : Nat) : Nat → List α → List (List α)
  | 0, _ => []
  | _, [] => []
  | fuel + 1, x :: xs => (x :: xs).take n :: chunksAux n fuel ((x :: xs).drop n)

/-- `BatchSampler(sampler, batch_size = n, drop_last = False)` -/
def chunks (n : Nat) (xs : List α) : List (List α) := chunksAux n xs.length xs

/-- fetching a batch: every dataset class returns, for the index list `idxs`, the stack of the
items `item i` in that order -/
def fetch (item : Nat → α) (idxs : List Nat) : List α := idxs.map item

/-- batches of `DataLoader(ds, batch_size = bs, collate_fn = ds.collate_fn)` under sampler order
`order` -/
def loader (bs : Nat) (order : List Nat) (item : Nat → α) : List (List α) :=
  (chunks bs order).map (fetch item)

/-- `ExtraKeyDataset.__getitem__` -/
def extraItem (item : Nat → α) (extra : Nat → β) : Nat → α × β := fun i => (item i, extra i)

/-- `RolloutBaseline.rollout`: concatenation of the policy's per-batch rewards over the sequential
loader of `ds` with evaluation batch size `bs` -/
def rollout (f : List α → List β) (bs : Nat) (ds : List α) : List β :=
  ((chunks bs ds).map f).flatten

/-- a batch function that acts row by row (what a policy in `eval()` mode with greedy decoding is
assumed to be; checked on the stub policies the harness uses, an assumption for real networks) -/
def RowWise (f : List α → List β) : Prop := ∃ g : α → β, ∀ xs, f xs = xs.map g

/-- `wrap_dataset`: item `i` of the wrapped data set -/
def wrapItem (f : List α → List β) (bs : Nat) (ds : List α) (dflt : α) (dfltB : β) : Nat → α × β :=
  extraItem (fun i => ds.getD i dflt) (fun i => (rollout f bs ds).getD i dfltB)

/-! ### the stateful view: items shared by reference

`TensorDictDataset.data` is a Python list of dicts, and `ExtraKeyDataset(dataset, extra, key)` keeps a
reference to that very list: `__getitem__ i` does `data = self.data[i]; data[key] = self.extra[i];
return data`, i.e. it WRITES the key into the shared dict (overwriting whatever an earlier wrapper left
there) and returns it.  `Store` is the list of dicts after an arbitrary history of reads. -/

abbrev Dict (β : Type) := List (String × β)

def Dict.get? (d : Dict β) (k : String) : Option β := (d.find? (fun p => p.1 == k)).map (·.2)

/-- `data[key] = v` -/
def Dict.set (d : Dict β) (k : String) (v : β) : Dict β := (k, v) :: d.filter (fun p => !(p.1 == k))

abbrev Store (β : Type) := List (Dict β)

/-- `ExtraKeyDataset.__getitem__ i` on the shared store: new store and the returned dict -/
def readExtra (st : Store β) (key : String) (extra : Nat → β) (i : Nat) : Store β × Dict β :=
  let d := (st.getD i []).set key (extra i)
  (st.set i d, d)

/-- reading a whole index list through one wrapper, threading the store -/
def readMany (st : Store β) (key : String) (extra : Nat → β) : List Nat → Store β × List (Dict β)
  | [] => (st, [])
  | i :: is =>
    let (st1, d) := readExtra st key extra i
    let (st2, ds) := readMany st1 key extra is
    (st2, d :: ds)

end Rl4co.Ops
