/-
Model of the bundled datasets, the data loader and the rollout-baseline wrapping.  No Mathlib.

Mirrors
* `rl4co/data/dataset.py`: `TensorDictDataset` (`__init__` disassembles the TensorDict into the list
  of its rows, `__getitem__ i` = row `i`, `collate_fn` = stack), `FastTdDataset.__getitems__ idx =
  data[idx]`, `TensorDictDatasetFastGeneration.__getitems__` (per-key `item[index]`), both with the
  identity `collate_fn`; `ExtraKeyDataset.__getitem__ i` = row `i` with `extra[i]` under the new key;
* `torch.utils.data.DataLoader(dataset, batch_size, shuffle, collate_fn)` with `drop_last=False`:
  the sampler yields an order of indices (sequential, or a permutation when `shuffle`), the batch
  sampler cuts it into consecutive chunks of `batch_size` (last one possibly shorter), each chunk is
  fetched (`[dataset[i] for i in chunk]` or `dataset.__getitems__(chunk)`) and collated;
* `rl4co/models/rl/reinforce/baselines.py:RolloutBaseline.rollout`
  (`torch.cat([eval_policy(batch) for batch in dl], 0)`) and `wrap_dataset`
  (`dataset.add_key("extra", rewards)`).
-/
import Rl4co.Generated.Params
namespace Rl4co.Ops

variable {α β : Type}

/-- consecutive chunks of size `n` (the last one may be shorter); `fuel` bounds the recursion -/
def chunksAux (n : Nat) : Nat → List α → List (List α)
  | 0, _ => []
  | _, [] => []
  | fuel + 1, x :: xs => (x :: xs).take n :: chunksAux n fuel ((x :: xs).drop n)

/-- `BatchSampler(sampler, batch_size = n, drop_last = False)` -/
def chunks (n : Nat) (xs : List α) : List (List α) := chunksAux n xs.length xs

/-- the three fetch paths hand back the items of the index list exactly as given:
`TensorDictDataset.collate_fn` stacks `[b[key] for b in batch]`, `FastTdDataset.__getitems__` is
`return self.data[idx]`, `TensorDictDatasetFastGeneration.__getitems__` indexes every entry with the
list as given (all three regenerated from the source, `harness/probes/ops.py`) -/
def fetchDirect : Bool := Params.dsCollateInOrder && Params.dsFastTdDirect && Params.dsFastGenDirect

/-- fetching a batch: every dataset class returns, for the index list `idxs`, the stack of the
items `item i` in that order.  When a fetch path has another shape (a fast path, a re-ordering …)
nothing is known about it: modelled as delivering nothing, so that no theorem survives. -/
def fetch (item : Nat → α) (idxs : List Nat) : List α := if fetchDirect then idxs.map item else []

/-- batches of `DataLoader(ds, batch_size = bs, collate_fn = ds.collate_fn)` under sampler order
`order` -/
def loader (bs : Nat) (order : List Nat) (item : Nat → α) : List (List α) :=
  (chunks bs order).map (fetch item)

/-- index expression of `self.extra[idx]` (`Params.dsExtraIndexShift` = 0 for `idx`) -/
def extraIdx (i : Nat) : Nat := (Int.ofNat i + Params.dsExtraIndexShift).toNat

/-- `ExtraKeyDataset.__getitem__` -/
def extraItem (item : Nat → α) (extra : Nat → β) : Nat → α × β := fun i => (item i, extra (extraIdx i))

/-- order of the loader `RL4COLitModule._dataloader_single(dataset, bs, shuffle)` builds: it passes
`shuffle=shuffle` on (`Params.loaderShufflePassthrough`), so without shuffling the order is sequential;
`perm` is the permutation a shuffling sampler draws (observed, not modelled) -/
def moduleOrder (shuffle : Bool) (n : Nat) (perm : List Nat) : List Nat :=
  if (if Params.loaderShufflePassthrough then shuffle else true) then perm else List.range n

/-- `RolloutBaseline.rollout`: concatenation of the policy's per-batch rewards over the sequential
loader of `ds` with evaluation batch size `bs` -/
def rollout (f : List α → List β) (bs : Nat) (ds : List α) : List β :=
  -- `DataLoader(dataset, batch_size=…, collate_fn=…)` (sequential, nothing dropped) and
  -- `torch.cat([eval_policy(batch) for batch in dl], 0)`; any other shape: nothing known
  if Params.blRolloutLoaderPlain && Params.blRolloutPlainConcat then ((chunks bs ds).map f).flatten else []

/-- a rollout function evaluates the policy in the mode it put it in: `fEval` (inference behaviour: running batch-norm
statistics, no dropout — row-wise) if it calls `.eval()` first, otherwise whatever mode the caller left it in
(`fTrain` during `fit`: batch statistics, i.e. NOT row-wise) -/
def rolloutWith (evalMode : Bool) (fEval fTrain : List α → List β) (bs : Nat) (ds : List α) : List β :=
  rollout (if evalMode then fEval else fTrain) bs ds

/-- `RolloutBaseline.rollout` (`policy.eval()` regenerated from the source) -/
def blRollout (fEval fTrain : List α → List β) (bs : Nat) (ds : List α) : List β :=
  rolloutWith Params.blRolloutEvalMode fEval fTrain bs ds

/-- MDAM's own rollout function (`zoo/mdam/model.py:rollout`, installed into the rollout baseline): `model.eval()`,
sequential loader, `torch.cat([eval_model(batch) for batch in dl], 0)` with `eval_model` = best greedy reward over
the decoder paths (part of `fEval`) -/
def mdamRollout (fEval fTrain : List α → List β) (bs : Nat) (ds : List α) : List β :=
  if Params.mdamRolloutPlainConcat then rolloutWith Params.mdamRolloutEvalMode fEval fTrain bs ds else []

/-- a batch function that acts row by row (what a policy in `eval()` mode with greedy decoding is
assumed to be; checked on the stub policies the harness uses, an assumption for real networks) -/
def RowWise (f : List α → List β) : Prop := ∃ g : α → β, ∀ xs, f xs = xs.map g

/-- `wrap_dataset`: item `i` of the wrapped data set -/
def wrapItem (f : List α → List β) (bs : Nat) (ds : List α) (dflt : α) (dfltB : β) : Nat → α × β :=
  extraItem (fun i => ds.getD i dflt) (fun i => (rollout f bs ds).getD i dfltB)

/-! ### the data set classes as functions on a TensorDict given by its columns -/

abbrev Dict (β : Type) := List (String × β)

def Dict.get? (d : Dict β) (k : String) : Option β := (d.find? (fun p => p.1 == k)).map (·.2)

/-- a TensorDict with one batch dimension: key ↦ column of per-instance values -/
abbrev Cols (β : Type) := List (String × List β)

/-- `{key: value[i] for key, value in td.items()}` -/
def Cols.row (td : Cols β) (d : β) (i : Nat) : Dict β := td.map (fun kc => (kc.1, kc.2.getD i d))

/-- `TensorDictDataset.__init__`: `[{key: value[i] …} for i in range(self.data_len)]` -/
def tddInit (td : Cols β) (d : β) (len : Nat) : List (Dict β) :=
  if Params.dsInitRowsInOrder then (List.range len).map (td.row d) else []

/-- `TensorDictDataset.__getitem__` -/
def tddGetitem (data : List (Dict β)) (i : Nat) : Dict β := data.getD i []

/-- `TensorDictDataset.collate_fn`: `{key: torch.stack([b[key] for b in batch]) for key in batch[0].keys()}` -/
def collate (d : β) (batch : List (Dict β)) : Cols β :=
  if Params.dsCollateInOrder then
    match batch with
    | [] => []
    | b0 :: _ => b0.map (fun kv => (kv.1, batch.map (fun b => (b.get? kv.1).getD d)))
  else []

/-- indexing a TensorDict with an index list: every column indexed with the list as given -/
def tdIndex (td : Cols β) (d : β) (idxs : List Nat) : Cols β :=
  td.map (fun kc => (kc.1, idxs.map (fun i => kc.2.getD i d)))

/-- `FastTdDataset.__getitems__(idx)` = `self.data[idx]` -/
def fastGetitems (td : Cols β) (d : β) (idxs : List Nat) : Cols β :=
  if Params.dsFastTdDirect then tdIndex td d idxs else []

/-- `TensorDictDatasetFastGeneration.__getitems__(index)` = `{key: item[index] for key, item in self.data.items()}` -/
def fastGenGetitems (td : Cols β) (d : β) (idxs : List Nat) : Cols β :=
  if Params.dsFastGenDirect then tdIndex td d idxs else []

/-- what `DataLoader` hands to the consumer for one index batch of a `TensorDictDataset` -/
def tddFetch (td : Cols β) (d : β) (len : Nat) (idxs : List Nat) : Cols β :=
  collate d (idxs.map (tddGetitem (tddInit td d len)))

/-! ### `EvalBase.__call__`: concatenation of per-batch results with right zero-padding of the actions

```
for batch in dataloader: actions, rewards = self._inner(policy, td); rewards_list.append(rewards); actions_list.append(actions)
rewards = torch.cat(rewards_list)
max_length = max(action.size(-1) for action in actions_list)
actions = torch.cat([pad(action, (0, max_length - action.size(-1))) for action in actions_list], 0)
``` -/

/-- `torch.nn.functional.pad(row, (left, L - len))` with zeros; `left = Params.evalPadLeft` (0 in the source) -/
def padRow (L : Nat) (row : List Int) : List Int :=
  List.replicate (min Params.evalPadLeft (L - row.length)) 0 ++ row ++
    List.replicate (L - row.length - min Params.evalPadLeft (L - row.length)) 0

def maxLen (rows : List (List Int)) : Nat := rows.foldl (fun m r => max m r.length) 0

/-- result of `EvalBase.__call__` for per-batch outcomes `outs` (a batch outcome = one
`(reward, action row)` per instance): `(rewards, actions)` -/
def evalCall (inner : List α → List (β × List Int)) (batches : List (List α)) : List β × List (List Int) :=
  if Params.evalCatInOrder then
    let outs := batches.map inner
    let rows := (outs.map (fun o => o.map Prod.snd)).flatten
    ((outs.map (fun o => o.map Prod.fst)).flatten, rows.map (padRow (maxLen rows)))
  else ([], [])

/-! ### the epoch boundary of REINFORCE with the (warm-up +) greedy rollout baseline

```
def on_train_epoch_end(self):
    self.baseline.epoch_callback(self.policy, env=…, epoch=self.current_epoch, …)   # may replace the baseline policy, advances alpha
    super().on_train_epoch_end()          # train_dataset = self.wrap_dataset(env.dataset(…))
```
`WarmupBaseline.epoch_callback`: inner `RolloutBaseline.epoch_callback` (challenge: candidate replaces the baseline
policy when accepted), then `if epoch < n_epochs: alpha = (epoch + 1) / n_epochs`.
`WarmupBaseline.wrap_dataset`: `alpha > 0` → the rollout baseline attaches `extra = rollout(baseline.policy)`,
otherwise the data set is left unwrapped. -/

/-- baseline state: the frozen baseline policy and the numerator of the warm-up `alpha` -/
structure BlState (π : Type) where
  policy : π
  alphaNum : Nat
  deriving DecidableEq

/-- `WarmupBaseline.epoch_callback(candidate, epoch=…)`; `accept cand cur` = outcome of the challenge -/
def blCallback {π : Type} (accept : π → π → Bool) (nEpochs epoch : Nat) (cand : π) (b : BlState π) : BlState π :=
  { policy := if accept cand b.policy then cand else b.policy
    alphaNum := if epoch < nEpochs then epoch + 1 else b.alphaNum }

/-- `WarmupBaseline.wrap_dataset(ds)`: per item the attached value (`none` = not wrapped during warm-up);
the values are the concatenated per-batch rewards of the baseline policy (`rollout`, evaluation batch size `bs`) -/
def blWrap {π : Type} (pol : π → List α → List β) (bs : Nat) (b : BlState π) (ds : List α) :
    List (α × Option β) :=
  if b.alphaNum > 0 then List.zipWith (fun x v => (x, some v)) ds (rollout (pol b.policy) bs ds)
  else ds.map (fun x => (x, none))

/-- the epoch boundary with the two calls in either order -/
def epochEnd {π : Type} (callbackFirst : Bool) (accept : π → π → Bool) (nEpochs epoch : Nat) (cand : π)
    (pol : π → List α → List β) (bs : Nat) (b : BlState π) (newData : List α) :
    BlState π × List (α × Option β) :=
  if callbackFirst then
    let b' := blCallback accept nEpochs epoch cand b
    (b', blWrap pol bs b' newData)
  else (blCallback accept nEpochs epoch cand b, blWrap pol bs b newData)

/-- `REINFORCE.on_train_epoch_end` (statement order regenerated from the source) -/
def reinforceEpochEnd {π : Type} := @epochEnd α β π Params.rfCallbackBeforeSuper

/-! ### the stateful view: items shared by reference

`TensorDictDataset.data` is a Python list of dicts, and `ExtraKeyDataset(dataset, extra, key)` keeps a
reference to that very list: `__getitem__ i` does `data = self.data[i]; data[key] = self.extra[i];
return data`, i.e. it WRITES the key into the shared dict (overwriting whatever an earlier wrapper left
there) and returns it.  `Store` is the list of dicts after an arbitrary history of reads. -/

/-- `data[key] = v` -/
def Dict.set (d : Dict β) (k : String) (v : β) : Dict β := (k, v) :: d.filter (fun p => !(p.1 == k))

abbrev Store (β : Type) := List (Dict β)

/-- `ExtraKeyDataset.__getitem__ i` on the shared store: new store and the returned dict -/
def readExtra (st : Store β) (key : String) (extra : Nat → β) (i : Nat) : Store β × Dict β :=
  let cur := st.getD i []
  -- `Params.dsExtraWriteUnconditional`: the assignment is a plain statement of the body; a guarded
  -- write ("attach only once") is modelled as writing only when the key is absent
  let d := if Params.dsExtraWriteUnconditional || ((cur.get? key).isNone) then cur.set key (extra (extraIdx i)) else cur
  (st.set i d, d)

/-- reading a whole index list through one wrapper, threading the store -/
def readMany (st : Store β) (key : String) (extra : Nat → β) : List Nat → Store β × List (Dict β)
  | [] => (st, [])
  | i :: is =>
    let (st1, d) := readExtra st key extra i
    let (st2, ds) := readMany st1 key extra is
    (st2, d :: ds)

end Rl4co.Ops
